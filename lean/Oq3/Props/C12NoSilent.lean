/-
C12, second clause — "a parse that reports no diagnostics contains no error node or error token,
and a tree that contains one is always accompanied by at least one diagnostic".

Proved (all inputs: every token-kind array, every joint-bit array, every fuel, every setting of
the no-progress hook), for the repaired grammar (finding F10: `array_type_spec` now does
`p.expect(ARRAY_KW)` instead of `p.bump_any()`):

* `no_silent_error`: whenever `source_file` returns, the event list satisfies `NoSilent`: an
  `ERROR` node (`Start{kind: ERROR}`) or an `ERROR` token (`Token{kind: ERROR}` — the lexer emits
  `ERROR` tokens for unknown characters WITHOUT a lexer diagnostic, so the parser has to report)
  is accompanied by at least one `Error` event;
* `process_no_silent`: the same for the step list `event::process` makes of the events
  (`Enter{ERROR}` / `Token{ERROR}` steps ⇒ an `Error` step): tokens and errors pass through
  `process` unchanged (`process_items`), and every `Enter` step comes from a `Start` event of the
  same kind (`process_enters`, proved here);
* `tree_no_silent`: the same for the tree: if `build_tree` returns a tree with an `ERROR` node or
  an `ERROR` leaf then its diagnostics list is not empty; contrapositive `clean_parse_no_error`.

The proof obligations per grammar function are GENERATED (`tools/gen_grammar_nosilent.py` →
`Lemmas/GrammarNoSilent.lean`) on top of the primitive layer `Lemmas/NoSilent.lean`; with the
F10 site put back (`bump_any` instead of `expect(ARRAY_KW)`) exactly the obligation of
`arrayTypeSpec` fails, at that `bump_any`.

Outside the scope: `grammar::entry::top::expr` (`TopEntryPoint::Expr`, not used by `oq3_syntax`)
wraps trailing tokens into an `ERROR` node without a diagnostic by design
(`entryExpr_silent_witness`).
-/
import Oq3.Lemmas.GrammarNoSilent
import Oq3.Lemmas.ParseTop
import Oq3.Lemmas.Builder

namespace Oq3.Props.C12
open Oq3.Gen Oq3.Parser Oq3.Grammar Oq3.Builder

/-! ### events -/

/-- the C12 clause on an event list -/
def NoSilentL (evs : List Ev) : Prop :=
  (∃ e ∈ evs, (∃ fp, e = Ev.start .ERROR fp) ∨ (∃ n, e = Ev.token .ERROR n)) →
    ∃ m, Ev.error m ∈ evs

theorem noSilent_iff (s : P) : NoSilent s ↔ NoSilentL s.events.toList := Iff.rfl

/-- **No silent error node or token.**  Whenever `source_file` returns, an `ERROR` node or an
`ERROR` token among the events is accompanied by at least one `Error` event. -/
theorem no_silent_error (fuel : Nat) (kinds : Array SyntaxKind) (joint : Array Bool) (limit : Nat)
    (u : Unit) (s' : P)
    (h : sourceFile fuel { kinds := kinds, joint := joint, noProgressLimit := limit } = .ok (u, s')) :
    NoSilent s' :=
  (((sourceFile_ns fuel).tr True Any).run _ _ (St.init kinds joint limit) h).noSilent

/-- the same, spelled out -/
theorem no_silent_error' (fuel : Nat) (kinds : Array SyntaxKind) (joint : Array Bool) (limit : Nat)
    (u : Unit) (s' : P)
    (h : sourceFile fuel { kinds := kinds, joint := joint, noProgressLimit := limit } = .ok (u, s'))
    (e : Ev) (he : e ∈ s'.events.toList)
    (hk : (∃ fp, e = Ev.start .ERROR fp) ∨ (∃ n, e = Ev.token .ERROR n)) :
    ∃ m, Ev.error m ∈ s'.events.toList :=
  no_silent_error fuel kinds joint limit u s' h ⟨e, he, hk⟩

/-- for the entry point of the model (`parseSourceFile`) -/
theorem parseSourceFile_no_silent (fuel : Nat) (kinds : Array SyntaxKind) (joint : Array Bool)
    (limit : Nat) (evs : Array Ev) (pos : Nat)
    (h : parseSourceFile fuel kinds joint limit = .ok (evs, pos)) : NoSilentL evs.toList := by
  unfold parseSourceFile parseWith at h
  split at h
  · rename_i u s hs
    split at h
    · simp at h
    · simp only [Except.ok.injEq, Prod.mk.injEq] at h
      obtain ⟨rfl, _⟩ := h
      exact no_silent_error fuel kinds joint limit u s hs
  · simp at h

/-- a parse without diagnostics has no `ERROR` node and no `ERROR` token -/
theorem no_error_event_clean (fuel : Nat) (kinds : Array SyntaxKind) (joint : Array Bool)
    (limit : Nat) (evs : Array Ev) (pos : Nat)
    (h : parseSourceFile fuel kinds joint limit = .ok (evs, pos))
    (hne : ∀ m, Ev.error m ∉ evs.toList) :
    (∀ fp, Ev.start .ERROR fp ∉ evs.toList) ∧ (∀ n, Ev.token .ERROR n ∉ evs.toList) := by
  have := parseSourceFile_no_silent fuel kinds joint limit evs pos h
  constructor
  · intro fp hm
    obtain ⟨m, hm'⟩ := this ⟨_, hm, .inl ⟨fp, rfl⟩⟩
    exact hne m hm'
  · intro n hm
    obtain ⟨m, hm'⟩ := this ⟨_, hm, .inr ⟨n, rfl⟩⟩
    exact hne m hm'

/-! ### through `event::process` -/

/-- some `Start` event of kind `k` -/
def HasStart (evs : List Ev) (k : SyntaxKind) : Prop := ∃ fp, Ev.start k fp ∈ evs

theorem hasStart_of_set_tomb {evs : List Ev} {i : Nat} {k : SyntaxKind}
    (h : HasStart (evs.set i Ev.tombstone) k) : HasStart evs k ∨ k = .TOMBSTONE := by
  obtain ⟨fp, hm⟩ := h
  rcases List.mem_or_eq_of_mem_set hm with hm | he
  · exact .inl ⟨fp, hm⟩
  · unfold Ev.tombstone at he
    simp only [Ev.start.injEq] at he
    exact .inr he.1

theorem mem_enters {ks : List SyntaxKind} {s : Step} (h : s ∈ enters ks) :
    ∃ k, s = .enter k ∧ k ∈ ks ∧ k ≠ .TOMBSTONE := by
  unfold enters at h
  simp only [List.mem_map, List.mem_filter, bne_iff_ne, ne_eq] at h
  obtain ⟨k, ⟨hk, hne⟩, rfl⟩ := h
  exact ⟨k, rfl, hk, hne⟩

theorem chain_kinds (fuel : Nat) (evs : List Ev) (idx fwd : Nat) (acc ks : List SyntaxKind)
    (evs' : List Ev) (hc : chain fuel evs idx fwd acc = some (ks, evs')) :
    (∀ k ∈ ks, k ∈ acc ∨ HasStart evs k ∨ k = .TOMBSTONE) ∧
      (∀ k, HasStart evs' k → HasStart evs k ∨ k = .TOMBSTONE) := by
  induction fuel generalizing evs idx fwd acc with
  | zero => simp [chain] at hc
  | succ fuel ih =>
    simp only [chain] at hc
    split at hc
    · rename_i k ht
      simp only [Option.some.injEq, Prod.mk.injEq] at hc
      obtain ⟨rfl, rfl⟩ := hc
      refine ⟨?_, fun k' h => hasStart_of_set_tomb h⟩
      intro k' hk'
      rcases List.mem_cons.mp hk' with rfl | h
      · exact .inr (.inl ⟨none, List.mem_of_getElem? ht⟩)
      · exact .inl h
    · rename_i k f ht
      obtain ⟨h1, h2⟩ := ih _ _ _ _ hc
      refine ⟨?_, ?_⟩
      · intro k' hk'
        rcases h1 k' hk' with h | h | h
        · rcases List.mem_cons.mp h with rfl | h
          · exact .inr (.inl ⟨some f, List.mem_of_getElem? ht⟩)
          · exact .inl h
        · exact .inr (hasStart_of_set_tomb h)
        · exact .inr (.inr h)
      · intro k' hk'
        rcases h2 k' hk' with h | h
        · exact hasStart_of_set_tomb h
        · exact .inr h
    · simp at hc

/-- every `Enter` step that `process` emits comes from a `Start` event of the same kind -/
theorem processGo_enters (n i : Nat) (evs : List Ev) (out res : List Step) (evs0 : List Ev)
    (hgo : processGo n i evs out = some res)
    (hev : ∀ k, HasStart evs k → HasStart evs0 k ∨ k = .TOMBSTONE)
    (hout : ∀ k, Step.enter k ∈ out → HasStart evs0 k) :
    ∀ k, Step.enter k ∈ res → HasStart evs0 k := by
  induction n generalizing i evs out with
  | zero => simp only [processGo, Option.some.injEq] at hgo; subst hgo; exact hout
  | succ n ih =>
    have hset : ∀ k, HasStart (evs.set i Ev.tombstone) k → HasStart evs0 k ∨ k = .TOMBSTONE := by
      intro k h
      rcases hasStart_of_set_tomb h with h | h
      · exact hev k h
      · exact .inr h
    have hplain : ∀ (s : Step), (∀ k, s ≠ .enter k) →
        ∀ k, Step.enter k ∈ out ++ [s] → HasStart evs0 k := by
      intro s hs k hk
      rcases List.mem_append.mp hk with h | h
      · exact hout k h
      · exact absurd (List.mem_singleton.mp h).symm (hs k)
    simp only [processGo] at hgo
    split at hgo
    · simp at hgo
    · rename_i k hi
      refine ih _ _ _ hgo hset ?_
      intro k' hk'
      rcases List.mem_append.mp hk' with h | h
      · exact hout k' h
      · obtain ⟨k2, he, hmem, hne⟩ := mem_enters h
        cases he
        simp only [List.mem_singleton] at hmem; subst hmem
        rcases hev k' ⟨none, List.mem_of_getElem? hi⟩ with h | h
        · exact h
        · exact absurd h hne
    · rename_i k f hi
      split at hgo
      · simp at hgo
      · rename_i ks evs' hch
        obtain ⟨h1, h2⟩ := chain_kinds _ _ _ _ _ _ _ hch
        refine ih _ _ _ hgo ?_ ?_
        · intro k' hk'
          rcases h2 k' hk' with h | h
          · exact hset k' h
          · exact .inr h
        · intro k' hk'
          rcases List.mem_append.mp hk' with h | h
          · exact hout k' h
          · obtain ⟨k2, he, hmem, hne⟩ := mem_enters h
            cases he
            rcases h1 k' hmem with h | h | h
            · simp only [List.mem_singleton] at h; subst h
              rcases hev k' ⟨some f, List.mem_of_getElem? hi⟩ with h | h
              · exact h
              · exact absurd h hne
            · rcases hset k' h with h | h
              · exact h
              · exact absurd h hne
            · exact absurd h hne
    · exact ih _ _ _ hgo hset (hplain _ (by intro _ h; cases h))
    · exact ih _ _ _ hgo hset (hplain _ (by intro _ h; cases h))
    · exact ih _ _ _ hgo hset (hplain _ (by intro _ h; cases h))

theorem process_enters (evs : List Ev) (res : List Step) (hp : process evs = some res) (k : SyntaxKind)
    (hk : Step.enter k ∈ res) : HasStart evs k :=
  processGo_enters evs.length 0 evs [] res evs hp (fun _ h => .inl h) (by intro _ h; simp at h) k hk

theorem tok_mem_itemsS (ss : List Step) (k : SyntaxKind) (n : Nat) :
    Item.token k n ∈ itemsS ss ↔ Step.token k n ∈ ss := by
  induction ss with
  | nil => simp [itemsS]
  | cons s ss ih => cases s <;> simp [itemsS, ih]

theorem err_mem_itemsS (ss : List Step) (m : String) :
    Item.error m ∈ itemsS ss ↔ Step.error m ∈ ss := by
  induction ss with
  | nil => simp [itemsS]
  | cons s ss ih => cases s <;> simp [itemsS, ih]

theorem tok_mem_itemsE (evs : List Ev) (k : SyntaxKind) (n : Nat) :
    Item.token k n ∈ itemsE evs ↔ Ev.token k n ∈ evs := by
  induction evs with
  | nil => simp [itemsE]
  | cons e es ih => cases e <;> simp [itemsE, ih]

theorem err_mem_itemsE (evs : List Ev) (m : String) :
    Item.error m ∈ itemsE evs ↔ Ev.error m ∈ evs := by
  induction evs with
  | nil => simp [itemsE]
  | cons e es ih => cases e <;> simp [itemsE, ih]

/-- the C12 clause on a step list (`Output`) -/
def NoSilentS (ss : List Step) : Prop :=
  (Step.enter .ERROR ∈ ss ∨ ∃ n, Step.token .ERROR n ∈ ss) → ∃ m, Step.error m ∈ ss

/-- `event::process` keeps the clause: the `Output` steps have an `Error` step whenever they have
an `Enter{ERROR}` or a `Token{ERROR}` step -/
theorem process_no_silent (evs : List Ev) (ss : List Step) (hp : process evs = some ss)
    (h : NoSilentL evs) : NoSilentS ss := by
  have hit := process_items evs ss hp
  intro hk
  have : ∃ m, Ev.error m ∈ evs := by
    rcases hk with hk | ⟨n, hk⟩
    · obtain ⟨fp, hm⟩ := process_enters evs ss hp _ hk
      exact h ⟨_, hm, .inl ⟨fp, rfl⟩⟩
    · have : Ev.token .ERROR n ∈ evs := by
        rw [← tok_mem_itemsE, ← hit, tok_mem_itemsS]; exact hk
      exact h ⟨_, this, .inr ⟨n, rfl⟩⟩
  obtain ⟨m, hm⟩ := this
  exact ⟨m, by rw [← err_mem_itemsS, hit, err_mem_itemsE]; exact hm⟩

/-- parser + `process`: the step list handed to the tree builder -/
theorem output_no_silent (fuel : Nat) (kinds : Array SyntaxKind) (joint : Array Bool) (limit : Nat)
    (evs : Array Ev) (pos : Nat) (ss : List Step)
    (h : parseSourceFile fuel kinds joint limit = .ok (evs, pos))
    (hp : process evs.toList = some ss) : NoSilentS ss :=
  process_no_silent _ _ hp (parseSourceFile_no_silent fuel kinds joint limit evs pos h)

/-! ### through `intersperse_trivia` and the tree builder -/

mutual
/-- the kinds of all nodes and all leaves of a tree -/
def Tree.kinds : Tree → List SyntaxKind
  | .leaf k _ => [k]
  | .node k cs => k :: Tree.kindsList cs
def Tree.kindsList : List Tree → List SyntaxKind
  | [] => []
  | c :: cs => Tree.kinds c ++ Tree.kindsList cs
end

theorem mem_kindsList {k : SyntaxKind} {cs : List Tree} :
    k ∈ Tree.kindsList cs ↔ ∃ c ∈ cs, k ∈ Tree.kinds c := by
  induction cs with
  | nil => simp [Tree.kindsList]
  | cons c cs ih => simp [Tree.kindsList, ih]

/-- what the string steps say about a kind: it is entered as a node or emitted as a token -/
def OutHas (out : List StrStep) (k : SyntaxKind) : Prop :=
  StrStep.enter k ∈ out ∨ ∃ t, StrStep.token k t ∈ out

/-- all kinds inside the builder's stack -/
def tbKinds (t : TB) : List SyntaxKind :=
  (t.parents.flatMap fun p => p.1 :: Tree.kindsList p.2) ++ Tree.kindsList t.top

theorem tbKinds_push {t : TB} {x : Tree} {k : SyntaxKind} (h : k ∈ tbKinds (t.push x)) :
    k ∈ tbKinds t ∨ k ∈ Tree.kinds x := by
  unfold TB.push at h
  split at h
  · rename_i k0 cs ps hp
    simp only [tbKinds, hp, List.flatMap_cons, List.mem_append, List.mem_cons, Tree.kindsList] at h ⊢
    rcases h with ((h | h | h) | h) | h
    · exact .inl (.inl (.inl (.inl h)))
    · exact .inr h
    · exact .inl (.inl (.inl (.inr h)))
    · exact .inl (.inl (.inr h))
    · exact .inl (.inr h)
  · simp only [tbKinds, Tree.kindsList, List.mem_append] at h ⊢
    rcases h with h | h | h
    · exact .inl (.inl h)
    · exact .inr h
    · exact .inl (.inr h)

theorem tbStep_kinds {t t' : TB} {s : StrStep} (h : tbStep t s = .ok t') :
    (∀ k ∈ tbKinds t', k ∈ tbKinds t ∨ OutHas [s] k) ∧
      (∀ x ∈ t.errors, x ∈ t'.errors) ∧ (∀ m p, s = .error m p → ⟨m, p⟩ ∈ t'.errors) := by
  cases s with
  | token kind text =>
    simp only [tbStep, Except.ok.injEq] at h; subst h
    refine ⟨?_, ?_, by intro _ _ h; cases h⟩
    · intro k hk
      rcases tbKinds_push hk with h | h
      · exact .inl h
      · simp only [Tree.kinds, List.mem_singleton] at h; subst h
        exact .inr (.inr ⟨text, by simp⟩)
    · intro x hx; unfold TB.push; split <;> exact hx
  | enter kind =>
    simp only [tbStep, Except.ok.injEq] at h; subst h
    refine ⟨?_, fun x hx => hx, by intro _ _ h; cases h⟩
    intro k hk
    simp only [tbKinds, List.flatMap_cons, Tree.kindsList, List.mem_append, List.mem_cons,
      List.not_mem_nil, or_false] at hk ⊢
    rcases hk with (h | h) | h
    · subst h; exact .inr (.inl (by simp))
    · exact .inl (.inl h)
    · exact .inl (.inr h)
  | exit =>
    simp only [tbStep] at h
    split at h
    · rename_i k0 cs ps hp
      simp only [Except.ok.injEq] at h; subst h
      refine ⟨?_, ?_, by intro _ _ h; cases h⟩
      · intro k hk
        rcases tbKinds_push hk with h | h
        · left
          simp only [tbKinds, hp, List.flatMap_cons, List.mem_append, List.mem_cons] at h ⊢
          rcases h with h | h
          · exact .inl (.inr h)
          · exact .inr h
        · left
          simp only [Tree.kinds, List.mem_cons, mem_kindsList, List.mem_reverse] at h
          simp only [tbKinds, hp, List.flatMap_cons, List.mem_append, List.mem_cons, mem_kindsList]
          rcases h with h | h
          · exact .inl (.inl (.inl h))
          · exact .inl (.inl (.inr h))
      · intro x hx; unfold TB.push; split <;> exact hx
    · simp at h
  | error msg pos =>
    simp only [tbStep, Except.ok.injEq] at h; subst h
    refine ⟨fun k hk => .inl hk, fun x hx => by simp [hx], ?_⟩
    intro m p he
    simp only [StrStep.error.injEq] at he
    obtain ⟨rfl, rfl⟩ := he
    simp

theorem tbSteps_kinds (out : List StrStep) (t t' : TB) (h : tbSteps out t = .ok t') :
    (∀ k ∈ tbKinds t', k ∈ tbKinds t ∨ OutHas out k) ∧
      (∀ x ∈ t.errors, x ∈ t'.errors) ∧ (∀ m p, StrStep.error m p ∈ out → ⟨m, p⟩ ∈ t'.errors) := by
  induction out generalizing t with
  | nil =>
    simp only [tbSteps, Except.ok.injEq] at h; subst h
    exact ⟨fun k hk => .inl hk, fun x hx => hx, by intro _ _ h; simp at h⟩
  | cons s out ih =>
    simp only [tbSteps, bind, Except.bind] at h
    split at h
    · simp at h
    · rename_i t1 ht1
      obtain ⟨a1, a2, a3⟩ := tbStep_kinds ht1
      obtain ⟨b1, b2, b3⟩ := ih t1 h
      refine ⟨?_, fun x hx => b2 x (a2 x hx), ?_⟩
      · intro k hk
        rcases b1 k hk with h | h
        · rcases a1 k h with h | h
          · exact .inl h
          · right
            rcases h with h | ⟨tx, h⟩
            · exact .inl (by simp only [List.mem_singleton] at h; simp [h])
            · exact .inr ⟨tx, by simp only [List.mem_singleton] at h; simp [h]⟩
        · right
          rcases h with h | ⟨tx, h⟩
          · exact .inl (List.mem_cons_of_mem _ h)
          · exact .inr ⟨tx, List.mem_cons_of_mem _ h⟩
      · intro m p hm
        rcases List.mem_cons.mp hm with h | h
        · exact b2 _ (a3 m p h.symm)
        · exact b3 m p h

/-- the string steps are the parser's steps plus trivia tokens (and re-ordered `Exit`s) -/
structure OutInv (done : List Step) (out : List StrStep) : Prop where
  enter : ∀ k, StrStep.enter k ∈ out → Step.enter k ∈ done
  token : ∀ k t, StrStep.token k t ∈ out → k.isTrivia = true ∨ ∃ n, Step.token k n ∈ done
  error : ∀ m, Step.error m ∈ done → ∃ p, StrStep.error m p ∈ out

/-- a string step that `intersperse_trivia` adds on its own -/
def Extra (s : StrStep) : Prop := s = .exit ∨ ∃ k t, s = .token k t ∧ k.isTrivia = true

theorem OutInv.emit_extra {done out} (h : OutInv done out) (s : StrStep) (hs : Extra s) :
    OutInv done (out ++ [s]) := by
  refine ⟨?_, ?_, ?_⟩
  · intro k hk
    rcases List.mem_append.mp hk with hk | hk
    · exact h.enter k hk
    · simp only [List.mem_singleton] at hk
      rcases hs with rfl | ⟨_, _, rfl, _⟩ <;> cases hk
  · intro k t hk
    rcases List.mem_append.mp hk with hk | hk
    · exact h.token k t hk
    · simp only [List.mem_singleton] at hk
      rcases hs with rfl | ⟨k', t', rfl, htr⟩
      · cases hk
      · cases hk; exact .inl htr
  · intro m hm
    obtain ⟨p, hp⟩ := h.error m hm
    exact ⟨p, List.mem_append_left _ hp⟩

theorem eatTriviasAux_out (rest : List RawTok) (b : B) {done} (h : OutInv done b.out) :
    OutInv done (eatTriviasAux rest b).out := by
  induction rest generalizing b with
  | nil => exact h
  | cons t rest ih =>
    simp only [eatTriviasAux]
    split
    · rename_i htr
      exact ih _ (h.emit_extra _ (.inr ⟨_, _, rfl, htr⟩))
    · exact h

theorem eatNTrivias_out (toks : List RawTok) (n : Nat) (b b' : B) {done} (h : OutInv done b.out)
    (hok : eatNTrivias toks n b = .ok b') : OutInv done b'.out := by
  induction n generalizing b with
  | zero => simp only [eatNTrivias, Except.ok.injEq] at hok; subst hok; exact h
  | succ n ih =>
    simp only [eatNTrivias] at hok
    split at hok
    · simp at hok
    · rename_i t ht
      split at hok
      · simp at hok
      · rename_i htr
        exact ih _ (h.emit_extra _ (.inr ⟨_, _, rfl, by simpa using htr⟩)) hok

theorem flushPending_out (b b' : B) {done} (h : OutInv done b.out) (hok : flushPending b = .ok b') :
    OutInv done b'.out := by
  unfold flushPending at hok
  split at hok
  · simp at hok
  · simp only [Except.ok.injEq] at hok; subst hok
    exact h.emit_extra _ (.inl rfl)
  · simp only [Except.ok.injEq] at hok; subst hok; exact h

theorem OutInv.mono {done out} (h : OutInv done out) (s : Step) (hs : ∀ m, s ≠ .error m) :
    OutInv (done ++ [s]) out := by
  refine ⟨fun k hk => List.mem_append_left _ (h.enter k hk), ?_, ?_⟩
  · intro k t hk
    rcases h.token k t hk with h | ⟨n, h⟩
    · exact .inl h
    · exact .inr ⟨n, List.mem_append_left _ h⟩
  · intro m hm
    rcases List.mem_append.mp hm with hm | hm
    · exact h.error m hm
    · exact absurd (List.mem_singleton.mp hm).symm (hs m)

theorem step_out (toks : List RawTok) (b b' : B) (s : Step) {done} (h : OutInv done b.out)
    (hok : step toks b s = .ok b') : OutInv (done ++ [s]) b'.out := by
  cases s with
  | token k n =>
    have h0 := h.mono (.token k n) (by intro _ hc; cases hc)
    simp only [step, bind, Except.bind] at hok
    split at hok
    · simp at hok
    · rename_i b1 hb1
      have h1 := flushPending_out b b1 h0 hb1
      have h2 : OutInv _ (eatTrivias toks b1).out := eatTriviasAux_out _ b1 h1
      unfold doToken at hok
      split at hok
      · simp at hok
      · simp only [Except.ok.injEq] at hok; subst hok
        refine ⟨?_, ?_, ?_⟩
        · intro k' hk'
          simp only [Oq3.Builder.emit, List.mem_append, List.mem_singleton] at hk'
          rcases hk' with hk' | hk'
          · exact h2.enter k' hk'
          · cases hk'
        · intro k' t' hk'
          simp only [Oq3.Builder.emit, List.mem_append, List.mem_singleton] at hk'
          rcases hk' with hk' | hk'
          · exact h2.token k' t' hk'
          · cases hk'; exact .inr ⟨n, by simp⟩
        · intro m hm
          obtain ⟨p, hp⟩ := h2.error m hm
          exact ⟨p, by simp only [Oq3.Builder.emit]; exact List.mem_append_left _ hp⟩
  | enter k =>
    have h0 := h.mono (.enter k) (by intro _ hc; cases hc)
    have hemit : ∀ (b2 : B), OutInv (done ++ [Step.enter k]) b2.out →
        OutInv (done ++ [Step.enter k]) (Oq3.Builder.emit b2 (.enter k)).out := by
      intro b2 h2
      refine ⟨?_, ?_, ?_⟩
      · intro k' hk'
        simp only [Oq3.Builder.emit, List.mem_append, List.mem_singleton] at hk'
        rcases hk' with hk' | hk'
        · exact h2.enter k' hk'
        · cases hk'; simp
      · intro k' t' hk'
        simp only [Oq3.Builder.emit, List.mem_append, List.mem_singleton] at hk'
        rcases hk' with hk' | hk'
        · exact h2.token k' t' hk'
        · cases hk'
      · intro m hm
        obtain ⟨p, hp⟩ := h2.error m hm
        exact ⟨p, by simp only [Oq3.Builder.emit]; exact List.mem_append_left _ hp⟩
    simp only [step] at hok
    split at hok
    · simp only [Except.ok.injEq] at hok; subst hok
      exact hemit { b with state := .normal } h0
    · simp only [bind, Except.bind] at hok
      split at hok
      · simp at hok
      · rename_i b1 hb1
        have h1 := flushPending_out b b1 h0 hb1
        split at hok
        · simp at hok
        · rename_i b2 hb2
          have h2 := eatNTrivias_out _ _ b1 b2 h1 hb2
          exact eatNTrivias_out _ _ _ b' (hemit b2 h2) hok
  | exit =>
    have h0 := h.mono .exit (by intro _ hc; cases hc)
    simp only [step] at hok
    split at hok
    · simp at hok
    · simp only [Except.ok.injEq] at hok; subst hok
      exact h0.emit_extra _ (.inl rfl)
    · simp only [Except.ok.injEq] at hok; subst hok; exact h0
  | error msg =>
    simp only [step, Except.ok.injEq] at hok; subst hok
    refine ⟨?_, ?_, ?_⟩
    · intro k' hk'
      simp only [Oq3.Builder.emit, List.mem_append, List.mem_singleton] at hk'
      rcases hk' with hk' | hk'
      · exact List.mem_append_left _ (h.enter k' hk')
      · cases hk'
    · intro k' t' hk'
      simp only [Oq3.Builder.emit, List.mem_append, List.mem_singleton] at hk'
      rcases hk' with hk' | hk'
      · rcases h.token k' t' hk' with h | ⟨n, h⟩
        · exact .inl h
        · exact .inr ⟨n, List.mem_append_left _ h⟩
      · cases hk'
    · intro m hm
      rcases List.mem_append.mp hm with hm | hm
      · obtain ⟨p, hp⟩ := h.error m hm
        exact ⟨p, by simp only [Oq3.Builder.emit]; exact List.mem_append_left _ hp⟩
      · simp only [List.mem_singleton, Step.error.injEq] at hm; subst hm
        exact ⟨textStart toks b.pos, by simp [Oq3.Builder.emit]⟩

theorem steps_out (toks : List RawTok) (ss : List Step) (b b' : B) {done}
    (h : OutInv done b.out) (hok : steps toks ss b = .ok b') : OutInv (done ++ ss) b'.out := by
  induction ss generalizing b done with
  | nil => simp only [steps, Except.ok.injEq] at hok; subst hok; simpa using h
  | cons s ss ih =>
    simp only [steps, bind, Except.bind] at hok
    split at hok
    · simp at hok
    · rename_i b1 hb1
      have := ih b1 (step_out toks b b1 s h hb1) hok
      simpa using this

theorem intersperseTrivia_out (toks : List RawTok) (ss : List Step) (out : List StrStep) (eof : Bool)
    (hok : intersperseTrivia toks ss = .ok (out, eof)) : OutInv ss out := by
  simp only [intersperseTrivia, bind, Except.bind] at hok
  split at hok
  · simp at hok
  · rename_i b hb
    have h0 : OutInv [] ({} : B).out :=
      ⟨by intro _ h; simp at h, by intro _ _ h; simp at h, by intro _ h; simp at h⟩
    have h1 := steps_out toks ss _ b h0 hb
    simp only [List.nil_append] at h1
    split at hok
    · simp only [Except.ok.injEq, Prod.mk.injEq] at hok
      obtain ⟨rfl, _⟩ := hok
      have h2 : OutInv ss (eatTrivias toks b).out := eatTriviasAux_out _ b h1
      exact h2.emit_extra _ (.inl rfl)
    · simp at hok

theorem error_not_trivia : SyntaxKind.ERROR.isTrivia = false := by decide

/-- **A tree with an `ERROR` node or `ERROR` token has a diagnostic.**  For every token table and
every step list satisfying the clause: if `build_tree` returns, and the tree contains the kind
`ERROR` (as a node or as a leaf), its list of diagnostics is not empty. -/
theorem tree_no_silent (toks : List RawTok) (ss : List Step) (tree : Tree) (errs : List SynErr)
    (eof : Bool) (hb : buildTree toks ss = .ok (tree, errs, eof)) (hns : NoSilentS ss)
    (hk : SyntaxKind.ERROR ∈ Tree.kinds tree) : errs ≠ [] := by
  simp only [buildTree, bind, Except.bind] at hb
  split at hb
  · simp at hb
  · rename_i r hr
    obtain ⟨out, eof'⟩ := r
    have hout := intersperseTrivia_out toks ss out eof' hr
    split at hb
    · simp at hb
    · rename_i tb htb
      obtain ⟨a1, _, a3⟩ := tbSteps_kinds out {} tb htb
      split at hb
      · simp at hb
      · rename_i v hv
        obtain ⟨tree', errs'⟩ := v
        simp only [Except.ok.injEq, Prod.mk.injEq] at hb
        obtain ⟨rfl, rfl, _⟩ := hb
        unfold tbFinish at hv
        split at hv
        · rename_i k cs htop
          simp only [Except.ok.injEq, Prod.mk.injEq] at hv
          obtain ⟨rfl, rfl⟩ := hv
          have hk' : SyntaxKind.ERROR ∈ tbKinds tb := by
            simp only [tbKinds, htop, List.mem_append]
            right
            simpa [Tree.kindsList] using hk
          have hsteps : Step.enter .ERROR ∈ ss ∨ ∃ n, Step.token .ERROR n ∈ ss := by
            rcases a1 _ hk' with h | h
            · simp [tbKinds, Tree.kindsList] at h
            · rcases h with h | ⟨t, h⟩
              · exact .inl (hout.enter _ h)
              · rcases hout.token _ _ h with h | h
                · rw [error_not_trivia] at h; cases h
                · exact .inr h
          obtain ⟨m, hm⟩ := hns hsteps
          obtain ⟨p, hp⟩ := hout.error m hm
          intro hnil
          have := a3 m p hp
          rw [hnil] at this
          cases this
        · simp at hv

/-- **End to end.**  Parser (`source_file`), `event::process` and `build_tree`: a parse that
reports no diagnostics has no `ERROR` node and no `ERROR` token in its tree. -/
theorem clean_parse_no_error (fuel : Nat) (kinds : Array SyntaxKind) (joint : Array Bool)
    (limit : Nat) (evs : Array Ev) (pos : Nat) (ss : List Step) (toks : List RawTok) (tree : Tree)
    (eof : Bool)
    (h : parseSourceFile fuel kinds joint limit = .ok (evs, pos))
    (hp : process evs.toList = some ss)
    (hb : buildTree toks ss = .ok (tree, [], eof)) : SyntaxKind.ERROR ∉ Tree.kinds tree := by
  intro hk
  exact tree_no_silent toks ss tree [] eof hb
    (output_no_silent fuel kinds joint limit evs pos ss h hp) hk rfl

/-! ### non-vacuity, and what is outside the scope -/

deriving instance DecidableEq for Except

/-- non-vacuity: the one-token input `[ERROR]` (an unknown character) parses, into an `ERROR` node
around the `ERROR` token, with a diagnostic pushed before the token is consumed -/
example :
    parseSourceFile 64 #[.ERROR] #[false] =
      .ok (#[.start .SOURCE_FILE none, .start .TOMBSTONE none, .start .ERROR none,
             .error "stmt: expected expression, type declaration, or let statement",
             .token .ERROR 1, .finish, .finish], 1) := by
  decide +kernel

/-- `grammar::entry::top::expr` (not used by `oq3_syntax`) wraps trailing input into an `ERROR`
node WITHOUT a diagnostic: `1 2` gives `ERROR(LITERAL(1) 2)` and no error event.  This is why
`no_silent_error` is a statement about `source_file`. -/
theorem entryExpr_silent_witness :
    parseExpr 64 #[.INT_NUMBER, .INT_NUMBER] #[false, false] =
      .ok (#[.start .ERROR none, .start .TOMBSTONE (some 1), .start .LITERAL none,
             .token .INT_NUMBER 1, .finish, .token .INT_NUMBER 1, .finish], 2) := by
  decide +kernel

end Oq3.Props.C12
