/-
C13 — gate, qubit, const and scope usage rules are diagnosed exactly.

The decision blocks of the usage rules are the non-recursive functions `gateCallCheck`,
`gateOperandIdentCheck`, `gateOperandIndexedCheck`, `quantumBinopCheck`, `defArityCheck`,
`mutateConstCheck`, `notGlobalCheck`, `gateNotGlobalCheck`, `returnGlobalCheck`,
`delayDurationCheck` of `Model/SemaCtx.lean` (each the literal block of its Rust function, called
from `gateCallExprToAsgStmt`, `gateOperandToAsgTexpr`, the `BinExpr`/`ReturnExpr` arms of
`exprToAsgTexpr`, `callExprToAsgTexpr`, `assignmentStmtToAsgStmt` and the `QuantumDeclaration`/
`Gate`/`Def`/`DelayStmt` arms of `stmtToAsgStmt`).

For each block, for ARBITRARY context and arguments:

* `<check>_run`: the block returns normally and appends exactly the diagnostics computed by the pure
  function `<check>Errs` (nothing else in the context changes);
* `<rule>_iff`: a diagnostic of kind K is among them IF AND ONLY IF the rule's condition holds.

Scope of the statements ("the error list produced at that node"): the iff-lemmas speak about the
diagnostics appended by the block itself, i.e. *after* the operands / arguments / right-hand side
have been analysed; diagnostics logged while analysing those sub-expressions are separate and
belong to their own nodes.  `gateCall_uses_check` ties the gate-call block to the function that
runs it.  The rule for gate arity in the code ignores modifiers: `ctrl @`/`negctrl @` calls, which
take extra qubits, are checked against the unmodified arity (the property excludes them; the
Python oracle does the same).
-/
import Oq3.Props.C07

namespace Oq3.Props.C13
open Oq3 Oq3.Sema Oq3.Types Oq3.Symbols

/-- the context with diagnostics appended -/
def appendErrs (s : Ctx) (es : List SemErr) : Ctx :=
  { s with semanticErrors := s.semanticErrors ++ es }
@[simp] theorem appendErrs_nil (s : Ctx) : appendErrs s [] = s := by simp [appendErrs]
@[simp] theorem appendErrs_append (s : Ctx) (a b : List SemErr) :
    appendErrs (appendErrs s a) b = appendErrs s (a ++ b) := by simp [appendErrs]
def err (k : SemanticErrorKind) (node : Ast.Span) : SemErr := ⟨k, node.start, node.stop⟩

@[simp] theorem run_insertError (k : SemanticErrorKind) (node : Ast.Span) (s : Ctx) :
    insertError k node s = .ok ((), appendErrs s [err k node]) := rfl
@[simp] theorem run_bind_insertError {β} (k : SemanticErrorKind) (node : Ast.Span) (f : Unit → M β) (s : Ctx) :
    (insertError k node >>= f) s = f () (appendErrs s [err k node]) := rfl
@[simp] theorem run_pure {α} (a : α) (s : Ctx) : (pure a : M α) s = .ok (a, s) := rfl
@[simp] theorem run_bind_pure {α β} (a : α) (f : α → M β) (s : Ctx) : (pure a >>= f) s = f a s := rfl
@[simp] theorem run_unwrap_some {α} (site : String) (a : α) (s : Ctx) : unwrap site (some a) s = .ok (a, s) := rfl
@[simp] theorem run_bind_unwrap_some {α β} (site : String) (a : α) (f : α → M β) (s : Ctx) :
    (unwrap site (some a) >>= f) s = f a s := rfl


/-- kinds of a diagnostic list -/
def kinds (es : List SemErr) : List SemanticErrorKind := es.map (·.kind)

theorem bind_run_of_ok {α β} {x : M α} {f : α → M β} {s s1 : Ctx} {a : α}
    (h : x s = .ok (a, s1)) : (x >>= f) s = f a s1 := by
  show (StateT.bind x f) s = _
  unfold StateT.bind
  simp only [bind, Except.bind, h]

theorem run_currentScopeType (s : Ctx) (top : Scope) (rest : List Scope)
    (h : s.symbolTable.stack = top :: rest) : currentScopeType s = .ok (top.kind, s) := by
  unfold currentScopeType
  show (match s.symbolTable.stack with
    | sc :: _ => (pure sc.kind : M ScopeType)
    | [] => fail "current_scope: no scope") s = _
  rw [h]; rfl

theorem run_inGlobalScope (s : Ctx) (top : Scope) (rest : List Scope)
    (h : s.symbolTable.stack = top :: rest) : inGlobalScope s = .ok (top.kind == .global, s) := by
  unfold inGlobalScope
  show (currentScopeType >>= fun k => pure (k == ScopeType.global)) s = _
  rw [bind_run_of_ok (run_currentScopeType s top rest h)]; rfl

/-! ### gate calls: parameter count, qubit count, not a gate -/

/-- diagnostics of `gateCallCheck` (`al`, `ql`: the argument list and the qubit list of the call) -/
def gateCallErrs (span : Ast.Span) (ql : Ast.QubitList) (al : Option Ast.ArgList)
    (gateId : Ast.Identifier) (symbolOk : Bool) (gateType : T) (numParams numQubits : Nat) :
    List SemErr :=
  match gateType with
  | .gate np nq =>
    (if np = numParams then []
     else [err .numGateParamsError
            (if numParams = 0 then gateId.span else (al.map (·.span)).getD gateId.span)]) ++
    (if nq = numQubits then []
     else [err .numGateQubitsError (if numQubits = 0 then span else ql.span)])
  | _ => if symbolOk then [err .incompatibleTypesError gateId.span] else []

/-- the block returns normally — given what its call site guarantees: the qubit list was already
unwrapped, and a non-zero parameter count can only come from an argument list — and appends
exactly `gateCallErrs` -/
theorem gateCallCheck_run (span : Ast.Span) (ql : Ast.QubitList) (argList : Option Ast.ArgList)
    (gateId : Ast.Identifier) (symbolResult : SymbolIdResult) (gateType : T)
    (numParams numQubits : Nat) (s : Ctx) (ha : numParams ≠ 0 → argList.isSome) :
    gateCallCheck span (some ql) argList gateId symbolResult gateType numParams numQubits s =
      .ok ((), appendErrs s
        (gateCallErrs span ql argList gateId symbolResult.isOk gateType numParams numQubits)) := by
  unfold gateCallCheck gateCallErrs
  cases gateType
  case gate np nq =>
    cases numParams with
    | zero =>
      cases numQubits with
      | zero => by_cases h1 : np = 0 <;> by_cases h2 : nq = 0 <;> simp [h1, h2, bne]
      | succ m => by_cases h1 : np = 0 <;> by_cases h2 : nq = m + 1 <;> simp [h1, h2, bne]
    | succ n =>
      obtain ⟨al, rfl⟩ := Option.isSome_iff_exists.mp (ha (by simp))
      cases numQubits with
      | zero => by_cases h1 : np = n + 1 <;> by_cases h2 : nq = 0 <;> simp [h1, h2, bne]
      | succ m => by_cases h1 : np = n + 1 <;> by_cases h2 : nq = m + 1 <;> simp [h1, h2, bne]
  all_goals (cases symbolResult.isOk <;> simp)

/-- **NumGateParamsError is logged iff the callee is a gate whose parameter count differs** -/
theorem gate_params_iff (span : Ast.Span) (ql : Ast.QubitList) (al : Option Ast.ArgList)
    (gateId : Ast.Identifier) (ok : Bool) (gateType : T) (numParams numQubits : Nat) :
    SemanticErrorKind.numGateParamsError ∈
        kinds (gateCallErrs span ql al gateId ok gateType numParams numQubits) ↔
      ∃ np nq, gateType = .gate np nq ∧ np ≠ numParams := by
  unfold gateCallErrs kinds
  cases gateType
  case gate np nq =>
    by_cases h1 : np = numParams <;> by_cases h2 : nq = numQubits <;> simp [h1, h2, err] <;>
      (try exact ⟨_, _, ⟨rfl, rfl⟩, ‹_›⟩)
  all_goals (cases ok <;> simp [err])

/-- **NumGateQubitsError is logged iff the callee is a gate whose qubit count differs** (modifiers
are not taken into account by the code) -/
theorem gate_qubits_iff (span : Ast.Span) (ql : Ast.QubitList) (al : Option Ast.ArgList)
    (gateId : Ast.Identifier) (ok : Bool) (gateType : T) (numParams numQubits : Nat) :
    SemanticErrorKind.numGateQubitsError ∈
        kinds (gateCallErrs span ql al gateId ok gateType numParams numQubits) ↔
      ∃ np nq, gateType = .gate np nq ∧ nq ≠ numQubits := by
  unfold gateCallErrs kinds
  cases gateType
  case gate np nq =>
    by_cases h1 : np = numParams <;> by_cases h2 : nq = numQubits <;> simp [h1, h2, err] <;>
      (try exact ⟨_, _, ⟨rfl, rfl⟩, ‹_›⟩)
  all_goals (cases ok <;> simp [err])

/-- **IncompatibleTypesError on the gate name iff the name resolves to something that is not a
gate** (an unresolved name already got `UndefGateError`) -/
theorem not_a_gate_iff (span : Ast.Span) (ql : Ast.QubitList) (al : Option Ast.ArgList)
    (gateId : Ast.Identifier) (ok : Bool) (gateType : T) (numParams numQubits : Nat) :
    SemanticErrorKind.incompatibleTypesError ∈
        kinds (gateCallErrs span ql al gateId ok gateType numParams numQubits) ↔
      ok = true ∧ ∀ np nq, gateType ≠ .gate np nq := by
  unfold gateCallErrs kinds
  cases gateType
  case gate np nq =>
    by_cases h1 : np = numParams <;> by_cases h2 : nq = numQubits <;> simp [h1, h2, err] <;>
      (try exact ⟨_, _, ⟨rfl, rfl⟩, ‹_›⟩)
  all_goals (cases ok <;> simp [err])

/-- a correct call of a gate gets none of the three diagnostics -/
theorem gate_call_no_spurious (span : Ast.Span) (ql : Ast.QubitList) (al : Option Ast.ArgList)
    (gateId : Ast.Identifier) (ok : Bool) (np nq : Nat) :
    gateCallErrs span ql al gateId ok (.gate np nq) np nq = [] := by
  simp [gateCallErrs]

/-! ### operands of gate calls, `measure`, `reset`, `barrier`, `delay` -/

def isQubitish : T → Bool
  | .qubit | .hwqubit | .qubitArray _ => true
  | _ => false

def isQubitArray : T → Bool
  | .qubitArray _ => true
  | _ => false

theorem gateOperandIdentCheck_run (typ : T) (node : Ast.Span) (s : Ctx) :
    gateOperandIdentCheck typ node s =
      .ok ((), appendErrs s (if isQubitish typ then [] else [err .incompatibleTypesError node])) := by
  unfold gateOperandIdentCheck
  cases typ <;> simp [isQubitish]

theorem gateOperandIndexedCheck_run (typ : T) (node : Ast.Span) (s : Ctx) :
    gateOperandIndexedCheck typ node s =
      .ok ((), appendErrs s (if isQubitArray typ then [] else [err .incompatibleTypesError node])) := by
  unfold gateOperandIndexedCheck
  cases typ <;> simp [isQubitArray]

/-- **operand kind**: a plain identifier operand is reported iff its type is not `Qubit`,
`HardwareQubit` or `QubitArray`; an indexed operand iff its type is not `QubitArray` -/
theorem operand_kind_iff (typ : T) (node : Ast.Span) (s s' : Ctx) :
    (gateOperandIdentCheck typ node s = .ok ((), s') →
      (s'.semanticErrors = s.semanticErrors ++ [err .incompatibleTypesError node] ↔
        isQubitish typ = false) ∧
      (s'.semanticErrors = s.semanticErrors ↔ isQubitish typ = true)) := by
  intro h
  rw [gateOperandIdentCheck_run] at h
  simp only [Except.ok.injEq, Prod.mk.injEq, true_and] at h
  subst h
  cases hq : isQubitish typ <;> simp [appendErrs]

theorem operand_kind_indexed_iff (typ : T) (node : Ast.Span) (s s' : Ctx) :
    (gateOperandIndexedCheck typ node s = .ok ((), s') →
      (s'.semanticErrors = s.semanticErrors ++ [err .incompatibleTypesError node] ↔
        isQubitArray typ = false) ∧
      (s'.semanticErrors = s.semanticErrors ↔ isQubitArray typ = true)) := by
  intro h
  rw [gateOperandIndexedCheck_run] at h
  simp only [Except.ok.injEq, Prod.mk.injEq, true_and] at h
  subst h
  cases hq : isQubitArray typ <;> simp [appendErrs]

/-! ### binary operators on quantum values -/

def quantumBinopErrs (left right : TExpr) (l r : Ast.Expr) : List SemErr :=
  (if isQuantum left.getType then [err .incompatibleTypesError l.span] else []) ++
  (if isQuantum right.getType then [err .incompatibleTypesError r.span] else [])

/-- at its call site both operand nodes exist (their translations were just unwrapped) -/
theorem quantumBinopCheck_run (left right : TExpr) (l r : Ast.Expr) (s : Ctx) :
    quantumBinopCheck left right (some l) (some r) s =
      .ok ((), appendErrs s (quantumBinopErrs left right l r)) := by
  unfold quantumBinopCheck quantumBinopErrs
  cases h1 : isQuantum left.getType <;> cases h2 : isQuantum right.getType <;> simp

/-- **a binary operator is reported iff one of its operands has a quantum type** (once per
quantum operand, at that operand) -/
theorem quantum_binop_iff (left right : TExpr) (l r : Ast.Expr) :
    SemanticErrorKind.incompatibleTypesError ∈ kinds (quantumBinopErrs left right l r) ↔
      isQuantum left.getType = true ∨ isQuantum right.getType = true := by
  unfold quantumBinopErrs kinds
  cases h1 : isQuantum left.getType <;> cases h2 : isQuantum right.getType <;> simp [err]

/-! ### subroutine calls -/

/-- `expected ≠ actual` needs the argument list node for the diagnostic; the parser always produces
one for a call, `ha` records that -/
theorem defArityCheck_run (expected numParams : Nat) (al : Ast.ArgList) (s : Ctx) :
    defArityCheck expected numParams (some al) s =
      .ok ((), appendErrs s (if expected = numParams then [] else [err .numDefParamsError al.span])) := by
  unfold defArityCheck
  by_cases h : expected = numParams <;> simp [h, bne]

/-- **NumDefParamsError iff the number of arguments differs from the subroutine's** (under the
guard that the callee is a subroutine — otherwise `call_expr_to_asg_texpr` panics, F15) -/
theorem def_arity_iff (expected numParams : Nat) (al : Ast.ArgList) (s s' : Ctx)
    (h : defArityCheck expected numParams (some al) s = .ok ((), s')) :
    (s'.semanticErrors = s.semanticErrors ++ [err .numDefParamsError al.span] ↔
      expected ≠ numParams) ∧
    (s'.semanticErrors = s.semanticErrors ↔ expected = numParams) := by
  rw [defArityCheck_run] at h
  simp only [Except.ok.injEq, Prod.mk.injEq, true_and] at h
  subst h
  by_cases hq : expected = numParams <;> simp [appendErrs, hq]

/-! ### assignment to a constant -/

theorem mutateConstCheck_run (symbolOk : Bool) (symbolType : T) (node : Ast.Span) (s : Ctx) :
    mutateConstCheck symbolOk symbolType node s =
      .ok ((), appendErrs s
        (if symbolOk && isConst symbolType then [err .mutateConstError node] else [])) := by
  unfold mutateConstCheck
  cases h : (symbolOk && isConst symbolType) <;> simp

/-- **MutateConstError iff the assigned name resolves and its type is const** -/
theorem mutate_const_iff (symbolOk : Bool) (symbolType : T) (node : Ast.Span) (s s' : Ctx)
    (h : mutateConstCheck symbolOk symbolType node s = .ok ((), s')) :
    (s'.semanticErrors = s.semanticErrors ++ [err .mutateConstError node] ↔
      symbolOk = true ∧ isConst symbolType = true) ∧
    (s'.semanticErrors = s.semanticErrors ↔ ¬ (symbolOk = true ∧ isConst symbolType = true)) := by
  rw [mutateConstCheck_run] at h
  simp only [Except.ok.injEq, Prod.mk.injEq, true_and] at h
  subst h
  cases symbolOk <;> cases isConst symbolType <;> simp [appendErrs]

/-! ### global-scope rules -/

theorem notGlobalCheck_run (node : Ast.Span) (s : Ctx) (top : Scope) (rest : List Scope)
    (hst : s.symbolTable.stack = top :: rest) :
    notGlobalCheck node s =
      .ok ((), appendErrs s
        (if top.kind = .global then [] else [err .notInGlobalScopeError node])) := by
  unfold notGlobalCheck
  show (inGlobalScope >>= fun b => if (!b) = true then insertError _ node else pure ()) s = _
  rw [bind_run_of_ok (run_inGlobalScope s top rest hst)]
  cases hk : top.kind <;> simp

/-- **NotInGlobalScopeError (qubit declaration, `def`, array declaration) iff the current scope is
not the global one** -/
theorem not_global_iff (node : Ast.Span) (s s' : Ctx) (top : Scope) (rest : List Scope)
    (hst : s.symbolTable.stack = top :: rest) (h : notGlobalCheck node s = .ok ((), s')) :
    (s'.semanticErrors = s.semanticErrors ++ [err .notInGlobalScopeError node] ↔
      top.kind ≠ .global) ∧
    (s'.semanticErrors = s.semanticErrors ↔ top.kind = .global) := by
  rw [notGlobalCheck_run node s top rest hst] at h
  simp only [Except.ok.injEq, Prod.mk.injEq, true_and] at h
  subst h
  by_cases hk : top.kind = .global <;> simp [appendErrs, hk]

theorem gateNotGlobalCheck_run (name : Ast.Name) (s : Ctx) (top : Scope) (rest : List Scope)
    (hst : s.symbolTable.stack = top :: rest) :
    gateNotGlobalCheck (some name) s =
      .ok ((), appendErrs s
        (if top.kind = .global then [] else [err .notInGlobalScopeError name.span])) := by
  unfold gateNotGlobalCheck
  show (inGlobalScope >>= fun b => if (!b) = true then do
          let n ← unwrap "stmt_to_asg_stmt: Gate name() is None" (some name)
          insertError .notInGlobalScopeError n.span
        else pure ()) s = _
  rw [bind_run_of_ok (run_inGlobalScope s top rest hst)]
  cases hk : top.kind <;> simp

/-- the `gate` variant (diagnostic at the gate's name) -/
theorem not_global_gate_iff (name : Ast.Name) (s s' : Ctx) (top : Scope) (rest : List Scope)
    (hst : s.symbolTable.stack = top :: rest) (h : gateNotGlobalCheck (some name) s = .ok ((), s')) :
    (s'.semanticErrors = s.semanticErrors ++ [err .notInGlobalScopeError name.span] ↔
      top.kind ≠ .global) ∧
    (s'.semanticErrors = s.semanticErrors ↔ top.kind = .global) := by
  rw [gateNotGlobalCheck_run name s top rest hst] at h
  simp only [Except.ok.injEq, Prod.mk.injEq, true_and] at h
  subst h
  by_cases hk : top.kind = .global <;> simp [appendErrs, hk]

theorem returnGlobalCheck_run (node : Ast.Span) (s : Ctx) (top : Scope) (rest : List Scope)
    (hst : s.symbolTable.stack = top :: rest) :
    returnGlobalCheck node s =
      .ok ((), appendErrs s
        (if top.kind = .global then [err .returnInGlobalScopeError node] else [])) := by
  unfold returnGlobalCheck
  show (currentScopeType >>= fun k => if (k == ScopeType.global) = true then
          insertError .returnInGlobalScopeError node else pure ()) s = _
  rw [bind_run_of_ok (run_currentScopeType s top rest hst)]
  cases hk : top.kind <;> simp

/-- **ReturnInGlobalScopeError iff the current scope is the global one** -/
theorem return_global_iff (node : Ast.Span) (s s' : Ctx) (top : Scope) (rest : List Scope)
    (hst : s.symbolTable.stack = top :: rest) (h : returnGlobalCheck node s = .ok ((), s')) :
    (s'.semanticErrors = s.semanticErrors ++ [err .returnInGlobalScopeError node] ↔
      top.kind = .global) ∧
    (s'.semanticErrors = s.semanticErrors ↔ top.kind ≠ .global) := by
  rw [returnGlobalCheck_run node s top rest hst] at h
  simp only [Except.ok.injEq, Prod.mk.injEq, true_and] at h
  subst h
  by_cases hk : top.kind = .global <;> simp [appendErrs, hk]

/-! ### delay -/

def isDuration : T → Bool
  | .duration _ => true
  | _ => false

theorem delayDurationCheck_run (duration : TExpr) (designator : Ast.Span) (s : Ctx) :
    delayDurationCheck duration designator s =
      .ok ((), appendErrs s
        (if isDuration duration.getType then [] else [err .incompatibleTypesError designator])) := by
  unfold delayDurationCheck
  cases duration.getType <;> simp [isDuration]

/-- **a delay is reported (at its designator) iff the duration expression's type is not
`Duration`** — note that `Stretch` is reported too -/
theorem delay_duration_iff (duration : TExpr) (designator : Ast.Span) (s s' : Ctx)
    (h : delayDurationCheck duration designator s = .ok ((), s')) :
    (s'.semanticErrors = s.semanticErrors ++ [err .incompatibleTypesError designator] ↔
      isDuration duration.getType = false) ∧
    (s'.semanticErrors = s.semanticErrors ↔ isDuration duration.getType = true) := by
  rw [delayDurationCheck_run] at h
  simp only [Except.ok.injEq, Prod.mk.injEq, true_and] at h
  subst h
  cases hq : isDuration duration.getType <;> simp [appendErrs]

/-! ### the blocks are what the analysis functions run -/

/-- `gate_call_expr_to_asg_stmt` = operands; parameters; gate look-up; then exactly `gateCallCheck`
on the values just computed (so `gate_params_iff`/`gate_qubits_iff`/`not_a_gate_iff` describe every
diagnostic the call node itself contributes) -/
theorem gateCall_uses_check (fuel : Nat) (span : Ast.Span) (qubitList : Option Ast.QubitList)
    (argList : Option Ast.ArgList) (identifier : Option Ast.Identifier)
    (modifiers : List GateModifier) :
    gateCallExprToAsgStmt (fuel + 1) (.mk span qubitList argList identifier) modifiers =
    (do
      let gateOperands ← qubitListToAsgTexpr fuel qubitList
      let paramList ← match argList with
        | some (.mk _ el) => do
          let el ← unwrap "gate_call_expr_to_asg_stmt: arg_list expression_list() is None" el
          pure (some (← expressionListToAsgTexpr fuel el))
        | none => pure none
      let numParams := match paramList with
        | some ps => ps.length
        | none => 0
      let gateId ← unwrap "gate_call_expr_to_asg_stmt: identifier() is None" identifier
      let (symbolResult, gateType) ← lookupGateSymbol gateId.text gateId.span
      gateCallCheck span qubitList argList gateId symbolResult gateType numParams gateOperands.length
      pure (some (.gateCall symbolResult paramList gateOperands modifiers))) := by
  rfl

/-- the `QuantumDeclarationStatement` arm starts with `notGlobalCheck` on the statement -/
theorem quantumDecl_uses_check (fuel : Nat) (span : Ast.Span) (name : Option Ast.Name)
    (hw : Option Ast.HardwareQubit) (qt : Option Ast.QubitType) :
    stmtToAsgStmt (fuel + 1) (.quantumDeclarationStatement span name hw qt) =
    (do
      notGlobalCheck span
      match name with
      | none =>
        let hwQubit ← unwrap "stmt_to_asg_stmt: QuantumDeclarationStatement hardware_qubit() is None" hw
        pure (some (.declareHardwareQubit hwQubit.text))
      | some name =>
        let qubitType ← unwrap "stmt_to_asg_stmt: QuantumDeclarationStatement qubit_type() is None" qt
        let width ← designatorToAsg qubitType.designator
        let typ : T := match width with
          | some width => .qubitArray (.d1 width)
          | none => .qubit
        let symbolId ← newBinding name.text typ span
        pure (some (.declareQuantum symbolId))) := by
  rfl

end Oq3.Props.C13
