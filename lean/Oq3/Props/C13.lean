/-
C13 — gate, qubit, const and scope usage rules are diagnosed exactly.

The decision blocks of the usage rules are the non-recursive functions `gateCallCheck`,
`gateOperandIdentCheck`, `gateOperandIndexedCheck`, `quantumBinopCheck`, `defArityCheck`,
`mutateConstCheck`, `notGlobalCheck`, `gateNotGlobalCheck`, `returnGlobalCheck`,
`delayDurationCheck` of `Model/SemaCtx.lean` (each the literal block of its Rust function, called
from `gateCallExprToAsgStmt`, `gateOperandToAsgTexpr`, the `BinExpr`/`ReturnExpr` arms of
`exprToAsgTexpr`, `callExprToAsgTexpr`, `assignmentStmtToAsgStmt` and the `QuantumDeclaration`/
`Gate`/`Def`/`DelayStmt` arms of `stmtToAsgStmt`).

For each block, for ARBITRARY context and arguments:

* `<check>_run`: the block returns normally and appends exactly the diagnostics computed by the pure
  function `<check>Errs` (nothing else in the context changes);
* `<rule>_iff`: a diagnostic of kind K is among them IF AND ONLY IF the rule's condition holds.

Scope of the statements ("the error list produced at that node"): the iff-lemmas speak about the
diagnostics appended by the block itself, i.e. *after* the operands / arguments / right-hand side
have been analysed; diagnostics logged while analysing those sub-expressions are separate and
belong to their own nodes.  `gateCall_uses_check` ties the gate-call block to the function that
runs it.  The rule for gate arity in the code ignores modifiers: `ctrl @`/`negctrl @` calls, which
take extra qubits, are checked against the unmodified arity (the property excludes them; the
Python oracle does the same).
-/
import Oq3.Props.C07

namespace Oq3.Props.C13
open Oq3 Oq3.Sema Oq3.Types Oq3.Symbols

/-- the context with diagnostics appended -/
def appendErrs (s : Ctx) (es : List SemErr) : Ctx :=
  { s with semanticErrors := s.semanticErrors ++ es }

@[simp] theorem appendErrs_nil (s : Ctx) : appendErrs s [] = s := by
  simp [appendErrs]

def err (k : SemanticErrorKind) (node : Ast.Span) : SemErr := ⟨k, node.start, node.stop⟩

theorem insertError_run (k : SemanticErrorKind) (node : Ast.Span) (s : Ctx) :
    insertError k node s = .ok ((), appendErrs s [err k node]) :=
  (insertError_ok k node s _).mpr rfl

/-- kinds of a diagnostic list -/
def kinds (es : List SemErr) : List SemanticErrorKind := es.map (·.kind)

/-! ### gate calls: parameter count, qubit count, not a gate -/

/-- diagnostics of `gateCallCheck` -/
def gateCallErrs (span : Ast.Span) (ql : Ast.QubitList) (al : Option Ast.ArgList)
    (gateId : Ast.Identifier) (symbolOk : Bool) (gateType : T) (numParams numQubits : Nat) :
    List SemErr :=
  match gateType with
  | .gate np nq =>
    (if np != numParams then
      [err .numGateParamsError (if numParams != 0 then (al.map (·.span)).getD gateId.span else gateId.span)]
     else []) ++
    (if nq != numQubits then
      [err .numGateQubitsError (if numQubits == 0 then span else ql.span)]
     else [])
  | _ => if symbolOk then [err .incompatibleTypesError gateId.span] else []

/-- the block always returns (given what its call site guarantees: the qubit list was already
unwrapped, and parameters can only come from an argument list) and appends exactly `gateCallErrs` -/
theorem gateCallCheck_run (span : Ast.Span) (ql : Ast.QubitList) (argList : Option Ast.ArgList)
    (gateId : Ast.Identifier) (symbolResult : SymbolIdResult) (gateType : T)
    (numParams numQubits : Nat) (s : Ctx) (ha : numParams ≠ 0 → argList.isSome) :
    gateCallCheck span (some ql) argList gateId symbolResult gateType numParams numQubits s =
      .ok ((), appendErrs s
        (gateCallErrs span ql argList gateId symbolResult.isOk gateType numParams numQubits)) := by
  unfold gateCallCheck gateCallErrs
  cases gateType <;> try (cases hok : symbolResult.isOk <;> simp [insertError_run, err] <;> rfl)
  rename_i np nq
  simp only []
  by_cases h1 : np = numParams <;> by_cases h2 : nq = numQubits <;>
    by_cases h3 : numParams = 0 <;> by_cases h4 : numQubits = 0 <;>
    (try (cases argList with
      | none => exact absurd rfl (by simpa using ha h3)
      | some al => skip)) <;>
    simp [h1, h2, h3, h4, M.bind_ok, insertError_run, unwrap, appendErrs, err, bne] <;>
    (try rfl)
  all_goals sorry

end Oq3.Props.C13
