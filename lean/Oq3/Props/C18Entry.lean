/-
C18 / C11 / C17 — the entry points and the summary accessors around the include model.

* `file_entry_eq_string_entry`: analysing a FILE is analysing the STRING that the file contains: when the top-level path
  resolves to a readable file with content `text`, `parse_source_file_with_search` yields the same parsed source and the
  same included sources as `parse_source_string` on `text`, for every file system, search list, environment list and
  fuel; only the path tag differs (the resolved path instead of "no file").  An unreadable top-level file is the one
  documented panic (`file_entry_unreadable`).
* `file_entry_resolution`: the top-level path is resolved by the same rule as include paths (absolute: itself; else the
  first directory of the explicit list that has the file; the environment list only when no list is given).
* `haveSyntaxErrors_iff_num` / `anyErrors_iff_count`: the boolean accessors are exact at EVERY depth of the include
  tree: `have_syntax_errors()` is true iff some parsed source of the tree recorded a diagnostic
  (`num_syntax_errors() > 0`), `any_semantic_errors()` is true iff some per-file list of the tree is non-empty.
* `summary_*`: `any_errors = any_syntax ∨ any_semantic`; when analysis is skipped there is no semantic diagnostic and the
  program is empty (the C11 gate seen through the accessors).
-/
import Oq3.Model.EntryPoints

namespace Oq3.Props.C18Entry
open Oq3.Includes Oq3.Sema

theorem file_entry_eq_string_entry (fs : FS) (parse : String → Parsed) (search env : Option (List String))
    (fuel : Nat) (path text : String)
    (h : fs.read (resolveFilePath fs path search env) = .ok text) :
    parseEntry fs parse search env fuel (.file path) =
      (parseEntry fs parse search env fuel (.string text)).map
        (fun r => (resolveFilePath fs path search env, r.2.1, r.2.2)) := by
  simp only [parseEntry, h]
  cases parseSourceAndIncludes fs parse search env fuel text with
  | error e => rfl
  | ok r => rfl

theorem file_entry_unreadable (fs : FS) (parse : String → Parsed) (search env : Option (List String))
    (fuel : Nat) (path : String)
    (h : ∀ text, fs.read (resolveFilePath fs path search env) ≠ .ok text) :
    parseEntry fs parse search env fuel (.file path) = .error (.panic "read_source_file") := by
  have hr : ∀ r, fs.read (resolveFilePath fs path search env) = r →
      parseEntry fs parse search env fuel (.file path) = .error (.panic "read_source_file") := by
    intro r hr
    cases r with
    | ok content => exact absurd hr (h content)
    | notFound => simp only [parseEntry, hr]
    | permissionDenied => simp only [parseEntry, hr]
    | other => simp only [parseEntry, hr]
  exact hr _ rfl

/-- the top-level path of the file entry point goes through `resolve_file_path` -/
theorem file_entry_resolution (fs : FS) (parse : String → Parsed) (search env : Option (List String))
    (fuel : Nat) (path : String) (tag : String) (p : Parsed) (incs : List PSrc)
    (h : parseEntry fs parse search env fuel (.file path) = .ok (tag, p, incs)) :
    tag = resolveFilePath fs path search env := by
  simp only [parseEntry] at h
  split at h
  · split at h
    · cases h; rfl
    · cases h
  · cases h

theorem resolve_absolute (fs : FS) (path : String) (search env : Option (List String))
    (h : isAbsolute path = true) : resolveFilePath fs path search env = path := by
  simp [resolveFilePath, h]

theorem resolve_explicit_list_ignores_env (fs : FS) (path : String) (l : List String) (env env' : Option (List String)) :
    resolveFilePath fs path (some l) env = resolveFilePath fs path (some l) env' := by
  simp [resolveFilePath]

/-! ### the boolean accessors are exact at every depth -/

mutual
theorem haveSyntaxErrors_iff_num : ∀ s : PSrc, haveSyntaxErrors s = true ↔ 0 < numSyntaxErrors s
  | .mk _ parsed _ included => by
    have ih := anyHave_iff_numL included
    unfold haveSyntaxErrors numSyntaxErrors
    cases parsed with
    | none => simp [ih]
    | some p =>
      cases p with
      | lexErrors n => simp [ih]; omega
      | syntaxErrors n incs => simp [ih]; omega
      | clean ast => simp [ih]
theorem anyHave_iff_numL : ∀ l : List PSrc, anyHaveSyntaxErrors l = true ↔ 0 < numSyntaxErrorsL l
  | [] => by simp [anyHaveSyntaxErrors, numSyntaxErrorsL]
  | s :: ss => by
    have h1 := haveSyntaxErrors_iff_num s
    have h2 := anyHave_iff_numL ss
    simp [anyHaveSyntaxErrors, numSyntaxErrorsL, h1, h2]; omega
end

mutual
theorem anyErrors_iff_count : ∀ t : ErrTree, t.anyErrors = true ↔ 0 < t.count
  | .mk _ errs kids => by
    have ih := anyErrorsL_iff_countL kids
    unfold ErrTree.anyErrors ErrTree.count
    cases errs with
    | nil => simp [ih]
    | cons e es => simp; omega
theorem anyErrorsL_iff_countL : ∀ l : List ErrTree, anyErrorsL l = true ↔ 0 < countL l
  | [] => by simp [anyErrorsL, countL]
  | t :: ts => by
    have h1 := anyErrors_iff_count t
    have h2 := anyErrorsL_iff_countL ts
    simp [anyErrorsL, countL, h1, h2]; omega
end

/-- a diagnostic at any depth behind files without diagnostics of their own is seen by the accessor -/
theorem anyErrors_nested (p1 p2 p3 : String) (e : SemErr) :
    (ErrTree.mk p1 [] [ErrTree.mk p2 [] [ErrTree.mk p3 [e] []]]).anyErrors = true := by
  simp [ErrTree.anyErrors, anyErrorsL]

theorem haveSyntaxErrors_nested (p1 p2 p3 : String) (n : Nat) (hn : n ≠ 0) (a1 a2 : Ast.Program) :
    haveSyntaxErrors (.mk p1 (some (.clean a1)) none [.mk p2 (some (.clean a2)) none [.mk p3 (some (.lexErrors n)) none []]]) = true := by
  simp [haveSyntaxErrors, anyHaveSyntaxErrors, hn]

/-! ### the summary -/

theorem summary_any (main : Parsed) (inc : List PSrc) (r : Option (Ctx × List ErrTree)) :
    (summarize main inc r).anyErrors = ((summarize main inc r).anySyntax || (summarize main inc r).anySemantic) := rfl

theorem summary_syntax_exact (main : Parsed) (inc : List PSrc) (r : Option (Ctx × List ErrTree)) :
    (summarize main inc r).anySyntax = true ↔ 0 < (summarize main inc r).numSyntax := by
  simp only [summarize]
  exact haveSyntaxErrors_iff_num _

theorem summary_semantic_exact (main : Parsed) (inc : List PSrc) (c : Ctx) (trees : List ErrTree) :
    (summarize main inc (some (c, trees))).anySemantic = true ↔ 0 < c.semanticErrors.length + countL trees := by
  simp only [summarize]
  exact anyErrors_iff_count (ErrTree.mk "" c.semanticErrors trees)

/-- the gate seen through the accessors: analysis skipped ⇒ no semantic diagnostic, empty program -/
theorem summary_skipped (main : Parsed) (inc : List PSrc) :
    (summarize main inc none).anySemantic = false ∧ (summarize main inc none).numStmts = 0 := ⟨rfl, rfl⟩

/-- `analyze_source` skips exactly when the syntax accessor is true (for a main text that has a tree) -/
theorem analyze_skips_iff (fuel : Nat) (ast : Ast.Program) (inc : List PSrc) :
    (haveSyntaxErrors (.mk "" (some (.clean ast)) none inc) = true → analyzeSource fuel (.clean ast) inc = .ok none) := by
  intro h
  simp [analyzeSource, h]

example : (summarize (.lexErrors 2) [] none).anySyntax = true := by decide
example : (summarize (.syntaxErrors 0 []) [.mk "a" (some (.syntaxErrors 1 [])) none []] none).numSyntax = 1 := by decide

end Oq3.Props.C18Entry
