/-
C17 (renaming), symbol-table layer.

`Ren` = an injective map on names that fixes the built-in names (`pi π euler ℇ tau τ U`) and the
standard gate names.  Injectivity on ALL strings is the side condition (then "maps no user name
onto a fixed one" is a consequence: `ρ u = f = ρ f → u = f`).

`step_rename`: every operation of the symbol table commutes with the renaming — `enter`, `exit`,
`bind`, `lookup`, `lookupOrNew`, `lenCurrent` (look-ups compare names with `==`; injectivity gives
`(ρ a == ρ b) = (a == b)`).  `run_rename`, `init_rename` (the initial table is fixed),
`standardLibraryGates_rename`.
-/
import Oq3.Model.Symbols

namespace Oq3.C17Rename
open Oq3.Types Oq3.Symbols

/-- the names no renaming may move: built-in constants, `U`, the standard gates -/
def fixedNames : List Name := builtinConsts ++ ["U"] ++ stdGates.map (·.1)

/-- an admissible renaming -/
structure Ren where
  f : String → String
  inj : ∀ a b, f a = f b → a = b
  fix : ∀ n, n ∈ fixedNames → f n = n

variable (ρ : Ren)

theorem Ren.beq (a b : String) : (ρ.f a == ρ.f b) = (a == b) := by
  by_cases h : a = b
  · subst h; simp only [beq_self_eq_true]
  · have : ρ.f a ≠ ρ.f b := fun e => h (ρ.inj _ _ e)
    rw [beq_eq_false_iff_ne.mpr this, beq_eq_false_iff_ne.mpr h]

/-! ### renaming a table -/

def rnSym (s : Sym) : Sym := { s with name := ρ.f s.name }
def rnEntry (p : Name × Nat) : Name × Nat := (ρ.f p.1, p.2)
def rnScope (s : Scope) : Scope := { s with tab := s.tab.map (rnEntry ρ) }
def rnTab (t : SymTab) : SymTab :=
  { t with stack := t.stack.map (rnScope ρ), all := t.all.map (rnSym ρ) }

def rnOp : Op → Op
  | .enter k => .enter k
  | .exit => .exit
  | .bind n ty => .bind (ρ.f n) ty
  | .lookup n => .lookup (ρ.f n)
  | .lookupOrNew n ty => .lookupOrNew (ρ.f n) ty
  | .lenCurrent => .lenCurrent

def rnOut : Out → Out
  | .found id name ty => .found id (ρ.f name) ty
  | o => o

theorem find_rename (tab : List (Name × Nat)) (n : Name) :
    (tab.map (rnEntry ρ)).find? (fun p => p.1 == ρ.f n) = (tab.find? (fun p => p.1 == n)).map (rnEntry ρ) := by
  induction tab with
  | nil => rfl
  | cons p ps ih =>
    simp only [List.map_cons, List.find?_cons, rnEntry, ρ.beq]
    cases p.1 == n <;> simp [ih, rnEntry]

theorem get_rename (s : Scope) (n : Name) : (rnScope ρ s).get (ρ.f n) = s.get n := by
  simp only [Scope.get, rnScope, find_rename, Option.map_map]
  cases s.tab.find? (fun p => p.1 == n) <;> rfl

theorem containsName_rename (s : Scope) (n : Name) :
    (rnScope ρ s).containsName (ρ.f n) = s.containsName n := by
  simp [Scope.containsName, get_rename]

theorem insert_rename (s : Scope) (n : Name) (id : Nat) :
    (rnScope ρ s).insert (ρ.f n) id = rnScope ρ (s.insert n id) := by
  simp only [Scope.insert, rnScope, List.map_cons, rnEntry]
  congr 2
  induction s.tab with
  | nil => rfl
  | cons p ps ih =>
    simp only [List.map_cons, List.filter_cons, rnEntry, ρ.beq]
    cases p.1 == n <;> simp [ih, rnEntry]

theorem len_rename (s : Scope) : (rnScope ρ s).len = s.len := by
  simp [Scope.len, rnScope]

theorem lookupId_rename (t : SymTab) (n : Name) : (rnTab ρ t).lookupId (ρ.f n) = t.lookupId n := by
  simp only [SymTab.lookupId, rnTab]
  induction t.stack with
  | nil => rfl
  | cons s ss ih => simp only [List.map_cons, List.findSome?_cons, get_rename, ih]

theorem all_get_rename (t : SymTab) (i : Nat) : (rnTab ρ t).all[i]? = (t.all[i]?).map (rnSym ρ) := by
  simp [rnTab]

theorem newBinding_rename (t : SymTab) (n : Name) (ty : T) :
    (rnTab ρ t).newBindingNoCheck (ρ.f n) ty =
      (t.newBindingNoCheck n ty).map (fun r => (rnTab ρ r.1, r.2)) := by
  unfold SymTab.newBindingNoCheck
  cases h : t.stack with
  | nil => simp [rnTab, h]
  | cons s rest =>
    simp only [rnTab, h, List.map_cons, Option.map_some, insert_rename, List.map_append, List.map_nil, rnSym]

/-- **every operation of the symbol table commutes with an admissible renaming** -/
theorem step_rename (t : SymTab) (op : Op) :
    (rnTab ρ t).step (rnOp ρ op) = (rnTab ρ (t.step op).1, rnOut ρ (t.step op).2) := by
  cases op with
  | enter k =>
    simp only [rnOp, SymTab.step, rnTab, List.length_map]
    split <;> simp [rnOut, rnScope]
  | exit =>
    simp only [rnOp, SymTab.step, rnTab, List.length_map]
    split <;> simp [rnOut, List.map_tail]
  | bind n ty =>
    simp only [rnOp, SymTab.step]
    cases h : t.stack with
    | nil => simp [rnTab, h, rnOut]
    | cons s rest =>
      have hs : (rnTab ρ t).stack = rnScope ρ s :: rest.map (rnScope ρ) := by simp [rnTab, h]
      simp only [hs, containsName_rename]
      cases hc : s.containsName n with
      | true => simp [rnOut]
      | false =>
        simp only [Bool.false_eq_true, if_false, newBinding_rename]
        cases t.newBindingNoCheck n ty with
        | none => simp [rnOut]
        | some r => simp [rnOut]
  | lookup n =>
    simp only [rnOp, SymTab.step, lookupId_rename]
    cases t.lookupId n with
    | none => simp [rnOut]
    | some id =>
      simp only [all_get_rename]
      cases t.all[id]? with
      | none => simp [rnOut]
      | some s => simp [rnOut, rnSym]
  | lookupOrNew n ty =>
    simp only [rnOp, SymTab.step, lookupId_rename]
    cases t.lookupId n with
    | none =>
      simp only [newBinding_rename]
      cases t.newBindingNoCheck n ty with
      | none => simp [rnOut]
      | some r => simp [rnOut]
    | some id =>
      simp only [all_get_rename]
      cases t.all[id]? with
      | none => simp [rnOut]
      | some s => simp [rnOut]
  | lenCurrent =>
    simp only [rnOp, SymTab.step]
    cases h : t.stack with
    | nil => simp [rnTab, h, rnOut]
    | cons s rest => simp [rnTab, h, rnOut, len_rename]

theorem run_rename (t : SymTab) (ops : List Op) :
    rnTab ρ (run t ops) = run (rnTab ρ t) (ops.map (rnOp ρ)) := by
  induction ops generalizing t with
  | nil => rfl
  | cons op ops ih => simp only [run, List.map_cons, step_rename, ih]

theorem outs_rename (t : SymTab) (ops : List Op) :
    outs (rnTab ρ t) (ops.map (rnOp ρ)) = (outs t ops).map (rnOut ρ) := by
  induction ops generalizing t with
  | nil => rfl
  | cons op ops ih => simp only [outs, List.map_cons, step_rename, ih]

theorem fix_builtin {n : Name} (h : n ∈ builtinConsts) : ρ.f n = n :=
  ρ.fix n (by simp [fixedNames, h])

theorem fix_U : ρ.f "U" = "U" := ρ.fix _ (by simp [fixedNames])

theorem fix_std {g : Name × Nat × Nat} (h : g ∈ stdGates) : ρ.f g.1 = g.1 :=
  ρ.fix _ (by
    simp only [fixedNames, List.mem_append, List.mem_map]
    exact Or.inr ⟨g, h, rfl⟩)

/-- the initial table (built-in constants and `U`) is a fixed point -/
theorem init_rename : rnTab ρ init = init := by
  unfold init
  rw [run_rename]
  have e : rnTab ρ empty = empty := rfl
  rw [e]
  congr 1
  simp only [List.map_cons, List.map_append, List.map_map, List.map_nil, rnOp, Gen.builtinGate, fix_U]
  congr 2
  apply List.map_congr_left
  intro n hn
  simp [rnOp, fix_builtin ρ hn]

/-- binding the standard gates commutes with the renaming (their names are fixed) -/
theorem standardLibraryGates_rename (t : SymTab) :
    (rnTab ρ t).standardLibraryGates = (rnTab ρ t.standardLibraryGates.1, t.standardLibraryGates.2) := by
  unfold SymTab.standardLibraryGates
  suffices h : ∀ (l : List (Name × Nat × Nat)), (∀ g ∈ l, g ∈ stdGates) → ∀ (t0 : SymTab) (ns : List Name),
      l.foldl (fun (acc : SymTab × List Name) (g : Name × Nat × Nat) =>
        match acc.1.step (.bind g.1 (T.gate g.2.1 g.2.2)) with
        | (t', .bound _) => (t', acc.2)
        | (t', _) => (t', acc.2 ++ [g.1])) (rnTab ρ t0, ns) =
      (rnTab ρ (l.foldl (fun (acc : SymTab × List Name) (g : Name × Nat × Nat) =>
        match acc.1.step (.bind g.1 (T.gate g.2.1 g.2.2)) with
        | (t', .bound _) => (t', acc.2)
        | (t', _) => (t', acc.2 ++ [g.1])) (t0, ns)).1,
       (l.foldl (fun (acc : SymTab × List Name) (g : Name × Nat × Nat) =>
        match acc.1.step (.bind g.1 (T.gate g.2.1 g.2.2)) with
        | (t', .bound _) => (t', acc.2)
        | (t', _) => (t', acc.2 ++ [g.1])) (t0, ns)).2) from h stdGates (fun _ h => h) t []
  intro l
  induction l with
  | nil => intro _ t0 ns; rfl
  | cons g l ih =>
    intro hl t0 ns
    simp only [List.foldl_cons]
    have hg : ρ.f g.1 = g.1 := fix_std ρ (hl g (List.mem_cons_self))
    have hs := step_rename ρ t0 (.bind g.1 (T.gate g.2.1 g.2.2))
    simp only [rnOp, hg] at hs
    rw [hs]
    have := ih (fun x hx => hl x (List.mem_cons_of_mem _ hx))
    generalize t0.step (.bind g.1 (T.gate g.2.1 g.2.2)) = so
    obtain ⟨t', o⟩ := so
    cases o <;> simp only [rnOut] <;> exact this _ _

end Oq3.C17Rename
