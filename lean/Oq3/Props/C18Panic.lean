/-
C18 — panics correspond.

`inclusion_outcome_iff`: for a splice `flat` of `stmts` with the sources `inc` and a start context in
global scope, the include-aware analysis ends with an outcome `o` other than "out of fuel" — a
panic at some site, in particular — (for some fuel `≥ fuel`) iff the plain analysis of the spliced
list does (for some fuel); and then both do so for every larger fuel.  With `inclusion_iff`
(`C18Conv.lean`): textual inclusion is an equivalence for normal AND abnormal termination.
-/
import Oq3.Props.C18Conv
import Oq3.Props.C18MonoErr

namespace Oq3.C18E
open Oq3 Oq3.Types Oq3.Symbols Oq3.Sema Oq3.Includes

/-! ### failing runs -/

theorem bind_err' {α β} (x : M α) (f : α → M β) (c : Ctx) (o : Sema.Outcome) :
    (x >>= f) c = .error o ↔ x c = .error o ∨ ∃ a c1, x c = .ok (a, c1) ∧ f a c1 = .error o := by
  rw [bind_run]
  cases x c with
  | error e => simp [bindRes]
  | ok p =>
    obtain ⟨a, c1⟩ := p
    simp only [bindRes, reduceCtorEq, Except.ok.injEq, Prod.mk.injEq, false_or]
    constructor
    · intro h; exact ⟨a, c1, ⟨rfl, rfl⟩, h⟩
    · rintro ⟨_, _, ⟨rfl, rfl⟩, h⟩; exact h

/-- a failing run does not depend on the diagnostics of the start context -/
theorem ErrFrame.transport_err {α} {x : M α} (hx : ErrFrame x) {c d : Ctx} {o : Sema.Outcome}
    (h : x c = .error o) (hd : eraseErrs d = eraseErrs c) : x d = .error o := by
  rw [hx.run c] at h
  rw [hx.run d, hd]
  cases hx' : x (eraseErrs c) with
  | error e => rw [hx'] at h; simpa [lift] using h
  | ok p => rw [hx'] at h; obtain ⟨a, e'⟩ := p; simp [lift] at h

theorem loop_zero_err (l : List Ast.Stmt) (c : Ctx) : syntaxToSemanticLoop 0 l c = .error .fuel := by
  unfold syntaxToSemanticLoop; rfl

theorem loop_cons_err (F : Nat) (s : Ast.Stmt) (rest : List Ast.Stmt) (c : Ctx) (o : Sema.Outcome) :
    syntaxToSemanticLoop (F + 1) (s :: rest) c = .error o ↔
      C17.topStepM F s c = .error o ∨
        ∃ c1, C17.topStepM F s c = .ok ((), c1) ∧ syntaxToSemanticLoop F rest c1 = .error o := by
  rw [C06.topLoop_cons_eq]
  unfold C17.topStepM
  rw [← bind_assoc, bind_err']
  constructor
  · rintro (h | ⟨u, c1, h1, h2⟩)
    · exact .inl h
    · exact .inr ⟨c1, h1, h2⟩
  · rintro (h | ⟨c1, h1, h2⟩)
    · exact .inl h
    · exact .inr ⟨(), c1, h1, h2⟩

theorem loop_append_err {F : Nat} {p q : List Ast.Stmt} {c : Ctx} {o : Sema.Outcome} :
    syntaxToSemanticLoop F (p ++ q) c = .error o ↔
      syntaxToSemanticLoop F p c = .error o ∨
        ∃ c', syntaxToSemanticLoop F p c = .ok ((), c') ∧
          syntaxToSemanticLoop (F - p.length) q c' = .error o := by
  induction p generalizing F c with
  | nil =>
    cases F with
    | zero => simp [loop_zero_err]
    | succ F =>
      have : syntaxToSemanticLoop (F + 1) [] c = .ok ((), c) := (C17.loop_nil F c _).mpr rfl
      simp [this]
  | cons s rest ih =>
    cases F with
    | zero => simp [loop_zero_err]
    | succ F =>
      simp only [List.cons_append, loop_cons_err, C17.loop_cons, List.length_cons,
        Nat.add_sub_add_right]
      constructor
      · rintro (h | ⟨c1, h1, h2⟩)
        · exact .inl (.inl h)
        · rcases ih.mp h2 with h3 | ⟨c', h3, h4⟩
          · exact .inl (.inr ⟨c1, h1, h3⟩)
          · exact .inr ⟨c', ⟨c1, h1, h3⟩, h4⟩
      · rintro ((h | ⟨c1, h1, h3⟩) | ⟨c', ⟨c1, h1, h3⟩, h4⟩)
        · exact .inl h
        · exact .inr ⟨c1, h1, ih.mpr (.inl h3)⟩
        · exact .inr ⟨c1, h1, ih.mpr (.inr ⟨c', h3, h4⟩)⟩

/-- **the include arm, evaluated** (global scope, readable and cleanly parsed source): the outcome of
the arm in terms of the outcomes of its two sub-runs -/
theorem include_arm_eval (k : Nat) (sp : Ast.Span) (f : Ast.FilePath) (p : String)
    (hf : f.toString? = some p) (hp : (p == "stdgates.inc") = false) (rest : List Ast.Stmt)
    (src : PSrc) (inc' : List PSrc) (ast : Ast.Program) (he : src.includeError = none)
    (hpar : src.parsed = some (.clean ast)) (c : Ctx) (hg : IsGlobal c) :
    syntaxToSemanticInc (k + 1) (.includeStmt sp (some f) :: rest) (src :: inc') c =
      match syntaxToSemanticInc k ast.statements src.included (eraseErrs c) with
      | .error e => .error e
      | .ok (kids, c1) =>
        match syntaxToSemanticInc k rest inc' { c1 with semanticErrors := c.semanticErrors } with
        | .error e => .error e
        | .ok (more, c') => .ok (.mk src.path c1.semanticErrors kids :: more, c') := by
  conv => lhs; unfold syntaxToSemanticInc
  simp only [unwrap, hf, pure_bind, hp, Bool.false_eq_true, if_false]
  rw [bind_run, currentScopeType_global hg]
  simp only [bindRes, bne_self_eq_false, Bool.false_eq_true, if_false, he, hpar]
  simp only [getErrors, setErrors, bind_run, get_run, pure_run, modify_run, bindRes]
  unfold eraseErrs
  cases syntaxToSemanticInc k ast.statements src.included { c with semanticErrors := [] } with
  | error e => rfl
  | ok r =>
    obtain ⟨kids, c1⟩ := r
    dsimp only
    cases syntaxToSemanticInc k rest inc' { c1 with semanticErrors := c.semanticErrors } with
    | error e => rfl
    | ok r2 => rfl

/-! ### one ordinary statement -/

/-- the step equation shared by the include run and the flat run -/
def StepEq (s : Ast.Stmt) (rest : List Ast.Stmt) (inc : List PSrc) : Prop :=
  ∀ K, syntaxToSemanticInc (K + 1) (s :: rest) inc = (do
    let o ← C06.topStmtM K s
    C06.attachM o
    syntaxToSemanticInc K rest inc)

theorem topStmtM_mono2 {fuel fuel' : Nat} (h : fuel ≤ fuel') (s : Ast.Stmt) :
    Le2 (C06.topStmtM fuel s) (C06.topStmtM fuel' s) := by
  cases s with
  | includeStmt sp file => exact Le2.refl _
  | _ => exact stmtToAsgStmt_mono2_le h _

/-- abnormal outcomes other than "out of fuel" -/
def NotFuel (o : Sema.Outcome) : Prop := o ≠ Sema.Outcome.fuel

/-! ### flat run fails ⇒ include run fails -/

def FlatIncErr (fuel : Nat) : Prop :=
  ∀ (stmts : List Ast.Stmt) (inc : List PSrc) (flat : List Ast.Stmt) (c : Ctx) (F : Nat)
    (o : Sema.Outcome), NotFuel o →
    splice fuel stmts inc = some flat → IsGlobal c →
    syntaxToSemanticLoop F flat c = .error o →
    ∀ K, fuel + F ≤ K → syntaxToSemanticInc K stmts inc c = .error o

theorem step_simple_conv_err (k : Nat) (ih : FlatIncErr k) (s : Ast.Stmt) (rest : List Ast.Stmt)
    (inc : List PSrc) (hinc : StepEq s rest inc)
    (hspl : splice (k + 1) (s :: rest) inc = (splice k rest inc).map (s :: ·))
    (flat : List Ast.Stmt) (c : Ctx) (F : Nat) (o : Sema.Outcome) (ho : NotFuel o)
    (hs : splice (k + 1) (s :: rest) inc = some flat) (hg : IsGlobal c)
    (hrun : syntaxToSemanticLoop F flat c = .error o) :
    ∀ K, k + 1 + F ≤ K → syntaxToSemanticInc K (s :: rest) inc c = .error o := by
  rw [hspl] at hs
  cases hfr : splice k rest inc with
  | none => rw [hfr] at hs; cases hs
  | some fr =>
    rw [hfr] at hs
    simp only [Option.map_some, Option.some.injEq] at hs
    subst hs
    cases F with
    | zero => rw [loop_zero_err] at hrun; cases hrun; exact absurd rfl ho
    | succ F' =>
      intro K hK
      obtain ⟨K', rfl⟩ : ∃ K', K = K' + 1 := ⟨K - 1, by omega⟩
      rw [hinc K']
      have hm := topStmtM_mono2 (show F' ≤ K' by omega) s
      rw [loop_cons_err] at hrun
      rcases hrun with h | ⟨c2, h, hrest⟩
      · unfold C17.topStepM at h
        rw [bind_err'] at h
        rcases h with h | ⟨o1, c1, h1, h2⟩
        · exact (bind_err' _ _ _ _).mpr (.inl (hm.err c o h ho))
        · exact (bind_err' _ _ _ _).mpr (.inr ⟨o1, c1, hm.ok c _ h1,
            (bind_err' _ _ _ _).mpr (.inl h2)⟩)
      · unfold C17.topStepM at h
        rw [bind_ok'] at h
        obtain ⟨o1, c1, h1, h2⟩ := h
        obtain ⟨he2, hs2⟩ := attachM_ok h2
        have hg2 : IsGlobal c2 := (hg.of_ext ((topStmtM_pres F' s).run c _ h1)).of_symtab hs2
        have := ih rest inc fr c2 F' o ho hfr hg2 hrest K' (by omega)
        exact (bind_err' _ _ _ _).mpr (.inr ⟨o1, c1, hm.ok c _ h1,
          (bind_err' _ _ _ _).mpr (.inr ⟨(), c2, h2, this⟩)⟩)

theorem flatIncErr (fuel : Nat) : FlatIncErr fuel := by
  induction fuel with
  | zero =>
    intro stmts inc flat c F o ho hs
    simp [splice] at hs
  | succ k ih =>
    intro stmts inc flat c F o ho hs hg hrun
    cases stmts with
    | nil =>
      simp only [splice, Option.some.injEq] at hs
      subst hs
      cases F with
      | zero => rw [loop_zero_err] at hrun; cases hrun; exact absurd rfl ho
      | succ F' =>
        have : syntaxToSemanticLoop (F' + 1) [] c = .ok ((), c) := (C17.loop_nil F' c _).mpr rfl
        rw [this] at hrun; cases hrun
    | cons s rest =>
      have simple : NotInclude s → _ := fun hni =>
        step_simple_conv_err k ih s rest inc (inc_cons_other_all s rest inc hni)
          (splice_cons_other k s rest inc hni) flat c F o ho hs hg hrun
      cases s with
      | includeStmt sp file =>
        cases file with
        | none => simp [splice] at hs
        | some f =>
          cases hf : f.toString? with
          | none => simp [splice, hf] at hs
          | some p =>
            by_cases hp : (p == "stdgates.inc") = true
            · exact step_simple_conv_err k ih _ rest inc
                (fun K => inc_cons_std K sp f p hf hp rest inc)
                (by simp only [splice, hf, hp, if_true]) flat c F o ho hs hg hrun
            · have hp' : (p == "stdgates.inc") = false := by simpa using hp
              simp only [splice, hf, hp', Bool.false_eq_true, if_false] at hs
              cases inc with
              | nil => simp at hs
              | cons src inc' =>
                simp only at hs
                cases he : src.includeError with
                | some err => simp [he] at hs
                | none =>
                  cases hpar : src.parsed with
                  | none => simp [he, hpar] at hs
                  | some pr =>
                    cases pr with
                    | lexErrors n => simp [he, hpar] at hs
                    | syntaxErrors n l => simp [he, hpar] at hs
                    | clean ast =>
                      simp only [he, hpar] at hs
                      cases haf : splice k ast.statements src.included with
                      | none => simp [haf] at hs
                      | some af =>
                        cases hrf : splice k rest inc' with
                        | none => simp [haf, hrf] at hs
                        | some rf =>
                          simp only [haf, hrf, Option.some.injEq] at hs
                          subst hs
                          intro K hK
                          obtain ⟨K', rfl⟩ : ∃ K', K = K' + 1 := ⟨K - 1, by omega⟩
                          rw [include_arm_eval K' sp f p hf hp' rest src inc' ast he hpar c hg]
                          rw [loop_append_err] at hrun
                          rcases hrun with hA | ⟨cm, hA, hR⟩
                          · -- the failure is inside the included file
                            have tA := (syntaxToSemanticLoop_errFrame F af).transport_err
                              (d := eraseErrs c) hA rfl
                            rw [ih ast.statements src.included af (eraseErrs c) F o ho haf
                              (hg.of_symtab rfl) tA K' (by omega)]
                          · -- the included file is fine, the failure is in the rest
                            obtain ⟨nA, hnA, tA⟩ :=
                              (syntaxToSemanticLoop_errFrame F af).transport (d := eraseErrs c) hA rfl
                            simp only [eraseErrs_errs, List.nil_append] at tA
                            obtain ⟨kids, c1, own1, m1, hinc1, ho1, hd1, hw1, hg1⟩ :=
                              flatInc k ast.statements src.included af (eraseErrs c) F _ haf
                                (hg.of_symtab rfl) tA
                            rw [hinc1 K' (by omega)]
                            dsimp only
                            have e2 : eraseErrs cm = eraseErrs c1 := by
                              have := congrArg eraseErrs hd1
                              simpa [eraseErrs] using this
                            have tR := (syntaxToSemanticLoop_errFrame (F - af.length) rf).transport_err
                              (d := { c1 with semanticErrors := c.semanticErrors }) hR
                              (by rw [e2]; rfl)
                            rw [ih rest inc' rf { c1 with semanticErrors := c.semanticErrors }
                              (F - af.length) o ho hrf (hg1.of_symtab rfl) tR K' (by omega)]
      | _ => exact simple (fun _ _ e => by cases e)

/-! ### include run fails ⇒ flat run fails -/

def IncFlatErr (fuel : Nat) : Prop :=
  ∀ (stmts : List Ast.Stmt) (inc : List PSrc) (flat : List Ast.Stmt) (c : Ctx)
    (o : Sema.Outcome), NotFuel o →
    splice fuel stmts inc = some flat → IsGlobal c →
    syntaxToSemanticInc fuel stmts inc c = .error o →
    ∀ F, fuel + flat.length ≤ F → syntaxToSemanticLoop F flat c = .error o

theorem step_simple_err (k : Nat) (ih : IncFlatErr k) (s : Ast.Stmt) (rest : List Ast.Stmt)
    (inc : List PSrc) (hinc : StepEq s rest inc)
    (hspl : splice (k + 1) (s :: rest) inc = (splice k rest inc).map (s :: ·))
    (flat : List Ast.Stmt) (c : Ctx) (o : Sema.Outcome) (ho : NotFuel o)
    (hs : splice (k + 1) (s :: rest) inc = some flat) (hg : IsGlobal c)
    (hrun : syntaxToSemanticInc (k + 1) (s :: rest) inc c = .error o) :
    ∀ F, k + 1 + flat.length ≤ F → syntaxToSemanticLoop F flat c = .error o := by
  rw [hspl] at hs
  cases hfr : splice k rest inc with
  | none => rw [hfr] at hs; cases hs
  | some fr =>
    rw [hfr] at hs
    simp only [Option.map_some, Option.some.injEq] at hs
    subst hs
    intro F hF
    simp only [List.length_cons] at hF
    obtain ⟨F', rfl⟩ : ∃ F', F = F' + 1 := ⟨F - 1, by omega⟩
    have hm := topStmtM_mono2 (show k ≤ F' by omega) s
    rw [hinc k, bind_err'] at hrun
    rw [loop_cons_err]
    rcases hrun with h | ⟨o1, c1, h1, h⟩
    · left
      unfold C17.topStepM
      exact (bind_err' _ _ _ _).mpr (.inl (hm.err c o h ho))
    · rw [bind_err'] at h
      rcases h with h2 | ⟨u, c2, h2, hrest⟩
      · left
        unfold C17.topStepM
        exact (bind_err' _ _ _ _).mpr (.inr ⟨o1, c1, hm.ok c _ h1, h2⟩)
      · right
        obtain ⟨he2, hs2⟩ := attachM_ok h2
        have hg2 : IsGlobal c2 := (hg.of_ext ((topStmtM_pres k s).run c _ h1)).of_symtab hs2
        refine ⟨c2, ?_, ih rest inc fr c2 o ho hfr hg2 hrest F' (by omega)⟩
        unfold C17.topStepM
        exact (bind_ok' _ _ _ _).mpr ⟨o1, c1, hm.ok c _ h1, h2⟩

theorem incFlatErr (fuel : Nat) : IncFlatErr fuel := by
  induction fuel with
  | zero =>
    intro stmts inc flat c o ho hs
    simp [splice] at hs
  | succ k ih =>
    intro stmts inc flat c o ho hs hg hrun
    cases stmts with
    | nil =>
      simp [syntaxToSemanticInc, pure_run] at hrun
    | cons s rest =>
      have simple : NotInclude s → _ := fun hni =>
        step_simple_err k ih s rest inc (inc_cons_other_all s rest inc hni)
          (splice_cons_other k s rest inc hni) flat c o ho hs hg hrun
      cases s with
      | includeStmt sp file =>
        cases file with
        | none => simp [splice] at hs
        | some f =>
          cases hf : f.toString? with
          | none => simp [splice, hf] at hs
          | some p =>
            by_cases hp : (p == "stdgates.inc") = true
            · exact step_simple_err k ih _ rest inc
                (fun K => inc_cons_std K sp f p hf hp rest inc)
                (by simp only [splice, hf, hp, if_true]) flat c o ho hs hg hrun
            · have hp' : (p == "stdgates.inc") = false := by simpa using hp
              simp only [splice, hf, hp', Bool.false_eq_true, if_false] at hs
              cases inc with
              | nil => simp at hs
              | cons src inc' =>
                simp only at hs
                cases he : src.includeError with
                | some err => simp [he] at hs
                | none =>
                  cases hpar : src.parsed with
                  | none => simp [he, hpar] at hs
                  | some pr =>
                    cases pr with
                    | lexErrors n => simp [he, hpar] at hs
                    | syntaxErrors n l => simp [he, hpar] at hs
                    | clean ast =>
                      simp only [he, hpar] at hs
                      cases haf : splice k ast.statements src.included with
                      | none => simp [haf] at hs
                      | some af =>
                        cases hrf : splice k rest inc' with
                        | none => simp [haf, hrf] at hs
                        | some rf =>
                          simp only [haf, hrf, Option.some.injEq] at hs
                          subst hs
                          intro F hF
                          simp only [List.length_append] at hF
                          rw [include_arm_eval k sp f p hf hp' rest src inc' ast he hpar c hg] at hrun
                          rw [loop_append_err]
                          cases h1 : syntaxToSemanticInc k ast.statements src.included (eraseErrs c) with
                          | error e =>
                            rw [h1] at hrun
                            simp only [Except.error.injEq] at hrun
                            subst hrun
                            left
                            have := ih ast.statements src.included af (eraseErrs c) e ho haf
                              (hg.of_symtab rfl) h1 F (by omega)
                            exact (syntaxToSemanticLoop_errFrame F af).transport_err (d := c) this rfl
                          | ok r =>
                            obtain ⟨kids, c1⟩ := r
                            rw [h1] at hrun
                            dsimp only at hrun
                            obtain ⟨own1, m1, ho1, hw1, hg1, hflat1⟩ :=
                              incFlat k ast.statements src.included af (eraseErrs c) kids c1 haf
                                (hg.of_symtab rfl) h1
                            have e1 := hflat1 F (by omega)
                            obtain ⟨n1, hn1, t1⟩ :=
                              (syntaxToSemanticLoop_errFrame F af).transport (d := c) e1 rfl
                            right
                            refine ⟨_, t1, ?_⟩
                            cases h2 : syntaxToSemanticInc k rest inc'
                                { c1 with semanticErrors := c.semanticErrors } with
                            | ok r2 => rw [h2] at hrun; cases hrun
                            | error e =>
                              rw [h2] at hrun
                              simp only [Except.error.injEq] at hrun
                              subst hrun
                              have := ih rest inc' rf { c1 with semanticErrors := c.semanticErrors } e ho
                                hrf (hg1.of_symtab rfl) h2 (F - af.length) (by omega)
                              exact (syntaxToSemanticLoop_errFrame (F - af.length) rf).transport_err
                                this rfl
      | _ => exact simple (fun _ _ e => by cases e)

/-! ## the theorems -/

/-- **abnormal termination corresponds (include ⇒ flat).**  If the include run ends with an outcome
`o` other than "out of fuel" — a panic at a site, in particular — so does the flat run, for every
fuel `F ≥ fuel + flat.length`. -/
theorem inclusion_fails (fuel : Nat) (stmts : List Ast.Stmt) (inc : List PSrc) (flat : List Ast.Stmt)
    (c : Ctx) (o : Sema.Outcome) (ho : o ≠ .fuel)
    (hs : splice fuel stmts inc = some flat) (hg : IsGlobal c)
    (h : (syntaxToSemanticInc fuel stmts inc).run c = .error o) :
    ∀ F, fuel + flat.length ≤ F → (syntaxToSemanticLoop F flat).run c = .error o :=
  incFlatErr fuel stmts inc flat c o ho hs hg h

/-- **abnormal termination corresponds (flat ⇒ include)** -/
theorem inclusion_fails_conv (fuel : Nat) (stmts : List Ast.Stmt) (inc : List PSrc)
    (flat : List Ast.Stmt) (c : Ctx) (F : Nat) (o : Sema.Outcome) (ho : o ≠ .fuel)
    (hs : splice fuel stmts inc = some flat) (hg : IsGlobal c)
    (h : (syntaxToSemanticLoop F flat).run c = .error o) :
    ∀ K, fuel + F ≤ K → (syntaxToSemanticInc K stmts inc).run c = .error o :=
  flatIncErr fuel stmts inc flat c F o ho hs hg h

/-- **panics correspond.**  The include-aware analysis panics at site `σ` (for some fuel `≥ fuel`)
iff the plain analysis of the spliced list panics at `σ` (for some fuel). -/
theorem inclusion_panic_iff (fuel : Nat) (stmts : List Ast.Stmt) (inc : List PSrc)
    (flat : List Ast.Stmt) (c : Ctx) (hs : splice fuel stmts inc = some flat) (hg : IsGlobal c)
    (site : String) :
    (∃ K, fuel ≤ K ∧ (syntaxToSemanticInc K stmts inc).run c = .error (.panic site)) ↔
    (∃ F, (syntaxToSemanticLoop F flat).run c = .error (.panic site)) := by
  constructor
  · rintro ⟨K, hK, h⟩
    exact ⟨_, inclusion_fails K stmts inc flat c _ (by simp) (splice_mono hK _ _ _ hs) hg h _
      (Nat.le_refl _)⟩
  · rintro ⟨F, h⟩
    exact ⟨fuel + F, by omega,
      inclusion_fails_conv fuel stmts inc flat c F _ (by simp) hs hg h _ (Nat.le_refl _)⟩

/-- the same for every outcome but "out of fuel" (`unsupportedInclude` cannot occur on either side:
it is covered for uniformity) -/
theorem inclusion_outcome_iff (fuel : Nat) (stmts : List Ast.Stmt) (inc : List PSrc)
    (flat : List Ast.Stmt) (c : Ctx) (hs : splice fuel stmts inc = some flat) (hg : IsGlobal c)
    (o : Sema.Outcome) (ho : o ≠ .fuel) :
    (∃ K, fuel ≤ K ∧ (syntaxToSemanticInc K stmts inc).run c = .error o) ↔
    (∃ F, (syntaxToSemanticLoop F flat).run c = .error o) := by
  constructor
  · rintro ⟨K, hK, h⟩
    exact ⟨_, inclusion_fails K stmts inc flat c _ ho (splice_mono hK _ _ _ hs) hg h _
      (Nat.le_refl _)⟩
  · rintro ⟨F, h⟩
    exact ⟨fuel + F, by omega,
      inclusion_fails_conv fuel stmts inc flat c F _ ho hs hg h _ (Nat.le_refl _)⟩

end Oq3.C18E
