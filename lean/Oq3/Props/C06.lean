/-
C06 — the semantic graph preserves the program's structure, order and operators.

Model: `Oq3/Model/Sema.lean` (`M = StateT Ctx (Except Outcome)`, one fuel).  Every theorem is
about an arbitrary SUCCESSFUL run (`… c = .ok (r, c')`), for every fuel and every start context.

* `Skel`; `Asg.stmt` / `Asg.texpr` / `Asg.skel` (skeleton of the graph); `expected` / `expectedW` /
  `Ast.expr` / `Ast.skel` (the declarative expectation, computed from the AST alone): kinds, order,
  roles, operator identity, literal class; no types, no symbol ids; casts (explicit and implicit)
  and parentheses are transparent; a minus sign in front of a numeric literal belongs to it.
* `op_translation`, `op_translation_arith/_eq/_concat`, `op_translation_panics`,
  `witness_power_maps_to_concat` (finding F08b: `**` is stored as ConcatenationOp).
* `roles_preserved_*`: one inversion lemma per statement / expression kind — the ASG node's fields
  are the translations of the corresponding AST accessor results, run in the stated order and
  contexts (if/else, while, for, switch + cases, gate, def, gate call, modifiers, assignment,
  indexed identifiers / index operators, calls, expression lists, qubit operands, binary
  expressions, ranges, block-or-statement bodies).
* `block_order_preserved` (a block is the in-order `filterMap` of its statements' translations),
  `top_level_order_preserved`, `top_level_program`, `pending_annotations_attach`,
  `annotation_attached_to_following`, `pragma_verbatim`, `annotation_pushes`.
* `Frame` / `allFrame`: no function of the translation touches `program`; symbols, diagnostics and
  pending annotations only grow (used for `top_level_program`, and by C17).
* `skeleton_preserved_stmt/_block/_expr/_top`, `skeleton_preserved`: the skeleton of what is
  produced is the expected skeleton with `**` read as concatenation (`astBinaryOpNameActual`;
  `actual_name_eq`: that is the only difference from the declarative `astBinaryOpName`).
  Proof: `Post` triples pushed through the 25-function mutual block by a generated script
  (`AllSk`, `<fn>_sk_step`, induction on fuel), as `Lemmas/GrammarInv.lean` does for the grammar.
* `witness_nested_annotation_leaks` (finding): an annotation inside a block is attached to the
  enclosing TOP-LEVEL statement, because only the top-level loop consumes pending annotations.

Known defect F07 (`true_body_block_or_stmt` / `false_body_block_or_stmt` of `if (c) a; else b;`
return the wrong nodes) lives in oq3_syntax, below this layer: the semantic pass consumes what the
accessors return, and so do these theorems (`roles_preserved_if` is about `trueBody` / `falseBody`
AS RETURNED).  The oracle `vf/oracle_sema_c.py` detects it from the spans of the I5 dump.
-/
import Oq3.Model.Sema
import Oq3.Props.C19

namespace Oq3.C06
open Oq3.Sema Oq3.Types Oq3.Symbols

/-! ### successful runs in `M` -/

theorem bind_ok {α β} (x : M α) (f : α → M β) (c : Ctx) (r : β × Ctx) :
    (x >>= f) c = .ok r ↔ ∃ a c1, x c = .ok (a, c1) ∧ f a c1 = .ok r := by
  show (StateT.bind x f) c = .ok r ↔ _
  unfold StateT.bind
  simp only [bind, Except.bind]
  cases x c with
  | error e => simp
  | ok p =>
    obtain ⟨a, c1⟩ := p
    simp only [Except.ok.injEq, Prod.mk.injEq]
    constructor
    · intro h; exact ⟨a, c1, ⟨rfl, rfl⟩, h⟩
    · rintro ⟨_, _, ⟨rfl, rfl⟩, h⟩; exact h

@[simp] theorem pure_ok {α} (a : α) (c : Ctx) (r : α × Ctx) :
    (pure a : M α) c = .ok r ↔ r = (a, c) := by
  show Except.ok (a, c) = Except.ok r ↔ _
  constructor <;> intro h <;> simp_all

@[simp] theorem fail_ok {α} (site : String) (c : Ctx) (r : α × Ctx) :
    (fail site : M α) c = .ok r ↔ False := by
  show (Except.error _ : Except Outcome _) = Except.ok r ↔ _
  simp

@[simp] theorem throw_ok {α} (o : Outcome) (c : Ctx) (r : α × Ctx) :
    (throw o : M α) c = .ok r ↔ False := by
  show (Except.error _ : Except Outcome _) = Except.ok r ↔ _
  simp

@[simp] theorem get_ok (c : Ctx) (r : Ctx × Ctx) : (get : M Ctx) c = .ok r ↔ r = (c, c) := by
  show Except.ok (c, c) = Except.ok r ↔ _
  constructor <;> intro h <;> simp_all

@[simp] theorem set_ok (c0 c : Ctx) (r : PUnit × Ctx) :
    (set c0 : M PUnit) c = .ok r ↔ r = (⟨⟩, c0) := by
  show Except.ok (PUnit.unit, c0) = Except.ok r ↔ _
  constructor <;> intro h <;> simp_all

@[simp] theorem modify_ok (f : Ctx → Ctx) (c : Ctx) (r : PUnit × Ctx) :
    (modify f : M PUnit) c = .ok r ↔ r = (⟨⟩, f c) := by
  show Except.ok (PUnit.unit, f c) = Except.ok r ↔ _
  constructor <;> intro h <;> simp_all

@[simp] theorem exists2_eq {α β : Type} {a0 : α} {b0 : β} {Q : α → β → Prop} :
    (∃ a b, (a, b) = (a0, b0) ∧ Q a b) ↔ Q a0 b0 := by
  constructor
  · rintro ⟨_, _, h, q⟩; cases h; exact q
  · intro h; exact ⟨a0, b0, rfl, h⟩

theorem unwrap_ok {α} (site : String) (o : Option α) (c : Ctx) (r : α × Ctx) :
    unwrap site o c = .ok r ↔ ∃ a, o = some a ∧ r = (a, c) := by
  cases o <;> simp [unwrap]


@[simp] theorem unwrap_some {α} (site : String) (a : α) : unwrap site (some a) = pure a := rfl
@[simp] theorem unwrap_none {α} (site : String) : unwrap site (none : Option α) = fail site := rfl

theorem withScope_ok {α} (k : ScopeType) (body : M α) (c : Ctx) (r : α × Ctx) :
    withScope k body c = .ok r ↔ ∃ c1 a c2, enterScope k c = .ok (⟨⟩, c1) ∧ body c1 = .ok (a, c2) ∧
      exitScope c2 = .ok (⟨⟩, r.2) ∧ r.1 = a := by
  unfold withScope
  simp only [bind_ok, pure_ok]
  constructor
  · rintro ⟨⟨⟩, c1, h1, a, c2, h2, ⟨⟩, c3, h3, rfl⟩
    exact ⟨c1, a, c2, h1, h2, h3, rfl⟩
  · rintro ⟨c1, a, c2, h1, h2, h3, h4⟩
    obtain ⟨r1, r2⟩ := r
    simp only at h3 h4
    subst h4
    exact ⟨⟨⟩, c1, h1, r1, c2, h2, ⟨⟩, r2, h3, rfl⟩


/-- Hoare triple with an exact pre-state: every successful run of `x` from `c` ends in `Q` -/
def Runs {α} (x : M α) (c : Ctx) (Q : α → Ctx → Prop) : Prop := ∀ a c', x c = .ok (a, c') → Q a c'

theorem Runs.bind {α β} {x : M α} {f : α → M β} {c : Ctx} {Q : β → Ctx → Prop}
    (h : ∀ a c1, x c = .ok (a, c1) → Runs (f a) c1 Q) : Runs (x >>= f) c Q := by
  intro b c' hb
  obtain ⟨a, c1, h1, h2⟩ := (bind_ok x f c (b, c')).mp hb
  exact h a c1 h1 b c' h2

theorem Runs.pure {α} {a : α} {c : Ctx} {Q : α → Ctx → Prop} (h : Q a c) : Runs (pure a) c Q := by
  intro b c' hb
  simp at hb; obtain ⟨rfl, rfl⟩ := hb; exact h

theorem Runs.fail {α} {site : String} {c : Ctx} {Q : α → Ctx → Prop} : Runs (fail site) c Q := by
  intro b c' hb; simp at hb

theorem Runs.of_run {α} {x : M α} {c : Ctx} {Q : α → Ctx → Prop} (h : ∀ a c', x c = .ok (a, c') → Q a c') :
    Runs x c Q := h

/-- the common skeleton: a labelled rose tree.  The label is the kind (with operator identity and
literal class), the children are the roles in a fixed order. -/
inductive Skel
  | node (label : String) (children : List Skel)
  deriving Repr, Inhabited

namespace Skel
def leaf (l : String) : Skel := .node l []
/-- an optional role -/
def opt : Option Skel → Skel
  | none => leaf "_"
  | some s => s
end Skel
open Skel

/-! ### skeleton of the ASG -/

def arithOpName : Types.ArithOp → String
  | .add => "Add" | .sub => "Sub" | .mul => "Mul" | .div => "Div" | .mod => "Mod" | .rem => "Rem"
  | .shl => "Shl" | .shr => "Shr" | .bitXOr => "BitXor" | .bitOr => "BitOr" | .bitAnd => "BitAnd"

def binaryOpName : Sema.BinaryOp → String
  | .arithOp a => "Arith." ++ arithOpName a
  | .cmpOp .eq => "Cmp.Eq"
  | .cmpOp .neq => "Cmp.Neq"
  | .concatenationOp => "Concat"
  | .powerOp => "Power"

def unaryOpName : Sema.UnaryOp → String
  | .minus => "Minus" | .not => "Not" | .bitNot => "BitNot"

def timeUnitName : Sema.TimeUnit → String
  | .second => "Second" | .milliSecond => "MilliSecond" | .microSecond => "MicroSecond"
  | .nanoSecond => "NanoSecond" | .cycle => "Cycle"

def signName : Bool → String
  | true => "" | false => ".neg"

def intLabel (base : String) (sign : Bool) : String := base ++ signName sign

def timingLabel (base : String) (sign : Bool) (u : Sema.TimeUnit) : String :=
  base ++ signName sign ++ "." ++ timeUnitName u

/-- literal class: constructor, sign of integers, unit of timing literals (values are C10's) -/
def literalClass : Sema.Literal → String
  | .bool _ => "Bool"
  | .int _ s => intLabel "Int" s
  | .float _ => "Float"
  | .imaginaryInt _ s => intLabel "ImInt" s
  | .imaginaryFloat _ => "ImFloat"
  | .bitString _ => "BitString"
  | .timingIntLiteral _ s u => timingLabel "TimingInt" s u
  | .timingFloatLiteral _ s u => timingLabel "TimingFloat" s u
  | .array => "Array"

mutual
def Asg.texpr : TExpr → Skel
  | .mk e _ => Asg.expr e
def Asg.expr : Sema.Expr → Skel
  | .binaryExpr op l r => .node ("Bin." ++ binaryOpName op) [Asg.texpr l, Asg.texpr r]
  | .unaryExpr op e => .node ("Un." ++ unaryOpName op) [Asg.texpr e]
  | .literal l => leaf ("Lit." ++ literalClass l)
  | .cast e _ => Asg.texpr e
  | .identifier _ => leaf "Ident"
  | .hardwareQubit _ => leaf "HwQubit"
  | .indexExpression e ix => .node "IndexExpr" [Asg.texpr e, Asg.indexOp ix]
  | .indexedIdentifier ii => Asg.indexedIdent ii
  | .gateOperand g => .node "GateOperand" [Asg.gateOperand g]
  | .returnExpr v => .node "Return" [Asg.optTexpr v]
  | .subroutineCall _ ps => .node "Call" [Asg.optArgs ps]
  | .measureExpression e => .node "Measure" [Asg.texpr e]
  | .setExpression es => .node "Set" (Asg.texprs es)
  | .rangeExpression a b c => .node "Range" [Asg.texpr a, Asg.optTexpr b, Asg.texpr c]
  | .nullExpr => leaf "NullExpr"
def Asg.optTexpr : Option TExpr → Skel
  | none => leaf "_"
  | some e => Asg.texpr e
def Asg.optArgs : Option (List TExpr) → Skel
  | none => leaf "_"
  | some ps => .node "Args" (Asg.texprs ps)
def Asg.texprs : List TExpr → List Skel
  | [] => []
  | e :: es => Asg.texpr e :: Asg.texprs es
def Asg.indexOp : Sema.IndexOperator → Skel
  | .setExpression es => .node "IxSet" (Asg.texprs es)
  | .expressionList es => .node "IxList" (Asg.texprs es)
def Asg.indexOps : List Sema.IndexOperator → List Skel
  | [] => []
  | i :: is => Asg.indexOp i :: Asg.indexOps is
def Asg.indexedIdent : Sema.IndexedIdentifier → Skel
  | .mk _ ixs => .node "IndexedIdent" (Asg.indexOps ixs)
def Asg.gateOperand : Sema.GateOperand → Skel
  | .identifier _ => leaf "Ident"
  | .hardwareQubit _ => leaf "HwQubit"
  | .indexedIdentifier ii => Asg.indexedIdent ii
end

def Asg.modifier : GateModifier → Skel
  | .inv => leaf "Inv"
  | .pow e => .node "Pow" [Asg.texpr e]
  | .ctrl e => .node "Ctrl" [Asg.optTexpr e]
  | .negCtrl e => .node "NegCtrl" [Asg.optTexpr e]

def Asg.modifiers : List GateModifier → List Skel
  | [] => []
  | m :: ms => Asg.modifier m :: Asg.modifiers ms

def Asg.lvalue : LValue → Skel
  | .identifier _ => leaf "LIdent"
  | .indexedIdentifier ii => .node "LIndexed" [Asg.indexedIdent ii]

def Asg.forIterable : Sema.ForIterable → Skel
  | .setExpression es => .node "IterSet" (Asg.texprs es)
  | .rangeExpression a b c => .node "IterRange" [Asg.texpr a, Asg.optTexpr b, Asg.texpr c]
  | .expr e => .node "IterExpr" [Asg.texpr e]

def Asg.optQubits : Option (List TExpr) → Skel
  | none => leaf "_"
  | some qs => .node "Qubits" (Asg.texprs qs)

/-- declared symbols (parameters, qubits): only their number and position -/
def syms {α} (l : List α) : List Skel := l.map fun _ => leaf "Sym"

def optSyms {α} : Option (List α) → Skel
  | none => leaf "_"
  | some ps => .node "Params" (syms ps)

mutual
/-- skeleton of an ASG statement -/
def Asg.stmt : Sema.Stmt → Skel
  | .alias _ rhs => .node "Alias" [Asg.texpr rhs]
  | .annotatedStmt s anns => .node "Annotated" [Asg.stmt s, .node "Annotations" (anns.map leaf)]
  | .assignment lv rv => .node "Assignment" [Asg.lvalue lv, Asg.texpr rv]
  | .barrier qs => .node "Barrier" [Asg.optQubits qs]
  | .block b => .node "BlockStmt" (Asg.block b)
  | .box => leaf "Box"
  | .breakStmt => leaf "Break"
  | .cal => leaf "Cal"
  | .continueStmt => leaf "Continue"
  | .declareClassical _ init => .node "DeclareClassical" [Asg.optTexpr init]
  | .declareQuantum _ => leaf "DeclareQuantum"
  | .declareHardwareQubit _ => leaf "DeclareHardwareQubit"
  | .defStmt _ params b _ => .node "DefStmt" [.node "Params" (syms params), .node "Body" (Asg.block b)]
  | .defCal => leaf "DefCal"
  | .delay d qs => .node "Delay" [Asg.texpr d, .node "Qubits" (Asg.texprs qs)]
  | .endStmt => leaf "End"
  | .exprStmt e => .node "ExprStmt" [Asg.texpr e]
  | .extern => leaf "Extern"
  | .forStmt _ it b => .node "For" [Asg.forIterable it, .node "Body" (Asg.block b)]
  | .gPhaseCall a => .node "GPhaseCall" [Asg.texpr a]
  | .gateCall _ ps qs ms => .node "GateCall"
      [Asg.optArgs ps, .node "Qubits" (Asg.texprs qs), .node "Modifiers" (Asg.modifiers ms)]
  | .gateDefinition _ ps qs b => .node "GateDefinition"
      [optSyms ps, .node "Qubits" (syms qs), .node "Body" (Asg.block b)]
  | .inputDeclaration _ => leaf "InputDeclaration"
  | .outputDeclaration _ => leaf "OutputDeclaration"
  | .ifStmt c t e => .node "If" [Asg.texpr c, .node "Then" (Asg.block t), Asg.optElse e]
  | .includeStmt _ => leaf "Include"
  | .modifiedGPhaseCall a ms => .node "ModifiedGPhaseCall" [Asg.texpr a, .node "Modifiers" (Asg.modifiers ms)]
  | .nullStmt => leaf "NullStmt"
  | .oldStyleDeclaration => leaf "OldStyleDeclaration"
  | .pragma t => .node "Pragma" [leaf t]
  | .reset g => .node "Reset" [Asg.texpr g]
  | .switchCaseStmt c cs d => .node "Switch" [Asg.texpr c, .node "Cases" (Asg.cases cs), Asg.optDefault d]
  | .whileStmt c b => .node "While" [Asg.texpr c, .node "Body" (Asg.block b)]
def Asg.stmts : List Sema.Stmt → List Skel
  | [] => []
  | s :: ss => Asg.stmt s :: Asg.stmts ss
def Asg.block : Sema.Block → List Skel
  | .mk ss => Asg.stmts ss
def Asg.optElse : Option Sema.Block → Skel
  | none => leaf "NoElse"
  | some b => .node "Else" (Asg.block b)
def Asg.optDefault : Option (List Sema.Stmt) → Skel
  | none => leaf "NoDefault"
  | some ss => .node "Default" (Asg.stmts ss)
def Asg.case : Sema.CaseExpr → Skel
  | .mk vs ss => .node "Case" [.node "Values" (Asg.texprs vs), .node "Body" (Asg.stmts ss)]
def Asg.cases : List Sema.CaseExpr → List Skel
  | [] => []
  | c :: cs => Asg.case c :: Asg.cases cs
end

/-- `Asg.skel`: the skeleton of the program -/
abbrev Asg.skel (p : List Sema.Stmt) : List Skel := Asg.stmts p

/-! ### expected skeleton, computed from the AST alone -/

def astArithOpName : Ast.ArithOp → String
  | .add => "Add" | .mul => "Mul" | .sub => "Sub" | .div => "Div" | .rem => "Rem" | .shl => "Shl"
  | .shr => "Shr" | .bitXor => "BitXor" | .bitOr => "BitOr" | .bitAnd => "BitAnd"

/-- the operator a source operator SHOULD become (the declarative side of `op_translation`) -/
def astBinaryOpName : Ast.BinaryOp → String
  | .arithOp a => "Arith." ++ astArithOpName a
  | .cmpOp (.eq false) => "Cmp.Eq"
  | .cmpOp (.eq true) => "Cmp.Neq"
  | .cmpOp (.ord true true) => "Cmp.Lt"
  | .cmpOp (.ord true false) => "Cmp.Le"
  | .cmpOp (.ord false true) => "Cmp.Gt"
  | .cmpOp (.ord false false) => "Cmp.Ge"
  | .concatenationOp => "Concat"
  | .powerOp => "Power"
  | .logicOp .and => "Logic.And"
  | .logicOp .or => "Logic.Or"
  | .assignment none => "Assign"
  | .assignment (some a) => "Assign." ++ astArithOpName a

/-- the operator names the pass ACTUALLY produces: `**` is stored as concatenation (F08b) -/
def astBinaryOpNameActual : Ast.BinaryOp → String
  | .powerOp => "Concat"
  | op => astBinaryOpName op

def optOpName (nm : Ast.BinaryOp → String) : Option Ast.BinaryOp → String
  | some op => nm op
  | none => "?"

/-- class of a plain literal; `none` for a bit string whose `str()` is `None` (dropped by `?`) -/
def astLiteralClass (neg : Bool) : Ast.LiteralKind → Option String
  | .bool _ => some "Bool"
  | .intNumber _ _ => some (intLabel "Int" (!neg))
  | .floatNumber _ _ => some "Float"
  | .bitString text _ => (TokenExt.bitStringStr text).map fun _ => "BitString"
  | .byte => some "Byte" | .char => some "Char" | .string => some "String"

def astLiteral (neg : Bool) (l : Ast.Literal) : Option Skel :=
  (astLiteralClass neg l.kind).map fun c => leaf ("Lit." ++ c)

/-- class of a timing / imaginary literal (`time_unit()`, `literal()`) -/
def astTimingClass (neg : Bool) (u : Option TokenExt.TimeUnit) (l : Option Ast.Literal) : String :=
  match u, l with
  | some u, some l =>
    match timeUnitToAsg u, l.kind with
    | none, .intNumber _ _ => intLabel "ImInt" (!neg)
    | none, .floatNumber _ _ => "ImFloat"
    | some au, .intNumber _ _ => timingLabel "TimingInt" (!neg) au
    | some au, .floatNumber _ _ => timingLabel "TimingFloat" (!neg) au
    | _, _ => "?"
  | _, _ => "?"

/-- `op_kind()`, `expr()` of a prefix expression; `operand` = the skeleton of `expr()` -/
def prefixSk (op : Option Ast.UnaryOp) (e : Option Ast.Expr) (operand : Option Skel) : Option Skel :=
  match op, e with
  | some .neg, some (.literal l) => astLiteral true l
  | some .neg, some (.timingLiteral _ u _ l) => some (leaf ("Lit." ++ astTimingClass true u l))
  | some .neg, _ => some (.node "Un.Minus" [opt operand])
  | some .not, _ => some (.node "Un.BitNot" [opt operand])
  | some .logicNot, _ => some (.node "Un.Not" [opt operand])
  | none, _ => some (.node "Un.?" [opt operand])

mutual
/-- skeleton an expression should translate to; `none` = the translation yields no expression.
Parentheses and casts are transparent; a minus sign in front of a numeric literal is part of the
literal. -/
def Ast.expr (nm : Ast.BinaryOp → String) : Ast.Expr → Option Skel
  | .prefixExpr _ op e => prefixSk op e (Ast.optExpr nm e)
  | .parenExpr p => Ast.paren nm p
  | .binExpr _ op l r => some (.node ("Bin." ++ optOpName nm op) [opt (Ast.optExpr nm l), opt (Ast.optExpr nm r)])
  | .literal l => astLiteral false l
  | .timingLiteral _ u _ l => some (leaf ("Lit." ++ astTimingClass false u l))
  | .identifier _ => some (leaf "Ident")
  | .hardwareQubit _ => some (leaf "HwQubit")
  | .rangeExpr r => some (.node "Range" (Ast.range nm r))
  | .indexExpr _ e ix => some (.node "IndexExpr" [opt (Ast.optExpr nm e), Ast.optIndexOp nm ix])
  | .indexedIdentifier ii => some (Ast.indexedIdent nm ii)
  | .measureExpression _ g => some (.node "Measure" [.node "GateOperand" [Ast.optGateOperand nm g]])
  | .returnExpr _ e => some (.node "Return" [opt (Ast.optExpr nm e)])
  | .castExpression _ _ e => Ast.optExpr nm e
  | .callExpr _ al _ => some (.node "Call" [Ast.optArgList nm al])
  | .gateCallExpr _ => some (leaf "?")
  | .gPhaseCallExpr _ => some (leaf "?")
  | .modifiedGateCallExpr .. => some (leaf "?")
  | .unsupported .. => some (leaf "?")
def Ast.optExpr (nm : Ast.BinaryOp → String) : Option Ast.Expr → Option Skel
  | none => none
  | some e => Ast.expr nm e
/-- `filter_map`: expressions that translate to nothing are dropped, order kept -/
def Ast.exprs (nm : Ast.BinaryOp → String) : List Ast.Expr → List Skel
  | [] => []
  | e :: es => (Ast.expr nm e).toList ++ Ast.exprs nm es
def Ast.paren (nm : Ast.BinaryOp → String) : Ast.ParenExpr → Option Skel
  | .mk _ e => Ast.optExpr nm e
def Ast.range (nm : Ast.BinaryOp → String) : Ast.RangeExpr → List Skel
  | .mk _ a b c => [opt (Ast.optExpr nm a), opt (Ast.optExpr nm b), opt (Ast.optExpr nm c)]
def Ast.exprList (nm : Ast.BinaryOp → String) : Ast.ExpressionList → List Skel
  | .mk _ es => Ast.exprs nm es
def Ast.optExprList (nm : Ast.BinaryOp → String) : Option Ast.ExpressionList → List Skel
  | none => []
  | some el => Ast.exprList nm el
def Ast.setExpr (nm : Ast.BinaryOp → String) : Ast.SetExpression → List Skel
  | .mk _ el => Ast.optExprList nm el
def Ast.indexKind (nm : Ast.BinaryOp → String) : Option Ast.IndexKind → Skel
  | some (.setExpression s) => .node "IxSet" (Ast.setExpr nm s)
  | some (.expressionList el) => .node "IxList" (Ast.exprList nm el)
  | none => leaf "?"
def Ast.indexOp (nm : Ast.BinaryOp → String) : Ast.IndexOperator → Skel
  | .mk _ k => Ast.indexKind nm k
def Ast.optIndexOp (nm : Ast.BinaryOp → String) : Option Ast.IndexOperator → Skel
  | none => leaf "?"
  | some ix => Ast.indexOp nm ix
def Ast.indexOps (nm : Ast.BinaryOp → String) : List Ast.IndexOperator → List Skel
  | [] => []
  | i :: is => Ast.indexOp nm i :: Ast.indexOps nm is
def Ast.indexedIdent (nm : Ast.BinaryOp → String) : Ast.IndexedIdentifier → Skel
  | .mk _ _ ixs => .node "IndexedIdent" (Ast.indexOps nm ixs)
def Ast.gateOperand (nm : Ast.BinaryOp → String) : Ast.GateOperand → Skel
  | .hardwareQubit _ => leaf "HwQubit"
  | .identifier _ => leaf "Ident"
  | .indexedIdentifier ii => Ast.indexedIdent nm ii
def Ast.optGateOperand (nm : Ast.BinaryOp → String) : Option Ast.GateOperand → Skel
  | none => leaf "?"
  | some g => Ast.gateOperand nm g
def Ast.gateOperands (nm : Ast.BinaryOp → String) : List Ast.GateOperand → List Skel
  | [] => []
  | g :: gs => .node "GateOperand" [Ast.gateOperand nm g] :: Ast.gateOperands nm gs
def Ast.optQubitList (nm : Ast.BinaryOp → String) : Option Ast.QubitList → List Skel
  | none => []
  | some (.mk _ gs) => Ast.gateOperands nm gs
def Ast.optArgList (nm : Ast.BinaryOp → String) : Option Ast.ArgList → Skel
  | none => leaf "_"
  | some (.mk _ el) => .node "Args" (Ast.optExprList nm el)
def Ast.optParen (nm : Ast.BinaryOp → String) : Option Ast.ParenExpr → Skel
  | none => leaf "_"
  | some p => opt (Ast.paren nm p)
def Ast.modifier (nm : Ast.BinaryOp → String) : Ast.Modifier → Skel
  | .invModifier _ => leaf "Inv"
  | .powModifier _ p => .node "Pow" [Ast.optParen nm p]
  | .ctrlModifier _ p => .node "Ctrl" [Ast.optParen nm p]
  | .negCtrlModifier _ p => .node "NegCtrl" [Ast.optParen nm p]
def Ast.modifiers (nm : Ast.BinaryOp → String) : List Ast.Modifier → List Skel
  | [] => []
  | m :: ms => Ast.modifier nm m :: Ast.modifiers nm ms
def Ast.gateCall (nm : Ast.BinaryOp → String) : Ast.GateCallExpr → List Skel → Skel
  | .mk _ ql al _, ms => .node "GateCall"
      [Ast.optArgList nm al, .node "Qubits" (Ast.optQubitList nm ql), .node "Modifiers" ms]
def Ast.gphaseArg (nm : Ast.BinaryOp → String) : Option Ast.GPhaseCallExpr → Skel
  | some (.mk _ a) => opt (Ast.optExpr nm a)
  | none => leaf "?"
end

/-- an expression statement: gate calls (with modifiers), gphase calls, plain expressions -/
def Ast.exprStmt (nm : Ast.BinaryOp → String) : Option Ast.Expr → Skel
  | some (.gateCallExpr g) => Ast.gateCall nm g []
  | some (.modifiedGateCallExpr _ ms (some g) _) => Ast.gateCall nm g (Ast.modifiers nm ms)
  | some (.modifiedGateCallExpr _ ms none gp) =>
    .node "ModifiedGPhaseCall" [Ast.gphaseArg nm gp, .node "Modifiers" (Ast.modifiers nm ms)]
  | some (.gPhaseCallExpr gp) => .node "GPhaseCall" [Ast.gphaseArg nm (some gp)]
  | e => .node "ExprStmt" [opt (Ast.optExpr nm e)]

def Ast.designatorExpr (nm : Ast.BinaryOp → String) : Option Ast.Designator → Option Skel
  | some (.mk _ e) => Ast.optExpr nm e
  | none => none

def Ast.forIterableOf (nm : Ast.BinaryOp → String) (it : Ast.ForIterable) : Skel :=
  match it.setExpression with
  | some s => .node "IterSet" (Ast.setExpr nm s)
  | none =>
    match it.rangeExpr with
    | some r => .node "IterRange" (Ast.range nm r)
    | none =>
      match it.forIterableExpr with
      | some e => .node "IterExpr" [opt (Ast.expr nm e)]
      | none => leaf "?"

def Ast.forIterable (nm : Ast.BinaryOp → String) : Option Ast.ForIterable → Skel
  | none => leaf "?"
  | some it => Ast.forIterableOf nm it

def Ast.params : Option Ast.ParamList → Skel
  | none => leaf "_"
  | some l => .node "Params" (syms l.params)

def Ast.qubitParams : Option Ast.ParamList → List Skel
  | none => []
  | some l => syms l.params

def Ast.typedParams : Option Ast.TypedParamList → List Skel
  | none => []
  | some l => syms l.typedParams

def Ast.lvalue (nm : Ast.BinaryOp → String) (ident : Option Ast.Identifier)
    (ii : Option Ast.IndexedIdentifier) : Skel :=
  match ident with
  | some _ => leaf "LIdent"
  | none => .node "LIndexed" [match ii with | some ii => Ast.indexedIdent nm ii | none => leaf "?"]

mutual
/-- the skeleton of the ASG statement a source statement should become; `none` for the
statements that produce no ASG statement (include, annotation, version string) -/
def expectedW (nm : Ast.BinaryOp → String) : Ast.Stmt → Option Skel
  | .ifStmt _ c t e => some (.node "If" [opt (Ast.optExpr nm c), .node "Then" (accBody nm t), optElse nm e])
  | .whileStmt _ c b => some (.node "While" [opt (Ast.optExpr nm c), .node "Body" (accBody nm b)])
  | .forStmt _ _ _ it b => some (.node "For" [Ast.forIterable nm it, .node "Body" (accBody nm b)])
  | .switchCaseStmt _ c cs d =>
    some (.node "Switch" [opt (Ast.optExpr nm c), .node "Cases" (cases nm cs), optDefault nm d])
  | .classicalDeclarationStatement _ _ _ _ _ e => some (.node "DeclareClassical" [opt (Ast.optExpr nm e)])
  | .ioDeclarationStatement _ _ _ _ i => some (leaf (if i then "InputDeclaration" else "OutputDeclaration"))
  | .quantumDeclarationStatement _ n _ _ =>
    some (leaf (match n with | none => "DeclareHardwareQubit" | some _ => "DeclareQuantum"))
  | .assignmentStmt _ i rhs ii => some (.node "Assignment" [Ast.lvalue nm i ii, opt (Ast.optExpr nm rhs)])
  | .breakStmt _ => some (leaf "Break")
  | .continueStmt _ => some (leaf "Continue")
  | .endStmt _ => some (leaf "End")
  | .gate _ _ ap qp b => some (.node "GateDefinition"
      [Ast.params ap, .node "Qubits" (Ast.qubitParams qp), .node "Body" (optBlock nm b)])
  | .defStmt _ _ tp b _ => some (.node "DefStmt"
      [.node "Params" (Ast.typedParams tp), .node "Body" (optBlock nm b)])
  | .barrier _ ql => some (.node "Barrier" [.node "Qubits" (Ast.optQubitList nm ql)])
  | .delayStmt _ ql d => some (.node "Delay" [opt (Ast.designatorExpr nm d), .node "Qubits" (Ast.optQubitList nm ql)])
  | .reset _ g => some (.node "Reset" [.node "GateOperand" [Ast.optGateOperand nm g]])
  | .includeStmt .. => none
  | .exprStmt _ e => some (Ast.exprStmt nm e)
  | .versionString _ => none
  | .pragmaStatement _ t => some (.node "Pragma" [leaf t])
  | .annotationStatement .. => none
  | .aliasDeclarationStatement _ _ e => some (.node "Alias" [opt (Ast.optExpr nm e)])
  | .notImpl .. => some (leaf "NullStmt")
/-- a block holds exactly the translations of its statements, in order -/
def stmts (nm : Ast.BinaryOp → String) : List Ast.Stmt → List Skel
  | [] => []
  | s :: ss => (expectedW nm s).toList ++ stmts nm ss
def block (nm : Ast.BinaryOp → String) : Ast.BlockExpr → List Skel
  | .mk _ ss => stmts nm ss
def optBlock (nm : Ast.BinaryOp → String) : Option Ast.BlockExpr → List Skel
  | none => []
  | some b => block nm b
/-- a block-or-statement body is normalised to a block -/
def body (nm : Ast.BinaryOp → String) : Ast.BlockOrStmt → List Skel
  | .blockExpr b => block nm b
  | .stmt s => (expectedW nm s).toList
def accBody (nm : Ast.BinaryOp → String) : Ast.Acc Ast.BlockOrStmt → List Skel
  | .ok b => body nm b
  | .panicked => []
def optElse (nm : Ast.BinaryOp → String) : Option Ast.BlockOrStmt → Skel
  | none => leaf "NoElse"
  | some b => .node "Else" (body nm b)
def optDefault (nm : Ast.BinaryOp → String) : Option Ast.BlockExpr → Skel
  | none => leaf "NoDefault"
  | some b => .node "Default" (block nm b)
def cases (nm : Ast.BinaryOp → String) : List Ast.CaseExpr → List Skel
  | [] => []
  | (.mk _ el b) :: cs => .node "Case" [.node "Values" (Ast.optExprList nm el), .node "Body" (optBlock nm b)] :: cases nm cs
end

/-- **the declarative expectation**: `**` is the power operator -/
abbrev expected : Ast.Stmt → Option Skel := expectedW astBinaryOpName

/-- `Ast.skel`: the expected skeleton of a statement list (block or program body, annotations
aside) -/
abbrev Ast.skel (ss : List Ast.Stmt) : List Skel := stmts astBinaryOpName ss

example : expected (.whileStmt ⟨0,0⟩ (some (.identifier ⟨⟨0,0⟩, "c"⟩)) (.ok (.stmt (.breakStmt ⟨0,0⟩)))) =
  some (.node "While" [leaf "Ident", .node "Body" [leaf "Break"]]) := rfl

/-! ### operator translation -/

/-- every arithmetic operator maps to the operator of the same name -/
theorem op_translation_arith (a : Ast.ArithOp) (c : Ctx) :
    ∃ b, binaryOpToAsgType (.arithOp a) c = .ok (.arithOp b, c) ∧ arithOpName b = astArithOpName a := by
  cases a <;> exact ⟨_, rfl, rfl⟩

theorem op_translation_eq (c : Ctx) :
    binaryOpToAsgType (.cmpOp (.eq false)) c = .ok (.cmpOp .eq, c) ∧
    binaryOpToAsgType (.cmpOp (.eq true)) c = .ok (.cmpOp .neq, c) := ⟨rfl, rfl⟩

theorem op_translation_concat (c : Ctx) :
    binaryOpToAsgType .concatenationOp c = .ok (.concatenationOp, c) := rfl

/-- FINDING F08b: `**` is stored as the concatenation operator -/
theorem witness_power_maps_to_concat (c : Ctx) :
    binaryOpToAsgType .powerOp c = .ok (.concatenationOp, c) := rfl

/-- the operators every use of which is a `panic!` -/
theorem op_translation_panics (op : Ast.BinaryOp) (c : Ctx) :
    (∃ site, binaryOpToAsgType op c = .error (.panic site)) ↔
      (∃ l s, op = .cmpOp (.ord l s)) ∨ (∃ l, op = .logicOp l) ∨ (∃ a, op = .assignment a) := by
  cases op with
  | logicOp l => simp [binaryOpToAsgType, fail, throw, throwThe, MonadExceptOf.throw, StateT.lift, Except.bind, bind]
  | arithOp a => cases a <;> simp [binaryOpToAsgType, pure, StateT.pure, Except.pure]
  | cmpOp o =>
    cases o with
    | eq n => cases n <;> simp [binaryOpToAsgType, pure, StateT.pure, Except.pure]
    | ord l s => simp [binaryOpToAsgType, fail, throw, throwThe, MonadExceptOf.throw, StateT.lift, Except.bind, bind]
  | concatenationOp => simp [binaryOpToAsgType, pure, StateT.pure, Except.pure]
  | powerOp => simp [binaryOpToAsgType, pure, StateT.pure, Except.pure]
  | assignment a => simp [binaryOpToAsgType, fail, throw, throwThe, MonadExceptOf.throw, StateT.lift, Except.bind, bind]

/-- **operator translation**: whenever the translation of an operator succeeds, the context is
untouched and — except for `**` — the ASG operator is the one of the same name -/
theorem op_translation {op : Ast.BinaryOp} {c : Ctx} {r : BinaryOp} {c' : Ctx}
    (h : binaryOpToAsgType op c = .ok (r, c')) :
    c' = c ∧ (op ≠ .powerOp → binaryOpName r = astBinaryOpName op) := by
  cases op with
  | logicOp l => simp [binaryOpToAsgType] at h
  | arithOp a =>
    cases a <;> (simp only [binaryOpToAsgType, pure_ok] at h; cases h; exact ⟨rfl, fun _ => rfl⟩)
  | cmpOp o =>
    cases o with
    | eq n => cases n <;> (simp only [binaryOpToAsgType, pure_ok] at h; cases h; exact ⟨rfl, fun _ => rfl⟩)
    | ord l s => simp [binaryOpToAsgType] at h
  | concatenationOp => simp only [binaryOpToAsgType, pure_ok] at h; cases h; exact ⟨rfl, fun _ => rfl⟩
  | powerOp => simp only [binaryOpToAsgType, pure_ok] at h; cases h; exact ⟨rfl, fun h => absurd rfl h⟩
  | assignment a => simp [binaryOpToAsgType] at h
/-- what the else role is translated by -/
def elseM (fuel : Nat) (fb : Option Ast.BlockOrStmt) : M (Option Block) :=
  match fb with
  | some bors => do pure (some (← blockOrStmtToAsgType fuel bors))
  | none => pure none

theorem roles_preserved_if {fuel sp cond tb fb c r c'}
    (h : stmtToAsgStmt (fuel+1) (.ifStmt sp cond tb fb) c = .ok (r, c')) :
    ∃ b cond' thenB elseB c1 c2, tb = .ok b ∧
      exprToAsgTexpr fuel cond c = .ok (some cond', c1) ∧
      withScope .localS (blockOrStmtToAsgType fuel b) c1 = .ok (thenB, c2) ∧
      withScope .localS (elseM fuel fb) c2 = .ok (elseB, c') ∧
      r = some (.ifStmt cond' thenB elseB) := by
  unfold stmtToAsgStmt at h
  simp only [bind_ok, pure_ok, unwrap_ok] at h
  obtain ⟨a, c1, h1, thenB, c2, h2, elseB, c3, h3, cond', _, ⟨_, rfl, h4⟩, h5⟩ := h
  cases h4; cases h5
  cases tb with
  | panicked => simp [withScope_ok, bind_ok] at h2
  | ok b =>
    refine ⟨b, cond', thenB, elseB, c1, c2, rfl, h1, ?_, h3, rfl⟩
    simpa [bind_ok] using h2

theorem roles_preserved_while {fuel sp cond body c r c'}
    (h : stmtToAsgStmt (fuel+1) (.whileStmt sp cond body) c = .ok (r, c')) :
    ∃ b cond' loopBody c1, body = .ok b ∧
      exprToAsgTexpr fuel cond c = .ok (some cond', c1) ∧
      withScope .localS (blockOrStmtToAsgType fuel b) c1 = .ok (loopBody, c') ∧
      r = some (.whileStmt cond' loopBody) := by
  unfold stmtToAsgStmt at h
  simp only [bind_ok, pure_ok, unwrap_ok] at h
  obtain ⟨a, c1, h1, loopBody, c2, h2, cond', _, ⟨_, rfl, h4⟩, h5⟩ := h
  cases h4; cases h5
  cases body with
  | panicked => simp [withScope_ok, bind_ok] at h2
  | ok b =>
    refine ⟨b, cond', loopBody, c1, rfl, h1, ?_, rfl⟩
    simpa [bind_ok] using h2

/-- what the iterable role of a `for` is translated by (the three accessors, in the order the
pass consults them) -/
def forIterableM (fuel : Nat) (it : Ast.ForIterable) : M ForIterable :=
  match it.setExpression with
  | some s => do pure (ForIterable.setExpression (← setExpressionToAsgType fuel s))
  | none =>
    match it.rangeExpr with
    | some r => do
      let (start, step, stop) ← rangeExpressionToAsgType fuel r
      pure (ForIterable.rangeExpression start step stop)
    | none =>
      match it.forIterableExpr with
      | some e => do
        let e ← exprToAsgTexpr fuel (some e)
        let e ← unwrap "stmt_to_asg_stmt: ForStmt iterable expression unwrap() on None" e
        pure (ForIterable.expr e)
      | none => fail "stmt_to_asg_stmt: ForStmt unreachable!() no iterable"

theorem roles_preserved_for {fuel sp loopVar scalarType forIterable body c r c'}
    (h : stmtToAsgStmt (fuel+1) (.forStmt sp loopVar scalarType forIterable body) c = .ok (r, c')) :
    ∃ v st it b ty iterable id loopBody c1 c2 c3 c4 c5,
      loopVar = some v ∧ scalarType = some st ∧ forIterable = some it ∧ body = .ok b ∧
      scalarTypeToType st false c = .ok (ty, c1) ∧
      forIterableM fuel it c1 = .ok (iterable, c2) ∧
      enterScope .localS c2 = .ok (⟨⟩, c3) ∧
      newBinding v.text ty v.span c3 = .ok (id, c4) ∧
      blockOrStmtToAsgType fuel b c4 = .ok (loopBody, c5) ∧
      exitScope c5 = .ok (⟨⟩, c') ∧
      r = some (.forStmt id iterable loopBody) := by
  unfold stmtToAsgStmt at h
  simp only [bind_ok, unwrap_ok] at h
  obtain ⟨v, _, ⟨_, rfl, h0⟩, st, _, ⟨_, rfl, h1⟩, ty, c1, h2, it, _, ⟨_, rfl, h3⟩, h⟩ := h
  cases h0; cases h1; cases h3
  have key : ∀ (iterable : ForIterable) (c2 : Ctx) (r : Option Stmt) (c' : Ctx),
      (∃ a c1, withScope ScopeType.localS (do
              let loopVarSymbolId ← newBinding v.text ty v.span
              match body with
                | Ast.Acc.ok b => do
                  let body ← pure b
                  let loopBody ← blockOrStmtToAsgType fuel body
                  pure (loopVarSymbolId, loopBody)
                | Ast.Acc.panicked => do
                  let body ← fail "block_or_stmt: Error in oq3_syntax"
                  let loopBody ← blockOrStmtToAsgType fuel body
                  pure (loopVarSymbolId, loopBody)) c2 = .ok (a, c1) ∧
          (r, c') = (some (Stmt.forStmt a.fst iterable a.snd), c1)) →
      ∃ b id loopBody c3 c4 c5, body = .ok b ∧ enterScope .localS c2 = .ok (⟨⟩, c3) ∧
        newBinding v.text ty v.span c3 = .ok (id, c4) ∧
        blockOrStmtToAsgType fuel b c4 = .ok (loopBody, c5) ∧ exitScope c5 = .ok (⟨⟩, c') ∧
        r = some (.forStmt id iterable loopBody) := by
    intro iterable c2 r c' hk
    simp only [bind_ok, withScope_ok] at hk
    obtain ⟨x, c6, ⟨c3, x', c5, he, ⟨id, c4, hn, hb⟩, hx, rfl⟩, hr⟩ := hk
    cases hr
    cases body with
    | panicked => simp [bind_ok] at hb
    | ok b =>
      simp only [bind_ok, pure_ok] at hb
      obtain ⟨_, _, hb0, loopBody, c5', hb1, hb2⟩ := hb
      cases hb0; cases hb2
      exact ⟨b, id, loopBody, c3, c4, c5, rfl, he, hn, hb1, hx, rfl⟩
  cases hs : it.setExpression with
  | some s =>
    simp only [hs, bind_ok, pure_ok] at h
    obtain ⟨l, c2, hs', _, _, hi, h⟩ := h
    cases hi
    obtain ⟨b, id, loopBody, c3, c4, c5, rfl, he, hn, hb, hx, rfl⟩ := key _ _ _ _ h
    refine ⟨v, st, it, b, ty, _, id, loopBody, c1, c2, c3, c4, c5, rfl, rfl, rfl, rfl, h2,
      ?_, he, hn, hb, hx, rfl⟩
    simp only [forIterableM, hs, bind_ok, pure_ok]
    exact ⟨l, c2, hs', rfl⟩
  | none =>
    simp only [hs] at h
    cases hr : it.rangeExpr with
    | some rg =>
      simp only [hr, bind_ok, pure_ok] at h
      obtain ⟨l, c2, hs', _, _, hi, h⟩ := h
      cases hi
      obtain ⟨b, id, loopBody, c3, c4, c5, rfl, he, hn, hb, hx, rfl⟩ := key _ _ _ _ h
      refine ⟨v, st, it, b, ty, _, id, loopBody, c1, c2, c3, c4, c5, rfl, rfl, rfl, rfl, h2,
        ?_, he, hn, hb, hx, rfl⟩
      simp only [forIterableM, hs, hr, bind_ok, pure_ok]
      exact ⟨l, c2, hs', rfl⟩
    | none =>
      simp only [hr] at h
      cases hf : it.forIterableExpr with
      | some ex =>
        simp only [hf, bind_ok, pure_ok, unwrap_ok] at h
        obtain ⟨e, c2, hs', e', _, ⟨_, rfl, hu⟩, _, _, hi, h⟩ := h
        cases hu; cases hi
        obtain ⟨b, id, loopBody, c3, c4, c5, rfl, he, hn, hb, hx, rfl⟩ := key _ _ _ _ h
        refine ⟨v, st, it, b, ty, _, id, loopBody, c1, c2, c3, c4, c5, rfl, rfl, rfl, rfl, h2,
          ?_, he, hn, hb, hx, rfl⟩
        simp only [forIterableM, hs, hr, hf, bind_ok, pure_ok, unwrap_ok]
        exact ⟨_, c2, hs', e', c2, ⟨e', rfl, rfl⟩, rfl⟩
      | none => simp [hf, bind_ok] at h

/-- what the default role of a `switch` is translated by -/
def defaultM (fuel : Nat) (d : Option Ast.BlockExpr) : M (Option (List Stmt)) :=
  match d with
  | some block => do pure (some (← blockExprToAsgStmtList fuel block))
  | none => pure none

theorem roles_preserved_switch {fuel sp control caseExprs defaultBlock c r c'}
    (h : stmtToAsgStmt (fuel+1) (.switchCaseStmt sp control caseExprs defaultBlock) c = .ok (r, c')) :
    ∃ control' cases dflt c1 c2,
      exprToAsgTexpr fuel control c = .ok (some control', c1) ∧
      caseExprsLoop fuel caseExprs c1 = .ok (cases, c2) ∧
      withScope .localS (defaultM fuel defaultBlock) c2 = .ok (dflt, c') ∧
      r = some (.switchCaseStmt control' cases dflt) := by
  unfold stmtToAsgStmt at h
  simp only [bind_ok, pure_ok, unwrap_ok] at h
  obtain ⟨a, c1, h1, cases, c2, h2, dflt, c3, h3, control', _, ⟨_, rfl, h4⟩, h5⟩ := h
  cases h4; cases h5
  exact ⟨control', cases, dflt, c1, c2, h1, h2, h3, rfl⟩

/-- cases in order, each with its value list and its body -/
theorem roles_preserved_cases_cons {fuel sp expressionList blockExpr rest c r c'}
    (h : caseExprsLoop (fuel+1) (.mk sp expressionList blockExpr :: rest) c = .ok (r, c')) :
    ∃ el blk values statements cs c1 c2,
      expressionList = some el ∧ blockExpr = some blk ∧
      expressionListToAsgTexpr fuel el c = .ok (values, c1) ∧
      withScope .localS (blockExprToAsgStmtList fuel blk) c1 = .ok (statements, c2) ∧
      caseExprsLoop fuel rest c2 = .ok (cs, c') ∧
      r = CaseExpr.mk values statements :: cs := by
  unfold caseExprsLoop at h
  simp only [bind_ok, pure_ok, unwrap_ok] at h
  obtain ⟨el, _, ⟨_, rfl, h0⟩, values, c1, h1, statements, c2, h2, cs, c3, h3, h4⟩ := h
  cases h0; cases h4
  cases blockExpr with
  | none => simp [withScope_ok, bind_ok] at h2
  | some blk =>
    refine ⟨el, blk, values, statements, cs, c1, c2, rfl, rfl, h1, ?_, h3, rfl⟩
    simpa using h2

theorem roles_preserved_cases_nil {fuel c r c'}
    (h : caseExprsLoop (fuel+1) [] c = .ok (r, c')) : r = [] ∧ c' = c := by
  unfold caseExprsLoop at h
  simp only [pure_ok] at h
  cases h; exact ⟨rfl, rfl⟩

theorem roles_preserved_gate {fuel sp name angleParams qubitParams body c r c'}
    (h : stmtToAsgStmt (fuel+1) (.gate sp name angleParams qubitParams body) c = .ok (r, c')) :
    ∃ n b params qubits block id c0 c1 c2 c3 c4 c5,
      name = some n ∧ body = some b ∧
      gateNotGlobalCheck name c = .ok (⟨⟩, c0) ∧
      enterScope .subroutine c0 = .ok (⟨⟩, c1) ∧
      bindParameterList angleParams (.angle none true) c1 = .ok (params, c2) ∧
      bindParameterList qubitParams .qubit c2 = .ok (some qubits, c3) ∧
      blockExprToAsgType fuel b c3 = .ok (block, c4) ∧
      exitScope c4 = .ok (⟨⟩, c5) ∧
      newBinding n.text (.gate (match params with | some ps => ps.length | none => 0) qubits.length)
        n.span c5 = .ok (id, c') ∧
      r = some (.gateDefinition id params qubits block) := by
  unfold stmtToAsgStmt at h
  simp only [bind_ok, pure_ok, unwrap_ok, withScope_ok] at h
  obtain ⟨_, c0, h0, n, _, ⟨_, rfl, hn⟩, x, c5, ⟨c1, _, c4, he, ⟨params, c2, hp, q, c3, hq, qubits, _,
    ⟨_, rfl, hq'⟩, b, _, ⟨_, rfl, hb'⟩, block, _, hblk, hx⟩, hexit, rfl⟩, id, _, hid, hr⟩ := h
  cases hn; cases hq'; cases hb'; cases hx; cases hr
  exact ⟨n, b, params, qubits, block, id, c0, c1, c2, c3, c4, c5, rfl, rfl, h0, he, hp, hq, hblk,
    hexit, hid, rfl⟩

/-- what the return-type role of a `def` is translated by -/
def returnTypeM (rs : Option Ast.ReturnSignature) : M T :=
  match rs with
  | some rs =>
    match rs.scalarType with
    | some st => scalarTypeToType st true
    | none => pure T.void
  | none => pure T.void

theorem defStmt_eq (fuel : Nat) (sp : Ast.Span) (name : Option Ast.Name)
    (typedParamList : Option Ast.TypedParamList) (body : Option Ast.BlockExpr)
    (returnSignature : Option Ast.ReturnSignature) :
    stmtToAsgStmt (fuel+1) (.defStmt sp name typedParamList body returnSignature) = (do
      let nameNode ← unwrap "stmt_to_asg_stmt: Def name() is None" name
      notGlobalCheck nameNode.span
      let (params, block) ← withScope .subroutine do
        let params ← bindTypedParameterList typedParamList
        let body ← unwrap "stmt_to_asg_stmt: Def body() is None" body
        let block ← blockExprToAsgType fuel body
        pure (params, block)
      let numParams := match params with
        | some ps => ps.length
        | none => 0
      let returnType ← returnTypeM returnSignature
      let defNameSymbolId ← newBinding nameNode.text (.subroutine numParams returnType) nameNode.span
      let params ← unwrap "stmt_to_asg_stmt: Def params.unwrap() on None" params
      pure (some (.defStmt defNameSymbolId params block returnType))) := by
  conv => lhs; unfold stmtToAsgStmt
  unfold returnTypeM
  rcases returnSignature with _ | ⟨_, _ | st⟩ <;> (simp only [pure_bind]; try rfl)

theorem roles_preserved_def {fuel sp name typedParamList body returnSignature c r c'}
    (h : stmtToAsgStmt (fuel+1) (.defStmt sp name typedParamList body returnSignature) c = .ok (r, c')) :
    ∃ n b params block returnType id c0 c1 c2 c3 c4 c5,
      name = some n ∧ body = some b ∧
      notGlobalCheck n.span c = .ok (⟨⟩, c0) ∧
      enterScope .subroutine c0 = .ok (⟨⟩, c1) ∧
      bindTypedParameterList typedParamList c1 = .ok (some params, c2) ∧
      blockExprToAsgType fuel b c2 = .ok (block, c3) ∧
      exitScope c3 = .ok (⟨⟩, c4) ∧
      returnTypeM returnSignature c4 = .ok (returnType, c5) ∧
      newBinding n.text (.subroutine params.length returnType) n.span c5 = .ok (id, c') ∧
      r = some (.defStmt id params block returnType) := by
  rw [defStmt_eq] at h
  simp only [bind_ok, pure_ok, unwrap_ok, withScope_ok] at h
  obtain ⟨n, _, ⟨_, rfl, hn⟩, _, c0, h0, x, c4, ⟨c1, _, c3, he, ⟨ps, c2, hp, b, _, ⟨_, rfl, hb'⟩,
    block, _, hblk, hx⟩, hexit, rfl⟩, returnType, c5, hrt, id, c6, hid, params, _, ⟨_, hps, hq⟩, hr⟩ := h
  cases hn; cases hb'; cases hx; cases hq; cases hr
  dsimp only at hps
  subst hps
  exact ⟨n, b, params, block, returnType, id, c0, c1, c2, c3, c4, c5, rfl, rfl, h0, he, hp, hblk,
    hexit, hrt, hid, rfl⟩

/-- what the parameter role of a gate call / subroutine call is translated by -/
def argsM (fuel : Nat) (site : String) (argList : Option Ast.ArgList) : M (Option (List TExpr)) :=
  match argList with
  | some (.mk _ el) => do
    let el ← unwrap site el
    pure (some (← expressionListToAsgTexpr fuel el))
  | none => pure none

theorem gateCall_eq (fuel : Nat) (sp : Ast.Span) (qubitList : Option Ast.QubitList)
    (argList : Option Ast.ArgList) (identifier : Option Ast.Identifier) (modifiers : List GateModifier) :
    gateCallExprToAsgStmt (fuel+1) (.mk sp qubitList argList identifier) modifiers = (do
      let gateOperands ← qubitListToAsgTexpr fuel qubitList
      let paramList ← argsM fuel "gate_call_expr_to_asg_stmt: arg_list expression_list() is None" argList
      let numParams := match paramList with
        | some ps => ps.length
        | none => 0
      let gateId ← unwrap "gate_call_expr_to_asg_stmt: identifier() is None" identifier
      let (symbolResult, gateType) ← lookupGateSymbol gateId.text gateId.span
      gateCallCheck sp qubitList argList gateId symbolResult gateType numParams gateOperands.length
      pure (some (.gateCall symbolResult paramList gateOperands modifiers))) := by
  conv => lhs; unfold gateCallExprToAsgStmt
  unfold argsM
  rcases argList with _ | ⟨_, _⟩ <;> (simp only [bind_assoc, pure_bind]; try rfl)

theorem roles_preserved_gate_call {fuel sp qubitList argList identifier modifiers c r c'}
    (h : gateCallExprToAsgStmt (fuel+1) (.mk sp qubitList argList identifier) modifiers c = .ok (r, c')) :
    ∃ g qubits params sym ty c1 c2 c3,
      identifier = some g ∧
      qubitListToAsgTexpr fuel qubitList c = .ok (qubits, c1) ∧
      argsM fuel "gate_call_expr_to_asg_stmt: arg_list expression_list() is None" argList c1
        = .ok (params, c2) ∧
      lookupGateSymbol g.text g.span c2 = .ok ((sym, ty), c3) ∧
      gateCallCheck sp qubitList argList g sym ty (match params with | some ps => ps.length | none => 0)
        qubits.length c3 = .ok (⟨⟩, c') ∧
      r = some (.gateCall sym params qubits modifiers) := by
  rw [gateCall_eq] at h
  simp only [bind_ok, pure_ok, unwrap_ok] at h
  obtain ⟨qubits, c1, h1, params, c2, h2, g, _, ⟨_, rfl, hg⟩, ⟨sym, ty⟩, c3, h3, _, c4, h4, h5⟩ := h
  cases hg; cases h5
  exact ⟨g, qubits, params, sym, ty, c1, c2, c3, rfl, h1, h2, h3, h4, rfl⟩

/-- modifiers are translated left to right and attached in that order -/
theorem roles_preserved_modified_gate_call {fuel sp sp' modifiers g gp c r c'}
    (h : stmtToAsgStmt (fuel+2) (.exprStmt sp (some (.modifiedGateCallExpr sp' modifiers (some g) gp))) c
      = .ok (r, c')) :
    ∃ ms c1, modifiersLoop fuel modifiers c = .ok (ms, c1) ∧
      gateCallExprToAsgStmt fuel g ms c1 = .ok (r, c') := by
  unfold stmtToAsgStmt at h
  unfold exprStmtToAsgStmt at h
  simp only [bind_ok] at h
  exact h

theorem roles_preserved_gate_call_stmt {fuel sp g c r c'}
    (h : stmtToAsgStmt (fuel+2) (.exprStmt sp (some (.gateCallExpr g))) c = .ok (r, c')) :
    gateCallExprToAsgStmt fuel g [] c = .ok (r, c') := by
  unfold stmtToAsgStmt at h
  unfold exprStmtToAsgStmt at h
  exact h

/-- what one gate modifier is translated by -/
def modifierM (fuel : Nat) (m : Ast.Modifier) : M GateModifier :=
  match m with
  | .invModifier _ => pure GateModifier.inv
  | .powModifier _ parenExpr => do
    let p ← unwrap "expr_stmt_to_asg_stmt: PowModifier paren_expr() is None" parenExpr
    let exponent ← parenExprToAsgTexpr fuel p
    let exponent ← unwrap "expr_stmt_to_asg_stmt: PowModifier exponent unwrap() on None" exponent
    pure (GateModifier.pow exponent)
  | .ctrlModifier _ parenExpr =>
    match parenExpr with
    | some p => do pure (GateModifier.ctrl (← parenExprToAsgTexpr fuel p))
    | none => pure (GateModifier.ctrl none)
  | .negCtrlModifier _ parenExpr =>
    match parenExpr with
    | some p => do pure (GateModifier.negCtrl (← parenExprToAsgTexpr fuel p))
    | none => pure (GateModifier.negCtrl none)

theorem modifiersLoop_cons_eq (fuel : Nat) (m : Ast.Modifier) (rest : List Ast.Modifier) :
    modifiersLoop (fuel+1) (m :: rest) = (do
      let gm ← modifierM fuel m
      let gms ← modifiersLoop fuel rest
      pure (gm :: gms)) := by
  conv => lhs; unfold modifiersLoop
  unfold modifierM
  rcases m with _ | ⟨_, p⟩ | ⟨_, _ | p⟩ | ⟨_, _ | p⟩ <;> simp only [bind_assoc, pure_bind]

theorem roles_preserved_modifiers_cons {fuel m rest c r c'}
    (h : modifiersLoop (fuel+1) (m :: rest) c = .ok (r, c')) :
    ∃ gm gms c1, modifierM fuel m c = .ok (gm, c1) ∧ modifiersLoop fuel rest c1 = .ok (gms, c') ∧
      r = gm :: gms := by
  rw [modifiersLoop_cons_eq] at h
  simp only [bind_ok, pure_ok] at h
  obtain ⟨gm, c1, h1, gms, c2, h2, h3⟩ := h
  cases h3
  exact ⟨gm, gms, c1, h1, h2, rfl⟩

theorem roles_preserved_modifiers_nil {fuel c r c'}
    (h : modifiersLoop (fuel+1) [] c = .ok (r, c')) : r = [] ∧ c' = c := by
  unfold modifiersLoop at h
  simp only [pure_ok] at h
  cases h; exact ⟨rfl, rfl⟩

/-- assignment to a plain identifier: the lvalue is the looked-up symbol, the rvalue is the
translation of `rhs()`, possibly wrapped in one implicit cast -/
theorem roles_preserved_assignment_ident {fuel sp name rhs ii c r c'}
    (h : assignmentStmtToAsgStmt (fuel+1) sp (some name) rhs ii c = .ok (r, c')) :
    ∃ e sym ty e' c1 c2,
      exprToAsgTexpr fuel rhs c = .ok (some e, c1) ∧
      lookupSymbol name.text name.span c1 = .ok ((sym, ty), c2) ∧
      (e' = e ∨ ∃ t, e' = castToTexpr e t) ∧
      r = some (.assignment (.identifier sym) e') := by
  suffices H : Runs (assignmentStmtToAsgStmt (fuel+1) sp (some name) rhs ii) c (fun r _ =>
      ∃ e sym ty e' c1 c2,
      exprToAsgTexpr fuel rhs c = .ok (some e, c1) ∧
      lookupSymbol name.text name.span c1 = .ok ((sym, ty), c2) ∧
      (e' = e ∨ ∃ t, e' = castToTexpr e t) ∧
      r = some (Stmt.assignment (.identifier sym) e')) from H r c' h
  unfold assignmentStmtToAsgStmt
  dsimp only
  refine Runs.bind fun a c1 h1 => ?_
  cases a with
  | none => exact Runs.bind fun _ _ hu => by simp at hu
  | some e =>
    simp only [unwrap_some, pure_bind]
    refine Runs.bind fun st c2 h2 => ?_
    obtain ⟨sym, ty⟩ := st
    dsimp only
    have fin : ∀ (e' : TExpr) (c3 : Ctx), (e' = e ∨ ∃ t, e' = castToTexpr e t) →
        Runs (do mutateConstCheck sym.isOk ty sp
                 pure (some (Stmt.assignment (LValue.identifier sym) e')) : M (Option Stmt)) c3
          (fun r _ => ∃ e0 sym ty e' c1 c2,
            exprToAsgTexpr fuel rhs c = .ok (some e0, c1) ∧
            lookupSymbol name.text name.span c1 = .ok ((sym, ty), c2) ∧
            (e' = e0 ∨ ∃ t, e' = castToTexpr e0 t) ∧
            r = some (Stmt.assignment (.identifier sym) e')) := by
      intro e' c3 he'
      refine Runs.bind fun _ _ _ => Runs.pure ?_
      exact ⟨e, sym, ty, e', c1, c2, h1, h2, he', rfl⟩
    repeat' first
      | exact fin _ _ (Or.inl rfl)
      | exact fin _ _ (Or.inr ⟨_, rfl⟩)
      | (refine Runs.bind fun _ _ hp => ?_; first | (simp only [pure_ok] at hp; obtain ⟨rfl, rfl⟩ := hp) | skip)
      | split

/-- assignment to an indexed identifier: lvalue = translation of `indexed_identifier()`,
rvalue = translation of `rhs()` (no cast is ever inserted) -/
theorem roles_preserved_assignment_indexed {fuel sp rhs ii c r c'}
    (h : assignmentStmtToAsgStmt (fuel+1) sp none rhs ii c = .ok (r, c')) :
    ∃ iiAst lv ty e c1 c2,
      ii = some iiAst ∧
      indexedIdentifierToAsgType fuel iiAst c = .ok ((lv, ty), c1) ∧
      exprToAsgTexpr fuel rhs c2 = .ok (some e, c') ∧
      r = some (.assignment (.indexedIdentifier lv) e) := by
  suffices H : Runs (assignmentStmtToAsgStmt (fuel+1) sp none rhs ii) c (fun r c' =>
      ∃ iiAst lv ty e c1 c2,
      ii = some iiAst ∧
      indexedIdentifierToAsgType fuel iiAst c = .ok ((lv, ty), c1) ∧
      exprToAsgTexpr fuel rhs c2 = .ok (some e, c') ∧
      r = some (Stmt.assignment (.indexedIdentifier lv) e)) from H r c' h
  unfold assignmentStmtToAsgStmt
  dsimp only
  cases ii with
  | none => exact Runs.bind fun _ _ hu => by simp at hu
  | some iiAst =>
    simp only [unwrap_some, pure_bind]
    refine Runs.bind fun st c1 h1 => ?_
    obtain ⟨lv, ty⟩ := st
    dsimp only
    have fin : ∀ c2, Runs (do
          let expr ← exprToAsgTexpr fuel rhs
          let expr ← unwrap "assignment_stmt_to_asg_stmt: rhs unwrap() on None" expr
          pure (some (Stmt.assignment (LValue.indexedIdentifier lv) expr)) : M (Option Stmt)) c2
        (fun r c' => ∃ iiAst' lv ty e c1 c2,
          some iiAst = some iiAst' ∧
          indexedIdentifierToAsgType fuel iiAst' c = .ok ((lv, ty), c1) ∧
          exprToAsgTexpr fuel rhs c2 = .ok (some e, c') ∧
          r = some (Stmt.assignment (.indexedIdentifier lv) e)) := by
      intro c2
      refine Runs.bind fun a c3 h3 => ?_
      cases a with
      | none => exact Runs.fail
      | some e =>
        simp only [unwrap_some, pure_bind]
        exact Runs.pure ⟨iiAst, lv, ty, e, c1, c2, rfl, h1, h3, rfl⟩
    repeat' first
      | exact fin _
      | refine Runs.bind fun _ _ _ => ?_
      | split

/-- index lists: the identifier is looked up, then the index operators are translated left to
right and stored in that order -/
theorem roles_preserved_indexed_identifier {fuel sp identifier indexOperators c r c'}
    (h : indexedIdentifierToAsgType (fuel+1) (.mk sp identifier indexOperators) c = .ok (r, c')) :
    ∃ id sym ty indexes c1,
      identifier = some id ∧
      lookupSymbol id.text sp c = .ok ((sym, ty), c1) ∧
      indexOperatorsLoop fuel indexOperators c1 = .ok (indexes, c') ∧
      r = (IndexedIdentifier.mk sym indexes, ty) := by
  unfold indexedIdentifierToAsgType at h
  simp only [bind_ok, pure_ok, unwrap_ok] at h
  obtain ⟨id, _, ⟨_, rfl, hid⟩, ⟨sym, ty⟩, c1, h1, indexes, c2, h2, h3⟩ := h
  cases hid; cases h3
  exact ⟨id, sym, ty, indexes, c1, rfl, h1, h2, rfl⟩

theorem roles_preserved_index_operators_cons {fuel ix rest c r c'}
    (h : indexOperatorsLoop (fuel+1) (ix :: rest) c = .ok (r, c')) :
    ∃ i is c1, indexOperatorToAsgType fuel ix c = .ok (i, c1) ∧
      indexOperatorsLoop fuel rest c1 = .ok (is, c') ∧ r = i :: is := by
  unfold indexOperatorsLoop at h
  simp only [bind_ok, pure_ok] at h
  obtain ⟨i, c1, h1, is, c2, h2, h3⟩ := h
  cases h3
  exact ⟨i, is, c1, h1, h2, rfl⟩

theorem roles_preserved_index_operators_nil {fuel c r c'}
    (h : indexOperatorsLoop (fuel+1) [] c = .ok (r, c')) : r = [] ∧ c' = c := by
  unfold indexOperatorsLoop at h
  simp only [pure_ok] at h
  cases h; exact ⟨rfl, rfl⟩

theorem roles_preserved_index_operator_set {fuel sp s c r c'}
    (h : indexOperatorToAsgType (fuel+1) (.mk sp (some (.setExpression s))) c = .ok (r, c')) :
    ∃ es, setExpressionToAsgType fuel s c = .ok (es, c') ∧ r = .setExpression es := by
  unfold indexOperatorToAsgType at h
  simp only [unwrap_some, pure_bind, bind_ok, pure_ok] at h
  obtain ⟨es, c1, h1, h2⟩ := h
  cases h2
  exact ⟨es, h1, rfl⟩

theorem roles_preserved_index_operator_list {fuel sp el c r c'}
    (h : indexOperatorToAsgType (fuel+1) (.mk sp (some (.expressionList el))) c = .ok (r, c')) :
    ∃ es, expressionListToAsgType fuel el c = .ok (es, c') ∧ r = .expressionList es := by
  unfold indexOperatorToAsgType at h
  simp only [unwrap_some, pure_bind, bind_ok, pure_ok] at h
  obtain ⟨es, c1, h1, h2⟩ := h
  cases h2
  exact ⟨es, h1, rfl⟩

theorem roles_preserved_index_expr {fuel sp inner indexOperator c r c'}
    (h : exprToAsgTexpr (fuel+1) (some (.indexExpr sp inner indexOperator)) c = .ok (r, c')) :
    ∃ e ix index c1, indexOperator = some ix ∧
      exprToAsgTexpr fuel inner c = .ok (some e, c1) ∧
      indexOperatorToAsgType fuel ix c1 = .ok (index, c') ∧
      r = some (indexExpressionToTexpr e index) := by
  unfold exprToAsgTexpr at h
  simp only [bind_ok, pure_ok, unwrap_ok] at h
  obtain ⟨a, c1, h1, ix, _, ⟨_, rfl, hix⟩, index, c2, h2, e, _, ⟨_, rfl, he⟩, h3⟩ := h
  cases hix; cases he; cases h3
  exact ⟨e, ix, index, c1, rfl, h1, h2, rfl⟩

theorem callExpr_eq (fuel : Nat) (sp : Ast.Span) (argList : Option Ast.ArgList)
    (identifier : Option Ast.Identifier) :
    callExprToAsgTexpr (fuel+1) sp argList identifier = (do
      let paramList ← argsM fuel "call_expr_to_asg_texpr: arg_list expression_list() is None" argList
      let subroutineId ← unwrap "call_expr_to_asg_texpr: identifier() is None" identifier
      let (symbolResult, callType) ← lookupSymbol subroutineId.text subroutineId.span
      match callType with
      | .subroutine expectedNumParams returnType =>
        let numParams := match paramList with
          | some ps => ps.length
          | none => 0
        defArityCheck expectedNumParams numParams argList
        pure (subroutineCallToTexpr symbolResult paramList returnType)
      | _ => fail "call_expr_to_asg_texpr: programming error: expected Type::Def variant") := by
  conv => lhs; unfold callExprToAsgTexpr
  unfold argsM
  rcases argList with _ | ⟨_, _⟩ <;> (simp only [bind_assoc, pure_bind]; try rfl)

/-- call arguments: the argument list is translated first (in order), then the callee is looked
up; the call node holds that symbol and exactly that list -/
theorem roles_preserved_call {fuel sp argList identifier c r c'}
    (h : callExprToAsgTexpr (fuel+1) sp argList identifier c = .ok (r, c')) :
    ∃ id params sym n ret c1 c2,
      identifier = some id ∧
      argsM fuel "call_expr_to_asg_texpr: arg_list expression_list() is None" argList c = .ok (params, c1) ∧
      lookupSymbol id.text id.span c1 = .ok ((sym, .subroutine n ret), c2) ∧
      r = subroutineCallToTexpr sym params ret := by
  rw [callExpr_eq] at h
  simp only [bind_ok, unwrap_ok] at h
  obtain ⟨params, c1, h1, id, _, ⟨_, rfl, hid⟩, ⟨sym, ty⟩, c2, h2, h3⟩ := h
  cases hid
  cases ty <;> simp only [fail_ok, bind_ok, pure_ok] at h3
  obtain ⟨_, _, _, h4⟩ := h3
  cases h4
  exact ⟨id, params, sym, _, _, c1, c2, rfl, h1, h2, rfl⟩

/-- `filter_map` over an expression list: order kept, only the `None` translations dropped -/
theorem roles_preserved_exprs_cons {fuel x rest c r c'}
    (h : exprsLoop (fuel+1) (x :: rest) c = .ok (r, c')) :
    ∃ t ts c1, exprToAsgTexpr fuel (some x) c = .ok (t, c1) ∧ exprsLoop fuel rest c1 = .ok (ts, c') ∧
      r = t.toList ++ ts := by
  unfold exprsLoop at h
  simp only [bind_ok] at h
  obtain ⟨t, c1, h1, ts, c2, h2, h3⟩ := h
  cases t with
  | none => simp only [pure_ok] at h3; cases h3; exact ⟨none, _, c1, h1, h2, rfl⟩
  | some t => simp only [pure_ok] at h3; cases h3; exact ⟨some t, _, c1, h1, h2, rfl⟩

theorem roles_preserved_exprs_nil {fuel c r c'}
    (h : exprsLoop (fuel+1) [] c = .ok (r, c')) : r = [] ∧ c' = c := by
  unfold exprsLoop at h
  simp only [pure_ok] at h
  cases h; exact ⟨rfl, rfl⟩

/-- qubit operands: translated left to right, stored in that order, none dropped -/
theorem roles_preserved_gate_operands_cons {fuel q rest c r c'}
    (h : gateOperandsLoop (fuel+1) (q :: rest) c = .ok (r, c')) :
    ∃ t ts c1, gateOperandToAsgTexpr fuel q c = .ok (t, c1) ∧ gateOperandsLoop fuel rest c1 = .ok (ts, c') ∧
      r = t :: ts := by
  unfold gateOperandsLoop at h
  simp only [bind_ok, pure_ok] at h
  obtain ⟨t, c1, h1, ts, c2, h2, h3⟩ := h
  cases h3
  exact ⟨t, ts, c1, h1, h2, rfl⟩

theorem roles_preserved_gate_operands_nil {fuel c r c'}
    (h : gateOperandsLoop (fuel+1) [] c = .ok (r, c')) : r = [] ∧ c' = c := by
  unfold gateOperandsLoop at h
  simp only [pure_ok] at h
  cases h; exact ⟨rfl, rfl⟩

theorem gateOperandsLoop_length {fuel gs c r c'} (h : gateOperandsLoop fuel gs c = .ok (r, c')) :
    r.length = gs.length := by
  induction gs generalizing fuel c r with
  | nil =>
    cases fuel with
    | zero => unfold gateOperandsLoop at h; simp at h
    | succ fuel => rw [(roles_preserved_gate_operands_nil h).1]; rfl
  | cons g gs ih =>
    cases fuel with
    | zero => unfold gateOperandsLoop at h; simp at h
    | succ fuel =>
      obtain ⟨t, ts, c1, _, h2, rfl⟩ := roles_preserved_gate_operands_cons h
      simp [ih h2]

/-- operands of a binary expression: the operator is translated, then the left operand, then the
right operand; the node is built from them in that order (each possibly wrapped in one cast) -/
theorem roles_preserved_bin_expr {fuel sp opKind lhs rhs c r c'}
    (h : exprToAsgTexpr (fuel+1) (some (.binExpr sp opKind lhs rhs)) c = .ok (r, c')) :
    ∃ synOp op left right c0 c1 c2,
      opKind = some synOp ∧
      binaryOpToAsgType synOp c = .ok (op, c0) ∧
      exprToAsgTexpr fuel lhs c0 = .ok (some left, c1) ∧
      exprToAsgTexpr fuel rhs c1 = .ok (some right, c2) ∧
      quantumBinopCheck left right lhs rhs c2 = .ok (⟨⟩, c') ∧
      r = some (newTexprWithCast op left right) := by
  unfold exprToAsgTexpr at h
  simp only [bind_ok, pure_ok, unwrap_ok] at h
  obtain ⟨synOp, _, ⟨_, rfl, h0⟩, op, c0, hop, l, c1, hl, left, _, ⟨_, rfl, hl'⟩, r', c2, hr, right, _,
    ⟨_, rfl, hr'⟩, _, c3, hq, h3⟩ := h
  cases h0; cases hl'; cases hr'; cases h3
  exact ⟨synOp, op, left, right, c0, c1, c2, rfl, hop, hl, hr, hq, rfl⟩

/-- a range keeps its three roles (evaluation order: start, stop, step) -/
theorem roles_preserved_range {fuel sp start step stop c r c'}
    (h : rangeExpressionToAsgType (fuel+1) (.mk sp start step stop) c = .ok (r, c')) :
    ∃ a b z c1 c2,
      exprToAsgTexpr fuel start c = .ok (some a, c1) ∧
      exprToAsgTexpr fuel stop c1 = .ok (some z, c2) ∧
      exprToAsgTexpr fuel step c2 = .ok (b, c') ∧
      r = (a, b, z) := by
  unfold rangeExpressionToAsgType at h
  simp only [bind_ok, pure_ok, unwrap_ok] at h
  obtain ⟨a', c1, h1, a, _, ⟨_, rfl, ha⟩, z', c2, h2, z, _, ⟨_, rfl, hz⟩, b, c3, h3, h4⟩ := h
  cases ha; cases hz; cases h4
  exact ⟨a, b, z, c1, c2, h1, h2, h3, rfl⟩

/-- a body that is a block is translated as that block; a single-statement body becomes a block
holding exactly the translation of that statement -/
theorem roles_preserved_body_block {fuel b c r c'}
    (h : blockOrStmtToAsgType (fuel+2) (.blockExpr b) c = .ok (r, c')) :
    ∃ ss, blockExprToAsgStmtList fuel b c = .ok (ss, c') ∧ r = Block.mk ss := by
  unfold blockOrStmtToAsgType at h
  unfold blockExprToAsgType at h
  simp only [bind_ok, pure_ok] at h
  obtain ⟨ss, c1, h1, h2⟩ := h
  cases h2
  exact ⟨ss, h1, rfl⟩

theorem roles_preserved_body_stmt {fuel s c r c'}
    (h : blockOrStmtToAsgType (fuel+1) (.stmt s) c = .ok (r, c')) :
    ∃ t, stmtToAsgStmt fuel s c = .ok (some t, c') ∧ r = Block.mk [t] := by
  unfold blockOrStmtToAsgType at h
  simp only [bind_ok, pure_ok, unwrap_ok] at h
  obtain ⟨a, c1, h1, t, _, ⟨_, rfl, ht⟩, h2⟩ := h
  cases ht; cases h2
  exact ⟨t, h1, rfl⟩

/-! ### the append-only relation -/

/-- what no function of the statement/expression translation may do to the context: it never
touches `program`, and only appends to the symbol vector, the diagnostics and the pending
annotations -/
structure Ext (c c' : Ctx) : Prop where
  program : c'.program = c.program
  symbols : c.symbolTable.all <+: c'.symbolTable.all
  errors : c.semanticErrors <+: c'.semanticErrors
  annotations : c.annotations <+: c'.annotations

theorem Ext.refl (c : Ctx) : Ext c c :=
  ⟨rfl, List.prefix_refl _, List.prefix_refl _, List.prefix_refl _⟩

theorem Ext.trans {a b c : Ctx} (h1 : Ext a b) (h2 : Ext b c) : Ext a c :=
  ⟨h2.program.trans h1.program, h1.symbols.trans h2.symbols, h1.errors.trans h2.errors,
   h1.annotations.trans h2.annotations⟩

/-- every successful run of `x` extends the context -/
structure Frame {α} (x : M α) : Prop where
  run : ∀ c a c', x c = .ok (a, c') → Ext c c'

theorem Frame.bind {α β} {x : M α} {f : α → M β} (hx : Frame x) (hf : ∀ a, Frame (f a)) :
    Frame (x >>= f) := by
  refine ⟨fun c b c' h => ?_⟩
  obtain ⟨a, c1, h1, h2⟩ := (bind_ok x f c (b, c')).mp h
  exact (hx.run _ _ _ h1).trans ((hf a).run _ _ _ h2)

theorem Frame.pure {α} (a : α) : Frame (pure a : M α) := by
  refine ⟨fun c b c' h => ?_⟩; simp at h; obtain ⟨_, rfl⟩ := h; exact Ext.refl _

theorem Frame.fail {α} (site : String) : Frame (fail site : M α) := by
  refine ⟨fun c b c' h => ?_⟩; simp at h

theorem Frame.throw {α} (o : Outcome) : Frame (throw o : M α) := by
  refine ⟨fun c b c' h => ?_⟩; simp at h

theorem Frame.ite {α} (p : Prop) [Decidable p] {x y : M α} (hx : Frame x) (hy : Frame y) :
    Frame (if p then x else y) := by
  split <;> assumption

theorem Frame.unwrap {α} (site : String) (o : Option α) : Frame (unwrap site o) := by
  cases o
  · exact Frame.fail _
  · exact Frame.pure _

theorem Frame.of_readOnly {α} {x : M α} (h : ∀ c a c', x c = .ok (a, c') → c' = c) : Frame x :=
  ⟨fun c a c' hr => by rw [h c a c' hr]; exact Ext.refl _⟩

theorem insertError_frame (k : SemanticErrorKind) (n : Ast.Span) : Frame (insertError k n) := by
  refine ⟨fun c a c' h => ?_⟩
  simp [insertError] at h
  obtain ⟨_, rfl⟩ := h
  exact ⟨rfl, List.prefix_refl _, List.prefix_append _ _, List.prefix_refl _⟩

theorem symStep_frame (site : String) (op : Op) : Frame (symStep site op) := by
  refine ⟨fun c a c' h => ?_⟩
  unfold symStep at h
  simp only [bind_ok, get_ok] at h
  obtain ⟨_, _, ⟨rfl, rfl⟩, h⟩ := h
  have hp := Oq3.Props.C19.all_prefix_step c.symbolTable op
  generalize c.symbolTable.step op = so at h hp
  obtain ⟨t', o⟩ := so
  cases o <;> simp at h <;> obtain ⟨_, rfl⟩ := h <;>
    exact ⟨rfl, hp, List.prefix_refl _, List.prefix_refl _⟩


/-- extensible: frame lemmas about already-treated functions -/
syntax "frame_lemma" : tactic
macro_rules | `(tactic| frame_lemma) => `(tactic| fail "no lemma")

/-- extensible: induction hypotheses of the mutual block (local names `h_<fn>`) -/
syntax "frame_ih" : tactic
macro_rules | `(tactic| frame_ih) => `(tactic| fail "no ih")

/-- one structural step of a frame proof -/
macro "frame_step" : tactic => `(tactic| first
  | cases ‹_ + 1 = Nat.succ _›
  | with_reducible exact Frame.pure _
  | with_reducible exact Frame.fail _
  | with_reducible exact Frame.throw _
  | with_reducible exact Frame.unwrap _ _
  | with_reducible exact insertError_frame _ _
  | with_reducible exact symStep_frame _ _
  | frame_lemma
  | frame_ih
  | assumption
  | with_reducible apply Frame.bind
  | intro _
  | with_reducible apply Frame.ite
  | split
  | dsimp only)

macro "frame" : tactic => `(tactic| repeat' frame_step)

theorem enterScope_frame (k : ScopeType) : Frame (enterScope k) := by
  unfold enterScope; frame
macro_rules | `(tactic| frame_lemma) => `(tactic| with_reducible exact enterScope_frame _)

theorem exitScope_frame : Frame exitScope := by
  unfold exitScope; frame
macro_rules | `(tactic| frame_lemma) => `(tactic| with_reducible exact exitScope_frame)

theorem withScope_frame {α} (k : ScopeType) {body : M α} (h : Frame body) :
    Frame (withScope k body) := by
  unfold withScope; frame
macro_rules | `(tactic| frame_lemma) => `(tactic| with_reducible apply withScope_frame)

theorem get_frame : Frame (get : M Ctx) := Frame.of_readOnly (by intro c a c' h; simp at h; simp [h])
macro_rules | `(tactic| frame_lemma) => `(tactic| with_reducible exact get_frame)

theorem currentScopeType_frame : Frame currentScopeType := by
  unfold currentScopeType; frame
macro_rules | `(tactic| frame_lemma) => `(tactic| with_reducible exact currentScopeType_frame)

theorem inGlobalScope_frame : Frame inGlobalScope := by
  unfold inGlobalScope; frame
macro_rules | `(tactic| frame_lemma) => `(tactic| with_reducible exact inGlobalScope_frame)

theorem newBinding_frame (n : String) (t : T) (sp : Ast.Span) : Frame (newBinding n t sp) := by
  unfold newBinding; frame
macro_rules | `(tactic| frame_lemma) => `(tactic| with_reducible exact newBinding_frame _ _ _)

theorem tableLookup_frame (n : String) : Frame (tableLookup n) := by
  unfold tableLookup; frame
macro_rules | `(tactic| frame_lemma) => `(tactic| with_reducible exact tableLookup_frame _)

theorem lookupSymbol_frame (n : String) (sp : Ast.Span) : Frame (lookupSymbol n sp) := by
  unfold lookupSymbol; frame
macro_rules | `(tactic| frame_lemma) => `(tactic| with_reducible exact lookupSymbol_frame _ _)

theorem lookupGateSymbol_frame (n : String) (sp : Ast.Span) : Frame (lookupGateSymbol n sp) := by
  unfold lookupGateSymbol; frame
macro_rules | `(tactic| frame_lemma) => `(tactic| with_reducible exact lookupGateSymbol_frame _ _)

theorem foldl_all_prefix {β} (f : SymTab × List Name → β → SymTab × List Name)
    (hf : ∀ acc b, acc.1.all <+: (f acc b).1.all) (l : List β) (acc : SymTab × List Name) :
    acc.1.all <+: (l.foldl f acc).1.all := by
  induction l generalizing acc with
  | nil => exact List.prefix_refl _
  | cons g l ih => exact (hf acc g).trans (ih _)

theorem stdGates_all_prefix (t : SymTab) : t.all <+: t.standardLibraryGates.1.all := by
  unfold SymTab.standardLibraryGates
  refine foldl_all_prefix _ ?_ _ (t, [])
  intro acc g
  have hp := Oq3.Props.C19.all_prefix_step acc.1 (.bind g.1 (T.gate g.2.1 g.2.2))
  split <;> (rename_i heq; rw [heq] at hp; exact hp)

theorem insertConstValue_frame (id : Nat) (v : TExpr) : Frame (insertConstValue id v) := by
  refine ⟨fun c a c' h => ?_⟩
  simp [insertConstValue] at h
  obtain ⟨_, rfl⟩ := h
  exact ⟨rfl, List.prefix_refl _, List.prefix_refl _, List.prefix_refl _⟩
macro_rules | `(tactic| frame_lemma) => `(tactic| with_reducible exact insertConstValue_frame _ _)

theorem getConstValue_frame (id : Nat) : Frame (getConstValue id) := by
  unfold getConstValue; frame
macro_rules | `(tactic| frame_lemma) => `(tactic| with_reducible exact getConstValue_frame _)

theorem pushAnnotation_frame (a : String) : Frame (pushAnnotation a) := by
  refine ⟨fun c a c' h => ?_⟩
  simp [pushAnnotation] at h
  obtain ⟨_, rfl⟩ := h
  exact ⟨rfl, List.prefix_refl _, List.prefix_refl _, List.prefix_append _ _⟩
macro_rules | `(tactic| frame_lemma) => `(tactic| with_reducible exact pushAnnotation_frame _)

theorem annotationsIsEmpty_frame  : Frame (annotationsIsEmpty ) := by
  unfold annotationsIsEmpty; frame
macro_rules | `(tactic| frame_lemma) => `(tactic| with_reducible exact annotationsIsEmpty_frame )

theorem redeclLoop_frame (sp : Ast.Span) (ns : List String) : Frame (redeclLoop sp ns) := by
  induction ns with
  | nil => unfold redeclLoop; frame
  | cons n ns ih => unfold redeclLoop; frame
macro_rules | `(tactic| frame_lemma) => `(tactic| with_reducible exact redeclLoop_frame _ _)

theorem standardLibraryGates_frame (sp : Ast.Span) : Frame (standardLibraryGates sp) := by
  refine ⟨fun c a c' h => ?_⟩
  unfold standardLibraryGates at h
  rw [bind_ok] at h
  obtain ⟨c0, c1, hg, h⟩ := h
  rw [get_ok] at hg
  cases hg
  rw [bind_ok] at h
  obtain ⟨_, c2, hs, h⟩ := h
  rw [set_ok] at hs
  cases hs
  have hp := stdGates_all_prefix c.symbolTable
  generalize c.symbolTable.standardLibraryGates = g at h hp
  have h2 := (redeclLoop_frame _ _).run _ _ _ h
  refine Ext.trans ?_ h2
  exact ⟨rfl, hp, List.prefix_refl _, List.prefix_refl _⟩
macro_rules | `(tactic| frame_lemma) => `(tactic| with_reducible exact standardLibraryGates_frame _)

theorem notImpl_frame (sp : Ast.Span) : Frame (notImpl sp) := by
  unfold notImpl; frame
macro_rules | `(tactic| frame_lemma) => `(tactic| with_reducible exact notImpl_frame _)

theorem binaryOpToAsgType_frame (op : Ast.BinaryOp) : Frame (binaryOpToAsgType op) := by
  unfold binaryOpToAsgType; frame
macro_rules | `(tactic| frame_lemma) => `(tactic| with_reducible exact binaryOpToAsgType_frame _)

theorem intNumberValue_frame (site text : String) : Frame (intNumberValue site text) := by
  unfold intNumberValue; frame
macro_rules | `(tactic| frame_lemma) => `(tactic| with_reducible exact intNumberValue_frame _ _)

theorem negativeFloatNumberToAsgType_frame (fmt : Option String) : Frame (negativeFloatNumberToAsgType fmt) := by
  unfold negativeFloatNumberToAsgType; frame
macro_rules | `(tactic| frame_lemma) => `(tactic| with_reducible exact negativeFloatNumberToAsgType_frame _)

theorem negativeIntToAsgType_frame (text : String) : Frame (negativeIntToAsgType text) := by
  unfold negativeIntToAsgType; frame
macro_rules | `(tactic| frame_lemma) => `(tactic| with_reducible exact negativeIntToAsgType_frame _)

theorem literalToAsgTexpr_frame (l : Ast.Literal) : Frame (literalToAsgTexpr l) := by
  unfold literalToAsgTexpr; frame
macro_rules | `(tactic| frame_lemma) => `(tactic| with_reducible exact literalToAsgTexpr_frame _)

theorem lookupIdentifier_frame (i : Ast.Identifier) : Frame (lookupIdentifier i) := by
  unfold lookupIdentifier; frame
macro_rules | `(tactic| frame_lemma) => `(tactic| with_reducible exact lookupIdentifier_frame _)

theorem designatorToAsg_frame (d : Option Ast.Designator) : Frame (designatorToAsg d) := by
  unfold designatorToAsg; frame
macro_rules | `(tactic| frame_lemma) => `(tactic| with_reducible exact designatorToAsg_frame _)

theorem scalarTypeToType_frame (st : Ast.ScalarType) (b : Bool) : Frame (scalarTypeToType st b) := by
  unfold scalarTypeToType; frame
macro_rules | `(tactic| frame_lemma) => `(tactic| with_reducible exact scalarTypeToType_frame _ _)

theorem paramTypeToType_frame (pt : Ast.ParamType) (b : Bool) : Frame (paramTypeToType pt b) := by
  unfold paramTypeToType; frame
macro_rules | `(tactic| frame_lemma) => `(tactic| with_reducible exact paramTypeToType_frame _ _)

theorem declareClassicalHelper_frame (id : SymbolIdResult) (i : Option TExpr) : Frame (declareClassicalHelper id i) := by
  unfold declareClassicalHelper; frame
macro_rules | `(tactic| frame_lemma) => `(tactic| with_reducible exact declareClassicalHelper_frame _ _)

theorem ioDeclarationStatementToAsgStmt_frame (a : Bool) (st : Option Ast.ScalarType) (n : Option Ast.Name) (i : Bool) : Frame (ioDeclarationStatementToAsgStmt a st n i) := by
  unfold ioDeclarationStatementToAsgStmt; frame
macro_rules | `(tactic| frame_lemma) => `(tactic| with_reducible exact ioDeclarationStatementToAsgStmt_frame _ _ _ _)

theorem bindParams_frame (t : T) (ps : List Ast.Param) : Frame (bindParams t ps) := by
  induction ps with
  | nil => unfold bindParams; frame
  | cons p ps ih => unfold bindParams; frame
macro_rules | `(tactic| frame_lemma) => `(tactic| with_reducible exact bindParams_frame _ _)

theorem bindParameterList_frame (l : Option Ast.ParamList) (t : T) : Frame (bindParameterList l t) := by
  unfold bindParameterList; frame
macro_rules | `(tactic| frame_lemma) => `(tactic| with_reducible exact bindParameterList_frame _ _)

theorem bindTypedParams_frame (ps : List Ast.TypedParam) : Frame (bindTypedParams ps) := by
  induction ps with
  | nil => unfold bindTypedParams; frame
  | cons p ps ih => unfold bindTypedParams; frame
macro_rules | `(tactic| frame_lemma) => `(tactic| with_reducible exact bindTypedParams_frame _)

theorem bindTypedParameterList_frame (l : Option Ast.TypedParamList) : Frame (bindTypedParameterList l) := by
  unfold bindTypedParameterList; frame
macro_rules | `(tactic| frame_lemma) => `(tactic| with_reducible exact bindTypedParameterList_frame _)

theorem notGlobalCheck_frame (sp : Ast.Span) : Frame (notGlobalCheck sp) := by
  unfold notGlobalCheck; frame
macro_rules | `(tactic| frame_lemma) => `(tactic| with_reducible exact notGlobalCheck_frame _)

theorem gateNotGlobalCheck_frame (n : Option Ast.Name) : Frame (gateNotGlobalCheck n) := by
  unfold gateNotGlobalCheck; frame
macro_rules | `(tactic| frame_lemma) => `(tactic| with_reducible exact gateNotGlobalCheck_frame _)

theorem returnGlobalCheck_frame (sp : Ast.Span) : Frame (returnGlobalCheck sp) := by
  unfold returnGlobalCheck; frame
macro_rules | `(tactic| frame_lemma) => `(tactic| with_reducible exact returnGlobalCheck_frame _)

theorem delayDurationCheck_frame (d : TExpr) (sp : Ast.Span) : Frame (delayDurationCheck d sp) := by
  unfold delayDurationCheck; frame
macro_rules | `(tactic| frame_lemma) => `(tactic| with_reducible exact delayDurationCheck_frame _ _)

theorem quantumBinopCheck_frame (l r : TExpr) (lhs rhs : Option Ast.Expr) : Frame (quantumBinopCheck l r lhs rhs) := by
  unfold quantumBinopCheck; frame
macro_rules | `(tactic| frame_lemma) => `(tactic| with_reducible exact quantumBinopCheck_frame _ _ _ _)

theorem gateOperandIdentCheck_frame (t : T) (sp : Ast.Span) : Frame (gateOperandIdentCheck t sp) := by
  unfold gateOperandIdentCheck; frame
macro_rules | `(tactic| frame_lemma) => `(tactic| with_reducible exact gateOperandIdentCheck_frame _ _)

theorem gateOperandIndexedCheck_frame (t : T) (sp : Ast.Span) : Frame (gateOperandIndexedCheck t sp) := by
  unfold gateOperandIndexedCheck; frame
macro_rules | `(tactic| frame_lemma) => `(tactic| with_reducible exact gateOperandIndexedCheck_frame _ _)

theorem gateCallCheck_frame (sp : Ast.Span) (ql : Option Ast.QubitList) (al : Option Ast.ArgList) (g : Ast.Identifier) (r : SymbolIdResult) (t : T) (np nq : Nat) : Frame (gateCallCheck sp ql al g r t np nq) := by
  unfold gateCallCheck; frame
macro_rules | `(tactic| frame_lemma) => `(tactic| with_reducible exact gateCallCheck_frame _ _ _ _ _ _ _ _)

theorem defArityCheck_frame (e n : Nat) (al : Option Ast.ArgList) : Frame (defArityCheck e n al) := by
  unfold defArityCheck; frame
macro_rules | `(tactic| frame_lemma) => `(tactic| with_reducible exact defArityCheck_frame _ _ _)

theorem mutateConstCheck_frame (ok : Bool) (t : T) (sp : Ast.Span) : Frame (mutateConstCheck ok t sp) := by
  unfold mutateConstCheck; frame
macro_rules | `(tactic| frame_lemma) => `(tactic| with_reducible exact mutateConstCheck_frame _ _ _)

/-- all functions of the mutual block at one fuel level -/
structure AllFrame (fuel : Nat) : Prop where
  stmtToAsgStmt : ∀ (s : Ast.Stmt), Frame (Oq3.Sema.stmtToAsgStmt fuel s)
  caseExprsLoop : ∀ (cs : List Ast.CaseExpr), Frame (Oq3.Sema.caseExprsLoop fuel cs)
  exprStmtToAsgStmt : ∀ (e : Option Ast.Expr), Frame (Oq3.Sema.exprStmtToAsgStmt fuel e)
  modifiersLoop : ∀ (ms : List Ast.Modifier), Frame (Oq3.Sema.modifiersLoop fuel ms)
  parenExprToAsgTexpr : ∀ (p : Ast.ParenExpr), Frame (Oq3.Sema.parenExprToAsgTexpr fuel p)
  exprToAsgTexpr : ∀ (e : Option Ast.Expr), Frame (Oq3.Sema.exprToAsgTexpr fuel e)
  setExpressionToAsgType : ∀ (s : Ast.SetExpression), Frame (Oq3.Sema.setExpressionToAsgType fuel s)
  rangeExpressionToAsgType : ∀ (r : Ast.RangeExpr), Frame (Oq3.Sema.rangeExpressionToAsgType fuel r)
  gateCallExprToAsgStmt : ∀ (g : Ast.GateCallExpr) (ms : List GateModifier), Frame (Oq3.Sema.gateCallExprToAsgStmt fuel g ms)
  callExprToAsgTexpr : ∀ (sp : Ast.Span) (al : Option Ast.ArgList) (i : Option Ast.Identifier), Frame (Oq3.Sema.callExprToAsgTexpr fuel sp al i)
  gateOperandToAsgTexpr : ∀ (g : Ast.GateOperand), Frame (Oq3.Sema.gateOperandToAsgTexpr fuel g)
  indexOperatorToAsgType : ∀ (i : Ast.IndexOperator), Frame (Oq3.Sema.indexOperatorToAsgType fuel i)
  expressionListToAsgType : ∀ (el : Ast.ExpressionList), Frame (Oq3.Sema.expressionListToAsgType fuel el)
  qubitListToAsgTexpr : ∀ (ql : Option Ast.QubitList), Frame (Oq3.Sema.qubitListToAsgTexpr fuel ql)
  gateOperandsLoop : ∀ (gs : List Ast.GateOperand), Frame (Oq3.Sema.gateOperandsLoop fuel gs)
  expressionListToAsgTexpr : ∀ (el : Ast.ExpressionList), Frame (Oq3.Sema.expressionListToAsgTexpr fuel el)
  exprsLoop : ∀ (es : List Ast.Expr), Frame (Oq3.Sema.exprsLoop fuel es)
  blockExprToAsgStmtList : ∀ (b : Ast.BlockExpr), Frame (Oq3.Sema.blockExprToAsgStmtList fuel b)
  stmtsLoop : ∀ (ss : List Ast.Stmt), Frame (Oq3.Sema.stmtsLoop fuel ss)
  blockExprToAsgType : ∀ (b : Ast.BlockExpr), Frame (Oq3.Sema.blockExprToAsgType fuel b)
  blockOrStmtToAsgType : ∀ (b : Ast.BlockOrStmt), Frame (Oq3.Sema.blockOrStmtToAsgType fuel b)
  classicalDeclarationStatementToAsgStmt : ∀ (sp : Ast.Span) (a : Bool) (st : Option Ast.ScalarType) (k : Bool) (n : Option Ast.Name) (e : Option Ast.Expr), Frame (Oq3.Sema.classicalDeclarationStatementToAsgStmt fuel sp a st k n e)
  assignmentStmtToAsgStmt : ∀ (sp : Ast.Span) (i : Option Ast.Identifier) (rhs : Option Ast.Expr) (ii : Option Ast.IndexedIdentifier), Frame (Oq3.Sema.assignmentStmtToAsgStmt fuel sp i rhs ii)
  indexedIdentifierToAsgType : ∀ (ii : Ast.IndexedIdentifier), Frame (Oq3.Sema.indexedIdentifierToAsgType fuel ii)
  indexOperatorsLoop : ∀ (ixs : List Ast.IndexOperator), Frame (Oq3.Sema.indexOperatorsLoop fuel ixs)

set_option hygiene false in
macro_rules | `(tactic| frame_ih) => `(tactic| first
  | with_reducible exact h_stmtToAsgStmt _
  | with_reducible exact h_caseExprsLoop _
  | with_reducible exact h_exprStmtToAsgStmt _
  | with_reducible exact h_modifiersLoop _
  | with_reducible exact h_parenExprToAsgTexpr _
  | with_reducible exact h_exprToAsgTexpr _
  | with_reducible exact h_setExpressionToAsgType _
  | with_reducible exact h_rangeExpressionToAsgType _
  | with_reducible exact h_gateCallExprToAsgStmt _ _
  | with_reducible exact h_callExprToAsgTexpr _ _ _
  | with_reducible exact h_gateOperandToAsgTexpr _
  | with_reducible exact h_indexOperatorToAsgType _
  | with_reducible exact h_expressionListToAsgType _
  | with_reducible exact h_qubitListToAsgTexpr _
  | with_reducible exact h_gateOperandsLoop _
  | with_reducible exact h_expressionListToAsgTexpr _
  | with_reducible exact h_exprsLoop _
  | with_reducible exact h_blockExprToAsgStmtList _
  | with_reducible exact h_stmtsLoop _
  | with_reducible exact h_blockExprToAsgType _
  | with_reducible exact h_blockOrStmtToAsgType _
  | with_reducible exact h_classicalDeclarationStatementToAsgStmt _ _ _ _ _ _
  | with_reducible exact h_assignmentStmtToAsgStmt _ _ _ _
  | with_reducible exact h_indexedIdentifierToAsgType _
  | with_reducible exact h_indexOperatorsLoop _)

set_option maxHeartbeats 1600000 in
theorem stmtToAsgStmt_frame_step (fuel : Nat) (ih : AllFrame fuel) (s : Ast.Stmt) :
    Frame (Oq3.Sema.stmtToAsgStmt (fuel + 1) s) := by
  obtain ⟨h_stmtToAsgStmt, h_caseExprsLoop, h_exprStmtToAsgStmt, h_modifiersLoop, h_parenExprToAsgTexpr, h_exprToAsgTexpr, h_setExpressionToAsgType, h_rangeExpressionToAsgType, h_gateCallExprToAsgStmt, h_callExprToAsgTexpr, h_gateOperandToAsgTexpr, h_indexOperatorToAsgType, h_expressionListToAsgType, h_qubitListToAsgTexpr, h_gateOperandsLoop, h_expressionListToAsgTexpr, h_exprsLoop, h_blockExprToAsgStmtList, h_stmtsLoop, h_blockExprToAsgType, h_blockOrStmtToAsgType, h_classicalDeclarationStatementToAsgStmt, h_assignmentStmtToAsgStmt, h_indexedIdentifierToAsgType, h_indexOperatorsLoop⟩ := ih
  unfold Oq3.Sema.stmtToAsgStmt; frame

set_option maxHeartbeats 1600000 in
theorem caseExprsLoop_frame_step (fuel : Nat) (ih : AllFrame fuel) (cs : List Ast.CaseExpr) :
    Frame (Oq3.Sema.caseExprsLoop (fuel + 1) cs) := by
  obtain ⟨h_stmtToAsgStmt, h_caseExprsLoop, h_exprStmtToAsgStmt, h_modifiersLoop, h_parenExprToAsgTexpr, h_exprToAsgTexpr, h_setExpressionToAsgType, h_rangeExpressionToAsgType, h_gateCallExprToAsgStmt, h_callExprToAsgTexpr, h_gateOperandToAsgTexpr, h_indexOperatorToAsgType, h_expressionListToAsgType, h_qubitListToAsgTexpr, h_gateOperandsLoop, h_expressionListToAsgTexpr, h_exprsLoop, h_blockExprToAsgStmtList, h_stmtsLoop, h_blockExprToAsgType, h_blockOrStmtToAsgType, h_classicalDeclarationStatementToAsgStmt, h_assignmentStmtToAsgStmt, h_indexedIdentifierToAsgType, h_indexOperatorsLoop⟩ := ih
  unfold Oq3.Sema.caseExprsLoop; frame

set_option maxHeartbeats 1600000 in
theorem exprStmtToAsgStmt_frame_step (fuel : Nat) (ih : AllFrame fuel) (e : Option Ast.Expr) :
    Frame (Oq3.Sema.exprStmtToAsgStmt (fuel + 1) e) := by
  obtain ⟨h_stmtToAsgStmt, h_caseExprsLoop, h_exprStmtToAsgStmt, h_modifiersLoop, h_parenExprToAsgTexpr, h_exprToAsgTexpr, h_setExpressionToAsgType, h_rangeExpressionToAsgType, h_gateCallExprToAsgStmt, h_callExprToAsgTexpr, h_gateOperandToAsgTexpr, h_indexOperatorToAsgType, h_expressionListToAsgType, h_qubitListToAsgTexpr, h_gateOperandsLoop, h_expressionListToAsgTexpr, h_exprsLoop, h_blockExprToAsgStmtList, h_stmtsLoop, h_blockExprToAsgType, h_blockOrStmtToAsgType, h_classicalDeclarationStatementToAsgStmt, h_assignmentStmtToAsgStmt, h_indexedIdentifierToAsgType, h_indexOperatorsLoop⟩ := ih
  unfold Oq3.Sema.exprStmtToAsgStmt; frame

set_option maxHeartbeats 1600000 in
theorem modifiersLoop_frame_step (fuel : Nat) (ih : AllFrame fuel) (ms : List Ast.Modifier) :
    Frame (Oq3.Sema.modifiersLoop (fuel + 1) ms) := by
  obtain ⟨h_stmtToAsgStmt, h_caseExprsLoop, h_exprStmtToAsgStmt, h_modifiersLoop, h_parenExprToAsgTexpr, h_exprToAsgTexpr, h_setExpressionToAsgType, h_rangeExpressionToAsgType, h_gateCallExprToAsgStmt, h_callExprToAsgTexpr, h_gateOperandToAsgTexpr, h_indexOperatorToAsgType, h_expressionListToAsgType, h_qubitListToAsgTexpr, h_gateOperandsLoop, h_expressionListToAsgTexpr, h_exprsLoop, h_blockExprToAsgStmtList, h_stmtsLoop, h_blockExprToAsgType, h_blockOrStmtToAsgType, h_classicalDeclarationStatementToAsgStmt, h_assignmentStmtToAsgStmt, h_indexedIdentifierToAsgType, h_indexOperatorsLoop⟩ := ih
  unfold Oq3.Sema.modifiersLoop; frame

set_option maxHeartbeats 1600000 in
theorem parenExprToAsgTexpr_frame_step (fuel : Nat) (ih : AllFrame fuel) (p : Ast.ParenExpr) :
    Frame (Oq3.Sema.parenExprToAsgTexpr (fuel + 1) p) := by
  obtain ⟨h_stmtToAsgStmt, h_caseExprsLoop, h_exprStmtToAsgStmt, h_modifiersLoop, h_parenExprToAsgTexpr, h_exprToAsgTexpr, h_setExpressionToAsgType, h_rangeExpressionToAsgType, h_gateCallExprToAsgStmt, h_callExprToAsgTexpr, h_gateOperandToAsgTexpr, h_indexOperatorToAsgType, h_expressionListToAsgType, h_qubitListToAsgTexpr, h_gateOperandsLoop, h_expressionListToAsgTexpr, h_exprsLoop, h_blockExprToAsgStmtList, h_stmtsLoop, h_blockExprToAsgType, h_blockOrStmtToAsgType, h_classicalDeclarationStatementToAsgStmt, h_assignmentStmtToAsgStmt, h_indexedIdentifierToAsgType, h_indexOperatorsLoop⟩ := ih
  unfold Oq3.Sema.parenExprToAsgTexpr; frame

set_option maxHeartbeats 1600000 in
theorem exprToAsgTexpr_frame_step (fuel : Nat) (ih : AllFrame fuel) (e : Option Ast.Expr) :
    Frame (Oq3.Sema.exprToAsgTexpr (fuel + 1) e) := by
  obtain ⟨h_stmtToAsgStmt, h_caseExprsLoop, h_exprStmtToAsgStmt, h_modifiersLoop, h_parenExprToAsgTexpr, h_exprToAsgTexpr, h_setExpressionToAsgType, h_rangeExpressionToAsgType, h_gateCallExprToAsgStmt, h_callExprToAsgTexpr, h_gateOperandToAsgTexpr, h_indexOperatorToAsgType, h_expressionListToAsgType, h_qubitListToAsgTexpr, h_gateOperandsLoop, h_expressionListToAsgTexpr, h_exprsLoop, h_blockExprToAsgStmtList, h_stmtsLoop, h_blockExprToAsgType, h_blockOrStmtToAsgType, h_classicalDeclarationStatementToAsgStmt, h_assignmentStmtToAsgStmt, h_indexedIdentifierToAsgType, h_indexOperatorsLoop⟩ := ih
  unfold Oq3.Sema.exprToAsgTexpr; frame

set_option maxHeartbeats 1600000 in
theorem setExpressionToAsgType_frame_step (fuel : Nat) (ih : AllFrame fuel) (s : Ast.SetExpression) :
    Frame (Oq3.Sema.setExpressionToAsgType (fuel + 1) s) := by
  obtain ⟨h_stmtToAsgStmt, h_caseExprsLoop, h_exprStmtToAsgStmt, h_modifiersLoop, h_parenExprToAsgTexpr, h_exprToAsgTexpr, h_setExpressionToAsgType, h_rangeExpressionToAsgType, h_gateCallExprToAsgStmt, h_callExprToAsgTexpr, h_gateOperandToAsgTexpr, h_indexOperatorToAsgType, h_expressionListToAsgType, h_qubitListToAsgTexpr, h_gateOperandsLoop, h_expressionListToAsgTexpr, h_exprsLoop, h_blockExprToAsgStmtList, h_stmtsLoop, h_blockExprToAsgType, h_blockOrStmtToAsgType, h_classicalDeclarationStatementToAsgStmt, h_assignmentStmtToAsgStmt, h_indexedIdentifierToAsgType, h_indexOperatorsLoop⟩ := ih
  unfold Oq3.Sema.setExpressionToAsgType; frame

set_option maxHeartbeats 1600000 in
theorem rangeExpressionToAsgType_frame_step (fuel : Nat) (ih : AllFrame fuel) (r : Ast.RangeExpr) :
    Frame (Oq3.Sema.rangeExpressionToAsgType (fuel + 1) r) := by
  obtain ⟨h_stmtToAsgStmt, h_caseExprsLoop, h_exprStmtToAsgStmt, h_modifiersLoop, h_parenExprToAsgTexpr, h_exprToAsgTexpr, h_setExpressionToAsgType, h_rangeExpressionToAsgType, h_gateCallExprToAsgStmt, h_callExprToAsgTexpr, h_gateOperandToAsgTexpr, h_indexOperatorToAsgType, h_expressionListToAsgType, h_qubitListToAsgTexpr, h_gateOperandsLoop, h_expressionListToAsgTexpr, h_exprsLoop, h_blockExprToAsgStmtList, h_stmtsLoop, h_blockExprToAsgType, h_blockOrStmtToAsgType, h_classicalDeclarationStatementToAsgStmt, h_assignmentStmtToAsgStmt, h_indexedIdentifierToAsgType, h_indexOperatorsLoop⟩ := ih
  unfold Oq3.Sema.rangeExpressionToAsgType; frame

set_option maxHeartbeats 1600000 in
theorem gateCallExprToAsgStmt_frame_step (fuel : Nat) (ih : AllFrame fuel) (g : Ast.GateCallExpr) (ms : List GateModifier) :
    Frame (Oq3.Sema.gateCallExprToAsgStmt (fuel + 1) g ms) := by
  obtain ⟨h_stmtToAsgStmt, h_caseExprsLoop, h_exprStmtToAsgStmt, h_modifiersLoop, h_parenExprToAsgTexpr, h_exprToAsgTexpr, h_setExpressionToAsgType, h_rangeExpressionToAsgType, h_gateCallExprToAsgStmt, h_callExprToAsgTexpr, h_gateOperandToAsgTexpr, h_indexOperatorToAsgType, h_expressionListToAsgType, h_qubitListToAsgTexpr, h_gateOperandsLoop, h_expressionListToAsgTexpr, h_exprsLoop, h_blockExprToAsgStmtList, h_stmtsLoop, h_blockExprToAsgType, h_blockOrStmtToAsgType, h_classicalDeclarationStatementToAsgStmt, h_assignmentStmtToAsgStmt, h_indexedIdentifierToAsgType, h_indexOperatorsLoop⟩ := ih
  unfold Oq3.Sema.gateCallExprToAsgStmt; frame

set_option maxHeartbeats 1600000 in
theorem callExprToAsgTexpr_frame_step (fuel : Nat) (ih : AllFrame fuel) (sp : Ast.Span) (al : Option Ast.ArgList) (i : Option Ast.Identifier) :
    Frame (Oq3.Sema.callExprToAsgTexpr (fuel + 1) sp al i) := by
  obtain ⟨h_stmtToAsgStmt, h_caseExprsLoop, h_exprStmtToAsgStmt, h_modifiersLoop, h_parenExprToAsgTexpr, h_exprToAsgTexpr, h_setExpressionToAsgType, h_rangeExpressionToAsgType, h_gateCallExprToAsgStmt, h_callExprToAsgTexpr, h_gateOperandToAsgTexpr, h_indexOperatorToAsgType, h_expressionListToAsgType, h_qubitListToAsgTexpr, h_gateOperandsLoop, h_expressionListToAsgTexpr, h_exprsLoop, h_blockExprToAsgStmtList, h_stmtsLoop, h_blockExprToAsgType, h_blockOrStmtToAsgType, h_classicalDeclarationStatementToAsgStmt, h_assignmentStmtToAsgStmt, h_indexedIdentifierToAsgType, h_indexOperatorsLoop⟩ := ih
  unfold Oq3.Sema.callExprToAsgTexpr; frame

set_option maxHeartbeats 1600000 in
theorem gateOperandToAsgTexpr_frame_step (fuel : Nat) (ih : AllFrame fuel) (g : Ast.GateOperand) :
    Frame (Oq3.Sema.gateOperandToAsgTexpr (fuel + 1) g) := by
  obtain ⟨h_stmtToAsgStmt, h_caseExprsLoop, h_exprStmtToAsgStmt, h_modifiersLoop, h_parenExprToAsgTexpr, h_exprToAsgTexpr, h_setExpressionToAsgType, h_rangeExpressionToAsgType, h_gateCallExprToAsgStmt, h_callExprToAsgTexpr, h_gateOperandToAsgTexpr, h_indexOperatorToAsgType, h_expressionListToAsgType, h_qubitListToAsgTexpr, h_gateOperandsLoop, h_expressionListToAsgTexpr, h_exprsLoop, h_blockExprToAsgStmtList, h_stmtsLoop, h_blockExprToAsgType, h_blockOrStmtToAsgType, h_classicalDeclarationStatementToAsgStmt, h_assignmentStmtToAsgStmt, h_indexedIdentifierToAsgType, h_indexOperatorsLoop⟩ := ih
  unfold Oq3.Sema.gateOperandToAsgTexpr; frame

set_option maxHeartbeats 1600000 in
theorem indexOperatorToAsgType_frame_step (fuel : Nat) (ih : AllFrame fuel) (i : Ast.IndexOperator) :
    Frame (Oq3.Sema.indexOperatorToAsgType (fuel + 1) i) := by
  obtain ⟨h_stmtToAsgStmt, h_caseExprsLoop, h_exprStmtToAsgStmt, h_modifiersLoop, h_parenExprToAsgTexpr, h_exprToAsgTexpr, h_setExpressionToAsgType, h_rangeExpressionToAsgType, h_gateCallExprToAsgStmt, h_callExprToAsgTexpr, h_gateOperandToAsgTexpr, h_indexOperatorToAsgType, h_expressionListToAsgType, h_qubitListToAsgTexpr, h_gateOperandsLoop, h_expressionListToAsgTexpr, h_exprsLoop, h_blockExprToAsgStmtList, h_stmtsLoop, h_blockExprToAsgType, h_blockOrStmtToAsgType, h_classicalDeclarationStatementToAsgStmt, h_assignmentStmtToAsgStmt, h_indexedIdentifierToAsgType, h_indexOperatorsLoop⟩ := ih
  unfold Oq3.Sema.indexOperatorToAsgType; frame

set_option maxHeartbeats 1600000 in
theorem expressionListToAsgType_frame_step (fuel : Nat) (ih : AllFrame fuel) (el : Ast.ExpressionList) :
    Frame (Oq3.Sema.expressionListToAsgType (fuel + 1) el) := by
  obtain ⟨h_stmtToAsgStmt, h_caseExprsLoop, h_exprStmtToAsgStmt, h_modifiersLoop, h_parenExprToAsgTexpr, h_exprToAsgTexpr, h_setExpressionToAsgType, h_rangeExpressionToAsgType, h_gateCallExprToAsgStmt, h_callExprToAsgTexpr, h_gateOperandToAsgTexpr, h_indexOperatorToAsgType, h_expressionListToAsgType, h_qubitListToAsgTexpr, h_gateOperandsLoop, h_expressionListToAsgTexpr, h_exprsLoop, h_blockExprToAsgStmtList, h_stmtsLoop, h_blockExprToAsgType, h_blockOrStmtToAsgType, h_classicalDeclarationStatementToAsgStmt, h_assignmentStmtToAsgStmt, h_indexedIdentifierToAsgType, h_indexOperatorsLoop⟩ := ih
  unfold Oq3.Sema.expressionListToAsgType; frame

set_option maxHeartbeats 1600000 in
theorem qubitListToAsgTexpr_frame_step (fuel : Nat) (ih : AllFrame fuel) (ql : Option Ast.QubitList) :
    Frame (Oq3.Sema.qubitListToAsgTexpr (fuel + 1) ql) := by
  obtain ⟨h_stmtToAsgStmt, h_caseExprsLoop, h_exprStmtToAsgStmt, h_modifiersLoop, h_parenExprToAsgTexpr, h_exprToAsgTexpr, h_setExpressionToAsgType, h_rangeExpressionToAsgType, h_gateCallExprToAsgStmt, h_callExprToAsgTexpr, h_gateOperandToAsgTexpr, h_indexOperatorToAsgType, h_expressionListToAsgType, h_qubitListToAsgTexpr, h_gateOperandsLoop, h_expressionListToAsgTexpr, h_exprsLoop, h_blockExprToAsgStmtList, h_stmtsLoop, h_blockExprToAsgType, h_blockOrStmtToAsgType, h_classicalDeclarationStatementToAsgStmt, h_assignmentStmtToAsgStmt, h_indexedIdentifierToAsgType, h_indexOperatorsLoop⟩ := ih
  unfold Oq3.Sema.qubitListToAsgTexpr; frame

set_option maxHeartbeats 1600000 in
theorem gateOperandsLoop_frame_step (fuel : Nat) (ih : AllFrame fuel) (gs : List Ast.GateOperand) :
    Frame (Oq3.Sema.gateOperandsLoop (fuel + 1) gs) := by
  obtain ⟨h_stmtToAsgStmt, h_caseExprsLoop, h_exprStmtToAsgStmt, h_modifiersLoop, h_parenExprToAsgTexpr, h_exprToAsgTexpr, h_setExpressionToAsgType, h_rangeExpressionToAsgType, h_gateCallExprToAsgStmt, h_callExprToAsgTexpr, h_gateOperandToAsgTexpr, h_indexOperatorToAsgType, h_expressionListToAsgType, h_qubitListToAsgTexpr, h_gateOperandsLoop, h_expressionListToAsgTexpr, h_exprsLoop, h_blockExprToAsgStmtList, h_stmtsLoop, h_blockExprToAsgType, h_blockOrStmtToAsgType, h_classicalDeclarationStatementToAsgStmt, h_assignmentStmtToAsgStmt, h_indexedIdentifierToAsgType, h_indexOperatorsLoop⟩ := ih
  unfold Oq3.Sema.gateOperandsLoop; frame

set_option maxHeartbeats 1600000 in
theorem expressionListToAsgTexpr_frame_step (fuel : Nat) (ih : AllFrame fuel) (el : Ast.ExpressionList) :
    Frame (Oq3.Sema.expressionListToAsgTexpr (fuel + 1) el) := by
  obtain ⟨h_stmtToAsgStmt, h_caseExprsLoop, h_exprStmtToAsgStmt, h_modifiersLoop, h_parenExprToAsgTexpr, h_exprToAsgTexpr, h_setExpressionToAsgType, h_rangeExpressionToAsgType, h_gateCallExprToAsgStmt, h_callExprToAsgTexpr, h_gateOperandToAsgTexpr, h_indexOperatorToAsgType, h_expressionListToAsgType, h_qubitListToAsgTexpr, h_gateOperandsLoop, h_expressionListToAsgTexpr, h_exprsLoop, h_blockExprToAsgStmtList, h_stmtsLoop, h_blockExprToAsgType, h_blockOrStmtToAsgType, h_classicalDeclarationStatementToAsgStmt, h_assignmentStmtToAsgStmt, h_indexedIdentifierToAsgType, h_indexOperatorsLoop⟩ := ih
  unfold Oq3.Sema.expressionListToAsgTexpr; frame

set_option maxHeartbeats 1600000 in
theorem exprsLoop_frame_step (fuel : Nat) (ih : AllFrame fuel) (es : List Ast.Expr) :
    Frame (Oq3.Sema.exprsLoop (fuel + 1) es) := by
  obtain ⟨h_stmtToAsgStmt, h_caseExprsLoop, h_exprStmtToAsgStmt, h_modifiersLoop, h_parenExprToAsgTexpr, h_exprToAsgTexpr, h_setExpressionToAsgType, h_rangeExpressionToAsgType, h_gateCallExprToAsgStmt, h_callExprToAsgTexpr, h_gateOperandToAsgTexpr, h_indexOperatorToAsgType, h_expressionListToAsgType, h_qubitListToAsgTexpr, h_gateOperandsLoop, h_expressionListToAsgTexpr, h_exprsLoop, h_blockExprToAsgStmtList, h_stmtsLoop, h_blockExprToAsgType, h_blockOrStmtToAsgType, h_classicalDeclarationStatementToAsgStmt, h_assignmentStmtToAsgStmt, h_indexedIdentifierToAsgType, h_indexOperatorsLoop⟩ := ih
  unfold Oq3.Sema.exprsLoop; frame

set_option maxHeartbeats 1600000 in
theorem blockExprToAsgStmtList_frame_step (fuel : Nat) (ih : AllFrame fuel) (b : Ast.BlockExpr) :
    Frame (Oq3.Sema.blockExprToAsgStmtList (fuel + 1) b) := by
  obtain ⟨h_stmtToAsgStmt, h_caseExprsLoop, h_exprStmtToAsgStmt, h_modifiersLoop, h_parenExprToAsgTexpr, h_exprToAsgTexpr, h_setExpressionToAsgType, h_rangeExpressionToAsgType, h_gateCallExprToAsgStmt, h_callExprToAsgTexpr, h_gateOperandToAsgTexpr, h_indexOperatorToAsgType, h_expressionListToAsgType, h_qubitListToAsgTexpr, h_gateOperandsLoop, h_expressionListToAsgTexpr, h_exprsLoop, h_blockExprToAsgStmtList, h_stmtsLoop, h_blockExprToAsgType, h_blockOrStmtToAsgType, h_classicalDeclarationStatementToAsgStmt, h_assignmentStmtToAsgStmt, h_indexedIdentifierToAsgType, h_indexOperatorsLoop⟩ := ih
  unfold Oq3.Sema.blockExprToAsgStmtList; frame

set_option maxHeartbeats 1600000 in
theorem stmtsLoop_frame_step (fuel : Nat) (ih : AllFrame fuel) (ss : List Ast.Stmt) :
    Frame (Oq3.Sema.stmtsLoop (fuel + 1) ss) := by
  obtain ⟨h_stmtToAsgStmt, h_caseExprsLoop, h_exprStmtToAsgStmt, h_modifiersLoop, h_parenExprToAsgTexpr, h_exprToAsgTexpr, h_setExpressionToAsgType, h_rangeExpressionToAsgType, h_gateCallExprToAsgStmt, h_callExprToAsgTexpr, h_gateOperandToAsgTexpr, h_indexOperatorToAsgType, h_expressionListToAsgType, h_qubitListToAsgTexpr, h_gateOperandsLoop, h_expressionListToAsgTexpr, h_exprsLoop, h_blockExprToAsgStmtList, h_stmtsLoop, h_blockExprToAsgType, h_blockOrStmtToAsgType, h_classicalDeclarationStatementToAsgStmt, h_assignmentStmtToAsgStmt, h_indexedIdentifierToAsgType, h_indexOperatorsLoop⟩ := ih
  unfold Oq3.Sema.stmtsLoop; frame

set_option maxHeartbeats 1600000 in
theorem blockExprToAsgType_frame_step (fuel : Nat) (ih : AllFrame fuel) (b : Ast.BlockExpr) :
    Frame (Oq3.Sema.blockExprToAsgType (fuel + 1) b) := by
  obtain ⟨h_stmtToAsgStmt, h_caseExprsLoop, h_exprStmtToAsgStmt, h_modifiersLoop, h_parenExprToAsgTexpr, h_exprToAsgTexpr, h_setExpressionToAsgType, h_rangeExpressionToAsgType, h_gateCallExprToAsgStmt, h_callExprToAsgTexpr, h_gateOperandToAsgTexpr, h_indexOperatorToAsgType, h_expressionListToAsgType, h_qubitListToAsgTexpr, h_gateOperandsLoop, h_expressionListToAsgTexpr, h_exprsLoop, h_blockExprToAsgStmtList, h_stmtsLoop, h_blockExprToAsgType, h_blockOrStmtToAsgType, h_classicalDeclarationStatementToAsgStmt, h_assignmentStmtToAsgStmt, h_indexedIdentifierToAsgType, h_indexOperatorsLoop⟩ := ih
  unfold Oq3.Sema.blockExprToAsgType; frame

set_option maxHeartbeats 1600000 in
theorem blockOrStmtToAsgType_frame_step (fuel : Nat) (ih : AllFrame fuel) (b : Ast.BlockOrStmt) :
    Frame (Oq3.Sema.blockOrStmtToAsgType (fuel + 1) b) := by
  obtain ⟨h_stmtToAsgStmt, h_caseExprsLoop, h_exprStmtToAsgStmt, h_modifiersLoop, h_parenExprToAsgTexpr, h_exprToAsgTexpr, h_setExpressionToAsgType, h_rangeExpressionToAsgType, h_gateCallExprToAsgStmt, h_callExprToAsgTexpr, h_gateOperandToAsgTexpr, h_indexOperatorToAsgType, h_expressionListToAsgType, h_qubitListToAsgTexpr, h_gateOperandsLoop, h_expressionListToAsgTexpr, h_exprsLoop, h_blockExprToAsgStmtList, h_stmtsLoop, h_blockExprToAsgType, h_blockOrStmtToAsgType, h_classicalDeclarationStatementToAsgStmt, h_assignmentStmtToAsgStmt, h_indexedIdentifierToAsgType, h_indexOperatorsLoop⟩ := ih
  unfold Oq3.Sema.blockOrStmtToAsgType; frame

set_option maxHeartbeats 1600000 in
theorem classicalDeclarationStatementToAsgStmt_frame_step (fuel : Nat) (ih : AllFrame fuel) (sp : Ast.Span) (a : Bool) (st : Option Ast.ScalarType) (k : Bool) (n : Option Ast.Name) (e : Option Ast.Expr) :
    Frame (Oq3.Sema.classicalDeclarationStatementToAsgStmt (fuel + 1) sp a st k n e) := by
  obtain ⟨h_stmtToAsgStmt, h_caseExprsLoop, h_exprStmtToAsgStmt, h_modifiersLoop, h_parenExprToAsgTexpr, h_exprToAsgTexpr, h_setExpressionToAsgType, h_rangeExpressionToAsgType, h_gateCallExprToAsgStmt, h_callExprToAsgTexpr, h_gateOperandToAsgTexpr, h_indexOperatorToAsgType, h_expressionListToAsgType, h_qubitListToAsgTexpr, h_gateOperandsLoop, h_expressionListToAsgTexpr, h_exprsLoop, h_blockExprToAsgStmtList, h_stmtsLoop, h_blockExprToAsgType, h_blockOrStmtToAsgType, h_classicalDeclarationStatementToAsgStmt, h_assignmentStmtToAsgStmt, h_indexedIdentifierToAsgType, h_indexOperatorsLoop⟩ := ih
  unfold Oq3.Sema.classicalDeclarationStatementToAsgStmt; frame

set_option maxHeartbeats 1600000 in
theorem assignmentStmtToAsgStmt_frame_step (fuel : Nat) (ih : AllFrame fuel) (sp : Ast.Span) (i : Option Ast.Identifier) (rhs : Option Ast.Expr) (ii : Option Ast.IndexedIdentifier) :
    Frame (Oq3.Sema.assignmentStmtToAsgStmt (fuel + 1) sp i rhs ii) := by
  obtain ⟨h_stmtToAsgStmt, h_caseExprsLoop, h_exprStmtToAsgStmt, h_modifiersLoop, h_parenExprToAsgTexpr, h_exprToAsgTexpr, h_setExpressionToAsgType, h_rangeExpressionToAsgType, h_gateCallExprToAsgStmt, h_callExprToAsgTexpr, h_gateOperandToAsgTexpr, h_indexOperatorToAsgType, h_expressionListToAsgType, h_qubitListToAsgTexpr, h_gateOperandsLoop, h_expressionListToAsgTexpr, h_exprsLoop, h_blockExprToAsgStmtList, h_stmtsLoop, h_blockExprToAsgType, h_blockOrStmtToAsgType, h_classicalDeclarationStatementToAsgStmt, h_assignmentStmtToAsgStmt, h_indexedIdentifierToAsgType, h_indexOperatorsLoop⟩ := ih
  unfold Oq3.Sema.assignmentStmtToAsgStmt; frame

set_option maxHeartbeats 1600000 in
theorem indexedIdentifierToAsgType_frame_step (fuel : Nat) (ih : AllFrame fuel) (ii : Ast.IndexedIdentifier) :
    Frame (Oq3.Sema.indexedIdentifierToAsgType (fuel + 1) ii) := by
  obtain ⟨h_stmtToAsgStmt, h_caseExprsLoop, h_exprStmtToAsgStmt, h_modifiersLoop, h_parenExprToAsgTexpr, h_exprToAsgTexpr, h_setExpressionToAsgType, h_rangeExpressionToAsgType, h_gateCallExprToAsgStmt, h_callExprToAsgTexpr, h_gateOperandToAsgTexpr, h_indexOperatorToAsgType, h_expressionListToAsgType, h_qubitListToAsgTexpr, h_gateOperandsLoop, h_expressionListToAsgTexpr, h_exprsLoop, h_blockExprToAsgStmtList, h_stmtsLoop, h_blockExprToAsgType, h_blockOrStmtToAsgType, h_classicalDeclarationStatementToAsgStmt, h_assignmentStmtToAsgStmt, h_indexedIdentifierToAsgType, h_indexOperatorsLoop⟩ := ih
  unfold Oq3.Sema.indexedIdentifierToAsgType; frame

set_option maxHeartbeats 1600000 in
theorem indexOperatorsLoop_frame_step (fuel : Nat) (ih : AllFrame fuel) (ixs : List Ast.IndexOperator) :
    Frame (Oq3.Sema.indexOperatorsLoop (fuel + 1) ixs) := by
  obtain ⟨h_stmtToAsgStmt, h_caseExprsLoop, h_exprStmtToAsgStmt, h_modifiersLoop, h_parenExprToAsgTexpr, h_exprToAsgTexpr, h_setExpressionToAsgType, h_rangeExpressionToAsgType, h_gateCallExprToAsgStmt, h_callExprToAsgTexpr, h_gateOperandToAsgTexpr, h_indexOperatorToAsgType, h_expressionListToAsgType, h_qubitListToAsgTexpr, h_gateOperandsLoop, h_expressionListToAsgTexpr, h_exprsLoop, h_blockExprToAsgStmtList, h_stmtsLoop, h_blockExprToAsgType, h_blockOrStmtToAsgType, h_classicalDeclarationStatementToAsgStmt, h_assignmentStmtToAsgStmt, h_indexedIdentifierToAsgType, h_indexOperatorsLoop⟩ := ih
  unfold Oq3.Sema.indexOperatorsLoop; frame

theorem allFrame (fuel : Nat) : AllFrame fuel := by
  induction fuel with
  | zero =>
    constructor
    · intros; unfold Oq3.Sema.stmtToAsgStmt; frame
    · intros; unfold Oq3.Sema.caseExprsLoop; frame
    · intros; unfold Oq3.Sema.exprStmtToAsgStmt; frame
    · intros; unfold Oq3.Sema.modifiersLoop; frame
    · intros; unfold Oq3.Sema.parenExprToAsgTexpr; frame
    · intros; unfold Oq3.Sema.exprToAsgTexpr; frame
    · intros; unfold Oq3.Sema.setExpressionToAsgType; frame
    · intros; unfold Oq3.Sema.rangeExpressionToAsgType; frame
    · intros; unfold Oq3.Sema.gateCallExprToAsgStmt; frame
    · intros; unfold Oq3.Sema.callExprToAsgTexpr; frame
    · intros; unfold Oq3.Sema.gateOperandToAsgTexpr; frame
    · intros; unfold Oq3.Sema.indexOperatorToAsgType; frame
    · intros; unfold Oq3.Sema.expressionListToAsgType; frame
    · intros; unfold Oq3.Sema.qubitListToAsgTexpr; frame
    · intros; unfold Oq3.Sema.gateOperandsLoop; frame
    · intros; unfold Oq3.Sema.expressionListToAsgTexpr; frame
    · intros; unfold Oq3.Sema.exprsLoop; frame
    · intros; unfold Oq3.Sema.blockExprToAsgStmtList; frame
    · intros; unfold Oq3.Sema.stmtsLoop; frame
    · intros; unfold Oq3.Sema.blockExprToAsgType; frame
    · intros; unfold Oq3.Sema.blockOrStmtToAsgType; frame
    · intros; unfold Oq3.Sema.classicalDeclarationStatementToAsgStmt; frame
    · intros; unfold Oq3.Sema.assignmentStmtToAsgStmt; frame
    · intros; unfold Oq3.Sema.indexedIdentifierToAsgType; frame
    · intros; unfold Oq3.Sema.indexOperatorsLoop; frame
  | succ fuel ih =>
    constructor
    · intros; exact stmtToAsgStmt_frame_step fuel ih _
    · intros; exact caseExprsLoop_frame_step fuel ih _
    · intros; exact exprStmtToAsgStmt_frame_step fuel ih _
    · intros; exact modifiersLoop_frame_step fuel ih _
    · intros; exact parenExprToAsgTexpr_frame_step fuel ih _
    · intros; exact exprToAsgTexpr_frame_step fuel ih _
    · intros; exact setExpressionToAsgType_frame_step fuel ih _
    · intros; exact rangeExpressionToAsgType_frame_step fuel ih _
    · intros; exact gateCallExprToAsgStmt_frame_step fuel ih _ _
    · intros; exact callExprToAsgTexpr_frame_step fuel ih _ _ _
    · intros; exact gateOperandToAsgTexpr_frame_step fuel ih _
    · intros; exact indexOperatorToAsgType_frame_step fuel ih _
    · intros; exact expressionListToAsgType_frame_step fuel ih _
    · intros; exact qubitListToAsgTexpr_frame_step fuel ih _
    · intros; exact gateOperandsLoop_frame_step fuel ih _
    · intros; exact expressionListToAsgTexpr_frame_step fuel ih _
    · intros; exact exprsLoop_frame_step fuel ih _
    · intros; exact blockExprToAsgStmtList_frame_step fuel ih _
    · intros; exact stmtsLoop_frame_step fuel ih _
    · intros; exact blockExprToAsgType_frame_step fuel ih _
    · intros; exact blockOrStmtToAsgType_frame_step fuel ih _
    · intros; exact classicalDeclarationStatementToAsgStmt_frame_step fuel ih _ _ _ _ _ _
    · intros; exact assignmentStmtToAsgStmt_frame_step fuel ih _ _ _ _
    · intros; exact indexedIdentifierToAsgType_frame_step fuel ih _
    · intros; exact indexOperatorsLoop_frame_step fuel ih _

/-! ### order -/

/-- the per-statement trace of a statement list: statement `i` is translated with fuel
`fuel - 1 - i` from the context its predecessor left; `os` are the per-statement results -/
inductive BlockRun : Nat → List Ast.Stmt → Ctx → List (Option Stmt) → Ctx → Prop
  | nil {fuel c} : BlockRun (fuel+1) [] c [] c
  | cons {fuel s rest c o c1 os c'} : stmtToAsgStmt fuel s c = .ok (o, c1) →
      BlockRun fuel rest c1 os c' → BlockRun (fuel+1) (s :: rest) c (o :: os) c'

theorem BlockRun.length {fuel ss c os c'} (h : BlockRun fuel ss c os c') : os.length = ss.length := by
  induction h with
  | nil => rfl
  | cons _ _ ih => simp [ih]

/-- **block order**: the statement list a block is translated to is exactly the list of the
translations of its statements, in order, with only the `None` translations dropped -/
theorem block_order_preserved {fuel ss c r c'} :
    stmtsLoop fuel ss c = .ok (r, c') ↔ ∃ os, BlockRun fuel ss c os c' ∧ r = os.filterMap id := by
  induction ss generalizing fuel c r c' with
  | nil =>
    cases fuel with
    | zero =>
      unfold stmtsLoop; simp only [throw_ok, false_iff]
      rintro ⟨os, h, _⟩; cases h
    | succ fuel =>
      unfold stmtsLoop; simp only [pure_ok]
      constructor
      · intro h; cases h; exact ⟨[], .nil, rfl⟩
      · rintro ⟨os, h, rfl⟩; cases h; rfl
  | cons s rest ih =>
    cases fuel with
    | zero =>
      unfold stmtsLoop; simp only [throw_ok, false_iff]
      rintro ⟨os, h, _⟩; cases h
    | succ fuel =>
      unfold stmtsLoop; simp only [bind_ok]
      constructor
      · rintro ⟨o, c1, h1, rs, c2, h2, h3⟩
        obtain ⟨os, hos, rfl⟩ := ih.mp h2
        cases o with
        | none => simp only [pure_ok] at h3; cases h3; exact ⟨none :: os, .cons h1 hos, rfl⟩
        | some t => simp only [pure_ok] at h3; cases h3; exact ⟨some t :: os, .cons h1 hos, rfl⟩
      · rintro ⟨os, h, rfl⟩
        cases h with
        | cons h1 hos =>
          rename_i o c1 os
          refine ⟨o, c1, h1, os.filterMap id, c', ih.mpr ⟨os, hos, rfl⟩, ?_⟩
          cases o <;> simp

theorem block_expr_is_its_statements (fuel : Nat) (sp : Ast.Span) (ss : List Ast.Stmt) :
    blockExprToAsgStmtList (fuel+1) (.mk sp ss) = stmtsLoop fuel ss := by
  unfold blockExprToAsgStmtList; rfl

/-- pragma text is carried verbatim; the statement does nothing else -/
theorem pragma_verbatim (fuel : Nat) (sp : Ast.Span) (text : String) (c : Ctx) :
    stmtToAsgStmt (fuel+1) (.pragmaStatement sp text) c = .ok (some (.pragma text), c) := by
  unfold stmtToAsgStmt; rfl

/-- an annotation statement only appends its text to the pending annotations -/
theorem annotation_pushes (fuel : Nat) (sp : Ast.Span) (text : String) (c : Ctx) :
    stmtToAsgStmt (fuel+1) (.annotationStatement sp text) c =
      .ok (none, { c with annotations := c.annotations ++ [text] }) := by
  unfold stmtToAsgStmt; rfl

/-- the translation the top-level loop applies to one statement: `include "stdgates.inc"` binds
the standard gates and yields nothing; every other statement goes through `stmt_to_asg_stmt` -/
def topStmtM (fuel : Nat) (s : Ast.Stmt) : M (Option Stmt) :=
  match s with
  | .includeStmt span file => do
    let file ← unwrap "syntax_to_semantic: include.file() is None" file
    let filePath ← unwrap "syntax_to_semantic: file.to_string() is None" file.toString?
    if filePath == "stdgates.inc" then
      standardLibraryGates span
    else
      throw Outcome.unsupportedInclude
    pure none
  | stmt => stmtToAsgStmt fuel stmt

/-- what the loop does with the result: a statement is appended to the program, wrapped with ALL
pending annotations (which are thereby consumed) if there are any -/
def attachM (o : Option Stmt) : M Unit :=
  match o with
  | some stmt => do
    if ← annotationsIsEmpty then insertStmt stmt
    else
      match stmt with
      | .annotatedStmt .. => fail "AnnotatedStmt::new: annotation of annotated statement is not allowed"
      | _ => do insertStmt (.annotatedStmt stmt (← takeAnnotations))
  | none => pure ()

theorem attachM_bind (o : Option Stmt) (L : M Unit) :
    (attachM o >>= fun _ => L) = (match o with
      | some stmt => do
        if ← annotationsIsEmpty then do insertStmt stmt; L
        else
          match stmt with
          | .annotatedStmt .. => do
            fail "AnnotatedStmt::new: annotation of annotated statement is not allowed"; L
          | _ => do insertStmt (.annotatedStmt stmt (← takeAnnotations)); L
      | none => L) := by
  cases o with
  | none => simp only [attachM, pure_bind]
  | some t =>
    simp only [attachM, bind_assoc]
    congr 1; funext b
    cases b
    · cases t <;> simp only [bind_assoc, Bool.false_eq_true, if_false]
    · rfl

theorem topLoop_cons_eq (fuel : Nat) (s : Ast.Stmt) (rest : List Ast.Stmt) :
    syntaxToSemanticLoop (fuel+1) (s :: rest) = (do
      let o ← topStmtM fuel s
      attachM o
      syntaxToSemanticLoop fuel rest) := by
  conv => lhs; unfold syntaxToSemanticLoop
  simp only [attachM_bind]
  unfold topStmtM
  cases s <;> simp only [bind_assoc, pure_bind] <;> first | rfl | skip
  congr 1; funext f; congr 1; funext p
  split <;> simp only [bind_assoc, pure_bind]
/-- the statement emitted for a translated statement `t` when `anns` are pending -/
def wrap (t : Stmt) (anns : List String) : Stmt :=
  match anns with
  | [] => t
  | _ :: _ => .annotatedStmt t anns

def IsAnnotated : Stmt → Prop
  | .annotatedStmt .. => True
  | _ => False

theorem attachM_none (c : Ctx) : attachM none c = .ok (⟨⟩, c) := rfl

theorem attachM_some {t : Stmt} {c1 : Ctx} {r : Unit × Ctx} :
    attachM (some t) c1 = .ok r ↔
      (c1.annotations ≠ [] → ¬ IsAnnotated t) ∧
      r = (⟨⟩, { c1 with program := c1.program ++ [wrap t c1.annotations], annotations := [] }) := by
  obtain ⟨prog, errs, tab, cv, anns⟩ := c1
  cases anns with
  | nil =>
    have e : attachM (some t) ⟨prog, errs, tab, cv, []⟩ = .ok (⟨⟩, ⟨prog ++ [t], errs, tab, cv, []⟩) := rfl
    rw [e]
    simp only [wrap, ne_eq, not_true_eq_false, false_imp_iff, true_and, Except.ok.injEq]
    exact eq_comm
  | cons a anns =>
    by_cases ht : IsAnnotated t
    · have e : attachM (some t) ⟨prog, errs, tab, cv, a :: anns⟩ = .error (.panic
          "AnnotatedStmt::new: annotation of annotated statement is not allowed") := by
        cases t <;> first | rfl | exact absurd ht (by simp [IsAnnotated])
      rw [e]
      simp [ht]
    · have e : attachM (some t) ⟨prog, errs, tab, cv, a :: anns⟩ =
          .ok (⟨⟩, ⟨prog ++ [.annotatedStmt t (a :: anns)], errs, tab, cv, []⟩) := by
        cases t <;> first | rfl | exact absurd trivial ht
      rw [e]
      simp only [wrap, ne_eq, reduceCtorEq, not_false_eq_true, ht, imp_self, true_and, Except.ok.injEq]
      exact eq_comm

/-- `include "stdgates.inc"` and every translation leave `program` alone and only extend the rest -/
theorem topStmtM_frame (fuel : Nat) (s : Ast.Stmt) : Frame (topStmtM fuel s) := by
  have h_stmtToAsgStmt := (allFrame fuel).stmtToAsgStmt
  unfold topStmtM
  frame
  all_goals exact h_stmtToAsgStmt _

/-- the trace of the top-level loop: `out` = the statements appended to the program, in order -/
inductive TopRun : Nat → List Ast.Stmt → Ctx → List Stmt → Ctx → Prop
  | nil {fuel c} : TopRun (fuel+1) [] c [] c
  | skip {fuel s rest c c1 out c'} : topStmtM fuel s c = .ok (none, c1) → TopRun fuel rest c1 out c' →
      TopRun (fuel+1) (s :: rest) c out c'
  | emit {fuel s rest c t c1 out c'} : topStmtM fuel s c = .ok (some t, c1) →
      (c1.annotations ≠ [] → ¬ IsAnnotated t) →
      TopRun fuel rest { c1 with program := c1.program ++ [wrap t c1.annotations], annotations := [] }
        out c' →
      TopRun (fuel+1) (s :: rest) c (wrap t c1.annotations :: out) c'

/-- **top-level order**: the loop succeeds exactly along a trace in which every source statement
is translated in source order, a `None` translation emits nothing, and a translated statement is
appended wrapped with ALL annotations pending at that moment (which it consumes) -/
theorem top_level_order_preserved {fuel ss c c'} :
    syntaxToSemanticLoop fuel ss c = .ok (⟨⟩, c') ↔ ∃ out, TopRun fuel ss c out c' := by
  induction ss generalizing fuel c c' with
  | nil =>
    cases fuel with
    | zero =>
      unfold syntaxToSemanticLoop; simp only [throw_ok, false_iff]
      rintro ⟨out, h⟩; cases h
    | succ fuel =>
      unfold syntaxToSemanticLoop; simp only [pure_ok]
      constructor
      · intro h; cases h; exact ⟨[], .nil⟩
      · rintro ⟨out, h⟩; cases h; rfl
  | cons s rest ih =>
    cases fuel with
    | zero =>
      unfold syntaxToSemanticLoop; simp only [throw_ok, false_iff]
      rintro ⟨out, h⟩; cases h
    | succ fuel =>
      rw [topLoop_cons_eq]
      simp only [bind_ok]
      constructor
      · rintro ⟨o, c1, h1, _, c2, h2, h3⟩
        obtain ⟨out, hout⟩ := ih.mp h3
        cases o with
        | none => rw [attachM_none] at h2; cases h2; exact ⟨out, .skip h1 hout⟩
        | some t =>
          obtain ⟨ha, hc⟩ := attachM_some.mp h2
          cases hc
          exact ⟨_, .emit h1 ha hout⟩
      · rintro ⟨out, h⟩
        cases h with
        | skip h1 hout => exact ⟨none, _, h1, ⟨⟩, _, attachM_none _, ih.mpr ⟨_, hout⟩⟩
        | emit h1 ha hout => exact ⟨some _, _, h1, ⟨⟩, _, attachM_some.mpr ⟨ha, rfl⟩, ih.mpr ⟨_, hout⟩⟩

/-- the program after the loop is the program before it followed by the emitted statements -/
theorem TopRun.program {fuel ss c out c'} (h : TopRun fuel ss c out c') :
    c'.program = c.program ++ out := by
  induction h with
  | nil => simp
  | skip h1 _ ih => rw [ih, ((topStmtM_frame _ _).run _ _ _ h1).program]
  | emit h1 _ _ ih =>
    rw [ih]; simp only [List.append_assoc, List.singleton_append]
    rw [((topStmtM_frame _ _).run _ _ _ h1).program]

theorem top_level_program {fuel ss c c'} (h : syntaxToSemanticLoop fuel ss c = .ok (⟨⟩, c')) :
    ∃ out, TopRun fuel ss c out c' ∧ c'.program = c.program ++ out := by
  obtain ⟨out, hout⟩ := top_level_order_preserved.mp h
  exact ⟨out, hout, hout.program⟩

/-- annotations pending before a statement are attached — first and in order — to the statement
emitted for it: an annotation is attached to the FOLLOWING emitted statement -/
theorem pending_annotations_attach {fuel s c t c1} (h : topStmtM fuel s c = .ok (some t, c1)) :
    c.annotations <+: c1.annotations :=
  ((topStmtM_frame _ _).run _ _ _ h).annotations

/-- a statement that translates to nothing leaves the pending annotations pending -/
theorem pending_annotations_kept {fuel s c c1} (h : topStmtM fuel s c = .ok (none, c1)) :
    c.annotations <+: c1.annotations :=
  ((topStmtM_frame _ _).run _ _ _ h).annotations

/-- `@a` directly before a statement at top level: the emitted statement is annotated, and `a`
follows whatever was pending before -/
theorem annotation_attached_to_following {fuel sp text s rest c out c'}
    (h : TopRun (fuel+2) (.annotationStatement sp text :: s :: rest) c out c')
    {t c1} (ht : topStmtM fuel s { c with annotations := c.annotations ++ [text] } = .ok (some t, c1)) :
    ∃ anns out', out = .annotatedStmt t anns :: out' ∧ c.annotations ++ [text] <+: anns := by
  cases h with
  | skip h1 h2 =>
    have e := annotation_pushes fuel sp text c
    simp only [topStmtM] at h1
    rw [e] at h1; cases h1
    cases h2 with
    | skip h3 _ => rw [ht] at h3; cases h3
    | emit h3 _ _ =>
      rw [ht] at h3; cases h3
      have hp := pending_annotations_attach ht
      simp only at hp
      cases hc : c1.annotations with
      | nil => rw [hc] at hp; simp at hp
      | cons a as => exact ⟨a :: as, _, by simp only [wrap]; rfl, by rw [← hc]; exact hp⟩
  | emit h1 _ _ =>
    have e := annotation_pushes fuel sp text c
    simp only [topStmtM] at h1
    rw [e] at h1; cases h1

/-! ### skeleton preservation: the machinery -/

/-- every successful run of `x` returns a value satisfying `Q` -/
def Post {α} (x : M α) (Q : α → Prop) : Prop := ∀ c a c', x c = .ok (a, c') → Q a

theorem Post.bind {α β} {x : M α} {f : α → M β} {P : α → Prop} {Q : β → Prop}
    (hx : Post x P) (hf : ∀ a, P a → Post (f a) Q) : Post (x >>= f) Q := by
  intro c b c' h
  obtain ⟨a, c1, h1, h2⟩ := (bind_ok x f c (b, c')).mp h
  exact hf a (hx _ _ _ h1) _ _ _ h2

theorem Post.bind_any {α β} {x : M α} {f : α → M β} {Q : β → Prop}
    (hf : ∀ a, Post (f a) Q) : Post (x >>= f) Q :=
  Post.bind (P := fun _ => True) (fun _ _ _ _ => trivial) (fun a _ => hf a)

theorem Post.pure {α} {a : α} {Q : α → Prop} (h : Q a) : Post (pure a) Q := by
  intro c b c' hb; simp at hb; obtain ⟨rfl, _⟩ := hb; exact h

theorem Post.fail {α} (site : String) {Q : α → Prop} : Post (fail site) Q := by
  intro c b c' hb; simp at hb

theorem Post.throw {α} (o : Outcome) {Q : α → Prop} : Post (throw o) Q := by
  intro c b c' hb; simp at hb

theorem Post.unwrap {α} (site : String) (o : Option α) : Post (unwrap site o) (fun a => o = some a) := by
  intro c a c' h
  obtain ⟨a', h1, h2⟩ := (unwrap_ok _ _ _ _).mp h
  cases h2; exact h1

@[simp] theorem texpr_castToTexpr (e : TExpr) (t : T) : Asg.texpr (castToTexpr e t) = Asg.texpr e := by
  simp [castToTexpr, Asg.texpr, Asg.expr]

@[simp] theorem texpr_newTexprWithCast (op : BinaryOp) (l r : TExpr) :
    Asg.texpr (newTexprWithCast op l r) = .node ("Bin." ++ binaryOpName op) [Asg.texpr l, Asg.texpr r] := by
  unfold newTexprWithCast
  cases op <;> simp only [Asg.texpr, Asg.expr]
  split <;> split <;> simp [texpr_castToTexpr]


abbrev NM := astBinaryOpNameActual

theorem literal_post (l : Ast.Literal) :
    Post (literalToAsgTexpr l) (fun r => astLiteral false l = r.map Asg.texpr) := by
  unfold literalToAsgTexpr astLiteral
  cases hk : l.kind <;> simp only
  · exact Post.bind_any fun _ => Post.pure (by simp [astLiteralClass, intLiteralToTexpr, Asg.texpr, Asg.expr, literalClass])
  · exact Post.bind_any fun _ => Post.pure (by simp [astLiteralClass, floatLiteralToTexpr, Asg.texpr, Asg.expr, literalClass])
  · split
    · rename_i h; exact Post.pure (by simp [astLiteralClass, h, bitStringLiteralToTexpr, Asg.texpr, Asg.expr, literalClass])
    · rename_i h; exact Post.pure (by simp [astLiteralClass, h])
  · exact Post.pure (by simp [astLiteralClass, boolLiteralToTexpr, Asg.texpr, Asg.expr, literalClass])
  · exact Post.fail _
  · exact Post.fail _
  · exact Post.fail _

theorem binaryOp_post (op : Ast.BinaryOp) :
    Post (binaryOpToAsgType op) (fun r => NM op = binaryOpName r) := by
  intro c r c' h
  rcases op with l | a | (n | ⟨l, s⟩) | _ | _ | a
  · simp [binaryOpToAsgType] at h
  · cases a <;> (simp only [binaryOpToAsgType, pure_ok] at h; cases h; rfl)
  · cases n <;> (simp only [binaryOpToAsgType, pure_ok] at h; cases h; rfl)
  · simp [binaryOpToAsgType] at h
  · simp only [binaryOpToAsgType, pure_ok] at h; cases h; rfl
  · simp only [binaryOpToAsgType, pure_ok] at h; cases h; rfl
  · simp [binaryOpToAsgType] at h


theorem Post.mono {α} {x : M α} {P Q : α → Prop} (h : Post x P) (hpq : ∀ a, P a → Q a) : Post x Q :=
  fun c a c' hr => hpq a (h c a c' hr)

theorem syms_eq {α β} {a : List α} {b : List β} (h : a.length = b.length) : syms a = syms b := by
  induction a generalizing b with
  | nil => cases b <;> simp_all [syms]
  | cons x xs ih =>
    cases b with
    | nil => simp at h
    | cons y ys => simp only [List.length_cons, Nat.add_right_cancel_iff] at h; simp [syms] at ih ⊢; exact ih h

syntax "post_ih" : tactic
macro_rules | `(tactic| post_ih) => `(tactic| fail "no ih")
syntax "post_lemma" : tactic
macro_rules | `(tactic| post_lemma) => `(tactic| fail "no lemma")
syntax "post_clear" : tactic
macro_rules | `(tactic| post_clear) => `(tactic| skip)
syntax "post_close" : tactic
macro_rules | `(tactic| post_close) => `(tactic| fail "no closer")

theorem Post.pure_bind {α β} {a : α} {f : α → M β} {Q : β → Prop} (h : Post (f a) Q) :
    Post (Pure.pure a >>= f) Q := by simp only [LawfulMonad.pure_bind]; exact h

theorem Post.fail_bind {α β} (site : String) {f : α → M β} {Q : β → Prop} :
    Post (Sema.fail site >>= f) Q := by
  intro c b c' h; simp [bind_ok] at h

@[simp] theorem opt_map_texpr (o : Option TExpr) : Skel.opt (o.map Asg.texpr) = Asg.optTexpr o := by
  cases o <;> rfl
@[simp] theorem opt_some (s : Skel) : Skel.opt (some s) = s := rfl
@[simp] theorem opt_none : Skel.opt none = leaf "_" := rfl

macro "post_step" : tactic => `(tactic| first
  | cases ‹_ + 1 = Nat.succ _›
  | with_reducible exact Post.fail _
  | with_reducible exact Post.throw _
  | with_reducible exact Post.fail_bind _
  | with_reducible refine Post.pure_bind ?_
  | with_reducible refine Post.bind (Post.unwrap _ _) (fun _ hu => ?_)
  | post_lemma
  | post_ih
  | (show Post _ _; split)
  | (show Post ((_ >>= _) >>= _) _; rw [bind_assoc])
  | with_reducible refine Post.bind_any (fun _ => ?_)
  | with_reducible (refine Post.pure ?_)
  | post_close
  | split
  | dsimp only)

macro "post" : tactic => `(tactic| repeat' post_step)

macro_rules | `(tactic| post_close) => `(tactic| first
  | (post_clear
     subst_vars
     simp_all [Ast.range, Ast.exprs, Ast.exprList, Ast.optExprList, Ast.setExpr,
     Ast.indexKind, Ast.indexOp, Ast.optIndexOp, Ast.indexOps, Ast.indexedIdent, Ast.gateOperand, Ast.optGateOperand,
     Ast.gateOperands, Ast.optQubitList, Ast.optArgList, Ast.optParen, Ast.modifier, Ast.modifiers, Ast.gateCall,
     Ast.gphaseArg, Ast.exprStmt, Ast.designatorExpr, Ast.forIterable, Ast.forIterableOf, Ast.lvalue,
     expectedW, stmts, block, optBlock, body, accBody, optElse, optDefault, cases,
     Asg.texpr, Asg.expr, Asg.optTexpr, Asg.optArgs, Asg.texprs, Asg.indexOp, Asg.indexOps, Asg.indexedIdent,
     Asg.gateOperand, Asg.modifier, Asg.modifiers, Asg.lvalue, Asg.forIterable, Asg.optQubits, Asg.stmt, Asg.stmts,
     Asg.block, Asg.optElse, Asg.optDefault, Asg.case, Asg.cases, optOpName,
     unaryExprToTexpr, hardwareQubitToAsgTexpr, hardwareQubitToTexpr, rangeExpressionToTexpr, indexExpressionToTexpr,
     indexedIdentifierToTexpr, measureExpressionToTexpr, returnExpressionToTexpr, unaryOpName, gateOperandToTexpr,
     subroutineCallToTexpr, IndexedIdentifier.indexes]
     done)
  | (post_clear
     subst_vars
     simp_all [Ast.optExpr, Ast.expr, Ast.paren, prefixSk, astLiteral, astLiteralClass, astTimingClass, literalClass, timeUnitToAsg, intLiteralToTexpr, floatLiteralToTexpr,
     intLiteralToImaginaryTexpr, floatLiteralToImaginaryTexpr, timingIntLiteralToTexpr, timingFloatLiteralToTexpr,
     Ast.range, Ast.exprs, Ast.exprList, Ast.optExprList, Ast.setExpr,
     Ast.indexKind, Ast.indexOp, Ast.optIndexOp, Ast.indexOps, Ast.indexedIdent, Ast.gateOperand, Ast.optGateOperand,
     Ast.gateOperands, Ast.optQubitList, Ast.optArgList, Ast.optParen, Ast.modifier, Ast.modifiers, Ast.gateCall,
     Ast.gphaseArg, Ast.exprStmt, Ast.designatorExpr, Ast.forIterable, Ast.forIterableOf, Ast.lvalue,
     expectedW, stmts, block, optBlock, body, accBody, optElse, optDefault, cases,
     Asg.texpr, Asg.expr, Asg.optTexpr, Asg.optArgs, Asg.texprs, Asg.indexOp, Asg.indexOps, Asg.indexedIdent,
     Asg.gateOperand, Asg.modifier, Asg.modifiers, Asg.lvalue, Asg.forIterable, Asg.optQubits, Asg.stmt, Asg.stmts,
     Asg.block, Asg.optElse, Asg.optDefault, Asg.case, Asg.cases, optOpName,
     unaryExprToTexpr, hardwareQubitToAsgTexpr, hardwareQubitToTexpr, rangeExpressionToTexpr, indexExpressionToTexpr,
     indexedIdentifierToTexpr, measureExpressionToTexpr, returnExpressionToTexpr, unaryOpName, gateOperandToTexpr,
     subroutineCallToTexpr, IndexedIdentifier.indexes]))

macro_rules | `(tactic| post_lemma) => `(tactic| with_reducible refine Post.bind (binaryOp_post _) (fun _ he => ?_))
macro_rules | `(tactic| post_lemma) => `(tactic| with_reducible exact literal_post _)
macro_rules | `(tactic| post_lemma) => `(tactic| with_reducible refine Post.mono (literal_post _) (fun _ he => ?_))

theorem bindParams_post (t : T) (ps : List Ast.Param) :
    Post (bindParams t ps) (fun r => r.length = ps.length) := by
  induction ps with
  | nil => unfold bindParams; exact Post.pure rfl
  | cons p ps ih =>
    unfold bindParams
    exact Post.bind_any fun _ => Post.bind ih fun _ h => Post.pure (by simp [h])

theorem bindParameterList_post (l : Option Ast.ParamList) (t : T) :
    Post (bindParameterList l t) (fun r => Ast.params l = optSyms r ∧ (∀ qs, r = some qs → Ast.qubitParams l = syms qs)) := by
  unfold bindParameterList
  cases l with
  | none => exact Post.pure ⟨rfl, by simp⟩
  | some pl =>
    refine Post.bind (bindParams_post _ _) fun _ h => Post.pure ?_
    exact ⟨by simp [Ast.params, optSyms, syms_eq h.symm], by
      intro qs hq; cases hq; simp [Ast.qubitParams, syms_eq h.symm]⟩
macro_rules | `(tactic| post_lemma) => `(tactic| with_reducible refine Post.bind (bindParameterList_post _ _) (fun _ he => ?_))

theorem bindTypedParams_post (ps : List Ast.TypedParam) :
    Post (bindTypedParams ps) (fun r => r.length = ps.length) := by
  induction ps with
  | nil => unfold bindTypedParams; exact Post.pure rfl
  | cons p ps ih =>
    unfold bindTypedParams
    have h_ih := ih
    repeat' first
      | exact Post.fail _
      | refine Post.bind h_ih (fun _ he => ?_)
      | refine Post.bind_any (fun _ => ?_)
      | (refine Post.pure ?_; simp [he])
      | split
      | dsimp only

theorem bindTypedParameterList_post (l : Option Ast.TypedParamList) :
    Post (bindTypedParameterList l) (fun r => ∀ ps, r = some ps → Ast.typedParams l = syms ps) := by
  unfold bindTypedParameterList
  cases l with
  | none => exact Post.pure (by simp)
  | some pl =>
    refine Post.bind (bindTypedParams_post _) fun _ h => Post.pure ?_
    intro ps hp; cases hp; simp [Ast.typedParams, syms_eq h.symm]
macro_rules | `(tactic| post_lemma) => `(tactic| with_reducible refine Post.bind (bindTypedParameterList_post _) (fun _ he => ?_))

theorem declareClassicalHelper_post (id : SymbolIdResult) (i : Option TExpr) :
    Post (declareClassicalHelper id i) (fun r => r = .declareClassical id i) := by
  unfold declareClassicalHelper
  repeat' first
    | exact Post.fail _
    | refine Post.bind_any (fun _ => ?_)
    | exact Post.pure rfl
    | split
    | dsimp only
macro_rules | `(tactic| post_lemma) => `(tactic| with_reducible refine Post.bind (declareClassicalHelper_post _ _) (fun _ he => ?_))
macro_rules | `(tactic| post_lemma) => `(tactic| with_reducible refine Post.mono (declareClassicalHelper_post _ _) (fun _ he => ?_))

theorem ioDeclaration_post (a : Bool) (st : Option Ast.ScalarType) (n : Option Ast.Name) (i : Bool) :
    Post (ioDeclarationStatementToAsgStmt a st n i)
      (fun r => leaf (if i then "InputDeclaration" else "OutputDeclaration") = Asg.stmt r) := by
  unfold ioDeclarationStatementToAsgStmt
  repeat' first
    | exact Post.fail _
    | refine Post.bind_any (fun _ => ?_)
    | (refine Post.pure ?_; simp_all [Asg.stmt])
    | split
    | dsimp only
macro_rules | `(tactic| post_lemma) => `(tactic| with_reducible refine Post.bind (ioDeclaration_post _ _ _ _) (fun _ he => ?_))

theorem notImpl_post (sp : Ast.Span) : Post (notImpl sp) (fun r => r = some .nullStmt) := by
  unfold notImpl
  exact Post.bind_any fun _ => Post.pure rfl
macro_rules | `(tactic| post_lemma) => `(tactic| with_reducible refine Post.mono (notImpl_post _) (fun _ he => ?_))

/-- the skeleton facts for all functions of the mutual block at one fuel -/
structure AllSk (fuel : Nat) : Prop where
  stmtToAsgStmt : ∀ (s : Ast.Stmt), Post (Oq3.Sema.stmtToAsgStmt fuel s) (fun r => expectedW NM s = r.map Asg.stmt)
  caseExprsLoop : ∀ (cs : List Ast.CaseExpr), Post (Oq3.Sema.caseExprsLoop fuel cs) (fun r => cases NM cs = Asg.cases r)
  exprStmtToAsgStmt : ∀ (e : Option Ast.Expr), Post (Oq3.Sema.exprStmtToAsgStmt fuel e) (fun r => some (Ast.exprStmt NM e) = r.map Asg.stmt)
  modifiersLoop : ∀ (ms : List Ast.Modifier), Post (Oq3.Sema.modifiersLoop fuel ms) (fun r => Ast.modifiers NM ms = Asg.modifiers r)
  parenExprToAsgTexpr : ∀ (p : Ast.ParenExpr), Post (Oq3.Sema.parenExprToAsgTexpr fuel p) (fun r => Ast.paren NM p = r.map Asg.texpr)
  exprToAsgTexpr : ∀ (e : Option Ast.Expr), Post (Oq3.Sema.exprToAsgTexpr fuel e) (fun r => Ast.optExpr NM e = r.map Asg.texpr)
  setExpressionToAsgType : ∀ (s : Ast.SetExpression), Post (Oq3.Sema.setExpressionToAsgType fuel s) (fun r => Ast.setExpr NM s = Asg.texprs r)
  rangeExpressionToAsgType : ∀ (r : Ast.RangeExpr), Post (Oq3.Sema.rangeExpressionToAsgType fuel r) (fun x => Ast.range NM r = [Asg.texpr x.1, Asg.optTexpr x.2.1, Asg.texpr x.2.2])
  gateCallExprToAsgStmt : ∀ (g : Ast.GateCallExpr) (ms : List GateModifier), Post (Oq3.Sema.gateCallExprToAsgStmt fuel g ms) (fun r => some (Ast.gateCall NM g (Asg.modifiers ms)) = r.map Asg.stmt)
  callExprToAsgTexpr : ∀ (sp : Ast.Span) (al : Option Ast.ArgList) (i : Option Ast.Identifier), Post (Oq3.Sema.callExprToAsgTexpr fuel sp al i) (fun r => Skel.node "Call" [Ast.optArgList NM al] = Asg.texpr r)
  gateOperandToAsgTexpr : ∀ (g : Ast.GateOperand), Post (Oq3.Sema.gateOperandToAsgTexpr fuel g) (fun r => Skel.node "GateOperand" [Ast.gateOperand NM g] = Asg.texpr r)
  indexOperatorToAsgType : ∀ (i : Ast.IndexOperator), Post (Oq3.Sema.indexOperatorToAsgType fuel i) (fun r => Ast.indexOp NM i = Asg.indexOp r)
  expressionListToAsgType : ∀ (el : Ast.ExpressionList), Post (Oq3.Sema.expressionListToAsgType fuel el) (fun r => Ast.exprList NM el = Asg.texprs r)
  qubitListToAsgTexpr : ∀ (ql : Option Ast.QubitList), Post (Oq3.Sema.qubitListToAsgTexpr fuel ql) (fun r => Ast.optQubitList NM ql = Asg.texprs r)
  gateOperandsLoop : ∀ (gs : List Ast.GateOperand), Post (Oq3.Sema.gateOperandsLoop fuel gs) (fun r => Ast.gateOperands NM gs = Asg.texprs r)
  expressionListToAsgTexpr : ∀ (el : Ast.ExpressionList), Post (Oq3.Sema.expressionListToAsgTexpr fuel el) (fun r => Ast.exprList NM el = Asg.texprs r)
  exprsLoop : ∀ (es : List Ast.Expr), Post (Oq3.Sema.exprsLoop fuel es) (fun r => Ast.exprs NM es = Asg.texprs r)
  blockExprToAsgStmtList : ∀ (b : Ast.BlockExpr), Post (Oq3.Sema.blockExprToAsgStmtList fuel b) (fun r => block NM b = Asg.stmts r)
  stmtsLoop : ∀ (ss : List Ast.Stmt), Post (Oq3.Sema.stmtsLoop fuel ss) (fun r => stmts NM ss = Asg.stmts r)
  blockExprToAsgType : ∀ (b : Ast.BlockExpr), Post (Oq3.Sema.blockExprToAsgType fuel b) (fun r => block NM b = Asg.block r)
  blockOrStmtToAsgType : ∀ (b : Ast.BlockOrStmt), Post (Oq3.Sema.blockOrStmtToAsgType fuel b) (fun r => body NM b = Asg.block r)
  classicalDeclarationStatementToAsgStmt : ∀ (sp : Ast.Span) (a : Bool) (st : Option Ast.ScalarType) (k : Bool) (n : Option Ast.Name) (e : Option Ast.Expr), Post (Oq3.Sema.classicalDeclarationStatementToAsgStmt fuel sp a st k n e) (fun r => Skel.node "DeclareClassical" [opt (Ast.optExpr NM e)] = Asg.stmt r)
  assignmentStmtToAsgStmt : ∀ (sp : Ast.Span) (i : Option Ast.Identifier) (rhs : Option Ast.Expr) (ii : Option Ast.IndexedIdentifier), Post (Oq3.Sema.assignmentStmtToAsgStmt fuel sp i rhs ii) (fun r => some (Skel.node "Assignment" [Ast.lvalue NM i ii, opt (Ast.optExpr NM rhs)]) = r.map Asg.stmt)
  indexedIdentifierToAsgType : ∀ (ii : Ast.IndexedIdentifier), Post (Oq3.Sema.indexedIdentifierToAsgType fuel ii) (fun r => Ast.indexedIdent NM ii = Asg.indexedIdent r.1)
  indexOperatorsLoop : ∀ (ixs : List Ast.IndexOperator), Post (Oq3.Sema.indexOperatorsLoop fuel ixs) (fun r => Ast.indexOps NM ixs = Asg.indexOps r)

set_option hygiene false in
macro_rules | `(tactic| post_clear) => `(tactic| try clear h_stmtToAsgStmt h_caseExprsLoop h_exprStmtToAsgStmt h_modifiersLoop h_parenExprToAsgTexpr h_exprToAsgTexpr h_setExpressionToAsgType h_rangeExpressionToAsgType h_gateCallExprToAsgStmt h_callExprToAsgTexpr h_gateOperandToAsgTexpr h_indexOperatorToAsgType h_expressionListToAsgType h_qubitListToAsgTexpr h_gateOperandsLoop h_expressionListToAsgTexpr h_exprsLoop h_blockExprToAsgStmtList h_stmtsLoop h_blockExprToAsgType h_blockOrStmtToAsgType h_classicalDeclarationStatementToAsgStmt h_assignmentStmtToAsgStmt h_indexedIdentifierToAsgType h_indexOperatorsLoop)

set_option hygiene false in
macro_rules | `(tactic| post_ih) => `(tactic| first
  | with_reducible refine Post.bind (h_stmtToAsgStmt _) (fun _ he => ?_)
  | with_reducible exact h_stmtToAsgStmt _
  | with_reducible refine Post.mono (h_stmtToAsgStmt _) (fun _ he => ?_)
  | with_reducible refine Post.bind (h_caseExprsLoop _) (fun _ he => ?_)
  | with_reducible exact h_caseExprsLoop _
  | with_reducible refine Post.mono (h_caseExprsLoop _) (fun _ he => ?_)
  | with_reducible refine Post.bind (h_exprStmtToAsgStmt _) (fun _ he => ?_)
  | with_reducible exact h_exprStmtToAsgStmt _
  | with_reducible refine Post.mono (h_exprStmtToAsgStmt _) (fun _ he => ?_)
  | with_reducible refine Post.bind (h_modifiersLoop _) (fun _ he => ?_)
  | with_reducible exact h_modifiersLoop _
  | with_reducible refine Post.mono (h_modifiersLoop _) (fun _ he => ?_)
  | with_reducible refine Post.bind (h_parenExprToAsgTexpr _) (fun _ he => ?_)
  | with_reducible exact h_parenExprToAsgTexpr _
  | with_reducible refine Post.mono (h_parenExprToAsgTexpr _) (fun _ he => ?_)
  | with_reducible refine Post.bind (h_exprToAsgTexpr _) (fun _ he => ?_)
  | with_reducible exact h_exprToAsgTexpr _
  | with_reducible refine Post.mono (h_exprToAsgTexpr _) (fun _ he => ?_)
  | with_reducible refine Post.bind (h_setExpressionToAsgType _) (fun _ he => ?_)
  | with_reducible exact h_setExpressionToAsgType _
  | with_reducible refine Post.mono (h_setExpressionToAsgType _) (fun _ he => ?_)
  | with_reducible refine Post.bind (h_rangeExpressionToAsgType _) (fun _ he => ?_)
  | with_reducible exact h_rangeExpressionToAsgType _
  | with_reducible refine Post.mono (h_rangeExpressionToAsgType _) (fun _ he => ?_)
  | with_reducible refine Post.bind (h_gateCallExprToAsgStmt _ _) (fun _ he => ?_)
  | with_reducible exact h_gateCallExprToAsgStmt _ _
  | with_reducible refine Post.mono (h_gateCallExprToAsgStmt _ _) (fun _ he => ?_)
  | with_reducible refine Post.bind (h_callExprToAsgTexpr _ _ _) (fun _ he => ?_)
  | with_reducible exact h_callExprToAsgTexpr _ _ _
  | with_reducible refine Post.mono (h_callExprToAsgTexpr _ _ _) (fun _ he => ?_)
  | with_reducible refine Post.bind (h_gateOperandToAsgTexpr _) (fun _ he => ?_)
  | with_reducible exact h_gateOperandToAsgTexpr _
  | with_reducible refine Post.mono (h_gateOperandToAsgTexpr _) (fun _ he => ?_)
  | with_reducible refine Post.bind (h_indexOperatorToAsgType _) (fun _ he => ?_)
  | with_reducible exact h_indexOperatorToAsgType _
  | with_reducible refine Post.mono (h_indexOperatorToAsgType _) (fun _ he => ?_)
  | with_reducible refine Post.bind (h_expressionListToAsgType _) (fun _ he => ?_)
  | with_reducible exact h_expressionListToAsgType _
  | with_reducible refine Post.mono (h_expressionListToAsgType _) (fun _ he => ?_)
  | with_reducible refine Post.bind (h_qubitListToAsgTexpr _) (fun _ he => ?_)
  | with_reducible exact h_qubitListToAsgTexpr _
  | with_reducible refine Post.mono (h_qubitListToAsgTexpr _) (fun _ he => ?_)
  | with_reducible refine Post.bind (h_gateOperandsLoop _) (fun _ he => ?_)
  | with_reducible exact h_gateOperandsLoop _
  | with_reducible refine Post.mono (h_gateOperandsLoop _) (fun _ he => ?_)
  | with_reducible refine Post.bind (h_expressionListToAsgTexpr _) (fun _ he => ?_)
  | with_reducible exact h_expressionListToAsgTexpr _
  | with_reducible refine Post.mono (h_expressionListToAsgTexpr _) (fun _ he => ?_)
  | with_reducible refine Post.bind (h_exprsLoop _) (fun _ he => ?_)
  | with_reducible exact h_exprsLoop _
  | with_reducible refine Post.mono (h_exprsLoop _) (fun _ he => ?_)
  | with_reducible refine Post.bind (h_blockExprToAsgStmtList _) (fun _ he => ?_)
  | with_reducible exact h_blockExprToAsgStmtList _
  | with_reducible refine Post.mono (h_blockExprToAsgStmtList _) (fun _ he => ?_)
  | with_reducible refine Post.bind (h_stmtsLoop _) (fun _ he => ?_)
  | with_reducible exact h_stmtsLoop _
  | with_reducible refine Post.mono (h_stmtsLoop _) (fun _ he => ?_)
  | with_reducible refine Post.bind (h_blockExprToAsgType _) (fun _ he => ?_)
  | with_reducible exact h_blockExprToAsgType _
  | with_reducible refine Post.mono (h_blockExprToAsgType _) (fun _ he => ?_)
  | with_reducible refine Post.bind (h_blockOrStmtToAsgType _) (fun _ he => ?_)
  | with_reducible exact h_blockOrStmtToAsgType _
  | with_reducible refine Post.mono (h_blockOrStmtToAsgType _) (fun _ he => ?_)
  | with_reducible refine Post.bind (h_classicalDeclarationStatementToAsgStmt _ _ _ _ _ _) (fun _ he => ?_)
  | with_reducible exact h_classicalDeclarationStatementToAsgStmt _ _ _ _ _ _
  | with_reducible refine Post.mono (h_classicalDeclarationStatementToAsgStmt _ _ _ _ _ _) (fun _ he => ?_)
  | with_reducible refine Post.bind (h_assignmentStmtToAsgStmt _ _ _ _) (fun _ he => ?_)
  | with_reducible exact h_assignmentStmtToAsgStmt _ _ _ _
  | with_reducible refine Post.mono (h_assignmentStmtToAsgStmt _ _ _ _) (fun _ he => ?_)
  | with_reducible refine Post.bind (h_indexedIdentifierToAsgType _) (fun _ he => ?_)
  | with_reducible exact h_indexedIdentifierToAsgType _
  | with_reducible refine Post.mono (h_indexedIdentifierToAsgType _) (fun _ he => ?_)
  | with_reducible refine Post.bind (h_indexOperatorsLoop _) (fun _ he => ?_)
  | with_reducible exact h_indexOperatorsLoop _
  | with_reducible refine Post.mono (h_indexOperatorsLoop _) (fun _ he => ?_))


set_option maxHeartbeats 4000000 in
theorem stmtToAsgStmt_sk_step (fuel : Nat) (ih : AllSk fuel) (s : Ast.Stmt) :
    Post (Oq3.Sema.stmtToAsgStmt (fuel + 1) s) (fun r => expectedW NM s = r.map Asg.stmt) := by
  obtain ⟨h_stmtToAsgStmt, h_caseExprsLoop, h_exprStmtToAsgStmt, h_modifiersLoop, h_parenExprToAsgTexpr, h_exprToAsgTexpr, h_setExpressionToAsgType, h_rangeExpressionToAsgType, h_gateCallExprToAsgStmt, h_callExprToAsgTexpr, h_gateOperandToAsgTexpr, h_indexOperatorToAsgType, h_expressionListToAsgType, h_qubitListToAsgTexpr, h_gateOperandsLoop, h_expressionListToAsgTexpr, h_exprsLoop, h_blockExprToAsgStmtList, h_stmtsLoop, h_blockExprToAsgType, h_blockOrStmtToAsgType, h_classicalDeclarationStatementToAsgStmt, h_assignmentStmtToAsgStmt, h_indexedIdentifierToAsgType, h_indexOperatorsLoop⟩ := ih
  unfold Oq3.Sema.stmtToAsgStmt
  try simp only [withScope, bind_assoc, pure_bind]
  post

set_option maxHeartbeats 4000000 in
theorem caseExprsLoop_sk_step (fuel : Nat) (ih : AllSk fuel) (cs : List Ast.CaseExpr) :
    Post (Oq3.Sema.caseExprsLoop (fuel + 1) cs) (fun r => cases NM cs = Asg.cases r) := by
  obtain ⟨h_stmtToAsgStmt, h_caseExprsLoop, h_exprStmtToAsgStmt, h_modifiersLoop, h_parenExprToAsgTexpr, h_exprToAsgTexpr, h_setExpressionToAsgType, h_rangeExpressionToAsgType, h_gateCallExprToAsgStmt, h_callExprToAsgTexpr, h_gateOperandToAsgTexpr, h_indexOperatorToAsgType, h_expressionListToAsgType, h_qubitListToAsgTexpr, h_gateOperandsLoop, h_expressionListToAsgTexpr, h_exprsLoop, h_blockExprToAsgStmtList, h_stmtsLoop, h_blockExprToAsgType, h_blockOrStmtToAsgType, h_classicalDeclarationStatementToAsgStmt, h_assignmentStmtToAsgStmt, h_indexedIdentifierToAsgType, h_indexOperatorsLoop⟩ := ih
  unfold Oq3.Sema.caseExprsLoop
  try simp only [withScope, bind_assoc, pure_bind]
  post

set_option maxHeartbeats 4000000 in
theorem exprStmtToAsgStmt_sk_step (fuel : Nat) (ih : AllSk fuel) (e : Option Ast.Expr) :
    Post (Oq3.Sema.exprStmtToAsgStmt (fuel + 1) e) (fun r => some (Ast.exprStmt NM e) = r.map Asg.stmt) := by
  obtain ⟨h_stmtToAsgStmt, h_caseExprsLoop, h_exprStmtToAsgStmt, h_modifiersLoop, h_parenExprToAsgTexpr, h_exprToAsgTexpr, h_setExpressionToAsgType, h_rangeExpressionToAsgType, h_gateCallExprToAsgStmt, h_callExprToAsgTexpr, h_gateOperandToAsgTexpr, h_indexOperatorToAsgType, h_expressionListToAsgType, h_qubitListToAsgTexpr, h_gateOperandsLoop, h_expressionListToAsgTexpr, h_exprsLoop, h_blockExprToAsgStmtList, h_stmtsLoop, h_blockExprToAsgType, h_blockOrStmtToAsgType, h_classicalDeclarationStatementToAsgStmt, h_assignmentStmtToAsgStmt, h_indexedIdentifierToAsgType, h_indexOperatorsLoop⟩ := ih
  rcases e with _ | e
  · unfold Oq3.Sema.exprStmtToAsgStmt; post
  cases e <;> (try cases ‹Ast.GPhaseCallExpr›) <;> (unfold Oq3.Sema.exprStmtToAsgStmt; post)

set_option maxHeartbeats 4000000 in
theorem modifiersLoop_sk_step (fuel : Nat) (ih : AllSk fuel) (ms : List Ast.Modifier) :
    Post (Oq3.Sema.modifiersLoop (fuel + 1) ms) (fun r => Ast.modifiers NM ms = Asg.modifiers r) := by
  obtain ⟨h_stmtToAsgStmt, h_caseExprsLoop, h_exprStmtToAsgStmt, h_modifiersLoop, h_parenExprToAsgTexpr, h_exprToAsgTexpr, h_setExpressionToAsgType, h_rangeExpressionToAsgType, h_gateCallExprToAsgStmt, h_callExprToAsgTexpr, h_gateOperandToAsgTexpr, h_indexOperatorToAsgType, h_expressionListToAsgType, h_qubitListToAsgTexpr, h_gateOperandsLoop, h_expressionListToAsgTexpr, h_exprsLoop, h_blockExprToAsgStmtList, h_stmtsLoop, h_blockExprToAsgType, h_blockOrStmtToAsgType, h_classicalDeclarationStatementToAsgStmt, h_assignmentStmtToAsgStmt, h_indexedIdentifierToAsgType, h_indexOperatorsLoop⟩ := ih
  unfold Oq3.Sema.modifiersLoop
  try simp only [withScope, bind_assoc, pure_bind]
  post

set_option maxHeartbeats 4000000 in
theorem parenExprToAsgTexpr_sk_step (fuel : Nat) (ih : AllSk fuel) (p : Ast.ParenExpr) :
    Post (Oq3.Sema.parenExprToAsgTexpr (fuel + 1) p) (fun r => Ast.paren NM p = r.map Asg.texpr) := by
  obtain ⟨h_stmtToAsgStmt, h_caseExprsLoop, h_exprStmtToAsgStmt, h_modifiersLoop, h_parenExprToAsgTexpr, h_exprToAsgTexpr, h_setExpressionToAsgType, h_rangeExpressionToAsgType, h_gateCallExprToAsgStmt, h_callExprToAsgTexpr, h_gateOperandToAsgTexpr, h_indexOperatorToAsgType, h_expressionListToAsgType, h_qubitListToAsgTexpr, h_gateOperandsLoop, h_expressionListToAsgTexpr, h_exprsLoop, h_blockExprToAsgStmtList, h_stmtsLoop, h_blockExprToAsgType, h_blockOrStmtToAsgType, h_classicalDeclarationStatementToAsgStmt, h_assignmentStmtToAsgStmt, h_indexedIdentifierToAsgType, h_indexOperatorsLoop⟩ := ih
  unfold Oq3.Sema.parenExprToAsgTexpr
  try simp only [withScope, bind_assoc, pure_bind]
  post

set_option maxHeartbeats 4000000 in
theorem exprToAsgTexpr_sk_step (fuel : Nat) (ih : AllSk fuel) (e : Option Ast.Expr) :
    Post (Oq3.Sema.exprToAsgTexpr (fuel + 1) e) (fun r => Ast.optExpr NM e = r.map Asg.texpr) := by
  obtain ⟨h_stmtToAsgStmt, h_caseExprsLoop, h_exprStmtToAsgStmt, h_modifiersLoop, h_parenExprToAsgTexpr, h_exprToAsgTexpr, h_setExpressionToAsgType, h_rangeExpressionToAsgType, h_gateCallExprToAsgStmt, h_callExprToAsgTexpr, h_gateOperandToAsgTexpr, h_indexOperatorToAsgType, h_expressionListToAsgType, h_qubitListToAsgTexpr, h_gateOperandsLoop, h_expressionListToAsgTexpr, h_exprsLoop, h_blockExprToAsgStmtList, h_stmtsLoop, h_blockExprToAsgType, h_blockOrStmtToAsgType, h_classicalDeclarationStatementToAsgStmt, h_assignmentStmtToAsgStmt, h_indexedIdentifierToAsgType, h_indexOperatorsLoop⟩ := ih
  rcases e with _ | e
  · unfold Oq3.Sema.exprToAsgTexpr; post
  unfold Oq3.Sema.exprToAsgTexpr; post

set_option maxHeartbeats 4000000 in
theorem setExpressionToAsgType_sk_step (fuel : Nat) (ih : AllSk fuel) (s : Ast.SetExpression) :
    Post (Oq3.Sema.setExpressionToAsgType (fuel + 1) s) (fun r => Ast.setExpr NM s = Asg.texprs r) := by
  obtain ⟨h_stmtToAsgStmt, h_caseExprsLoop, h_exprStmtToAsgStmt, h_modifiersLoop, h_parenExprToAsgTexpr, h_exprToAsgTexpr, h_setExpressionToAsgType, h_rangeExpressionToAsgType, h_gateCallExprToAsgStmt, h_callExprToAsgTexpr, h_gateOperandToAsgTexpr, h_indexOperatorToAsgType, h_expressionListToAsgType, h_qubitListToAsgTexpr, h_gateOperandsLoop, h_expressionListToAsgTexpr, h_exprsLoop, h_blockExprToAsgStmtList, h_stmtsLoop, h_blockExprToAsgType, h_blockOrStmtToAsgType, h_classicalDeclarationStatementToAsgStmt, h_assignmentStmtToAsgStmt, h_indexedIdentifierToAsgType, h_indexOperatorsLoop⟩ := ih
  unfold Oq3.Sema.setExpressionToAsgType
  try simp only [withScope, bind_assoc, pure_bind]
  post

set_option maxHeartbeats 4000000 in
theorem rangeExpressionToAsgType_sk_step (fuel : Nat) (ih : AllSk fuel) (r : Ast.RangeExpr) :
    Post (Oq3.Sema.rangeExpressionToAsgType (fuel + 1) r) (fun x => Ast.range NM r = [Asg.texpr x.1, Asg.optTexpr x.2.1, Asg.texpr x.2.2]) := by
  obtain ⟨h_stmtToAsgStmt, h_caseExprsLoop, h_exprStmtToAsgStmt, h_modifiersLoop, h_parenExprToAsgTexpr, h_exprToAsgTexpr, h_setExpressionToAsgType, h_rangeExpressionToAsgType, h_gateCallExprToAsgStmt, h_callExprToAsgTexpr, h_gateOperandToAsgTexpr, h_indexOperatorToAsgType, h_expressionListToAsgType, h_qubitListToAsgTexpr, h_gateOperandsLoop, h_expressionListToAsgTexpr, h_exprsLoop, h_blockExprToAsgStmtList, h_stmtsLoop, h_blockExprToAsgType, h_blockOrStmtToAsgType, h_classicalDeclarationStatementToAsgStmt, h_assignmentStmtToAsgStmt, h_indexedIdentifierToAsgType, h_indexOperatorsLoop⟩ := ih
  unfold Oq3.Sema.rangeExpressionToAsgType
  try simp only [withScope, bind_assoc, pure_bind]
  post

set_option maxHeartbeats 4000000 in
theorem gateCallExprToAsgStmt_sk_step (fuel : Nat) (ih : AllSk fuel) (g : Ast.GateCallExpr) (ms : List GateModifier) :
    Post (Oq3.Sema.gateCallExprToAsgStmt (fuel + 1) g ms) (fun r => some (Ast.gateCall NM g (Asg.modifiers ms)) = r.map Asg.stmt) := by
  obtain ⟨h_stmtToAsgStmt, h_caseExprsLoop, h_exprStmtToAsgStmt, h_modifiersLoop, h_parenExprToAsgTexpr, h_exprToAsgTexpr, h_setExpressionToAsgType, h_rangeExpressionToAsgType, h_gateCallExprToAsgStmt, h_callExprToAsgTexpr, h_gateOperandToAsgTexpr, h_indexOperatorToAsgType, h_expressionListToAsgType, h_qubitListToAsgTexpr, h_gateOperandsLoop, h_expressionListToAsgTexpr, h_exprsLoop, h_blockExprToAsgStmtList, h_stmtsLoop, h_blockExprToAsgType, h_blockOrStmtToAsgType, h_classicalDeclarationStatementToAsgStmt, h_assignmentStmtToAsgStmt, h_indexedIdentifierToAsgType, h_indexOperatorsLoop⟩ := ih
  unfold Oq3.Sema.gateCallExprToAsgStmt
  try simp only [withScope, bind_assoc, pure_bind]
  post

set_option maxHeartbeats 4000000 in
theorem callExprToAsgTexpr_sk_step (fuel : Nat) (ih : AllSk fuel) (sp : Ast.Span) (al : Option Ast.ArgList) (i : Option Ast.Identifier) :
    Post (Oq3.Sema.callExprToAsgTexpr (fuel + 1) sp al i) (fun r => Skel.node "Call" [Ast.optArgList NM al] = Asg.texpr r) := by
  obtain ⟨h_stmtToAsgStmt, h_caseExprsLoop, h_exprStmtToAsgStmt, h_modifiersLoop, h_parenExprToAsgTexpr, h_exprToAsgTexpr, h_setExpressionToAsgType, h_rangeExpressionToAsgType, h_gateCallExprToAsgStmt, h_callExprToAsgTexpr, h_gateOperandToAsgTexpr, h_indexOperatorToAsgType, h_expressionListToAsgType, h_qubitListToAsgTexpr, h_gateOperandsLoop, h_expressionListToAsgTexpr, h_exprsLoop, h_blockExprToAsgStmtList, h_stmtsLoop, h_blockExprToAsgType, h_blockOrStmtToAsgType, h_classicalDeclarationStatementToAsgStmt, h_assignmentStmtToAsgStmt, h_indexedIdentifierToAsgType, h_indexOperatorsLoop⟩ := ih
  unfold Oq3.Sema.callExprToAsgTexpr
  try simp only [withScope, bind_assoc, pure_bind]
  post

set_option maxHeartbeats 4000000 in
theorem gateOperandToAsgTexpr_sk_step (fuel : Nat) (ih : AllSk fuel) (g : Ast.GateOperand) :
    Post (Oq3.Sema.gateOperandToAsgTexpr (fuel + 1) g) (fun r => Skel.node "GateOperand" [Ast.gateOperand NM g] = Asg.texpr r) := by
  obtain ⟨h_stmtToAsgStmt, h_caseExprsLoop, h_exprStmtToAsgStmt, h_modifiersLoop, h_parenExprToAsgTexpr, h_exprToAsgTexpr, h_setExpressionToAsgType, h_rangeExpressionToAsgType, h_gateCallExprToAsgStmt, h_callExprToAsgTexpr, h_gateOperandToAsgTexpr, h_indexOperatorToAsgType, h_expressionListToAsgType, h_qubitListToAsgTexpr, h_gateOperandsLoop, h_expressionListToAsgTexpr, h_exprsLoop, h_blockExprToAsgStmtList, h_stmtsLoop, h_blockExprToAsgType, h_blockOrStmtToAsgType, h_classicalDeclarationStatementToAsgStmt, h_assignmentStmtToAsgStmt, h_indexedIdentifierToAsgType, h_indexOperatorsLoop⟩ := ih
  unfold Oq3.Sema.gateOperandToAsgTexpr
  try simp only [withScope, bind_assoc, pure_bind]
  post

set_option maxHeartbeats 4000000 in
theorem indexOperatorToAsgType_sk_step (fuel : Nat) (ih : AllSk fuel) (i : Ast.IndexOperator) :
    Post (Oq3.Sema.indexOperatorToAsgType (fuel + 1) i) (fun r => Ast.indexOp NM i = Asg.indexOp r) := by
  obtain ⟨h_stmtToAsgStmt, h_caseExprsLoop, h_exprStmtToAsgStmt, h_modifiersLoop, h_parenExprToAsgTexpr, h_exprToAsgTexpr, h_setExpressionToAsgType, h_rangeExpressionToAsgType, h_gateCallExprToAsgStmt, h_callExprToAsgTexpr, h_gateOperandToAsgTexpr, h_indexOperatorToAsgType, h_expressionListToAsgType, h_qubitListToAsgTexpr, h_gateOperandsLoop, h_expressionListToAsgTexpr, h_exprsLoop, h_blockExprToAsgStmtList, h_stmtsLoop, h_blockExprToAsgType, h_blockOrStmtToAsgType, h_classicalDeclarationStatementToAsgStmt, h_assignmentStmtToAsgStmt, h_indexedIdentifierToAsgType, h_indexOperatorsLoop⟩ := ih
  unfold Oq3.Sema.indexOperatorToAsgType
  try simp only [withScope, bind_assoc, pure_bind]
  post

set_option maxHeartbeats 4000000 in
theorem expressionListToAsgType_sk_step (fuel : Nat) (ih : AllSk fuel) (el : Ast.ExpressionList) :
    Post (Oq3.Sema.expressionListToAsgType (fuel + 1) el) (fun r => Ast.exprList NM el = Asg.texprs r) := by
  obtain ⟨h_stmtToAsgStmt, h_caseExprsLoop, h_exprStmtToAsgStmt, h_modifiersLoop, h_parenExprToAsgTexpr, h_exprToAsgTexpr, h_setExpressionToAsgType, h_rangeExpressionToAsgType, h_gateCallExprToAsgStmt, h_callExprToAsgTexpr, h_gateOperandToAsgTexpr, h_indexOperatorToAsgType, h_expressionListToAsgType, h_qubitListToAsgTexpr, h_gateOperandsLoop, h_expressionListToAsgTexpr, h_exprsLoop, h_blockExprToAsgStmtList, h_stmtsLoop, h_blockExprToAsgType, h_blockOrStmtToAsgType, h_classicalDeclarationStatementToAsgStmt, h_assignmentStmtToAsgStmt, h_indexedIdentifierToAsgType, h_indexOperatorsLoop⟩ := ih
  unfold Oq3.Sema.expressionListToAsgType
  try simp only [withScope, bind_assoc, pure_bind]
  post

set_option maxHeartbeats 4000000 in
theorem qubitListToAsgTexpr_sk_step (fuel : Nat) (ih : AllSk fuel) (ql : Option Ast.QubitList) :
    Post (Oq3.Sema.qubitListToAsgTexpr (fuel + 1) ql) (fun r => Ast.optQubitList NM ql = Asg.texprs r) := by
  obtain ⟨h_stmtToAsgStmt, h_caseExprsLoop, h_exprStmtToAsgStmt, h_modifiersLoop, h_parenExprToAsgTexpr, h_exprToAsgTexpr, h_setExpressionToAsgType, h_rangeExpressionToAsgType, h_gateCallExprToAsgStmt, h_callExprToAsgTexpr, h_gateOperandToAsgTexpr, h_indexOperatorToAsgType, h_expressionListToAsgType, h_qubitListToAsgTexpr, h_gateOperandsLoop, h_expressionListToAsgTexpr, h_exprsLoop, h_blockExprToAsgStmtList, h_stmtsLoop, h_blockExprToAsgType, h_blockOrStmtToAsgType, h_classicalDeclarationStatementToAsgStmt, h_assignmentStmtToAsgStmt, h_indexedIdentifierToAsgType, h_indexOperatorsLoop⟩ := ih
  unfold Oq3.Sema.qubitListToAsgTexpr
  try simp only [withScope, bind_assoc, pure_bind]
  post

set_option maxHeartbeats 4000000 in
theorem gateOperandsLoop_sk_step (fuel : Nat) (ih : AllSk fuel) (gs : List Ast.GateOperand) :
    Post (Oq3.Sema.gateOperandsLoop (fuel + 1) gs) (fun r => Ast.gateOperands NM gs = Asg.texprs r) := by
  obtain ⟨h_stmtToAsgStmt, h_caseExprsLoop, h_exprStmtToAsgStmt, h_modifiersLoop, h_parenExprToAsgTexpr, h_exprToAsgTexpr, h_setExpressionToAsgType, h_rangeExpressionToAsgType, h_gateCallExprToAsgStmt, h_callExprToAsgTexpr, h_gateOperandToAsgTexpr, h_indexOperatorToAsgType, h_expressionListToAsgType, h_qubitListToAsgTexpr, h_gateOperandsLoop, h_expressionListToAsgTexpr, h_exprsLoop, h_blockExprToAsgStmtList, h_stmtsLoop, h_blockExprToAsgType, h_blockOrStmtToAsgType, h_classicalDeclarationStatementToAsgStmt, h_assignmentStmtToAsgStmt, h_indexedIdentifierToAsgType, h_indexOperatorsLoop⟩ := ih
  unfold Oq3.Sema.gateOperandsLoop
  try simp only [withScope, bind_assoc, pure_bind]
  post

set_option maxHeartbeats 4000000 in
theorem expressionListToAsgTexpr_sk_step (fuel : Nat) (ih : AllSk fuel) (el : Ast.ExpressionList) :
    Post (Oq3.Sema.expressionListToAsgTexpr (fuel + 1) el) (fun r => Ast.exprList NM el = Asg.texprs r) := by
  obtain ⟨h_stmtToAsgStmt, h_caseExprsLoop, h_exprStmtToAsgStmt, h_modifiersLoop, h_parenExprToAsgTexpr, h_exprToAsgTexpr, h_setExpressionToAsgType, h_rangeExpressionToAsgType, h_gateCallExprToAsgStmt, h_callExprToAsgTexpr, h_gateOperandToAsgTexpr, h_indexOperatorToAsgType, h_expressionListToAsgType, h_qubitListToAsgTexpr, h_gateOperandsLoop, h_expressionListToAsgTexpr, h_exprsLoop, h_blockExprToAsgStmtList, h_stmtsLoop, h_blockExprToAsgType, h_blockOrStmtToAsgType, h_classicalDeclarationStatementToAsgStmt, h_assignmentStmtToAsgStmt, h_indexedIdentifierToAsgType, h_indexOperatorsLoop⟩ := ih
  unfold Oq3.Sema.expressionListToAsgTexpr
  try simp only [withScope, bind_assoc, pure_bind]
  post

set_option maxHeartbeats 4000000 in
theorem exprsLoop_sk_step (fuel : Nat) (ih : AllSk fuel) (es : List Ast.Expr) :
    Post (Oq3.Sema.exprsLoop (fuel + 1) es) (fun r => Ast.exprs NM es = Asg.texprs r) := by
  obtain ⟨h_stmtToAsgStmt, h_caseExprsLoop, h_exprStmtToAsgStmt, h_modifiersLoop, h_parenExprToAsgTexpr, h_exprToAsgTexpr, h_setExpressionToAsgType, h_rangeExpressionToAsgType, h_gateCallExprToAsgStmt, h_callExprToAsgTexpr, h_gateOperandToAsgTexpr, h_indexOperatorToAsgType, h_expressionListToAsgType, h_qubitListToAsgTexpr, h_gateOperandsLoop, h_expressionListToAsgTexpr, h_exprsLoop, h_blockExprToAsgStmtList, h_stmtsLoop, h_blockExprToAsgType, h_blockOrStmtToAsgType, h_classicalDeclarationStatementToAsgStmt, h_assignmentStmtToAsgStmt, h_indexedIdentifierToAsgType, h_indexOperatorsLoop⟩ := ih
  unfold Oq3.Sema.exprsLoop
  try simp only [withScope, bind_assoc, pure_bind]
  post

set_option maxHeartbeats 4000000 in
theorem blockExprToAsgStmtList_sk_step (fuel : Nat) (ih : AllSk fuel) (b : Ast.BlockExpr) :
    Post (Oq3.Sema.blockExprToAsgStmtList (fuel + 1) b) (fun r => block NM b = Asg.stmts r) := by
  obtain ⟨h_stmtToAsgStmt, h_caseExprsLoop, h_exprStmtToAsgStmt, h_modifiersLoop, h_parenExprToAsgTexpr, h_exprToAsgTexpr, h_setExpressionToAsgType, h_rangeExpressionToAsgType, h_gateCallExprToAsgStmt, h_callExprToAsgTexpr, h_gateOperandToAsgTexpr, h_indexOperatorToAsgType, h_expressionListToAsgType, h_qubitListToAsgTexpr, h_gateOperandsLoop, h_expressionListToAsgTexpr, h_exprsLoop, h_blockExprToAsgStmtList, h_stmtsLoop, h_blockExprToAsgType, h_blockOrStmtToAsgType, h_classicalDeclarationStatementToAsgStmt, h_assignmentStmtToAsgStmt, h_indexedIdentifierToAsgType, h_indexOperatorsLoop⟩ := ih
  unfold Oq3.Sema.blockExprToAsgStmtList
  try simp only [withScope, bind_assoc, pure_bind]
  post

set_option maxHeartbeats 4000000 in
theorem stmtsLoop_sk_step (fuel : Nat) (ih : AllSk fuel) (ss : List Ast.Stmt) :
    Post (Oq3.Sema.stmtsLoop (fuel + 1) ss) (fun r => stmts NM ss = Asg.stmts r) := by
  obtain ⟨h_stmtToAsgStmt, h_caseExprsLoop, h_exprStmtToAsgStmt, h_modifiersLoop, h_parenExprToAsgTexpr, h_exprToAsgTexpr, h_setExpressionToAsgType, h_rangeExpressionToAsgType, h_gateCallExprToAsgStmt, h_callExprToAsgTexpr, h_gateOperandToAsgTexpr, h_indexOperatorToAsgType, h_expressionListToAsgType, h_qubitListToAsgTexpr, h_gateOperandsLoop, h_expressionListToAsgTexpr, h_exprsLoop, h_blockExprToAsgStmtList, h_stmtsLoop, h_blockExprToAsgType, h_blockOrStmtToAsgType, h_classicalDeclarationStatementToAsgStmt, h_assignmentStmtToAsgStmt, h_indexedIdentifierToAsgType, h_indexOperatorsLoop⟩ := ih
  unfold Oq3.Sema.stmtsLoop
  try simp only [withScope, bind_assoc, pure_bind]
  post

set_option maxHeartbeats 4000000 in
theorem blockExprToAsgType_sk_step (fuel : Nat) (ih : AllSk fuel) (b : Ast.BlockExpr) :
    Post (Oq3.Sema.blockExprToAsgType (fuel + 1) b) (fun r => block NM b = Asg.block r) := by
  obtain ⟨h_stmtToAsgStmt, h_caseExprsLoop, h_exprStmtToAsgStmt, h_modifiersLoop, h_parenExprToAsgTexpr, h_exprToAsgTexpr, h_setExpressionToAsgType, h_rangeExpressionToAsgType, h_gateCallExprToAsgStmt, h_callExprToAsgTexpr, h_gateOperandToAsgTexpr, h_indexOperatorToAsgType, h_expressionListToAsgType, h_qubitListToAsgTexpr, h_gateOperandsLoop, h_expressionListToAsgTexpr, h_exprsLoop, h_blockExprToAsgStmtList, h_stmtsLoop, h_blockExprToAsgType, h_blockOrStmtToAsgType, h_classicalDeclarationStatementToAsgStmt, h_assignmentStmtToAsgStmt, h_indexedIdentifierToAsgType, h_indexOperatorsLoop⟩ := ih
  unfold Oq3.Sema.blockExprToAsgType
  try simp only [withScope, bind_assoc, pure_bind]
  post

set_option maxHeartbeats 4000000 in
theorem blockOrStmtToAsgType_sk_step (fuel : Nat) (ih : AllSk fuel) (b : Ast.BlockOrStmt) :
    Post (Oq3.Sema.blockOrStmtToAsgType (fuel + 1) b) (fun r => body NM b = Asg.block r) := by
  obtain ⟨h_stmtToAsgStmt, h_caseExprsLoop, h_exprStmtToAsgStmt, h_modifiersLoop, h_parenExprToAsgTexpr, h_exprToAsgTexpr, h_setExpressionToAsgType, h_rangeExpressionToAsgType, h_gateCallExprToAsgStmt, h_callExprToAsgTexpr, h_gateOperandToAsgTexpr, h_indexOperatorToAsgType, h_expressionListToAsgType, h_qubitListToAsgTexpr, h_gateOperandsLoop, h_expressionListToAsgTexpr, h_exprsLoop, h_blockExprToAsgStmtList, h_stmtsLoop, h_blockExprToAsgType, h_blockOrStmtToAsgType, h_classicalDeclarationStatementToAsgStmt, h_assignmentStmtToAsgStmt, h_indexedIdentifierToAsgType, h_indexOperatorsLoop⟩ := ih
  unfold Oq3.Sema.blockOrStmtToAsgType
  try simp only [withScope, bind_assoc, pure_bind]
  post

set_option maxHeartbeats 4000000 in
theorem classicalDeclarationStatementToAsgStmt_sk_step (fuel : Nat) (ih : AllSk fuel) (sp : Ast.Span) (a : Bool) (st : Option Ast.ScalarType) (k : Bool) (n : Option Ast.Name) (e : Option Ast.Expr) :
    Post (Oq3.Sema.classicalDeclarationStatementToAsgStmt (fuel + 1) sp a st k n e) (fun r => Skel.node "DeclareClassical" [opt (Ast.optExpr NM e)] = Asg.stmt r) := by
  obtain ⟨h_stmtToAsgStmt, h_caseExprsLoop, h_exprStmtToAsgStmt, h_modifiersLoop, h_parenExprToAsgTexpr, h_exprToAsgTexpr, h_setExpressionToAsgType, h_rangeExpressionToAsgType, h_gateCallExprToAsgStmt, h_callExprToAsgTexpr, h_gateOperandToAsgTexpr, h_indexOperatorToAsgType, h_expressionListToAsgType, h_qubitListToAsgTexpr, h_gateOperandsLoop, h_expressionListToAsgTexpr, h_exprsLoop, h_blockExprToAsgStmtList, h_stmtsLoop, h_blockExprToAsgType, h_blockOrStmtToAsgType, h_classicalDeclarationStatementToAsgStmt, h_assignmentStmtToAsgStmt, h_indexedIdentifierToAsgType, h_indexOperatorsLoop⟩ := ih
  unfold Oq3.Sema.classicalDeclarationStatementToAsgStmt
  try simp only [withScope, bind_assoc, pure_bind]
  post

set_option maxHeartbeats 4000000 in
theorem assignmentStmtToAsgStmt_sk_step (fuel : Nat) (ih : AllSk fuel) (sp : Ast.Span) (i : Option Ast.Identifier) (rhs : Option Ast.Expr) (ii : Option Ast.IndexedIdentifier) :
    Post (Oq3.Sema.assignmentStmtToAsgStmt (fuel + 1) sp i rhs ii) (fun r => some (Skel.node "Assignment" [Ast.lvalue NM i ii, opt (Ast.optExpr NM rhs)]) = r.map Asg.stmt) := by
  obtain ⟨h_stmtToAsgStmt, h_caseExprsLoop, h_exprStmtToAsgStmt, h_modifiersLoop, h_parenExprToAsgTexpr, h_exprToAsgTexpr, h_setExpressionToAsgType, h_rangeExpressionToAsgType, h_gateCallExprToAsgStmt, h_callExprToAsgTexpr, h_gateOperandToAsgTexpr, h_indexOperatorToAsgType, h_expressionListToAsgType, h_qubitListToAsgTexpr, h_gateOperandsLoop, h_expressionListToAsgTexpr, h_exprsLoop, h_blockExprToAsgStmtList, h_stmtsLoop, h_blockExprToAsgType, h_blockOrStmtToAsgType, h_classicalDeclarationStatementToAsgStmt, h_assignmentStmtToAsgStmt, h_indexedIdentifierToAsgType, h_indexOperatorsLoop⟩ := ih
  unfold Oq3.Sema.assignmentStmtToAsgStmt
  try simp only [withScope, bind_assoc, pure_bind]
  post

set_option maxHeartbeats 4000000 in
theorem indexedIdentifierToAsgType_sk_step (fuel : Nat) (ih : AllSk fuel) (ii : Ast.IndexedIdentifier) :
    Post (Oq3.Sema.indexedIdentifierToAsgType (fuel + 1) ii) (fun r => Ast.indexedIdent NM ii = Asg.indexedIdent r.1) := by
  obtain ⟨h_stmtToAsgStmt, h_caseExprsLoop, h_exprStmtToAsgStmt, h_modifiersLoop, h_parenExprToAsgTexpr, h_exprToAsgTexpr, h_setExpressionToAsgType, h_rangeExpressionToAsgType, h_gateCallExprToAsgStmt, h_callExprToAsgTexpr, h_gateOperandToAsgTexpr, h_indexOperatorToAsgType, h_expressionListToAsgType, h_qubitListToAsgTexpr, h_gateOperandsLoop, h_expressionListToAsgTexpr, h_exprsLoop, h_blockExprToAsgStmtList, h_stmtsLoop, h_blockExprToAsgType, h_blockOrStmtToAsgType, h_classicalDeclarationStatementToAsgStmt, h_assignmentStmtToAsgStmt, h_indexedIdentifierToAsgType, h_indexOperatorsLoop⟩ := ih
  unfold Oq3.Sema.indexedIdentifierToAsgType
  try simp only [withScope, bind_assoc, pure_bind]
  post

set_option maxHeartbeats 400000 in
theorem indexOperatorsLoop_sk_step (fuel : Nat) (ih : AllSk fuel) (ixs : List Ast.IndexOperator) :
    Post (Oq3.Sema.indexOperatorsLoop (fuel + 1) ixs) (fun r => Ast.indexOps NM ixs = Asg.indexOps r) := by
  obtain ⟨h_stmtToAsgStmt, h_caseExprsLoop, h_exprStmtToAsgStmt, h_modifiersLoop, h_parenExprToAsgTexpr, h_exprToAsgTexpr, h_setExpressionToAsgType, h_rangeExpressionToAsgType, h_gateCallExprToAsgStmt, h_callExprToAsgTexpr, h_gateOperandToAsgTexpr, h_indexOperatorToAsgType, h_expressionListToAsgType, h_qubitListToAsgTexpr, h_gateOperandsLoop, h_expressionListToAsgTexpr, h_exprsLoop, h_blockExprToAsgStmtList, h_stmtsLoop, h_blockExprToAsgType, h_blockOrStmtToAsgType, h_classicalDeclarationStatementToAsgStmt, h_assignmentStmtToAsgStmt, h_indexedIdentifierToAsgType, h_indexOperatorsLoop⟩ := ih
  unfold Oq3.Sema.indexOperatorsLoop
  try simp only [withScope, bind_assoc, pure_bind]
  post

theorem allSk (fuel : Nat) : AllSk fuel := by
  induction fuel with
  | zero =>
    constructor
    · intros; unfold Oq3.Sema.stmtToAsgStmt; post
    · intros; unfold Oq3.Sema.caseExprsLoop; post
    · intros; unfold Oq3.Sema.exprStmtToAsgStmt; post
    · intros; unfold Oq3.Sema.modifiersLoop; post
    · intros; unfold Oq3.Sema.parenExprToAsgTexpr; post
    · intros; unfold Oq3.Sema.exprToAsgTexpr; post
    · intros; unfold Oq3.Sema.setExpressionToAsgType; post
    · intros; unfold Oq3.Sema.rangeExpressionToAsgType; post
    · intros; unfold Oq3.Sema.gateCallExprToAsgStmt; post
    · intros; unfold Oq3.Sema.callExprToAsgTexpr; post
    · intros; unfold Oq3.Sema.gateOperandToAsgTexpr; post
    · intros; unfold Oq3.Sema.indexOperatorToAsgType; post
    · intros; unfold Oq3.Sema.expressionListToAsgType; post
    · intros; unfold Oq3.Sema.qubitListToAsgTexpr; post
    · intros; unfold Oq3.Sema.gateOperandsLoop; post
    · intros; unfold Oq3.Sema.expressionListToAsgTexpr; post
    · intros; unfold Oq3.Sema.exprsLoop; post
    · intros; unfold Oq3.Sema.blockExprToAsgStmtList; post
    · intros; unfold Oq3.Sema.stmtsLoop; post
    · intros; unfold Oq3.Sema.blockExprToAsgType; post
    · intros; unfold Oq3.Sema.blockOrStmtToAsgType; post
    · intros; unfold Oq3.Sema.classicalDeclarationStatementToAsgStmt; post
    · intros; unfold Oq3.Sema.assignmentStmtToAsgStmt; post
    · intros; unfold Oq3.Sema.indexedIdentifierToAsgType; post
    · intros; unfold Oq3.Sema.indexOperatorsLoop; post
  | succ fuel ih =>
    constructor
    · intros; exact stmtToAsgStmt_sk_step fuel ih _
    · intros; exact caseExprsLoop_sk_step fuel ih _
    · intros; exact exprStmtToAsgStmt_sk_step fuel ih _
    · intros; exact modifiersLoop_sk_step fuel ih _
    · intros; exact parenExprToAsgTexpr_sk_step fuel ih _
    · intros; exact exprToAsgTexpr_sk_step fuel ih _
    · intros; exact setExpressionToAsgType_sk_step fuel ih _
    · intros; exact rangeExpressionToAsgType_sk_step fuel ih _
    · intros; exact gateCallExprToAsgStmt_sk_step fuel ih _ _
    · intros; exact callExprToAsgTexpr_sk_step fuel ih _ _ _
    · intros; exact gateOperandToAsgTexpr_sk_step fuel ih _
    · intros; exact indexOperatorToAsgType_sk_step fuel ih _
    · intros; exact expressionListToAsgType_sk_step fuel ih _
    · intros; exact qubitListToAsgTexpr_sk_step fuel ih _
    · intros; exact gateOperandsLoop_sk_step fuel ih _
    · intros; exact expressionListToAsgTexpr_sk_step fuel ih _
    · intros; exact exprsLoop_sk_step fuel ih _
    · intros; exact blockExprToAsgStmtList_sk_step fuel ih _
    · intros; exact stmtsLoop_sk_step fuel ih _
    · intros; exact blockExprToAsgType_sk_step fuel ih _
    · intros; exact blockOrStmtToAsgType_sk_step fuel ih _
    · intros; exact classicalDeclarationStatementToAsgStmt_sk_step fuel ih _ _ _ _ _ _
    · intros; exact assignmentStmtToAsgStmt_sk_step fuel ih _ _ _ _
    · intros; exact indexedIdentifierToAsgType_sk_step fuel ih _
    · intros; exact indexOperatorsLoop_sk_step fuel ih _

/-! ### skeleton preservation -/

/-- **skeleton preservation, statements**: whenever the translation of a statement returns
normally (any fuel, any context), the skeleton of what it returns is the skeleton predicted from
the AST alone — kinds, roles, order of operands / arguments / qubit operands / index lists /
modifiers, operator identity (with `**` read as concatenation: F08b), literal class, nested
blocks. -/
theorem skeleton_preserved_stmt {fuel s c r c'} (h : stmtToAsgStmt fuel s c = .ok (r, c')) :
    r.map Asg.stmt = expectedW astBinaryOpNameActual s :=
  ((allSk fuel).stmtToAsgStmt s c r c' h).symm

/-- **skeleton preservation, blocks** -/
theorem skeleton_preserved_block {fuel ss c r c'} (h : stmtsLoop fuel ss c = .ok (r, c')) :
    Asg.stmts r = stmts astBinaryOpNameActual ss :=
  ((allSk fuel).stmtsLoop ss c r c' h).symm

/-- **skeleton preservation, expressions** -/
theorem skeleton_preserved_expr {fuel e c r c'} (h : exprToAsgTexpr fuel e c = .ok (r, c')) :
    r.map Asg.texpr = Ast.optExpr astBinaryOpNameActual e :=
  ((allSk fuel).exprToAsgTexpr e c r c' h).symm

/-- the only operator on which the produced name differs from the declared one is `**` -/
theorem actual_name_eq (op : Ast.BinaryOp) (h : op ≠ .powerOp) :
    astBinaryOpNameActual op = astBinaryOpName op := by
  cases op <;> first | rfl | exact absurd rfl h

/-- the skeleton of the statement emitted for a translation `k` with `anns` pending -/
def wrapSk (k : Skel) (anns : List String) : Skel :=
  match anns with
  | [] => k
  | _ :: _ => .node "Annotated" [k, .node "Annotations" (anns.map leaf)]

theorem stmt_wrap (t : Stmt) (anns : List String) : Asg.stmt (wrap t anns) = wrapSk (Asg.stmt t) anns := by
  cases anns <;> simp [wrap, wrapSk, Asg.stmt]


/-- pointwise relation between two lists of the same length -/
inductive Forall₂ {α β : Type} (R : α → β → Prop) : List α → List β → Prop
  | nil : Forall₂ R [] []
  | cons {a b as bs} : R a b → Forall₂ R as bs → Forall₂ R (a :: as) (b :: bs)

theorem topStmtM_sk {fuel s c r c1} (h : topStmtM fuel s c = .ok (r, c1)) :
    r.map Asg.stmt = expectedW astBinaryOpNameActual s := by
  cases s
  case includeStmt sp file =>
    have hn : Post (topStmtM fuel (.includeStmt sp file)) (fun r => r = none) := by
      unfold topStmtM
      repeat' first
        | with_reducible exact Post.fail _
        | with_reducible exact Post.throw _
        | with_reducible exact Post.fail_bind _
        | with_reducible refine Post.bind_any (fun _ => ?_)
        | with_reducible exact Post.pure rfl
        | split
        | dsimp only
    rw [hn c r c1 h]; rfl
  all_goals (simp only [topStmtM] at h; exact skeleton_preserved_stmt h)

/-- **skeleton preservation, program**: the statements the top-level loop appends are, in source
order, the statements that have a translation, each with the expected skeleton, wrapped with the
annotations pending at that moment -/
theorem skeleton_preserved_top {fuel ss c out c'} (h : TopRun fuel ss c out c') :
    Forall₂ (fun k t => ∃ anns, Asg.stmt t = wrapSk k anns)
      (ss.filterMap (expectedW astBinaryOpNameActual)) out := by
  induction h with
  | nil => exact .nil
  | skip h1 _ ih =>
    have := topStmtM_sk h1
    simp only [Option.map_none] at this
    simp only [List.filterMap_cons, ← this]
    exact ih
  | emit h1 _ _ ih =>
    have := topStmtM_sk h1
    simp only [Option.map_some] at this
    simp only [List.filterMap_cons, ← this]
    exact .cons ⟨_, stmt_wrap _ _⟩ ih

theorem skeleton_preserved {fuel ss c c'} (h : syntaxToSemanticLoop fuel ss c = .ok (⟨⟩, c')) :
    ∃ out, c'.program = c.program ++ out ∧
      Forall₂ (fun k t => ∃ anns, Asg.stmt t = wrapSk k anns)
        (ss.filterMap (expectedW astBinaryOpNameActual)) out := by
  obtain ⟨out, hrun, hprog⟩ := top_level_program h
  exact ⟨out, hprog, skeleton_preserved_top hrun⟩



/-! ### witness: annotations inside blocks -/

/-- `if (true) { @a ⏎ break; }` -/
def nestedAnnotationProgram : List Ast.Stmt :=
  [.ifStmt ⟨0, 30⟩ (some (.literal ⟨⟨4, 8⟩, .bool true⟩))
    (.ok (.blockExpr (.mk ⟨10, 30⟩ [.annotationStatement ⟨12, 14⟩ "@a", .breakStmt ⟨15, 21⟩]))) none]

/-- FINDING (nested annotation): an annotation inside a block is not attached to the statement
that follows it in the block; it stays pending and ends up on the ENCLOSING top-level statement -/
theorem witness_nested_annotation_leaks :
    (match syntaxToSemanticLoop 20 nestedAnnotationProgram {} with
     | .ok (_, c) => some c.program
     | .error _ => none) =
    some [.annotatedStmt (.ifStmt (boolLiteralToTexpr true) (.mk [.breakStmt]) none) ["@a"]] := by
  rfl

end Oq3.C06
