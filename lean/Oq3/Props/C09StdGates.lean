/-
C09 / C13 — the standard library, parametrically in the table.

`Oq3/Gen/StdGates.lean` is translated from `symbols.rs` on every run.  The statements here do not
mention the table's content: for ANY gate table whose names are pairwise distinct and not yet bound in
the current scope, `standard_library_gates` binds every gate, in order, with exactly the arities the
table gives, reports no name as already bound, and afterwards every name of the table resolves to a
gate of exactly that arity.  The side condition is decidable; it is discharged for the translated
table by `decide`, so an edit of the source table that introduces a duplicate (or a name that collides
with a built-in) fails HERE, at a named theorem, with the offending name as the witness.
-/
import Oq3.Model.Symbols

namespace Oq3.Symbols
open Oq3.Types

/-- the fold of `standard_library_gates` over an arbitrary table, from an arbitrary accumulator -/
def bindGates (gs : List (Name × Nat × Nat)) (t : SymTab) (ns : List Name) : SymTab × List Name :=
  gs.foldl (fun (acc : SymTab × List Name) (g : Name × Nat × Nat) =>
    match acc.1.step (.bind g.1 (T.gate g.2.1 g.2.2)) with
    | (t', .bound _) => (t', acc.2)
    | (t', _) => (t', acc.2 ++ [g.1])) (t, ns)

theorem standardLibraryGates_eq (t : SymTab) : t.standardLibraryGates = bindGates stdGates t [] := rfl

theorem get_insert (s : Scope) (n m : Name) (id : Nat) :
    (s.insert n id).get m = if n = m then some id else s.get m := by
  unfold Scope.insert Scope.get
  by_cases h : n = m
  · subst h; simp
  · have hb : (n == m) = false := by simpa using h
    simp only [List.find?_cons, hb, h, if_false, List.find?_filter]
    congr 2
    funext p
    by_cases hp : p.1 = m
    · have : p.1 ≠ n := fun e => h (e ▸ hp)
      simp [hp, this]
      exact fun e => h e.symm
    · simp [hp]

/-- the decidable side condition on a table, relative to the scope it is bound in -/
def TableOk (gs : List (Name × Nat × Nat)) (s : Scope) : Bool :=
  (gs.map (·.1)).Nodup ∧ gs.all (fun g => !(s.containsName g.1))

theorem bindGates_fresh (gs : List (Name × Nat × Nat)) :
    ∀ (t : SymTab) (ns : List Name) (s : Scope) (rest : List Scope),
      t.stack = s :: rest → TableOk gs s = true →
      ∃ s', (bindGates gs t ns).1.stack = s' :: rest ∧
        (bindGates gs t ns).2 = ns ∧
        (bindGates gs t ns).1.all = t.all ++ gs.map (fun g => ⟨g.1, T.gate g.2.1 g.2.2⟩) ∧
        (bindGates gs t ns).1.counter = t.counter + gs.length ∧
        (∀ m, s'.get m =
          match gs.findIdx? (fun g => g.1 == m) with
          | some i => some (t.counter + i)
          | none => s.get m) := by
  induction gs with
  | nil => intro t ns s rest hs _; exact ⟨s, hs, rfl, by simp [bindGates], by simp [bindGates], by intro m; simp⟩
  | cons g gs ih =>
    intro t ns s rest hs hok
    simp only [TableOk, List.map_cons, List.nodup_cons, List.all_cons, Bool.and_eq_true, decide_eq_true_eq,
      Bool.not_eq_true'] at hok
    obtain ⟨⟨hnot, hnd⟩, hfresh, hall⟩ := hok
    have hstep : t.step (.bind g.1 (T.gate g.2.1 g.2.2)) =
        ({ stack := s.insert g.1 t.counter :: rest, all := t.all ++ [⟨g.1, T.gate g.2.1 g.2.2⟩],
           counter := t.counter + 1 }, .bound t.counter) := by
      simp [SymTab.step, hs, hfresh, SymTab.newBindingNoCheck]
    have hunf : bindGates (g :: gs) t ns =
        bindGates gs { stack := s.insert g.1 t.counter :: rest, all := t.all ++ [⟨g.1, T.gate g.2.1 g.2.2⟩],
                       counter := t.counter + 1 } ns := by
      simp only [bindGates, List.foldl_cons, hstep]
    have hok' : TableOk gs (s.insert g.1 t.counter) = true := by
      simp only [TableOk, Bool.and_eq_true, decide_eq_true_eq, List.all_eq_true, Bool.not_eq_true']
      refine ⟨hnd, ?_⟩
      intro x hx
      have hx1 : g.1 ≠ x.1 := fun e => hnot (e ▸ List.mem_map_of_mem hx)
      have := (List.all_eq_true.mp hall) x hx
      simp only [Bool.not_eq_true'] at this
      simp only [Scope.containsName, get_insert, hx1, if_false] at this ⊢
      exact this
    obtain ⟨s', h1, h2, h3, h4, h5⟩ := ih { stack := s.insert g.1 t.counter :: rest, all := t.all ++ [⟨g.1, T.gate g.2.1 g.2.2⟩], counter := t.counter + 1 } ns (s.insert g.1 t.counter) rest rfl hok'
    rw [hunf]
    refine ⟨s', h1, h2, ?_, ?_, ?_⟩
    · rw [h3]; simp
    · rw [h4]; simp; omega
    · intro m
      rw [h5 m]
      by_cases hm : g.1 = m
      · subst hm
        have : gs.findIdx? (fun x => x.1 == g.1) = none := by
          rw [List.findIdx?_eq_none_iff]
          intro x hx
          have : x.1 ≠ g.1 := fun e => hnot (e ▸ List.mem_map_of_mem hx)
          simpa using this
        simp [List.findIdx?_cons, this, get_insert]
      · have hb : (g.1 == m) = false := by simpa using hm
        simp only [List.findIdx?_cons, hb, get_insert, hm, if_false]
        cases gs.findIdx? (fun x => x.1 == m) with
        | none => simp
        | some i => simp; omega

/-- `standard_library_gates` on a table with one scope that binds none of the library's names: nothing is
reported, the symbols appended are exactly the table's gates with the table's arities, in order -/
theorem standardLibraryGates_fresh (t : SymTab) (s : Scope) (rest : List Scope) (hs : t.stack = s :: rest)
    (hok : TableOk stdGates s = true) :
    t.standardLibraryGates.2 = [] ∧
    t.standardLibraryGates.1.all = t.all ++ stdGates.map (fun g => ⟨g.1, T.gate g.2.1 g.2.2⟩) ∧
    t.standardLibraryGates.1.counter = t.counter + stdGates.length := by
  obtain ⟨_, _, h2, h3, h4, _⟩ := bindGates_fresh stdGates t [] s rest hs hok
  rw [standardLibraryGates_eq]; exact ⟨h2, h3, h4⟩

/-- afterwards every gate of the table resolves, from the scope it was bound in, to a symbol that is a gate of
exactly the table's arity (given the table invariant `counter = all.length` of C19) -/
theorem standardLibraryGates_lookup (t : SymTab) (s : Scope) (rest : List Scope) (hs : t.stack = s :: rest)
    (hc : t.counter = t.all.length) (hok : TableOk stdGates s = true)
    (i : Nat) (g : Name × Nat × Nat) (hg : stdGates[i]? = some g) :
    (t.standardLibraryGates.1.step (.lookup g.1)).2 = .found (t.counter + i) g.1 (T.gate g.2.1 g.2.2) := by
  obtain ⟨s', h1, _, h3, _, h5⟩ := bindGates_fresh stdGates t [] s rest hs hok
  rw [standardLibraryGates_eq]
  have hidx : stdGates.findIdx? (fun x => x.1 == g.1) = some i := by
    have hnd : (stdGates.map (·.1)).Nodup := by
      have := hok; simp only [TableOk, Bool.and_eq_true, decide_eq_true_eq] at this; exact this.1
    rw [List.findIdx?_eq_some_iff_getElem]
    have hi : i < stdGates.length := by
      rcases Nat.lt_or_ge i stdGates.length with h | h
      · exact h
      · rw [List.getElem?_eq_none h] at hg; cases hg
    have hgi : stdGates[i] = g := by rw [List.getElem?_eq_getElem hi] at hg; exact Option.some.inj hg
    refine ⟨hi, by simp [hgi], ?_⟩
    intro j hj
    have hjl : j < stdGates.length := Nat.lt_trans hj hi
    have hne : stdGates[j].1 ≠ g.1 := by
      intro e
      have hji : (stdGates.map (·.1))[j]'(by simpa using hjl) = (stdGates.map (·.1))[i]'(by simpa using hi) := by
        simp [e, hgi]
      have : j = i := (List.getElem_inj hnd).mp hji
      omega
    simpa using hne
  have hget : s'.get g.1 = some (t.counter + i) := by rw [h5 g.1, hidx]
  have hlk : (bindGates stdGates t []).1.lookupId g.1 = some (t.counter + i) := by
    simp [SymTab.lookupId, h1, List.findSome?_cons, hget]
  have hall : (bindGates stdGates t []).1.all[t.counter + i]? = some ⟨g.1, T.gate g.2.1 g.2.2⟩ := by
    rw [h3, hc, List.getElem?_append_right (by omega)]
    simp [hg]
  simp [SymTab.step, hlk, hall]

/-! ## the side condition holds for the translated table, in the initial scope -/

/-- the translated table's names are pairwise distinct and none is a built-in constant or `U` -/
theorem gen_table_ok : TableOk stdGates (init.stack.headD ⟨[], .global⟩) = true := by decide +kernel

/-- hence: `include "stdgates.inc";` in a fresh table reports nothing and binds exactly the translated table -/
theorem stdgates_on_init :
    init.standardLibraryGates.2 = [] ∧
    init.standardLibraryGates.1.all = init.all ++ stdGates.map (fun g => ⟨g.1, T.gate g.2.1 g.2.2⟩) := by
  have hs : init.stack = (init.stack.headD ⟨[], .global⟩) :: [] := by decide +kernel
  have := standardLibraryGates_fresh init _ _ hs gen_table_ok
  exact ⟨this.1, this.2.1⟩

/-- non-vacuity and a use: `cu` is entry 29 of the translated table and resolves to `Gate(4, 2)` -/
example : (init.standardLibraryGates.1.step (.lookup "cu")).2 = .found (init.counter + 29) "cu" (T.gate 4 2) :=
  standardLibraryGates_lookup init _ [] (by decide +kernel) (by decide +kernel) gen_table_ok 29 ("cu", 4, 2) (by decide +kernel)

/-- the condition is not vacuous the other way either: a table with a repeated name is rejected by it, and the
model then reports the second occurrence as already bound (this is what a duplicated row in the source would do) -/
example : TableOk [("x", 0, 1), ("x", 1, 1)] ⟨[], .global⟩ = false := by decide
example : (bindGates [("x", 0, 1), ("x", 1, 1)] init []).2 = ["x"] := by decide +kernel

end Oq3.Symbols
