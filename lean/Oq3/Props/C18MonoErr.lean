/-
C18, auxiliary — fuel monotonicity of the semantic pass, outcomes included.

`Le2 x y`: every run of `x` that ends otherwise than by running out of fuel — normally, or with a
panic (or `unsupportedInclude`) — is a run of `y` with the same outcome.  For each of the twenty-five
functions `f` of the mutual block: `Le2 (f fuel a) (f (fuel + 1) a)` (`allMono2`), hence the same for
any larger fuel; in particular a panic does not depend on the fuel.

GENERATED proof script (same script as `C18Mono.lean`, for the stronger relation).
-/
import Lean
import Oq3.Props.C18Mono

namespace Oq3.C18E
open Oq3 Oq3.Types Oq3.Symbols Oq3.Sema

/-- every run of `x` that does not end with `Outcome.fuel` is a run of `y`, same outcome -/
structure Le2 {α} (x y : M α) : Prop where
  ok : ∀ c r, x c = .ok r → y c = .ok r
  err : ∀ c o, x c = .error o → o ≠ Outcome.fuel → y c = .error o

theorem Le2.toLe {α} {x y : M α} (h : Le2 x y) : Le x y := ⟨h.ok⟩

theorem Le2.refl {α} (x : M α) : Le2 x x := ⟨fun _ _ h => h, fun _ _ h _ => h⟩

theorem Le2.trans {α} {x y z : M α} (h1 : Le2 x y) (h2 : Le2 y z) : Le2 x z :=
  ⟨fun c r h => h2.ok c r (h1.ok c r h), fun c o h ho => h2.err c o (h1.err c o h ho) ho⟩

theorem Le2.bind {α β} {x y : M α} {f g : α → M β} (hx : Le2 x y) (hf : ∀ a, Le2 (f a) (g a)) :
    Le2 (x >>= f) (y >>= g) := by
  constructor
  · intro c r h
    rw [bind_run] at h ⊢
    cases hxc : x c with
    | error e => rw [hxc] at h; cases h
    | ok p =>
      obtain ⟨a, c1⟩ := p
      rw [hxc] at h
      rw [hx.ok c _ hxc]
      exact (hf a).ok c1 r h
  · intro c o h ho
    rw [bind_run] at h ⊢
    cases hxc : x c with
    | error e =>
      rw [hxc] at h
      simp only [bindRes, Except.error.injEq] at h
      subst h
      rw [hx.err c _ hxc ho]; rfl
    | ok p =>
      obtain ⟨a, c1⟩ := p
      rw [hxc] at h
      rw [hx.ok c _ hxc]
      exact (hf a).err c1 o h ho

theorem Le2.throw_fuel_left {α} (y : M α) : Le2 (throw Outcome.fuel : M α) y := by
  constructor
  · intro c r h; cases h
  · intro c o h ho
    simp only [throw_run, Except.error.injEq] at h
    exact absurd h.symm ho

theorem Le2.withScope {α} (k : ScopeType) {b1 b2 : M α} (h : Le2 b1 b2) :
    Le2 (Sema.withScope k b1) (Sema.withScope k b2) := by
  unfold Sema.withScope
  exact Le2.bind (Le2.refl _) (fun _ => Le2.bind h (fun _ => Le2.refl _))

open Lean Elab Tactic Meta in
/-- the two programs of a goal `Le x y` -/
def le2Progs (g : MVarId) : MetaM (Option (Lean.Expr × Lean.Expr)) := do
  let t ← instantiateMVars (← g.getType)
  let t := t.consumeMData
  if t.isAppOfArity ``Le2 3 then
    return some ((t.getArg! 1).consumeMData, (t.getArg! 2).consumeMData)
  else return none

open Lean Elab Tactic Meta in
/-- the two programs are syntactically the same (no recursive call inside) -/
elab "le2_same" : tactic => withMainContext do
  match ← le2Progs (← getMainGoal) with
  | some (x, y) => if x == y then pure () else throwError "different"
  | none => throwError "not a Le goal"

open Lean Elab Tactic Meta in
elab "le2_head " id:ident : tactic => withMainContext do
  let n ← realizeGlobalConstNoOverloadWithInfo id
  match ← le2Progs (← getMainGoal) with
  | some (x, _) =>
    match x.getAppFn.consumeMData with
    | Lean.Expr.const m _ => if m == n then pure () else throwError "head"
    | _ => throwError "head"
  | none => throwError "not a Le goal"

open Lean Elab Tactic Meta in
def isSplitHead2 (x : Lean.Expr) : MetaM Bool := do
  match x.getAppFn.consumeMData with
  | Lean.Expr.const m _ =>
    if m == ``ite || m == ``dite then return true
    else return (← isMatcher m)
  | _ => return false

open Lean Elab Tactic Meta in
elab "le2_is_split" : tactic => withMainContext do
  match ← le2Progs (← getMainGoal) with
  | some (x, _) => if ← isSplitHead2 x then pure () else throwError "not a split"
  | none => throwError "not a Le goal"

open Lean Elab Tactic Meta in
elab "le2_is_split_right" : tactic => withMainContext do
  match ← le2Progs (← getMainGoal) with
  | some (_, y) => if ← isSplitHead2 y then pure () else throwError "not a split"
  | none => throwError "not a Le goal"

open Lean Elab Tactic Meta in
/-- close the goal from a hypothesis `∀ xs, a = b → False` whose equation holds by `rfl`
(a branch of a `match` excluded by an earlier pattern) -/
elab "le2_absurd" : tactic => withMainContext do
  let g ← getMainGoal
  for ldecl in ← getLCtx do
    if ldecl.isImplementationDetail then continue
    let t ← instantiateMVars ldecl.type
    if !t.isForall then continue
    let ok ← commitWhen do
      let (args, _, body) ← forallMetaTelescopeReducing t
      if !(body.isConstOf ``False) || args.size == 0 then return false
      let last := args.back!
      let lt ← instantiateMVars (← inferType last)
      match lt.eq? with
      | some (_, a, b) =>
        if ← isDefEq a b then
          last.mvarId!.assign (← mkEqRefl a)
          let prf := mkAppN ldecl.toExpr args
          let prf ← instantiateMVars prf
          if prf.hasExprMVar then return false
          g.assign (← mkFalseElim (← g.getType) prf)
          return true
        else return false
      | none => return false
    if ok then
      replaceMainGoal []
      return
  throwError "no absurd hypothesis"

syntax "le2_lemma" : tactic
macro_rules | `(tactic| le2_lemma) => `(tactic| fail "no lemma")
syntax "le2_ih" : tactic
macro_rules | `(tactic| le2_ih) => `(tactic| fail "no ih")

macro "le2_step" : tactic => `(tactic| first
  | (cases ‹_ + 1 = Nat.succ _›)
  | (exact absurd ‹_ + 1 = 0› (Nat.succ_ne_zero _))
  | le2_absurd
  | (le2_same; exact Le2.refl _)
  | (le2_head throw; exact Le2.throw_fuel_left _)
  | (le2_head Sema.withScope; with_reducible apply Le2.withScope)
  | le2_lemma
  | le2_ih
  | (le2_head Bind.bind; with_reducible apply Le2.bind)
  | intro _
  | dsimp only
  | (le2_is_split; split)
  | (le2_is_split_right; split))

macro "le2" : tactic => `(tactic| repeat' le2_step)

/-- all twenty-five functions of the mutual block: one more unit of fuel changes nothing -/
structure AllMono2 (fuel : Nat) : Prop where
  stmtToAsgStmt : ∀ (st : Ast.Stmt), Le2 (Sema.stmtToAsgStmt fuel st) (Sema.stmtToAsgStmt (fuel + 1) st)
  caseExprsLoop : ∀ (cs : List Ast.CaseExpr), Le2 (Sema.caseExprsLoop fuel cs) (Sema.caseExprsLoop (fuel + 1) cs)
  exprStmtToAsgStmt : ∀ (e : Option Ast.Expr), Le2 (Sema.exprStmtToAsgStmt fuel e) (Sema.exprStmtToAsgStmt (fuel + 1) e)
  modifiersLoop : ∀ (ms : List Ast.Modifier), Le2 (Sema.modifiersLoop fuel ms) (Sema.modifiersLoop (fuel + 1) ms)
  parenExprToAsgTexpr : ∀ (p : Ast.ParenExpr), Le2 (Sema.parenExprToAsgTexpr fuel p) (Sema.parenExprToAsgTexpr (fuel + 1) p)
  exprToAsgTexpr : ∀ (e : Option Ast.Expr), Le2 (Sema.exprToAsgTexpr fuel e) (Sema.exprToAsgTexpr (fuel + 1) e)
  setExpressionToAsgType : ∀ (se : Ast.SetExpression), Le2 (Sema.setExpressionToAsgType fuel se) (Sema.setExpressionToAsgType (fuel + 1) se)
  rangeExpressionToAsgType : ∀ (r : Ast.RangeExpr), Le2 (Sema.rangeExpressionToAsgType fuel r) (Sema.rangeExpressionToAsgType (fuel + 1) r)
  gateCallExprToAsgStmt : ∀ (gc : Ast.GateCallExpr) (mods : List GateModifier), Le2 (Sema.gateCallExprToAsgStmt fuel gc mods) (Sema.gateCallExprToAsgStmt (fuel + 1) gc mods)
  callExprToAsgTexpr : ∀ (sp : Ast.Span) (al : Option Ast.ArgList) (i : Option Ast.Identifier), Le2 (Sema.callExprToAsgTexpr fuel sp al i) (Sema.callExprToAsgTexpr (fuel + 1) sp al i)
  gateOperandToAsgTexpr : ∀ (g : Ast.GateOperand), Le2 (Sema.gateOperandToAsgTexpr fuel g) (Sema.gateOperandToAsgTexpr (fuel + 1) g)
  indexOperatorToAsgType : ∀ (ix : Ast.IndexOperator), Le2 (Sema.indexOperatorToAsgType fuel ix) (Sema.indexOperatorToAsgType (fuel + 1) ix)
  expressionListToAsgType : ∀ (el : Ast.ExpressionList), Le2 (Sema.expressionListToAsgType fuel el) (Sema.expressionListToAsgType (fuel + 1) el)
  qubitListToAsgTexpr : ∀ (ql : Option Ast.QubitList), Le2 (Sema.qubitListToAsgTexpr fuel ql) (Sema.qubitListToAsgTexpr (fuel + 1) ql)
  gateOperandsLoop : ∀ (gs : List Ast.GateOperand), Le2 (Sema.gateOperandsLoop fuel gs) (Sema.gateOperandsLoop (fuel + 1) gs)
  expressionListToAsgTexpr : ∀ (el : Ast.ExpressionList), Le2 (Sema.expressionListToAsgTexpr fuel el) (Sema.expressionListToAsgTexpr (fuel + 1) el)
  exprsLoop : ∀ (es : List Ast.Expr), Le2 (Sema.exprsLoop fuel es) (Sema.exprsLoop (fuel + 1) es)
  blockExprToAsgStmtList : ∀ (b : Ast.BlockExpr), Le2 (Sema.blockExprToAsgStmtList fuel b) (Sema.blockExprToAsgStmtList (fuel + 1) b)
  stmtsLoop : ∀ (ss : List Ast.Stmt), Le2 (Sema.stmtsLoop fuel ss) (Sema.stmtsLoop (fuel + 1) ss)
  blockExprToAsgType : ∀ (b : Ast.BlockExpr), Le2 (Sema.blockExprToAsgType fuel b) (Sema.blockExprToAsgType (fuel + 1) b)
  blockOrStmtToAsgType : ∀ (b : Ast.BlockOrStmt), Le2 (Sema.blockOrStmtToAsgType fuel b) (Sema.blockOrStmtToAsgType (fuel + 1) b)
  classicalDeclarationStatementToAsgStmt : ∀ (sp : Ast.Span) (arr : Bool) (st : Option Ast.ScalarType) (ct : Bool) (n : Option Ast.Name) (e : Option Ast.Expr), Le2 (Sema.classicalDeclarationStatementToAsgStmt fuel sp arr st ct n e) (Sema.classicalDeclarationStatementToAsgStmt (fuel + 1) sp arr st ct n e)
  assignmentStmtToAsgStmt : ∀ (sp : Ast.Span) (i : Option Ast.Identifier) (rhs : Option Ast.Expr) (ii : Option Ast.IndexedIdentifier), Le2 (Sema.assignmentStmtToAsgStmt fuel sp i rhs ii) (Sema.assignmentStmtToAsgStmt (fuel + 1) sp i rhs ii)
  indexedIdentifierToAsgType : ∀ (ii : Ast.IndexedIdentifier), Le2 (Sema.indexedIdentifierToAsgType fuel ii) (Sema.indexedIdentifierToAsgType (fuel + 1) ii)
  indexOperatorsLoop : ∀ (ixs : List Ast.IndexOperator), Le2 (Sema.indexOperatorsLoop fuel ixs) (Sema.indexOperatorsLoop (fuel + 1) ixs)

set_option hygiene false in
macro_rules | `(tactic| le2_ih) => `(tactic| first
  | (le2_head Sema.stmtToAsgStmt; exact m_stmtToAsgStmt _)
  | (le2_head Sema.caseExprsLoop; exact m_caseExprsLoop _)
  | (le2_head Sema.exprStmtToAsgStmt; exact m_exprStmtToAsgStmt _)
  | (le2_head Sema.modifiersLoop; exact m_modifiersLoop _)
  | (le2_head Sema.parenExprToAsgTexpr; exact m_parenExprToAsgTexpr _)
  | (le2_head Sema.exprToAsgTexpr; exact m_exprToAsgTexpr _)
  | (le2_head Sema.setExpressionToAsgType; exact m_setExpressionToAsgType _)
  | (le2_head Sema.rangeExpressionToAsgType; exact m_rangeExpressionToAsgType _)
  | (le2_head Sema.gateCallExprToAsgStmt; exact m_gateCallExprToAsgStmt _ _)
  | (le2_head Sema.callExprToAsgTexpr; exact m_callExprToAsgTexpr _ _ _)
  | (le2_head Sema.gateOperandToAsgTexpr; exact m_gateOperandToAsgTexpr _)
  | (le2_head Sema.indexOperatorToAsgType; exact m_indexOperatorToAsgType _)
  | (le2_head Sema.expressionListToAsgType; exact m_expressionListToAsgType _)
  | (le2_head Sema.qubitListToAsgTexpr; exact m_qubitListToAsgTexpr _)
  | (le2_head Sema.gateOperandsLoop; exact m_gateOperandsLoop _)
  | (le2_head Sema.expressionListToAsgTexpr; exact m_expressionListToAsgTexpr _)
  | (le2_head Sema.exprsLoop; exact m_exprsLoop _)
  | (le2_head Sema.blockExprToAsgStmtList; exact m_blockExprToAsgStmtList _)
  | (le2_head Sema.stmtsLoop; exact m_stmtsLoop _)
  | (le2_head Sema.blockExprToAsgType; exact m_blockExprToAsgType _)
  | (le2_head Sema.blockOrStmtToAsgType; exact m_blockOrStmtToAsgType _)
  | (le2_head Sema.classicalDeclarationStatementToAsgStmt; exact m_classicalDeclarationStatementToAsgStmt _ _ _ _ _ _)
  | (le2_head Sema.assignmentStmtToAsgStmt; exact m_assignmentStmtToAsgStmt _ _ _ _)
  | (le2_head Sema.indexedIdentifierToAsgType; exact m_indexedIdentifierToAsgType _)
  | (le2_head Sema.indexOperatorsLoop; exact m_indexOperatorsLoop _))

set_option maxHeartbeats 1600000 in
theorem stmtToAsgStmt_mono2 (fuel : Nat) (ih : AllMono2 fuel) (st : Ast.Stmt) :
    Le2 (Sema.stmtToAsgStmt (fuel + 1) st) (Sema.stmtToAsgStmt (fuel + 1 + 1) st) := by
  obtain ⟨m_stmtToAsgStmt, m_caseExprsLoop, m_exprStmtToAsgStmt, m_modifiersLoop, m_parenExprToAsgTexpr, m_exprToAsgTexpr, m_setExpressionToAsgType, m_rangeExpressionToAsgType, m_gateCallExprToAsgStmt, m_callExprToAsgTexpr, m_gateOperandToAsgTexpr, m_indexOperatorToAsgType, m_expressionListToAsgType, m_qubitListToAsgTexpr, m_gateOperandsLoop, m_expressionListToAsgTexpr, m_exprsLoop, m_blockExprToAsgStmtList, m_stmtsLoop, m_blockExprToAsgType, m_blockOrStmtToAsgType, m_classicalDeclarationStatementToAsgStmt, m_assignmentStmtToAsgStmt, m_indexedIdentifierToAsgType, m_indexOperatorsLoop⟩ := ih
  unfold Sema.stmtToAsgStmt; le2

set_option maxHeartbeats 1600000 in
theorem caseExprsLoop_mono2 (fuel : Nat) (ih : AllMono2 fuel) (cs : List Ast.CaseExpr) :
    Le2 (Sema.caseExprsLoop (fuel + 1) cs) (Sema.caseExprsLoop (fuel + 1 + 1) cs) := by
  obtain ⟨m_stmtToAsgStmt, m_caseExprsLoop, m_exprStmtToAsgStmt, m_modifiersLoop, m_parenExprToAsgTexpr, m_exprToAsgTexpr, m_setExpressionToAsgType, m_rangeExpressionToAsgType, m_gateCallExprToAsgStmt, m_callExprToAsgTexpr, m_gateOperandToAsgTexpr, m_indexOperatorToAsgType, m_expressionListToAsgType, m_qubitListToAsgTexpr, m_gateOperandsLoop, m_expressionListToAsgTexpr, m_exprsLoop, m_blockExprToAsgStmtList, m_stmtsLoop, m_blockExprToAsgType, m_blockOrStmtToAsgType, m_classicalDeclarationStatementToAsgStmt, m_assignmentStmtToAsgStmt, m_indexedIdentifierToAsgType, m_indexOperatorsLoop⟩ := ih
  unfold Sema.caseExprsLoop; le2

set_option maxHeartbeats 1600000 in
theorem exprStmtToAsgStmt_mono2 (fuel : Nat) (ih : AllMono2 fuel) (e : Option Ast.Expr) :
    Le2 (Sema.exprStmtToAsgStmt (fuel + 1) e) (Sema.exprStmtToAsgStmt (fuel + 1 + 1) e) := by
  obtain ⟨m_stmtToAsgStmt, m_caseExprsLoop, m_exprStmtToAsgStmt, m_modifiersLoop, m_parenExprToAsgTexpr, m_exprToAsgTexpr, m_setExpressionToAsgType, m_rangeExpressionToAsgType, m_gateCallExprToAsgStmt, m_callExprToAsgTexpr, m_gateOperandToAsgTexpr, m_indexOperatorToAsgType, m_expressionListToAsgType, m_qubitListToAsgTexpr, m_gateOperandsLoop, m_expressionListToAsgTexpr, m_exprsLoop, m_blockExprToAsgStmtList, m_stmtsLoop, m_blockExprToAsgType, m_blockOrStmtToAsgType, m_classicalDeclarationStatementToAsgStmt, m_assignmentStmtToAsgStmt, m_indexedIdentifierToAsgType, m_indexOperatorsLoop⟩ := ih
  unfold Sema.exprStmtToAsgStmt; le2

set_option maxHeartbeats 1600000 in
theorem modifiersLoop_mono2 (fuel : Nat) (ih : AllMono2 fuel) (ms : List Ast.Modifier) :
    Le2 (Sema.modifiersLoop (fuel + 1) ms) (Sema.modifiersLoop (fuel + 1 + 1) ms) := by
  obtain ⟨m_stmtToAsgStmt, m_caseExprsLoop, m_exprStmtToAsgStmt, m_modifiersLoop, m_parenExprToAsgTexpr, m_exprToAsgTexpr, m_setExpressionToAsgType, m_rangeExpressionToAsgType, m_gateCallExprToAsgStmt, m_callExprToAsgTexpr, m_gateOperandToAsgTexpr, m_indexOperatorToAsgType, m_expressionListToAsgType, m_qubitListToAsgTexpr, m_gateOperandsLoop, m_expressionListToAsgTexpr, m_exprsLoop, m_blockExprToAsgStmtList, m_stmtsLoop, m_blockExprToAsgType, m_blockOrStmtToAsgType, m_classicalDeclarationStatementToAsgStmt, m_assignmentStmtToAsgStmt, m_indexedIdentifierToAsgType, m_indexOperatorsLoop⟩ := ih
  unfold Sema.modifiersLoop; le2

set_option maxHeartbeats 1600000 in
theorem parenExprToAsgTexpr_mono2 (fuel : Nat) (ih : AllMono2 fuel) (p : Ast.ParenExpr) :
    Le2 (Sema.parenExprToAsgTexpr (fuel + 1) p) (Sema.parenExprToAsgTexpr (fuel + 1 + 1) p) := by
  obtain ⟨m_stmtToAsgStmt, m_caseExprsLoop, m_exprStmtToAsgStmt, m_modifiersLoop, m_parenExprToAsgTexpr, m_exprToAsgTexpr, m_setExpressionToAsgType, m_rangeExpressionToAsgType, m_gateCallExprToAsgStmt, m_callExprToAsgTexpr, m_gateOperandToAsgTexpr, m_indexOperatorToAsgType, m_expressionListToAsgType, m_qubitListToAsgTexpr, m_gateOperandsLoop, m_expressionListToAsgTexpr, m_exprsLoop, m_blockExprToAsgStmtList, m_stmtsLoop, m_blockExprToAsgType, m_blockOrStmtToAsgType, m_classicalDeclarationStatementToAsgStmt, m_assignmentStmtToAsgStmt, m_indexedIdentifierToAsgType, m_indexOperatorsLoop⟩ := ih
  unfold Sema.parenExprToAsgTexpr; le2

set_option maxHeartbeats 1600000 in
theorem exprToAsgTexpr_mono2 (fuel : Nat) (ih : AllMono2 fuel) (e : Option Ast.Expr) :
    Le2 (Sema.exprToAsgTexpr (fuel + 1) e) (Sema.exprToAsgTexpr (fuel + 1 + 1) e) := by
  obtain ⟨m_stmtToAsgStmt, m_caseExprsLoop, m_exprStmtToAsgStmt, m_modifiersLoop, m_parenExprToAsgTexpr, m_exprToAsgTexpr, m_setExpressionToAsgType, m_rangeExpressionToAsgType, m_gateCallExprToAsgStmt, m_callExprToAsgTexpr, m_gateOperandToAsgTexpr, m_indexOperatorToAsgType, m_expressionListToAsgType, m_qubitListToAsgTexpr, m_gateOperandsLoop, m_expressionListToAsgTexpr, m_exprsLoop, m_blockExprToAsgStmtList, m_stmtsLoop, m_blockExprToAsgType, m_blockOrStmtToAsgType, m_classicalDeclarationStatementToAsgStmt, m_assignmentStmtToAsgStmt, m_indexedIdentifierToAsgType, m_indexOperatorsLoop⟩ := ih
  unfold Sema.exprToAsgTexpr; le2

set_option maxHeartbeats 1600000 in
theorem setExpressionToAsgType_mono2 (fuel : Nat) (ih : AllMono2 fuel) (se : Ast.SetExpression) :
    Le2 (Sema.setExpressionToAsgType (fuel + 1) se) (Sema.setExpressionToAsgType (fuel + 1 + 1) se) := by
  obtain ⟨m_stmtToAsgStmt, m_caseExprsLoop, m_exprStmtToAsgStmt, m_modifiersLoop, m_parenExprToAsgTexpr, m_exprToAsgTexpr, m_setExpressionToAsgType, m_rangeExpressionToAsgType, m_gateCallExprToAsgStmt, m_callExprToAsgTexpr, m_gateOperandToAsgTexpr, m_indexOperatorToAsgType, m_expressionListToAsgType, m_qubitListToAsgTexpr, m_gateOperandsLoop, m_expressionListToAsgTexpr, m_exprsLoop, m_blockExprToAsgStmtList, m_stmtsLoop, m_blockExprToAsgType, m_blockOrStmtToAsgType, m_classicalDeclarationStatementToAsgStmt, m_assignmentStmtToAsgStmt, m_indexedIdentifierToAsgType, m_indexOperatorsLoop⟩ := ih
  unfold Sema.setExpressionToAsgType; le2

set_option maxHeartbeats 1600000 in
theorem rangeExpressionToAsgType_mono2 (fuel : Nat) (ih : AllMono2 fuel) (r : Ast.RangeExpr) :
    Le2 (Sema.rangeExpressionToAsgType (fuel + 1) r) (Sema.rangeExpressionToAsgType (fuel + 1 + 1) r) := by
  obtain ⟨m_stmtToAsgStmt, m_caseExprsLoop, m_exprStmtToAsgStmt, m_modifiersLoop, m_parenExprToAsgTexpr, m_exprToAsgTexpr, m_setExpressionToAsgType, m_rangeExpressionToAsgType, m_gateCallExprToAsgStmt, m_callExprToAsgTexpr, m_gateOperandToAsgTexpr, m_indexOperatorToAsgType, m_expressionListToAsgType, m_qubitListToAsgTexpr, m_gateOperandsLoop, m_expressionListToAsgTexpr, m_exprsLoop, m_blockExprToAsgStmtList, m_stmtsLoop, m_blockExprToAsgType, m_blockOrStmtToAsgType, m_classicalDeclarationStatementToAsgStmt, m_assignmentStmtToAsgStmt, m_indexedIdentifierToAsgType, m_indexOperatorsLoop⟩ := ih
  unfold Sema.rangeExpressionToAsgType; le2

set_option maxHeartbeats 1600000 in
theorem gateCallExprToAsgStmt_mono2 (fuel : Nat) (ih : AllMono2 fuel) (gc : Ast.GateCallExpr) (mods : List GateModifier) :
    Le2 (Sema.gateCallExprToAsgStmt (fuel + 1) gc mods) (Sema.gateCallExprToAsgStmt (fuel + 1 + 1) gc mods) := by
  obtain ⟨m_stmtToAsgStmt, m_caseExprsLoop, m_exprStmtToAsgStmt, m_modifiersLoop, m_parenExprToAsgTexpr, m_exprToAsgTexpr, m_setExpressionToAsgType, m_rangeExpressionToAsgType, m_gateCallExprToAsgStmt, m_callExprToAsgTexpr, m_gateOperandToAsgTexpr, m_indexOperatorToAsgType, m_expressionListToAsgType, m_qubitListToAsgTexpr, m_gateOperandsLoop, m_expressionListToAsgTexpr, m_exprsLoop, m_blockExprToAsgStmtList, m_stmtsLoop, m_blockExprToAsgType, m_blockOrStmtToAsgType, m_classicalDeclarationStatementToAsgStmt, m_assignmentStmtToAsgStmt, m_indexedIdentifierToAsgType, m_indexOperatorsLoop⟩ := ih
  unfold Sema.gateCallExprToAsgStmt; le2

set_option maxHeartbeats 1600000 in
theorem callExprToAsgTexpr_mono2 (fuel : Nat) (ih : AllMono2 fuel) (sp : Ast.Span) (al : Option Ast.ArgList) (i : Option Ast.Identifier) :
    Le2 (Sema.callExprToAsgTexpr (fuel + 1) sp al i) (Sema.callExprToAsgTexpr (fuel + 1 + 1) sp al i) := by
  obtain ⟨m_stmtToAsgStmt, m_caseExprsLoop, m_exprStmtToAsgStmt, m_modifiersLoop, m_parenExprToAsgTexpr, m_exprToAsgTexpr, m_setExpressionToAsgType, m_rangeExpressionToAsgType, m_gateCallExprToAsgStmt, m_callExprToAsgTexpr, m_gateOperandToAsgTexpr, m_indexOperatorToAsgType, m_expressionListToAsgType, m_qubitListToAsgTexpr, m_gateOperandsLoop, m_expressionListToAsgTexpr, m_exprsLoop, m_blockExprToAsgStmtList, m_stmtsLoop, m_blockExprToAsgType, m_blockOrStmtToAsgType, m_classicalDeclarationStatementToAsgStmt, m_assignmentStmtToAsgStmt, m_indexedIdentifierToAsgType, m_indexOperatorsLoop⟩ := ih
  unfold Sema.callExprToAsgTexpr; le2

set_option maxHeartbeats 1600000 in
theorem gateOperandToAsgTexpr_mono2 (fuel : Nat) (ih : AllMono2 fuel) (g : Ast.GateOperand) :
    Le2 (Sema.gateOperandToAsgTexpr (fuel + 1) g) (Sema.gateOperandToAsgTexpr (fuel + 1 + 1) g) := by
  obtain ⟨m_stmtToAsgStmt, m_caseExprsLoop, m_exprStmtToAsgStmt, m_modifiersLoop, m_parenExprToAsgTexpr, m_exprToAsgTexpr, m_setExpressionToAsgType, m_rangeExpressionToAsgType, m_gateCallExprToAsgStmt, m_callExprToAsgTexpr, m_gateOperandToAsgTexpr, m_indexOperatorToAsgType, m_expressionListToAsgType, m_qubitListToAsgTexpr, m_gateOperandsLoop, m_expressionListToAsgTexpr, m_exprsLoop, m_blockExprToAsgStmtList, m_stmtsLoop, m_blockExprToAsgType, m_blockOrStmtToAsgType, m_classicalDeclarationStatementToAsgStmt, m_assignmentStmtToAsgStmt, m_indexedIdentifierToAsgType, m_indexOperatorsLoop⟩ := ih
  unfold Sema.gateOperandToAsgTexpr; le2

set_option maxHeartbeats 1600000 in
theorem indexOperatorToAsgType_mono2 (fuel : Nat) (ih : AllMono2 fuel) (ix : Ast.IndexOperator) :
    Le2 (Sema.indexOperatorToAsgType (fuel + 1) ix) (Sema.indexOperatorToAsgType (fuel + 1 + 1) ix) := by
  obtain ⟨m_stmtToAsgStmt, m_caseExprsLoop, m_exprStmtToAsgStmt, m_modifiersLoop, m_parenExprToAsgTexpr, m_exprToAsgTexpr, m_setExpressionToAsgType, m_rangeExpressionToAsgType, m_gateCallExprToAsgStmt, m_callExprToAsgTexpr, m_gateOperandToAsgTexpr, m_indexOperatorToAsgType, m_expressionListToAsgType, m_qubitListToAsgTexpr, m_gateOperandsLoop, m_expressionListToAsgTexpr, m_exprsLoop, m_blockExprToAsgStmtList, m_stmtsLoop, m_blockExprToAsgType, m_blockOrStmtToAsgType, m_classicalDeclarationStatementToAsgStmt, m_assignmentStmtToAsgStmt, m_indexedIdentifierToAsgType, m_indexOperatorsLoop⟩ := ih
  unfold Sema.indexOperatorToAsgType; le2

set_option maxHeartbeats 1600000 in
theorem expressionListToAsgType_mono2 (fuel : Nat) (ih : AllMono2 fuel) (el : Ast.ExpressionList) :
    Le2 (Sema.expressionListToAsgType (fuel + 1) el) (Sema.expressionListToAsgType (fuel + 1 + 1) el) := by
  obtain ⟨m_stmtToAsgStmt, m_caseExprsLoop, m_exprStmtToAsgStmt, m_modifiersLoop, m_parenExprToAsgTexpr, m_exprToAsgTexpr, m_setExpressionToAsgType, m_rangeExpressionToAsgType, m_gateCallExprToAsgStmt, m_callExprToAsgTexpr, m_gateOperandToAsgTexpr, m_indexOperatorToAsgType, m_expressionListToAsgType, m_qubitListToAsgTexpr, m_gateOperandsLoop, m_expressionListToAsgTexpr, m_exprsLoop, m_blockExprToAsgStmtList, m_stmtsLoop, m_blockExprToAsgType, m_blockOrStmtToAsgType, m_classicalDeclarationStatementToAsgStmt, m_assignmentStmtToAsgStmt, m_indexedIdentifierToAsgType, m_indexOperatorsLoop⟩ := ih
  unfold Sema.expressionListToAsgType; le2

set_option maxHeartbeats 1600000 in
theorem qubitListToAsgTexpr_mono2 (fuel : Nat) (ih : AllMono2 fuel) (ql : Option Ast.QubitList) :
    Le2 (Sema.qubitListToAsgTexpr (fuel + 1) ql) (Sema.qubitListToAsgTexpr (fuel + 1 + 1) ql) := by
  obtain ⟨m_stmtToAsgStmt, m_caseExprsLoop, m_exprStmtToAsgStmt, m_modifiersLoop, m_parenExprToAsgTexpr, m_exprToAsgTexpr, m_setExpressionToAsgType, m_rangeExpressionToAsgType, m_gateCallExprToAsgStmt, m_callExprToAsgTexpr, m_gateOperandToAsgTexpr, m_indexOperatorToAsgType, m_expressionListToAsgType, m_qubitListToAsgTexpr, m_gateOperandsLoop, m_expressionListToAsgTexpr, m_exprsLoop, m_blockExprToAsgStmtList, m_stmtsLoop, m_blockExprToAsgType, m_blockOrStmtToAsgType, m_classicalDeclarationStatementToAsgStmt, m_assignmentStmtToAsgStmt, m_indexedIdentifierToAsgType, m_indexOperatorsLoop⟩ := ih
  unfold Sema.qubitListToAsgTexpr; le2

set_option maxHeartbeats 1600000 in
theorem gateOperandsLoop_mono2 (fuel : Nat) (ih : AllMono2 fuel) (gs : List Ast.GateOperand) :
    Le2 (Sema.gateOperandsLoop (fuel + 1) gs) (Sema.gateOperandsLoop (fuel + 1 + 1) gs) := by
  obtain ⟨m_stmtToAsgStmt, m_caseExprsLoop, m_exprStmtToAsgStmt, m_modifiersLoop, m_parenExprToAsgTexpr, m_exprToAsgTexpr, m_setExpressionToAsgType, m_rangeExpressionToAsgType, m_gateCallExprToAsgStmt, m_callExprToAsgTexpr, m_gateOperandToAsgTexpr, m_indexOperatorToAsgType, m_expressionListToAsgType, m_qubitListToAsgTexpr, m_gateOperandsLoop, m_expressionListToAsgTexpr, m_exprsLoop, m_blockExprToAsgStmtList, m_stmtsLoop, m_blockExprToAsgType, m_blockOrStmtToAsgType, m_classicalDeclarationStatementToAsgStmt, m_assignmentStmtToAsgStmt, m_indexedIdentifierToAsgType, m_indexOperatorsLoop⟩ := ih
  unfold Sema.gateOperandsLoop; le2

set_option maxHeartbeats 1600000 in
theorem expressionListToAsgTexpr_mono2 (fuel : Nat) (ih : AllMono2 fuel) (el : Ast.ExpressionList) :
    Le2 (Sema.expressionListToAsgTexpr (fuel + 1) el) (Sema.expressionListToAsgTexpr (fuel + 1 + 1) el) := by
  obtain ⟨m_stmtToAsgStmt, m_caseExprsLoop, m_exprStmtToAsgStmt, m_modifiersLoop, m_parenExprToAsgTexpr, m_exprToAsgTexpr, m_setExpressionToAsgType, m_rangeExpressionToAsgType, m_gateCallExprToAsgStmt, m_callExprToAsgTexpr, m_gateOperandToAsgTexpr, m_indexOperatorToAsgType, m_expressionListToAsgType, m_qubitListToAsgTexpr, m_gateOperandsLoop, m_expressionListToAsgTexpr, m_exprsLoop, m_blockExprToAsgStmtList, m_stmtsLoop, m_blockExprToAsgType, m_blockOrStmtToAsgType, m_classicalDeclarationStatementToAsgStmt, m_assignmentStmtToAsgStmt, m_indexedIdentifierToAsgType, m_indexOperatorsLoop⟩ := ih
  unfold Sema.expressionListToAsgTexpr; le2

set_option maxHeartbeats 1600000 in
theorem exprsLoop_mono2 (fuel : Nat) (ih : AllMono2 fuel) (es : List Ast.Expr) :
    Le2 (Sema.exprsLoop (fuel + 1) es) (Sema.exprsLoop (fuel + 1 + 1) es) := by
  obtain ⟨m_stmtToAsgStmt, m_caseExprsLoop, m_exprStmtToAsgStmt, m_modifiersLoop, m_parenExprToAsgTexpr, m_exprToAsgTexpr, m_setExpressionToAsgType, m_rangeExpressionToAsgType, m_gateCallExprToAsgStmt, m_callExprToAsgTexpr, m_gateOperandToAsgTexpr, m_indexOperatorToAsgType, m_expressionListToAsgType, m_qubitListToAsgTexpr, m_gateOperandsLoop, m_expressionListToAsgTexpr, m_exprsLoop, m_blockExprToAsgStmtList, m_stmtsLoop, m_blockExprToAsgType, m_blockOrStmtToAsgType, m_classicalDeclarationStatementToAsgStmt, m_assignmentStmtToAsgStmt, m_indexedIdentifierToAsgType, m_indexOperatorsLoop⟩ := ih
  unfold Sema.exprsLoop; le2

set_option maxHeartbeats 1600000 in
theorem blockExprToAsgStmtList_mono2 (fuel : Nat) (ih : AllMono2 fuel) (b : Ast.BlockExpr) :
    Le2 (Sema.blockExprToAsgStmtList (fuel + 1) b) (Sema.blockExprToAsgStmtList (fuel + 1 + 1) b) := by
  obtain ⟨m_stmtToAsgStmt, m_caseExprsLoop, m_exprStmtToAsgStmt, m_modifiersLoop, m_parenExprToAsgTexpr, m_exprToAsgTexpr, m_setExpressionToAsgType, m_rangeExpressionToAsgType, m_gateCallExprToAsgStmt, m_callExprToAsgTexpr, m_gateOperandToAsgTexpr, m_indexOperatorToAsgType, m_expressionListToAsgType, m_qubitListToAsgTexpr, m_gateOperandsLoop, m_expressionListToAsgTexpr, m_exprsLoop, m_blockExprToAsgStmtList, m_stmtsLoop, m_blockExprToAsgType, m_blockOrStmtToAsgType, m_classicalDeclarationStatementToAsgStmt, m_assignmentStmtToAsgStmt, m_indexedIdentifierToAsgType, m_indexOperatorsLoop⟩ := ih
  unfold Sema.blockExprToAsgStmtList; le2

set_option maxHeartbeats 1600000 in
theorem stmtsLoop_mono2 (fuel : Nat) (ih : AllMono2 fuel) (ss : List Ast.Stmt) :
    Le2 (Sema.stmtsLoop (fuel + 1) ss) (Sema.stmtsLoop (fuel + 1 + 1) ss) := by
  obtain ⟨m_stmtToAsgStmt, m_caseExprsLoop, m_exprStmtToAsgStmt, m_modifiersLoop, m_parenExprToAsgTexpr, m_exprToAsgTexpr, m_setExpressionToAsgType, m_rangeExpressionToAsgType, m_gateCallExprToAsgStmt, m_callExprToAsgTexpr, m_gateOperandToAsgTexpr, m_indexOperatorToAsgType, m_expressionListToAsgType, m_qubitListToAsgTexpr, m_gateOperandsLoop, m_expressionListToAsgTexpr, m_exprsLoop, m_blockExprToAsgStmtList, m_stmtsLoop, m_blockExprToAsgType, m_blockOrStmtToAsgType, m_classicalDeclarationStatementToAsgStmt, m_assignmentStmtToAsgStmt, m_indexedIdentifierToAsgType, m_indexOperatorsLoop⟩ := ih
  unfold Sema.stmtsLoop; le2

set_option maxHeartbeats 1600000 in
theorem blockExprToAsgType_mono2 (fuel : Nat) (ih : AllMono2 fuel) (b : Ast.BlockExpr) :
    Le2 (Sema.blockExprToAsgType (fuel + 1) b) (Sema.blockExprToAsgType (fuel + 1 + 1) b) := by
  obtain ⟨m_stmtToAsgStmt, m_caseExprsLoop, m_exprStmtToAsgStmt, m_modifiersLoop, m_parenExprToAsgTexpr, m_exprToAsgTexpr, m_setExpressionToAsgType, m_rangeExpressionToAsgType, m_gateCallExprToAsgStmt, m_callExprToAsgTexpr, m_gateOperandToAsgTexpr, m_indexOperatorToAsgType, m_expressionListToAsgType, m_qubitListToAsgTexpr, m_gateOperandsLoop, m_expressionListToAsgTexpr, m_exprsLoop, m_blockExprToAsgStmtList, m_stmtsLoop, m_blockExprToAsgType, m_blockOrStmtToAsgType, m_classicalDeclarationStatementToAsgStmt, m_assignmentStmtToAsgStmt, m_indexedIdentifierToAsgType, m_indexOperatorsLoop⟩ := ih
  unfold Sema.blockExprToAsgType; le2

set_option maxHeartbeats 1600000 in
theorem blockOrStmtToAsgType_mono2 (fuel : Nat) (ih : AllMono2 fuel) (b : Ast.BlockOrStmt) :
    Le2 (Sema.blockOrStmtToAsgType (fuel + 1) b) (Sema.blockOrStmtToAsgType (fuel + 1 + 1) b) := by
  obtain ⟨m_stmtToAsgStmt, m_caseExprsLoop, m_exprStmtToAsgStmt, m_modifiersLoop, m_parenExprToAsgTexpr, m_exprToAsgTexpr, m_setExpressionToAsgType, m_rangeExpressionToAsgType, m_gateCallExprToAsgStmt, m_callExprToAsgTexpr, m_gateOperandToAsgTexpr, m_indexOperatorToAsgType, m_expressionListToAsgType, m_qubitListToAsgTexpr, m_gateOperandsLoop, m_expressionListToAsgTexpr, m_exprsLoop, m_blockExprToAsgStmtList, m_stmtsLoop, m_blockExprToAsgType, m_blockOrStmtToAsgType, m_classicalDeclarationStatementToAsgStmt, m_assignmentStmtToAsgStmt, m_indexedIdentifierToAsgType, m_indexOperatorsLoop⟩ := ih
  unfold Sema.blockOrStmtToAsgType; le2

set_option maxHeartbeats 1600000 in
theorem classicalDeclarationStatementToAsgStmt_mono2 (fuel : Nat) (ih : AllMono2 fuel) (sp : Ast.Span) (arr : Bool) (st : Option Ast.ScalarType) (ct : Bool) (n : Option Ast.Name) (e : Option Ast.Expr) :
    Le2 (Sema.classicalDeclarationStatementToAsgStmt (fuel + 1) sp arr st ct n e) (Sema.classicalDeclarationStatementToAsgStmt (fuel + 1 + 1) sp arr st ct n e) := by
  obtain ⟨m_stmtToAsgStmt, m_caseExprsLoop, m_exprStmtToAsgStmt, m_modifiersLoop, m_parenExprToAsgTexpr, m_exprToAsgTexpr, m_setExpressionToAsgType, m_rangeExpressionToAsgType, m_gateCallExprToAsgStmt, m_callExprToAsgTexpr, m_gateOperandToAsgTexpr, m_indexOperatorToAsgType, m_expressionListToAsgType, m_qubitListToAsgTexpr, m_gateOperandsLoop, m_expressionListToAsgTexpr, m_exprsLoop, m_blockExprToAsgStmtList, m_stmtsLoop, m_blockExprToAsgType, m_blockOrStmtToAsgType, m_classicalDeclarationStatementToAsgStmt, m_assignmentStmtToAsgStmt, m_indexedIdentifierToAsgType, m_indexOperatorsLoop⟩ := ih
  unfold Sema.classicalDeclarationStatementToAsgStmt; le2

set_option maxHeartbeats 1600000 in
theorem assignmentStmtToAsgStmt_mono2 (fuel : Nat) (ih : AllMono2 fuel) (sp : Ast.Span) (i : Option Ast.Identifier) (rhs : Option Ast.Expr) (ii : Option Ast.IndexedIdentifier) :
    Le2 (Sema.assignmentStmtToAsgStmt (fuel + 1) sp i rhs ii) (Sema.assignmentStmtToAsgStmt (fuel + 1 + 1) sp i rhs ii) := by
  obtain ⟨m_stmtToAsgStmt, m_caseExprsLoop, m_exprStmtToAsgStmt, m_modifiersLoop, m_parenExprToAsgTexpr, m_exprToAsgTexpr, m_setExpressionToAsgType, m_rangeExpressionToAsgType, m_gateCallExprToAsgStmt, m_callExprToAsgTexpr, m_gateOperandToAsgTexpr, m_indexOperatorToAsgType, m_expressionListToAsgType, m_qubitListToAsgTexpr, m_gateOperandsLoop, m_expressionListToAsgTexpr, m_exprsLoop, m_blockExprToAsgStmtList, m_stmtsLoop, m_blockExprToAsgType, m_blockOrStmtToAsgType, m_classicalDeclarationStatementToAsgStmt, m_assignmentStmtToAsgStmt, m_indexedIdentifierToAsgType, m_indexOperatorsLoop⟩ := ih
  unfold Sema.assignmentStmtToAsgStmt; le2

set_option maxHeartbeats 1600000 in
theorem indexedIdentifierToAsgType_mono2 (fuel : Nat) (ih : AllMono2 fuel) (ii : Ast.IndexedIdentifier) :
    Le2 (Sema.indexedIdentifierToAsgType (fuel + 1) ii) (Sema.indexedIdentifierToAsgType (fuel + 1 + 1) ii) := by
  obtain ⟨m_stmtToAsgStmt, m_caseExprsLoop, m_exprStmtToAsgStmt, m_modifiersLoop, m_parenExprToAsgTexpr, m_exprToAsgTexpr, m_setExpressionToAsgType, m_rangeExpressionToAsgType, m_gateCallExprToAsgStmt, m_callExprToAsgTexpr, m_gateOperandToAsgTexpr, m_indexOperatorToAsgType, m_expressionListToAsgType, m_qubitListToAsgTexpr, m_gateOperandsLoop, m_expressionListToAsgTexpr, m_exprsLoop, m_blockExprToAsgStmtList, m_stmtsLoop, m_blockExprToAsgType, m_blockOrStmtToAsgType, m_classicalDeclarationStatementToAsgStmt, m_assignmentStmtToAsgStmt, m_indexedIdentifierToAsgType, m_indexOperatorsLoop⟩ := ih
  unfold Sema.indexedIdentifierToAsgType; le2

set_option maxHeartbeats 1600000 in
theorem indexOperatorsLoop_mono2 (fuel : Nat) (ih : AllMono2 fuel) (ixs : List Ast.IndexOperator) :
    Le2 (Sema.indexOperatorsLoop (fuel + 1) ixs) (Sema.indexOperatorsLoop (fuel + 1 + 1) ixs) := by
  obtain ⟨m_stmtToAsgStmt, m_caseExprsLoop, m_exprStmtToAsgStmt, m_modifiersLoop, m_parenExprToAsgTexpr, m_exprToAsgTexpr, m_setExpressionToAsgType, m_rangeExpressionToAsgType, m_gateCallExprToAsgStmt, m_callExprToAsgTexpr, m_gateOperandToAsgTexpr, m_indexOperatorToAsgType, m_expressionListToAsgType, m_qubitListToAsgTexpr, m_gateOperandsLoop, m_expressionListToAsgTexpr, m_exprsLoop, m_blockExprToAsgStmtList, m_stmtsLoop, m_blockExprToAsgType, m_blockOrStmtToAsgType, m_classicalDeclarationStatementToAsgStmt, m_assignmentStmtToAsgStmt, m_indexedIdentifierToAsgType, m_indexOperatorsLoop⟩ := ih
  unfold Sema.indexOperatorsLoop; le2

theorem allMono2 (fuel : Nat) : AllMono2 fuel := by
  induction fuel with
  | zero =>
    constructor
    · intros; conv => lhs; unfold Sema.stmtToAsgStmt
      exact Le2.throw_fuel_left _
    · intros; conv => lhs; unfold Sema.caseExprsLoop
      exact Le2.throw_fuel_left _
    · intros; conv => lhs; unfold Sema.exprStmtToAsgStmt
      exact Le2.throw_fuel_left _
    · intros; conv => lhs; unfold Sema.modifiersLoop
      exact Le2.throw_fuel_left _
    · intros; conv => lhs; unfold Sema.parenExprToAsgTexpr
      exact Le2.throw_fuel_left _
    · intros; conv => lhs; unfold Sema.exprToAsgTexpr
      exact Le2.throw_fuel_left _
    · intros; conv => lhs; unfold Sema.setExpressionToAsgType
      exact Le2.throw_fuel_left _
    · intros; conv => lhs; unfold Sema.rangeExpressionToAsgType
      exact Le2.throw_fuel_left _
    · intros; conv => lhs; unfold Sema.gateCallExprToAsgStmt
      exact Le2.throw_fuel_left _
    · intros; conv => lhs; unfold Sema.callExprToAsgTexpr
      exact Le2.throw_fuel_left _
    · intros; conv => lhs; unfold Sema.gateOperandToAsgTexpr
      exact Le2.throw_fuel_left _
    · intros; conv => lhs; unfold Sema.indexOperatorToAsgType
      exact Le2.throw_fuel_left _
    · intros; conv => lhs; unfold Sema.expressionListToAsgType
      exact Le2.throw_fuel_left _
    · intros; conv => lhs; unfold Sema.qubitListToAsgTexpr
      exact Le2.throw_fuel_left _
    · intros; conv => lhs; unfold Sema.gateOperandsLoop
      exact Le2.throw_fuel_left _
    · intros; conv => lhs; unfold Sema.expressionListToAsgTexpr
      exact Le2.throw_fuel_left _
    · intros; conv => lhs; unfold Sema.exprsLoop
      exact Le2.throw_fuel_left _
    · intros; conv => lhs; unfold Sema.blockExprToAsgStmtList
      exact Le2.throw_fuel_left _
    · intros; conv => lhs; unfold Sema.stmtsLoop
      exact Le2.throw_fuel_left _
    · intros; conv => lhs; unfold Sema.blockExprToAsgType
      exact Le2.throw_fuel_left _
    · intros; conv => lhs; unfold Sema.blockOrStmtToAsgType
      exact Le2.throw_fuel_left _
    · intros; conv => lhs; unfold Sema.classicalDeclarationStatementToAsgStmt
      exact Le2.throw_fuel_left _
    · intros; conv => lhs; unfold Sema.assignmentStmtToAsgStmt
      exact Le2.throw_fuel_left _
    · intros; conv => lhs; unfold Sema.indexedIdentifierToAsgType
      exact Le2.throw_fuel_left _
    · intros; conv => lhs; unfold Sema.indexOperatorsLoop
      exact Le2.throw_fuel_left _
  | succ fuel ih =>
    constructor
    · intros; exact stmtToAsgStmt_mono2 fuel ih _
    · intros; exact caseExprsLoop_mono2 fuel ih _
    · intros; exact exprStmtToAsgStmt_mono2 fuel ih _
    · intros; exact modifiersLoop_mono2 fuel ih _
    · intros; exact parenExprToAsgTexpr_mono2 fuel ih _
    · intros; exact exprToAsgTexpr_mono2 fuel ih _
    · intros; exact setExpressionToAsgType_mono2 fuel ih _
    · intros; exact rangeExpressionToAsgType_mono2 fuel ih _
    · intros; exact gateCallExprToAsgStmt_mono2 fuel ih _ _
    · intros; exact callExprToAsgTexpr_mono2 fuel ih _ _ _
    · intros; exact gateOperandToAsgTexpr_mono2 fuel ih _
    · intros; exact indexOperatorToAsgType_mono2 fuel ih _
    · intros; exact expressionListToAsgType_mono2 fuel ih _
    · intros; exact qubitListToAsgTexpr_mono2 fuel ih _
    · intros; exact gateOperandsLoop_mono2 fuel ih _
    · intros; exact expressionListToAsgTexpr_mono2 fuel ih _
    · intros; exact exprsLoop_mono2 fuel ih _
    · intros; exact blockExprToAsgStmtList_mono2 fuel ih _
    · intros; exact stmtsLoop_mono2 fuel ih _
    · intros; exact blockExprToAsgType_mono2 fuel ih _
    · intros; exact blockOrStmtToAsgType_mono2 fuel ih _
    · intros; exact classicalDeclarationStatementToAsgStmt_mono2 fuel ih _ _ _ _ _ _
    · intros; exact assignmentStmtToAsgStmt_mono2 fuel ih _ _ _ _
    · intros; exact indexedIdentifierToAsgType_mono2 fuel ih _
    · intros; exact indexOperatorsLoop_mono2 fuel ih _

/-- more fuel changes neither a successful run nor a panic (statement function) -/
theorem stmtToAsgStmt_mono2_le {fuel fuel' : Nat} (h : fuel ≤ fuel') (st : Ast.Stmt) :
    Le2 (Sema.stmtToAsgStmt fuel st) (Sema.stmtToAsgStmt fuel' st) := by
  induction h with
  | refl => exact Le2.refl _
  | step _ ih => exact ih.trans ((allMono2 _).stmtToAsgStmt st)

theorem syntaxToSemanticLoop_mono2_step (fuel : Nat) (ss : List Ast.Stmt) :
    Le2 (Sema.syntaxToSemanticLoop fuel ss) (Sema.syntaxToSemanticLoop (fuel + 1) ss) := by
  induction fuel generalizing ss with
  | zero => conv => lhs; unfold Sema.syntaxToSemanticLoop
            exact Le2.throw_fuel_left _
  | succ fuel ih =>
    have m_stmt := (allMono2 fuel).stmtToAsgStmt
    unfold Sema.syntaxToSemanticLoop
    repeat' first
      | (le2_head Sema.stmtToAsgStmt; exact m_stmt _)
      | (le2_head Sema.syntaxToSemanticLoop; exact ih _)
      | le2_step

/-- the top-level loop: more fuel changes neither a successful run nor a panic -/
theorem syntaxToSemanticLoop_mono2 {fuel fuel' : Nat} (h : fuel ≤ fuel') (ss : List Ast.Stmt) :
    Le2 (Sema.syntaxToSemanticLoop fuel ss) (Sema.syntaxToSemanticLoop fuel' ss) := by
  induction h with
  | refl => exact Le2.refl _
  | step _ ih => exact ih.trans (syntaxToSemanticLoop_mono2_step _ ss)

end Oq3.C18E
