/-
C16 — statement parsing is COMPOSITIONAL, n-ary, for the inductive language of `Props/C04Lang2.lean`
(`Stmt2` / `Stmts2`: almost the whole supported language, statements of arbitrary size and nesting depth).

PROPERTY (C16): "For statements s1 … sn that each parse without diagnostics on their own, the parse of
their concatenation yields no diagnostics and exactly n top-level statement nodes whose kinds and texts
are those of the si in order; inside a block the same."

HOW IT IS STATED HERE.
* `cleanParse fuel ts`: the model's front end on the token list `ts` — `some steps` iff `parseSourceFile`
  returns normally (no panic, no `DropBomb`, fuel suffices), has consumed EVERY token, has emitted NO
  `Error` event, and `process` turns the events into the step sequence `steps` (I3: Enter k / Token k n / Exit).
  Steps carry no positions: the subtree of a statement is the same step sequence wherever the statement
  stands ("relocated"); its token range is determined by the widths of the subtrees before it.
* `children steps` (`Lemmas/C16LangTree.lean`): the subtrees directly below the root, cut by depth counting.
* A statement "on its own" is the singleton program `single s`; it parses cleanly iff `WFTop (single s)`
  (`alone_clean`; `C04Lang2.program_accepted`).

THEOREMS.
* `concat_wf` (`Lemmas/C16Lang.lean: wfTop_ofList`): for statements that are each well formed ON THEIR OWN,
  `WFTop (ofList l) ↔ compatTop l = true` — the adjacency conditions are EXACTLY what `WFTop` adds:
    `adjOK l`: no neighbouring pair `a b` with `endsAssign a` and `b` an expression statement starting with `-` (F09e);
    `letOK l`: no `let` after the first statement that the dispatcher `item` does not parse itself (F09b:
               there `let` is a LET_STMT, on its own an ALIAS_DECLARATION_STATEMENT).
  (The other two conditions of the brief do not arise between top-level neighbours: a bare block is wrapped into
  an EXPR_STMT unless the next token is `}` — only the LAST statement of a BLOCK is affected, `lastOK` below — and
  `;` is not a statement of the language: F09a/F09d.)
* `sequence_compositional_top` (**C16, top level, n-ary**): for `l = [s1, …, sn]` with `WFTop (single si)` for all i
  and `compatTop l`, and every fuel ≥ `needL2 (ofList l) + 3`:
    (1) `cleanParse` of the concatenated tokens `l.flatMap toksS2` succeeds (accepted, all tokens consumed, NO error event);
    (2) its steps are SOURCE_FILE around `l.flatMap nodesS2`, and `children steps = l.map nodesS2`: EXACTLY n subtrees;
    (3) each si parsed alone (same fuel) gives SOURCE_FILE around the ONE subtree `nodesS2 si`: the i-th child of the
        concatenation is the child of si alone — same kinds, same shape;
    (4) widths: the i-th child covers `(toksS2 si).length` tokens, so its token range starts after the tokens of
        s1 … s(i-1) and is the print of si (`tokens_of_nth`): same text.
* `sequence_top_full` (no hypothesis on the single statements): `wfTop_ofList_full` characterises `WFTop (ofList l)`
  completely — the TEXT of every statement is well formed on its own (`alone s`: `let` as alias declaration),
  `adjOK l`, and `letMode l` (every `let` is in the mode of its position).  For every such program the i-th child is the
  child of the text of si parsed alone, EXCEPT for `let` statements after the first non-item statement (LET_STMT in the
  sequence, ALIAS_DECLARATION_STATEMENT alone): the one deviation inside the language, F09b.
* `concat_clean_joint`: the same as (1)/(2) for ARBITRARY joint bits that fit the print (`JointOK`: set inside `==`,
  `->`, …; arbitrary elsewhere): the statements may be joined by whitespace, a newline or nothing.
* `block_sequence` (**inside a block**): for `l` with `WFS2 si` for all i (`stmt` accepts si, `stmt_alone`) and
  `compatBlock l` (`adjOK` and `lastOK`: the last statement does not end with a bare block, F09d/F09f), the statement
  loop `expr_block_statements` — the loop of EVERY block body — accepts the concatenation in front of `}` from every
  ready state with exactly the events `l.flatMap evsS2` (no error event), and `process` turns this segment, in every
  context, into `l.flatMap nodesS2`, which is cut into exactly the n subtrees `l.map nodesS2`.
  `block_wf`: `WFL2 true (ofList l) ↔ (∀ s ∈ l, WFS2 s) ∧ compatBlock l` — an equivalence without further hypotheses.
* `block_compositional_program`: the same seen from whole programs, for the body of `gate` / `def` / `cal` /
  `while` / `if` / `for` / a bare top-level block (`Ctx`): the program `ctx { s1 … sn }` parses cleanly and the children
  of its BLOCK_EXPR are `{`, the n subtrees `nodesS2 si`, `}`; and `ctx { si }` alone has the one subtree `nodesS2 si`
  there (for si that do not end with a bare block: those cannot stand alone in a block, `bare_block_last`).
* EXAMPLES: `demo` (8 statements of 7 kinds), `demoBlock`; excluded pairs with kernel-evaluated witnesses that
  the concatenation is genuinely different: `x = 1;` `-y;` (ONE statement), `y;` `let a = q;` (LET_STMT instead
  of ALIAS_DECLARATION_STATEMENT), `{ x; { y; } }` (the inner block is a bare BLOCK_EXPR, no EXPR_STMT).

HYPOTHESES, all decidable for concrete statements: `WFTop (single s)` / `WFS2 s` (syntactic conditions on the
statement alone), `compatTop l` / `compatBlock l` (`Bool`), a lower bound on the fuel, and for `block_sequence`
the state hypotheses of `stmts_ok2` (`RdyL 8`, the tokens at the position, `}` after them).
-/
import Oq3.Lemmas.C16Lang
import Oq3.Lemmas.C16LangWidth
import Oq3.Props.C04Lang2
import Oq3.Props.C16

set_option linter.unusedSimpArgs false
set_option linter.unusedVariables false
namespace Oq3.Props.C16Lang
open Oq3.Gen Oq3.Parser Oq3.Grammar Oq3.PrattEv Oq3.LangEv Oq3.LangEv2 Oq3.C16Lang
open Oq3.Props.C04Lang (kindsOf jointOf)
open Oq3.Props.C05Events (errorFree errorFree_append)
open Oq3.Props.C04Lang2 (program_accepted program_cst evsP2_errorFree evsL2_errorFree evsS2_errorFree)

/-! ### the front end, as far as C16 is concerned -/

/-- `some steps`: the parse returns normally, has consumed every token, has emitted no `Error` event, and
`process` yields `steps` -/
def cleanParse (fuel : Nat) (ts : List Tok) : Option (List Step) :=
  match parseSourceFile fuel (kindsOf ts) (jointOf ts) with
  | .ok (ev, n) => if n = ts.length ∧ errorFree ev.toList = true then process ev.toList else none
  | .error _ => none

/-- the steps of a program: SOURCE_FILE around the steps of its statements -/
abbrev file (inner : List Step) : List Step := .enter .SOURCE_FILE :: (inner ++ [.exit])

theorem children_file (l : List Stmt2) : children (file (l.flatMap nodesS2)) = l.map nodesS2 := by
  simp only [file, children]; exact splitTop_flatMap l []

/-- every well-formed program parses cleanly to the steps of its derivation -/
theorem program_clean (p : Stmts2) (hwf : WFTop p) (fuel : Nat) (hf : needL2 p + 3 ≤ fuel) :
    cleanParse fuel (toksL2 p) = some (file (nodesL2 p)) := by
  unfold cleanParse
  rw [program_accepted p hwf fuel hf]
  have h1 : errorFree (evsP2 p) = true := evsP2_errorFree p
  have h2 := program_cst p
  simp only [h1, and_self, if_true, h2]
  rfl

/-! ### top level -/

/-- statements that are well formed on their own form a well-formed program iff the adjacency conditions hold -/
theorem concat_wf (l : List Stmt2) (hs : ∀ s ∈ l, WFTop (single s)) :
    WFTop (ofList l) ↔ compatTop l = true := wfTop_ofList l hs

/-- a statement on its own -/
theorem alone_clean (s : Stmt2) (hwf : WFTop (single s)) (fuel : Nat) (hf : needL2 (single s) + 3 ≤ fuel) :
    cleanParse fuel (toksS2 s) = some (file (nodesS2 s)) := by
  have := program_clean (single s) hwf fuel hf
  rwa [toksL2_single, nodesL2_single] at this

/-- the concatenation -/
theorem concat_clean (l : List Stmt2) (hs : ∀ s ∈ l, WFTop (single s)) (hc : compatTop l = true)
    (fuel : Nat) (hf : needL2 (ofList l) + 3 ≤ fuel) :
    cleanParse fuel (l.flatMap toksS2) = some (file (l.flatMap nodesS2)) := by
  have := program_clean (ofList l) (wfTop_of_singles l hs hc) fuel hf
  rwa [toksL2_ofList, nodesL2_ofList] at this

/-- the tokens that the i-th subtree covers are the print of the i-th statement: in the concatenation, the
range that starts after the tokens of the statements before `s` and has the width of the subtree of `s` -/
theorem tokens_of_nth (l1 l2 : List Stmt2) (s : Stmt2) :
    (((l1 ++ s :: l2).flatMap toksS2).drop (width ((l1.flatMap nodesS2)))).take (width (nodesS2 s)) = toksS2 s := by
  have h1 : width (l1.flatMap nodesS2) = (l1.flatMap toksS2).length := by
    rw [← nodesL2_ofList, ← toksL2_ofList]; exact widthL2 _
  rw [h1, widthS2, List.flatMap_append, List.flatMap_cons, List.drop_left, List.take_left]

/-- **C16 at the top level, n-ary.**  Statements `s1 … sn` that each parse cleanly on their own and satisfy the
adjacency conditions: the concatenation parses cleanly (accepted, every token consumed, no error event); its steps
are SOURCE_FILE around the concatenation of the subtrees of the `si` parsed alone; it has exactly these `n`
children, in order; the i-th child covers exactly the tokens of `si`. -/
theorem sequence_compositional_top (l : List Stmt2) (hs : ∀ s ∈ l, WFTop (single s)) (hc : compatTop l = true)
    (fuel : Nat) (hf : needL2 (ofList l) + 3 ≤ fuel) :
    ∃ steps, cleanParse fuel (l.flatMap toksS2) = some steps ∧
      steps = file (l.flatMap nodesS2) ∧
      children steps = l.map nodesS2 ∧
      (children steps).length = l.length ∧
      (∀ s ∈ l, ∃ st, cleanParse fuel (toksS2 s) = some st ∧ st = file (nodesS2 s) ∧ children st = [nodesS2 s]) ∧
      (children steps).map width = l.map (fun s => (toksS2 s).length) ∧
      (∀ t ∈ children steps, isTree t = true) :=
  ⟨_, concat_clean l hs hc fuel hf, rfl, children_file l, by rw [children_file, List.length_map],
    fun s hm => ⟨_, alone_clean s (hs s hm) fuel (Nat.le_trans (Nat.add_le_add_right (needL2_single_le l s hm) 3) hf), rfl,
      by have := children_file [s]; simpa using this⟩,
    by rw [children_file, List.map_map]; exact List.map_congr_left (fun s _ => widthS2 s),
    by rw [children_file]; exact isTree_map_nodesS2 l⟩

/-- the events of the concatenation are the events of the statements parsed alone, in order, inside one SOURCE_FILE -/
theorem concat_events (l : List Stmt2) (hs : ∀ s ∈ l, WFTop (single s)) (hc : compatTop l = true)
    (fuel : Nat) (hf : needL2 (ofList l) + 3 ≤ fuel) :
    parseSourceFile fuel (kindsOf (l.flatMap toksS2)) (jointOf (l.flatMap toksS2)) =
        .ok ((Ev.start .SOURCE_FILE none :: (l.flatMap evsS2 ++ [.finish])).toArray, (l.flatMap toksS2).length) ∧
      errorFree (Ev.start .SOURCE_FILE none :: (l.flatMap evsS2 ++ [.finish])) = true ∧
      ∀ s ∈ l, parseSourceFile fuel (kindsOf (toksS2 s)) (jointOf (toksS2 s)) =
        .ok ((Ev.start .SOURCE_FILE none :: (evsS2 s ++ [.finish])).toArray, (toksS2 s).length) := by
  have h := program_accepted (ofList l) (wfTop_of_singles l hs hc) fuel hf
  have he := evsP2_errorFree (ofList l)
  simp only [evsP2, toksL2_ofList, evsL2_ofList] at h he
  refine ⟨h, he, fun s hm => ?_⟩
  have := program_accepted (single s) (hs s hm) fuel
    (Nat.le_trans (Nat.add_le_add_right (needL2_single_le l s hm) 3) hf)
  simpa only [evsP2, toksL2_single, evsL2_single] using this

/-- **the complete picture at the top level** (both `let` modes, no hypothesis on the single statements): for EVERY
well-formed program `ofList l` — by `wfTop_ofList_full`: the text of every statement is well formed on its own,
neighbours are compatible, every `let` is in the mode of its position — the children of the root are the subtrees
`nodesS2 si`, and the text of `si` parsed on its own gives the subtree `nodesS2 (alone si)`: THE SAME subtree, except
for the `let` statements after the first statement that `item` does not dispatch (LET_STMT in the sequence,
ALIAS_DECLARATION_STATEMENT alone: the one deviation from compositionality inside the language, F09b) -/
theorem sequence_top_full (l : List Stmt2) (hwf : WFTop (ofList l)) (fuel : Nat) (hf : needL2 (ofList l) + 5 ≤ fuel) :
    cleanParse fuel (l.flatMap toksS2) = some (file (l.flatMap nodesS2)) ∧
      children (file (l.flatMap nodesS2)) = l.map nodesS2 ∧
      ∀ s ∈ l, cleanParse fuel (toksS2 s) = some (file (nodesS2 (alone s))) ∧ (isLetS s = false → alone s = s) := by
  refine ⟨?_, children_file l, fun s hm => ⟨?_, alone_of_notLetS s⟩⟩
  · have := program_clean (ofList l) hwf fuel (by omega)
    rwa [toksL2_ofList, nodesL2_ofList] at this
  · have h1 := ((wfTop_ofList_full l).1 hwf).1 s hm
    have h2 := needL2_single_alone s
    have h3 := needL2_single_le l s hm
    have := alone_clean (alone s) h1 fuel (by omega)
    rwa [toksS2_alone] at this

/-! ### the joint bits between the tokens do not matter -/

/-- `cleanParse` on explicit joint bits (`true`: no trivia between the token and the next one) -/
def cleanParseJ (fuel : Nat) (ts : List Tok) (J : Array Bool) : Option (List Step) :=
  match parseSourceFile fuel (kindsOf ts) J with
  | .ok (ev, n) => if n = ts.length ∧ errorFree ev.toList = true then process ev.toList else none
  | .error _ => none

/-- joint bits that fit the print: set where the print needs a glued pair (`==`, `->`, …), arbitrary elsewhere — in
particular arbitrary between two statements (whitespace, a newline, or nothing) -/
def JointOK (ts : List Tok) (J : Array Bool) : Prop :=
  ∀ i (h : i < ts.length), (ts[i]).2 = true → J.getD i false = true

theorem jointOK_jointOf (ts : List Tok) : JointOK ts (jointOf ts) := by
  intro i hi h; simp [jointOf, hi, h]

open Oq3.Props.C04Lang (Toks_of_get) in
/-- `program_accepted` for arbitrary fitting joint bits -/
theorem program_clean_joint (p : Stmts2) (hwf : WFTop p) (fuel : Nat) (hf : needL2 p + 3 ≤ fuel)
    (J : Array Bool) (hJ : JointOK (toksL2 p) J) :
    cleanParseJ fuel (toksL2 p) J = some (file (nodesL2 p)) := by
  let s0 : P := { kinds := kindsOf (toksL2 p), joint := J }
  have hr : RdyL 9 s0 :=
    ⟨rfl, (by show 0 + 9 ≤ 15000000; decide), (by intro p hp; cases hp), (by show 16 ≤ 15000000; decide)⟩
  have htk : Toks s0 s0.pos (toksL2 p) := by
    apply Toks_of_get
    intro i hi
    refine ⟨by simp [s0, kindsOf, P.kindAt, hi], fun h => ?_⟩
    have := hJ i hi h
    simpa [s0] using this
  have heof : s0.kindAt (s0.pos + (toksL2 p).length) = .EOF := by simp [s0, kindsOf, P.kindAt]
  obtain ⟨st, sb, hrun⟩ := sourceFile_ok2 p fuel s0 hf hr htk heof hwf
  have hacc : parseSourceFile fuel (kindsOf (toksL2 p)) J = .ok ((evsP2 p).toArray, (toksL2 p).length) := by
    unfold parseSourceFile parseWith
    show (match sourceFile fuel s0 with | .ok (_, s) => _ | .error e => _) = _
    rw [hrun]
    simp [P.ov, s0]
  unfold cleanParseJ
  rw [hacc]
  have h1 : errorFree (evsP2 p) = true := evsP2_errorFree p
  simp only [h1, and_self, if_true, program_cst p]
  rfl

/-- **C16 at the top level for arbitrary fitting joint bits**: the statements may be joined by whitespace, by a
newline or by nothing — the children of the root are the subtrees of the statements -/
theorem concat_clean_joint (l : List Stmt2) (hs : ∀ s ∈ l, WFTop (single s)) (hc : compatTop l = true)
    (fuel : Nat) (hf : needL2 (ofList l) + 3 ≤ fuel) (J : Array Bool) (hJ : JointOK (l.flatMap toksS2) J) :
    cleanParseJ fuel (l.flatMap toksS2) J = some (file (l.flatMap nodesS2)) ∧
      children (file (l.flatMap nodesS2)) = l.map nodesS2 := by
  have := program_clean_joint (ofList l) (wfTop_of_singles l hs hc) fuel hf J (by rw [toksL2_ofList]; exact hJ)
  rw [toksL2_ofList, nodesL2_ofList] at this
  exact ⟨this, children_file l⟩

/-! ### inside a block -/

/-- a statement list inside `{ … }` is well formed iff every statement is accepted by `stmt` and the adjacency
conditions hold -/
theorem block_wf (l : List Stmt2) : WFL2 true (ofList l) ↔ (∀ s ∈ l, WFS2 s) ∧ compatBlock l = true :=
  wfBlock_ofList l

/-- a statement on its own, parsed by `stmt` (what the loop of a block calls) from any ready state, followed by a token
that satisfies its `Follow` condition: exactly the events `evsS2 s`, no error event, and `process` turns them — in
every context — into the one subtree `nodesS2 s` -/
theorem stmt_alone (s : Stmt2) (hwf : WFS2 s) :
    (∀ (F : Nat) (st : P), needS2 s ≤ F → RdyL 8 st → Toks st st.pos (toksS2 s) →
      FollowS2 s st (st.pos + (toksS2 s).length) → Acc (stmt F) st (toksS2 s).length (evsS2 s)) ∧
    errorFree (evsS2 s) = true ∧ GoSeg (evsS2 s) (nodesS2 s) ∧ isTree (nodesS2 s) = true :=
  ⟨stmt_ok2 s hwf, evsS2_errorFree s, goS2 s, isTree_nodesS2 s⟩

/-- **C16 inside a block, n-ary.**  The statement loop (the loop of every block body: `gate`, `def`, `cal`, `if`,
`while`, `for`, `switch` cases, bare blocks) on the concatenation of `s1 … sn` in front of `}`: it consumes exactly
the tokens, pushes exactly the events of the statements in order (no error event), and `process` turns that segment,
in every context, into the concatenation of the `n` subtrees `nodesS2 si`. -/
theorem block_sequence (l : List Stmt2) (hs : ∀ s ∈ l, WFS2 s) (hc : compatBlock l = true) :
    (∀ (F : Nat) (st : P), needL2 (ofList l) ≤ F → RdyL 8 st → Toks st st.pos (l.flatMap toksS2) →
      st.kindAt (st.pos + (l.flatMap toksS2).length) = .R_CURLY →
      Acc (exprBlockStatements F) st (l.flatMap toksS2).length (l.flatMap evsS2)) ∧
    errorFree (l.flatMap evsS2) = true ∧
    GoSeg (l.flatMap evsS2) (l.flatMap nodesS2) ∧
    (∀ rest, splitTop (l.flatMap nodesS2 ++ rest) = l.map nodesS2 ++ splitTop rest) ∧
    (l.map nodesS2).map width = l.map (fun s => (toksS2 s).length) := by
  have hwf : WFL2 true (ofList l) := (wfBlock_ofList l).2 ⟨hs, hc⟩
  refine ⟨fun F st hF hr htk hcl => ?_, ?_, ?_, splitTop_flatMap_append l, ?_⟩
  · have := stmts_ok2 true (ofList l) hwf F st hF hr (by rw [toksL2_ofList]; exact htk)
      (closerOf_true (by rw [toksL2_ofList]; exact hcl))
    rwa [toksL2_ofList, evsL2_ofList] at this
  · rw [← evsL2_ofList]; exact evsL2_errorFree _
  · rw [← evsL2_ofList, ← nodesL2_ofList]; exact goL2 _
  · rw [List.map_map]; exact List.map_congr_left (fun s _ => widthS2 s)

/-! ### block bodies seen from whole programs -/

/-- the statements with a block body -/
inductive Ctx
  | gate (params : Option Nat) (nq : Nat)
  | defn (params : List PTy) (ret : Option Ty)
  | cal
  | whileB (c : X)
  | ifB (c : X)
  | forB (ty : Ty) (w : Option X) (it : Iter)
  /-- a bare block `{ … }` at the top level -/
  | bare

def Ctx.fill : Ctx → Stmts2 → Stmt2
  | .gate ps nq, b => .gateDef ps nq b
  | .defn ps ret, b => .defS ps ret b
  | .cal, b => .cal b
  | .whileB c, b => .whileS c (.blk b)
  | .ifB c, b => .ifS c (.blk b)
  | .forB ty w it, b => .forS ty w it (.blk b)
  | .bare, b => .block b

/-- well-formedness of the part in front of the body -/
def Ctx.WF : Ctx → Prop
  | .whileB c => CanonX 1 c
  | .ifB c => CanonX 1 c
  | .forB ty w it => ((w.isSome = true → ty.wide = true) ∧ WidthOK w) ∧ CanonIter it
  | _ => True

/-- the steps in front of the BLOCK_EXPR of the body -/
def Ctx.pre : Ctx → List Step
  | .gate none nq =>
    .enter .GATE :: .token .GATE_KW 1 :: .enter .NAME :: .token .IDENT 1 :: .exit :: .enter .PARAM_LIST :: (paramNodes nq ++ [.exit])
  | .gate (some k) nq =>
    .enter .GATE :: .token .GATE_KW 1 :: .enter .NAME :: .token .IDENT 1 :: .exit ::
      .enter .PARAM_LIST :: .token .L_PAREN 1 :: (paramNodes k ++ (.token .R_PAREN 1 :: .exit ::
        .enter .PARAM_LIST :: (paramNodes nq ++ [.exit])))
  | .defn ps ret =>
    .enter .DEF :: .token .DEF_KW 1 :: .enter .NAME :: .token .IDENT 1 :: .exit ::
      .enter .TYPED_PARAM_LIST :: .token .L_PAREN 1 :: (typedNodes ps ++ (.token .R_PAREN 1 :: .exit :: retNodes ret))
  | .cal => [.enter .CAL, .token .CAL_KW 1]
  | .whileB c => .enter .WHILE_STMT :: .token .WHILE_KW 1 :: .token .L_PAREN 1 :: (nodesX c ++ [.token .R_PAREN 1])
  | .ifB c => .enter .IF_STMT :: .token .IF_KW 1 :: .token .L_PAREN 1 :: (nodesX c ++ [.token .R_PAREN 1])
  | .forB ty w it =>
    .enter .FOR_STMT :: .token .FOR_KW 1 :: (tyNodesX ty w ++ (nameNodes ++ (.token .IN_KW 1 :: .enter .FOR_ITERABLE ::
      (iterNodes it ++ [.exit]))))
  | .bare => [.enter .EXPR_STMT]

/-- the tokens in front of the `{` of the body -/
def Ctx.preToks : Ctx → List Tok
  | .gate none nq => tk .GATE_KW :: tk .IDENT :: qubitToks nq
  | .gate (some k) nq => tk .GATE_KW :: tk .IDENT :: tk .L_PAREN :: (qubitToks k ++ (tk .R_PAREN :: qubitToks nq))
  | .defn ps ret => tk .DEF_KW :: tk .IDENT :: tk .L_PAREN :: (typedToks ps ++ (tk .R_PAREN :: retToks ret))
  | .cal => [tk .CAL_KW]
  | .whileB c => tk .WHILE_KW :: parenToks c
  | .ifB c => tk .IF_KW :: parenToks c
  | .forB ty w it => tk .FOR_KW :: (tyToksX ty w ++ (tk .IDENT :: tk .IN_KW :: iterToks it))
  | .bare => []

theorem Ctx.nodes_fill (c : Ctx) (b : Stmts2) :
    nodesS2 (c.fill b) = c.pre ++ (blockNodes (nodesL2 b) ++ [.exit]) := by
  cases c with
  | gate ps nq => cases ps <;> simp [Ctx.fill, Ctx.pre, nodesS2]
  | defn ps ret => simp [Ctx.fill, Ctx.pre, nodesS2]
  | cal => simp [Ctx.fill, Ctx.pre, nodesS2]
  | whileB c => simp [Ctx.fill, Ctx.pre, nodesS2, nodesB]
  | ifB c => simp [Ctx.fill, Ctx.pre, nodesS2, nodesB]
  | forB ty w it => simp [Ctx.fill, Ctx.pre, nodesS2, nodesB]
  | bare => simp [Ctx.fill, Ctx.pre, nodesS2]

theorem Ctx.toks_fill (c : Ctx) (b : Stmts2) :
    toksS2 (c.fill b) = c.preToks ++ (tk .L_CURLY :: (toksL2 b ++ [tk .R_CURLY])) := by
  cases c with
  | gate ps nq => cases ps <;> simp [Ctx.fill, Ctx.preToks, toksS2]
  | defn ps ret => simp [Ctx.fill, Ctx.preToks, toksS2]
  | cal => simp [Ctx.fill, Ctx.preToks, toksS2]
  | whileB c => simp [Ctx.fill, Ctx.preToks, toksS2, toksB]
  | ifB c => simp [Ctx.fill, Ctx.preToks, toksS2, toksB]
  | forB ty w it => simp [Ctx.fill, Ctx.preToks, toksS2, toksB]
  | bare => simp [Ctx.fill, Ctx.preToks, toksS2]

theorem Ctx.wf_fill (c : Ctx) (b : Stmts2) : WFTop (single (c.fill b)) ↔ c.WF ∧ WFL2 true b := by
  rw [wfTop_single]
  cases c with
  | gate ps nq => simp [Ctx.fill, Ctx.WF, isItem2, WFItem, WFS2]
  | defn ps ret => simp [Ctx.fill, Ctx.WF, isItem2, WFItem, WFS2]
  | cal => simp [Ctx.fill, Ctx.WF, isItem2, WFItem, WFS2]
  | whileB c => simp [Ctx.fill, Ctx.WF, isItem2, WFItem, WFS2, WFB]
  | ifB c => simp [Ctx.fill, Ctx.WF, isItem2, WFItem, WFS2, WFB]
  | forB ty w it => cases it <;> simp [Ctx.fill, Ctx.WF, isItem2, WFItem, WFS2, WFB, iterBodyOK, and_assoc]
  | bare => simp [Ctx.fill, Ctx.WF, isItem2, WFL2, WFS2, endsAssign, endsBlock, startsMinus2]

/-- the children of the BLOCK_EXPR of a body: `{`, the subtrees of the statements, `}` -/
theorem children_block (l : List Stmt2) :
    children (blockNodes (l.flatMap nodesS2)) = [Step.token .L_CURLY 1] :: (l.map nodesS2 ++ [[Step.token .R_CURLY 1]]) := by
  simp only [blockNodes, children, splitTop, splitTop_flatMap_append]

/-- **C16 inside a block, at the level of whole programs**: `ctx { s1 … sn }` parses cleanly; the BLOCK_EXPR of the
body has exactly the children `{`, `nodesS2 s1`, …, `nodesS2 sn`, `}`; and every `si` that may stand alone in a block
gives, in `ctx { si }`, that one subtree `nodesS2 si` -/
theorem block_compositional_program (c : Ctx) (hcw : c.WF) (l : List Stmt2) (hs : ∀ s ∈ l, WFS2 s)
    (hc : compatBlock l = true) (fuel : Nat) (hf : needL2 (single (c.fill (ofList l))) + 3 ≤ fuel) :
    cleanParse fuel (c.preToks ++ (tk .L_CURLY :: (l.flatMap toksS2 ++ [tk .R_CURLY]))) =
        some (file (c.pre ++ (blockNodes (l.flatMap nodesS2) ++ [.exit]))) ∧
      children (blockNodes (l.flatMap nodesS2)) = [Step.token .L_CURLY 1] :: (l.map nodesS2 ++ [[Step.token .R_CURLY 1]]) ∧
      ∀ s ∈ l, endsBlock s = false → ∀ fuel', needL2 (single (c.fill (single s))) + 3 ≤ fuel' →
        cleanParse fuel' (c.preToks ++ (tk .L_CURLY :: (toksS2 s ++ [tk .R_CURLY]))) =
          some (file (c.pre ++ (blockNodes (nodesS2 s) ++ [.exit]))) := by
  refine ⟨?_, children_block l, fun s hm hb fuel' hf' => ?_⟩
  · have := alone_clean (c.fill (ofList l)) ((c.wf_fill _).2 ⟨hcw, (wfBlock_ofList l).2 ⟨hs, hc⟩⟩) fuel hf
    rwa [c.toks_fill, c.nodes_fill, toksL2_ofList, nodesL2_ofList] at this
  · have := alone_clean (c.fill (single s)) ((c.wf_fill _).2 ⟨hcw, (wfBlock_single s).2 ⟨hs s hm, hb⟩⟩) fuel' hf'
    rwa [c.toks_fill, c.nodes_fill, toksL2_single, nodesL2_single] at this

/-! ### examples: the hypotheses are satisfiable -/

private def xi : X := .prim .id
private def n1 : X := .prim (.lit .int)

/-- eight statements of seven kinds:
```
OPENQASM 3.0;
const uint[8] n = 4;
let a = q[0:1];                     -- in the item run: ALIAS_DECLARATION_STATEMENT
gate g(t) a { rx(t) a; }
h q;                                -- the first statement that `item` does not dispatch itself
c = measure q;                      -- ends with an assignment: the next statement must not start with `-`
if (c == 1) { reset q; } else x = -x;
x + 1;
``` -/
def demo : List Stmt2 :=
  [ .version,
    .decl true .uint (some n1) (some n1),
    .alias (.prim (.idIdx (.one (.one (.r2 n1 n1))))),
    .gateDef (some 0) 0 (.cons (.gate (.cons xi .nil) (.one .id)) .nil),
    .gate .nil (.one .id),
    .assign none (.prim .measureE),
    .ifElse (.bin .eq2 xi n1) (.blk (.cons (.reset .id) .nil)) (.one (.assign none (.pre .minus xi))),
    .exprS (.bin .plus xi n1) ]

theorem demo_singles : ∀ s ∈ demo, WFTop (single s) := by
  simp [demo, xi, n1, single, WFTop, WFItem, isItem2, WFL2, WFS2, WFB, WFC, CanonX, CanonP, CanonXs, CanonItem, CanonItems,
    CanonIdx, CanonQ, CanonQs, CanonMods, CanonMod, CanonTarget, CanonIter, CanonCases, iterBodyOK, WidthOK, ItemsFirstOK,
    IdxFirstOK, firstItem, firstX, firstP, BinOp.pow, endsAssign, endsAssignB, endsIfB, endsIf, endsBlock, endsBlockB,
    startsMinus2, Ty.wide, firstTokS2, exprStmtFirst2, indexable, Lit.kind, Num.kind, PreOp.kind]

theorem demo_compat : compatTop demo = true := by decide
theorem demo_fuel : needL2 (ofList demo) + 3 ≤ 100 := by decide

/-- the instance of `sequence_compositional_top`: 8 children, of the kinds of the statements parsed alone -/
theorem demo_compositional :
    ∃ steps, cleanParse 100 (demo.flatMap toksS2) = some steps ∧ children steps = demo.map nodesS2 ∧
      (children steps).map rootKind =
        [some .VERSION_STRING, some .CLASSICAL_DECLARATION_STATEMENT, some .ALIAS_DECLARATION_STATEMENT, some .GATE,
         some .EXPR_STMT, some .ASSIGNMENT_STMT, some .IF_STMT, some .EXPR_STMT] ∧
      ∀ s ∈ demo, ∃ st, cleanParse 100 (toksS2 s) = some st ∧ children st = [nodesS2 s] := by
  obtain ⟨steps, h1, -, h2, -, h3, -, -⟩ := sequence_compositional_top demo demo_singles demo_compat 100 demo_fuel
  refine ⟨steps, h1, h2, ?_, fun s hm => ?_⟩
  · rw [h2]; decide
  · obtain ⟨st, h4, -, h5⟩ := h3 s hm
    exact ⟨st, h4, h5⟩

/-- a block body with a `let` (LET_STMT), a bare block in the middle, a brace-less `while`:
`let a = q; h q; { x = 1; } while (x) x = x + 1; x;` -/
def demoBlock : List Stmt2 :=
  [ .letS xi,
    .gate .nil (.one .id),
    .block (.cons (.assign none n1) .nil),
    .whileS xi (.one (.assign none (.prim (.paren (.bin .plus xi n1))))),
    .exprS xi ]

theorem demoBlock_wf : ∀ s ∈ demoBlock, WFS2 s := by
  simp [demoBlock, xi, n1, WFL2, WFS2, WFB, CanonX, CanonP, CanonQ, CanonQs, CanonXs, CanonTarget, firstX, firstP, BinOp.pow,
    endsAssign, endsAssignB, endsBlock, endsBlockB, startsMinus2, firstTokS2, exprStmtFirst2, Lit.kind, PreOp.kind]

theorem demoBlock_compat : compatBlock demoBlock = true := by decide

/-- `gate g q0, q1 { … }` around `demoBlock`: the children of the body are `{`, the five subtrees, `}` -/
theorem demoBlock_in_gate : ∃ inner,
    cleanParse 100 ((Ctx.gate none 1).preToks ++ (tk .L_CURLY :: (demoBlock.flatMap toksS2 ++ [tk .R_CURLY]))) =
      some (file ((Ctx.gate none 1).pre ++ (inner ++ [.exit]))) ∧
    children inner = [Step.token .L_CURLY 1] :: (demoBlock.map nodesS2 ++ [[Step.token .R_CURLY 1]]) ∧
    (demoBlock.map nodesS2).map rootKind =
      [some .LET_STMT, some .EXPR_STMT, some .EXPR_STMT, some .WHILE_STMT, some .EXPR_STMT] := by
  obtain ⟨h1, h2, -⟩ := block_compositional_program (.gate none 1) trivial demoBlock demoBlock_wf demoBlock_compat 100 (by decide)
  exact ⟨_, h1, h2, by decide⟩

example : ∃ l : List Stmt2, l.length = 8 ∧ (∀ s ∈ l, WFTop (single s)) ∧ compatTop l = true :=
  ⟨demo, rfl, demo_singles, demo_compat⟩

example : ∃ l : List Stmt2, l.length = 5 ∧ (∀ s ∈ l, WFS2 s) ∧ compatBlock l = true :=
  ⟨demoBlock, rfl, demoBlock_wf, demoBlock_compat⟩

/-- the joint bits of the print itself fit -/
example : JointOK (demo.flatMap toksS2) (jointOf (demo.flatMap toksS2)) := jointOK_jointOf _

/-! ### excluded pairs: the adjacency conditions are necessary — the concatenation IS a different tree -/

/-- kinds of the children of the root -/
def childKinds (o : Option (List Step)) : Option (List (Option SyntaxKind)) :=
  o.map fun st => (children st).map rootKind

/-- `x = 1;` -/
def asg : Stmt2 := .assign none n1
/-- `-y;` -/
def neg : Stmt2 := .exprS (.pre .minus xi)

/-- **F09e**: `x = 1;` and `-y;` each parse cleanly on their own, they are not `Compat`, the pair is not a
well-formed program, and its clean (!) parse has ONE child, an EXPR_STMT (`(x = 1;) - y;`, cf.
`C16.witness_assign_then_minus`), instead of ASSIGNMENT_STMT, EXPR_STMT -/
theorem assign_then_minus :
    WFTop (single asg) ∧ WFTop (single neg) ∧ Compat asg neg = false ∧ ¬ WFTop (ofList [asg, neg]) ∧
    childKinds (cleanParse 100 (toksS2 asg)) = some [some .ASSIGNMENT_STMT] ∧
    childKinds (cleanParse 100 (toksS2 neg)) = some [some .EXPR_STMT] ∧
    childKinds (cleanParse 100 ([asg, neg].flatMap toksS2)) = some [some .EXPR_STMT] := by
  have h1 : WFTop (single asg) := by
    simp [asg, n1, single, WFTop, isItem2, WFL2, WFS2, CanonTarget, CanonX, CanonP, endsAssign, startsMinus2]
  have h2 : WFTop (single neg) := by
    simp [neg, xi, single, WFTop, isItem2, WFL2, WFS2, CanonX, CanonP, endsAssign, startsMinus2, firstX, firstP, PreOp.kind,
      exprStmtFirst2]
  refine ⟨h1, h2, by decide, ?_, by decide +kernel, by decide +kernel, by decide +kernel⟩
  rw [concat_wf [asg, neg] (by simp [h1, h2])]
  decide

/-- **F09b**: `y;` then `let a = q;` — alone the `let` is an ALIAS_DECLARATION_STATEMENT, after `y;` the same tokens
are a LET_STMT; in the language: `.alias` is not `letOK` there, `.letS` (same print) is the statement that is accepted -/
theorem let_after_stmt :
    WFTop (single (.exprS xi)) ∧ WFTop (single (.alias xi)) ∧ letOK [.exprS xi, .alias xi] = false ∧
    ¬ WFTop (ofList [.exprS xi, .alias xi]) ∧
    WFTop (ofList [.exprS xi, .letS xi]) ∧ toksS2 (.letS xi) = toksS2 (.alias xi) ∧
    childKinds (cleanParse 100 (toksS2 (.alias xi))) = some [some .ALIAS_DECLARATION_STATEMENT] ∧
    childKinds (cleanParse 100 ([Stmt2.exprS xi, .alias xi].flatMap toksS2)) = some [some .EXPR_STMT, some .LET_STMT] := by
  have h1 : WFTop (single (.exprS xi)) := by
    simp [xi, single, WFTop, isItem2, WFL2, WFS2, CanonX, CanonP, endsAssign, startsMinus2, firstX, firstP, exprStmtFirst2]
  have h2 : WFTop (single (.alias xi)) := by simp [xi, single, WFTop, isItem2, WFItem, CanonX, CanonP, endsAssign]
  refine ⟨h1, h2, by decide, ?_, ?_, rfl, by decide +kernel, by decide +kernel⟩
  · rw [concat_wf _ (by simp [h1, h2])]; decide
  · simp [xi, ofList, WFTop, isItem2, WFL2, WFS2, CanonX, CanonP, endsAssign, endsBlock, startsMinus2, firstX, firstP,
      exprStmtFirst2]

/-- **F09d / F09f**: a bare block as the LAST statement of a block is a BLOCK_EXPR without the EXPR_STMT wrapper
that it has in front of another statement: `gate g q { x; { y; } }` versus `gate g q { { y; } x; }` -/
theorem bare_block_last :
    lastOK [.exprS xi, .block (ofList [.exprS xi])] = false ∧ lastOK [.block (ofList [.exprS xi]), .exprS xi] = true ∧
    (cleanParse 100 (toksS2 (.gateDef none 0 (ofList [.exprS xi, .block (ofList [.exprS xi])])))).map C16.enters =
      some [.SOURCE_FILE, .GATE, .NAME, .PARAM_LIST, .PARAM, .BLOCK_EXPR, .EXPR_STMT, .IDENTIFIER,
            .BLOCK_EXPR, .EXPR_STMT, .IDENTIFIER] ∧
    (cleanParse 100 (toksS2 (.gateDef none 0 (ofList [.block (ofList [.exprS xi]), .exprS xi])))).map C16.enters =
      some [.SOURCE_FILE, .GATE, .NAME, .PARAM_LIST, .PARAM, .BLOCK_EXPR, .EXPR_STMT, .BLOCK_EXPR, .EXPR_STMT, .IDENTIFIER,
            .EXPR_STMT, .IDENTIFIER] :=
  ⟨by decide, by decide, by decide +kernel, by decide +kernel⟩

end Oq3.Props.C16Lang
