/-
C19 — the symbol table behaves as a stack of scopes under every operation history.

All theorems quantify over arbitrary operation lists (`List Op`, any names, any types); the
induction is over the list, so there is no bound on history length, nesting depth or the number
of symbols.
-/
import Oq3.Model.Symbols

namespace Oq3.Props.C19
open Oq3.Types Oq3.Symbols

/-! ### helper lemmas on one scope -/

theorem get_none_iff (s : Scope) (n : Name) : s.get n = none ↔ ∀ p ∈ s.tab, p.1 ≠ n := by
  unfold Scope.get
  simp [List.find?_eq_none]

theorem filter_of_get_none (s : Scope) (n : Name) (h : s.get n = none) :
    s.tab.filter (fun p => !(p.1 == n)) = s.tab := by
  rw [List.filter_eq_self]
  intro p hp
  have := (get_none_iff s n).mp h p hp
  simp [this]

theorem insert_fresh (s : Scope) (n : Name) (id : Nat) (h : s.get n = none) :
    s.insert n id = { s with tab := (n, id) :: s.tab } := by
  unfold Scope.insert; rw [filter_of_get_none s n h]

theorem get_some_mem {s : Scope} {n : Name} {id : Nat} (h : s.get n = some id) :
    (n, id) ∈ s.tab := by
  unfold Scope.get at h
  simp only [Option.map_eq_some_iff] at h
  obtain ⟨p, hp, rfl⟩ := h
  have h1 := List.mem_of_find?_eq_some hp
  have h2 := List.find?_some hp
  simp at h2
  rw [← h2]; exact h1

/-! ### the invariant -/

/-- the stack is non-empty, with exactly one global scope, at the bottom -/
def GlobalBottom (st : List Scope) : Prop :=
  ∃ g rest, st = rest ++ [g] ∧ g.kind = .global ∧ ∀ s ∈ rest, s.kind ≠ .global

structure Inv (t : SymTab) : Prop where
  /-- the id counter moves in lock-step with the symbol vector -/
  counter_eq : t.counter = t.all.length
  /-- every id stored in an open scope is in range and names its key -/
  ids_ok : ∀ s ∈ t.stack, ∀ p ∈ s.tab, (t.all[p.2]?).map (·.name) = some p.1
  /-- one value per key in every open scope -/
  keys_nodup : ∀ s ∈ t.stack, (s.tab.map (·.1)).Nodup
  /-- non-empty stack, exactly one global scope, at the bottom -/
  global_bottom : GlobalBottom t.stack

/-- the state right after `enter_scope(Global)` in `SymbolTable::new` -/
def base : SymTab := { stack := [⟨[], .global⟩], all := [], counter := 0 }

theorem inv_base : Inv base :=
  ⟨rfl, by simp [base], by simp [base], ⟨⟨[], .global⟩, [], by simp [base], rfl, by simp⟩⟩

theorem globalBottom_ne_nil {st : List Scope} (h : GlobalBottom st) : st ≠ [] := by
  obtain ⟨g, rest, rfl, _, _⟩ := h; simp

theorem globalBottom_push {st : List Scope} (h : GlobalBottom st) (k : ScopeType)
    (hk : k ≠ .global) : GlobalBottom (⟨[], k⟩ :: st) := by
  obtain ⟨g, rest, rfl, hg, hr⟩ := h
  refine ⟨g, ⟨[], k⟩ :: rest, by simp, hg, ?_⟩
  intro s hs
  simp only [List.mem_cons] at hs
  rcases hs with rfl | hs
  · exact hk
  · exact hr s hs

theorem globalBottom_tail {st : List Scope} (h : GlobalBottom st) (hl : st.length > 1) :
    GlobalBottom st.tail := by
  obtain ⟨g, rest, rfl, hg, hr⟩ := h
  cases rest with
  | nil => simp at hl
  | cons r rest =>
    exact ⟨g, rest, by simp, hg, fun s hs => hr s (List.mem_cons_of_mem _ hs)⟩

theorem inv_newBinding {t t' : SymTab} {n : Name} {ty : T} {id : Nat} (h : Inv t)
    (hfresh : ∀ s rest, t.stack = s :: rest → s.get n = none)
    (hb : t.newBindingNoCheck n ty = some (t', id)) : Inv t' := by
  unfold SymTab.newBindingNoCheck at hb
  split at hb
  · simp at hb
  · rename_i s rest heq
    simp only [Option.some.injEq, Prod.mk.injEq] at hb
    obtain ⟨rfl, rfl⟩ := hb
    have hf := hfresh s rest heq
    rw [insert_fresh s n _ hf]
    refine ⟨by simp [h.counter_eq], ?_, ?_, ?_⟩
    · intro s' hs' p hp
      simp only [List.mem_cons] at hs'
      have old : ∀ s'' ∈ t.stack, ∀ p ∈ s''.tab,
          ((t.all ++ [⟨n, ty⟩])[p.2]?).map (·.name) = some p.1 := by
        intro s'' hs'' p hp
        have := h.ids_ok s'' hs'' p hp
        have hlt : p.2 < t.all.length := by
          cases hg : t.all[p.2]? with
          | none => simp [hg] at this
          | some _ => exact (List.getElem?_eq_some_iff.mp hg).1
        rw [List.getElem?_append_left hlt]; exact this
      rcases hs' with rfl | hs'
      · simp only [List.mem_cons] at hp
        rcases hp with rfl | hp
        · simp [h.counter_eq]
        · exact old s (by rw [heq]; simp) p hp
      · exact old s' (by rw [heq]; simp [hs']) p hp
    · intro s' hs'
      simp only [List.mem_cons] at hs'
      rcases hs' with rfl | hs'
      · simp only [List.map_cons, List.nodup_cons]
        refine ⟨?_, h.keys_nodup s (by rw [heq]; simp)⟩
        intro hmem
        simp only [List.mem_map] at hmem
        obtain ⟨p, hp, hpn⟩ := hmem
        exact (get_none_iff s n).mp hf p hp hpn
      · exact h.keys_nodup s' (by rw [heq]; simp [hs'])
    · have := h.global_bottom
      rw [heq] at this
      obtain ⟨g, rest', hst, hg, hr⟩ := this
      cases rest' with
      | nil =>
        simp only [List.nil_append, List.cons.injEq] at hst
        obtain ⟨rfl, rfl⟩ := hst
        exact ⟨_, [], rfl, hg, by simp⟩
      | cons r rest' =>
        simp only [List.cons_append, List.cons.injEq] at hst
        obtain ⟨rfl, rfl⟩ := hst
        refine ⟨g, { tab := (n, t.counter) :: s.tab, kind := s.kind } :: rest', rfl, hg, ?_⟩
        intro s' hs'
        simp only [List.mem_cons] at hs'
        rcases hs' with rfl | hs'
        · exact hr s (by simp)
        · exact hr s' (by simp [hs'])

theorem lookupId_none_head {t : SymTab} {n : Name} (h : t.lookupId n = none) :
    ∀ s rest, t.stack = s :: rest → s.get n = none := by
  intro s rest heq
  unfold SymTab.lookupId at h
  rw [heq] at h
  simp only [List.findSome?_cons] at h
  cases hg : s.get n with
  | none => rfl
  | some _ => simp [hg] at h

theorem newBinding_eq {t t' : SymTab} {n : Name} {ty : T} {id : Nat}
    (hb : t.newBindingNoCheck n ty = some (t', id)) :
    ∃ s rest, t.stack = s :: rest ∧
      t' = { stack := s.insert n t.counter :: rest, all := t.all ++ [⟨n, ty⟩],
             counter := t.counter + 1 } ∧ id = t.counter := by
  unfold SymTab.newBindingNoCheck at hb
  split at hb
  · simp at hb
  · rename_i s rest heq
    simp only [Option.some.injEq, Prod.mk.injEq] at hb
    exact ⟨s, rest, heq, hb.1.symm, hb.2.symm⟩

/-- **Invariant, one step.** -/
theorem inv_step (t : SymTab) (op : Op) (h : Inv t) : Inv (t.step op).1 := by
  cases op with
  | enter k =>
    simp only [SymTab.step]
    split
    · exact h
    · rename_i hc
      refine ⟨h.counter_eq, ?_, ?_, ?_⟩
      · intro s hs p hp
        simp only [List.mem_cons] at hs
        rcases hs with rfl | hs
        · simp at hp
        · exact h.ids_ok s hs p hp
      · intro s hs
        simp only [List.mem_cons] at hs
        rcases hs with rfl | hs
        · simp
        · exact h.keys_nodup s hs
      · have hne := globalBottom_ne_nil h.global_bottom
        have hk : k ≠ .global := by
          intro hk; apply hc
          refine ⟨hk, ?_⟩
          cases hst : t.stack with
          | nil => exact absurd hst hne
          | cons a b => simp
        exact globalBottom_push h.global_bottom k hk
  | exit =>
    simp only [SymTab.step]
    split
    · rename_i hl
      refine ⟨h.counter_eq, ?_, ?_, globalBottom_tail h.global_bottom hl⟩
      · intro s hs p hp
        exact h.ids_ok s (List.mem_of_mem_tail hs) p hp
      · intro s hs
        exact h.keys_nodup s (List.mem_of_mem_tail hs)
    · exact h
  | bind n ty =>
    simp only [SymTab.step]
    split
    · exact h
    · rename_i s rest heq
      split
      · exact h
      · rename_i hc
        split
        · rename_i t' id hb
          refine inv_newBinding h ?_ hb
          intro s' rest' heq'
          rw [heq] at heq'
          simp only [List.cons.injEq] at heq'
          obtain ⟨rfl, _⟩ := heq'
          simpa [Scope.containsName] using hc
        · exact h
  | lookup n =>
    simp only [SymTab.step]
    split
    · split <;> exact h
    · exact h
  | lookupOrNew n ty =>
    simp only [SymTab.step]
    split
    · split <;> exact h
    · rename_i hl
      split
      · rename_i t' id hb
        exact inv_newBinding h (lookupId_none_head hl) hb
      · exact h
  | lenCurrent =>
    simp only [SymTab.step]
    split <;> exact h


/-- **Invariant, every reachable state**: any history from any state satisfying the invariant. -/
theorem inv_run (t : SymTab) (ops : List Op) (h : Inv t) : Inv (run t ops) := by
  induction ops generalizing t with
  | nil => exact h
  | cons op ops ih => exact ih _ (inv_step t op h)

/-- `SymbolTable::new()` satisfies the invariant … -/
theorem inv_init : Inv init := by
  have : init = run base
      (builtinConsts.map (fun n => Op.bind n (T.float (some 64) true)) ++
        [Op.bind "U" (T.gate 3 1)]) := by
    simp [init, run, SymTab.step, empty, base, Gen.builtinConstWidth, Gen.builtinConstIsConst, Gen.builtinGate]
  rw [this]; exact inv_run _ _ inv_base

/-- … hence so does every state reachable from it by any history. -/
theorem inv_reachable (ops : List Op) : Inv (run init ops) := inv_run _ _ inv_init

/-! ### look-up = innermost open scope that has a binding -/

/-- `lookup` answers with the binding of the innermost open scope that has one. -/
theorem lookup_innermost (t : SymTab) (n : Name) (id : Nat) :
    t.lookupId n = some id ↔
      ∃ pre s post, t.stack = pre ++ s :: post ∧ (∀ s' ∈ pre, s'.get n = none) ∧
        s.get n = some id := by
  unfold SymTab.lookupId
  generalize t.stack = st
  induction st with
  | nil => simp
  | cons s0 st ih =>
    simp only [List.findSome?_cons]
    cases hg : s0.get n with
    | none =>
      simp only [ih]
      constructor
      · rintro ⟨pre, s, post, rfl, hpre, hs⟩
        refine ⟨s0 :: pre, s, post, by simp, ?_, hs⟩
        intro s' hs'
        simp only [List.mem_cons] at hs'
        rcases hs' with rfl | hs'
        · exact hg
        · exact hpre s' hs'
      · rintro ⟨pre, s, post, heq, hpre, hs⟩
        cases pre with
        | nil =>
          simp only [List.nil_append, List.cons.injEq] at heq
          obtain ⟨rfl, rfl⟩ := heq
          rw [hg] at hs; simp at hs
        | cons p pre =>
          simp only [List.cons_append, List.cons.injEq] at heq
          obtain ⟨rfl, rfl⟩ := heq
          exact ⟨pre, s, post, rfl, fun s' hs' => hpre s' (List.mem_cons_of_mem _ hs'), hs⟩
    | some v =>
      constructor
      · intro h
        simp only [Option.some.injEq] at h
        subst h
        exact ⟨[], s0, st, rfl, by simp, hg⟩
      · rintro ⟨pre, s, post, heq, hpre, hs⟩
        cases pre with
        | nil =>
          simp only [List.nil_append, List.cons.injEq] at heq
          obtain ⟨rfl, rfl⟩ := heq
          rw [hg] at hs; exact hs
        | cons p pre =>
          simp only [List.cons_append, List.cons.injEq] at heq
          obtain ⟨rfl, rfl⟩ := heq
          have := hpre s0 (by simp)
          rw [hg] at this; simp at this

theorem lookup_none_iff (t : SymTab) (n : Name) :
    t.lookupId n = none ↔ ∀ s ∈ t.stack, s.get n = none := by
  unfold SymTab.lookupId; simp [List.findSome?_eq_none_iff]

/-- Under the invariant a look-up never panics and returns the symbol named `n`. -/
theorem lookup_sound (t : SymTab) (h : Inv t) (n : Name) :
    ((t.step (.lookup n)).2 = .missing ∧ t.lookupId n = none) ∨
    ∃ id ty, (t.step (.lookup n)).2 = .found id n ty ∧ t.lookupId n = some id ∧
      t.all[id]? = some ⟨n, ty⟩ := by
  simp only [SymTab.step]
  cases hl : t.lookupId n with
  | none => left; simp
  | some id =>
    right
    obtain ⟨pre, s, post, heq, _, hs⟩ := (lookup_innermost t n id).mp hl
    have := h.ids_ok s (by rw [heq]; simp) (n, id) (get_some_mem hs)
    simp only [Option.map_eq_some_iff] at this
    obtain ⟨sym, hsym, hname⟩ := this
    refine ⟨id, sym.ty, ?_, rfl, ?_⟩
    · simp [hsym, hname]
    · rw [hsym]; cases sym; simp_all

/-! ### binding -/

/-- a binding fails if and only if the *current* scope already has that name -/
theorem bind_fails_iff (t : SymTab) (n : Name) (ty : T) (s : Scope) (rest : List Scope)
    (hst : t.stack = s :: rest) :
    (t.step (.bind n ty)).2 = .alreadyBound ↔ s.get n ≠ none := by
  simp only [SymTab.step, hst, Scope.containsName, SymTab.newBindingNoCheck]
  cases hg : s.get n <;> simp

/-- a successful binding returns the next fresh id, appends exactly one symbol with the given
name and type, pushes exactly one entry on the current scope and overwrites nothing -/
theorem bind_ok (t : SymTab) (h : Inv t) (n : Name) (ty : T) (s : Scope) (rest : List Scope)
    (hst : t.stack = s :: rest) (hg : s.get n = none) :
    t.step (.bind n ty) =
      ({ stack := { s with tab := (n, t.all.length) :: s.tab } :: rest,
         all := t.all ++ [⟨n, ty⟩], counter := t.all.length + 1 }, .bound t.all.length) := by
  simp only [SymTab.step, hst, Scope.containsName, hg, SymTab.newBindingNoCheck]
  simp [insert_fresh s n _ hg, h.counter_eq]

/-- `lookup_or_new_binding`: an existing visible binding is returned, otherwise a fresh one is
made in the current scope, again without overwriting -/
theorem lookupOrNew_ok (t : SymTab) (h : Inv t) (n : Name) (ty : T) (s : Scope)
    (rest : List Scope) (hst : t.stack = s :: rest) (hl : t.lookupId n = none) :
    t.step (.lookupOrNew n ty) =
      ({ stack := { s with tab := (n, t.all.length) :: s.tab } :: rest,
         all := t.all ++ [⟨n, ty⟩], counter := t.all.length + 1 }, .bound t.all.length) := by
  have hg := lookupId_none_head hl s rest hst
  simp only [SymTab.step, hl, hst, SymTab.newBindingNoCheck]
  simp [insert_fresh s n _ hg, h.counter_eq]

/-! ### ids are unique, never reused, and denote the same symbol for ever -/

theorem all_prefix_step (t : SymTab) (op : Op) : t.all <+: (t.step op).1.all := by
  cases op with
  | enter k => simp only [SymTab.step]; split <;> exact List.prefix_refl _
  | exit => simp only [SymTab.step]; split <;> exact List.prefix_refl _
  | lookup n => simp only [SymTab.step]; (repeat' split) <;> exact List.prefix_refl _
  | lenCurrent => simp only [SymTab.step]; split <;> exact List.prefix_refl _
  | bind n ty =>
    simp only [SymTab.step]
    split
    · exact List.prefix_refl _
    · split
      · exact List.prefix_refl _
      · split
        · rename_i hb
          obtain ⟨_, _, _, rfl, _⟩ := newBinding_eq hb
          exact List.prefix_append _ _
        · exact List.prefix_refl _
  | lookupOrNew n ty =>
    simp only [SymTab.step]
    split
    · split <;> exact List.prefix_refl _
    · split
      · rename_i hb
        obtain ⟨_, _, _, rfl, _⟩ := newBinding_eq hb
        exact List.prefix_append _ _
      · exact List.prefix_refl _

theorem all_prefix_run (t : SymTab) (ops : List Op) : t.all <+: (run t ops).all := by
  induction ops generalizing t with
  | nil => exact List.prefix_refl _
  | cons op ops ih => exact (all_prefix_step t op).trans (ih _)

/-- an id that denotes a symbol keeps denoting the same name and type after any history
(also after its scope has been closed) -/
theorem ids_stable (t : SymTab) (ops : List Op) (id : Nat) (sym : Sym)
    (h : t.all[id]? = some sym) : (run t ops).all[id]? = some sym := by
  obtain ⟨ext, hext⟩ := all_prefix_run t ops
  rw [← hext]
  have := (List.getElem?_eq_some_iff.mp h).1
  rw [List.getElem?_append_left this]; exact h

/-- every id handed out is new: it is the length of the symbol vector, which only grows -/
theorem fresh_id (t : SymTab) (h : Inv t) (op : Op) (id : Nat)
    (hb : (t.step op).2 = .bound id) :
    (t.all[id]? ≠ none ∧ (t.step op).1 = t) ∨
    (id = t.all.length ∧ (t.step op).1.all.length = t.all.length + 1) := by
  cases op with
  | bind n ty =>
    right
    simp only [SymTab.step] at hb ⊢
    split at hb
    · simp at hb
    · split at hb
      · simp at hb
      · split at hb
        · rename_i hc _ _ _ hnb
          obtain ⟨_, _, _, rfl, rfl⟩ := newBinding_eq hnb
          simp only [Out.bound.injEq] at hb
          simp [hc, hnb, ← hb, h.counter_eq]
        · simp at hb
  | lookupOrNew n ty =>
    simp only [SymTab.step] at hb ⊢
    split at hb
    · split at hb
      · rename_i hl _ sym hsym
        simp only [Out.bound.injEq] at hb
        left; subst hb; simp [hl, hsym]
      · simp at hb
    · rename_i hl
      split at hb
      · rename_i hnb
        obtain ⟨_, _, _, rfl, rfl⟩ := newBinding_eq hnb
        right
        simp only [Out.bound.injEq] at hb
        simp [hl, hnb, ← hb, h.counter_eq]
      · simp at hb
  | enter k => simp only [SymTab.step] at hb; split at hb <;> simp at hb
  | exit => simp only [SymTab.step] at hb; split at hb <;> simp at hb
  | lookup n => simp only [SymTab.step] at hb; (repeat' split at hb) <;> simp at hb
  | lenCurrent => simp only [SymTab.step] at hb; split at hb <;> simp at hb

/-! ### scope exit removes exactly the scope's own bindings -/

/-- `exit_scope` panics exactly when only the global scope is open -/
theorem exit_panics_iff (t : SymTab) : (t.step .exit).2 = .panic ↔ t.stack.length ≤ 1 := by
  simp only [SymTab.step]; split <;> simp <;> omega

theorem step_exit_stack (t : SymTab) (h : t.stack.length > 1) :
    (t.step .exit).1.stack = t.stack.tail := by
  simp only [SymTab.step, h, if_true]

theorem step_enter_stack (t : SymTab) (k : ScopeType) (hk : k ≠ .global) :
    (t.step (.enter k)).1.stack = ⟨[], k⟩ :: t.stack := by
  simp [SymTab.step, hk]

/-- histories whose exits never close a scope that was open before the history started -/
def Balanced : Nat → List Op → Bool
  | d, [] => d == 0
  | d, .enter _ :: ops => Balanced (d + 1) ops
  | 0, .exit :: _ => false
  | d + 1, .exit :: ops => Balanced d ops
  | d, _ :: ops => Balanced d ops

/-- Frame lemma. A history that opened `d` scopes more than it closed on entry and is balanced
leaves every scope below those `d` untouched except that the scope it started in may have
gained bindings — existing entries of that scope are never removed or changed. -/
theorem balanced_frame (d : Nat) (ops : List Op) (t : SymTab) (inner : List Scope) (s : Scope)
    (rest : List Scope) (hb : Balanced d ops = true) (hd : inner.length = d)
    (hst : t.stack = inner ++ s :: rest) (hk : ∀ k, Op.enter k ∈ ops → k ≠ .global) :
    ∃ s', (run t ops).stack = s' :: rest ∧ s'.kind = s.kind ∧ s.tab <:+ s'.tab := by
  induction ops generalizing d t inner s with
  | nil =>
    simp only [Balanced, beq_iff_eq] at hb
    subst hb
    have : inner = [] := List.eq_nil_of_length_eq_zero hd
    subst this
    exact ⟨s, by simpa [run] using hst, rfl, List.suffix_refl _⟩
  | cons op ops ih =>
    have hk' : ∀ k, Op.enter k ∈ ops → k ≠ .global := fun k hk0 => hk k (List.mem_cons_of_mem _ hk0)
    cases op with
    | enter k =>
      simp only [Balanced] at hb
      have hkg : k ≠ .global := hk k (by simp)
      have hstep : (t.step (.enter k)).1.stack = (⟨[], k⟩ :: inner) ++ s :: rest := by
        rw [step_enter_stack t k hkg, hst]; rfl
      exact ih (d + 1) _ (⟨[], k⟩ :: inner) s hb (by simp [hd]) hstep hk'
    | exit =>
      cases d with
      | zero => simp [Balanced] at hb
      | succ d =>
        simp only [Balanced] at hb
        cases inner with
        | nil => simp at hd
        | cons i inner =>
          have hlen : t.stack.length > 1 := by rw [hst]; simp; omega
          have hstep : (t.step .exit).1.stack = inner ++ s :: rest := by
            rw [step_exit_stack t hlen, hst]; rfl
          exact ih d _ inner s hb (by simpa using hd) hstep hk'
    | bind n ty =>
      have hb' : Balanced d ops = true := by cases d <;> simpa [Balanced] using hb
      cases inner with
      | nil =>
        simp only [List.nil_append] at hst
        simp only [run, SymTab.step, hst, SymTab.newBindingNoCheck]
        split
        · exact ih d _ [] s hb' hd (by simpa using hst) hk'
        · obtain ⟨s', h1, h2, h3⟩ := ih d
            { stack := s.insert n t.counter :: rest, all := t.all ++ [⟨n, ty⟩],
              counter := t.counter + 1 } [] (s.insert n t.counter) hb' hd (by simp) hk'
          rename_i hc
          have hg : s.get n = none := by simpa [Scope.containsName] using hc
          rw [insert_fresh s n _ hg] at h2 h3
          exact ⟨s', by simpa [insert_fresh s n _ hg] using h1, h2,
            (List.suffix_cons _ _).trans h3⟩
      | cons i inner =>
        simp only [List.cons_append] at hst
        simp only [run, SymTab.step, hst, SymTab.newBindingNoCheck]
        split
        · exact ih d _ (i :: inner) s hb' hd (by simpa using hst) hk'
        · exact ih d _ (i.insert n t.counter :: inner) s hb' (by simpa using hd) (by simp) hk'
    | lookup n =>
      have hb' : Balanced d ops = true := by cases d <;> simpa [Balanced] using hb
      have : (t.step (.lookup n)).1 = t := by
        simp only [SymTab.step]; (repeat' split) <;> rfl
      simp only [run, this]
      exact ih d t inner s hb' hd hst hk'
    | lenCurrent =>
      have hb' : Balanced d ops = true := by cases d <;> simpa [Balanced] using hb
      have : (t.step .lenCurrent).1 = t := by
        simp only [SymTab.step]; (repeat' split) <;> rfl
      simp only [run, this]
      exact ih d t inner s hb' hd hst hk'
    | lookupOrNew n ty =>
      have hb' : Balanced d ops = true := by cases d <;> simpa [Balanced] using hb
      simp only [run, SymTab.step]
      split
      · split
        · exact ih d t inner s hb' hd hst hk'
        · exact ih d t inner s hb' hd hst hk'
      · rename_i hl
        cases inner with
        | nil =>
          simp only [List.nil_append] at hst
          simp only [hst, SymTab.newBindingNoCheck]
          have hg := lookupId_none_head hl s rest hst
          obtain ⟨s', h1, h2, h3⟩ := ih d
            { stack := s.insert n t.counter :: rest, all := t.all ++ [⟨n, ty⟩],
              counter := t.counter + 1 } [] (s.insert n t.counter) hb' hd (by simp) hk'
          rw [insert_fresh s n _ hg] at h2 h3
          exact ⟨s', by simpa [insert_fresh s n _ hg] using h1, h2,
            (List.suffix_cons _ _).trans h3⟩
        | cons i inner =>
          simp only [List.cons_append] at hst
          simp only [hst, SymTab.newBindingNoCheck]
          exact ih d _ (i.insert n t.counter :: inner) s hb' (by simpa using hd) (by simp) hk'

/-- **Exit removes exactly the scope's own bindings.** Entering a scope, running any balanced
history inside it and exiting restores the stack exactly (while the symbols created inside
stay addressable by id: `ids_stable`). -/
theorem exit_removes_own (t : SymTab) (k : ScopeType) (hk : k ≠ .global) (ops : List Op)
    (hb : Balanced 0 ops = true) (hk' : ∀ k, Op.enter k ∈ ops → k ≠ .global)
    (hne : t.stack ≠ []) :
    (run t (Op.enter k :: ops ++ [Op.exit])).stack = t.stack := by
  obtain ⟨s0, rest0, hst⟩ := List.exists_cons_of_ne_nil hne
  have h1 : (t.step (.enter k)).1.stack = [] ++ ⟨[], k⟩ :: t.stack := by
    rw [step_enter_stack t k hk]; rfl
  obtain ⟨s', hs', _, _⟩ := balanced_frame 0 ops _ [] ⟨[], k⟩ t.stack hb rfl h1 hk'
  have hrun : ∀ (a : SymTab) (xs ys : List Op), run a (xs ++ ys) = run (run a xs) ys := by
    intro a xs ys; induction xs generalizing a with
    | nil => rfl
    | cons x xs ih => exact ih _
  show (run (t.step (.enter k)).1 (ops ++ [Op.exit])).stack = t.stack
  rw [hrun]
  have hlen : (run (t.step (.enter k)).1 ops).stack.length > 1 := by rw [hs', hst]; simp
  show ((run (t.step (.enter k)).1 ops).step .exit).1.stack = t.stack
  rw [step_exit_stack _ hlen, hs']; rfl

/-! ### built-ins -/

theorem initial_builtins :
    init.all.map (fun s => (s.name, s.ty)) =
      [("pi", T.float (some 64) true), ("π", T.float (some 64) true),
       ("euler", T.float (some 64) true), ("ℇ", T.float (some 64) true),
       ("tau", T.float (some 64) true), ("τ", T.float (some 64) true), ("U", T.gate 3 1)] ∧
    init.stack.length = 1 ∧
    (∀ n ∈ builtinConsts ++ ["U"], init.lookupId n ≠ none) := by
  refine ⟨?_, ?_, ?_⟩ <;>
    simp [init, run, SymTab.step, empty, builtinConsts, Gen.builtinConsts, Gen.builtinConstWidth, Gen.builtinConstIsConst,
      Gen.builtinGate, SymTab.newBindingNoCheck, Scope.containsName, Scope.get, Scope.insert, SymTab.lookupId]

/-! ### non-vacuity -/

example : Balanced 0 [.bind "a" (T.int none false), .enter .localS, .bind "a" T.qubit, .exit,
    .lookup "a"] = true := by decide

end Oq3.Props.C19
