/-
C09 — declared symbols carry exactly the declared type.

* `scalar_type_exact`: `scalar_type_to_type` returns exactly base kind / width / const as written,
  the width being whatever `designator_to_asg` returned.
* designators: `designator_none`, `designator_literal` (the recorded width is `value mod 2^32`),
  `declared_width_literal_partial` (`w < 2^32 → w`), `width_truncated_silently` + witness (F17),
  `designator_nonint_literal` (`ConstIntegerError`), `designator_identifier_cases` (const
  identifier: value if it fits `u32`; `InvalidDesignatorError` and the SUBSTITUTED WIDTH 0 otherwise;
  panic when no value was recorded; non-const identifier: width silently dropped).
* `declared_type_recorded_partial`: the symbol appended for a classical declaration has the written
  type; `qubit_register_recorded`.
* `gate_arity_recorded`, `def_signature_recorded`, `params_bound_with_type`,
  `typed_params_bound_with_types`.
* `gates_listing`, `stdgates_listing`, `witness_stdgates_included`.
-/
import Oq3.Props.C08

namespace Oq3.Props.C09
open Oq3 Oq3.Types Oq3.Symbols Oq3.Sema Oq3.Props.C08

/-! ### what a written type denotes -/

/-- the `Type` denoted by a written scalar type of kind `kind` with width/length `w` -/
def typeOf (kind : Ast.ScalarTypeKind) (w : Option Nat) (c : Bool) : Option T :=
  match kind with
  | .angle => some (.angle w c)
  | .bit => some (match w with | some w => .bitArray (.d1 w) c | none => .bit c)
  | .bool => some (.boolT c)
  | .complex => some (.complex w c)
  | .duration => some (.duration c)
  | .float => some (.float w c)
  | .int => some (.int w c)
  | .stretch => some (.stretch c)
  | .uint => some (.uint w c)
  | .qubit => some (match w with | some w => .qubitArray (.d1 w) | none => .qubit)
  | .none => none

/-- the designator `scalar_type_to_type` evaluates: for `complex[float[w]]` the inner one -/
def effectiveDesignator : Ast.ScalarType → Option Ast.Designator
  | .mk _ _ d none => d
  | .mk _ _ _ (some (.mk _ _ d _)) => d

def kindOfScalarType : Ast.ScalarType → Ast.ScalarTypeKind
  | .mk _ k _ _ => k

/-- **C09, base kind / width / const exactly as written**: the result of `scalar_type_to_type` is
the type denoted by the written kind, the const flag passed in, and the width returned by
`designator_to_asg` on the (effective) designator — nothing else. -/
theorem scalar_type_exact (st : Ast.ScalarType) (isconst : Bool) (c c' : Ctx) (t : T)
    (h : (scalarTypeToType st isconst).run c = .ok (t, c')) :
    ∃ w, (designatorToAsg (effectiveDesignator st)).run c = .ok (w, c') ∧
      typeOf (kindOfScalarType st) w isconst = some t := by
  obtain ⟨sp, kind, d, inner⟩ := st
  have key : ∀ deff, (do
        let width ← designatorToAsg deff
        match kind with
        | .angle => pure (T.angle width isconst)
        | .bit => pure <| match width with
          | some w => T.bitArray (.d1 w) isconst
          | none => T.bit isconst
        | .bool => pure (T.boolT isconst)
        | .complex => pure (T.complex width isconst)
        | .duration => pure (T.duration isconst)
        | .float => pure (T.float width isconst)
        | .int => pure (T.int width isconst)
        | .stretch => pure (T.stretch isconst)
        | .uint => pure (T.uint width isconst)
        | .qubit => pure <| match width with
          | some w => T.qubitArray (.d1 w)
          | none => T.qubit
        | .none => fail "scalar_type_to_type: ScalarTypeKind::None" : M T) c = .ok (t, c') →
      ∃ w, (designatorToAsg deff).run c = .ok (w, c') ∧ typeOf kind w isconst = some t := by
    intro deff hh
    simp only [M.bind_ok] at hh
    obtain ⟨w, c1, h1, h2⟩ := hh
    cases kind <;> simp only [M.pure_ok, Prod.mk.injEq, M.fail_ok] at h2 <;>
      (obtain ⟨rfl, rfl⟩ := h2; exact ⟨w, h1, rfl⟩)
  cases inner with
  | none => exact key d h
  | some i =>
    obtain ⟨isp, ik, id, ii⟩ := i
    exact key id h

/-! ### designators -/

theorem designator_none (c : Ctx) : (designatorToAsg none).run c = .ok (none, c) := rfl

theorem designator_empty (sp : Ast.Span) (c : Ctx) :
    (designatorToAsg (some (.mk sp none))).run c = .ok (none, c) := rfl

/-- a literal integer designator: the recorded width is the value **mod 2^32** (`value as u32`),
the state is untouched (no diagnostic) -/
theorem designator_literal (sp sp' : Ast.Span) (text : String) (v : Option Nat) (n : Nat)
    (hn : TokenExt.intValueS text = some n) (c : Ctx) :
    (designatorToAsg (some (.mk sp (some (.literal ⟨sp', .intNumber text v⟩))))).run c =
      .ok (some (n % 2 ^ 32), c) := by
  simp only [designatorToAsg, getAstDesignatorExpression, intNumberValue, hn, unwrap]
  rfl

/-- **C09, literal widths that fit are recorded exactly** -/
theorem declared_width_literal_partial (sp sp' : Ast.Span) (text : String) (v : Option Nat) (w : Nat)
    (hn : TokenExt.intValueS text = some w) (hw : w < 2 ^ 32) (c : Ctx) :
    (designatorToAsg (some (.mk sp (some (.literal ⟨sp', .intNumber text v⟩))))).run c =
      .ok (some w, c) := by
  rw [designator_literal sp sp' text v w hn c, Nat.mod_eq_of_lt hw]

/-- **F17**: a literal width that does not fit `u32` is replaced by ANOTHER number, silently -/
theorem width_truncated_silently (sp sp' : Ast.Span) (text : String) (v : Option Nat) (w : Nat)
    (hn : TokenExt.intValueS text = some w) (hw : 2 ^ 32 ≤ w) (c : Ctx) :
    ∃ w', (designatorToAsg (some (.mk sp (some (.literal ⟨sp', .intNumber text v⟩))))).run c =
      .ok (some w', c) ∧ w' ≠ w ∧ w' = w % 2 ^ 32 := by
  refine ⟨_, designator_literal sp sp' text v w hn c, ?_, rfl⟩
  have : w % 2 ^ 32 < 2 ^ 32 := Nat.mod_lt _ (by decide)
  omega

/-- a literal designator that is not an integer: `ConstIntegerError` at the literal, no width -/
theorem designator_nonint_literal (sp : Ast.Span) (lit : Ast.Literal)
    (hk : ∀ text v, lit.kind ≠ .intNumber text v) (c : Ctx) :
    (designatorToAsg (some (.mk sp (some (.literal lit))))).run c =
      .ok (none, { c with semanticErrors :=
        c.semanticErrors ++ [⟨.constIntegerError, lit.span.start, lit.span.stop⟩] }) := by
  obtain ⟨lsp, k⟩ := lit
  cases k <;> first
    | (exact absurd rfl (hk _ _))
    | rfl

/-- **the identifier designator, exactly** (successful runs).  `name` resolves to `(sym, typ)`:
* `typ` not const: NO width and NO diagnostic (the written designator is silently dropped);
* `typ` const (this includes a failed lookup, whose type `Undefined` counts as const — then the
  code panics, so no successful run exists): the recorded initializer `cv` of the symbol exists
  (otherwise panic) and either it is `Cast(Literal::Int{value, sign: true})` with `value < 2^32`
  and the width is `value`, or `InvalidDesignatorError` is logged at the identifier and the width
  **0** is substituted. -/
theorem designator_identifier_cases (sp : Ast.Span) (ident : Ast.Identifier) (c c' : Ctx)
    (w : Option Nat)
    (h : (designatorToAsg (some (.mk sp (some (.identifier ident))))).run c = .ok (w, c')) :
    ∃ sym typ c1, (lookupIdentifier ident).run c = .ok ((sym, typ), c1) ∧
      ((isConst typ = false ∧ w = none ∧ c' = c1) ∨
       (isConst typ = true ∧ ∃ id cv, sym = .ok id ∧
          (c1.constValues.find? (fun p => p.1 == id)).map (·.2) = some cv ∧
          ((∃ width, texprToU32 cv = some width ∧ w = some width ∧ c' = c1) ∨
           (texprToU32 cv = none ∧ w = some 0 ∧
             c' = { c1 with semanticErrors := c1.semanticErrors ++
               [⟨.invalidDesignatorError, ident.span.start, ident.span.stop⟩] })))) := by
  simp only [StateT.run, designatorToAsg, getAstDesignatorExpression, M.bind_ok] at h
  obtain ⟨⟨sym, typ⟩, c1, h1, h2⟩ := h
  refine ⟨sym, typ, c1, h1, ?_⟩
  simp only at h2
  by_cases hc : isConst typ = true
  · right
    rw [if_pos hc] at h2
    cases sym with
    | error e => simp [M.bind_ok] at h2
    | ok id =>
      simp only [M.bind_ok, M.pure_ok, Prod.mk.injEq, exists2_eq] at h2
      obtain ⟨cv?, c2, h3, cv, c3, h4, h5⟩ := h2
      simp only [getConstValue, M.get_bind_ok, M.pure_ok, Prod.mk.injEq] at h3
      obtain ⟨rfl, rfl⟩ := h3
      obtain ⟨h4a, h4b⟩ := (M.unwrap_ok _ _ _ _).mp h4
      simp only at h4a h4b
      subst h4b
      refine ⟨hc, id, cv, rfl, h4a, ?_⟩
      cases hu : texprToU32 cv with
      | some width =>
        simp only [hu, M.pure_ok, Prod.mk.injEq] at h5
        exact .inl ⟨width, rfl, h5.1, h5.2⟩
      | none =>
        simp only [hu, M.bind_ok, M.pure_ok, Prod.mk.injEq] at h5
        obtain ⟨u, c4, h6, rfl, rfl⟩ := h5
        exact .inr ⟨rfl, rfl, insertError_ok _ _ _ _ _ h6⟩
  · left
    rw [if_neg hc] at h2
    simp only [M.pure_ok, Prod.mk.injEq] at h2
    exact ⟨by simpa using hc, h2.1, h2.2⟩

/-- what `TryFrom<&TExpr> for u32` accepts: exactly `Cast(Literal::Int{value, sign: true}, _)` with
`value < 2^32` — so a const integer ≥ 2^32, a negative one, and any non-literal constant expression
end in `InvalidDesignatorError` + width 0 -/
theorem texprToU32_some_iff (cv : TExpr) (w : Nat) :
    texprToU32 cv = some w ↔
      ∃ t t', cv.expression = .cast (.mk (.literal (.int w true)) t) t' ∧ w < 2 ^ 32 := by
  unfold texprToU32
  split
  · rename_i iv t t' heq
    constructor
    · intro h
      split at h
      · cases h; exact ⟨t, t', heq, ‹_›⟩
      · cases h
    · rintro ⟨a, b, h1, h2⟩
      rw [heq] at h1
      cases h1
      simp [h2]
  · rename_i hne
    constructor
    · intro h; cases h
    · rintro ⟨a, b, h1, -⟩
      exact absurd h1 (hne _ _ _)

/-! ### bindings -/

/-- the next symbol id after `c` is bound to `(name, t)` in `c'` -/
def Recorded (c c' : Ctx) (name : String) (t : T) : Prop :=
  c.symbolTable.all ++ [⟨name, t⟩] <+: c'.symbolTable.all

/-- `Context::new_binding`, exactly: either the symbol `(name, typ)` is appended, with id the
counter; or the name was bound in the current scope, nothing is appended, and
`RedeclarationError` is logged -/
theorem newBinding_ok (name : String) (typ : T) (node : Ast.Span) (c c' : Ctx) (r : SymbolIdResult)
    (h : (newBinding name typ node).run c = .ok (r, c')) :
    (r = .ok c.symbolTable.counter ∧ c'.symbolTable.all = c.symbolTable.all ++ [⟨name, typ⟩] ∧
      c'.symbolTable.counter = c.symbolTable.counter + 1 ∧
      c'.semanticErrors = c.semanticErrors) ∨
    (r = .error .alreadyBound ∧ c'.symbolTable = c.symbolTable ∧
      c'.semanticErrors = c.semanticErrors ++ [⟨.redeclarationError, node.start, node.stop⟩]) := by
  simp only [StateT.run, newBinding, M.bind_ok] at h
  obtain ⟨o, c1, h1, h2⟩ := h
  obtain ⟨ho, rfl⟩ := symStep_ok _ _ _ _ _ h1
  simp only [SymTab.step] at ho h2 ⊢
  cases hst : c.symbolTable.stack with
  | nil => simp only [hst] at ho; subst ho; simp at h2
  | cons s rest =>
    simp only [hst] at ho h2 ⊢
    by_cases hcn : s.containsName name = true
    · simp only [hcn, if_true] at ho h2 ⊢
      subst ho
      simp only [M.bind_ok, M.pure_ok, Prod.mk.injEq] at h2
      obtain ⟨u, c2, h3, rfl, rfl⟩ := h2
      right
      rw [insertError_ok _ _ _ _ _ h3]
      exact ⟨rfl, rfl, rfl⟩
    · simp only [hcn, Bool.false_eq_true, if_false, SymTab.newBindingNoCheck, hst] at ho h2 ⊢
      subst ho
      simp only [M.pure_ok, Prod.mk.injEq] at h2
      obtain ⟨rfl, rfl⟩ := h2
      left
      exact ⟨rfl, rfl, rfl, rfl⟩

/-! ### classical and quantum declarations -/

/-- **C09, declarations.**  A (non-array) classical declaration whose written type `st` denotes
`t` binds the name with exactly `t`: the symbol `(name, t)` is the one appended by this
declaration (or the name was already bound in this scope: `err:AlreadyBound`). -/
theorem declared_type_recorded (fuel : Nat) (span : Ast.Span) (st : Ast.ScalarType)
    (constToken : Bool) (name : Ast.Name) (expr : Option Ast.Expr) (c c' : Ctx) (stmt : Stmt)
    (h : (classicalDeclarationStatementToAsgStmt (fuel + 1) span false (some st) constToken
      (some name) expr).run c = .ok (stmt, c')) :
    ∃ t c1 w init c2 sym v,
      (designatorToAsg (effectiveDesignator st)).run c = .ok (w, c1) ∧
      typeOf (kindOfScalarType st) w constToken = some t ∧
      (exprToAsgTexpr fuel expr).run c1 = .ok (init, c2) ∧
      stmt = .declareClassical sym v ∧
      ((sym = .ok c2.symbolTable.counter ∧ Recorded c2 c' name.text t) ∨
        sym = .error .alreadyBound) := by
  simp only [StateT.run, classicalDeclarationStatementToAsgStmt, Bool.false_eq_true, if_false,
    unwrap, M.bind_ok, M.pure_ok, Prod.mk.injEq, exists2_eq] at h
  obtain ⟨lhsType, c1, h1, init, c2, h2, sym, c3, h3, h4⟩ := h
  obtain ⟨w, hw, ht⟩ := scalar_type_exact st constToken c c1 lhsType h1
  -- the tail only touches diagnostics and the const-value table
  have tail : ∃ v, stmt = .declareClassical sym v ∧ c3.symbolTable.all <+: c'.symbolTable.all := by
    have hs : Spec (S := c'.symbolTable.all) (match init with
        | none => declareClassicalHelper sym none
        | some initializer =>
          if equalUpToConstness lhsType initializer.getType = true then
            pure (Stmt.declareClassical sym (some initializer))
          else
            match initializer.expression with
            | Expr.literal literal =>
              if Sema.canCastLiteral lhsType initializer.getType literal = true then
                declareClassicalHelper sym (some (castToTexpr initializer lhsType))
              else do
                insertError SemanticErrorKind.incompatibleTypesError span
                declareClassicalHelper sym (some initializer)
            | _ =>
              if equalUpToConstness (promoteTypesNotEqual lhsType initializer.getType) lhsType = true then
                declareClassicalHelper sym (some (castToTexpr initializer lhsType))
              else
                if (decide (promoteTypesNotEqual lhsType initializer.getType = T.void) ||
                    decide (promoteTypesNotEqual lhsType initializer.getType = initializer.getType)) = true then do
                  insertError SemanticErrorKind.incompatibleTypesError span
                  declareClassicalHelper sym (some initializer)
                else declareClassicalHelper sym (some initializer))
        (fun s => ∃ v, s = .declareClassical sym v) := by
      have hd : ∀ v, Spec (S := c'.symbolTable.all) (declareClassicalHelper sym v)
          (fun s => ∃ v, s = .declareClassical sym v) := by
        intro v
        refine ⟨fun cA s cB hh => ?_⟩
        have h5 := declareClassicalHelper_ok _ _ _ _ _ hh
        refine ⟨?_, fun _ => ⟨v, h5.1⟩⟩
        unfold declareClassicalHelper at hh
        cases v with
        | none =>
          simp only [M.pure_ok, Prod.mk.injEq] at hh
          rw [hh.2]; exact Ext.refl _
        | some i =>
          simp only at hh
          split at hh
          · cases sym with
            | error e =>
              simp only [M.pure_bind_ok, M.pure_ok, Prod.mk.injEq] at hh
              rw [hh.2]; exact Ext.refl _
            | ok id =>
              simp only [insertConstValue, M.modify_bind_ok, M.pure_ok, Prod.mk.injEq] at hh
              rw [hh.2]; exact Ext.refl _
          · simp only [M.pure_ok, Prod.mk.injEq] at hh
            rw [hh.2]; exact Ext.refl _
      cases init with
      | none => exact hd _
      | some i =>
        simp only
        split
        · exact Spec.pure ⟨_, rfl⟩
        · split
          · split
            · exact hd _
            · exact Spec.bind_unit (Spec.insertError _ _) (hd _)
          · split
            · exact hd _
            · split
              · exact Spec.bind_unit (Spec.insertError _ _) (hd _)
              · exact hd _
    obtain ⟨e, r⟩ := hs.run c3 stmt c' h4
    obtain ⟨v, hv⟩ := r (List.prefix_refl _)
    exact ⟨v, hv, e⟩
  obtain ⟨v, hv, hpre⟩ := tail
  refine ⟨lhsType, c1, w, init, c2, sym, v, hw, ht, h2, hv, ?_⟩
  rcases newBinding_ok _ _ _ _ _ _ h3 with ⟨rfl, hall, -, -⟩ | ⟨rfl, -, -⟩
  · left
    refine ⟨rfl, ?_⟩
    unfold Recorded
    rw [← hall]; exact hpre
  · right; rfl

/-- **C09, declarations with a literal width that fits.**  `T[w] name` with `w < 2^32` binds
`name` with kind `T`, width exactly `w`, const iff `const` was written. -/
theorem declared_type_recorded_partial (fuel : Nat) (span sp1 sp2 sp3 : Ast.Span)
    (kind : Ast.ScalarTypeKind) (text : String) (tv : Option Nat) (w : Nat)
    (hn : TokenExt.intValueS text = some w) (hw : w < 2 ^ 32)
    (constToken : Bool) (name : Ast.Name) (expr : Option Ast.Expr) (c c' : Ctx) (stmt : Stmt)
    (h : (classicalDeclarationStatementToAsgStmt (fuel + 1) span false
      (some (.mk sp1 kind (some (.mk sp2 (some (.literal ⟨sp3, .intNumber text tv⟩)))) none))
      constToken (some name) expr).run c = .ok (stmt, c')) :
    ∃ t init c2 sym v,
      typeOf kind (some w) constToken = some t ∧
      (exprToAsgTexpr fuel expr).run c = .ok (init, c2) ∧
      stmt = .declareClassical sym v ∧
      ((sym = .ok c2.symbolTable.counter ∧ Recorded c2 c' name.text t) ∨
        sym = .error .alreadyBound) := by
  obtain ⟨t, c1, w', init, c2, sym, v, h1, h2, h3, h4, h5⟩ :=
    declared_type_recorded fuel span _ constToken name expr c c' stmt h
  have := declared_width_literal_partial sp2 sp3 text tv w hn hw c
  simp only [effectiveDesignator] at h1
  rw [this] at h1
  simp only [Except.ok.injEq, Prod.mk.injEq] at h1
  obtain ⟨rfl, rfl⟩ := h1
  exact ⟨t, init, c2, sym, v, h2, h3, h4, h5⟩

/-- **C09, qubit registers.**  `qubit[w] name;` binds `name : QubitArray(w)` where `w` is what
`designator_to_asg` returned; `qubit name;` binds `Qubit`. -/
theorem qubit_register_recorded (fuel : Nat) (span : Ast.Span) (name : Ast.Name)
    (hw : Option Ast.HardwareQubit) (qt : Ast.QubitType) (c c' : Ctx) (stmt : Option Stmt)
    (h : (stmtToAsgStmt (fuel + 1)
      (.quantumDeclarationStatement span (some name) hw (some qt))).run c = .ok (stmt, c')) :
    ∃ c1 c2 w sym, (designatorToAsg qt.designator).run c1 = .ok (w, c2) ∧
      stmt = some (.declareQuantum sym) ∧
      ((sym = .ok c2.symbolTable.counter ∧
        Recorded c2 c' name.text (match w with | some w => .qubitArray (.d1 w) | none => .qubit)) ∨
        sym = .error .alreadyBound) := by
  simp only [StateT.run, stmtToAsgStmt, M.bind_ok, unwrap, M.pure_ok, Prod.mk.injEq, exists2_eq] at h
  obtain ⟨u, c1, -, w, c2, h2, sym, c3, h3, rfl, rfl⟩ := h
  refine ⟨c1, c2, w, sym, h2, rfl, ?_⟩
  rcases newBinding_ok _ _ _ _ _ _ h3 with ⟨rfl, hall, -, -⟩ | ⟨rfl, -, -⟩
  · left
    refine ⟨rfl, ?_⟩
    unfold Recorded
    rw [hall]
    cases w <;> exact List.prefix_refl _
  · right; rfl

/-! ### parameters -/

/-- symbols appended by a parameter list: each has the given type and the name of a parameter -/
theorem params_bound_with_type (typ : T) (ps : List Ast.Param) (c c' : Ctx)
    (rs : List SymbolIdResult) (h : (bindParams typ ps).run c = .ok (rs, c')) :
    rs.length = ps.length ∧
    ∃ new, c'.symbolTable.all = c.symbolTable.all ++ new ∧
      ∀ s, s ∈ new → s.ty = typ ∧ ∃ p, p ∈ ps ∧ s.name = p.text := by
  induction ps generalizing c rs with
  | nil =>
    simp only [StateT.run, bindParams, M.pure_ok, Prod.mk.injEq] at h
    obtain ⟨rfl, rfl⟩ := h
    exact ⟨rfl, [], by simp, by simp⟩
  | cons p ps ih =>
    simp only [StateT.run, bindParams, M.bind_ok, M.pure_ok, Prod.mk.injEq] at h
    obtain ⟨r, cA, h1, rs', cB, h2, hrs, hc⟩ := h
    subst hrs hc
    obtain ⟨hl, new, hnew, hall⟩ := ih cA rs' h2
    refine ⟨by simp [hl], ?_⟩
    rcases newBinding_ok _ _ _ _ _ _ h1 with ⟨-, ha, -, -⟩ | ⟨-, ha, -⟩
    · refine ⟨⟨p.text, typ⟩ :: new, by rw [hnew, ha]; simp, ?_⟩
      intro s hs
      cases hs with
      | head => exact ⟨rfl, p, List.mem_cons_self .., rfl⟩
      | tail _ hs =>
        obtain ⟨h3, q, hq, h4⟩ := hall s hs
        exact ⟨h3, q, List.mem_cons_of_mem _ hq, h4⟩
    · refine ⟨new, by rw [hnew, ha], ?_⟩
      intro s hs
      obtain ⟨h3, q, hq, h4⟩ := hall s hs
      exact ⟨h3, q, List.mem_cons_of_mem _ hq, h4⟩

/-- number of written parameters (0 when the list is absent) -/
def paramCount : Option Ast.ParamList → Nat
  | some l => l.params.length
  | none => 0

/-- length of an optional list (0 when absent): the `num_params` of the Gate and Def arms -/
def optLen {α : Type} : Option (List α) → Nat
  | some l => l.length
  | none => 0

theorem bindParameterList_length (pl : Option Ast.ParamList) (typ : T) (c c' : Ctx)
    (r : Option (List SymbolIdResult)) (h : (bindParameterList pl typ).run c = .ok (r, c')) :
    optLen r = paramCount pl ∧ (r.isSome = pl.isSome) := by
  cases pl with
  | none =>
    simp only [StateT.run, bindParameterList, M.pure_ok, Prod.mk.injEq] at h
    obtain ⟨rfl, rfl⟩ := h
    exact ⟨rfl, rfl⟩
  | some l =>
    simp only [StateT.run, bindParameterList, M.bind_ok, M.pure_ok, Prod.mk.injEq] at h
    obtain ⟨rs, cA, h1, hr, hc⟩ := h
    subst hr
    exact ⟨(params_bound_with_type typ l.params c cA rs h1).1, rfl⟩

/-- one step of `bind_typed_parameter_list` -/
theorem bindTypedParams_cons (p : Ast.TypedParam) (ps : List Ast.TypedParam) (c c' : Ctx)
    (rs : List SymbolIdResult) (h : (bindTypedParams (p :: ps)).run c = .ok (rs, c')) :
    ∃ t c1 nm r c2 rs',
      (match p.paramType with
        | some pt => (paramTypeToType pt false).run c = .ok (t, c1)
        | none => p.oldTypedParam = true ∧ t = .todo ∧ c1 = c) ∧
      p.name = some nm ∧
      (newBinding nm.text t p.span).run c1 = .ok (r, c2) ∧
      (bindTypedParams ps).run c2 = .ok (rs', c') ∧ rs = r :: rs' := by
  have key : ∀ (t : T) (c1 : Ctx), (do
        let name ← unwrap "bind_typed_parameter_list: param.name() is None" p.name
        let r ← newBinding name.text t p.span
        let rs ← bindTypedParams ps
        pure (r :: rs)) c1 = .ok (rs, c') →
      ∃ nm r c2 rs', p.name = some nm ∧ (newBinding nm.text t p.span).run c1 = .ok (r, c2) ∧
        (bindTypedParams ps).run c2 = .ok (rs', c') ∧ rs = r :: rs' := by
    intro t c1 hh
    simp only [M.bind_ok] at hh
    obtain ⟨nm, c2, h2, r, c3, h3, rs', c4, h4, h5⟩ := hh
    obtain ⟨h2a, h2b⟩ := (M.unwrap_ok _ _ _ _).mp h2
    simp only at h2a h2b
    subst h2b
    simp only [M.pure_ok, Prod.mk.injEq] at h5
    obtain ⟨h5a, h5b⟩ := h5
    subst h5a h5b
    exact ⟨nm, r, c3, rs', h2a, h3, h4, rfl⟩
  simp only [StateT.run, bindTypedParams] at h
  cases hp : p.paramType with
  | some pt =>
    simp only [hp] at h
    rw [M.bind_ok] at h
    obtain ⟨t, c1, h1, h2⟩ := h
    obtain ⟨nm, r, c2, rs', a, b, d, e⟩ := key t c1 h2
    exact ⟨t, c1, nm, r, c2, rs', h1, a, b, d, e⟩
  | none =>
    simp only [hp] at h
    by_cases ho : p.oldTypedParam = true
    · rw [if_pos ho, M.pure_bind_ok] at h
      obtain ⟨nm, r, c2, rs', a, b, d, e⟩ := key _ _ h
      exact ⟨.todo, c, nm, r, c2, rs', ⟨ho, rfl, rfl⟩, a, b, d, e⟩
    · rw [if_neg ho] at h
      simp [M.bind_ok] at h

/-- typed parameters of a `def`: one symbol id result per written parameter -/
theorem typed_params_count (ps : List Ast.TypedParam) (c c' : Ctx) (rs : List SymbolIdResult)
    (h : (bindTypedParams ps).run c = .ok (rs, c')) : rs.length = ps.length := by
  induction ps generalizing c rs with
  | nil =>
    simp only [StateT.run, bindTypedParams, M.pure_ok, Prod.mk.injEq] at h
    rw [h.1]; rfl
  | cons p ps ih =>
    obtain ⟨t, c1, nm, r, c2, rs', -, -, -, h4, rfl⟩ := bindTypedParams_cons p ps c c' rs h
    simp [ih c2 rs' h4]

/-! ### gates and subroutines -/

/-- **C09, gate arity.**  The `Gate` arm binds the gate's name AFTER the body (and after leaving
the gate's scope), with `Gate(np, nq)` where `np` = number of written angle parameters (0 when there
is no parameter list) and `nq` = number of written qubit parameters. -/
theorem gate_arity_recorded (fuel : Nat) (span : Ast.Span) (name : Ast.Name)
    (angleParams : Option Ast.ParamList) (qubitParams : Ast.ParamList) (body : Ast.BlockExpr)
    (c c' : Ctx) (stmt : Option Stmt)
    (h : (stmtToAsgStmt (fuel + 1)
      (.gate span (some name) angleParams (some qubitParams) (some body))).run c = .ok (stmt, c')) :
    ∃ sym params qubits block cIn cMid cQ cBody cExit,
      stmt = some (.gateDefinition sym params qubits block) ∧
      -- the parameters are bound inside the gate's scope: angles as `angle const`, qubits as `Qubit`
      (bindParameterList angleParams (.angle none true)).run cIn = .ok (params, cMid) ∧
      (bindParameterList (some qubitParams) .qubit).run cMid = .ok (some qubits, cQ) ∧
      (exitScope).run cBody = .ok ((), cExit) ∧
      (newBinding name.text (.gate (paramCount angleParams) qubitParams.params.length)
        name.span).run cExit = .ok (sym, c') ∧
      qubits.length = qubitParams.params.length ∧ optLen params = paramCount angleParams := by
  simp only [StateT.run, stmtToAsgStmt, withScope, M.bind_ok, unwrap, M.pure_ok, Prod.mk.injEq,
    exists2_eq] at h
  obtain ⟨u1, c1, -, r, c2, ⟨u2, c3, -, r2, c4, ⟨params, c5, h5, qs, c6, h6, qubits, c7, h7, block,
    c8, -, rfl, rfl⟩, u3, c9, h9, rfl, rfl⟩, sym, c10, h10, rfl, rfl⟩ := h
  obtain ⟨hq1, hq2⟩ := bindParameterList_length _ _ _ _ _ h6
  obtain ⟨hp1, -⟩ := bindParameterList_length _ _ _ _ _ h5
  cases qs with
  | none => simp at hq2
  | some qs' =>
    simp only [M.pure_ok, Prod.mk.injEq] at h7
    obtain ⟨e1, e2⟩ := h7
    simp only [optLen, paramCount] at hq1
    have hq : qubits.length = qubitParams.params.length := by rw [e1]; exact hq1
    refine ⟨sym, params, qubits, block, c3, c5, c6, c4, c2, rfl, h5, by rw [e1]; exact h6, h9, ?_,
      hq, hp1⟩
    rw [← hp1, ← hq]
    cases params <;> exact h10

/-- the return type of a `def`: the written scalar type evaluated as a CONST type, or `Void` -/
def ReturnTypeOf (rs : Option Ast.ReturnSignature) (c : Ctx) (ret : T) (c' : Ctx) : Prop :=
  match rs with
  | some r =>
    match r.scalarType with
    | some st => (scalarTypeToType st true).run c = .ok (ret, c')
    | none => ret = .void ∧ c' = c
  | none => ret = .void ∧ c' = c

/-- **C09, subroutine signature.**  The `Def` arm binds the name AFTER the body with
`SubroutineDef(n, ret)` where `n` = number of written parameters and `ret` = the written return
type (evaluated as a CONST type) or `Void`; the statement carries the same return type. -/
theorem def_signature_recorded (fuel : Nat) (span : Ast.Span) (name : Ast.Name)
    (tpl : Ast.TypedParamList) (body : Ast.BlockExpr) (rs : Option Ast.ReturnSignature)
    (c c' : Ctx) (stmt : Option Stmt)
    (h : (stmtToAsgStmt (fuel + 1)
      (.defStmt span (some name) (some tpl) (some body) rs)).run c = .ok (stmt, c')) :
    ∃ sym params block ret cIn cP cExit cRet,
      stmt = some (.defStmt sym params block ret) ∧
      (bindTypedParams tpl.typedParams).run cIn = .ok (params, cP) ∧
      params.length = tpl.typedParams.length ∧
      ReturnTypeOf rs cExit ret cRet ∧
      (newBinding name.text (.subroutine tpl.typedParams.length ret) name.span).run cRet =
        .ok (sym, c') := by
  simp only [StateT.run, stmtToAsgStmt, withScope, M.bind_ok, unwrap, M.pure_ok, Prod.mk.injEq,
    exists2_eq] at h
  obtain ⟨u1, c1, -, r, c2, ⟨u2, c3, -, r2, c4, ⟨ps, c5, h5, block, c6, -, rfl, rfl⟩, u3, c7, -,
    rfl, rfl⟩, htail⟩ := h
  simp only [bindTypedParameterList, M.bind_ok, M.pure_ok, Prod.mk.injEq] at h5
  obtain ⟨l, c5', h5a, rfl, rfl⟩ := h5
  have hlen := typed_params_count _ _ _ _ h5a
  simp only at htail
  have tail : ∀ ret cR, (do
        let defNameSymbolId ← newBinding name.text (T.subroutine l.length ret) name.span
        let params ← (pure l : M (List SymbolIdResult))
        pure (some (Stmt.defStmt defNameSymbolId params block ret))) cR = .ok (stmt, c') →
      ∃ sym, stmt = some (.defStmt sym l block ret) ∧
        (newBinding name.text (.subroutine tpl.typedParams.length ret) name.span).run cR =
          .ok (sym, c') := by
    intro ret cR hh
    simp only [M.bind_ok, M.pure_ok, Prod.mk.injEq, exists2_eq] at hh
    obtain ⟨sym, cX, hx, rfl, rfl⟩ := hh
    exact ⟨sym, rfl, by rw [← hlen]; exact hx⟩
  cases rs with
  | none =>
    simp only [M.pure_bind_ok] at htail
    obtain ⟨sym, hs, hn⟩ := tail _ _ htail
    exact ⟨sym, l, block, .void, c3, _, c2, c2, hs, h5a, hlen,
      by unfold ReturnTypeOf; exact ⟨rfl, rfl⟩, hn⟩
  | some rsig =>
    cases hst : rsig.scalarType with
    | none =>
      simp only [hst, M.pure_bind_ok] at htail
      obtain ⟨sym, hs, hn⟩ := tail _ _ htail
      refine ⟨sym, l, block, .void, c3, _, c2, c2, hs, h5a, hlen, ?_, hn⟩
      simp [ReturnTypeOf, hst]
    | some st =>
      simp only [hst] at htail
      rw [M.bind_ok] at htail
      obtain ⟨ret, cR, hr, htail⟩ := htail
      obtain ⟨sym, hs, hn⟩ := tail _ _ htail
      refine ⟨sym, l, block, ret, c3, _, c2, cR, hs, h5a, hlen, ?_, hn⟩
      simp only [ReturnTypeOf, hst]; exact hr

/-! ### the gate listing -/

/-- **C09, `SymbolTable::gates`.**  The listing contains exactly the symbols of gate type other
than `U`, each with its id and the recorded arities. -/
theorem gates_listing (t : SymTab) (n : Name) (i np nq : Nat) :
    (n, i, np, nq) ∈ t.gates ↔ t.all[i]? = some ⟨n, .gate np nq⟩ ∧ n ≠ "U" := by
  unfold SymTab.gates
  simp only [List.mem_filterMap, Prod.exists]
  constructor
  · rintro ⟨s, j, hmem, hf⟩
    have hj := List.mem_zipIdx_iff_getElem?.mp hmem
    simp only at hj
    obtain ⟨sn, sty⟩ := s
    cases sty <;> simp only [reduceCtorEq] at hf
    rename_i a b
    by_cases hU : (sn == "U") = true
    · simp [hU] at hf
    · simp only [hU, Bool.false_eq_true, if_false, Option.some.injEq, Prod.mk.injEq] at hf
      obtain ⟨rfl, rfl, rfl, rfl⟩ := hf
      exact ⟨hj, by simpa using hU⟩
  · rintro ⟨hget, hU⟩
    refine ⟨⟨n, .gate np nq⟩, i, List.mem_zipIdx_iff_getElem?.mpr hget, ?_⟩
    have : (n == "U") = false := by simpa using hU
    simp [this]

/-- after `standard_library_gates()` on a fresh table the listing is the standard table
(`x … id` (0,1), `p … u1` (1,1), `u2`, `u3`, `cx … CX` (0,2), `cp … cphase` (1,2), `cu` (4,2),
`ccx`, `cswap` (0,3)), in binding order, and nothing is reported as redeclared -/
theorem stdgates_listing :
    ((Symbols.init.standardLibraryGates).1.gates.map fun g => (g.1, g.2.2.1, g.2.2.2)) = stdGates ∧
    (Symbols.init.standardLibraryGates).2 = [] := by
  constructor <;> decide +kernel

/-! ## witnesses (closed programs: the I5 dump of the named source, kernel-evaluated) -/

/-- what a witness observes: the user's symbols (ids 7, 8, …) with their types, the gate listing,
the diagnostics — or the panic site -/
inductive Obs
  | ok (syms : List (String × T)) (gates : List (Name × Nat × Nat)) (errs : List SemErr)
  | panic (site : String)
  | other
  deriving DecidableEq

def observe (p : Ast.Program) : Obs :=
  match analyze p with
  | .ok c => .ok ((c.symbolTable.all.drop 7).map (fun s => (s.name, s.ty)))
      (c.symbolTable.gates.map (fun g => (g.1, g.2.2.1, g.2.2.2))) c.semanticErrors
  | .error (.panic site) => .panic site
  | .error _ => .other

/-- `int[4294967297] x;` -/
def progTrunc : Ast.Program :=
  ⟨⟨0, 18⟩, [(.classicalDeclarationStatement ⟨0, 18⟩ false (some (.mk ⟨0, 15⟩ .int (some (.mk ⟨3, 15⟩ (some (.literal ⟨⟨4, 14⟩, .intNumber "4294967297" (some 4294967297)⟩)))) none)) false (some ⟨⟨16, 17⟩, "x"⟩) none)]⟩

/-- `const int n = 4; int[n] x; qubit[n] q; bit[n] b;` -/
def progConstOk : Ast.Program :=
  ⟨⟨0, 48⟩, [(.classicalDeclarationStatement ⟨0, 16⟩ false (some (.mk ⟨6, 9⟩ .int none none)) true (some ⟨⟨10, 11⟩, "n"⟩) (some (.literal ⟨⟨14, 15⟩, .intNumber "4" (some 4)⟩))), (.classicalDeclarationStatement ⟨17, 26⟩ false (some (.mk ⟨17, 23⟩ .int (some (.mk ⟨20, 23⟩ (some (.identifier ⟨⟨21, 22⟩, "n"⟩)))) none)) false (some ⟨⟨24, 25⟩, "x"⟩) none), (.quantumDeclarationStatement ⟨27, 38⟩ (some ⟨⟨36, 37⟩, "q"⟩) none (some ⟨⟨27, 35⟩, (some (.mk ⟨32, 35⟩ (some (.identifier ⟨⟨33, 34⟩, "n"⟩))))⟩)), (.classicalDeclarationStatement ⟨39, 48⟩ false (some (.mk ⟨39, 45⟩ .bit (some (.mk ⟨42, 45⟩ (some (.identifier ⟨⟨43, 44⟩, "n"⟩)))) none)) false (some ⟨⟨46, 47⟩, "b"⟩) none)]⟩

/-- `const int n = 5000000000; int[n] x;` -/
def progConstBig : Ast.Program :=
  ⟨⟨0, 35⟩, [(.classicalDeclarationStatement ⟨0, 25⟩ false (some (.mk ⟨6, 9⟩ .int none none)) true (some ⟨⟨10, 11⟩, "n"⟩) (some (.literal ⟨⟨14, 24⟩, .intNumber "5000000000" (some 5000000000)⟩))), (.classicalDeclarationStatement ⟨26, 35⟩ false (some (.mk ⟨26, 32⟩ .int (some (.mk ⟨29, 32⟩ (some (.identifier ⟨⟨30, 31⟩, "n"⟩)))) none)) false (some ⟨⟨33, 34⟩, "x"⟩) none)]⟩

/-- `const int[128] n = 3; int[n] x;` -/
def progConstNoValue : Ast.Program :=
  ⟨⟨0, 31⟩, [(.classicalDeclarationStatement ⟨0, 21⟩ false (some (.mk ⟨6, 14⟩ .int (some (.mk ⟨9, 14⟩ (some (.literal ⟨⟨10, 13⟩, .intNumber "128" (some 128)⟩)))) none)) true (some ⟨⟨15, 16⟩, "n"⟩) (some (.literal ⟨⟨19, 20⟩, .intNumber "3" (some 3)⟩))), (.classicalDeclarationStatement ⟨22, 31⟩ false (some (.mk ⟨22, 28⟩ .int (some (.mk ⟨25, 28⟩ (some (.identifier ⟨⟨26, 27⟩, "n"⟩)))) none)) false (some ⟨⟨29, 30⟩, "x"⟩) none)]⟩

/-- `int[k] x;` -/
def progUndeclared : Ast.Program :=
  ⟨⟨0, 9⟩, [(.classicalDeclarationStatement ⟨0, 9⟩ false (some (.mk ⟨0, 6⟩ .int (some (.mk ⟨3, 6⟩ (some (.identifier ⟨⟨4, 5⟩, "k"⟩)))) none)) false (some ⟨⟨7, 8⟩, "x"⟩) none)]⟩

/-- `int[pi] x;` -/
def progBuiltin : Ast.Program :=
  ⟨⟨0, 10⟩, [(.classicalDeclarationStatement ⟨0, 10⟩ false (some (.mk ⟨0, 7⟩ .int (some (.mk ⟨3, 7⟩ (some (.identifier ⟨⟨4, 6⟩, "pi"⟩)))) none)) false (some ⟨⟨8, 9⟩, "x"⟩) none)]⟩

/-- `int m; int[m] x;` -/
def progNonConst : Ast.Program :=
  ⟨⟨0, 16⟩, [(.classicalDeclarationStatement ⟨0, 6⟩ false (some (.mk ⟨0, 3⟩ .int none none)) false (some ⟨⟨4, 5⟩, "m"⟩) none), (.classicalDeclarationStatement ⟨7, 16⟩ false (some (.mk ⟨7, 13⟩ .int (some (.mk ⟨10, 13⟩ (some (.identifier ⟨⟨11, 12⟩, "m"⟩)))) none)) false (some ⟨⟨14, 15⟩, "x"⟩) none)]⟩

/-- `const float n = 3; int[n] x;` -/
def progConstFloat : Ast.Program :=
  ⟨⟨0, 28⟩, [(.classicalDeclarationStatement ⟨0, 18⟩ false (some (.mk ⟨6, 11⟩ .float none none)) true (some ⟨⟨12, 13⟩, "n"⟩) (some (.literal ⟨⟨16, 17⟩, .intNumber "3" (some 3)⟩))), (.classicalDeclarationStatement ⟨19, 28⟩ false (some (.mk ⟨19, 25⟩ .int (some (.mk ⟨22, 25⟩ (some (.identifier ⟨⟨23, 24⟩, "n"⟩)))) none)) false (some ⟨⟨26, 27⟩, "x"⟩) none)]⟩

/-- `gate g(a, b) q, r, s { } ` -/
def progGate : Ast.Program :=
  ⟨⟨0, 25⟩, [(.gate ⟨0, 24⟩ (some ⟨⟨5, 6⟩, "g"⟩) (some ⟨⟨6, 12⟩, [⟨⟨7, 8⟩, "a"⟩, ⟨⟨10, 11⟩, "b"⟩]⟩) (some ⟨⟨13, 20⟩, [⟨⟨13, 14⟩, "q"⟩, ⟨⟨16, 17⟩, "r"⟩, ⟨⟨19, 20⟩, "s"⟩]⟩) (some (.mk ⟨21, 24⟩ [])))]⟩

/-- `def f(int[8] a, qubit q) -> float[32] { }` -/
def progDef : Ast.Program :=
  ⟨⟨0, 41⟩, [(.defStmt ⟨0, 41⟩ (some ⟨⟨4, 5⟩, "f"⟩) (some ⟨⟨5, 24⟩, [⟨⟨6, 14⟩, (some (.scalarType (.mk ⟨6, 12⟩ .int (some (.mk ⟨9, 12⟩ (some (.literal ⟨⟨10, 11⟩, .intNumber "8" (some 8)⟩)))) none))), false, (some ⟨⟨13, 14⟩, "a"⟩)⟩, ⟨⟨16, 23⟩, (some (.scalarType (.mk ⟨16, 21⟩ .qubit none none))), false, (some ⟨⟨22, 23⟩, "q"⟩)⟩]⟩) (some (.mk ⟨38, 41⟩ [])) (some ⟨⟨25, 37⟩, (some (.mk ⟨28, 37⟩ .float (some (.mk ⟨33, 37⟩ (some (.literal ⟨⟨34, 36⟩, .intNumber "32" (some 32)⟩)))) none))⟩))]⟩

/-- `include "stdgates.inc";` -/
def progStd : Ast.Program :=
  ⟨⟨0, 23⟩, [(.includeStmt ⟨0, 23⟩ (some ⟨⟨8, 22⟩, (some "stdgates.inc")⟩))]⟩

/-- **F17** `int[4294967297] x;` records `int[1]`, no diagnostic -/
theorem witness_width_truncated :
    observe progTrunc = .ok [("x", .int (some 1) false)] [] [] := by decide +kernel

/-- a const-identifier designator whose value fits: `int[4]`, `QubitArray(4)`, `BitArray(4)` -/
theorem witness_const_designator_ok :
    observe progConstOk = .ok [("n", .int none true), ("x", .int (some 4) false),
      ("q", .qubitArray (.d1 4)), ("b", .bitArray (.d1 4) false)] [] [] := by decide +kernel

/-- `const int n = 5000000000; int[n] x;`: `InvalidDesignatorError` at `n` — and the width **0**
is substituted: `x : int[0]` -/
theorem witness_const_designator_too_big :
    observe progConstBig = .ok [("n", .int none true), ("x", .int (some 0) false)] []
      [⟨.invalidDesignatorError, 30, 31⟩] := by decide +kernel

/-- the side table is not filled when the initializer's type already equals the declared type up
to const-ness: `const int[128] n = 3; int[n] x;` panics (`const_value.unwrap()`) -/
theorem witness_const_value_not_recorded :
    observe progConstNoValue = .panic "designator_to_asg: const_value.unwrap() on None" := by
  decide +kernel

/-- **F14** an undeclared designator identifier panics (`sym.unwrap()` on `Err`); a built-in
constant (`pi`) has no recorded value and panics too -/
theorem witness_designator_panics :
    observe progUndeclared = .panic "designator_to_asg: sym.unwrap() on Err" ∧
    observe progBuiltin = .panic "designator_to_asg: const_value.unwrap() on None" := by
  constructor <;> decide +kernel

/-- a NON-const identifier as designator: the width is dropped silently (`int[m] x` is `int`) -/
theorem witness_nonconst_designator_dropped :
    observe progNonConst = .ok [("m", .int none false), ("x", .int none false)] [] [] := by
  decide +kernel

/-- a const FLOAT as designator is accepted as the width 3 -/
theorem witness_const_float_designator :
    observe progConstFloat = .ok [("n", .float none true), ("x", .int (some 3) false)] [] [] := by
  decide +kernel

/-- `gate g(a, b) q, r, s { }`: parameters first (`angle const` ×2, `qubit` ×3), the gate last,
`Gate(2, 3)`; listed -/
theorem witness_gate :
    observe progGate = .ok [("a", .angle none true), ("b", .angle none true), ("q", .qubit),
      ("r", .qubit), ("s", .qubit), ("g", .gate 2 3)] [("g", 2, 3)] [] := by decide +kernel

/-- `def f(int[8] a, qubit q) -> float[32] { }` -/
theorem witness_def :
    observe progDef = .ok [("a", .int (some 8) false), ("q", .qubit),
      ("f", .subroutine 2 (.float (some 32) true))] [] [] := by decide +kernel

/-- `include "stdgates.inc";`: the listing is the standard table -/
theorem witness_stdgates_included :
    (match observe progStd with
      | .ok syms gates errs => some (syms.map (·.1), gates, errs)
      | _ => none) = some (stdGates.map (·.1), stdGates, []) := by decide +kernel

/-- `if (true) { gate U q {} }` -/
def progGateU : Ast.Program :=
  ⟨⟨0, 25⟩, [(.ifStmt ⟨0, 25⟩ (some (.literal ⟨⟨4, 8⟩, .bool true⟩)) (.ok (.blockExpr (.mk ⟨10, 25⟩ [(.gate ⟨12, 23⟩ (some ⟨⟨17, 18⟩, "U"⟩) none (some ⟨⟨19, 20⟩, [⟨⟨19, 20⟩, "q"⟩]⟩) (some (.mk ⟨21, 23⟩ [])))]))) none)]⟩

/-- `gates()` filters by the NAME `U`: a user gate named `U` (bound in a nested scope, where the
name is free) is a symbol of gate type but is missing from the listing -/
theorem witness_user_gate_named_U_unlisted :
    observe progGateU = .ok [("q", .qubit), ("U", .gate 0 1)] [] [⟨.notInGlobalScopeError, 17, 18⟩] := by
  decide +kernel

end Oq3.Props.C09
