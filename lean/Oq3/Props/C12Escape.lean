/-
C12 (escape-sequence diagnostics of string literals) -- theorems about `Oq3.Unescape`
(Model/Unescape.lean: `unescape_literal` of oq3_lexer/src/unescape.rs and the escape part of
`validate_literal` of oq3_syntax/src/validation.rs), tied to the code by `vf/unescape_corr.py`.

For ALL literal contents `src`, both modes in use, all token texts and start offsets:

* `strLoop_total`, `strLoop_fuel_mono`, `unescapeStrCommon_eq`: termination -- the fuel
  `src.length` the model passes always suffices and more fuel gives the same callbacks;
* `callback_ranges`: every callback range of `unescape_literal` (errors, warnings and `Ok`s) has
  `start ≤ stop ≤ |src|` and both ends on character boundaries of `src`; an `Ok`/fatal-error
  callback is non-empty (`start < stop`);
* `callbacks_ordered`: callbacks come in increasing order: starts never decrease, and an
  `Ok`/fatal-error callback ends before the next one starts (only the two warnings overlap what
  follows them);
* `unquote_spec`: the contents `unquote` returns is the piece of the token text after exactly one
  byte (the opening quote) -- `text = pre ++ w ++ post`, `|pre| = 1`;
* `validateLiteral_shift`: the reported offsets are exactly `tokStart + 1 + start` of the fatal
  callbacks, in callback order, as EMPTY ranges;
* `validateLiteral_ranges`: every reported range is empty, lies strictly inside the token
  (`tokStart + 1 ≤ off < tokStart + |text|`: after the opening quote's byte, not after the closing
  quote) and `off - tokStart` is a character boundary of the token text;
  `validateLiteral_in_file`: in any file `before ++ text ++ after` with the token at `|before|`
  the range is ordered, `≤ |file|` and on character boundaries of the file;
  `validateLiteral_none`: no mode or no closing `"` after the first byte -- nothing is reported;
* `validateLiteral_strictly_increasing`: the offsets strictly increase (no two escape diagnostics
  at the same place);
* `bitString_contents_no_errors`: contents made of `0`, `1`, `_` (all a lexed BIT_STRING token
  can contain between its quotes) never produce a callback error.

No defect found: the theorems hold without an excluded case (no `_partial`), the model agrees
with the real code on every compared case (vf/unescape_corr.py: diagnostics through `oq3-run tree`,
all callbacks incl. range ends and warnings through `oq3-unescape`), and the harness's range oracle
never failed.  Modelling assumption (tested, not proved): `skip_ascii_whitespace` works on BYTES;
the model works on characters, justified by UTF-8 (a byte with an ASCII value is a whole character).
Non-vacuity: closed examples with multi-byte characters next to bad escapes at the end.
-/
import Oq3.Model.Unescape
import Oq3.Lemmas.Lexed

namespace Oq3.Props.C12Escape
open Oq3.Unescape Oq3.Lexer Oq3.Lemmas.Lexer
open Oq3.Lexed (dropBytes takeBytes sliceBytes)

/-! ### character boundaries -/

/-- `n` is a character boundary of `s` (`str::is_char_boundary`): it is the UTF-8 length of a
prefix of `s` -/
def IsBoundary (s : List Char) (n : Nat) : Prop := ∃ p, p <+: s ∧ utf8Len p = n

/-- executable form of `IsBoundary` -/
def boundaryB : List Char → Nat → Bool
  | _, 0 => true
  | [], _ + 1 => false
  | c :: cs, n + 1 => decide (c.utf8Size ≤ n + 1) && boundaryB cs (n + 1 - c.utf8Size)

theorem boundaryB_iff (s : List Char) (n : Nat) : boundaryB s n = true ↔ IsBoundary s n := by
  induction s generalizing n with
  | nil =>
    cases n with
    | zero => simp only [boundaryB, true_iff]; exact ⟨[], List.nil_prefix, rfl⟩
    | succ n =>
      simp only [boundaryB, Bool.false_eq_true, false_iff]
      rintro ⟨p, hp, hl⟩
      have : p = [] := List.prefix_nil.mp hp
      subst this; simp [utf8Len] at hl
  | cons c cs ih =>
    have hc := Char.utf8Size_pos c
    cases n with
    | zero => simp only [boundaryB, true_iff]; exact ⟨[], List.nil_prefix, rfl⟩
    | succ n =>
      simp only [boundaryB, Bool.and_eq_true, decide_eq_true_eq, ih]
      constructor
      · rintro ⟨hle, p, hp, hl⟩
        refine ⟨c :: p, ?_, ?_⟩
        · obtain ⟨t, rfl⟩ := hp; exact ⟨t, rfl⟩
        · simp only [utf8Len]; omega
      · rintro ⟨p, hp, hl⟩
        cases p with
        | nil => simp [utf8Len] at hl
        | cons d p =>
          obtain ⟨t, ht⟩ := hp
          simp only [List.cons_append, List.cons.injEq] at ht
          obtain ⟨rfl, rfl⟩ := ht
          simp only [utf8Len] at hl
          exact ⟨by omega, p, ⟨t, rfl⟩, by omega⟩

instance (s : List Char) (n : Nat) : Decidable (IsBoundary s n) :=
  decidable_of_iff _ (boundaryB_iff s n)

/-- the position of a suffix is a boundary -/
theorem boundary_of_suffix {t s : List Char} (h : t <:+ s) :
    IsBoundary s (utf8Len s - utf8Len t) := by
  obtain ⟨p, rfl⟩ := h
  exact ⟨p, ⟨t, rfl⟩, by rw [utf8Len_append]; omega⟩

theorem IsBoundary.le {s : List Char} {n : Nat} (h : IsBoundary s n) : n ≤ utf8Len s := by
  obtain ⟨p, ⟨t, rfl⟩, rfl⟩ := h
  rw [utf8Len_append]; omega

/-- boundaries of a piece are boundaries of the whole, shifted by what precedes the piece -/
theorem IsBoundary.shift {w : List Char} {n : Nat} (h : IsBoundary w n) (pre post : List Char) :
    IsBoundary (pre ++ w ++ post) (utf8Len pre + n) := by
  obtain ⟨p, ⟨t, rfl⟩, rfl⟩ := h
  exact ⟨pre ++ p, ⟨t ++ post, by simp⟩, by rw [utf8Len_append]⟩

/-! ### every scanner leaves a suffix of its input -/

theorem scanUnicodeLoop_suffix (d : Bool) (cs : List Char) :
    ∀ n v, (scanUnicodeLoop d n v cs).2 <:+ cs := by
  induction cs with
  | nil => intro n v; simp [scanUnicodeLoop]
  | cons c cs ih =>
    intro n v
    have hs : cs <:+ c :: cs := List.suffix_cons c cs
    simp only [scanUnicodeLoop]
    split
    · exact (ih _ _).trans hs
    · split
      · split
        · exact hs
        · split <;> exact hs
      · split
        · exact hs
        · split <;> exact (ih _ _).trans hs

theorem scanUnicode_suffix (d : Bool) (cs : List Char) : (scanUnicode d cs).2 <:+ cs := by
  unfold scanUnicode
  split
  · exact List.suffix_refl _
  · rename_i c cs
    have hs : cs <:+ c :: cs := List.suffix_cons c cs
    split
    · exact hs
    · split
      · exact List.nil_suffix
      · rename_i e ds
        have hd : ds <:+ c :: e :: ds := (List.suffix_cons e ds).trans (List.suffix_cons c _)
        split
        · exact hd
        · split
          · exact hd
          · split
            · exact hd
            · exact (scanUnicodeLoop_suffix _ _ _ _).trans hd

theorem scanEscape_suffix (m : Mode) (cs : List Char) : (scanEscape m cs).2 <:+ cs := by
  unfold scanEscape
  split
  · exact List.suffix_refl _
  · rename_i c cs
    have hs : cs <:+ c :: cs := List.suffix_cons c cs
    split
    · exact hs
    · split
      · split
        · exact List.nil_suffix
        · rename_i hi cs1
          have h1 : cs1 <:+ c :: hi :: cs1 := (List.suffix_cons hi cs1).trans (List.suffix_cons c _)
          split
          · exact h1
          · split
            · exact List.nil_suffix
            · rename_i lo cs2
              have h2 : cs2 <:+ c :: hi :: lo :: cs2 := (List.suffix_cons lo cs2).trans h1
              split <;> exact h2
      · split
        · exact (scanUnicode_suffix _ _).trans hs
        · exact hs

theorem skip_suffix (tail : List Char) (start : Nat) :
    (skipAsciiWhitespace tail start).2 <:+ tail := by
  simp only [skipAsciiWhitespace]
  exact List.drop_suffix _ _

/-- after a `\` followed by a line feed, `skip_ascii_whitespace` consumes at least the line feed -/
theorem skip_length_lt (cs : List Char) (start : Nat) (h : cs.head? = some '\n') :
    (skipAsciiWhitespace cs start).2.length < cs.length := by
  cases cs with
  | nil => simp at h
  | cons c cs =>
    simp only [List.head?_cons, Option.some.injEq] at h
    subst h
    simp only [skipAsciiWhitespace, List.length_drop]
    have : isSkipWs '\n' = true := by decide
    simp only [List.takeWhile_cons, this, ↓reduceIte, List.length_cons]
    omega

/-! ### termination of the loop of `unescape_str_common` -/

theorem strLoop_total (mode : Mode) (L : Nat) :
    ∀ (fuel : Nat) (rest : List Char), rest.length ≤ fuel →
      ∃ out, strLoop mode L fuel rest = some out := by
  intro fuel
  induction fuel with
  | zero =>
    intro rest h
    have : rest = [] := List.eq_nil_of_length_eq_zero (by omega)
    subst this; exact ⟨[], by simp [strLoop]⟩
  | succ fuel ih =>
    intro rest h
    cases rest with
    | nil => exact ⟨[], by simp [strLoop]⟩
    | cons c cs =>
      simp only [List.length_cons] at h
      simp only [strLoop]
      split
      · split
        · obtain ⟨o, ho⟩ := ih (skipAsciiWhitespace cs (L - utf8Len cs - c.utf8Size)).2
            (by have := (skip_suffix cs (L - utf8Len cs - c.utf8Size)).length_le; omega)
          exact ⟨_, by rw [ho]; rfl⟩
        · obtain ⟨o, ho⟩ := ih (scanEscape mode cs).2
            (by have := (scanEscape_suffix mode cs).length_le; omega)
          exact ⟨_, by rw [ho]; rfl⟩
      · obtain ⟨o, ho⟩ := ih cs (by omega)
        exact ⟨_, by rw [ho]; rfl⟩

/-- more fuel never changes the result -/
theorem strLoop_fuel_mono (mode : Mode) (L : Nat) :
    ∀ (fuel : Nat) (rest : List Char) (out : List Callback),
      strLoop mode L fuel rest = some out →
      ∀ fuel', fuel ≤ fuel' → strLoop mode L fuel' rest = some out := by
  intro fuel
  induction fuel with
  | zero =>
    intro rest out h fuel' _
    cases rest with
    | nil => cases fuel' <;> simpa [strLoop] using h
    | cons c cs => simp [strLoop] at h
  | succ fuel ih =>
    intro rest out h fuel' hle
    cases rest with
    | nil => cases fuel' <;> simpa [strLoop] using h
    | cons c cs =>
      obtain ⟨f', rfl⟩ : ∃ f', fuel' = f' + 1 := ⟨fuel' - 1, by omega⟩
      have hle' : fuel ≤ f' := by omega
      simp only [strLoop] at h ⊢
      split
      · rename_i hc
        rw [if_pos hc] at h
        split
        · rename_i hn
          rw [if_pos hn] at h
          simp only [Option.map_eq_some_iff] at h ⊢
          obtain ⟨o, ho, rfl⟩ := h
          exact ⟨o, ih _ _ ho _ hle', rfl⟩
        · rename_i hn
          rw [if_neg hn] at h
          simp only [Option.map_eq_some_iff] at h ⊢
          obtain ⟨o, ho, rfl⟩ := h
          exact ⟨o, ih _ _ ho _ hle', rfl⟩
      · rename_i hc
        rw [if_neg hc] at h
        simp only [Option.map_eq_some_iff] at h ⊢
        obtain ⟨o, ho, rfl⟩ := h
        exact ⟨o, ih _ _ ho _ hle', rfl⟩

/-- **Termination.**  With any fuel `≥ src.length` the loop returns, and returns the callbacks
of `unescapeStrCommon`: the `getD []` of the model never sees `none`. -/
theorem unescapeStrCommon_eq (src : List Char) (mode : Mode) (fuel : Nat)
    (h : src.length ≤ fuel) :
    strLoop mode (utf8Len src) fuel src = some (unescapeStrCommon src mode) := by
  obtain ⟨o, ho⟩ := strLoop_total mode (utf8Len src) src.length src (Nat.le_refl _)
  have : unescapeStrCommon src mode = o := by simp [unescapeStrCommon, ho]
  rw [this]
  exact strLoop_fuel_mono mode _ _ _ _ ho _ h

/-! ### the shape of every callback range -/

/-- the callback carries one of the two warnings (`!is_fatal`) -/
def isWarning (cb : Callback) : Bool :=
  match cb.err with
  | some e => !e.isFatal
  | none => false

/-- the callback carries an error that `validate_literal` reports -/
def isFatalErr (cb : Callback) : Bool :=
  match cb.err with
  | some e => e.isFatal
  | none => false

/-- Both ends of a callback range made while the loop stands at the cursor `rest` are positions
of cursors: `start` is where a suffix `t1` of `rest` begins, `stop` where a suffix `t2` of `t1`
begins (`L = src.len()`); for everything but the warnings `t2` is a proper suffix. -/
def Good (L : Nat) (rest : List Char) (cb : Callback) : Prop :=
  ∃ t1 t2, t1 <:+ rest ∧ t2 <:+ t1 ∧ cb.start = L - utf8Len t1 ∧ cb.stop = L - utf8Len t2 ∧
    (isWarning cb = false → utf8Len t2 < utf8Len t1)

/-- the order in which callbacks are made -/
def Before (a b : Callback) : Prop :=
  a.start ≤ b.start ∧ (isWarning a = false → a.stop ≤ b.start)

theorem Good.mono {L : Nat} {r r' : List Char} {cb : Callback} (h : Good L r' cb)
    (hs : r' <:+ r) : Good L r cb := by
  obtain ⟨t1, t2, h1, h2, h3⟩ := h
  exact ⟨t1, t2, h1.trans hs, h2, h3⟩

theorem Good.start_ge {L : Nat} {r : List Char} {cb : Callback} (h : Good L r cb) :
    L - utf8Len r ≤ cb.start := by
  obtain ⟨t1, t2, h1, _, h3, _⟩ := h
  have := utf8Len_suffix h1
  omega

theorem isSkipWs_size {c : Char} (h : isSkipWs c = true) : c.utf8Size = 1 := by
  simp only [isSkipWs, Bool.or_eq_true, beq_iff_eq] at h
  rcases h with ((h | h) | h) | h <;> subst h <;> decide

theorem skip_len (cs : List Char) :
    utf8Len cs = (cs.takeWhile isSkipWs).length +
      utf8Len (cs.drop (cs.takeWhile isSkipWs).length) := by
  induction cs with
  | nil => simp [utf8Len]
  | cons c cs ih =>
    by_cases hc : isSkipWs c = true
    · have := isSkipWs_size hc
      simp only [List.takeWhile_cons, hc, ↓reduceIte, List.length_cons, List.drop_succ_cons, utf8Len]
      omega
    · simp [hc, utf8Len]

/-- the callbacks of `skip_ascii_whitespace`: warnings that start at the backslash and end at a
cursor position -/
theorem skip_spec (L : Nat) (c : Char) (cs : List Char) (hc : c.utf8Size = 1)
    (hL : utf8Len (c :: cs) ≤ L) :
    ∀ a ∈ (skipAsciiWhitespace cs (L - utf8Len cs - c.utf8Size)).1,
      a.start = L - utf8Len (c :: cs) ∧ isWarning a = true ∧ Good L (c :: cs) a := by
  intro a ha
  have hlen := skip_len cs
  simp only [utf8Len] at hL
  have hst : L - utf8Len cs - c.utf8Size = L - utf8Len (c :: cs) := by
    simp only [utf8Len]; omega
  have hdrop : cs.drop (cs.takeWhile isSkipWs).length <:+ c :: cs :=
    (List.drop_suffix _ _).trans (List.suffix_cons c cs)
  simp only [skipAsciiWhitespace, List.mem_append] at ha
  rcases ha with ha | ha
  · split at ha
    · simp only [List.mem_singleton] at ha
      subst ha
      refine ⟨hst, rfl, c :: cs, cs.drop (cs.takeWhile isSkipWs).length, List.suffix_refl _,
        hdrop, hst, ?_, by intro h; cases h⟩
      dsimp only; omega
    · simp at ha
  · split at ha
    · rename_i d r hd
      split at ha
      · simp only [List.mem_singleton] at ha
        subst ha
        have hr : r <:+ c :: cs := by
          have : r <:+ d :: r := List.suffix_cons d r
          rw [← hd] at this
          exact this.trans hdrop
        refine ⟨hst, rfl, c :: cs, r, List.suffix_refl _, hr, hst, ?_, by intro h; cases h⟩
        rw [hd] at hlen
        simp only [utf8Len] at hlen ⊢
        omega
      · simp at ha
    · simp at ha

/-- **Main invariant of the loop of `unescape_str_common`.** -/
theorem strLoop_spec (mode : Mode) (src : List Char) :
    ∀ (fuel : Nat) (rest : List Char) (out : List Callback), rest <:+ src →
      strLoop mode (utf8Len src) fuel rest = some out →
      (∀ cb ∈ out, Good (utf8Len src) rest cb) ∧ out.Pairwise Before := by
  intro fuel
  induction fuel with
  | zero =>
    intro rest out _ h
    cases rest with
    | nil => simp only [strLoop, Option.some.injEq] at h; subst h; simp
    | cons c cs => simp [strLoop] at h
  | succ fuel ih =>
    intro rest out hsuf h
    cases rest with
    | nil => simp only [strLoop, Option.some.injEq] at h; subst h; simp
    | cons c cs =>
      have hcs : cs <:+ src := (List.suffix_cons c cs).trans hsuf
      have hL : utf8Len (c :: cs) ≤ utf8Len src := utf8Len_suffix hsuf
      have hcpos := Char.utf8Size_pos c
      have hst : utf8Len src - utf8Len cs - c.utf8Size = utf8Len src - utf8Len (c :: cs) := by
        simp only [utf8Len]; omega
      -- one ordinary callback `⟨start, L - |r|, e⟩` followed by the callbacks made from `r`
      have step : ∀ (r : List Char) (e : Option EscapeError) (o : List Callback), r <:+ cs →
          strLoop mode (utf8Len src) fuel r = some o →
          (∀ cb ∈ (⟨utf8Len src - utf8Len cs - c.utf8Size, utf8Len src - utf8Len r, e⟩ :: o),
              Good (utf8Len src) (c :: cs) cb) ∧
            (⟨utf8Len src - utf8Len cs - c.utf8Size, utf8Len src - utf8Len r, e⟩ :: o : List Callback).Pairwise Before := by
        intro r e o hr ho
        obtain ⟨hg, hp⟩ := ih r o (hr.trans hcs) ho
        have hrl := utf8Len_suffix hr
        have hr' : r <:+ c :: cs := hr.trans (List.suffix_cons c cs)
        constructor
        · intro cb hcb
          simp only [List.mem_cons] at hcb
          rcases hcb with rfl | hcb
          · exact ⟨c :: cs, r, List.suffix_refl _, hr', hst, rfl,
              by intro _; simp only [utf8Len]; omega⟩
          · exact (hg cb hcb).mono hr'
        · refine List.pairwise_cons.mpr ⟨?_, hp⟩
          intro b hb
          have := (hg b hb).start_ge
          simp only [utf8Len] at hL
          constructor
          · show utf8Len src - utf8Len cs - c.utf8Size ≤ b.start
            omega
          · intro _
            show utf8Len src - utf8Len r ≤ b.start
            exact this
      simp only [strLoop] at h
      split at h
      · rename_i hc
        have hc1 : c.utf8Size = 1 := by
          simp only [beq_iff_eq] at hc; subst hc; decide
        split at h
        · -- line continuation
          simp only [Option.map_eq_some_iff] at h
          obtain ⟨o, ho, rfl⟩ := h
          have hr := skip_suffix cs (utf8Len src - utf8Len cs - c.utf8Size)
          obtain ⟨hg, hp⟩ := ih _ o (hr.trans hcs) ho
          have hw := skip_spec (utf8Len src) c cs hc1 hL
          have hr' := hr.trans (List.suffix_cons c cs)
          constructor
          · intro cb hcb
            simp only [List.mem_append] at hcb
            rcases hcb with hcb | hcb
            · exact (hw cb hcb).2.2
            · exact (hg cb hcb).mono hr'
          · refine List.pairwise_append.mpr ⟨?_, hp, ?_⟩
            · -- the (at most two) warnings start at the same place
              apply List.Pairwise.imp_of_mem (R := fun _ _ => True)
              · intro a b ha hb _
                refine ⟨by rw [(hw a ha).1, (hw b hb).1]; exact Nat.le_refl _, ?_⟩
                intro hn; rw [(hw a ha).2.1] at hn; cases hn
              · exact List.pairwise_of_forall (fun _ _ => trivial)
            · intro a ha b hb
              have h1 := (hg b hb).start_ge
              have h2 := utf8Len_suffix hr'
              refine ⟨by rw [(hw a ha).1]; omega, ?_⟩
              intro hn; rw [(hw a ha).2.1] at hn; cases hn
        · simp only [Option.map_eq_some_iff] at h
          obtain ⟨o, ho, rfl⟩ := h
          exact step _ _ o (scanEscape_suffix mode cs) ho
      · simp only [Option.map_eq_some_iff] at h
        obtain ⟨o, ho, rfl⟩ := h
        exact step cs _ o (List.suffix_refl _) ho

theorem unescapeLiteral_eq (src : List Char) (mode : Mode) :
    unescapeLiteral src mode = unescapeStrCommon src mode := by
  cases mode <;> rfl

theorem unescapeLiteral_good (src : List Char) (mode : Mode) :
    (∀ cb ∈ unescapeLiteral src mode, Good (utf8Len src) src cb) ∧
      (unescapeLiteral src mode).Pairwise Before := by
  rw [unescapeLiteral_eq]
  exact strLoop_spec mode src src.length src _ (List.suffix_refl _)
    (unescapeStrCommon_eq src mode _ (Nat.le_refl _))

/-- **Callback ranges (all contents, both modes).**  Every range passed to the callback of
`unescape_literal` -- for `Ok`s, errors and warnings -- is ordered, within the contents, and has
both ends on character boundaries of the contents; `Ok`s and fatal errors are non-empty. -/
theorem callback_ranges (src : List Char) (mode : Mode) :
    ∀ cb ∈ unescapeLiteral src mode,
      cb.start ≤ cb.stop ∧ cb.stop ≤ utf8Len src ∧
      IsBoundary src cb.start ∧ IsBoundary src cb.stop ∧
      (isWarning cb = false → cb.start < cb.stop) := by
  intro cb hcb
  obtain ⟨t1, t2, h1, h2, hs, he, hw⟩ := (unescapeLiteral_good src mode).1 cb hcb
  have l1 := utf8Len_suffix h1
  have l2 := utf8Len_suffix h2
  refine ⟨by omega, by omega, ?_, ?_, ?_⟩
  · rw [hs]; exact boundary_of_suffix h1
  · rw [he]; exact boundary_of_suffix (h2.trans h1)
  · intro h; have := hw h; omega

/-- **Callbacks come in increasing order.**  Starts never decrease; an `Ok` or fatal-error
callback ends where (or before) every later callback starts. -/
theorem callbacks_ordered (src : List Char) (mode : Mode) :
    (unescapeLiteral src mode).Pairwise Before :=
  (unescapeLiteral_good src mode).2

/-! ### `unquote`: the contents sit one byte into the token text -/

theorem dropBytes_some : ∀ (s : List Char) (n : Nat) (r : List Char), dropBytes s n = some r →
    ∃ p, s = p ++ r ∧ utf8Len p = n := by
  intro s
  induction s with
  | nil =>
    intro n r h
    simp only [dropBytes] at h
    split at h
    · simp only [Option.some.injEq] at h; subst h; exact ⟨[], rfl, by simp [utf8Len, *]⟩
    · simp at h
  | cons c cs ih =>
    intro n r h
    simp only [dropBytes] at h
    split at h
    · simp only [Option.some.injEq] at h; subst h; exact ⟨[], rfl, by simp [utf8Len, *]⟩
    · split at h
      · obtain ⟨p, hp, hl⟩ := ih _ _ h
        exact ⟨c :: p, by rw [hp]; rfl, by simp only [utf8Len]; omega⟩
      · simp at h

theorem takeBytes_some : ∀ (s : List Char) (n : Nat) (w : List Char), takeBytes s n = some w →
    ∃ post, s = w ++ post ∧ utf8Len w = n := by
  intro s
  induction s with
  | nil =>
    intro n w h
    simp only [takeBytes] at h
    split at h
    · simp only [Option.some.injEq] at h; subst h; exact ⟨[], rfl, by simp [utf8Len, *]⟩
    · simp at h
  | cons c cs ih =>
    intro n w h
    simp only [takeBytes] at h
    split at h
    · simp only [Option.some.injEq] at h; subst h; exact ⟨c :: cs, rfl, by simp [utf8Len, *]⟩
    · split at h
      · simp only [Option.map_eq_some_iff] at h
        obtain ⟨w', hw', rfl⟩ := h
        obtain ⟨post, hp, hl⟩ := ih _ _ hw'
        exact ⟨post, by rw [hp]; rfl, by simp only [utf8Len]; omega⟩
      · simp at h

/-- `str::get(lo..hi) = Some(w)`: `w` is the piece between the boundaries `lo` and `hi` -/
theorem sliceBytes_some (s : List Char) (lo hi : Nat) (w : List Char)
    (h : sliceBytes s lo hi = some w) :
    ∃ pre post, s = pre ++ w ++ post ∧ utf8Len pre = lo ∧ lo + utf8Len w = hi := by
  unfold sliceBytes at h
  split at h
  · simp only [Option.bind_eq_some_iff] at h
    obtain ⟨r, hr, hw⟩ := h
    obtain ⟨pre, hp, hl⟩ := dropBytes_some _ _ _ hr
    obtain ⟨post, hq, hm⟩ := takeBytes_some _ _ _ hw
    exact ⟨pre, post, by rw [hp, hq, List.append_assoc], hl, by omega⟩
  · simp at h

/-- `str::rfind` returns an offset inside the text -/
theorem rfind_lt (q : Char) : ∀ (s : List Char) (e : Nat), rfind q s = some e → e < utf8Len s := by
  intro s
  induction s with
  | nil => intro e h; simp [rfind] at h
  | cons c cs ih =>
    intro e h
    have := Char.utf8Size_pos c
    simp only [rfind] at h
    split at h
    · rename_i k hk
      simp only [Option.some.injEq] at h
      have := ih k hk
      simp only [utf8Len]; omega
    · split at h
      · simp only [Option.some.injEq] at h; simp only [utf8Len]; omega
      · simp at h

/-- **`unquote(text, 1, '"')`.**  The contents handed to `unescape_literal` is the piece of the
token text that starts after exactly one byte and ends before the end of the text (at the last
`"`). -/
theorem unquote_spec (text w : List Char) (q : Char) (h : unquote text 1 q = some w) :
    ∃ pre post, text = pre ++ w ++ post ∧ utf8Len pre = 1 ∧ 1 + utf8Len w < utf8Len text := by
  simp only [unquote, Option.bind_eq_some_iff] at h
  obtain ⟨e, he, hs⟩ := h
  obtain ⟨pre, post, ht, hp, hw⟩ := sliceBytes_some _ _ _ _ hs
  exact ⟨pre, post, ht, hp, by have := rfind_lt q text e he; omega⟩

/-! ### `validate_literal` -/

/-- the `Mode` `validate_literal` uses for a literal kind -/
def modeOf : LitKind → Option Mode
  | .string => some .str
  | .bitString => some .bitStr
  | .other => none

theorem validateLiteral_eq (kind : LitKind) (text : List Char) (tokStart : Nat) :
    validateLiteral kind text tokStart =
      match modeOf kind, unquote text 1 '"' with
      | some m, some w => pushErrs 1 tokStart (unescapeLiteral w m)
      | _, _ => [] := by
  cases kind <;> simp only [validateLiteral, modeOf] <;> split <;> simp_all

/-- the diagnostic `push_err` makes of a fatal callback -/
def errOf (prefixLen tokStart : Nat) (cb : Callback) : VErr :=
  ⟨tokStart + (cb.start + prefixLen), tokStart + (cb.start + prefixLen),
    match cb.err with
    | some e => e.message
    | none => ""⟩

theorem pushErrs_eq (prefixLen tokStart : Nat) (cbs : List Callback) :
    pushErrs prefixLen tokStart cbs = (cbs.filter isFatalErr).map (errOf prefixLen tokStart) := by
  induction cbs with
  | nil => rfl
  | cons cb cbs ih =>
    unfold pushErrs at ih ⊢
    rw [List.filterMap_cons, List.filter_cons]
    rcases cb with ⟨s, t, err⟩
    cases err with
    | none => simpa [isFatalErr] using ih
    | some e =>
      cases hf : e.isFatal
      · simpa [isFatalErr, hf] using ih
      · simp only [isFatalErr, hf, ↓reduceIte, List.map_cons, errOf]
        exact congrArg _ ih

/-- **`validate_literal` shifts by exactly the opening quote.**  The diagnostics are, in callback
order, the fatal callbacks of `unescape_literal` on the unquoted contents, each reported as the
EMPTY range at `token start + 1 + range.start` with the callback's message; nothing else. -/
theorem validateLiteral_shift (kind : LitKind) (m : Mode) (text w : List Char) (tokStart : Nat)
    (hk : modeOf kind = some m) (hw : unquote text 1 '"' = some w) :
    validateLiteral kind text tokStart =
      ((unescapeLiteral w m).filter isFatalErr).map (errOf 1 tokStart) := by
  rw [validateLiteral_eq, hk, hw]
  exact pushErrs_eq _ _ _

/-- without a mode (numbers, Booleans) or without contents (no `"` after the first byte:
unterminated or single-quoted literal) nothing is reported -/
theorem validateLiteral_none (kind : LitKind) (text : List Char) (tokStart : Nat)
    (h : modeOf kind = none ∨ unquote text 1 '"' = none) :
    validateLiteral kind text tokStart = [] := by
  rw [validateLiteral_eq]
  rcases h with h | h
  · rw [h]
  · rw [h]; split <;> simp_all

/-- **Ranges of the escape diagnostics (all token texts, all offsets).**  Every diagnostic is an
empty range strictly inside the token -- after the opening quote's byte, before the end -- and its
offset relative to the token is a character boundary of the token text. -/
theorem validateLiteral_ranges (kind : LitKind) (text : List Char) (tokStart : Nat) :
    ∀ e ∈ validateLiteral kind text tokStart,
      e.start = e.stop ∧ tokStart + 1 ≤ e.start ∧ e.stop < tokStart + utf8Len text ∧
      IsBoundary text (e.start - tokStart) := by
  intro e he
  rw [validateLiteral_eq] at he
  split at he
  · rename_i m w hm hw
    rw [pushErrs_eq] at he
    simp only [List.mem_map, List.mem_filter] at he
    obtain ⟨cb, ⟨hcb, _⟩, rfl⟩ := he
    obtain ⟨hle, hlen, hb, _, _⟩ := callback_ranges w m cb hcb
    obtain ⟨pre, post, ht, hp, hlt⟩ := unquote_spec text w '"' hw
    simp only [errOf]
    refine ⟨trivial, by omega, by omega, ?_⟩
    have := hb.shift pre post
    rw [← ht, hp] at this
    rw [show tokStart + (cb.start + 1) - tokStart = 1 + cb.start by omega]
    exact this
  · simp at he

/-- **In the file.**  When the token occupies `text` at offset `|before|` of the file
`before ++ text ++ after`, every escape diagnostic's range is ordered, within the file and on
character boundaries of the file. -/
theorem validateLiteral_in_file (kind : LitKind) (before text after : List Char) :
    ∀ e ∈ validateLiteral kind text (utf8Len before),
      e.start ≤ e.stop ∧ e.stop ≤ utf8Len (before ++ text ++ after) ∧
      IsBoundary (before ++ text ++ after) e.start ∧
      IsBoundary (before ++ text ++ after) e.stop := by
  intro e he
  obtain ⟨heq, hlo, hhi, hb⟩ := validateLiteral_ranges kind text _ e he
  have hs := hb.shift before after
  rw [show utf8Len before + (e.start - utf8Len before) = e.start by omega] at hs
  refine ⟨by omega, ?_, hs, heq ▸ hs⟩
  rw [utf8Len_append, utf8Len_append]; omega

/-- **The offsets strictly increase**: no two escape diagnostics of a literal at the same place,
and they are reported in text order. -/
theorem validateLiteral_strictly_increasing (kind : LitKind) (text : List Char) (tokStart : Nat) :
    ((validateLiteral kind text tokStart).map (·.start)).Pairwise (· < ·) := by
  rw [validateLiteral_eq]
  split
  · rename_i m w _ _
    rw [pushErrs_eq, List.map_map, List.pairwise_map]
    refine ((callbacks_ordered w m).filter _).imp_of_mem ?_
    intro a b ha hb hab
    simp only [List.mem_filter] at ha
    obtain ⟨ha, hfa⟩ := ha
    have hwa : isWarning a = false := by
      unfold isFatalErr at hfa; unfold isWarning
      split <;> simp_all
    have := (callback_ranges w m a ha).2.2.2.2 hwa
    have := hab.2 hwa
    simp only [Function.comp, errOf]
    omega
  · simp

/-! ### bit strings -/

theorem strLoop_bits (L : Nat) : ∀ (w : List Char) (fuel : Nat) (out : List Callback),
    (∀ c ∈ w, c = '0' ∨ c = '1' ∨ c = '_') → strLoop .bitStr L fuel w = some out →
    ∀ cb ∈ out, cb.err = none := by
  intro w
  induction w with
  | nil => intro fuel out _ h; cases fuel <;> simp_all [strLoop]
  | cons c cs ih =>
    intro fuel out hw h
    cases fuel with
    | zero => simp [strLoop] at h
    | succ fuel =>
      have hc := hw c (List.mem_cons_self ..)
      have hcs : ∀ d ∈ cs, d = '0' ∨ d = '1' ∨ d = '_' :=
        fun d hd => hw d (List.mem_cons_of_mem _ hd)
      have key : ∀ o, strLoop .bitStr L fuel cs = some o → ∀ cb ∈ o, cb.err = none :=
        fun o ho => ih fuel o hcs ho
      rcases hc with rfl | rfl | rfl <;>
      · simp only [strLoop] at h
        rw [if_neg (by decide)] at h
        simp only [Option.map_eq_some_iff] at h
        obtain ⟨o, ho, rfl⟩ := h
        intro cb hcb
        simp only [List.mem_cons] at hcb
        rcases hcb with rfl | hcb
        · dsimp only; decide
        · exact key o ho cb hcb

/-- **Bit strings.**  Between its quotes a lexed `BIT_STRING` token contains only `0`, `1`, `_`;
on such contents `unescape_literal(.., Mode::BitStr, ..)` calls back with `Ok` only, so
`validate_literal` reports nothing (the `FIXME. Makes no sense for bit string` arm is harmless). -/
theorem bitString_contents_no_errors (text w : List Char) (tokStart : Nat)
    (hw : unquote text 1 '"' = some w) (hbits : ∀ c ∈ w, c = '0' ∨ c = '1' ∨ c = '_') :
    (∀ cb ∈ unescapeLiteral w .bitStr, cb.err = none) ∧
      validateLiteral .bitString text tokStart = [] := by
  have h1 : ∀ cb ∈ unescapeLiteral w .bitStr, cb.err = none := by
    rw [unescapeLiteral_eq]
    exact strLoop_bits _ w _ _ hbits (unescapeStrCommon_eq w .bitStr _ (Nat.le_refl _))
  refine ⟨h1, ?_⟩
  rw [validateLiteral_shift .bitString .bitStr text w tokStart rfl hw]
  rw [List.map_eq_nil_iff, List.filter_eq_nil_iff]
  intro cb hcb
  simp [isFatalErr, h1 cb hcb]

/-! ### non-vacuity: closed instances with multi-byte characters next to bad escapes -/

/-- `"é\q"` at offset 10: one diagnostic, at the backslash AFTER the two-byte `é`
(10 + 1 + 2), a character boundary; 12 (inside `é`) is not one. -/
example : validateLiteral .string "\"é\\q\"".toList 10 = [⟨13, 13, "Invalid escape"⟩] := by decide
example : IsBoundary "\"é\\q\"".toList (13 - 10) := by decide
example : ¬ IsBoundary "\"é\\q\"".toList (12 - 10) := by decide

/-- `"\u{110000}😀"`: out-of-range escape followed by a four-byte character -/
example : validateLiteral .string "\"\\u{110000}😀\"".toList 0 =
    [⟨1, 1, "Unicode escape code must be at most 0x10FFFF"⟩] := by decide
example : (unescapeLiteral "\\u{110000}😀".toList .str).map (fun cb => (cb.start, cb.stop)) =
    [(0, 10), (10, 14)] := by decide

/-- two errors, multi-byte characters before, between and after; `\u{zz}` stops at the first bad
digit -/
example : (validateLiteral .string "\"😀\\qé\\u{zé}\"".toList 0).map (fun e => (e.start, e.stop)) =
    [(5, 5), (9, 9)] := by decide
example : (unescapeLiteral "😀\\qé\\u{zé}".toList .str).map (fun cb => (cb.start, cb.stop)) =
    [(0, 4), (4, 6), (6, 8), (8, 12), (12, 14), (14, 15)] := by decide

/-- a line continuation: both warnings are produced (overlapping what follows) and dropped by
`validate_literal`; the error after the skipped whitespace is reported at the right place -/
example : unescapeLiteral "\\\n \n\u00a0\\q".toList .str =
    [⟨0, 4, some .multipleSkippedLinesWarning⟩, ⟨0, 6, some .unskippedWhitespaceWarning⟩,
     ⟨4, 6, none⟩, ⟨6, 8, some .invalidEscape⟩] := by decide
example : validateLiteral .string "\"\\\n \n\u00a0\\q\"".toList 0 = [⟨7, 7, "Invalid escape"⟩] := by
  decide

/-- quirks of `unquote`: the LAST `"` of the token text counts, also in a single-quoted token;
an unterminated literal that ends in `\"` is validated up to that quote -/
example : validateLiteral .string "'a\"b\\q'".toList 0 = [] := by decide
example : validateLiteral .string "'\"\\q\"'".toList 0 =
    [⟨1, 1, "Escape character `\\` must be escaped itself"⟩, ⟨2, 2, "Invalid escape"⟩] := by decide
example : validateLiteral .string "\"abc\\\"".toList 0 =
    [⟨4, 4, "Character must be escaped: `\\`"⟩] := by decide
example : validateLiteral .string "\"abc".toList 0 = [] := by decide
example : validateLiteral .bitString "\"0_1\"".toList 0 = [] := by decide
example : validateLiteral .bitString "\"é\\u{41}\"".toList 0 =
    [⟨1, 1, "Byte literals must not contain non-ASCII characters"⟩,
     ⟨3, 3, "Byte literals must not contain unicode escapes"⟩] := by decide

end Oq3.Props.C12Escape
