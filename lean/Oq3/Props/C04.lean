/-
C04 — valid OpenQASM 3 programs are accepted with zero syntax diagnostics (parser part).

ACCEPTANCE LEMMAS.  `Accepts x s n E`: from the state `s`, the run of `x` succeeds, consumes
exactly `n` tokens, pushes exactly the event list `E` on top of `s.events` — no `Error` event in
it — and leaves the marker bookkeeping as it found it.  Each `accept_*` lemma is stated for an
ARBITRARY start state `s` (only `Ready s`: hook off, room in the step counter, sane ghost list)
whose next tokens have the kinds of the statement, and for an ARBITRARY continuation; where the
grammar probes the token after the statement the lemma carries the `Follow` condition that the
probe needs (`else` after an `if` without `else`; a token that can start a binary operator after
an assignment, see `Props/C16.lean: witness_assign_then_minus`).  The proofs are symbolic
executions of the model by `sym_eval` (`Oq3/Lemmas/SymTactic.lean`); the statements in the
generated section were written by `tools/gen_c04_accept.py`, which is not trusted.

Since the lemmas hold for every start state and continuation they compose: a sequence of
accepted statements is accepted (`accept_seq2_example`), at every nesting depth reached through
the block-bearing shapes.

REJECTED VALID CONSTRUCTS (witnesses, kernel-evaluated): `witness_assign_binary_rhs` (F06:
`x = a + b;`).  (`x = ~a;` was a second one — `~` is handled by `lhs` but was missing from
`LHS_FIRST` — until the grammar was repaired; it is now `accept_assign_tilde`.)

Expression acceptance in general is the subject of `Props/C05.lean` (abstract Pratt round trip).
-/
import Oq3.Lemmas.SymTactic
import Oq3.Props.C16
set_option linter.unusedSimpArgs false
set_option linter.unusedVariables false

namespace Oq3.Grammar
open Oq3.Gen Oq3.Parser Oq3.SymExec

/-! ## applied equation lemmas of the mutual block (`f.run : f (fuel+1) args s = body s`) -/

gen_runs optReturnSignature
gen_runs delimited
gen_runs delimitedLoop
gen_runs delimitedParser
gen_runs sourceFileContents
gen_runs item
gen_runs optItem
gen_runs switchCaseStmt
gen_runs switchCaseLoop
gen_runs blockOrStatement
gen_runs ifStmt
gen_runs whileStmt
gen_runs forStmt
gen_runs qubitDeclarationStmt
gen_runs resetStmt
gen_runs gateDefinition
gen_runs defcal_
gen_runs returnsBoolClassicalDeclarationStmt
gen_runs classicalDeclarationStmt
gen_runs ioDeclarationStmt
gen_runs defStmt
gen_runs externStmt
gen_runs cal_
gen_runs barrier_
gen_runs delayStmt
gen_runs aliasStmt
gen_runs expr
gen_runs rangeExpr
gen_runs exprOrRangeExpr
gen_runs exprStmt
gen_runs stmt
gen_runs letStmt
gen_runs qOrCRegParam
gen_runs qOrCRegDeclaration
gen_runs exprBlockStatements
gen_runs exprBp
gen_runs exprBpLoop
gen_runs lhs
gen_runs postfixExpr
gen_runs callExpr
gen_runs paramTypeSpec
gen_runs typeSpec
gen_runs arrayTypeSpec
gen_runs arrayTypeDimsLoop
gen_runs nonArrayTypeSpec
gen_runs complexTypeSpec
gen_runs qubitTypeSpec
gen_runs designator
gen_runs indexExpr
gen_runs indexedIdentifier
gen_runs indexedIdentifierLoop
gen_runs setExpression
gen_runs indexOperator
gen_runs callArgList
gen_runs atomExpr
gen_runs castExpr
gen_runs gphaseCallExpr
gen_runs modifiedGateCallExpr
gen_runs modifiedGateCallExprLoop
gen_runs gateCallExpr
gen_runs measureExpression
gen_runs tupleExpr
gen_runs tupleExprLoop
gen_runs arrayExpr
gen_runs arrayExprLoop
gen_runs tryBlockExpr
gen_runs blockExpr
gen_runs returnExpr
gen_runs boxExpr
gen_runs paramListGateParams
gen_runs paramListGateQubits
gen_runs argListGateCallQubits
gen_runs paramListDefParams
gen_runs scalarTypeList
gen_runs paramListDefcalParams
gen_runs paramListDefcalQubits
gen_runs expressionList
gen_runs caseValueList
gen_runs arrayLiteral
gen_runs paramListOpenqasm
gen_runs paramListOpenqasmLoop
gen_runs paramListItem
gen_runs paramTyped
gen_runs scalarType
gen_runs argGateCallQubit
gen_runs currentOpScan

end Oq3.Grammar

namespace Oq3.Props.C04
open Oq3.Gen Oq3.Parser Oq3.Grammar Oq3.SymExec

def errorFree : List Ev → Bool
  | [] => true
  | .error _ :: _ => false
  | _ :: es => errorFree es

/-- see the module doc -/
def Accepts (x : G Unit) (s : P) (n : Nat) (E : List Ev) : Prop :=
  errorFree E = true ∧ ∃ sb, x s = .ok ((), s.ov E n 0 sb s.live s.protectedPos)

theorem of_ov {α} (x : G α) (s : P) (r : Except Outcome (α × P))
    (h : x (s.ov [] 0 s.steps s.sinceBump s.live s.protectedPos) = r) : x s = r := by
  rwa [P.ov_base] at h

set_option hygiene false in
/-- symbolic execution from `s` (names `s`, `hr` of the enclosing lemma) -/
macro "accept" "[" hs:Lean.Parser.Tactic.simpLemma,* "]" : tactic => `(tactic| (
  have hnp := hr.hook
  have hst := hr.steps
  have hpr := hr.prot
  refine ⟨by decide, ?sb, of_ov _ _ _ ?h⟩
  case h =>
    sym_eval [filter_base s hpr, contains_base s hpr, $hs,*]
    rfl))

/-! ## generated statements (tools/gen_c04_accept.py) -/

/-- `;` -/
theorem accept_empty (fuel : Nat) (s : P) (hr : Ready s)
    (h0 : s.kindAt (s.pos + 0) = .SEMICOLON) :
    Accepts (stmt (fuel + 40)) s 1
      [.token .SEMICOLON 1] := by
  accept [h0]

/-- `break;` -/
theorem accept_break (fuel : Nat) (s : P) (hr : Ready s)
    (h0 : s.kindAt (s.pos + 0) = .BREAK_KW) (h1 : s.kindAt (s.pos + 1) = .SEMICOLON) :
    Accepts (stmt (fuel + 40)) s 2
      [.start .BREAK_STMT none, .token .BREAK_KW 1, .token .SEMICOLON 1, .finish] := by
  accept [h0, h1]

/-- `continue;` -/
theorem accept_continue (fuel : Nat) (s : P) (hr : Ready s)
    (h0 : s.kindAt (s.pos + 0) = .CONTINUE_KW) (h1 : s.kindAt (s.pos + 1) = .SEMICOLON) :
    Accepts (stmt (fuel + 40)) s 2
      [.start .CONTINUE_STMT none, .token .CONTINUE_KW 1, .token .SEMICOLON 1, .finish] := by
  accept [h0, h1]

/-- `end;` -/
theorem accept_end (fuel : Nat) (s : P) (hr : Ready s)
    (h0 : s.kindAt (s.pos + 0) = .END_KW) (h1 : s.kindAt (s.pos + 1) = .SEMICOLON) :
    Accepts (stmt (fuel + 40)) s 2
      [.start .END_STMT none, .token .END_KW 1, .token .SEMICOLON 1, .finish] := by
  accept [h0, h1]

/-- `include "f";` -/
theorem accept_include (fuel : Nat) (s : P) (hr : Ready s)
    (h0 : s.kindAt (s.pos + 0) = .INCLUDE_KW) (h1 : s.kindAt (s.pos + 1) = .STRING) (h2 : s.kindAt (s.pos + 2) = .SEMICOLON) :
    Accepts (stmt (fuel + 40)) s 3
      [.start .INCLUDE none, .token .INCLUDE_KW 1, .start .FILE_PATH none, .token .STRING 1,
       .finish, .token .SEMICOLON 1, .finish] := by
  accept [h0, h1, h2]

/-- `pragma …` -/
theorem accept_pragma (fuel : Nat) (s : P) (hr : Ready s)
    (h0 : s.kindAt (s.pos + 0) = .PRAGMA) :
    Accepts (stmt (fuel + 40)) s 1
      [.start .PRAGMA_STATEMENT none, .token .PRAGMA 1, .finish] := by
  accept [h0]

/-- `@ann …` -/
theorem accept_annotation (fuel : Nat) (s : P) (hr : Ready s)
    (h0 : s.kindAt (s.pos + 0) = .ANNOTATION) :
    Accepts (stmt (fuel + 40)) s 1
      [.start .ANNOTATION_STATEMENT none, .token .ANNOTATION 1, .finish] := by
  accept [h0]

/-- `qubit q;` -/
theorem accept_qubit (fuel : Nat) (s : P) (hr : Ready s)
    (h0 : s.kindAt (s.pos + 0) = .QUBIT_KW) (h1 : s.kindAt (s.pos + 1) = .IDENT) (h2 : s.kindAt (s.pos + 2) = .SEMICOLON) :
    Accepts (stmt (fuel + 40)) s 3
      [.start .QUANTUM_DECLARATION_STATEMENT none, .start .QUBIT_TYPE none, .token .QUBIT_KW 1,
       .finish, .start .NAME none, .token .IDENT 1, .finish, .token .SEMICOLON 1, .finish] := by
  accept [h0, h1, h2]

/-- `qubit[n] q;` (`n` an integer literal) -/
theorem accept_qubit_width (fuel : Nat) (s : P) (hr : Ready s)
    (h0 : s.kindAt (s.pos + 0) = .QUBIT_KW) (h1 : s.kindAt (s.pos + 1) = .L_BRACK) (h2 : s.kindAt (s.pos + 2) = .INT_NUMBER) (h3 : s.kindAt (s.pos + 3) = .R_BRACK) (h4 : s.kindAt (s.pos + 4) = .IDENT) (h5 : s.kindAt (s.pos + 5) = .SEMICOLON) :
    Accepts (stmt (fuel + 40)) s 6
      [.start .QUANTUM_DECLARATION_STATEMENT none, .start .QUBIT_TYPE none, .token .QUBIT_KW 1,
       .start .DESIGNATOR none, .token .L_BRACK 1, .start .TOMBSTONE (some 1),
       .start .LITERAL none, .token .INT_NUMBER 1, .finish, .token .R_BRACK 1, .finish, .finish,
       .start .NAME none, .token .IDENT 1, .finish, .token .SEMICOLON 1, .finish] := by
  accept [h0, h1, h2, h3, h4, h5]

/-- `qubit[n] q;` (`n` an identifier) -/
theorem accept_qubit_width_ident (fuel : Nat) (s : P) (hr : Ready s)
    (h0 : s.kindAt (s.pos + 0) = .QUBIT_KW) (h1 : s.kindAt (s.pos + 1) = .L_BRACK) (h2 : s.kindAt (s.pos + 2) = .IDENT) (h3 : s.kindAt (s.pos + 3) = .R_BRACK) (h4 : s.kindAt (s.pos + 4) = .IDENT) (h5 : s.kindAt (s.pos + 5) = .SEMICOLON) :
    Accepts (stmt (fuel + 40)) s 6
      [.start .QUANTUM_DECLARATION_STATEMENT none, .start .QUBIT_TYPE none, .token .QUBIT_KW 1,
       .start .DESIGNATOR none, .token .L_BRACK 1, .start .TOMBSTONE (some 1),
       .start .IDENTIFIER none, .token .IDENT 1, .finish, .token .R_BRACK 1, .finish, .finish,
       .start .NAME none, .token .IDENT 1, .finish, .token .SEMICOLON 1, .finish] := by
  accept [h0, h1, h2, h3, h4, h5]

/-- `qreg q[n];` -/
theorem accept_qreg (fuel : Nat) (s : P) (hr : Ready s)
    (h0 : s.kindAt (s.pos + 0) = .QREG_KW) (h1 : s.kindAt (s.pos + 1) = .IDENT) (h2 : s.kindAt (s.pos + 2) = .L_BRACK) (h3 : s.kindAt (s.pos + 3) = .INT_NUMBER) (h4 : s.kindAt (s.pos + 4) = .R_BRACK) (h5 : s.kindAt (s.pos + 5) = .SEMICOLON) :
    Accepts (stmt (fuel + 40)) s 6
      [.start .OLD_STYLE_DECLARATION_STATEMENT none, .start .OLD_TYPED_PARAM none,
       .token .QREG_KW 1, .token .IDENT 1, .start .INDEX_OPERATOR none, .token .L_BRACK 1,
       .start .EXPRESSION_LIST none, .start .TOMBSTONE none, .start .TOMBSTONE (some 1),
       .start .LITERAL none, .token .INT_NUMBER 1, .finish, .finish, .token .R_BRACK 1, .finish,
       .finish, .token .SEMICOLON 1, .finish] := by
  accept [h0, h1, h2, h3, h4, h5]

/-- `creg c[n];` -/
theorem accept_creg (fuel : Nat) (s : P) (hr : Ready s)
    (h0 : s.kindAt (s.pos + 0) = .CREG_KW) (h1 : s.kindAt (s.pos + 1) = .IDENT) (h2 : s.kindAt (s.pos + 2) = .L_BRACK) (h3 : s.kindAt (s.pos + 3) = .INT_NUMBER) (h4 : s.kindAt (s.pos + 4) = .R_BRACK) (h5 : s.kindAt (s.pos + 5) = .SEMICOLON) :
    Accepts (stmt (fuel + 40)) s 6
      [.start .OLD_STYLE_DECLARATION_STATEMENT none, .start .OLD_TYPED_PARAM none,
       .token .CREG_KW 1, .token .IDENT 1, .start .INDEX_OPERATOR none, .token .L_BRACK 1,
       .start .EXPRESSION_LIST none, .start .TOMBSTONE none, .start .TOMBSTONE (some 1),
       .start .LITERAL none, .token .INT_NUMBER 1, .finish, .finish, .token .R_BRACK 1, .finish,
       .finish, .token .SEMICOLON 1, .finish] := by
  accept [h0, h1, h2, h3, h4, h5]

/-- `int x;` -/
theorem accept_decl_int (fuel : Nat) (s : P) (hr : Ready s)
    (h0 : s.kindAt (s.pos + 0) = .INT_TY) (h1 : s.kindAt (s.pos + 1) = .IDENT) (h2 : s.kindAt (s.pos + 2) = .SEMICOLON) :
    Accepts (stmt (fuel + 40)) s 3
      [.start .CLASSICAL_DECLARATION_STATEMENT none, .start .TOMBSTONE none,
       .start .SCALAR_TYPE none, .token .INT_TY 1, .finish, .start .NAME none, .token .IDENT 1,
       .finish, .token .SEMICOLON 1, .finish] := by
  accept [h0, h1, h2]

/-- `uint x;` -/
theorem accept_decl_uint (fuel : Nat) (s : P) (hr : Ready s)
    (h0 : s.kindAt (s.pos + 0) = .UINT_TY) (h1 : s.kindAt (s.pos + 1) = .IDENT) (h2 : s.kindAt (s.pos + 2) = .SEMICOLON) :
    Accepts (stmt (fuel + 40)) s 3
      [.start .CLASSICAL_DECLARATION_STATEMENT none, .start .TOMBSTONE none,
       .start .SCALAR_TYPE none, .token .UINT_TY 1, .finish, .start .NAME none, .token .IDENT 1,
       .finish, .token .SEMICOLON 1, .finish] := by
  accept [h0, h1, h2]

/-- `float x;` -/
theorem accept_decl_float (fuel : Nat) (s : P) (hr : Ready s)
    (h0 : s.kindAt (s.pos + 0) = .FLOAT_TY) (h1 : s.kindAt (s.pos + 1) = .IDENT) (h2 : s.kindAt (s.pos + 2) = .SEMICOLON) :
    Accepts (stmt (fuel + 40)) s 3
      [.start .CLASSICAL_DECLARATION_STATEMENT none, .start .TOMBSTONE none,
       .start .SCALAR_TYPE none, .token .FLOAT_TY 1, .finish, .start .NAME none, .token .IDENT 1,
       .finish, .token .SEMICOLON 1, .finish] := by
  accept [h0, h1, h2]

/-- `angle x;` -/
theorem accept_decl_angle (fuel : Nat) (s : P) (hr : Ready s)
    (h0 : s.kindAt (s.pos + 0) = .ANGLE_TY) (h1 : s.kindAt (s.pos + 1) = .IDENT) (h2 : s.kindAt (s.pos + 2) = .SEMICOLON) :
    Accepts (stmt (fuel + 40)) s 3
      [.start .CLASSICAL_DECLARATION_STATEMENT none, .start .TOMBSTONE none,
       .start .SCALAR_TYPE none, .token .ANGLE_TY 1, .finish, .start .NAME none, .token .IDENT 1,
       .finish, .token .SEMICOLON 1, .finish] := by
  accept [h0, h1, h2]

/-- `bit x;` -/
theorem accept_decl_bit (fuel : Nat) (s : P) (hr : Ready s)
    (h0 : s.kindAt (s.pos + 0) = .BIT_TY) (h1 : s.kindAt (s.pos + 1) = .IDENT) (h2 : s.kindAt (s.pos + 2) = .SEMICOLON) :
    Accepts (stmt (fuel + 40)) s 3
      [.start .CLASSICAL_DECLARATION_STATEMENT none, .start .TOMBSTONE none,
       .start .SCALAR_TYPE none, .token .BIT_TY 1, .finish, .start .NAME none, .token .IDENT 1,
       .finish, .token .SEMICOLON 1, .finish] := by
  accept [h0, h1, h2]

/-- `bool x;` -/
theorem accept_decl_bool (fuel : Nat) (s : P) (hr : Ready s)
    (h0 : s.kindAt (s.pos + 0) = .BOOL_TY) (h1 : s.kindAt (s.pos + 1) = .IDENT) (h2 : s.kindAt (s.pos + 2) = .SEMICOLON) :
    Accepts (stmt (fuel + 40)) s 3
      [.start .CLASSICAL_DECLARATION_STATEMENT none, .start .TOMBSTONE none,
       .start .SCALAR_TYPE none, .token .BOOL_TY 1, .finish, .start .NAME none, .token .IDENT 1,
       .finish, .token .SEMICOLON 1, .finish] := by
  accept [h0, h1, h2]

/-- `duration x;` -/
theorem accept_decl_duration (fuel : Nat) (s : P) (hr : Ready s)
    (h0 : s.kindAt (s.pos + 0) = .DURATION_TY) (h1 : s.kindAt (s.pos + 1) = .IDENT) (h2 : s.kindAt (s.pos + 2) = .SEMICOLON) :
    Accepts (stmt (fuel + 40)) s 3
      [.start .CLASSICAL_DECLARATION_STATEMENT none, .start .TOMBSTONE none,
       .start .SCALAR_TYPE none, .token .DURATION_TY 1, .finish, .start .NAME none,
       .token .IDENT 1, .finish, .token .SEMICOLON 1, .finish] := by
  accept [h0, h1, h2]

/-- `stretch x;` -/
theorem accept_decl_stretch (fuel : Nat) (s : P) (hr : Ready s)
    (h0 : s.kindAt (s.pos + 0) = .STRETCH_TY) (h1 : s.kindAt (s.pos + 1) = .IDENT) (h2 : s.kindAt (s.pos + 2) = .SEMICOLON) :
    Accepts (stmt (fuel + 40)) s 3
      [.start .CLASSICAL_DECLARATION_STATEMENT none, .start .TOMBSTONE none,
       .start .SCALAR_TYPE none, .token .STRETCH_TY 1, .finish, .start .NAME none, .token .IDENT 1,
       .finish, .token .SEMICOLON 1, .finish] := by
  accept [h0, h1, h2]

/-- `complex z;` -/
theorem accept_decl_complex (fuel : Nat) (s : P) (hr : Ready s)
    (h0 : s.kindAt (s.pos + 0) = .COMPLEX_TY) (h1 : s.kindAt (s.pos + 1) = .IDENT) (h2 : s.kindAt (s.pos + 2) = .SEMICOLON) :
    Accepts (stmt (fuel + 40)) s 3
      [.start .CLASSICAL_DECLARATION_STATEMENT none, .start .TOMBSTONE none,
       .start .SCALAR_TYPE none, .token .COMPLEX_TY 1, .finish, .start .NAME none, .token .IDENT 1,
       .finish, .token .SEMICOLON 1, .finish] := by
  accept [h0, h1, h2]

/-- `complex[float[n]] z;` -/
theorem accept_decl_complex_float (fuel : Nat) (s : P) (hr : Ready s)
    (h0 : s.kindAt (s.pos + 0) = .COMPLEX_TY) (h1 : s.kindAt (s.pos + 1) = .L_BRACK) (h2 : s.kindAt (s.pos + 2) = .FLOAT_TY) (h3 : s.kindAt (s.pos + 3) = .L_BRACK) (h4 : s.kindAt (s.pos + 4) = .INT_NUMBER) (h5 : s.kindAt (s.pos + 5) = .R_BRACK) (h6 : s.kindAt (s.pos + 6) = .R_BRACK) (h7 : s.kindAt (s.pos + 7) = .IDENT) (h8 : s.kindAt (s.pos + 8) = .SEMICOLON) :
    Accepts (stmt (fuel + 40)) s 9
      [.start .CLASSICAL_DECLARATION_STATEMENT none, .start .TOMBSTONE none,
       .start .SCALAR_TYPE none, .token .COMPLEX_TY 1, .token .L_BRACK 1, .start .SCALAR_TYPE none,
       .token .FLOAT_TY 1, .start .DESIGNATOR none, .token .L_BRACK 1, .start .TOMBSTONE (some 1),
       .start .LITERAL none, .token .INT_NUMBER 1, .finish, .token .R_BRACK 1, .finish, .finish,
       .token .R_BRACK 1, .finish, .start .NAME none, .token .IDENT 1, .finish,
       .token .SEMICOLON 1, .finish] := by
  accept [h0, h1, h2, h3, h4, h5, h6, h7, h8]

/-- `int[n] x;` -/
theorem accept_decl_int_width (fuel : Nat) (s : P) (hr : Ready s)
    (h0 : s.kindAt (s.pos + 0) = .INT_TY) (h1 : s.kindAt (s.pos + 1) = .L_BRACK) (h2 : s.kindAt (s.pos + 2) = .INT_NUMBER) (h3 : s.kindAt (s.pos + 3) = .R_BRACK) (h4 : s.kindAt (s.pos + 4) = .IDENT) (h5 : s.kindAt (s.pos + 5) = .SEMICOLON) :
    Accepts (stmt (fuel + 40)) s 6
      [.start .CLASSICAL_DECLARATION_STATEMENT none, .start .TOMBSTONE none,
       .start .SCALAR_TYPE none, .token .INT_TY 1, .start .DESIGNATOR none, .token .L_BRACK 1,
       .start .TOMBSTONE (some 1), .start .LITERAL none, .token .INT_NUMBER 1, .finish,
       .token .R_BRACK 1, .finish, .finish, .start .NAME none, .token .IDENT 1, .finish,
       .token .SEMICOLON 1, .finish] := by
  accept [h0, h1, h2, h3, h4, h5]

/-- `int x = y;` -/
theorem accept_decl_int_init_ident (fuel : Nat) (s : P) (hr : Ready s)
    (h0 : s.kindAt (s.pos + 0) = .INT_TY) (h1 : s.kindAt (s.pos + 1) = .IDENT) (h2 : s.kindAt (s.pos + 2) = .EQ) (h3 : s.kindAt (s.pos + 3) = .IDENT) (h4 : s.kindAt (s.pos + 4) = .SEMICOLON) :
    Accepts (stmt (fuel + 40)) s 5
      [.start .CLASSICAL_DECLARATION_STATEMENT none, .start .TOMBSTONE none,
       .start .SCALAR_TYPE none, .token .INT_TY 1, .finish, .start .NAME none, .token .IDENT 1,
       .finish, .token .EQ 1, .start .TOMBSTONE (some 1), .start .IDENTIFIER none, .token .IDENT 1,
       .finish, .token .SEMICOLON 1, .finish] := by
  accept [h0, h1, h2, h3, h4]

/-- `int x = 3;` -/
theorem accept_decl_int_init_lit (fuel : Nat) (s : P) (hr : Ready s)
    (h0 : s.kindAt (s.pos + 0) = .INT_TY) (h1 : s.kindAt (s.pos + 1) = .IDENT) (h2 : s.kindAt (s.pos + 2) = .EQ) (h3 : s.kindAt (s.pos + 3) = .INT_NUMBER) (h4 : s.kindAt (s.pos + 4) = .SEMICOLON) :
    Accepts (stmt (fuel + 40)) s 5
      [.start .CLASSICAL_DECLARATION_STATEMENT none, .start .TOMBSTONE none,
       .start .SCALAR_TYPE none, .token .INT_TY 1, .finish, .start .NAME none, .token .IDENT 1,
       .finish, .token .EQ 1, .start .TOMBSTONE (some 1), .start .LITERAL none,
       .token .INT_NUMBER 1, .finish, .token .SEMICOLON 1, .finish] := by
  accept [h0, h1, h2, h3, h4]

/-- `int[n] x = 3;` -/
theorem accept_decl_int_width_init (fuel : Nat) (s : P) (hr : Ready s)
    (h0 : s.kindAt (s.pos + 0) = .INT_TY) (h1 : s.kindAt (s.pos + 1) = .L_BRACK) (h2 : s.kindAt (s.pos + 2) = .INT_NUMBER) (h3 : s.kindAt (s.pos + 3) = .R_BRACK) (h4 : s.kindAt (s.pos + 4) = .IDENT) (h5 : s.kindAt (s.pos + 5) = .EQ) (h6 : s.kindAt (s.pos + 6) = .INT_NUMBER) (h7 : s.kindAt (s.pos + 7) = .SEMICOLON) :
    Accepts (stmt (fuel + 40)) s 8
      [.start .CLASSICAL_DECLARATION_STATEMENT none, .start .TOMBSTONE none,
       .start .SCALAR_TYPE none, .token .INT_TY 1, .start .DESIGNATOR none, .token .L_BRACK 1,
       .start .TOMBSTONE (some 1), .start .LITERAL none, .token .INT_NUMBER 1, .finish,
       .token .R_BRACK 1, .finish, .finish, .start .NAME none, .token .IDENT 1, .finish,
       .token .EQ 1, .start .TOMBSTONE (some 1), .start .LITERAL none, .token .INT_NUMBER 1,
       .finish, .token .SEMICOLON 1, .finish] := by
  accept [h0, h1, h2, h3, h4, h5, h6, h7]

/-- `float x = 2.5;` -/
theorem accept_decl_float_init (fuel : Nat) (s : P) (hr : Ready s)
    (h0 : s.kindAt (s.pos + 0) = .FLOAT_TY) (h1 : s.kindAt (s.pos + 1) = .IDENT) (h2 : s.kindAt (s.pos + 2) = .EQ) (h3 : s.kindAt (s.pos + 3) = .FLOAT_NUMBER) (h4 : s.kindAt (s.pos + 4) = .SEMICOLON) :
    Accepts (stmt (fuel + 40)) s 5
      [.start .CLASSICAL_DECLARATION_STATEMENT none, .start .TOMBSTONE none,
       .start .SCALAR_TYPE none, .token .FLOAT_TY 1, .finish, .start .NAME none, .token .IDENT 1,
       .finish, .token .EQ 1, .start .TOMBSTONE (some 1), .start .LITERAL none,
       .token .FLOAT_NUMBER 1, .finish, .token .SEMICOLON 1, .finish] := by
  accept [h0, h1, h2, h3, h4]

/-- `bit c = measure q;` -/
theorem accept_decl_bit_init_measure (fuel : Nat) (s : P) (hr : Ready s)
    (h0 : s.kindAt (s.pos + 0) = .BIT_TY) (h1 : s.kindAt (s.pos + 1) = .IDENT) (h2 : s.kindAt (s.pos + 2) = .EQ) (h3 : s.kindAt (s.pos + 3) = .MEASURE_KW) (h4 : s.kindAt (s.pos + 4) = .IDENT) (h5 : s.kindAt (s.pos + 5) = .SEMICOLON) :
    Accepts (stmt (fuel + 40)) s 6
      [.start .CLASSICAL_DECLARATION_STATEMENT none, .start .TOMBSTONE none,
       .start .SCALAR_TYPE none, .token .BIT_TY 1, .finish, .start .NAME none, .token .IDENT 1,
       .finish, .token .EQ 1, .start .TOMBSTONE (some 1), .start .MEASURE_EXPRESSION none,
       .token .MEASURE_KW 1, .start .IDENTIFIER none, .token .IDENT 1, .finish, .finish,
       .token .SEMICOLON 1, .finish] := by
  accept [h0, h1, h2, h3, h4, h5]

/-- `bool b = true;` -/
theorem accept_decl_bool_init_true (fuel : Nat) (s : P) (hr : Ready s)
    (h0 : s.kindAt (s.pos + 0) = .BOOL_TY) (h1 : s.kindAt (s.pos + 1) = .IDENT) (h2 : s.kindAt (s.pos + 2) = .EQ) (h3 : s.kindAt (s.pos + 3) = .TRUE_KW) (h4 : s.kindAt (s.pos + 4) = .SEMICOLON) :
    Accepts (stmt (fuel + 40)) s 5
      [.start .CLASSICAL_DECLARATION_STATEMENT none, .start .TOMBSTONE none,
       .start .SCALAR_TYPE none, .token .BOOL_TY 1, .finish, .start .NAME none, .token .IDENT 1,
       .finish, .token .EQ 1, .start .TOMBSTONE (some 1), .start .LITERAL none, .token .TRUE_KW 1,
       .finish, .token .SEMICOLON 1, .finish] := by
  accept [h0, h1, h2, h3, h4]

/-- `const int n = 3;` -/
theorem accept_const_int (fuel : Nat) (s : P) (hr : Ready s)
    (h0 : s.kindAt (s.pos + 0) = .CONST_KW) (h1 : s.kindAt (s.pos + 1) = .INT_TY) (h2 : s.kindAt (s.pos + 2) = .IDENT) (h3 : s.kindAt (s.pos + 3) = .EQ) (h4 : s.kindAt (s.pos + 4) = .INT_NUMBER) (h5 : s.kindAt (s.pos + 5) = .SEMICOLON) :
    Accepts (stmt (fuel + 40)) s 6
      [.start .CLASSICAL_DECLARATION_STATEMENT none, .token .CONST_KW 1, .start .TOMBSTONE none,
       .start .SCALAR_TYPE none, .token .INT_TY 1, .finish, .start .NAME none, .token .IDENT 1,
       .finish, .token .EQ 1, .start .TOMBSTONE (some 1), .start .LITERAL none,
       .token .INT_NUMBER 1, .finish, .token .SEMICOLON 1, .finish] := by
  accept [h0, h1, h2, h3, h4, h5]

/-- `const int[n] m = 3;` -/
theorem accept_const_int_width (fuel : Nat) (s : P) (hr : Ready s)
    (h0 : s.kindAt (s.pos + 0) = .CONST_KW) (h1 : s.kindAt (s.pos + 1) = .INT_TY) (h2 : s.kindAt (s.pos + 2) = .L_BRACK) (h3 : s.kindAt (s.pos + 3) = .INT_NUMBER) (h4 : s.kindAt (s.pos + 4) = .R_BRACK) (h5 : s.kindAt (s.pos + 5) = .IDENT) (h6 : s.kindAt (s.pos + 6) = .EQ) (h7 : s.kindAt (s.pos + 7) = .INT_NUMBER) (h8 : s.kindAt (s.pos + 8) = .SEMICOLON) :
    Accepts (stmt (fuel + 40)) s 9
      [.start .CLASSICAL_DECLARATION_STATEMENT none, .token .CONST_KW 1, .start .TOMBSTONE none,
       .start .SCALAR_TYPE none, .token .INT_TY 1, .start .DESIGNATOR none, .token .L_BRACK 1,
       .start .TOMBSTONE (some 1), .start .LITERAL none, .token .INT_NUMBER 1, .finish,
       .token .R_BRACK 1, .finish, .finish, .start .NAME none, .token .IDENT 1, .finish,
       .token .EQ 1, .start .TOMBSTONE (some 1), .start .LITERAL none, .token .INT_NUMBER 1,
       .finish, .token .SEMICOLON 1, .finish] := by
  accept [h0, h1, h2, h3, h4, h5, h6, h7, h8]

/-- `int x = a + b;` (a binary initializer IS accepted in a declaration) -/
theorem accept_decl_int_init_sum (fuel : Nat) (s : P) (hr : Ready s)
    (h0 : s.kindAt (s.pos + 0) = .INT_TY) (h1 : s.kindAt (s.pos + 1) = .IDENT) (h2 : s.kindAt (s.pos + 2) = .EQ) (h3 : s.kindAt (s.pos + 3) = .IDENT) (h4 : s.kindAt (s.pos + 4) = .PLUS) (h5 : s.kindAt (s.pos + 5) = .IDENT) (h6 : s.kindAt (s.pos + 6) = .SEMICOLON) :
    Accepts (stmt (fuel + 40)) s 7
      [.start .CLASSICAL_DECLARATION_STATEMENT none, .start .TOMBSTONE none,
       .start .SCALAR_TYPE none, .token .INT_TY 1, .finish, .start .NAME none, .token .IDENT 1,
       .finish, .token .EQ 1, .start .TOMBSTONE (some 1), .start .IDENTIFIER (some 3),
       .token .IDENT 1, .finish, .start .BIN_EXPR none, .token .PLUS 1, .start .TOMBSTONE (some 1),
       .start .IDENTIFIER none, .token .IDENT 1, .finish, .finish, .token .SEMICOLON 1, .finish] := by
  accept [h0, h1, h2, h3, h4, h5, h6]

/-- `input int x;` -/
theorem accept_input (fuel : Nat) (s : P) (hr : Ready s)
    (h0 : s.kindAt (s.pos + 0) = .INPUT_KW) (h1 : s.kindAt (s.pos + 1) = .INT_TY) (h2 : s.kindAt (s.pos + 2) = .IDENT) (h3 : s.kindAt (s.pos + 3) = .SEMICOLON) :
    Accepts (stmt (fuel + 40)) s 4
      [.start .I_O_DECLARATION_STATEMENT none, .token .INPUT_KW 1, .start .SCALAR_TYPE none,
       .token .INT_TY 1, .finish, .start .NAME none, .token .IDENT 1, .finish, .token .SEMICOLON 1,
       .finish] := by
  accept [h0, h1, h2, h3]

/-- `output bit c;` -/
theorem accept_output (fuel : Nat) (s : P) (hr : Ready s)
    (h0 : s.kindAt (s.pos + 0) = .OUTPUT_KW) (h1 : s.kindAt (s.pos + 1) = .BIT_TY) (h2 : s.kindAt (s.pos + 2) = .IDENT) (h3 : s.kindAt (s.pos + 3) = .SEMICOLON) :
    Accepts (stmt (fuel + 40)) s 4
      [.start .I_O_DECLARATION_STATEMENT none, .token .OUTPUT_KW 1, .start .SCALAR_TYPE none,
       .token .BIT_TY 1, .finish, .start .NAME none, .token .IDENT 1, .finish, .token .SEMICOLON 1,
       .finish] := by
  accept [h0, h1, h2, h3]

/-- `reset q;` -/
theorem accept_reset (fuel : Nat) (s : P) (hr : Ready s)
    (h0 : s.kindAt (s.pos + 0) = .RESET_KW) (h1 : s.kindAt (s.pos + 1) = .IDENT) (h2 : s.kindAt (s.pos + 2) = .SEMICOLON) :
    Accepts (stmt (fuel + 40)) s 3
      [.start .RESET none, .token .RESET_KW 1, .start .IDENTIFIER none, .token .IDENT 1, .finish,
       .token .SEMICOLON 1, .finish] := by
  accept [h0, h1, h2]

/-- `reset q[0];` -/
theorem accept_reset_indexed (fuel : Nat) (s : P) (hr : Ready s)
    (h0 : s.kindAt (s.pos + 0) = .RESET_KW) (h1 : s.kindAt (s.pos + 1) = .IDENT) (h2 : s.kindAt (s.pos + 2) = .L_BRACK) (h3 : s.kindAt (s.pos + 3) = .INT_NUMBER) (h4 : s.kindAt (s.pos + 4) = .R_BRACK) (h5 : s.kindAt (s.pos + 5) = .SEMICOLON) :
    Accepts (stmt (fuel + 40)) s 6
      [.start .RESET none, .token .RESET_KW 1, .start .IDENTIFIER (some 3), .token .IDENT 1,
       .finish, .start .INDEXED_IDENTIFIER none, .start .INDEX_OPERATOR none, .token .L_BRACK 1,
       .start .EXPRESSION_LIST none, .start .TOMBSTONE none, .start .TOMBSTONE (some 1),
       .start .LITERAL none, .token .INT_NUMBER 1, .finish, .finish, .token .R_BRACK 1, .finish,
       .finish, .token .SEMICOLON 1, .finish] := by
  accept [h0, h1, h2, h3, h4, h5]

/-- `reset $0;` -/
theorem accept_reset_hw (fuel : Nat) (s : P) (hr : Ready s)
    (h0 : s.kindAt (s.pos + 0) = .RESET_KW) (h1 : s.kindAt (s.pos + 1) = .HARDWAREIDENT) (h2 : s.kindAt (s.pos + 2) = .SEMICOLON) :
    Accepts (stmt (fuel + 40)) s 3
      [.start .RESET none, .token .RESET_KW 1, .start .HARDWARE_QUBIT none, .token .HARDWAREIDENT 1,
       .finish, .token .SEMICOLON 1, .finish] := by
  accept [h0, h1, h2]

/-- `barrier q;` -/
theorem accept_barrier (fuel : Nat) (s : P) (hr : Ready s)
    (h0 : s.kindAt (s.pos + 0) = .BARRIER_KW) (h1 : s.kindAt (s.pos + 1) = .IDENT) (h2 : s.kindAt (s.pos + 2) = .SEMICOLON) :
    Accepts (stmt (fuel + 40)) s 3
      [.start .BARRIER none, .token .BARRIER_KW 1, .start .QUBIT_LIST none, .start .IDENTIFIER none,
       .token .IDENT 1, .finish, .finish, .token .SEMICOLON 1, .finish] := by
  accept [h0, h1, h2]

/-- `barrier q, r;` -/
theorem accept_barrier_two (fuel : Nat) (s : P) (hr : Ready s)
    (h0 : s.kindAt (s.pos + 0) = .BARRIER_KW) (h1 : s.kindAt (s.pos + 1) = .IDENT) (h2 : s.kindAt (s.pos + 2) = .COMMA) (h3 : s.kindAt (s.pos + 3) = .IDENT) (h4 : s.kindAt (s.pos + 4) = .SEMICOLON) :
    Accepts (stmt (fuel + 40)) s 5
      [.start .BARRIER none, .token .BARRIER_KW 1, .start .QUBIT_LIST none, .start .IDENTIFIER none,
       .token .IDENT 1, .finish, .token .COMMA 1, .start .IDENTIFIER none, .token .IDENT 1,
       .finish, .finish, .token .SEMICOLON 1, .finish] := by
  accept [h0, h1, h2, h3, h4]

/-- `barrier;` -/
theorem accept_barrier_none (fuel : Nat) (s : P) (hr : Ready s)
    (h0 : s.kindAt (s.pos + 0) = .BARRIER_KW) (h1 : s.kindAt (s.pos + 1) = .SEMICOLON) :
    Accepts (stmt (fuel + 40)) s 2
      [.start .BARRIER none, .token .BARRIER_KW 1, .token .SEMICOLON 1, .finish] := by
  accept [h0, h1]

/-- `delay[n] q;` -/
theorem accept_delay (fuel : Nat) (s : P) (hr : Ready s)
    (h0 : s.kindAt (s.pos + 0) = .DELAY_KW) (h1 : s.kindAt (s.pos + 1) = .L_BRACK) (h2 : s.kindAt (s.pos + 2) = .INT_NUMBER) (h3 : s.kindAt (s.pos + 3) = .R_BRACK) (h4 : s.kindAt (s.pos + 4) = .IDENT) (h5 : s.kindAt (s.pos + 5) = .SEMICOLON) :
    Accepts (stmt (fuel + 40)) s 6
      [.start .DELAY_STMT none, .token .DELAY_KW 1, .start .DESIGNATOR none, .token .L_BRACK 1,
       .start .TOMBSTONE (some 1), .start .LITERAL none, .token .INT_NUMBER 1, .finish,
       .token .R_BRACK 1, .finish, .start .QUBIT_LIST none, .start .IDENTIFIER none,
       .token .IDENT 1, .finish, .finish, .token .SEMICOLON 1, .finish] := by
  accept [h0, h1, h2, h3, h4, h5]

/-- `delay[10ns] q;` (timing literal = number + identifier) -/
theorem accept_delay_timing (fuel : Nat) (s : P) (hr : Ready s)
    (h0 : s.kindAt (s.pos + 0) = .DELAY_KW) (h1 : s.kindAt (s.pos + 1) = .L_BRACK) (h2 : s.kindAt (s.pos + 2) = .INT_NUMBER) (h3 : s.kindAt (s.pos + 3) = .IDENT) (h4 : s.kindAt (s.pos + 4) = .R_BRACK) (h5 : s.kindAt (s.pos + 5) = .IDENT) (h6 : s.kindAt (s.pos + 6) = .SEMICOLON) :
    Accepts (stmt (fuel + 40)) s 7
      [.start .DELAY_STMT none, .token .DELAY_KW 1, .start .DESIGNATOR none, .token .L_BRACK 1,
       .start .TOMBSTONE (some 1), .start .TIMING_LITERAL none, .start .LITERAL none,
       .token .INT_NUMBER 1, .finish, .start .IDENTIFIER none, .token .IDENT 1, .finish, .finish,
       .token .R_BRACK 1, .finish, .start .QUBIT_LIST none, .start .IDENTIFIER none,
       .token .IDENT 1, .finish, .finish, .token .SEMICOLON 1, .finish] := by
  accept [h0, h1, h2, h3, h4, h5, h6]

/-- `measure q;` -/
theorem accept_measure (fuel : Nat) (s : P) (hr : Ready s)
    (h0 : s.kindAt (s.pos + 0) = .MEASURE_KW) (h1 : s.kindAt (s.pos + 1) = .IDENT) (h2 : s.kindAt (s.pos + 2) = .SEMICOLON) :
    Accepts (stmt (fuel + 40)) s 3
      [.start .TOMBSTONE (some 1), .start .MEASURE_EXPRESSION (some 6), .token .MEASURE_KW 1,
       .start .IDENTIFIER none, .token .IDENT 1, .finish, .finish, .start .EXPR_STMT none,
       .token .SEMICOLON 1, .finish] := by
  accept [h0, h1, h2]

/-- `c = measure q;` -/
theorem accept_measure_assign (fuel : Nat) (s : P) (hr : Ready s)
    (h0 : s.kindAt (s.pos + 0) = .IDENT) (h1 : s.kindAt (s.pos + 1) = .EQ) (h2 : s.kindAt (s.pos + 2) = .MEASURE_KW) (h3 : s.kindAt (s.pos + 3) = .IDENT) (h4 : s.kindAt (s.pos + 4) = .SEMICOLON) (k : SyntaxKind) (hk : s.kindAt (s.pos + 5) = k) (hf : opFirst k = false) :
    Accepts (stmt (fuel + 40)) s 5
      [.start .TOMBSTONE (some 1), .start .IDENTIFIER (some 3), .token .IDENT 1, .finish,
       .start .ASSIGNMENT_STMT none, .token .EQ 1, .start .TOMBSTONE (some 1),
       .start .MEASURE_EXPRESSION none, .token .MEASURE_KW 1, .start .IDENTIFIER none,
       .token .IDENT 1, .finish, .finish, .token .SEMICOLON 1, .finish] := by
  accept [h0, h1, h2, h3, h4, currentOp_follow s k 5 hk hf]

/-- `g q;` -/
theorem accept_gate_call (fuel : Nat) (s : P) (hr : Ready s)
    (h0 : s.kindAt (s.pos + 0) = .IDENT) (h1 : s.kindAt (s.pos + 1) = .IDENT) (h2 : s.kindAt (s.pos + 2) = .SEMICOLON) :
    Accepts (stmt (fuel + 40)) s 3
      [.start .TOMBSTONE (some 1), .start .GATE_CALL_EXPR (some 10), .start .IDENTIFIER none,
       .token .IDENT 1, .finish, .start .QUBIT_LIST none, .start .IDENTIFIER none, .token .IDENT 1,
       .finish, .finish, .finish, .start .EXPR_STMT none, .token .SEMICOLON 1, .finish] := by
  accept [h0, h1, h2]

/-- `cx q, r;` -/
theorem accept_gate_call_two (fuel : Nat) (s : P) (hr : Ready s)
    (h0 : s.kindAt (s.pos + 0) = .IDENT) (h1 : s.kindAt (s.pos + 1) = .IDENT) (h2 : s.kindAt (s.pos + 2) = .COMMA) (h3 : s.kindAt (s.pos + 3) = .IDENT) (h4 : s.kindAt (s.pos + 4) = .SEMICOLON) :
    Accepts (stmt (fuel + 40)) s 5
      [.start .TOMBSTONE (some 1), .start .GATE_CALL_EXPR (some 14), .start .IDENTIFIER none,
       .token .IDENT 1, .finish, .start .QUBIT_LIST none, .start .IDENTIFIER none, .token .IDENT 1,
       .finish, .token .COMMA 1, .start .IDENTIFIER none, .token .IDENT 1, .finish, .finish,
       .finish, .start .EXPR_STMT none, .token .SEMICOLON 1, .finish] := by
  accept [h0, h1, h2, h3, h4]

/-- `h q[0];` -/
theorem accept_gate_call_indexed (fuel : Nat) (s : P) (hr : Ready s)
    (h0 : s.kindAt (s.pos + 0) = .IDENT) (h1 : s.kindAt (s.pos + 1) = .IDENT) (h2 : s.kindAt (s.pos + 2) = .L_BRACK) (h3 : s.kindAt (s.pos + 3) = .INT_NUMBER) (h4 : s.kindAt (s.pos + 4) = .R_BRACK) (h5 : s.kindAt (s.pos + 5) = .SEMICOLON) :
    Accepts (stmt (fuel + 40)) s 6
      [.start .TOMBSTONE (some 1), .start .GATE_CALL_EXPR (some 23), .start .IDENTIFIER none,
       .token .IDENT 1, .finish, .start .QUBIT_LIST none, .start .IDENTIFIER (some 3),
       .token .IDENT 1, .finish, .start .INDEXED_IDENTIFIER none, .start .INDEX_OPERATOR none,
       .token .L_BRACK 1, .start .EXPRESSION_LIST none, .start .TOMBSTONE none,
       .start .TOMBSTONE (some 1), .start .LITERAL none, .token .INT_NUMBER 1, .finish, .finish,
       .token .R_BRACK 1, .finish, .finish, .finish, .finish, .start .EXPR_STMT none,
       .token .SEMICOLON 1, .finish] := by
  accept [h0, h1, h2, h3, h4, h5]

/-- `h $0;` -/
theorem accept_gate_call_hw (fuel : Nat) (s : P) (hr : Ready s)
    (h0 : s.kindAt (s.pos + 0) = .IDENT) (h1 : s.kindAt (s.pos + 1) = .HARDWAREIDENT) (h2 : s.kindAt (s.pos + 2) = .SEMICOLON) :
    Accepts (stmt (fuel + 40)) s 3
      [.start .TOMBSTONE (some 1), .start .GATE_CALL_EXPR (some 10), .start .IDENTIFIER none,
       .token .IDENT 1, .finish, .start .QUBIT_LIST none, .start .HARDWARE_QUBIT none,
       .token .HARDWAREIDENT 1, .finish, .finish, .finish, .start .EXPR_STMT none,
       .token .SEMICOLON 1, .finish] := by
  accept [h0, h1, h2]

/-- `g(a) q;` -/
theorem accept_gate_call_param (fuel : Nat) (s : P) (hr : Ready s)
    (h0 : s.kindAt (s.pos + 0) = .IDENT) (h1 : s.kindAt (s.pos + 1) = .L_PAREN) (h2 : s.kindAt (s.pos + 2) = .IDENT) (h3 : s.kindAt (s.pos + 3) = .R_PAREN) (h4 : s.kindAt (s.pos + 4) = .IDENT) (h5 : s.kindAt (s.pos + 5) = .SEMICOLON) :
    Accepts (stmt (fuel + 40)) s 6
      [.start .TOMBSTONE (some 4), .start .IDENTIFIER (some 3), .token .IDENT 1, .finish,
       .start .GATE_CALL_EXPR (some 17), .start .ARG_LIST none, .start .EXPRESSION_LIST none,
       .token .L_PAREN 1, .start .TOMBSTONE (some 1), .start .IDENTIFIER none, .token .IDENT 1,
       .finish, .token .R_PAREN 1, .finish, .finish, .start .QUBIT_LIST none,
       .start .IDENTIFIER none, .token .IDENT 1, .finish, .finish, .finish, .start .EXPR_STMT none,
       .token .SEMICOLON 1, .finish] := by
  accept [h0, h1, h2, h3, h4, h5]

/-- `rx(1.5) q;` -/
theorem accept_gate_call_param_lit (fuel : Nat) (s : P) (hr : Ready s)
    (h0 : s.kindAt (s.pos + 0) = .IDENT) (h1 : s.kindAt (s.pos + 1) = .L_PAREN) (h2 : s.kindAt (s.pos + 2) = .FLOAT_NUMBER) (h3 : s.kindAt (s.pos + 3) = .R_PAREN) (h4 : s.kindAt (s.pos + 4) = .IDENT) (h5 : s.kindAt (s.pos + 5) = .SEMICOLON) :
    Accepts (stmt (fuel + 40)) s 6
      [.start .TOMBSTONE (some 4), .start .IDENTIFIER (some 3), .token .IDENT 1, .finish,
       .start .GATE_CALL_EXPR (some 17), .start .ARG_LIST none, .start .EXPRESSION_LIST none,
       .token .L_PAREN 1, .start .TOMBSTONE (some 1), .start .LITERAL none, .token .FLOAT_NUMBER 1,
       .finish, .token .R_PAREN 1, .finish, .finish, .start .QUBIT_LIST none,
       .start .IDENTIFIER none, .token .IDENT 1, .finish, .finish, .finish, .start .EXPR_STMT none,
       .token .SEMICOLON 1, .finish] := by
  accept [h0, h1, h2, h3, h4, h5]

/-- `inv @ g q;` -/
theorem accept_gate_call_inv (fuel : Nat) (s : P) (hr : Ready s)
    (h0 : s.kindAt (s.pos + 0) = .INV_KW) (h1 : s.kindAt (s.pos + 1) = .AT) (h2 : s.kindAt (s.pos + 2) = .IDENT) (h3 : s.kindAt (s.pos + 3) = .IDENT) (h4 : s.kindAt (s.pos + 4) = .SEMICOLON) :
    Accepts (stmt (fuel + 40)) s 5
      [.start .TOMBSTONE (some 1), .start .MODIFIED_GATE_CALL_EXPR (some 16),
       .start .INV_MODIFIER none, .token .INV_KW 1, .token .AT 1, .finish,
       .start .GATE_CALL_EXPR none, .start .IDENTIFIER none, .token .IDENT 1, .finish,
       .start .QUBIT_LIST none, .start .IDENTIFIER none, .token .IDENT 1, .finish, .finish,
       .finish, .finish, .start .EXPR_STMT none, .token .SEMICOLON 1, .finish] := by
  accept [h0, h1, h2, h3, h4]

/-- `ctrl @ g q, r;` -/
theorem accept_gate_call_ctrl (fuel : Nat) (s : P) (hr : Ready s)
    (h0 : s.kindAt (s.pos + 0) = .CTRL_KW) (h1 : s.kindAt (s.pos + 1) = .AT) (h2 : s.kindAt (s.pos + 2) = .IDENT) (h3 : s.kindAt (s.pos + 3) = .IDENT) (h4 : s.kindAt (s.pos + 4) = .COMMA) (h5 : s.kindAt (s.pos + 5) = .IDENT) (h6 : s.kindAt (s.pos + 6) = .SEMICOLON) :
    Accepts (stmt (fuel + 40)) s 7
      [.start .TOMBSTONE (some 1), .start .MODIFIED_GATE_CALL_EXPR (some 20),
       .start .CTRL_MODIFIER none, .token .CTRL_KW 1, .token .AT 1, .finish,
       .start .GATE_CALL_EXPR none, .start .IDENTIFIER none, .token .IDENT 1, .finish,
       .start .QUBIT_LIST none, .start .IDENTIFIER none, .token .IDENT 1, .finish, .token .COMMA 1,
       .start .IDENTIFIER none, .token .IDENT 1, .finish, .finish, .finish, .finish,
       .start .EXPR_STMT none, .token .SEMICOLON 1, .finish] := by
  accept [h0, h1, h2, h3, h4, h5, h6]

/-- `negctrl(2) @ g q, r;` -/
theorem accept_gate_call_negctrl_n (fuel : Nat) (s : P) (hr : Ready s)
    (h0 : s.kindAt (s.pos + 0) = .NEGCTRL_KW) (h1 : s.kindAt (s.pos + 1) = .L_PAREN) (h2 : s.kindAt (s.pos + 2) = .INT_NUMBER) (h3 : s.kindAt (s.pos + 3) = .R_PAREN) (h4 : s.kindAt (s.pos + 4) = .AT) (h5 : s.kindAt (s.pos + 5) = .IDENT) (h6 : s.kindAt (s.pos + 6) = .IDENT) (h7 : s.kindAt (s.pos + 7) = .COMMA) (h8 : s.kindAt (s.pos + 8) = .IDENT) (h9 : s.kindAt (s.pos + 9) = .SEMICOLON) :
    Accepts (stmt (fuel + 40)) s 10
      [.start .TOMBSTONE (some 1), .start .MODIFIED_GATE_CALL_EXPR (some 28),
       .start .NEG_CTRL_MODIFIER none, .token .NEGCTRL_KW 1, .start .PAREN_EXPR none,
       .token .L_PAREN 1, .start .TOMBSTONE (some 1), .start .LITERAL none, .token .INT_NUMBER 1,
       .finish, .token .R_PAREN 1, .finish, .token .AT 1, .finish, .start .GATE_CALL_EXPR none,
       .start .IDENTIFIER none, .token .IDENT 1, .finish, .start .QUBIT_LIST none,
       .start .IDENTIFIER none, .token .IDENT 1, .finish, .token .COMMA 1, .start .IDENTIFIER none,
       .token .IDENT 1, .finish, .finish, .finish, .finish, .start .EXPR_STMT none,
       .token .SEMICOLON 1, .finish] := by
  accept [h0, h1, h2, h3, h4, h5, h6, h7, h8, h9]

/-- `pow(2) @ g q;` -/
theorem accept_gate_call_pow (fuel : Nat) (s : P) (hr : Ready s)
    (h0 : s.kindAt (s.pos + 0) = .POW_KW) (h1 : s.kindAt (s.pos + 1) = .L_PAREN) (h2 : s.kindAt (s.pos + 2) = .INT_NUMBER) (h3 : s.kindAt (s.pos + 3) = .R_PAREN) (h4 : s.kindAt (s.pos + 4) = .AT) (h5 : s.kindAt (s.pos + 5) = .IDENT) (h6 : s.kindAt (s.pos + 6) = .IDENT) (h7 : s.kindAt (s.pos + 7) = .SEMICOLON) :
    Accepts (stmt (fuel + 40)) s 8
      [.start .TOMBSTONE (some 1), .start .MODIFIED_GATE_CALL_EXPR (some 24),
       .start .POW_MODIFIER none, .token .POW_KW 1, .start .PAREN_EXPR none, .token .L_PAREN 1,
       .start .TOMBSTONE (some 1), .start .LITERAL none, .token .INT_NUMBER 1, .finish,
       .token .R_PAREN 1, .finish, .token .AT 1, .finish, .start .GATE_CALL_EXPR none,
       .start .IDENTIFIER none, .token .IDENT 1, .finish, .start .QUBIT_LIST none,
       .start .IDENTIFIER none, .token .IDENT 1, .finish, .finish, .finish, .finish,
       .start .EXPR_STMT none, .token .SEMICOLON 1, .finish] := by
  accept [h0, h1, h2, h3, h4, h5, h6, h7]

/-- `gphase(a);` -/
theorem accept_gphase (fuel : Nat) (s : P) (hr : Ready s)
    (h0 : s.kindAt (s.pos + 0) = .GPHASE_KW) (h1 : s.kindAt (s.pos + 1) = .L_PAREN) (h2 : s.kindAt (s.pos + 2) = .IDENT) (h3 : s.kindAt (s.pos + 3) = .R_PAREN) (h4 : s.kindAt (s.pos + 4) = .SEMICOLON) :
    Accepts (stmt (fuel + 40)) s 5
      [.start .TOMBSTONE (some 1), .start .G_PHASE_CALL_EXPR (some 12), .token .GPHASE_KW 1,
       .start .TOMBSTONE (some 1), .start .PAREN_EXPR none, .token .L_PAREN 1,
       .start .TOMBSTONE (some 1), .start .IDENTIFIER none, .token .IDENT 1, .finish,
       .token .R_PAREN 1, .finish, .finish, .start .EXPR_STMT none, .token .SEMICOLON 1, .finish] := by
  accept [h0, h1, h2, h3, h4]

/-- `f(a);` -/
theorem accept_call (fuel : Nat) (s : P) (hr : Ready s)
    (h0 : s.kindAt (s.pos + 0) = .IDENT) (h1 : s.kindAt (s.pos + 1) = .L_PAREN) (h2 : s.kindAt (s.pos + 2) = .IDENT) (h3 : s.kindAt (s.pos + 3) = .R_PAREN) (h4 : s.kindAt (s.pos + 4) = .SEMICOLON) :
    Accepts (stmt (fuel + 40)) s 5
      [.start .TOMBSTONE (some 4), .start .IDENTIFIER (some 3), .token .IDENT 1, .finish,
       .start .CALL_EXPR (some 12), .start .ARG_LIST none, .start .EXPRESSION_LIST none,
       .token .L_PAREN 1, .start .TOMBSTONE (some 1), .start .IDENTIFIER none, .token .IDENT 1,
       .finish, .token .R_PAREN 1, .finish, .finish, .finish, .start .EXPR_STMT none,
       .token .SEMICOLON 1, .finish] := by
  accept [h0, h1, h2, h3, h4]

/-- `f();` -/
theorem accept_call_none (fuel : Nat) (s : P) (hr : Ready s)
    (h0 : s.kindAt (s.pos + 0) = .IDENT) (h1 : s.kindAt (s.pos + 1) = .L_PAREN) (h2 : s.kindAt (s.pos + 2) = .R_PAREN) (h3 : s.kindAt (s.pos + 3) = .SEMICOLON) :
    Accepts (stmt (fuel + 40)) s 4
      [.start .TOMBSTONE (some 4), .start .IDENTIFIER (some 3), .token .IDENT 1, .finish,
       .start .CALL_EXPR (some 8), .start .ARG_LIST none, .start .EXPRESSION_LIST none,
       .token .L_PAREN 1, .token .R_PAREN 1, .finish, .finish, .finish, .start .EXPR_STMT none,
       .token .SEMICOLON 1, .finish] := by
  accept [h0, h1, h2, h3]

/-- `x = y;` -/
theorem accept_assign_ident (fuel : Nat) (s : P) (hr : Ready s)
    (h0 : s.kindAt (s.pos + 0) = .IDENT) (h1 : s.kindAt (s.pos + 1) = .EQ) (h2 : s.kindAt (s.pos + 2) = .IDENT) (h3 : s.kindAt (s.pos + 3) = .SEMICOLON) (k : SyntaxKind) (hk : s.kindAt (s.pos + 4) = k) (hf : opFirst k = false) :
    Accepts (stmt (fuel + 40)) s 4
      [.start .TOMBSTONE (some 1), .start .IDENTIFIER (some 3), .token .IDENT 1, .finish,
       .start .ASSIGNMENT_STMT none, .token .EQ 1, .start .TOMBSTONE (some 1),
       .start .IDENTIFIER none, .token .IDENT 1, .finish, .token .SEMICOLON 1, .finish] := by
  accept [h0, h1, h2, h3, currentOp_follow s k 4 hk hf]

/-- `x = 3;` -/
theorem accept_assign_lit (fuel : Nat) (s : P) (hr : Ready s)
    (h0 : s.kindAt (s.pos + 0) = .IDENT) (h1 : s.kindAt (s.pos + 1) = .EQ) (h2 : s.kindAt (s.pos + 2) = .INT_NUMBER) (h3 : s.kindAt (s.pos + 3) = .SEMICOLON) (k : SyntaxKind) (hk : s.kindAt (s.pos + 4) = k) (hf : opFirst k = false) :
    Accepts (stmt (fuel + 40)) s 4
      [.start .TOMBSTONE (some 1), .start .IDENTIFIER (some 3), .token .IDENT 1, .finish,
       .start .ASSIGNMENT_STMT none, .token .EQ 1, .start .TOMBSTONE (some 1),
       .start .LITERAL none, .token .INT_NUMBER 1, .finish, .token .SEMICOLON 1, .finish] := by
  accept [h0, h1, h2, h3, currentOp_follow s k 4 hk hf]

/-- `x = (a + b);` -/
theorem accept_assign_paren_sum (fuel : Nat) (s : P) (hr : Ready s)
    (h0 : s.kindAt (s.pos + 0) = .IDENT) (h1 : s.kindAt (s.pos + 1) = .EQ) (h2 : s.kindAt (s.pos + 2) = .L_PAREN) (h3 : s.kindAt (s.pos + 3) = .IDENT) (h4 : s.kindAt (s.pos + 4) = .PLUS) (h5 : s.kindAt (s.pos + 5) = .IDENT) (h6 : s.kindAt (s.pos + 6) = .R_PAREN) (h7 : s.kindAt (s.pos + 7) = .SEMICOLON) (k : SyntaxKind) (hk : s.kindAt (s.pos + 8) = k) (hf : opFirst k = false) :
    Accepts (stmt (fuel + 40)) s 8
      [.start .TOMBSTONE (some 1), .start .IDENTIFIER (some 3), .token .IDENT 1, .finish,
       .start .ASSIGNMENT_STMT none, .token .EQ 1, .start .TOMBSTONE (some 1),
       .start .PAREN_EXPR none, .token .L_PAREN 1, .start .TOMBSTONE (some 1),
       .start .IDENTIFIER (some 3), .token .IDENT 1, .finish, .start .BIN_EXPR none,
       .token .PLUS 1, .start .TOMBSTONE (some 1), .start .IDENTIFIER none, .token .IDENT 1,
       .finish, .finish, .token .R_PAREN 1, .finish, .token .SEMICOLON 1, .finish] := by
  accept [h0, h1, h2, h3, h4, h5, h6, h7, currentOp_follow s k 8 hk hf]

/-- `x[0] = y;` -/
theorem accept_assign_indexed (fuel : Nat) (s : P) (hr : Ready s)
    (h0 : s.kindAt (s.pos + 0) = .IDENT) (h1 : s.kindAt (s.pos + 1) = .L_BRACK) (h2 : s.kindAt (s.pos + 2) = .INT_NUMBER) (h3 : s.kindAt (s.pos + 3) = .R_BRACK) (h4 : s.kindAt (s.pos + 4) = .EQ) (h5 : s.kindAt (s.pos + 5) = .IDENT) (h6 : s.kindAt (s.pos + 6) = .SEMICOLON) (k : SyntaxKind) (hk : s.kindAt (s.pos + 7) = k) (hf : opFirst k = false) :
    Accepts (stmt (fuel + 40)) s 7
      [.start .TOMBSTONE (some 4), .start .IDENTIFIER (some 3), .token .IDENT 1, .finish,
       .start .INDEXED_IDENTIFIER (some 13), .start .INDEX_OPERATOR none, .token .L_BRACK 1,
       .start .EXPRESSION_LIST none, .start .TOMBSTONE none, .start .TOMBSTONE (some 1),
       .start .LITERAL none, .token .INT_NUMBER 1, .finish, .finish, .token .R_BRACK 1, .finish,
       .finish, .start .ASSIGNMENT_STMT none, .token .EQ 1, .start .TOMBSTONE (some 1),
       .start .IDENTIFIER none, .token .IDENT 1, .finish, .token .SEMICOLON 1, .finish] := by
  accept [h0, h1, h2, h3, h4, h5, h6, currentOp_follow s k 7 hk hf]

/-- `x = int(y);` -/
theorem accept_assign_cast (fuel : Nat) (s : P) (hr : Ready s)
    (h0 : s.kindAt (s.pos + 0) = .IDENT) (h1 : s.kindAt (s.pos + 1) = .EQ) (h2 : s.kindAt (s.pos + 2) = .INT_TY) (h3 : s.kindAt (s.pos + 3) = .L_PAREN) (h4 : s.kindAt (s.pos + 4) = .IDENT) (h5 : s.kindAt (s.pos + 5) = .R_PAREN) (h6 : s.kindAt (s.pos + 6) = .SEMICOLON) (k : SyntaxKind) (hk : s.kindAt (s.pos + 7) = k) (hf : opFirst k = false) :
    Accepts (stmt (fuel + 40)) s 7
      [.start .TOMBSTONE (some 1), .start .IDENTIFIER (some 3), .token .IDENT 1, .finish,
       .start .ASSIGNMENT_STMT none, .token .EQ 1, .start .TOMBSTONE (some 1),
       .start .CAST_EXPRESSION none, .start .SCALAR_TYPE none, .token .INT_TY 1, .finish,
       .token .L_PAREN 1, .start .TOMBSTONE (some 1), .start .IDENTIFIER none, .token .IDENT 1,
       .finish, .token .R_PAREN 1, .finish, .token .SEMICOLON 1, .finish] := by
  accept [h0, h1, h2, h3, h4, h5, h6, currentOp_follow s k 7 hk hf]

/-- `x = f(y);` -/
theorem accept_assign_call (fuel : Nat) (s : P) (hr : Ready s)
    (h0 : s.kindAt (s.pos + 0) = .IDENT) (h1 : s.kindAt (s.pos + 1) = .EQ) (h2 : s.kindAt (s.pos + 2) = .IDENT) (h3 : s.kindAt (s.pos + 3) = .L_PAREN) (h4 : s.kindAt (s.pos + 4) = .IDENT) (h5 : s.kindAt (s.pos + 5) = .R_PAREN) (h6 : s.kindAt (s.pos + 6) = .SEMICOLON) (k : SyntaxKind) (hk : s.kindAt (s.pos + 7) = k) (hf : opFirst k = false) :
    Accepts (stmt (fuel + 40)) s 7
      [.start .TOMBSTONE (some 1), .start .IDENTIFIER (some 3), .token .IDENT 1, .finish,
       .start .ASSIGNMENT_STMT none, .token .EQ 1, .start .TOMBSTONE (some 4),
       .start .IDENTIFIER (some 3), .token .IDENT 1, .finish, .start .CALL_EXPR none,
       .start .ARG_LIST none, .start .EXPRESSION_LIST none, .token .L_PAREN 1,
       .start .TOMBSTONE (some 1), .start .IDENTIFIER none, .token .IDENT 1, .finish,
       .token .R_PAREN 1, .finish, .finish, .finish, .token .SEMICOLON 1, .finish] := by
  accept [h0, h1, h2, h3, h4, h5, h6, currentOp_follow s k 7 hk hf]

/-- `x = -y;` -/
theorem accept_assign_neg (fuel : Nat) (s : P) (hr : Ready s)
    (h0 : s.kindAt (s.pos + 0) = .IDENT) (h1 : s.kindAt (s.pos + 1) = .EQ) (h2 : s.kindAt (s.pos + 2) = .MINUS) (h3 : s.kindAt (s.pos + 3) = .IDENT) (h4 : s.kindAt (s.pos + 4) = .SEMICOLON) (k : SyntaxKind) (hk : s.kindAt (s.pos + 5) = k) (hf : opFirst k = false) :
    Accepts (stmt (fuel + 40)) s 5
      [.start .TOMBSTONE (some 1), .start .IDENTIFIER (some 3), .token .IDENT 1, .finish,
       .start .ASSIGNMENT_STMT none, .token .EQ 1, .start .TOMBSTONE (some 1),
       .start .PREFIX_EXPR none, .token .MINUS 1, .start .TOMBSTONE (some 1),
       .start .IDENTIFIER none, .token .IDENT 1, .finish, .finish, .token .SEMICOLON 1, .finish] := by
  accept [h0, h1, h2, h3, h4, currentOp_follow s k 5 hk hf]

/-- `x = !y;` -/
theorem accept_assign_not (fuel : Nat) (s : P) (hr : Ready s)
    (h0 : s.kindAt (s.pos + 0) = .IDENT) (h1 : s.kindAt (s.pos + 1) = .EQ) (h2 : s.kindAt (s.pos + 2) = .BANG) (h3 : s.kindAt (s.pos + 3) = .IDENT) (h4 : s.kindAt (s.pos + 4) = .SEMICOLON) (k : SyntaxKind) (hk : s.kindAt (s.pos + 5) = k) (hf : opFirst k = false) :
    Accepts (stmt (fuel + 40)) s 5
      [.start .TOMBSTONE (some 1), .start .IDENTIFIER (some 3), .token .IDENT 1, .finish,
       .start .ASSIGNMENT_STMT none, .token .EQ 1, .start .TOMBSTONE (some 1),
       .start .PREFIX_EXPR none, .token .BANG 1, .start .TOMBSTONE (some 1),
       .start .IDENTIFIER none, .token .IDENT 1, .finish, .finish, .token .SEMICOLON 1, .finish] := by
  accept [h0, h1, h2, h3, h4, currentOp_follow s k 5 hk hf]

/-- `x = ~y;` (rejected before `~` was added to `LHS_FIRST`) -/
theorem accept_assign_tilde (fuel : Nat) (s : P) (hr : Ready s)
    (h0 : s.kindAt (s.pos + 0) = .IDENT) (h1 : s.kindAt (s.pos + 1) = .EQ) (h2 : s.kindAt (s.pos + 2) = .TILDE) (h3 : s.kindAt (s.pos + 3) = .IDENT) (h4 : s.kindAt (s.pos + 4) = .SEMICOLON) (k : SyntaxKind) (hk : s.kindAt (s.pos + 5) = k) (hf : opFirst k = false) :
    Accepts (stmt (fuel + 40)) s 5
      [.start .TOMBSTONE (some 1), .start .IDENTIFIER (some 3), .token .IDENT 1, .finish,
       .start .ASSIGNMENT_STMT none, .token .EQ 1, .start .TOMBSTONE (some 1),
       .start .PREFIX_EXPR none, .token .TILDE 1, .start .TOMBSTONE (some 1),
       .start .IDENTIFIER none, .token .IDENT 1, .finish, .finish, .token .SEMICOLON 1, .finish] := by
  accept [h0, h1, h2, h3, h4, currentOp_follow s k 5 hk hf]

/-- `x = a[0];` -/
theorem accept_assign_index_rhs (fuel : Nat) (s : P) (hr : Ready s)
    (h0 : s.kindAt (s.pos + 0) = .IDENT) (h1 : s.kindAt (s.pos + 1) = .EQ) (h2 : s.kindAt (s.pos + 2) = .IDENT) (h3 : s.kindAt (s.pos + 3) = .L_BRACK) (h4 : s.kindAt (s.pos + 4) = .INT_NUMBER) (h5 : s.kindAt (s.pos + 5) = .R_BRACK) (h6 : s.kindAt (s.pos + 6) = .SEMICOLON) (k : SyntaxKind) (hk : s.kindAt (s.pos + 7) = k) (hf : opFirst k = false) :
    Accepts (stmt (fuel + 40)) s 7
      [.start .TOMBSTONE (some 1), .start .IDENTIFIER (some 3), .token .IDENT 1, .finish,
       .start .ASSIGNMENT_STMT none, .token .EQ 1, .start .TOMBSTONE (some 4),
       .start .IDENTIFIER (some 3), .token .IDENT 1, .finish, .start .INDEXED_IDENTIFIER none,
       .start .INDEX_OPERATOR none, .token .L_BRACK 1, .start .EXPRESSION_LIST none,
       .start .TOMBSTONE none, .start .TOMBSTONE (some 1), .start .LITERAL none,
       .token .INT_NUMBER 1, .finish, .finish, .token .R_BRACK 1, .finish, .finish,
       .token .SEMICOLON 1, .finish] := by
  accept [h0, h1, h2, h3, h4, h5, h6, currentOp_follow s k 7 hk hf]

/-- `x = a[0:1];` -/
theorem accept_assign_range_rhs (fuel : Nat) (s : P) (hr : Ready s)
    (h0 : s.kindAt (s.pos + 0) = .IDENT) (h1 : s.kindAt (s.pos + 1) = .EQ) (h2 : s.kindAt (s.pos + 2) = .IDENT) (h3 : s.kindAt (s.pos + 3) = .L_BRACK) (h4 : s.kindAt (s.pos + 4) = .INT_NUMBER) (h5 : s.kindAt (s.pos + 5) = .COLON) (h6 : s.kindAt (s.pos + 6) = .INT_NUMBER) (h7 : s.kindAt (s.pos + 7) = .R_BRACK) (h8 : s.kindAt (s.pos + 8) = .SEMICOLON) (k : SyntaxKind) (hk : s.kindAt (s.pos + 9) = k) (hf : opFirst k = false) :
    Accepts (stmt (fuel + 40)) s 9
      [.start .TOMBSTONE (some 1), .start .IDENTIFIER (some 3), .token .IDENT 1, .finish,
       .start .ASSIGNMENT_STMT none, .token .EQ 1, .start .TOMBSTONE (some 4),
       .start .IDENTIFIER (some 3), .token .IDENT 1, .finish, .start .INDEXED_IDENTIFIER none,
       .start .INDEX_OPERATOR none, .token .L_BRACK 1, .start .EXPRESSION_LIST none,
       .start .RANGE_EXPR none, .start .TOMBSTONE (some 1), .start .LITERAL none,
       .token .INT_NUMBER 1, .finish, .token .COLON 1, .start .TOMBSTONE (some 1),
       .start .LITERAL none, .token .INT_NUMBER 1, .finish, .finish, .finish, .token .R_BRACK 1,
       .finish, .finish, .token .SEMICOLON 1, .finish] := by
  accept [h0, h1, h2, h3, h4, h5, h6, h7, h8, currentOp_follow s k 9 hk hf]

/-- `a + b;` -/
theorem accept_expr_stmt_sum (fuel : Nat) (s : P) (hr : Ready s)
    (h0 : s.kindAt (s.pos + 0) = .IDENT) (h1 : s.kindAt (s.pos + 1) = .PLUS) (h2 : s.kindAt (s.pos + 2) = .IDENT) (h3 : s.kindAt (s.pos + 3) = .SEMICOLON) :
    Accepts (stmt (fuel + 40)) s 4
      [.start .TOMBSTONE (some 1), .start .IDENTIFIER (some 3), .token .IDENT 1, .finish,
       .start .BIN_EXPR (some 7), .token .PLUS 1, .start .TOMBSTONE (some 1),
       .start .IDENTIFIER none, .token .IDENT 1, .finish, .finish, .start .EXPR_STMT none,
       .token .SEMICOLON 1, .finish] := by
  accept [h0, h1, h2, h3]

/-- `a * b + c;` -/
theorem accept_expr_stmt_prod_sum (fuel : Nat) (s : P) (hr : Ready s)
    (h0 : s.kindAt (s.pos + 0) = .IDENT) (h1 : s.kindAt (s.pos + 1) = .STAR) (h2 : s.kindAt (s.pos + 2) = .IDENT) (h3 : s.kindAt (s.pos + 3) = .PLUS) (h4 : s.kindAt (s.pos + 4) = .IDENT) (h5 : s.kindAt (s.pos + 5) = .SEMICOLON) :
    Accepts (stmt (fuel + 40)) s 6
      [.start .TOMBSTONE (some 1), .start .IDENTIFIER (some 3), .token .IDENT 1, .finish,
       .start .BIN_EXPR (some 7), .token .STAR 1, .start .TOMBSTONE (some 1),
       .start .IDENTIFIER none, .token .IDENT 1, .finish, .finish, .start .BIN_EXPR (some 7),
       .token .PLUS 1, .start .TOMBSTONE (some 1), .start .IDENTIFIER none, .token .IDENT 1,
       .finish, .finish, .start .EXPR_STMT none, .token .SEMICOLON 1, .finish] := by
  accept [h0, h1, h2, h3, h4, h5]

/-- `let a = q;` (as parsed by `stmt`: LET_STMT) -/
theorem accept_let (fuel : Nat) (s : P) (hr : Ready s)
    (h0 : s.kindAt (s.pos + 0) = .LET_KW) (h1 : s.kindAt (s.pos + 1) = .IDENT) (h2 : s.kindAt (s.pos + 2) = .EQ) (h3 : s.kindAt (s.pos + 3) = .IDENT) (h4 : s.kindAt (s.pos + 4) = .SEMICOLON) :
    Accepts (stmt (fuel + 40)) s 5
      [.start .LET_STMT none, .token .LET_KW 1, .token .IDENT 1, .token .EQ 1,
       .start .TOMBSTONE (some 1), .start .IDENTIFIER none, .token .IDENT 1, .finish,
       .token .SEMICOLON 1, .finish] := by
  accept [h0, h1, h2, h3, h4]

/-- `return x;` -/
theorem accept_return (fuel : Nat) (s : P) (hr : Ready s)
    (h0 : s.kindAt (s.pos + 0) = .RETURN_KW) (h1 : s.kindAt (s.pos + 1) = .IDENT) (h2 : s.kindAt (s.pos + 2) = .SEMICOLON) :
    Accepts (stmt (fuel + 40)) s 3
      [.start .TOMBSTONE (some 1), .start .RETURN_EXPR (some 7), .token .RETURN_KW 1,
       .start .TOMBSTONE (some 1), .start .IDENTIFIER none, .token .IDENT 1, .finish, .finish,
       .start .EXPR_STMT none, .token .SEMICOLON 1, .finish] := by
  accept [h0, h1, h2]

/-- `return;` -/
theorem accept_return_none (fuel : Nat) (s : P) (hr : Ready s)
    (h0 : s.kindAt (s.pos + 0) = .RETURN_KW) (h1 : s.kindAt (s.pos + 1) = .SEMICOLON) :
    Accepts (stmt (fuel + 40)) s 2
      [.start .TOMBSTONE (some 1), .start .RETURN_EXPR (some 3), .token .RETURN_KW 1, .finish,
       .start .EXPR_STMT none, .token .SEMICOLON 1, .finish] := by
  accept [h0, h1]

/-- `if (c) { }` -/
theorem accept_if_block (fuel : Nat) (s : P) (hr : Ready s)
    (h0 : s.kindAt (s.pos + 0) = .IF_KW) (h1 : s.kindAt (s.pos + 1) = .L_PAREN) (h2 : s.kindAt (s.pos + 2) = .IDENT) (h3 : s.kindAt (s.pos + 3) = .R_PAREN) (h4 : s.kindAt (s.pos + 4) = .L_CURLY) (h5 : s.kindAt (s.pos + 5) = .R_CURLY) (k : SyntaxKind) (hk : s.kindAt (s.pos + 6) = k) (hf : (k == .ELSE_KW) = false) :
    Accepts (stmt (fuel + 40)) s 6
      [.start .IF_STMT none, .token .IF_KW 1, .token .L_PAREN 1, .start .TOMBSTONE (some 1),
       .start .IDENTIFIER none, .token .IDENT 1, .finish, .token .R_PAREN 1,
       .start .BLOCK_EXPR none, .token .L_CURLY 1, .token .R_CURLY 1, .finish, .finish] := by
  accept [h0, h1, h2, h3, h4, h5, hk, hf]

/-- `if (c) x = y;` -/
theorem accept_if_stmt (fuel : Nat) (s : P) (hr : Ready s)
    (h0 : s.kindAt (s.pos + 0) = .IF_KW) (h1 : s.kindAt (s.pos + 1) = .L_PAREN) (h2 : s.kindAt (s.pos + 2) = .IDENT) (h3 : s.kindAt (s.pos + 3) = .R_PAREN) (h4 : s.kindAt (s.pos + 4) = .IDENT) (h5 : s.kindAt (s.pos + 5) = .EQ) (h6 : s.kindAt (s.pos + 6) = .IDENT) (h7 : s.kindAt (s.pos + 7) = .SEMICOLON) (k : SyntaxKind) (hk : s.kindAt (s.pos + 8) = k) (hf : (k == .ELSE_KW) = false) (hf2 : opFirst k = false) :
    Accepts (stmt (fuel + 40)) s 8
      [.start .IF_STMT none, .token .IF_KW 1, .token .L_PAREN 1, .start .TOMBSTONE (some 1),
       .start .IDENTIFIER none, .token .IDENT 1, .finish, .token .R_PAREN 1,
       .start .TOMBSTONE (some 1), .start .IDENTIFIER (some 3), .token .IDENT 1, .finish,
       .start .ASSIGNMENT_STMT none, .token .EQ 1, .start .TOMBSTONE (some 1),
       .start .IDENTIFIER none, .token .IDENT 1, .finish, .token .SEMICOLON 1, .finish, .finish] := by
  accept [h0, h1, h2, h3, h4, h5, h6, h7, hk, hf, currentOp_follow s k 8 hk hf2]

/-- `if (c) { } else { }` -/
theorem accept_if_else_block (fuel : Nat) (s : P) (hr : Ready s)
    (h0 : s.kindAt (s.pos + 0) = .IF_KW) (h1 : s.kindAt (s.pos + 1) = .L_PAREN) (h2 : s.kindAt (s.pos + 2) = .IDENT) (h3 : s.kindAt (s.pos + 3) = .R_PAREN) (h4 : s.kindAt (s.pos + 4) = .L_CURLY) (h5 : s.kindAt (s.pos + 5) = .R_CURLY) (h6 : s.kindAt (s.pos + 6) = .ELSE_KW) (h7 : s.kindAt (s.pos + 7) = .L_CURLY) (h8 : s.kindAt (s.pos + 8) = .R_CURLY) :
    Accepts (stmt (fuel + 40)) s 9
      [.start .IF_STMT none, .token .IF_KW 1, .token .L_PAREN 1, .start .TOMBSTONE (some 1),
       .start .IDENTIFIER none, .token .IDENT 1, .finish, .token .R_PAREN 1,
       .start .BLOCK_EXPR none, .token .L_CURLY 1, .token .R_CURLY 1, .finish, .token .ELSE_KW 1,
       .start .BLOCK_EXPR none, .token .L_CURLY 1, .token .R_CURLY 1, .finish, .finish] := by
  accept [h0, h1, h2, h3, h4, h5, h6, h7, h8]

/-- `if (c) h q;` -/
theorem accept_if_gate (fuel : Nat) (s : P) (hr : Ready s)
    (h0 : s.kindAt (s.pos + 0) = .IF_KW) (h1 : s.kindAt (s.pos + 1) = .L_PAREN) (h2 : s.kindAt (s.pos + 2) = .IDENT) (h3 : s.kindAt (s.pos + 3) = .R_PAREN) (h4 : s.kindAt (s.pos + 4) = .IDENT) (h5 : s.kindAt (s.pos + 5) = .IDENT) (h6 : s.kindAt (s.pos + 6) = .SEMICOLON) (k : SyntaxKind) (hk : s.kindAt (s.pos + 7) = k) (hf : (k == .ELSE_KW) = false) :
    Accepts (stmt (fuel + 40)) s 7
      [.start .IF_STMT none, .token .IF_KW 1, .token .L_PAREN 1, .start .TOMBSTONE (some 1),
       .start .IDENTIFIER none, .token .IDENT 1, .finish, .token .R_PAREN 1,
       .start .TOMBSTONE (some 1), .start .GATE_CALL_EXPR (some 10), .start .IDENTIFIER none,
       .token .IDENT 1, .finish, .start .QUBIT_LIST none, .start .IDENTIFIER none, .token .IDENT 1,
       .finish, .finish, .finish, .start .EXPR_STMT none, .token .SEMICOLON 1, .finish, .finish] := by
  accept [h0, h1, h2, h3, h4, h5, h6, hk, hf]

/-- `if (c) h q; else x q;` -/
theorem accept_if_else_gate (fuel : Nat) (s : P) (hr : Ready s)
    (h0 : s.kindAt (s.pos + 0) = .IF_KW) (h1 : s.kindAt (s.pos + 1) = .L_PAREN) (h2 : s.kindAt (s.pos + 2) = .IDENT) (h3 : s.kindAt (s.pos + 3) = .R_PAREN) (h4 : s.kindAt (s.pos + 4) = .IDENT) (h5 : s.kindAt (s.pos + 5) = .IDENT) (h6 : s.kindAt (s.pos + 6) = .SEMICOLON) (h7 : s.kindAt (s.pos + 7) = .ELSE_KW) (h8 : s.kindAt (s.pos + 8) = .IDENT) (h9 : s.kindAt (s.pos + 9) = .IDENT) (h10 : s.kindAt (s.pos + 10) = .SEMICOLON) :
    Accepts (stmt (fuel + 40)) s 11
      [.start .IF_STMT none, .token .IF_KW 1, .token .L_PAREN 1, .start .TOMBSTONE (some 1),
       .start .IDENTIFIER none, .token .IDENT 1, .finish, .token .R_PAREN 1,
       .start .TOMBSTONE (some 1), .start .GATE_CALL_EXPR (some 10), .start .IDENTIFIER none,
       .token .IDENT 1, .finish, .start .QUBIT_LIST none, .start .IDENTIFIER none, .token .IDENT 1,
       .finish, .finish, .finish, .start .EXPR_STMT none, .token .SEMICOLON 1, .finish,
       .token .ELSE_KW 1, .start .TOMBSTONE (some 1), .start .GATE_CALL_EXPR (some 10),
       .start .IDENTIFIER none, .token .IDENT 1, .finish, .start .QUBIT_LIST none,
       .start .IDENTIFIER none, .token .IDENT 1, .finish, .finish, .finish, .start .EXPR_STMT none,
       .token .SEMICOLON 1, .finish, .finish] := by
  accept [h0, h1, h2, h3, h4, h5, h6, h7, h8, h9, h10]

/-- `while (c) { }` -/
theorem accept_while_block (fuel : Nat) (s : P) (hr : Ready s)
    (h0 : s.kindAt (s.pos + 0) = .WHILE_KW) (h1 : s.kindAt (s.pos + 1) = .L_PAREN) (h2 : s.kindAt (s.pos + 2) = .IDENT) (h3 : s.kindAt (s.pos + 3) = .R_PAREN) (h4 : s.kindAt (s.pos + 4) = .L_CURLY) (h5 : s.kindAt (s.pos + 5) = .R_CURLY) :
    Accepts (stmt (fuel + 40)) s 6
      [.start .WHILE_STMT none, .token .WHILE_KW 1, .token .L_PAREN 1, .start .TOMBSTONE (some 1),
       .start .IDENTIFIER none, .token .IDENT 1, .finish, .token .R_PAREN 1,
       .start .BLOCK_EXPR none, .token .L_CURLY 1, .token .R_CURLY 1, .finish, .finish] := by
  accept [h0, h1, h2, h3, h4, h5]

/-- `while (c) break;` -/
theorem accept_while_break (fuel : Nat) (s : P) (hr : Ready s)
    (h0 : s.kindAt (s.pos + 0) = .WHILE_KW) (h1 : s.kindAt (s.pos + 1) = .L_PAREN) (h2 : s.kindAt (s.pos + 2) = .IDENT) (h3 : s.kindAt (s.pos + 3) = .R_PAREN) (h4 : s.kindAt (s.pos + 4) = .BREAK_KW) (h5 : s.kindAt (s.pos + 5) = .SEMICOLON) :
    Accepts (stmt (fuel + 40)) s 6
      [.start .WHILE_STMT none, .token .WHILE_KW 1, .token .L_PAREN 1, .start .TOMBSTONE (some 1),
       .start .IDENTIFIER none, .token .IDENT 1, .finish, .token .R_PAREN 1,
       .start .BREAK_STMT none, .token .BREAK_KW 1, .token .SEMICOLON 1, .finish, .finish] := by
  accept [h0, h1, h2, h3, h4, h5]

/-- `while (c) { x = y; }` -/
theorem accept_while_body (fuel : Nat) (s : P) (hr : Ready s)
    (h0 : s.kindAt (s.pos + 0) = .WHILE_KW) (h1 : s.kindAt (s.pos + 1) = .L_PAREN) (h2 : s.kindAt (s.pos + 2) = .IDENT) (h3 : s.kindAt (s.pos + 3) = .R_PAREN) (h4 : s.kindAt (s.pos + 4) = .L_CURLY) (h5 : s.kindAt (s.pos + 5) = .IDENT) (h6 : s.kindAt (s.pos + 6) = .EQ) (h7 : s.kindAt (s.pos + 7) = .IDENT) (h8 : s.kindAt (s.pos + 8) = .SEMICOLON) (h9 : s.kindAt (s.pos + 9) = .R_CURLY) :
    Accepts (stmt (fuel + 40)) s 10
      [.start .WHILE_STMT none, .token .WHILE_KW 1, .token .L_PAREN 1, .start .TOMBSTONE (some 1),
       .start .IDENTIFIER none, .token .IDENT 1, .finish, .token .R_PAREN 1,
       .start .BLOCK_EXPR none, .token .L_CURLY 1, .start .TOMBSTONE (some 1),
       .start .IDENTIFIER (some 3), .token .IDENT 1, .finish, .start .ASSIGNMENT_STMT none,
       .token .EQ 1, .start .TOMBSTONE (some 1), .start .IDENTIFIER none, .token .IDENT 1, .finish,
       .token .SEMICOLON 1, .finish, .token .R_CURLY 1, .finish, .finish] := by
  accept [h0, h1, h2, h3, h4, h5, h6, h7, h8, h9]

/-- `for int i in [0:3] { }` -/
theorem accept_for_range (fuel : Nat) (s : P) (hr : Ready s)
    (h0 : s.kindAt (s.pos + 0) = .FOR_KW) (h1 : s.kindAt (s.pos + 1) = .INT_TY) (h2 : s.kindAt (s.pos + 2) = .IDENT) (h3 : s.kindAt (s.pos + 3) = .IN_KW) (h4 : s.kindAt (s.pos + 4) = .L_BRACK) (h5 : s.kindAt (s.pos + 5) = .INT_NUMBER) (h6 : s.kindAt (s.pos + 6) = .COLON) (h7 : s.kindAt (s.pos + 7) = .INT_NUMBER) (h8 : s.kindAt (s.pos + 8) = .R_BRACK) (h9 : s.kindAt (s.pos + 9) = .L_CURLY) (h10 : s.kindAt (s.pos + 10) = .R_CURLY) :
    Accepts (stmt (fuel + 40)) s 11
      [.start .FOR_STMT none, .token .FOR_KW 1, .start .SCALAR_TYPE none, .token .INT_TY 1, .finish,
       .start .NAME none, .token .IDENT 1, .finish, .token .IN_KW 1, .start .FOR_ITERABLE none,
       .start .RANGE_EXPR none, .token .L_BRACK 1, .start .TOMBSTONE (some 1),
       .start .LITERAL none, .token .INT_NUMBER 1, .finish, .token .COLON 1,
       .start .TOMBSTONE (some 1), .start .LITERAL none, .token .INT_NUMBER 1, .finish,
       .token .R_BRACK 1, .finish, .finish, .start .BLOCK_EXPR none, .token .L_CURLY 1,
       .token .R_CURLY 1, .finish, .finish] := by
  accept [h0, h1, h2, h3, h4, h5, h6, h7, h8, h9, h10]

/-- `for int i in {1, 2} { }` -/
theorem accept_for_set (fuel : Nat) (s : P) (hr : Ready s)
    (h0 : s.kindAt (s.pos + 0) = .FOR_KW) (h1 : s.kindAt (s.pos + 1) = .INT_TY) (h2 : s.kindAt (s.pos + 2) = .IDENT) (h3 : s.kindAt (s.pos + 3) = .IN_KW) (h4 : s.kindAt (s.pos + 4) = .L_CURLY) (h5 : s.kindAt (s.pos + 5) = .INT_NUMBER) (h6 : s.kindAt (s.pos + 6) = .COMMA) (h7 : s.kindAt (s.pos + 7) = .INT_NUMBER) (h8 : s.kindAt (s.pos + 8) = .R_CURLY) (h9 : s.kindAt (s.pos + 9) = .L_CURLY) (h10 : s.kindAt (s.pos + 10) = .R_CURLY) :
    Accepts (stmt (fuel + 40)) s 11
      [.start .FOR_STMT none, .token .FOR_KW 1, .start .SCALAR_TYPE none, .token .INT_TY 1, .finish,
       .start .NAME none, .token .IDENT 1, .finish, .token .IN_KW 1, .start .FOR_ITERABLE none,
       .start .SET_EXPRESSION none, .token .L_CURLY 1, .start .EXPRESSION_LIST none,
       .start .TOMBSTONE none, .start .TOMBSTONE (some 1), .start .LITERAL none,
       .token .INT_NUMBER 1, .finish, .token .COMMA 1, .start .TOMBSTONE none,
       .start .TOMBSTONE (some 1), .start .LITERAL none, .token .INT_NUMBER 1, .finish, .finish,
       .token .R_CURLY 1, .finish, .finish, .start .BLOCK_EXPR none, .token .L_CURLY 1,
       .token .R_CURLY 1, .finish, .finish] := by
  accept [h0, h1, h2, h3, h4, h5, h6, h7, h8, h9, h10]

/-- `for int i in a { }` -/
theorem accept_for_ident (fuel : Nat) (s : P) (hr : Ready s)
    (h0 : s.kindAt (s.pos + 0) = .FOR_KW) (h1 : s.kindAt (s.pos + 1) = .INT_TY) (h2 : s.kindAt (s.pos + 2) = .IDENT) (h3 : s.kindAt (s.pos + 3) = .IN_KW) (h4 : s.kindAt (s.pos + 4) = .IDENT) (h5 : s.kindAt (s.pos + 5) = .L_CURLY) (h6 : s.kindAt (s.pos + 6) = .R_CURLY) :
    Accepts (stmt (fuel + 40)) s 7
      [.start .FOR_STMT none, .token .FOR_KW 1, .start .SCALAR_TYPE none, .token .INT_TY 1, .finish,
       .start .NAME none, .token .IDENT 1, .finish, .token .IN_KW 1, .start .FOR_ITERABLE none,
       .start .TOMBSTONE (some 1), .start .IDENTIFIER none, .token .IDENT 1, .finish, .finish,
       .start .BLOCK_EXPR none, .token .L_CURLY 1, .token .R_CURLY 1, .finish, .finish] := by
  accept [h0, h1, h2, h3, h4, h5, h6]

/-- `switch (x) { case 1 { } default { } }` -/
theorem accept_switch (fuel : Nat) (s : P) (hr : Ready s)
    (h0 : s.kindAt (s.pos + 0) = .SWITCH_KW) (h1 : s.kindAt (s.pos + 1) = .L_PAREN) (h2 : s.kindAt (s.pos + 2) = .IDENT) (h3 : s.kindAt (s.pos + 3) = .R_PAREN) (h4 : s.kindAt (s.pos + 4) = .L_CURLY) (h5 : s.kindAt (s.pos + 5) = .CASE_KW) (h6 : s.kindAt (s.pos + 6) = .INT_NUMBER) (h7 : s.kindAt (s.pos + 7) = .L_CURLY) (h8 : s.kindAt (s.pos + 8) = .R_CURLY) (h9 : s.kindAt (s.pos + 9) = .DEFAULT_KW) (h10 : s.kindAt (s.pos + 10) = .L_CURLY) (h11 : s.kindAt (s.pos + 11) = .R_CURLY) (h12 : s.kindAt (s.pos + 12) = .R_CURLY) :
    Accepts (stmt (fuel + 40)) s 13
      [.start .SWITCH_CASE_STMT none, .token .SWITCH_KW 1, .token .L_PAREN 1,
       .start .TOMBSTONE (some 1), .start .IDENTIFIER none, .token .IDENT 1, .finish,
       .token .R_PAREN 1, .token .L_CURLY 1, .start .CASE_EXPR none, .token .CASE_KW 1,
       .start .EXPRESSION_LIST none, .start .TOMBSTONE none, .start .TOMBSTONE (some 1),
       .start .LITERAL none, .token .INT_NUMBER 1, .finish, .finish, .start .BLOCK_EXPR none,
       .token .L_CURLY 1, .token .R_CURLY 1, .finish, .finish, .token .DEFAULT_KW 1,
       .start .BLOCK_EXPR none, .token .L_CURLY 1, .token .R_CURLY 1, .finish, .token .R_CURLY 1,
       .finish] := by
  accept [h0, h1, h2, h3, h4, h5, h6, h7, h8, h9, h10, h11, h12]

/-- `gate g q { }` -/
theorem accept_gate_def (fuel : Nat) (s : P) (hr : Ready s)
    (h0 : s.kindAt (s.pos + 0) = .GATE_KW) (h1 : s.kindAt (s.pos + 1) = .IDENT) (h2 : s.kindAt (s.pos + 2) = .IDENT) (h3 : s.kindAt (s.pos + 3) = .L_CURLY) (h4 : s.kindAt (s.pos + 4) = .R_CURLY) :
    Accepts (stmt (fuel + 40)) s 5
      [.start .GATE none, .token .GATE_KW 1, .start .NAME none, .token .IDENT 1, .finish,
       .start .PARAM_LIST none, .start .PARAM none, .token .IDENT 1, .finish, .finish,
       .start .BLOCK_EXPR none, .token .L_CURLY 1, .token .R_CURLY 1, .finish, .finish] := by
  accept [h0, h1, h2, h3, h4]

/-- `gate g(a) q, r { }` -/
theorem accept_gate_def_params (fuel : Nat) (s : P) (hr : Ready s)
    (h0 : s.kindAt (s.pos + 0) = .GATE_KW) (h1 : s.kindAt (s.pos + 1) = .IDENT) (h2 : s.kindAt (s.pos + 2) = .L_PAREN) (h3 : s.kindAt (s.pos + 3) = .IDENT) (h4 : s.kindAt (s.pos + 4) = .R_PAREN) (h5 : s.kindAt (s.pos + 5) = .IDENT) (h6 : s.kindAt (s.pos + 6) = .COMMA) (h7 : s.kindAt (s.pos + 7) = .IDENT) (h8 : s.kindAt (s.pos + 8) = .L_CURLY) (h9 : s.kindAt (s.pos + 9) = .R_CURLY) :
    Accepts (stmt (fuel + 40)) s 10
      [.start .GATE none, .token .GATE_KW 1, .start .NAME none, .token .IDENT 1, .finish,
       .start .PARAM_LIST none, .token .L_PAREN 1, .start .PARAM none, .token .IDENT 1, .finish,
       .token .R_PAREN 1, .finish, .start .PARAM_LIST none, .start .PARAM none, .token .IDENT 1,
       .finish, .token .COMMA 1, .start .PARAM none, .token .IDENT 1, .finish, .finish,
       .start .BLOCK_EXPR none, .token .L_CURLY 1, .token .R_CURLY 1, .finish, .finish] := by
  accept [h0, h1, h2, h3, h4, h5, h6, h7, h8, h9]

/-- `gate g q { h q; }` -/
theorem accept_gate_def_body (fuel : Nat) (s : P) (hr : Ready s)
    (h0 : s.kindAt (s.pos + 0) = .GATE_KW) (h1 : s.kindAt (s.pos + 1) = .IDENT) (h2 : s.kindAt (s.pos + 2) = .IDENT) (h3 : s.kindAt (s.pos + 3) = .L_CURLY) (h4 : s.kindAt (s.pos + 4) = .IDENT) (h5 : s.kindAt (s.pos + 5) = .IDENT) (h6 : s.kindAt (s.pos + 6) = .SEMICOLON) (h7 : s.kindAt (s.pos + 7) = .R_CURLY) :
    Accepts (stmt (fuel + 40)) s 8
      [.start .GATE none, .token .GATE_KW 1, .start .NAME none, .token .IDENT 1, .finish,
       .start .PARAM_LIST none, .start .PARAM none, .token .IDENT 1, .finish, .finish,
       .start .BLOCK_EXPR none, .token .L_CURLY 1, .start .TOMBSTONE (some 1),
       .start .GATE_CALL_EXPR (some 10), .start .IDENTIFIER none, .token .IDENT 1, .finish,
       .start .QUBIT_LIST none, .start .IDENTIFIER none, .token .IDENT 1, .finish, .finish,
       .finish, .start .EXPR_STMT none, .token .SEMICOLON 1, .finish, .token .R_CURLY 1, .finish,
       .finish] := by
  accept [h0, h1, h2, h3, h4, h5, h6, h7]

/-- `def f() { }` -/
theorem accept_def_empty (fuel : Nat) (s : P) (hr : Ready s)
    (h0 : s.kindAt (s.pos + 0) = .DEF_KW) (h1 : s.kindAt (s.pos + 1) = .IDENT) (h2 : s.kindAt (s.pos + 2) = .L_PAREN) (h3 : s.kindAt (s.pos + 3) = .R_PAREN) (h4 : s.kindAt (s.pos + 4) = .L_CURLY) (h5 : s.kindAt (s.pos + 5) = .R_CURLY) :
    Accepts (stmt (fuel + 40)) s 6
      [.start .DEF none, .token .DEF_KW 1, .start .NAME none, .token .IDENT 1, .finish,
       .start .TYPED_PARAM_LIST none, .token .L_PAREN 1, .token .R_PAREN 1, .finish,
       .start .BLOCK_EXPR none, .token .L_CURLY 1, .token .R_CURLY 1, .finish, .finish] := by
  accept [h0, h1, h2, h3, h4, h5]

/-- `def f(int x) { }` -/
theorem accept_def_param (fuel : Nat) (s : P) (hr : Ready s)
    (h0 : s.kindAt (s.pos + 0) = .DEF_KW) (h1 : s.kindAt (s.pos + 1) = .IDENT) (h2 : s.kindAt (s.pos + 2) = .L_PAREN) (h3 : s.kindAt (s.pos + 3) = .INT_TY) (h4 : s.kindAt (s.pos + 4) = .IDENT) (h5 : s.kindAt (s.pos + 5) = .R_PAREN) (h6 : s.kindAt (s.pos + 6) = .L_CURLY) (h7 : s.kindAt (s.pos + 7) = .R_CURLY) :
    Accepts (stmt (fuel + 40)) s 8
      [.start .DEF none, .token .DEF_KW 1, .start .NAME none, .token .IDENT 1, .finish,
       .start .TYPED_PARAM_LIST none, .token .L_PAREN 1, .start .TYPED_PARAM none,
       .start .SCALAR_TYPE none, .token .INT_TY 1, .finish, .start .NAME none, .token .IDENT 1,
       .finish, .finish, .token .R_PAREN 1, .finish, .start .BLOCK_EXPR none, .token .L_CURLY 1,
       .token .R_CURLY 1, .finish, .finish] := by
  accept [h0, h1, h2, h3, h4, h5, h6, h7]

/-- `def f(qubit q) { }` -/
theorem accept_def_qubit_param (fuel : Nat) (s : P) (hr : Ready s)
    (h0 : s.kindAt (s.pos + 0) = .DEF_KW) (h1 : s.kindAt (s.pos + 1) = .IDENT) (h2 : s.kindAt (s.pos + 2) = .L_PAREN) (h3 : s.kindAt (s.pos + 3) = .QUBIT_KW) (h4 : s.kindAt (s.pos + 4) = .IDENT) (h5 : s.kindAt (s.pos + 5) = .R_PAREN) (h6 : s.kindAt (s.pos + 6) = .L_CURLY) (h7 : s.kindAt (s.pos + 7) = .R_CURLY) :
    Accepts (stmt (fuel + 40)) s 8
      [.start .DEF none, .token .DEF_KW 1, .start .NAME none, .token .IDENT 1, .finish,
       .start .TYPED_PARAM_LIST none, .token .L_PAREN 1, .start .TYPED_PARAM none,
       .start .SCALAR_TYPE none, .token .QUBIT_KW 1, .finish, .start .NAME none, .token .IDENT 1,
       .finish, .finish, .token .R_PAREN 1, .finish, .start .BLOCK_EXPR none, .token .L_CURLY 1,
       .token .R_CURLY 1, .finish, .finish] := by
  accept [h0, h1, h2, h3, h4, h5, h6, h7]

/-- `{ }` -/
theorem accept_block (fuel : Nat) (s : P) (hr : Ready s)
    (h0 : s.kindAt (s.pos + 0) = .L_CURLY) (h1 : s.kindAt (s.pos + 1) = .R_CURLY) (k : SyntaxKind) (hk : s.kindAt (s.pos + 2) = k) (hf : (k == .R_CURLY) = false) (hf2 : k ≠ .SEMICOLON) :
    Accepts (stmt (fuel + 40)) s 2
      [.start .TOMBSTONE (some 1), .start .BLOCK_EXPR (some 4), .token .L_CURLY 1,
       .token .R_CURLY 1, .finish, .start .EXPR_STMT none, .finish] := by
  accept [h0, h1, hk, hf, hf2, beq_eq_false_iff_ne.mpr hf2]


/-! ## composition -/

theorem ov_ov (s : P) (E1 E2 : List Ev) (n1 n2 st1 sb1 lv1 st2 sb2 lv2 : Nat) (pr1 pr2 : List Nat) :
    (s.ov E1 n1 st1 sb1 lv1 pr1).ov E2 n2 st2 sb2 lv2 pr2 = s.ov (E1 ++ E2) (n1 + n2) st2 sb2 lv2 pr2 := by
  simp only [P.ov, Nat.add_assoc]
  congr 1
  apply Array.ext'
  simp

theorem Ready.ov {s : P} (hr : Ready s) (E : List Ev) (n sb : Nat) :
    Ready (s.ov E n 0 sb s.live s.protectedPos) := by
  refine ⟨hr.hook, ?_, ?_⟩
  · show 0 + 8 ≤ s.stepLimit
    have := hr.steps; omega
  · intro p hp
    have := hr.prot p hp
    show p < (s.events ++ E.toArray).size
    simp; omega

theorem kindAt_ov_shift (s : P) (E : List Ev) (n st sb lv : Nat) (pr : List Nat) (i j : Nat)
    (h : n + i = j) :
    (s.ov E n st sb lv pr).kindAt ((s.ov E n st sb lv pr).pos + i) = s.kindAt (s.pos + j) := by
  subst h
  show s.kindAt (s.pos + n + i) = _
  rw [Nat.add_assoc]

theorem errorFree_append (E1 E2 : List Ev) (h1 : errorFree E1 = true) (h2 : errorFree E2 = true) :
    errorFree (E1 ++ E2) = true := by
  induction E1 with
  | nil => exact h2
  | cons e es ih => cases e <;> simp_all [errorFree]

/-- **Accepted statements compose**: because every acceptance lemma holds for an arbitrary start
state and continuation, the second statement is accepted from the state the first one leaves. -/
theorem Accepts.seq {x y : G Unit} {s : P} {n1 n2 : Nat} {E1 E2 : List Ev} (h1 : Accepts x s n1 E1)
    (h2 : ∀ sb, Accepts y (s.ov E1 n1 0 sb s.live s.protectedPos) n2 E2) :
    Accepts (x >>= fun _ => y) s (n1 + n2) (E1 ++ E2) := by
  obtain ⟨e1, sb1, hx⟩ := h1
  obtain ⟨e2, sb2, hy⟩ := h2 sb1
  refine ⟨errorFree_append _ _ e1 e2, sb2, ?_⟩
  rw [G.bind_apply, hx]
  simp only
  rw [hy, ov_ov]
  rfl

/-- example: `qubit q; h q;` through two runs of `stmt`, from any ready state, before any
continuation -/
theorem accept_seq2_example (fuel : Nat) (s : P) (hr : Ready s)
    (h0 : s.kindAt (s.pos + 0) = .QUBIT_KW) (h1 : s.kindAt (s.pos + 1) = .IDENT)
    (h2 : s.kindAt (s.pos + 2) = .SEMICOLON) (h3 : s.kindAt (s.pos + 3) = .IDENT)
    (h4 : s.kindAt (s.pos + 4) = .IDENT) (h5 : s.kindAt (s.pos + 5) = .SEMICOLON) :
    Accepts (stmt (fuel + 40) >>= fun _ => stmt (fuel + 40)) s (3 + 3)
      ([.start .QUANTUM_DECLARATION_STATEMENT none, .start .QUBIT_TYPE none, .token .QUBIT_KW 1, .finish, .start .NAME none, .token .IDENT 1, .finish, .token .SEMICOLON 1, .finish] ++
       [.start .TOMBSTONE (some 1), .start .GATE_CALL_EXPR (some 10), .start .IDENTIFIER none, .token .IDENT 1, .finish, .start .QUBIT_LIST none, .start .IDENTIFIER none, .token .IDENT 1, .finish, .finish, .finish, .start .EXPR_STMT none, .token .SEMICOLON 1, .finish]) :=
  Accepts.seq (accept_qubit fuel s hr h0 h1 h2) (fun sb =>
    accept_gate_call fuel _ (Ready.ov hr _ _ _)
      ((kindAt_ov_shift s _ 3 _ _ _ _ 0 3 rfl).trans h3) ((kindAt_ov_shift s _ 3 _ _ _ _ 1 4 rfl).trans h4)
      ((kindAt_ov_shift s _ 3 _ _ _ _ 2 5 rfl).trans h5))

/-! ## top level: `item` on item-first statements -/

/-- an item-first statement other than `let` that `stmt` accepts is accepted by the top-level
dispatcher `item` as well, provided the next token is not `;` (the `Follow` condition of `item`,
`Props/C16.lean` (D2)) -/
theorem accepts_item_of_stmt (fuel : Nat) (s : P) (n : Nat) (E : List Ev)
    (h : Accepts (stmt (fuel + 1)) s n E)
    (hk : C16.itemFirst (s.kindAt s.pos) (s.kindAt (s.pos + 1)) = true)
    (hlet : s.kindAt s.pos ≠ .LET_KW) (hsemi : s.kindAt (s.pos + n) ≠ .SEMICOLON) :
    Accepts (item (fuel + 1) false) s n E := by
  obtain ⟨e1, sb, hx⟩ := h
  refine ⟨e1, sb, ?_⟩
  rw [C16.dispatch_equiv_partial fuel s hk hlet, G.bind_apply, hx]
  simp only
  unfold C16.semiCheck
  rw [G.bind_apply, at_ov _ _ _ _ _ _ _ .SEMICOLON (by decide)]
  have : (s.kindAt (s.pos + n) == SyntaxKind.SEMICOLON) = false := by simpa using hsemi
  simp only [this, Bool.false_eq_true, if_false]
  rfl

/-! ## valid constructs that the unchanged grammar rejects (witnesses) -/

/-- error messages of the model's parse of a token-kind sequence (no joint bits) -/
def errorsOf (ks : List SyntaxKind) : Option (List String) :=
  match parseSourceFile 200 ks.toArray (ks.map fun _ => false).toArray with
  | .ok (ev, _) => some (ev.toList.filterMap fun | .error m => some m | _ => none)
  | .error _ => none

/-- F06: `x = a + b;` — `=` has binding power 12, the right-hand side of the assignment stops at
`a`; the assignment then demands its `;` and `+ b` is attached to the assignment statement -/
theorem witness_assign_binary_rhs :
    errorsOf [.IDENT, .EQ, .IDENT, .PLUS, .IDENT, .SEMICOLON] = some ["expected SEMICOLON"] := by
  decide +kernel

/-- … while the same right-hand side is accepted in a declaration (`accept_decl_int_init_sum`)
and in parentheses (`accept_assign_paren_sum`) -/
theorem witness_assign_binary_rhs_contrast :
    errorsOf [.INT_TY, .IDENT, .EQ, .IDENT, .PLUS, .IDENT, .SEMICOLON] = some [] ∧
    errorsOf [.IDENT, .EQ, .L_PAREN, .IDENT, .PLUS, .IDENT, .R_PAREN, .SEMICOLON] = some [] := by
  decide +kernel

end Oq3.Props.C04
