/-
C05, event level — the grammar MODEL (`Oq3.Grammar.exprBp`, the literal model of `expr_bp` /
`lhs` / `atom_expr` / `tuple_expr` / `current_op`) nests binary and prefix expressions according to
the translated operator table, for expression trees of ARBITRARY depth.

Trees `Oq3.PrattEv.E`: identifier, integer literal, the 19 binary operators, the 3 prefix
operators, parentheses.  For every tree `t` that is canonical for the implementation's table at
level `bp` (`Oq3.Props.C05.Canon implTab bp t.toPratt` — the trees the abstract Pratt core rebuilds
from their own minimal-parenthesis print, `Oq3.Props.C05.impl_roundtrip`):

* `exprBp_roundtrip`: from ANY start state whose input at `s.pos` is `toks t` followed by a token
  satisfying the Follow condition, `exprBp fuel none r bp` succeeds, consumes exactly `toks t`,
  pushes exactly `evs t` (no `Error` event; forward-parent links are relative offsets, so `evs t` is
  position independent), leaves the marker bookkeeping as it found it, and returns the completed
  marker of the ROOT `Start`; for every `fuel ≥ 6 * size t`.
* `process_evs` / `exprBp_roundtrip_process`: `process` turns these events into the pre-order node
  sequence `nodes t` (BIN_EXPR / PREFIX_EXPR / PAREN_EXPR / IDENTIFIER / LITERAL with the operator
  tokens in place), and `nodes` is injective (`nodes_injective`): the CST of the model grammar has
  exactly the shape of `t`.
* `c05_events`: the abstract Pratt core of `Props/C05.lean` and the grammar model agree on every
  canonical tree — by theorem, not by test.

FOLLOW CONDITION, exactly what the grammar probes after the last token of the tree (position
`q = s.pos + (toks t).length`):
  1. `StopsAt s q bp`: `current_op` at `q` (a pure function of the input, `opF`, `currentOp_eq`) has
     binding power `< bp` — the token is not an operator of power ≥ `bp` (composite tokens included);
  2. `EndOK t k` for the kind `k` at `q`: `k ∉ {L_PAREN, L_BRACK}` (`postfix_expr` would parse a
     call / an index); if the tree ends in an identifier, `k ∉ {IDENT, HARDWAREIDENT}` (`atom_expr`
     would parse a gate call); if it ends in an integer literal, `k ≠ IDENT` (`literal` would parse a
     timing literal).
START STATE: the `oq3_verif` no-progress hook is off (`noProgressLimit = 0`), `steps ≤ stepLimit`
(one look-ahead `nth(1)` happens before the first `bump`), and the ghost list `protectedPos` only
mentions existing events (`Ready s` of `Lemmas/SymExec.lean` implies all three).
-/
import Oq3.Lemmas.PrattEvRun
import Oq3.Lemmas.PrattEvProcess
import Oq3.Props.C05

namespace Oq3.Props.C05Events
open Oq3.Gen Oq3.Parser Oq3.Grammar Oq3.PrattEv
open Oq3.Pratt (implTab)

/-! ### canonicity is the canonicity of the abstract core -/

theorem canonE_iff (t : E) (bp : Nat) : CanonE bp t ↔ Oq3.Props.C05.Canon implTab bp t.toPratt := by
  induction t generalizing bp with
  | id => simp [CanonE, E.toPratt, Oq3.Props.C05.Canon]
  | int => simp [CanonE, E.toPratt, Oq3.Props.C05.Canon]
  | paren e ih => simp only [CanonE, E.toPratt, Oq3.Props.C05.Canon, ih]
  | pre o e ih =>
    simp only [CanonE, E.toPratt, Oq3.Props.C05.Canon, ih, o.preOK_impl, true_and, Oq3.Pratt.prefixBp]
  | bin o l r ihl ihr =>
    simp only [CanonE, E.toPratt, Oq3.Props.C05.Canon, ihr, o.pow_impl, o.rbp_impl]
    cases l with
    | bin o' l' r' =>
      simp only [E.toPratt, o'.rbp_impl]
      rw [ihl]; rfl
    | id => simp only [E.toPratt]; rw [ihl]; rfl
    | int => simp only [E.toPratt]; rw [ihl]; rfl
    | pre o' e' => simp only [E.toPratt]; rw [ihl]; rfl
    | paren e' => simp only [E.toPratt]; rw [ihl]; rfl

/-! ### the round trip -/

def errorFree : List Ev → Bool
  | [] => true
  | .error _ :: _ => false
  | _ :: es => errorFree es

theorem errorFree_append (a b : List Ev) : errorFree (a ++ b) = (errorFree a && errorFree b) := by
  induction a with
  | nil => rfl
  | cons x xs ih => cases x <;> simp [errorFree, ih]

theorem body_errorFree (t : E) (fp : Option Nat) : errorFree (body t fp) = true := by
  induction t generalizing fp with
  | id => rfl
  | int => rfl
  | pre o e ih => simp [body, errorFree, errorFree_append, tombLink, ih]
  | paren e ih => simp [body, errorFree, errorFree_append, tombLink, ih]
  | bin o l r ihl ihr => simp [body, errorFree, errorFree_append, tombLink, ihl, ihr]

/-- the event encoding contains no `Error` event -/
theorem evs_errorFree (t : E) : errorFree (evs t) = true := by
  simp [evs, errorFree, tombLink, body_errorFree]

/-- **Event-level Pratt round trip for the grammar model.** -/
theorem exprBp_roundtrip (t : E) (bp : Nat) (r : Restrictions) (s : P) (fuel : Nat)
    (hnp : s.noProgressLimit = 0) (hst : s.steps ≤ s.stepLimit)
    (hpr : ∀ p ∈ s.protectedPos, p < s.events.size)
    (hc : Oq3.Props.C05.Canon implTab bp t.toPratt) (hbp : bp ≤ 255)
    (htk : Toks s s.pos (toks t))
    (hstop : StopsAt s (s.pos + (toks t).length) bp)
    (hend : EndOK t (s.kindAt (s.pos + (toks t).length)))
    (hfuel : 6 * size t ≤ fuel) :
    exprBp fuel none r bp s =
      .ok (some (⟨s.events.size + (rootOff t + 1), t.kind⟩, .notBlock),
        s.ov (evs t) (toks t).length 0 (sbOf t) s.live s.protectedPos) := by
  have hc' := (canonE_iff t bp).2 hc
  have hb := fuel_bound t
  have hn := need_ge t
  obtain ⟨g, rfl⟩ : ∃ g, fuel = (g + 1) + cF t := ⟨fuel - cF t - 1, by omega⟩
  exact exprBp_cps t bp (g + 1) r s _ _ hnp hst hpr
    ⟨htk, hend, rightStops_of_canon t bp s _ hc' hstop hbp⟩ hc' (by omega)
    (loop_stop s (evs t) (toks t).length 0 (sbOf t) s.live s.protectedPos g bp r _ hstop)

/-- the same, field by field: position, events, bookkeeping, returned marker -/
theorem exprBp_roundtrip_fields (t : E) (bp : Nat) (r : Restrictions) (s : P) (fuel : Nat)
    (hnp : s.noProgressLimit = 0) (hst : s.steps ≤ s.stepLimit)
    (hpr : ∀ p ∈ s.protectedPos, p < s.events.size)
    (hc : Oq3.Props.C05.Canon implTab bp t.toPratt) (hbp : bp ≤ 255)
    (htk : Toks s s.pos (toks t))
    (hstop : StopsAt s (s.pos + (toks t).length) bp)
    (hend : EndOK t (s.kindAt (s.pos + (toks t).length)))
    (hfuel : 6 * size t ≤ fuel) :
    ∃ cm s', exprBp fuel none r bp s = .ok (some (cm, .notBlock), s') ∧
      s'.pos = s.pos + (toks t).length ∧
      s'.events = s.events ++ (evs t).toArray ∧ errorFree (evs t) = true ∧
      s'.kinds = s.kinds ∧ s'.joint = s.joint ∧ s'.live = s.live ∧ s'.protectedPos = s.protectedPos ∧
      s'.steps = 0 ∧ s'.stepLimit = s.stepLimit ∧ s'.noProgressLimit = s.noProgressLimit ∧
      cm.kind = t.kind ∧ cm.pos = s.events.size + (rootOff t + 1) ∧
      s'.events[cm.pos]? = some (.start t.kind none) :=
  ⟨_, _, exprBp_roundtrip t bp r s fuel hnp hst hpr hc hbp htk hstop hend hfuel, rfl, rfl,
    evs_errorFree t, rfl, rfl, rfl, rfl, rfl, rfl, rfl, rfl, rfl, by
      show (s.events ++ (evs t).toArray)[s.events.size + (rootOff t + 1)]? = _
      rw [ov_get, evs_root]⟩

/-- from a `Ready` state (the hypothesis of the acceptance lemmas of `Props/C04.lean`) -/
theorem exprBp_roundtrip_ready (t : E) (bp : Nat) (r : Restrictions) (s : P) (fuel : Nat) (hr : Ready s)
    (hc : Oq3.Props.C05.Canon implTab bp t.toPratt) (hbp : bp ≤ 255)
    (htk : Toks s s.pos (toks t))
    (hstop : StopsAt s (s.pos + (toks t).length) bp)
    (hend : EndOK t (s.kindAt (s.pos + (toks t).length)))
    (hfuel : 6 * size t ≤ fuel) :
    exprBp fuel none r bp s =
      .ok (some (⟨s.events.size + (rootOff t + 1), t.kind⟩, .notBlock),
        s.ov (evs t) (toks t).length 0 (sbOf t) s.live s.protectedPos) :=
  exprBp_roundtrip t bp r s fuel hr.hook (by have := hr.steps; omega) hr.prot hc hbp htk hstop hend hfuel

/-- the entry point `expr` (initialisers, arguments, conditions, …): `expr_bp` at level 1 -/
theorem expr_roundtrip (t : E) (s : P) (fuel : Nat)
    (hnp : s.noProgressLimit = 0) (hst : s.steps ≤ s.stepLimit)
    (hpr : ∀ p ∈ s.protectedPos, p < s.events.size)
    (hc : Oq3.Props.C05.Canon implTab 1 t.toPratt)
    (htk : Toks s s.pos (toks t))
    (hstop : StopsAt s (s.pos + (toks t).length) 1)
    (hend : EndOK t (s.kindAt (s.pos + (toks t).length)))
    (hfuel : 6 * size t ≤ fuel) :
    expr (fuel + 1) s =
      .ok (some ⟨s.events.size + (rootOff t + 1), t.kind⟩,
        s.ov (evs t) (toks t).length 0 (sbOf t) s.live s.protectedPos) := by
  rw [expr.run_2, G.bind_apply,
    exprBp_roundtrip t 1 _ s fuel hnp hst hpr hc (by decide) htk hstop hend hfuel]
  rfl

/-! ### sufficient token-level Follow conditions -/

/-- a token that starts no operator of `current_op` stops every loop -/
theorem stopsAt_of_not_opFirst (s : P) (q bp : Nat) (h : startsOp (s.kindAt q) = false) (hbp : 1 ≤ bp) :
    StopsAt s q bp := by
  unfold StopsAt
  rw [opF_nonop _ _ _ h]
  exact hbp

/-- `;` `)` `,` `]` `}` `:` `{` and the end of the input start no operator -/
theorem not_opFirst_examples :
    [SyntaxKind.SEMICOLON, .R_PAREN, .COMMA, .R_BRACK, .R_CURLY, .COLON, .L_CURLY, .EOF].all
      (fun k => !startsOp k) = true := by decide

/-- an operator of the table that binds weaker than `bp`, followed by an operand, stops the loop -/
theorem stopsAt_of_weaker_op (o : BinOp) (s : P) (q bp : Nat) (h : Toks s q o.toks)
    (hn : operandFirst (s.kindAt (q + o.pieces.length)) = true) (hlt : o.pow < bp) : StopsAt s q bp := by
  unfold StopsAt
  rw [opF_binop o s q h hn]
  exact hlt

/-! ### the CST -/

/-- **the CST of the model grammar has the shape of the tree**: `process` on the events pushed by the
run of `exprBp` yields the pre-order node sequence of `t` -/
theorem exprBp_roundtrip_process (t : E) : process (evs t) = some (nodes t) := process_evs t

/-- the same in the compositional form: wherever the pushed segment `evs t` sits in the final event
list (`A` before it, `R` after it), the main loop of `process` walks over it, appends `nodes t` to its
output and continues with `R` untouched -/
theorem exprBp_roundtrip_process_segment (t : E) (n : Nat) (A R : List Ev) (out : List Step) :
    ∃ A' : List Ev, processGo (n + (evs t).length) A.length (A ++ (evs t ++ R)) out =
      processGo n A'.length (A' ++ R) (out ++ nodes t) :=
  goSeg_evs t n A R out

/-- run and CST together, from a state without events: the steps that `process` makes of the events
of the run are the node sequence of the tree -/
theorem exprBp_roundtrip_cst (t : E) (bp : Nat) (r : Restrictions) (s : P) (fuel : Nat)
    (hnp : s.noProgressLimit = 0) (hst : s.steps ≤ s.stepLimit)
    (hpr : ∀ p ∈ s.protectedPos, p < s.events.size) (hev : s.events = #[])
    (hc : Oq3.Props.C05.Canon implTab bp t.toPratt) (hbp : bp ≤ 255)
    (htk : Toks s s.pos (toks t))
    (hstop : StopsAt s (s.pos + (toks t).length) bp)
    (hend : EndOK t (s.kindAt (s.pos + (toks t).length)))
    (hfuel : 6 * size t ≤ fuel) :
    ∃ cm s', exprBp fuel none r bp s = .ok (some (cm, .notBlock), s') ∧
      process s'.events.toList = some (nodes t) := by
  refine ⟨_, _, exprBp_roundtrip t bp r s fuel hnp hst hpr hc hbp htk hstop hend hfuel, ?_⟩
  show process (s.events ++ (evs t).toArray).toList = _
  rw [hev]
  simp only [Array.toList_append, List.nil_append]
  exact process_evs t

/-- the node sequence determines the tree -/
theorem nodes_injective (t t' : E) (h : nodes t = nodes t') : t = t' := Oq3.PrattEv.nodes_injective t t' h

/-! ### the abstract Pratt core and the grammar model agree -/

/-- the parser input for a token of the abstract core: atoms are `IDENT` (atom 0) / `INT_NUMBER`,
an operator token is the list of its single-character pieces in the translated composite table
(`Oq3.Gen.Ops.compositeTable`), every piece but the last one joint with its successor -/
def conc : Oq3.Pratt.Tok → List (SyntaxKind × Bool)
  | .atom 0 => [(.IDENT, false)]
  | .atom _ => [(.INT_NUMBER, false)]
  | .op k => jointed ((compositePieces k).getD [k])
  | .pre k => [(k, false)]
  | .lp => [(.L_PAREN, false)]
  | .rp => [(.R_PAREN, false)]

theorem BinOp.pieces_table (o : BinOp) : (compositePieces o.kind).getD [o.kind] = o.pieces := by
  cases o <;> decide

/-- `toks t` is the print of the abstract tree, token by token -/
theorem toks_eq_print (t : E) : toks t = (Oq3.Pratt.print t.toPratt).flatMap conc := by
  induction t with
  | id => rfl
  | int => rfl
  | pre o e ih => simp only [toks, E.toPratt, Oq3.Pratt.print, List.flatMap_cons, conc, ih, List.cons_append, List.nil_append]
  | paren e ih =>
    simp only [toks, E.toPratt, Oq3.Pratt.print, List.flatMap_cons, List.flatMap_append, conc, ih, List.cons_append,
      List.nil_append, List.flatMap_nil, List.append_nil]
  | bin o l r ihl ihr =>
    simp only [toks, E.toPratt, Oq3.Pratt.print, List.flatMap_cons, List.flatMap_append, conc, ihl, ihr,
      BinOp.pieces_table, BinOp.toks]

/-- **C05 for the grammar model, tied to the abstract core.**  For every tree `t` that is canonical
for the implementation's table at level `bp`:
(1) the abstract Pratt core rebuilds `t.toPratt` from its print (`impl_roundtrip`);
(2) `toks t` is that print as parser input;
(3) the grammar model, run on `toks t` (+ Follow) from any admissible state, pushes exactly `evs t`,
    consumes exactly `toks t` and returns the root;
(4) `process` turns `evs t` into the node sequence `nodes t`, which determines `t`. -/
theorem c05_events (t : E) (bp : Nat) (hc : Oq3.Props.C05.Canon implTab bp t.toPratt) (hbp : bp ≤ 255) :
    (∀ rest, Oq3.Props.C05.Follow implTab bp rest →
      ∃ f, Oq3.Pratt.exprBp implTab f bp (Oq3.Pratt.print t.toPratt ++ rest) = some (t.toPratt, rest)) ∧
    toks t = (Oq3.Pratt.print t.toPratt).flatMap conc ∧
    (∀ (r : Restrictions) (s : P) (fuel : Nat), s.noProgressLimit = 0 → s.steps ≤ s.stepLimit →
      (∀ p ∈ s.protectedPos, p < s.events.size) → Toks s s.pos (toks t) →
      StopsAt s (s.pos + (toks t).length) bp → EndOK t (s.kindAt (s.pos + (toks t).length)) →
      6 * size t ≤ fuel →
      exprBp fuel none r bp s =
        .ok (some (⟨s.events.size + (rootOff t + 1), t.kind⟩, .notBlock),
          s.ov (evs t) (toks t).length 0 (sbOf t) s.live s.protectedPos)) ∧
    process (evs t) = some (nodes t) ∧ (∀ t', nodes t' = nodes t → t' = t) :=
  ⟨fun rest hf => Oq3.Props.C05.impl_roundtrip t.toPratt bp rest hc hf,
   toks_eq_print t,
   fun r s fuel hnp hst hpr htk hstop hend hfuel =>
     exprBp_roundtrip t bp r s fuel hnp hst hpr hc hbp htk hstop hend hfuel,
   process_evs t,
   fun t' h => Oq3.PrattEv.nodes_injective t' t h⟩

/-! ### non-vacuity: `a + 1 * (b) - -c ;` from the initial state -/

/-- `(a + (1 * (b))) - (-c)`, printed `a + 1 * (b) - -c` -/
def demo : E :=
  .bin .minus (.bin .plus .id (.bin .star .int (.paren .id))) (.pre .minus .id)

def demoState : P :=
  { kinds := #[.IDENT, .PLUS, .INT_NUMBER, .STAR, .L_PAREN, .IDENT, .R_PAREN, .MINUS, .MINUS, .IDENT, .SEMICOLON]
    joint := #[false, false, false, false, false, false, false, false, false, false, false] }

theorem demo_canon : Oq3.Props.C05.Canon implTab 1 demo.toPratt := by
  rw [← canonE_iff]
  simp [demo, CanonE, BinOp.pow]

/-- the instance of `exprBp_roundtrip` for `demo`; all hypotheses are closed facts -/
theorem demo_run (fuel : Nat) (h : 54 ≤ fuel) :
    exprBp fuel none { preferStmt := false } 1 demoState =
      .ok (some (⟨0 + (rootOff demo + 1), .BIN_EXPR⟩, .notBlock),
        demoState.ov (evs demo) 10 0 (sbOf demo) 0 []) :=
  exprBp_roundtrip demo 1 _ demoState fuel rfl (by decide) (by intro p hp; cases hp) demo_canon (by decide)
    (by simp [demo, toks, Toks, BinOp.toks, BinOp.pieces, jointed, PreOp.kind, demoState, P.kindAt])
    (stopsAt_of_not_opFirst _ _ _ (by decide) (by decide))
    ⟨by decide, by decide, by show _ ∧ _; exact ⟨by decide, by decide⟩⟩ h

end Oq3.Props.C05Events
