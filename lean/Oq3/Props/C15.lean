/-
C15 — well-formed lexemes are classified correctly regardless of neighbours and layout.

Classes, well-formedness `Lexeme.WF`, the side condition `Lexeme.follows` (= ¬`needsSep`) and the
list of EXCLUSIONS are in `Oq3/Ref/Lexeme.lean`.  Everything is for arbitrary `rest : List Char`
and arbitrary class functions `uc` satisfying `AsciiUC uc` (`Oq3/Lemmas/LexLocal.lean`: on ASCII,
XID_Start = letters and XID_Continue = letters/digits/`_`; no `is_whitespace` character is
XID_Start, XID_Continue or a non-ASCII emoji) — finite facts checked against the real tables at
run time.

(1) `locality` (= `local_word`, `local_hardware`, `local_int`, `local_radixInt`, `local_float`,
    `local_str`, `local_punct`, `local_pragma`, `local_annotation`, `local_dim`, `local_version`)
    and `local_trivia`: `advance_token` on `l.text ++ rest` returns exactly the token of `l`.
(2) `keyword_table`, `non_keyword_ident`, `keywords_ascii`, `asciiWord_wf`.
(3) `lexemes_roundtrip` (full: all classes including pragma, annotation and version lexemes),
    `lexemes_raw_tokens`, `tokenize_layoutK` (the same with an arbitrary continuation).
(4) `trivia_irrelevant`.
-/
import Oq3.Lemmas.LexLocal
import Oq3.Lemmas.Lexed
import Oq3.Props.C14

namespace Oq3.Props.C15
open Oq3.Lexer Oq3.Lexed Oq3.Gen Oq3.Ref Oq3.Lemmas.Lexer Oq3.Lemmas.Lexed Oq3.Lemmas.LexLocal

variable {uc : UC}

/-! ### from `advanceKind` to `advanceToken` -/

theorem posWithinToken_append (a rest : List Char) : posWithinToken (a ++ rest) rest = utf8Len a := by
  simp [posWithinToken, utf8Len_append]

/-- if the kind scanner, started after the first character of `c :: t ++ rest`, returns kind `k`
and stops at `rest`, then `advance_token` returns the token `(k, |c :: t|)` and stops at `rest` -/
theorem advanceToken_of_kind (hu : AsciiUC uc) (c : Char) (t rest : List Char) (k : TokenKind)
    (h1 : (advanceKind uc c (t ++ rest)).val = k) (h2 : (advanceKind uc c (t ++ rest)).rest = rest) :
    advanceToken uc (c :: t ++ rest) = ⟨k, utf8Len (c :: t), rest, true⟩ := by
  simp only [List.cons_append, advanceToken, h1, h2, advanceKind_ok uc (letters_ok hu)]
  rw [← List.cons_append, posWithinToken_append]

/-! ### word: identifiers, keywords, type names, `_` -/

theorem identOrUnknownPrefix_exact (prev : Char) (t rest : List Char)
    (ht : t.all (isIdContinue uc) = true)
    (hf : headSat (fun c => isIdContinue uc c || isNonAsciiEmoji uc c) rest = false) :
    (identOrUnknownPrefix uc prev (t ++ rest)).val = .ident ∧
    (identOrUnknownPrefix uc prev (t ++ rest)).rest = rest := by
  rw [headSat_or, Bool.or_eq_false_iff] at hf
  have he : isNonAsciiEmoji uc (first rest) = false := by
    cases rest with
    | nil => simp [isNonAsciiEmoji, isAscii]
    | cons c cs => simpa [headSat] using hf.2
  simp only [identOrUnknownPrefix, eatWhile_exact _ t rest ht hf.1, he]
  simp

theorem identOrUnknownPrefix_of_eatWhile (prev : Char) (s rest : List Char)
    (h : eatWhile (isIdContinue uc) s = rest) (he : isNonAsciiEmoji uc (first rest) = false) :
    (identOrUnknownPrefix uc prev s).val = .ident ∧ (identOrUnknownPrefix uc prev s).rest = rest := by
  simp [identOrUnknownPrefix, h, he]

theorem emoji_first_of_headSat {rest : List Char}
    (h : headSat (fun c => isNonAsciiEmoji uc c) rest = false) :
    isNonAsciiEmoji uc (first rest) = false := by
  cases rest with
  | nil => simp [isNonAsciiEmoji, isAscii]
  | cons c cs => simpa [headSat] using h

theorem ws_not_cont (hu : AsciiUC uc) {w : Char} (hw : isWhitespace w = true) :
    isIdContinue uc w = false := hu.ws_cont w ((isWhitespace_iff w).mp hw)

/-- `ident_or_unknown_prefix` when the identifier characters end at `rest`: an identifier, or
(if an emoji follows) an invalid identifier that also swallows the emoji run -/
theorem identOrUnknownPrefix_gen (prev : Char) (s rest : List Char)
    (h : eatWhile (isIdContinue uc) s = rest) :
    (identOrUnknownPrefix uc prev s).val =
      (if isNonAsciiEmoji uc (first rest) then .invalidIdent else .ident) ∧
    (identOrUnknownPrefix uc prev s).rest =
      (if isNonAsciiEmoji uc (first rest) then (fakeIdentOrUnknownPrefix uc rest).rest else rest) := by
  simp only [identOrUnknownPrefix, h]
  split <;> simp [fakeIdentOrUnknownPrefix]

/-- the kind scanner on an identifier-shaped word `c :: t` whose identifier characters end at
`rest` -/
theorem advanceKind_word_gen (hu : AsciiUC uc) (c : Char) (t rest : List Char)
    (hc : isIdStart uc c = true) (ht : t.all (isIdContinue uc) = true)
    (hp : c :: t ≠ pragmaWord) (hO : c :: t ≠ openqasmWord)
    (hf : headSat (isIdContinue uc) rest = false) :
    (advanceKind uc c (t ++ rest)).val =
      (if isNonAsciiEmoji uc (first rest) then .invalidIdent else .ident) ∧
    (advanceKind uc c (t ++ rest)).rest =
      (if isNonAsciiEmoji uc (first rest) then (fakeIdentOrUnknownPrefix uc rest).rest else rest) := by
  have hf : headSat (isIdContinue uc) rest = false ∧ True := ⟨hf, trivial⟩
  have hew : eatWhile (isIdContinue uc) (t ++ rest) = rest := eatWhile_exact _ t rest ht hf.1
  have h1 : (c == '/') = false := by simpa using idStart_ne_slash hu hc
  have h2 : isWhitespace c = false := idStart_not_ws hu hc
  simp only [advanceKind, h1, h2, Bool.false_eq_true, if_false]
  by_cases hcp : c = 'p'
  · subst hcp
    simp only [beq_self_eq_true, if_true, pragmaOrIdentOrUnknownPrefix]
    have hv : (havePragma 'p' (t ++ rest)).val = false := by
      cases hval : (havePragma 'p' (t ++ rest)).val with
      | false => rfl
      | true =>
        exfalso
        obtain ⟨w, tail, heq, hw⟩ := havePragma_true hval
        have hpre : ['r', 'a', 'g', 'm', 'a'].all (isIdContinue uc) = true := by
          simp [cont_letter hu 'r' (by decide) (by decide), cont_letter hu 'a' (by decide) (by decide),
            cont_letter hu 'g' (by decide) (by decide), cont_letter hu 'm' (by decide) (by decide)]
        have := run_unique (isIdContinue uc) (rest' := w :: tail) ht hf.1 hpre
          (by simp [headSat, ws_not_cont hu hw]) (by simpa using heq)
        exact hp (by rw [this.1]; rfl)
    simp only [hv, Bool.false_eq_true, if_false]
    exact identOrUnknownPrefix_gen _ _ _ (by rw [havePragma_false_eatWhile hu hv, hew])
  · by_cases hcO : c = 'O'
    · subst hcO
      have hne : ('O' == 'p') = false := by decide
      simp only [hne, Bool.false_eq_true, if_false, beq_self_eq_true, if_true]
      have hv : (haveOpenqasm 'O' (t ++ rest)).val = false := by
        cases hval : (haveOpenqasm 'O' (t ++ rest)).val with
        | false => rfl
        | true =>
          exfalso
          obtain ⟨w, tail, heq, hw, _⟩ := haveOpenqasm_true hval
          have hpre : ['P', 'E', 'N', 'Q', 'A', 'S', 'M'].all (isIdContinue uc) = true := by
            simp [cont_letter hu 'P' (by decide) (by decide), cont_letter hu 'E' (by decide) (by decide),
              cont_letter hu 'N' (by decide) (by decide), cont_letter hu 'Q' (by decide) (by decide),
              cont_letter hu 'A' (by decide) (by decide), cont_letter hu 'S' (by decide) (by decide),
              cont_letter hu 'M' (by decide) (by decide)]
          have := run_unique (isIdContinue uc) (rest' := w :: tail) ht hf.1 hpre
            (by simp [headSat, ws_not_cont hu hw]) (by simpa using heq)
          exact hO (by rw [this.1]; rfl)
      simp only [hv, Bool.false_eq_true, if_false]
      exact identOrUnknownPrefix_gen _ _ _ (by rw [haveOpenqasm_eatWhile hu, hew])
    · have h3 : (c == 'p') = false := by simpa using hcp
      have h4 : (c == 'O') = false := by simpa using hcO
      simp only [h3, h4, hc, Bool.false_eq_true, if_false, if_true]
      exact identOrUnknownPrefix_gen _ _ _ hew

/-- the kind scanner on a well-formed word followed by an admissible rest -/
theorem advanceKind_word (hu : AsciiUC uc) (c : Char) (t rest : List Char)
    (hc : isIdStart uc c = true) (ht : t.all (isIdContinue uc) = true)
    (hp : c :: t ≠ pragmaWord) (hO : c :: t ≠ openqasmWord)
    (hf : headSat (fun c => isIdContinue uc c || isNonAsciiEmoji uc c) rest = false) :
    (advanceKind uc c (t ++ rest)).val = .ident ∧ (advanceKind uc c (t ++ rest)).rest = rest := by
  rw [headSat_or, Bool.or_eq_false_iff] at hf
  have he := emoji_first_of_headSat hf.2
  have := advanceKind_word_gen hu c t rest hc ht hp hO hf.1
  simpa [he] using this

/-- (1) locality, class `word` -/
theorem local_word (hu : AsciiUC uc) (s rest : List Char) (hwf : (Lexeme.word s).WF uc = true)
    (hf : (Lexeme.word s).follows uc rest = true) :
    advanceToken uc ((Lexeme.word s).text ++ rest) = ⟨.ident, utf8Len s, rest, true⟩ := by
  cases s with
  | nil => simp [Lexeme.WF] at hwf
  | cons c t =>
    simp only [Lexeme.WF, Bool.and_eq_true, bne_iff_ne, ne_eq] at hwf
    simp only [Lexeme.follows, Bool.not_eq_true'] at hf
    obtain ⟨k, r⟩ := advanceKind_word hu c t rest hwf.1.1.1 hwf.1.1.2 hwf.1.2 hwf.2 hf
    exact advanceToken_of_kind hu c t rest .ident k r

/-! ### hardware qubits -/

theorem idStart_false_of (hu : AsciiUC uc) (c : Char) (h : c.toNat < 128)
    (h2 : (c == '_' || isAsciiLetter c) = false) : isIdStart uc c = false := by
  rw [isIdStart_ascii hu (mem_asciiChars h)]; exact h2

theorem advanceKind_dollar (hu : AsciiUC uc) (cs : Cursor) :
    advanceKind uc '$' cs = hardwareIdent uc cs := by
  have hi := idStart_false_of hu '$' (by decide) (by decide)
  simp [advanceKind, hi, isWhitespace, isDecDigit]

theorem all_digitU_of_digits {ds : List Char} (h : ds.all isDecDigit = true) :
    ds.all isDigitU = true := by
  simp only [List.all_eq_true] at h ⊢
  intro c hc; simp [isDigitU, h c hc]

/-- (1) locality, class `hardware` -/
theorem local_hardware (hu : AsciiUC uc) (ds rest : List Char)
    (hwf : (Lexeme.hardware ds).WF uc = true) (hf : (Lexeme.hardware ds).follows uc rest = true) :
    advanceToken uc ((Lexeme.hardware ds).text ++ rest) =
      ⟨.hardwareIdent, utf8Len ('$' :: ds), rest, true⟩ := by
  simp only [Lexeme.WF, Bool.and_eq_true, Bool.not_eq_true', List.isEmpty_eq_false_iff] at hwf
  simp only [Lexeme.follows, Bool.not_eq_true'] at hf
  apply advanceToken_of_kind hu
  all_goals rw [advanceKind_dollar hu]
  all_goals
    cases ds with
    | nil => exact absurd rfl hwf.1
    | cons d ds' =>
      have hd : isDecDigit d = true := by
        have := hwf.2; simp only [List.all_cons, Bool.and_eq_true] at this; exact this.1
      have hed := eatDecimalDigits_exact (d :: ds') rest (all_digitU_of_digits hwf.2) hf
      rw [List.cons_append] at hed
      simp [hardwareIdent, digit_not_emoji hd, hed, hd]

/-! ### numbers -/

/-- from the literal scanner `number` to `advance_token` -/
theorem advanceToken_number (hu : AsciiUC uc) (c : Char) (t rest : List Char) (v : LiteralKind)
    (hc : isDecDigit c = true) (hv : (number c c (t ++ rest)).val = v)
    (hr : (number c c (t ++ rest)).rest = rest) (hs : Lexeme.suffixFree uc rest = true) :
    advanceToken uc (c :: t ++ rest) =
      ⟨.literal v (utf8Len (c :: t)), utf8Len (c :: t), rest, true⟩ := by
  have h := numericLiteral_exact (uc := uc) (c :: (t ++ rest)) (number c c (t ++ rest)) rest hr hs
  apply advanceToken_of_kind hu
  · rw [advanceKind_digit hu hc, h.1, hv, ← List.cons_append, posWithinToken_append]
  · rw [advanceKind_digit hu hc, h.2]

theorem split_follows_num {p : Char → Bool} {rest : List Char}
    (h : headSat (fun c => p c || c == '.') rest = false) :
    headSat p rest = false ∧ (first rest == '.') = false := by
  cases rest with
  | nil => exact ⟨rfl, by decide⟩
  | cons c cs => simpa [headSat] using h

/-- (1) locality, class `int` (decimal) -/
theorem local_int (hu : AsciiUC uc) (ds rest : List Char) (hwf : (Lexeme.int ds).WF uc = true)
    (hf : (Lexeme.int ds).follows uc rest = true) :
    advanceToken uc ((Lexeme.int ds).text ++ rest) =
      ⟨.literal (.int .decimal false) (utf8Len ds), utf8Len ds, rest, true⟩ := by
  simp only [Lexeme.WF] at hwf
  simp only [Lexeme.follows, Bool.and_eq_true, Bool.not_eq_true'] at hf
  obtain ⟨hall, _, hhead, hne⟩ := digitRun_all (fun _ h => h) hwf
  obtain ⟨hX, hdot⟩ := split_follows_num hf.1
  cases ds with
  | nil => exact absurd rfl hne
  | cons c t =>
    have hc : isDecDigit c = true := hhead
    simp only [List.all_cons, Bool.and_eq_true] at hall
    have hnum := number_decimal hc hall.2 hX (suffixFree_ne hu hf.2 (by simp))
      (suffixFree_ne hu hf.2 (by simp)) (suffixFree_ne hu hf.2 (by simp))
    rw [numberTail_int _ _ hdot (suffixFree_ne hu hf.2 (by simp)) (suffixFree_ne hu hf.2 (by simp))]
      at hnum
    exact advanceToken_number hu c t rest _ hc hnum.1 hnum.2 hf.2

theorem radix_digit_dec {r : Radix} (hr : r ≠ .hex) : ∀ c, r.digit c = true → isDecDigit c = true := by
  intro c h
  cases r with
  | bin =>
    simp only [Radix.digit, isBinDigit, Bool.or_eq_true, beq_iff_eq] at h
    rcases h with rfl | rfl <;> decide
  | oct =>
    simp only [Radix.digit, isOctDigit, Bool.and_eq_true, decide_eq_true_eq, char_le_iff] at h
    rw [isDecDigit_iff]
    have h1 : ('0' : Char).toNat = 48 := rfl
    have h2 : ('7' : Char).toNat = 55 := rfl
    omega
  | hex => exact absurd rfl hr

/-- (1) locality, class `radixInt` -/
theorem local_radixInt (hu : AsciiUC uc) (r : Radix) (ds rest : List Char)
    (hwf : (Lexeme.radixInt r ds).WF uc = true) (hf : (Lexeme.radixInt r ds).follows uc rest = true) :
    advanceToken uc ((Lexeme.radixInt r ds).text ++ rest) =
      ⟨.literal (.int r.base false) (utf8Len ('0' :: r.char :: ds)), utf8Len ('0' :: r.char :: ds),
        rest, true⟩ := by
  simp only [Lexeme.WF] at hwf
  have h0 : isDecDigit '0' = true := by decide
  by_cases hr : r = .hex
  · subst hr
    simp only [Lexeme.follows, Bool.and_eq_true, Bool.not_eq_true'] at hf
    obtain ⟨hX, hdot⟩ := split_follows_num hf.1
    have hall : ds.all isHexU = true := by
      simp only [digitRun, Bool.and_eq_true] at hwf
      exact hwf.1.2
    have hany : ds.any isHexDigit = true := by
      simp only [digitRun, Bool.and_eq_true] at hwf
      exact any_of_headSat (fun _ h => h) hwf.1.1
    have hxe : (first rest == 'e') = false ∧ (first rest == 'E') = false := by
      have := headSat_false_first (p := isHexU) hX (by decide)
      constructor
      · cases h : first rest == 'e' with
        | false => rfl
        | true => rw [beq_iff_eq.mp h] at this; exact absurd this (by decide)
      · cases h : first rest == 'E' with
        | false => rfl
        | true => rw [beq_iff_eq.mp h] at this; exact absurd this (by decide)
    have hed := eatHexadecimalDigitsLoop_exact ds rest hall hX false
    have hnum : (number '0' '0' (Radix.hex.char :: ds ++ rest)).val = .int .hexadecimal false ∧
        (number '0' '0' (Radix.hex.char :: ds ++ rest)).rest = rest := by
      simp [number, Radix.char, eatHexadecimalDigits, hed, hany,
        numberTail_int _ _ hdot hxe.1 hxe.2]
    exact advanceToken_number hu '0' (Radix.hex.char :: ds) rest _ h0 hnum.1 hnum.2 hf.2
  · have hf' : (!headSat (fun c => isDigitU c || c == '.') rest && Lexeme.suffixFree uc rest) = true := by
      cases r <;> first | exact hf | exact absurd rfl hr
    simp only [Bool.and_eq_true, Bool.not_eq_true'] at hf'
    obtain ⟨hX, hdot⟩ := split_follows_num hf'.1
    obtain ⟨hall, hany, _, _⟩ := digitRun_all (radix_digit_dec hr) hwf
    have hed := eatDecimalDigits_exact ds rest hall hX
    have he := suffixFree_ne hu hf'.2 (c := 'e') (by simp)
    have hE := suffixFree_ne hu hf'.2 (c := 'E') (by simp)
    have hnum : (number '0' '0' (r.char :: ds ++ rest)).val = .int r.base false ∧
        (number '0' '0' (r.char :: ds ++ rest)).rest = rest := by
      cases r with
      | bin => simp [number, Radix.char, Radix.base, hed, hany, numberTail_int _ _ hdot he hE]
      | oct => simp [number, Radix.char, Radix.base, hed, hany, numberTail_int _ _ hdot he hE]
      | hex => exact absurd rfl hr
    exact advanceToken_number hu '0' (r.char :: ds) rest _ h0 hnum.1 hnum.2 hf'.2

theorem float_text (ip : List Char) (fp : Option (List Char)) (ex : Option Exponent) :
    (Lexeme.float ip fp ex).text = ip ++ (fracText fp ++ exText ex) := by
  cases fp <;> cases ex <;> simp [Lexeme.text, fracText, exText]

theorem advanceKind_dot_digit (hu : AsciiUC uc) (cs : Cursor) (h : isDecDigit (first cs) = true) :
    advanceKind uc '.' cs = numericLiteral uc ('.' :: cs) (floatWithNoLeadingDigit cs) := by
  have hi := idStart_false_of hu '.' (by decide) (by decide)
  have hd : isDecDigit '.' = false := by decide
  simp [advanceKind, hi, isWhitespace, hd, h]

theorem float_tail_head (fp : Option (List Char)) (ex : Option Exponent) (rest : List Char)
    (hex : (match ex with | some e => e.WF | none => true) = true)
    (hsome : (fp.isSome || ex.isSome) = true) :
    headSat isDigitU (fracText fp ++ exText ex ++ rest) = false ∧
    (first (fracText fp ++ exText ex ++ rest) == 'b') = false ∧
    (first (fracText fp ++ exText ex ++ rest) == 'o') = false ∧
    (first (fracText fp ++ exText ex ++ rest) == 'x') = false := by
  cases fp with
  | some f => simp [fracText, headSat, isDigitU, isDecDigit]
  | none =>
    cases ex with
    | none => simp at hsome
    | some e =>
      simp only [Exponent.WF, Bool.and_eq_true, Bool.or_eq_true, beq_iff_eq] at hex
      simp only [fracText, exText, Exponent.text, List.nil_append, List.cons_append, headSat,
        first_cons]
      rcases hex.1.1 with h | h <;> (rw [h]; decide)

/-- (1) locality, class `float` -/
theorem local_float (hu : AsciiUC uc) (ip : List Char) (fp : Option (List Char))
    (ex : Option Exponent) (rest : List Char) (hwf : (Lexeme.float ip fp ex).WF uc = true)
    (hf : (Lexeme.float ip fp ex).follows uc rest = true) :
    advanceToken uc ((Lexeme.float ip fp ex).text ++ rest) =
      ⟨.literal (.float .decimal false) (utf8Len (Lexeme.float ip fp ex).text),
        utf8Len (Lexeme.float ip fp ex).text, rest, true⟩ := by
  simp only [Lexeme.WF, Bool.and_eq_true] at hwf
  obtain ⟨⟨⟨⟨⟨hip, hfp⟩, hex⟩, hneed⟩, hsome⟩, hdotexp⟩ := hwf
  simp only [Lexeme.follows, Bool.and_eq_true, Bool.not_eq_true'] at hf
  rw [float_text]
  cases ip with
  | nil =>
    -- `.5` shape
    cases fp with
    | none => simp at hneed
    | some f =>
      have hfne : f ≠ [] := by simpa using hneed
      have hrun : digitRun isDecDigit f = true := by
        cases f with
        | nil => exact absurd rfl hfne
        | cons d f' => simpa using hfp
      obtain ⟨hall, _, hhead, _⟩ := digitRun_all (fun _ h => h) hrun
      have hfd : isDecDigit (first (f ++ (exText ex ++ rest))) = true := by
        rw [first_append _ hfne]; exact first_of_headSat hhead
      have hed := eatDecimalDigits_exact f (exText ex ++ rest) hall (exText_head ex hex rest hf.1)
      have hoe := optExponent_exact hu ex hex rest hf.1 hf.2
      have hlit : (floatWithNoLeadingDigit (f ++ (exText ex ++ rest))).val = .float .decimal false ∧
          (floatWithNoLeadingDigit (f ++ (exText ex ++ rest))).rest = rest := by
        simp [floatWithNoLeadingDigit, hed, hoe.1, hoe.2]
      have h := numericLiteral_exact (uc := uc) ('.' :: (f ++ (exText ex ++ rest)))
        (floatWithNoLeadingDigit (f ++ (exText ex ++ rest))) rest hlit.2 hf.2
      have htext : [] ++ (fracText (some f) ++ exText ex) ++ rest = '.' :: (f ++ exText ex) ++ rest := by
        simp [fracText]
      rw [htext]
      apply advanceToken_of_kind hu
      · rw [List.append_assoc, advanceKind_dot_digit hu _ hfd, h.1, hlit.1]
        have : '.' :: (f ++ (exText ex ++ rest)) = ('.' :: (f ++ exText ex)) ++ rest := by simp
        rw [this, posWithinToken_append]
        simp [fracText]
      · rw [List.append_assoc, advanceKind_dot_digit hu _ hfd, h.2]
  | cons c t =>
    have hrun : digitRun isDecDigit (c :: t) = true := by simpa using hip
    obtain ⟨hall, _, hhead, _⟩ := digitRun_all (fun _ h => h) hrun
    have hc : isDecDigit c = true := hhead
    simp only [List.all_cons, Bool.and_eq_true] at hall
    obtain ⟨hX, hb, ho, hx⟩ := float_tail_head fp ex rest hex hsome
    have hnum := number_decimal hc hall.2 hX hb ho hx
    have htail := numberTail_float hu .decimal fp ex rest hfp hex hsome hdotexp hf.1 hf.2
    rw [htail.1, htail.2] at hnum
    have := advanceToken_number hu c (t ++ (fracText fp ++ exText ex)) rest (.float .decimal false) hc
      (by rw [List.append_assoc]; exact hnum.1)
      (by rw [List.append_assoc]; exact hnum.2) hf.2
    rw [List.cons_append]
    exact this

/-! ### strings and bit strings -/

theorem advanceKind_dquote (hu : AsciiUC uc) (cs : Cursor) :
    advanceKind uc '"' cs = stringLiteral uc ('"' :: cs) (doubleQuotedString '"' cs) := by
  have hi := idStart_false_of hu '"' (by decide) (by decide)
  have hd : isDecDigit '"' = false := by decide
  have ho : oneSymbol '"' = none := by decide
  simp [advanceKind, hi, isWhitespace, hd, ho]

theorem advanceKind_squote (hu : AsciiUC uc) (cs : Cursor) :
    advanceKind uc '\'' cs = stringLiteral uc ('\'' :: cs) (singleQuotedString '\'' cs) := by
  have hi := idStart_false_of hu '\'' (by decide) (by decide)
  have hd : isDecDigit '\'' = false := by decide
  have ho : oneSymbol '\'' = none := by decide
  simp [advanceKind, hi, isWhitespace, hd, ho]

/-- (1) locality, class `str` (strings and bit strings) -/
theorem local_str (hu : AsciiUC uc) (q : Char) (body rest : List Char)
    (hwf : (Lexeme.str q body).WF uc = true) (hf : (Lexeme.str q body).follows uc rest = true) :
    advanceToken uc ((Lexeme.str q body).text ++ rest) =
      ⟨(Lexeme.str q body).tokenKind, utf8Len (Lexeme.str q body).text, rest, true⟩ := by
  simp only [Lexeme.WF, Bool.and_eq_true, Bool.not_eq_true', Bool.or_eq_true, beq_iff_eq] at hwf
  obtain ⟨⟨hq, hbody⟩, hcons⟩ := hwf
  simp only [Lexeme.follows, Bool.not_eq_true'] at hf
  have hloop := quotedStringLoop_exact q body rest hbody StrState.init rfl
  have hsuf := eatIdentifier_noop hf
  have hkind : (if (StrState.init.onlyOnesAndZeros && body.all isBitChar) = true then
        LiteralKind.bitStr true
          (StrState.init.consecutiveUnderscores || hasConsecUnderscores (StrState.init.prevChar :: body))
      else LiteralKind.str true) =
      (if body.all isBitChar = true then LiteralKind.bitStr true false else LiteralKind.str true) := by
    cases hb : body.all isBitChar with
    | false => simp [StrState.init]
    | true =>
      have hc : hasConsecUnderscores body = false := by simpa [hb] using hcons
      have : hasConsecUnderscores ('\x00' :: body) = false := by
        cases body with
        | nil => exact hasConsec_single _
        | cons b l => rw [hasConsec_cons_cons, hc]; simp
      simp [StrState.init, this]
  have htext : (Lexeme.str q body).text ++ rest = q :: (body ++ [q]) ++ rest := rfl
  rw [htext]
  apply advanceToken_of_kind hu
  · rcases hq with rfl | rfl
    · rw [advanceKind_dquote hu]
      simp only [stringLiteral, doubleQuotedString, List.append_assoc, List.singleton_append, hloop,
        Lexeme.tokenKind, Lexeme.text, hkind, if_true, hsuf]
      have : '"' :: (body ++ '"' :: rest) = ('"' :: (body ++ ['"'])) ++ rest := by simp
      rw [this, posWithinToken_append]
    · rw [advanceKind_squote hu]
      simp only [stringLiteral, singleQuotedString, List.append_assoc, List.singleton_append, hloop,
        Lexeme.tokenKind, Lexeme.text, hkind, if_true, hsuf]
      have : '\'' :: (body ++ '\'' :: rest) = ('\'' :: (body ++ ['\''])) ++ rest := by simp
      rw [this, posWithinToken_append]
  · rcases hq with rfl | rfl
    · rw [advanceKind_dquote hu]
      simp [stringLiteral, doubleQuotedString, hloop, hsuf]
    · rw [advanceKind_squote hu]
      simp [stringLiteral, singleQuotedString, hloop, hsuf]

/-! ### punctuation -/

theorem punct_mem {c : Char} (h : (punctLookup c).isSome = true) : c ∈ punctTable.map (·.1) := by
  simp only [punctLookup, Option.isSome_map, List.find?_isSome] at h
  obtain ⟨x, hx, hxc⟩ := h
  rw [← beq_iff_eq.mp hxc]; exact List.mem_map_of_mem hx

theorem punct_chars_facts : ∀ c ∈ punctTable.map (·.1),
    c.toNat < 128 ∧ (c == '_' || isAsciiLetter c) = false ∧ isDecDigit c = false := by decide

set_option linter.unusedSimpArgs false in
/-- (1) locality, class `punct` (all 26 single-character tokens the lexer can produce) -/
theorem local_punct (hu : AsciiUC uc) (c : Char) (rest : List Char)
    (hwf : (Lexeme.punct c).WF uc = true) (hf : (Lexeme.punct c).follows uc rest = true) :
    advanceToken uc ((Lexeme.punct c).text ++ rest) =
      ⟨(Lexeme.punct c).tokenKind, utf8Len [c], rest, true⟩ := by
  have hm := punct_mem hwf
  have hi := idStart_false_of hu c (punct_chars_facts c hm).1 (punct_chars_facts c hm).2.1
  have hd := (punct_chars_facts c hm).2.2
  simp only [punctTable, List.map_cons, List.map_nil, List.mem_cons, List.not_mem_nil, or_false] at hm
  have key : (advanceKind uc c rest).val = (Lexeme.punct c).tokenKind →
      (advanceKind uc c rest).rest = rest →
      advanceToken uc ((Lexeme.punct c).text ++ rest) =
        ⟨(Lexeme.punct c).tokenKind, utf8Len [c], rest, true⟩ :=
    fun h1 h2 => advanceToken_of_kind hu c [] rest _ h1 h2
  apply key <;> clear key
  all_goals
    rcases hm with rfl | rfl | rfl | rfl | rfl | rfl | rfl | rfl | rfl | rfl | rfl | rfl | rfl |
      rfl | rfl | rfl | rfl | rfl | rfl | rfl | rfl | rfl | rfl | rfl | rfl | rfl
  all_goals
    simp only [Lexeme.follows] at hf
    try simp at hf
    first
      | (simp [advanceKind, isWhitespace, oneSymbol, Lexeme.tokenKind, punctLookup, punctTable, *]; done)
      | (have hed := eatDecimalDigits_exact [] rest rfl hf.2
         simp only [List.nil_append] at hed
         simp [advanceKind, isWhitespace, oneSymbol, Lexeme.tokenKind, punctLookup, punctTable,
           hardwareIdent, hed, *]; done)

/-! ### pragma lines, annotation lines, `#dim`, the version header -/

theorem line_end_headSat {rest : List Char} (h : Lexeme.atLineEnd rest = true) :
    headSat (fun c => c != '\n') rest = false := by
  cases rest with
  | nil => rfl
  | cons c cs => simp only [Lexeme.atLineEnd, beq_iff_eq] at h; simp [headSat, h]

theorem advanceKind_p (cs : Cursor) :
    advanceKind uc 'p' cs = pragmaOrIdentOrUnknownPrefix uc 'p' cs := by
  simp [advanceKind, isWhitespace]

theorem advanceKind_hash_p (hu : AsciiUC uc) (cs : Cursor) (b : Bool)
    (hb : (havePragma 'p' cs).val = b) :
    advanceKind uc '#' ('p' :: cs) =
      ⟨if b then .pragma else .invalidIdent, (havePragma 'p' cs).rest, true⟩ := by
  have hi := idStart_false_of hu '#' (by decide) (by decide)
  have hd : isDecDigit '#' = false := by decide
  cases b <;> simp [advanceKind, isWhitespace, hi, hd, hb]

theorem havePragma_line (prev w : Char) (t rest : List Char) (hw : isWhitespace w = true)
    (hwn : w ≠ '\n') (ht : t.all (fun c => c != '\n') = true) (hr : Lexeme.atLineEnd rest = true) :
    (havePragma prev ('r' :: 'a' :: 'g' :: 'm' :: 'a' :: w :: t ++ rest)).val = true ∧
    (havePragma prev ('r' :: 'a' :: 'g' :: 'm' :: 'a' :: w :: t ++ rest)).rest = rest := by
  have hall : (w :: t).all (fun c => c != '\n') = true := by simp [hwn, ht]
  have := eatWhile_exact (fun c => c != '\n') (w :: t) rest hall (line_end_headSat hr)
  rw [List.cons_append] at this
  simp [havePragma, hw, this]

/-- (1) locality, class `pragma` -/
theorem local_pragma (hu : AsciiUC uc) (hash : Bool) (body rest : List Char)
    (hwf : (Lexeme.pragma hash body).WF uc = true)
    (hf : (Lexeme.pragma hash body).follows uc rest = true) :
    advanceToken uc ((Lexeme.pragma hash body).text ++ rest) =
      ⟨.pragma, utf8Len (Lexeme.pragma hash body).text, rest, true⟩ := by
  cases body with
  | nil => simp [Lexeme.WF] at hwf
  | cons w t =>
    simp only [Lexeme.WF, Bool.and_eq_true, bne_iff_ne, ne_eq] at hwf
    simp only [Lexeme.follows] at hf
    have hp := havePragma_line 'p' w t rest hwf.1.1 hwf.1.2 hwf.2 hf
    simp only [List.cons_append] at hp
    cases hash with
    | false =>
      have ht : (Lexeme.pragma false (w :: t)).text = 'p' :: ('r' :: 'a' :: 'g' :: 'm' :: 'a' :: w :: t) := rfl
      rw [ht]
      apply advanceToken_of_kind hu
      · rw [advanceKind_p]; simp only [pragmaOrIdentOrUnknownPrefix]; simp [hp.1]
      · rw [advanceKind_p]; simp only [pragmaOrIdentOrUnknownPrefix]; simp [hp.1, hp.2]
    | true =>
      have ht : (Lexeme.pragma true (w :: t)).text =
          '#' :: ('p' :: 'r' :: 'a' :: 'g' :: 'm' :: 'a' :: w :: t) := rfl
      rw [ht]
      apply advanceToken_of_kind hu
      · simp only [List.cons_append]; rw [advanceKind_hash_p hu _ true hp.1]; rfl
      · simp only [List.cons_append]; rw [advanceKind_hash_p hu _ true hp.1]; exact hp.2

theorem advanceKind_at (hu : AsciiUC uc) (cs : Cursor) :
    advanceKind uc '@' cs =
      (if isIdStart uc (first cs) then ⟨.annotation, eatWhile (fun c => c != '\n') cs, true⟩
       else ⟨.at, cs, true⟩) := by
  have hi := idStart_false_of hu '@' (by decide) (by decide)
  have hd : isDecDigit '@' = false := by decide
  simp [advanceKind, isWhitespace, hi, hd]

/-- (1) locality, class `annotation` -/
theorem local_annotation (hu : AsciiUC uc) (body rest : List Char)
    (hwf : (Lexeme.annotation body).WF uc = true)
    (hf : (Lexeme.annotation body).follows uc rest = true) :
    advanceToken uc ((Lexeme.annotation body).text ++ rest) =
      ⟨.annotation, utf8Len ('@' :: body), rest, true⟩ := by
  simp only [Lexeme.WF, Bool.and_eq_true] at hwf
  simp only [Lexeme.follows] at hf
  have hne := ne_nil_of_headSat hwf.1
  have hfirst : isIdStart uc (first (body ++ rest)) = true := by
    rw [first_append _ hne]; exact first_of_headSat hwf.1
  have hew := eatWhile_exact (fun c => c != '\n') body rest hwf.2 (line_end_headSat hf)
  apply advanceToken_of_kind hu
  · rw [advanceKind_at hu]; simp [hfirst]
  · rw [advanceKind_at hu]; simp [hfirst, hew]

/-- (1) locality, class `dim` -/
theorem local_dim (hu : AsciiUC uc) (rest : List Char) :
    advanceToken uc (Lexeme.dim.text ++ rest) = ⟨.dim, utf8Len Lexeme.dim.text, rest, true⟩ := by
  have hi := idStart_false_of hu '#' (by decide) (by decide)
  have hd : isDecDigit '#' = false := by decide
  apply advanceToken_of_kind hu '#' ['d', 'i', 'm'] rest
  · simp [advanceKind, isWhitespace, hi, hd, haveDim]
  · simp [advanceKind, isWhitespace, hi, hd, haveDim]

theorem ws_char_facts : ∀ c ∈ wsChars,
    isDigitU c = false ∧ (c == '.') = false ∧ (c == ';') = false ∧ (c == '/') = false := by decide

/-- the text of the optional `.minor` -/
def minorText : Option (List Char) → List Char
  | some m => '.' :: m
  | none => []

theorem advanceKind_O (cs : Cursor) (h : (haveOpenqasm 'O' cs).val = true) :
    (advanceKind uc 'O' cs).val =
      .openQasmVersionStmt (openqasmVersion (eatWhile isWhitespace (haveOpenqasm 'O' cs).rest)).val.1
        (openqasmVersion (eatWhile isWhitespace (haveOpenqasm 'O' cs).rest)).val.2 ∧
    (advanceKind uc 'O' cs).rest =
      (openqasmVersion (eatWhile isWhitespace (haveOpenqasm 'O' cs).rest)).rest := by
  simp [advanceKind, isWhitespace, h]

/-- `openqasm_version` on `major[.minor]` followed by `;` or whitespace -/
theorem openqasmVersion_exact (major : List Char) (minor : Option (List Char)) (rest : List Char)
    (hmajne : major ≠ []) (hmaj : major.all isDecDigit = true)
    (hmin : (match minor with | some m => !m.isEmpty && m.all isDecDigit | none => true) = true)
    (hf : headSat (fun c => c == ';' || isWhitespace c) rest = true) :
    (openqasmVersion (major ++ (minorText minor ++ rest))).val = (true, true) ∧
    (openqasmVersion (major ++ (minorText minor ++ rest))).rest = rest := by
  have hrne := ne_nil_of_headSat hf
  have hrfirst := first_of_headSat hf
  have hr_ok : (first rest != ';' && !isWhitespace (first rest)) = false := by
    simp only [Bool.or_eq_true, beq_iff_eq] at hrfirst
    rcases hrfirst with h | h <;> simp [h]
  have hr_nd : headSat isDigitU rest = false ∧ (first rest == '.') = false := by
    cases rest with
    | nil => exact absurd rfl hrne
    | cons r rs =>
      simp only [headSat, Bool.or_eq_true, beq_iff_eq] at hf
      simp only [headSat, first_cons]
      rcases hf with h | h
      · subst h; decide
      · have := ws_char_facts r ((isWhitespace_iff r).mp h); exact ⟨this.1, this.2.1⟩
  have hmajany : major.any isDecDigit = true := by
    cases major with
    | nil => exact absurd rfl hmajne
    | cons d ds => simp only [List.all_cons, Bool.and_eq_true] at hmaj; simp [hmaj.1]
  have hXhead : headSat isDigitU (minorText minor ++ rest) = false := by
    cases minor with
    | some m => rfl
    | none => exact hr_nd.1
  have hed := eatDecimalDigits_exact major (minorText minor ++ rest) (all_digitU_of_digits hmaj) hXhead
  cases minor with
  | none =>
    simp only [minorText, List.nil_append] at hed ⊢
    simp [openqasmVersion, hed, hmajany, hr_nd.2, hr_ok]
  | some m =>
    simp only [Bool.and_eq_true, Bool.not_eq_true', List.isEmpty_eq_false_iff] at hmin
    have hmany : m.any isDecDigit = true := by
      cases m with
      | nil => exact absurd rfl hmin.1
      | cons d ds => have := hmin.2; simp only [List.all_cons, Bool.and_eq_true] at this; simp [this.1]
    have hed2 := eatDecimalDigits_exact m rest (all_digitU_of_digits hmin.2) hr_nd.1
    simp only [minorText, List.cons_append] at hed ⊢
    simp [openqasmVersion, hed, hmajany, hed2, hmany, hr_ok]

/-- (1) locality, class `version` -/
theorem local_version (hu : AsciiUC uc) (ws major : List Char) (minor : Option (List Char))
    (rest : List Char) (hwf : (Lexeme.version ws major minor).WF uc = true)
    (hf : (Lexeme.version ws major minor).follows uc rest = true) :
    advanceToken uc ((Lexeme.version ws major minor).text ++ rest) =
      ⟨.openQasmVersionStmt true true, utf8Len (Lexeme.version ws major minor).text, rest, true⟩ := by
  simp only [Lexeme.WF, Bool.and_eq_true] at hwf
  obtain ⟨⟨⟨⟨hwsne, hws⟩, hmajne⟩, hmaj⟩, hmin'⟩ := hwf
  simp only [Bool.not_eq_true', List.isEmpty_eq_false_iff] at hwsne hmajne
  simp only [Lexeme.follows] at hf
  have hver := openqasmVersion_exact major minor rest hmajne hmaj hmin' hf
  have hmajws : headSat isWhitespace (major ++ (minorText minor ++ rest)) = false := by
    cases major with
    | nil => exact absurd rfl hmajne
    | cons d ds =>
      simp only [List.all_cons, Bool.and_eq_true] at hmaj
      exact (digit_facts d (isDecDigit_mem hmaj.1)).2.1
  have hew := eatWhile_exact isWhitespace ws (major ++ (minorText minor ++ rest)) hws hmajws
  have htext : (Lexeme.version ws major minor).text ++ rest =
      'O' :: (['P', 'E', 'N', 'Q', 'A', 'S', 'M'] ++ ws ++ major ++ minorText minor) ++ rest := by
    cases minor <;> simp [Lexeme.text, openqasmWord, minorText]
  have hho : (haveOpenqasm 'O' (['P', 'E', 'N', 'Q', 'A', 'S', 'M'] ++ ws ++ major ++ minorText minor
        ++ rest)).val = true ∧
      (haveOpenqasm 'O' (['P', 'E', 'N', 'Q', 'A', 'S', 'M'] ++ ws ++ major ++ minorText minor
        ++ rest)).rest = ws ++ (major ++ (minorText minor ++ rest)) := by
    cases ws with
    | nil => exact absurd rfl hwsne
    | cons w ws' =>
      simp only [List.all_cons, Bool.and_eq_true] at hws
      simp [haveOpenqasm, hws.1]
  rw [htext]
  have hk := advanceKind_O (uc := uc) _ hho.1
  rw [hho.2, hew, hver.1, hver.2] at hk
  exact advanceToken_of_kind hu _ _ rest _ hk.1 hk.2

/-! ### trivia: whitespace, line comments, block comments -/

theorem advanceKind_slash (cs : Cursor) :
    advanceKind uc '/' cs =
      (if first cs == '/' then lineComment '/' cs
       else if first cs == '*' then blockComment '/' cs else ⟨.slash, cs, true⟩) := by
  simp [advanceKind]

/-- (1) locality of trivia -/
theorem local_trivia (hu : AsciiUC uc) (t : Trivia) (rest : List Char) (hwf : t.WF = true)
    (hf : t.follows rest = true) :
    advanceToken uc (t.text ++ rest) = ⟨t.tokenKind, utf8Len t.text, rest, true⟩ := by
  cases t with
  | ws s =>
    simp only [Trivia.WF, Bool.and_eq_true, Bool.not_eq_true', List.isEmpty_eq_false_iff] at hwf
    simp only [Trivia.follows, Bool.not_eq_true'] at hf
    cases s with
    | nil => exact absurd rfl hwf.1
    | cons w s' =>
      have hall := hwf.2
      simp only [List.all_cons, Bool.and_eq_true] at hall
      have hw := hall.1
      have hns : (w == '/') = false := (ws_char_facts w ((isWhitespace_iff w).mp hw)).2.2.2
      have hew := eatWhile_exact isWhitespace s' rest hall.2 hf
      apply advanceToken_of_kind hu w s' rest
      · simp [advanceKind, hns, hw, whitespace, Trivia.tokenKind]
      · simp [advanceKind, hns, hw, whitespace, hew]
  | line body =>
    simp only [Trivia.WF] at hwf
    simp only [Trivia.follows] at hf
    have hew := eatWhile_exact (fun c => c != '\n') body rest hwf (line_end_headSat hf)
    apply advanceToken_of_kind hu '/' ('/' :: body) rest
    · rw [advanceKind_slash]; simp [lineComment, Trivia.tokenKind]
    · rw [advanceKind_slash]; simp [lineComment, hew]
  | block body =>
    simp only [Trivia.WF] at hwf
    have hloop := blockCommentLoop_exact rest 0 body hwf true
    simp only [Nat.zero_add] at hloop
    apply advanceToken_of_kind hu '/' ('*' :: body) rest
    · rw [advanceKind_slash]
      simp only [List.cons_append, first_cons, blockComment, bump_cons]
      simp [Trivia.tokenKind, hloop.1]
    · rw [advanceKind_slash]
      simp only [List.cons_append, first_cons, blockComment, bump_cons]
      simp [hloop.2]

/-- **(1) Locality, all classes**: a well-formed lexeme followed by any `rest` that satisfies its
`follows` condition is lexed as one token of exactly its text, with its kind and no error flag,
and the lexer continues at `rest`. -/
theorem locality (hu : AsciiUC uc) (l : Lexeme) (rest : List Char) (hwf : l.WF uc = true)
    (hf : l.follows uc rest = true) :
    advanceToken uc (l.text ++ rest) = ⟨l.tokenKind, utf8Len l.text, rest, true⟩ := by
  cases l with
  | word s => exact local_word hu s rest hwf hf
  | hardware ds => exact local_hardware hu ds rest hwf hf
  | int ds => exact local_int hu ds rest hwf hf
  | radixInt r ds => exact local_radixInt hu r ds rest hwf hf
  | float ip fp ex => exact local_float hu ip fp ex rest hwf hf
  | str q body => exact local_str hu q body rest hwf hf
  | punct c => exact local_punct hu c rest hwf hf
  | pragma h body => exact local_pragma hu h body rest hwf hf
  | annotation body => exact local_annotation hu body rest hwf hf
  | dim => exact local_dim hu rest
  | version ws major minor => exact local_version hu ws major minor rest hwf hf

/-! ### (2) the keyword table -/

/-- the identifier arm of `inner_extend_token` is `wordKind` -/
theorem ident_kind (s : List Char) : (innerExtendToken .ident s).2.1 = Lexeme.wordKind s := by
  simp only [innerExtendToken, Lexeme.wordKind]; split <;> rfl

/-- all keywords map to their kinds through the identifier arm -/
theorem keyword_table :
    (∀ p ∈ SyntaxKind.keywordTable, (innerExtendToken .ident p.1).2.1 = p.2) ∧
    (∀ p ∈ SyntaxKind.scalarTypeTable, (innerExtendToken .ident p.1).2.1 = p.2) ∧
    SyntaxKind.keywordTable.length = 45 ∧ SyntaxKind.scalarTypeTable.length = 9 ∧
    (innerExtendToken .ident ['_']).2.1 = .UNDERSCORE := by
  refine ⟨?_, ?_, rfl, rfl, rfl⟩
  · simp only [ident_kind]; decide
  · simp only [ident_kind]; decide

/-- an identifier that is not in the tables is an `IDENT` -/
theorem non_keyword_ident (s : List Char) (h1 : SyntaxKind.fromKeyword s = none)
    (h2 : SyntaxKind.fromScalarType s = none) (h3 : s ≠ ['_']) :
    (innerExtendToken .ident s).2.1 = .IDENT := by
  rw [ident_kind]; simp [Lexeme.wordKind, h1, h2, h3]

/-- an ASCII word: letter or `_`, then letters, digits, `_` -/
def asciiWord : List Char → Bool
  | [] => false
  | c :: t => decide (c.toNat < 128) && (c == '_' || isAsciiLetter c) &&
      t.all (fun c => decide (c.toNat < 128) && (isAsciiLetter c || isDecDigit c || c == '_'))

/-- ASCII words other than `pragma` and `OPENQASM` are well-formed `word` lexemes -/
theorem asciiWord_wf (hu : AsciiUC uc) (s : List Char) (h : asciiWord s = true)
    (hp : s ≠ pragmaWord) (hO : s ≠ openqasmWord) : (Lexeme.word s).WF uc = true := by
  cases s with
  | nil => simp [asciiWord] at h
  | cons c t =>
    simp only [asciiWord, Bool.and_eq_true, decide_eq_true_eq, List.all_eq_true] at h
    simp only [Lexeme.WF, Bool.and_eq_true, bne_iff_ne, ne_eq, List.all_eq_true]
    refine ⟨⟨⟨?_, ?_⟩, hp⟩, hO⟩
    · rw [isIdStart_ascii hu (mem_asciiChars h.1.1)]; exact h.1.2
    · intro x hx
      exact cont_letter hu x (h.2 x hx).1 (h.2 x hx).2

/-- every keyword and type name is an ASCII word (so, except `pragma` and `OPENQASM`, a
well-formed `word` lexeme whose kind is given by `keyword_table`) -/
theorem keywords_ascii :
    (∀ p ∈ SyntaxKind.keywordTable, asciiWord p.1 = true) ∧
    (∀ p ∈ SyntaxKind.scalarTypeTable, asciiWord p.1 = true) := by
  constructor <;> decide

/-! ### (3) round trip of lexeme sequences -/

/-- a separator: a sequence of trivia lexemes -/
abbrev Sep := List Trivia

def sepText (s : Sep) : List Char := (s.map Trivia.text).flatten

/-- the text of lexemes, each followed by its separator -/
def itemsText : List (Lexeme × Sep) → List Char
  | [] => []
  | (l, s) :: r => l.text ++ (sepText s ++ itemsText r)

/-- separator `s`, followed by `rest`, is admissible: every trivia lexeme is well-formed and is
followed by something that cannot extend it -/
def sepOK : Sep → List Char → Bool
  | [], _ => true
  | t :: ts, rest => t.WF && t.follows (sepText ts ++ rest) && sepOK ts rest

/-- the layout is admissible: every lexeme is well-formed and what directly follows it (its
separator, or the next lexeme when the separator is empty) cannot extend it -/
def itemsOK (uc : UC) : List (Lexeme × Sep) → Bool
  | [] => true
  | (l, s) :: r =>
    l.WF uc && l.follows uc (sepText s ++ itemsText r) && sepOK s (itemsText r) && itemsOK uc r

/-- the token of a lexeme / of a trivia lexeme -/
def lexTok (l : Lexeme) : Token := ⟨l.tokenKind, utf8Len l.text, l.text, true⟩
def triviaTok (t : Trivia) : Token := ⟨t.tokenKind, utf8Len t.text, t.text, true⟩

theorem consumed_append_right (a rest : List Char) : consumed (a ++ rest) rest = a := by
  simp [consumed]

theorem tokenize_of_advance (a rest : List Char) (ha : a ≠ []) (k : TokenKind)
    (h : advanceToken uc (a ++ rest) = ⟨k, utf8Len a, rest, true⟩) :
    tokenize uc (a ++ rest) = ⟨k, utf8Len a, a, true⟩ :: tokenize uc rest := by
  cases a with
  | nil => exact absurd rfl ha
  | cons c cs =>
    rw [List.cons_append, C14.tokenize_step]
    rw [← List.cons_append, h]
    simp only [consumed_append_right]

theorem lexeme_text_ne_nil (l : Lexeme) (hwf : l.WF uc = true) : l.text ≠ [] := by
  cases l with
  | float ip fp ex =>
    cases ip with
    | cons c t => simp [Lexeme.text]
    | nil =>
      cases fp with
      | none => simp [Lexeme.WF] at hwf
      | some f => simp [Lexeme.text]
  | word s => intro h; simp only [Lexeme.text] at h; subst h; simp [Lexeme.WF] at hwf
  | int ds => intro h; simp only [Lexeme.text] at h; subst h; simp [Lexeme.WF, digitRun, headSat] at hwf
  | _ => simp [Lexeme.text, pragmaWord, openqasmWord]

theorem trivia_text_ne_nil (t : Trivia) (hwf : t.WF = true) : t.text ≠ [] := by
  cases t <;> simp [Trivia.text]
  intro h; subst h; simp [Trivia.WF] at hwf

theorem tokenize_sep (hu : AsciiUC uc) (s : Sep) (rest : List Char) (h : sepOK s rest = true) :
    tokenize uc (sepText s ++ rest) = s.map triviaTok ++ tokenize uc rest := by
  induction s with
  | nil => simp [sepText]
  | cons t ts ih =>
    simp only [sepOK, Bool.and_eq_true] at h
    have hloc := local_trivia hu t (sepText ts ++ rest) h.1.1 h.1.2
    have : sepText (t :: ts) ++ rest = t.text ++ (sepText ts ++ rest) := by simp [sepText]
    rw [this, tokenize_of_advance _ _ (trivia_text_ne_nil t h.1.1) _ hloc, ih h.2]
    simp [triviaTok]

/-- the token stream of an admissible layout: each lexeme is one token, followed by the trivia
tokens of its separator -/
theorem tokenize_items (hu : AsciiUC uc) (items : List (Lexeme × Sep)) (h : itemsOK uc items = true) :
    tokenize uc (itemsText items) =
      (items.map fun p => lexTok p.1 :: p.2.map triviaTok).flatten := by
  induction items with
  | nil => simp [itemsText, tokenize_nil]
  | cons p r ih =>
    obtain ⟨l, s⟩ := p
    simp only [itemsOK, Bool.and_eq_true] at h
    have hloc := locality hu l (sepText s ++ itemsText r) h.1.1.1 h.1.1.2
    simp only [itemsText]
    rw [tokenize_of_advance _ _ (lexeme_text_ne_nil l h.1.1.1) _ hloc, tokenize_sep hu s _ h.1.2,
      ih h.2]
    simp [lexTok]

/-! #### kinds and error flags of the tokens -/

theorem fromKeyword_dollar (ds : List Char) : SyntaxKind.fromKeyword ('$' :: ds) = none := by
  simp [SyntaxKind.fromKeyword, SyntaxKind.keywordTable]

theorem punct_entry {c : Char} (h : (punctLookup c).isSome = true) :
    innerExtendToken (Lexeme.punct c).tokenKind [c] = ("", (Lexeme.punct c).kind, utf8Len [c]) ∧
    (Lexeme.punct c).kind.isTrivia = false := by
  have hm := punct_mem h
  simp only [punctTable, List.map_cons, List.map_nil, List.mem_cons, List.not_mem_nil, or_false] at hm
  rcases hm with rfl | rfl | rfl | rfl | rfl | rfl | rfl | rfl | rfl | rfl | rfl | rfl | rfl |
    rfl | rfl | rfl | rfl | rfl | rfl | rfl | rfl | rfl | rfl | rfl | rfl | rfl <;> exact ⟨rfl, rfl⟩

theorem ident_err (s : List Char) : (innerExtendToken .ident s).1 = "" := by
  simp only [innerExtendToken]; split <;> rfl

/-- `inner_extend_token` on the token of a well-formed lexeme: its kind, no error -/
theorem lexTok_entry (l : Lexeme) (hwf : l.WF uc = true) :
    synKind (lexTok l) = l.kind ∧ errMsg (lexTok l) = "" := by
  cases l with
  | word s => exact ⟨ident_kind s, ident_err s⟩
  | hardware ds =>
    simp [synKind, errMsg, lexTok, Lexeme.tokenKind, Lexeme.text, Lexeme.kind, innerExtendToken,
      fromKeyword_dollar]
  | int ds => exact ⟨rfl, rfl⟩
  | radixInt r ds => exact ⟨rfl, rfl⟩
  | float ip fp ex => exact ⟨rfl, rfl⟩
  | str q body =>
    simp only [synKind, errMsg, lexTok, Lexeme.tokenKind, Lexeme.kind, innerExtendToken]
    split <;> exact ⟨rfl, rfl⟩
  | punct c =>
    have := (punct_entry (by simpa [Lexeme.WF] using hwf : (punctLookup c).isSome = true)).1
    simp only [synKind, errMsg, lexTok, Lexeme.text, this]
    exact ⟨trivial, trivial⟩
  | pragma h body => exact ⟨rfl, rfl⟩
  | annotation body => exact ⟨rfl, rfl⟩
  | dim => exact ⟨rfl, rfl⟩
  | version ws major minor => exact ⟨rfl, rfl⟩

theorem keyword_kinds_not_trivia :
    (∀ p ∈ SyntaxKind.keywordTable, p.2.isTrivia = false) ∧
    (∀ p ∈ SyntaxKind.scalarTypeTable, p.2.isTrivia = false) := by
  constructor <;> decide

theorem wordKind_not_trivia (s : List Char) : (Lexeme.wordKind s).isTrivia = false := by
  simp only [Lexeme.wordKind]
  split
  · rfl
  · cases hk : SyntaxKind.fromKeyword s with
    | some k =>
      simp only [SyntaxKind.fromKeyword, Option.map_eq_some_iff] at hk
      obtain ⟨p, hp, rfl⟩ := hk
      exact keyword_kinds_not_trivia.1 p (List.mem_of_find?_eq_some hp)
    | none =>
      cases ht : SyntaxKind.fromScalarType s with
      | some k =>
        simp only [SyntaxKind.fromScalarType, Option.map_eq_some_iff] at ht
        obtain ⟨p, hp, rfl⟩ := ht
        exact keyword_kinds_not_trivia.2 p (List.mem_of_find?_eq_some hp)
      | none => rfl

/-- the kind of a well-formed lexeme is never a trivia kind -/
theorem lexeme_kind_not_trivia (l : Lexeme) (hwf : l.WF uc = true) : l.kind.isTrivia = false := by
  cases l with
  | word s => exact wordKind_not_trivia s
  | str q body => simp only [Lexeme.kind]; split <;> rfl
  | punct c => exact (punct_entry (by simpa [Lexeme.WF] using hwf : (punctLookup c).isSome = true)).2
  | _ => rfl

theorem triviaTok_entry (t : Trivia) :
    (synKind (triviaTok t)).isTrivia = true ∧ errMsg (triviaTok t) = "" := by
  cases t <;> exact ⟨rfl, rfl⟩

/-! #### the theorems -/

/-- the token stream of a whole admissible text: leading separator, then the items -/
def layoutToks (lead : Sep) (items : List (Lexeme × Sep)) : List Token :=
  lead.map triviaTok ++ (items.map fun p => lexTok p.1 :: p.2.map triviaTok).flatten

theorem tokenize_layout (hu : AsciiUC uc) (lead : Sep) (items : List (Lexeme × Sep))
    (hlead : sepOK lead (itemsText items) = true) (hitems : itemsOK uc items = true) :
    tokenize uc (sepText lead ++ itemsText items) = layoutToks lead items := by
  rw [tokenize_sep hu lead _ hlead, tokenize_items hu items hitems]; rfl

theorem itemsOK_wf {items : List (Lexeme × Sep)} (h : itemsOK uc items = true) :
    ∀ p ∈ items, p.1.WF uc = true := by
  induction items with
  | nil => intro p hp; cases hp
  | cons q r ih =>
    obtain ⟨l, s⟩ := q
    simp only [itemsOK, Bool.and_eq_true] at h
    intro p hp
    rcases List.mem_cons.mp hp with rfl | hp
    · exact h.1.1.1
    · exact ih h.2 p hp

theorem filter_trivia_toks (s : Sep) :
    (s.map triviaTok).filter (fun t => !(synKind t).isTrivia) = [] := by
  induction s with
  | nil => rfl
  | cons t ts ih => simp [(triviaTok_entry t).1, ih]

theorem filter_layoutToks (lead : Sep) (items : List (Lexeme × Sep))
    (hwf : ∀ p ∈ items, p.1.WF uc = true) :
    (layoutToks lead items).filter (fun t => !(synKind t).isTrivia) = items.map fun p => lexTok p.1 := by
  simp only [layoutToks, List.filter_append, filter_trivia_toks, List.nil_append]
  induction items with
  | nil => rfl
  | cons p r ih =>
    have hp := hwf p (by simp)
    have hk : (synKind (lexTok p.1)).isTrivia = false := by
      rw [(lexTok_entry p.1 hp).1]; exact lexeme_kind_not_trivia p.1 hp
    simp only [List.map_cons, List.flatten_cons, List.filter_append, List.filter_cons, hk,
      Bool.not_false, if_true, filter_trivia_toks, List.nil_append, List.cons_append]
    rw [ih (fun q hq => hwf q (by simp [hq]))]

theorem layoutToks_no_error (lead : Sep) (items : List (Lexeme × Sep))
    (hwf : ∀ p ∈ items, p.1.WF uc = true) :
    ∀ t ∈ layoutToks lead items, (errMsg t).isEmpty = true := by
  intro t ht
  simp only [layoutToks, List.mem_append, List.mem_map, List.mem_flatten] at ht
  rcases ht with ⟨tr, _, rfl⟩ | ⟨ts, ⟨p, hp, rfl⟩, ht⟩
  · rw [(triviaTok_entry tr).2]; rfl
  · rcases List.mem_cons.mp ht with rfl | ht
    · rw [(lexTok_entry p.1 (hwf p hp)).2]; rfl
    · obtain ⟨tr, _, rfl⟩ := List.mem_map.mp ht
      rw [(triviaTok_entry tr).2]; rfl

/-- **(3) `lexemes_roundtrip`**: for every list of well-formed lexemes and every admissible
choice of separators (`sepOK`, `itemsOK`: a separator is required exactly where the next
character could extend the lexeme; after a lexeme that runs to the end of the line the next
character is a line break), `LexedStr::new` of the concatenated text returns normally, its
non-trivia entries are exactly the lexemes' `(kind, text)` in order, and there is no lexer error. -/
theorem lexemes_roundtrip (hu : AsciiUC uc) (lead : Sep) (items : List (Lexeme × Sep))
    (hlead : sepOK lead (itemsText items) = true) (hitems : itemsOK uc items = true) :
    ∃ l, LexedStr.new uc (sepText lead ++ itemsText items) = some l ∧
      nonTrivia l = items.map (fun p => (p.1.kind, p.1.text)) ∧ l.error = [] := by
  refine ⟨_, new_eq uc _, ?_, ?_⟩
  · rw [nonTrivia_lexedOf, tokenize_layout hu lead items hlead hitems,
      filter_layoutToks lead items (itemsOK_wf hitems), List.map_map]
    apply List.map_congr_left
    intro p hp
    simp only [Function.comp]
    rw [(lexTok_entry p.1 (itemsOK_wf hitems p hp)).1]; rfl
  · show specErrors 0 (tokenize uc _) = []
    rw [specErrors_nil_iff, tokenize_layout hu lead items hlead hitems]
    exact layoutToks_no_error lead items (itemsOK_wf hitems)

/-- the raw token stream of an admissible text, in full (trivia included): every lexeme and every
trivia lexeme is exactly one token with its own raw kind and text -/
theorem lexemes_raw_tokens (hu : AsciiUC uc) (lead : Sep) (items : List (Lexeme × Sep))
    (hlead : sepOK lead (itemsText items) = true) (hitems : itemsOK uc items = true) :
    tokenize uc (sepText lead ++ itemsText items) = layoutToks lead items :=
  tokenize_layout hu lead items hlead hitems

/-- **(4) `trivia_irrelevant`**: two admissible layouts of the same lexemes have the same
non-trivia kinds and texts, and `to_input` yields the same kinds (joint bits may differ). -/
theorem trivia_irrelevant (hu : AsciiUC uc) (lead₁ lead₂ : Sep) (items₁ items₂ : List (Lexeme × Sep))
    (hsame : items₁.map (·.1) = items₂.map (·.1))
    (h1 : sepOK lead₁ (itemsText items₁) = true) (h1' : itemsOK uc items₁ = true)
    (h2 : sepOK lead₂ (itemsText items₂) = true) (h2' : itemsOK uc items₂ = true) :
    ∃ l₁ l₂ i₁ i₂,
      LexedStr.new uc (sepText lead₁ ++ itemsText items₁) = some l₁ ∧
      LexedStr.new uc (sepText lead₂ ++ itemsText items₂) = some l₂ ∧
      nonTrivia l₁ = nonTrivia l₂ ∧ l₁.error = [] ∧ l₂.error = [] ∧
      l₁.toInput = some i₁ ∧ l₂.toInput = some i₂ ∧ i₁.kind = i₂.kind := by
  obtain ⟨l₁, hl₁, hn₁, he₁⟩ := lexemes_roundtrip hu lead₁ items₁ h1 h1'
  obtain ⟨l₂, hl₂, hn₂, he₂⟩ := lexemes_roundtrip hu lead₂ items₂ h2 h2'
  have hmap : ∀ items : List (Lexeme × Sep),
      items.map (fun p => (p.1.kind, p.1.text)) = (items.map (·.1)).map (fun l => (l.kind, l.text)) := by
    intro items; simp [List.map_map]
  have hk : ∀ (lead : Sep) (items : List (Lexeme × Sep)), sepOK lead (itemsText items) = true →
      itemsOK uc items = true →
      ((tokenize uc (sepText lead ++ itemsText items)).map synKind).filter (fun k => !k.isTrivia) =
        (items.map (·.1)).map (·.kind) := by
    intro lead items hl hi
    rw [tokenize_layout hu lead items hl hi]
    have := filter_layoutToks lead items (itemsOK_wf hi)
    rw [List.filter_map]
    have hcomp : ((fun k : SyntaxKind => !k.isTrivia) ∘ synKind) = (fun t => !(synKind t).isTrivia) := rfl
    rw [hcomp, this, List.map_map, List.map_map]
    apply List.map_congr_left
    intro p hp
    simp only [Function.comp]
    exact (lexTok_entry p.1 (itemsOK_wf hi p hp)).1
  obtain ⟨i₁, hi₁, hik₁⟩ := toInput_kinds uc (sepText lead₁ ++ itemsText items₁)
  obtain ⟨i₂, hi₂, hik₂⟩ := toInput_kinds uc (sepText lead₂ ++ itemsText items₂)
  have e1 : l₁ = lexedOf uc _ := C14.lexed_eq uc _ l₁ hl₁
  have e2 : l₂ = lexedOf uc _ := C14.lexed_eq uc _ l₂ hl₂
  refine ⟨l₁, l₂, i₁, i₂, hl₁, hl₂, ?_, he₁, he₂, by rw [e1]; exact hi₁, by rw [e2]; exact hi₂, ?_⟩
  · rw [hn₁, hn₂, hmap, hmap, hsame]
  · rw [hik₁, hik₂, hk lead₁ items₁ h1 h1', hk lead₂ items₂ h2 h2', hsame]

/-! ### layouts with a continuation (used by C11: a well-formed prefix, then anything) -/

/-- the text of lexemes with separators, followed by `k` -/
def itemsTextK : List (Lexeme × Sep) → List Char → List Char
  | [], k => k
  | (l, s) :: r, k => l.text ++ (sepText s ++ itemsTextK r k)

/-- admissibility of a layout that is followed by `k` -/
def itemsOKK (uc : UC) : List (Lexeme × Sep) → List Char → Bool
  | [], _ => true
  | (l, s) :: r, k =>
    l.WF uc && l.follows uc (sepText s ++ itemsTextK r k) && sepOK s (itemsTextK r k) &&
      itemsOKK uc r k

/-- an admissible well-formed prefix ends at a token boundary: the token stream of the whole
text is the prefix's tokens followed by the token stream of the continuation -/
theorem tokenize_layoutK (hu : AsciiUC uc) (lead : Sep) (items : List (Lexeme × Sep)) (k : List Char)
    (hlead : sepOK lead (itemsTextK items k) = true) (hitems : itemsOKK uc items k = true) :
    tokenize uc (sepText lead ++ itemsTextK items k) = layoutToks lead items ++ tokenize uc k := by
  have hitemsK : tokenize uc (itemsTextK items k) =
      (items.map fun p => lexTok p.1 :: p.2.map triviaTok).flatten ++ tokenize uc k := by
    clear hlead
    induction items with
    | nil => simp [itemsTextK]
    | cons p r ih =>
      obtain ⟨l, s⟩ := p
      simp only [itemsOKK, Bool.and_eq_true] at hitems
      have hloc := locality hu l (sepText s ++ itemsTextK r k) hitems.1.1.1 hitems.1.1.2
      simp only [itemsTextK]
      rw [tokenize_of_advance _ _ (lexeme_text_ne_nil l hitems.1.1.1) _ hloc,
        tokenize_sep hu s _ hitems.1.2, ih hitems.2]
      simp [lexTok]
  rw [tokenize_sep hu lead _ hlead, hitemsK, layoutToks, List.append_assoc]

theorem layout_text (lead : Sep) (items : List (Lexeme × Sep)) (k : List Char) :
    sepText lead ++ itemsTextK items k = (sepText lead ++ itemsTextK items []) ++ k := by
  have : ∀ items : List (Lexeme × Sep), itemsTextK items k = itemsTextK items [] ++ k := by
    intro items
    induction items with
    | nil => simp [itemsTextK]
    | cons p r ih => obtain ⟨l, s⟩ := p; simp [itemsTextK, ih]
  rw [this items, List.append_assoc]

/-! ### `needsSep` and `follows` -/

/-- `follows` looks at no more than the next two characters -/
theorem follows_append (l : Lexeme) (a b : Char) (t more : List Char) :
    l.follows uc (a :: b :: t ++ more) = l.follows uc (a :: b :: t) := by
  cases l with
  | radixInt r ds =>
    cases r <;> simp [Lexeme.follows, headSat, Lexeme.suffixFree, hasTimingOrImaginarySuffix, first, second]
  | _ => simp [Lexeme.follows, headSat, Lexeme.suffixFree, hasTimingOrImaginarySuffix, Lexeme.atLineEnd,
      first, second]

/-- when no separator is written between `l₁` and `l₂` (and `l₂` has at least two characters, or
is the last thing in the text), admissibility of the pair is exactly `¬ needsSep l₁ l₂` -/
theorem needsSep_spec (l₁ l₂ : Lexeme) (more : List Char)
    (h : 2 ≤ l₂.text.length ∨ more = []) :
    l₁.follows uc (l₂.text ++ more) = !Lexeme.needsSep uc l₁ l₂ := by
  simp only [Lexeme.needsSep, Bool.not_not]
  rcases h with h | h
  · match hl : l₂.text, h with
    | a :: b :: t, _ => exact follows_append l₁ a b t more
  · subst h; simp

/-! ### non-vacuity -/

theorem ucAscii_ok : AsciiUC C14.ucAscii := AsciiUC.of_check (by decide +kernel)

/-- `int x=0x1F;3ns // c⏎ pragma foo⏎ "01_1" .5e-3dt $12` as an admissible layout -/
example : itemsOK C14.ucAscii
    [(.word ['i', 'n', 't'], [.ws [' ']]), (.word ['x'], []), (.punct '=', []),
     (.radixInt .hex ['1', 'F'], []), (.punct ';', []), (.int ['3'], []), (.word ['n', 's'], [.ws [' '], .line [' ', 'c'], .ws ['\n', ' ']]),
     (.pragma false [' ', 'f', 'o', 'o'], [.ws ['\n']]), (.str '"' ['0', '1', '_', '1'], [.ws [' ']]),
     (.float [] (some ['5']) (some ⟨'e', some '-', ['3']⟩), []), (.word ['d', 't'], [.block [' ', '*', '/']]),
     (.hardware ['1', '2'], [])] = true := by decide

/-- two identifiers need a separator; a number and a unit do not; a number and `dta` do not
either (`6dta` is `6` then `dta`), a hexadecimal number and `dt` do -/
example : Lexeme.needsSep C14.ucAscii (.word ['a']) (.word ['b']) = true ∧
    Lexeme.needsSep C14.ucAscii (.int ['2']) (.word ['u', 's']) = false ∧
    Lexeme.needsSep C14.ucAscii (.int ['6']) (.word ['d', 't', 'a']) = false ∧
    Lexeme.needsSep C14.ucAscii (.radixInt .hex ['1', 'F']) (.word ['d', 't']) = true ∧
    Lexeme.needsSep C14.ucAscii (.radixInt .hex ['1', 'F']) (.word ['n', 's']) = false ∧
    Lexeme.needsSep C14.ucAscii (.punct '/') (.punct '*') = true ∧
    Lexeme.needsSep C14.ucAscii (.punct '=') (.punct '=') = false := by decide

end Oq3.Props.C15
