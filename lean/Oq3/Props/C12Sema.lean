/-
C12, semantic clause — every semantic diagnostic carries the range of a node of the analysed
file's typed AST.

`Ast.spans p` (`Props/C12SemaSpans.lean`) lists every range that occurs anywhere in the I5 tree of
`p`.  The invariant `ErrIn L x` ("on success `x` only appends diagnostics, each with a range of
`L`") holds for every function of the semantic model with `L ⊇` the ranges of the function's AST
argument(s): the non-recursive functions and the 25 functions of the mutual block are in the
generated `Props/C12SemaGen.lean` (`allErrIn`, induction on the fuel); this file adds the three
functions after the block and the property theorems.

* `errors_in_spans_*`: for every function of the block, AST, fuel and context — the diagnostics
  appended by a successful call have ranges of the argument's subtree.
* `semantic_error_ranges` (the property): `analyzeWith fuel p = .ok c →
  ∀ e ∈ c.semanticErrors, ⟨e.start, e.stop⟩ ∈ Ast.spans p`.  Only successful runs matter: a
  panicking run returns no diagnostics.
* `example_two_diagnostics`: a closed AST whose analysis succeeds with two diagnostics, both at
  ranges of the tree (non-vacuity).
-/
import Oq3.Props.C12SemaGen

namespace Oq3.Sema
open Oq3.Types Oq3.Symbols

theorem parseIncludedFiles_errIn {L : List Ast.Span} (l : List Ast.Stmt) :
    ErrIn L (parseIncludedFiles l) := by
  induction l with
  | nil => unfold parseIncludedFiles; errin
  | cons st rest ih =>
    cases st <;> (unfold parseIncludedFiles; repeat' (first | with_reducible exact ih | errin_step))

theorem syntaxToSemanticLoop_errIn {L : List Ast.Span} (fuel : Nat) (l : List Ast.Stmt)
    (hL : Ast.stmtsSpans l ⊆ L) : ErrIn L (syntaxToSemanticLoop fuel l) := by
  induction l generalizing fuel with
  | nil => cases fuel <;> (unfold syntaxToSemanticLoop; errin)
  | cons st rest ih =>
    have hst : st.spans ⊆ L := fun x hx => hL (by simp [Ast.stmtsSpans, hx])
    have hrest : Ast.stmtsSpans rest ⊆ L := fun x hx => hL (by simp [Ast.stmtsSpans, hx])
    cases fuel with
    | zero => unfold syntaxToSemanticLoop; errin
    | succ fuel =>
      have ihh := ih fuel hrest
      have hs := (allErrIn fuel).stmtToAsgStmt
      clear hL hrest ih
      unfold syntaxToSemanticLoop
      repeat' (first | with_reducible exact ihh
                     | (with_reducible apply hs; span_side)
                     | errin_step)

theorem syntaxToSemantic_errIn (fuel : Nat) (p : Ast.Program) :
    ErrIn (Ast.spans p) (syntaxToSemantic fuel p) := by
  have hl : Ast.stmtsSpans p.statements ⊆ Ast.spans p :=
    fun x hx => by simp [Ast.spans, hx]
  have h1 := syntaxToSemanticLoop_errIn (L := Ast.spans p) fuel p.statements hl
  have h2 := parseIncludedFiles_errIn (L := Ast.spans p) p.statements
  clear hl
  unfold syntaxToSemantic
  repeat' (first | with_reducible exact h1 | with_reducible exact h2 | errin_step)

end Oq3.Sema

namespace Oq3.Props.C12Sema
open Oq3 Oq3.Sema Oq3.Types Oq3.Symbols

/-- the range of a diagnostic -/
abbrev range (e : SemErr) : Ast.Span := ⟨e.start, e.stop⟩

/-- what `ErrIn` says about one successful run -/
theorem appended_in {L : List Ast.Span} {α} {x : M α} (h : ErrIn L x) (s : Ctx) (r : α × Ctx)
    (hr : x s = .ok r) :
    ∃ new, r.2.semanticErrors = s.semanticErrors ++ new ∧ ∀ e ∈ new, range e ∈ L :=
  h.run s r hr

/-- **statements**: the diagnostics appended by analysing a statement (any fuel, any context) carry
ranges of nodes of that statement -/
theorem errors_in_spans_stmt (fuel : Nat) (stmt : Ast.Stmt) (s : Ctx) (r : Option Stmt × Ctx)
    (h : stmtToAsgStmt fuel stmt s = .ok r) :
    ∃ new, r.2.semanticErrors = s.semanticErrors ++ new ∧ ∀ e ∈ new, range e ∈ stmt.spans :=
  appended_in ((allErrIn fuel).stmtToAsgStmt stmt stmt.spans (fun _ h => h)) s r h

/-- **expressions** -/
theorem errors_in_spans_expr (fuel : Nat) (e : Option Ast.Expr) (s : Ctx) (r : Option TExpr × Ctx)
    (h : exprToAsgTexpr fuel e s = .ok r) :
    ∃ new, r.2.semanticErrors = s.semanticErrors ++ new ∧
      ∀ d ∈ new, range d ∈ Ast.optExprSpans e :=
  appended_in ((allErrIn fuel).exprToAsgTexpr e _ (fun _ h => h)) s r h

/-- **every function of the mutual block** (one field per function, each for all supersets `L` of
the ranges of its arguments) -/
theorem errors_in_spans_all (fuel : Nat) : AllErrIn fuel := allErrIn fuel

/-- **C12, semantic clause**: after a successful analysis every semantic diagnostic has the range
of a node of the analysed program's typed AST -/
theorem semantic_error_ranges (fuel : Nat) (p : Ast.Program) (c : Ctx)
    (h : analyzeWith fuel p = .ok c) : ∀ e ∈ c.semanticErrors, range e ∈ Ast.spans p := by
  unfold analyzeWith at h
  split at h
  · rename_i u c' hrun
    simp only [Except.ok.injEq] at h; subst h
    obtain ⟨new, he, hm⟩ := (syntaxToSemantic_errIn fuel p).run {} (u, c') hrun
    intro e hmem
    have : e ∈ new := by
      have h0 : ({} : Ctx).semanticErrors = [] := rfl
      rw [he, h0, List.nil_append] at hmem
      exact hmem
    exact hm e this
  · simp at h

/-- the same with the default fuel -/
theorem semantic_error_ranges_default (p : Ast.Program) (c : Ctx) (h : analyze p = .ok c) :
    ∀ e ∈ c.semanticErrors, range e ∈ Ast.spans p :=
  semantic_error_ranges _ p c h

/-! ### non-vacuity -/

/-- `int x = y; z q;` — an undeclared initializer (plus the ensuing type diagnostic at the
statement), an undeclared operand (plus operand kind) and an undeclared gate -/
def example2 : Ast.Program := ⟨⟨0, 15⟩,
  [.classicalDeclarationStatement ⟨0, 10⟩ false (some (.mk ⟨0, 3⟩ .int none none)) false
     (some ⟨⟨4, 5⟩, "x"⟩) (some (.identifier ⟨⟨8, 9⟩, "y"⟩)),
   .exprStmt ⟨11, 15⟩ (some (.gateCallExpr (.mk ⟨11, 14⟩
     (some (.mk ⟨13, 14⟩ [.identifier ⟨⟨13, 14⟩, "q"⟩])) none (some ⟨⟨11, 12⟩, "z"⟩))))]⟩

def errorTriples : Except Outcome Ctx → List (SemanticErrorKind × Nat × Nat)
  | .ok c => c.semanticErrors.map fun e => (e.kind, e.start, e.stop)
  | .error _ => []

theorem example_two_diagnostics :
    errorTriples (analyze example2) =
      [(.undefVarError, 8, 9), (.incompatibleTypesError, 0, 10), (.undefVarError, 13, 14),
       (.incompatibleTypesError, 13, 14), (.undefGateError, 11, 12)] := by
  decide +kernel

/-- … and every one of those ranges is a range of the tree, as the theorem says -/
theorem example_ranges_in_tree :
    ([⟨8, 9⟩, ⟨0, 10⟩, ⟨13, 14⟩, ⟨11, 12⟩] : List Ast.Span).all (fun sp => (Ast.spans example2).contains sp)
      = true := by
  decide +kernel

end Oq3.Props.C12Sema
