/-
C03 — totality on the ENLARGED fragment, part 1: expressions and operands (now recursive).

Expression fragment `T2.suppE` (decidable, purely syntactic), at arbitrary depth:
literals (int / float / bool / bit string with a value), timing and imaginary literals, identifiers,
hardware qubits, parenthesised expressions, every binary operator whose arm of
`binary_op_to_asg_type` does not panic (the ten arithmetic/bit operators, `==`, `!=`, `++`, `**`),
unary minus (on an int/float literal, on an imaginary literal, or on any other fragment expression
that is not a timing literal), casts `ty(e)` to a fragment scalar type, indexed identifiers and
index expressions with expression-list or set indices (ranges allowed inside), `measure op`,
`return` / `return e`, range expressions.

Fuel: uniform size-based bound — a call `f fuel a` succeeds when `2 * size a + 1 + c_f ≤ fuel`
(`size` = the node-count functions of `Model/Ast.lean`; `c_f = 1` for the two wrappers that call
another function on the very same argument, else `0`).

`allE : ∀ fuel, AllE fuel` — the eleven expression-level functions of the mutual block, by induction
on the fuel.
-/
import Oq3.Props.C03Total

namespace Oq3.Sema.T2
open Oq3 Oq3.Sema Oq3.Types Oq3.Symbols Oq3.Props

/-! ### the expression fragment -/

def suppBinOp : Ast.BinaryOp → Bool
  | .arithOp _ => true
  | .cmpOp (.eq _) => true
  | .concatenationOp => true
  | .powerOp => true
  | _ => false

/-- int / float literal with a value (operand of unary minus, payload of a timing literal) -/
def suppNumLiteral (l : Ast.Literal) : Bool :=
  match l.kind with
  | .intNumber text _ => (TokenExt.intValueS text).isSome
  | .floatNumber _ fmt => fmt.isSome
  | _ => false

mutual
def suppE : Ast.Expr → Bool
  | .literal l => suppLiteral l
  | .identifier _ => true
  | .hardwareQubit _ => true
  | .parenExpr p => suppParen p
  | .binExpr _ (some op) l r => suppBinOp op && (suppOptE l && suppOptE r)
  | .prefixExpr _ (some .neg) (some (.literal l)) => suppNumLiteral l
  | .prefixExpr _ (some .neg) (some (.timingLiteral _ (some .imaginary) _ (some l))) => suppNumLiteral l
  | .prefixExpr _ (some .neg) (some (.timingLiteral ..)) => false
  | .prefixExpr _ (some .neg) e => suppOptE e
  | .timingLiteral _ (some _) _ (some l) => suppNumLiteral l
  | .castExpression _ (some st) e => suppScalarType st && suppOptE e
  | .indexedIdentifier ii => suppII ii
  | .indexExpr _ e (some io) => suppOptE e && suppIO io
  | .measureExpression _ (some op) => suppOp op
  | .returnExpr _ e => suppOptE0 e
  | .rangeExpr r => suppRange r
  | _ => false
def suppParen : Ast.ParenExpr → Bool
  | .mk _ e => suppOptE e
def suppRange : Ast.RangeExpr → Bool
  | .mk _ a b c => suppOptE a && (suppOptE0 b && suppOptE c)
/-- present and in the fragment -/
def suppOptE : Option Ast.Expr → Bool
  | some e => suppE e
  | none => false
/-- absent, or in the fragment -/
def suppOptE0 : Option Ast.Expr → Bool
  | some e => suppE e
  | none => true
def suppEs : List Ast.Expr → Bool
  | [] => true
  | e :: es => suppE e && suppEs es
def suppEL : Ast.ExpressionList → Bool
  | .mk _ es => suppEs es
def suppOptEL : Option Ast.ExpressionList → Bool
  | some el => suppEL el
  | none => false
def suppSet : Ast.SetExpression → Bool
  | .mk _ el => suppOptEL el
def suppIK : Ast.IndexKind → Bool
  | .setExpression s => suppSet s
  | .expressionList el => suppEL el
def suppOptIK : Option Ast.IndexKind → Bool
  | some k => suppIK k
  | none => false
def suppIO : Ast.IndexOperator → Bool
  | .mk _ k => suppOptIK k
def suppIOs : List Ast.IndexOperator → Bool
  | [] => true
  | i :: is => suppIO i && suppIOs is
def suppII : Ast.IndexedIdentifier → Bool
  | .mk _ (some _) ixs => suppIOs ixs
  | .mk _ none _ => false
def suppOp : Ast.GateOperand → Bool
  | .identifier _ => true
  | .hardwareQubit _ => true
  | .indexedIdentifier ii => suppII ii
end

/-! ### small leaf lemmas -/

theorem binaryOpToAsgType_succ (op : Ast.BinaryOp) (h : suppBinOp op = true) :
    Succ Any (binaryOpToAsgType op) := by
  unfold suppBinOp at h
  split at h <;> first | (simp at h; done) | skip
  · unfold binaryOpToAsgType; exact Succ.pure _ trivial
  · rename_i b; unfold binaryOpToAsgType; cases b <;> exact Succ.pure _ trivial
  · unfold binaryOpToAsgType; exact Succ.pure _ trivial
  · unfold binaryOpToAsgType; exact Succ.pure _ trivial

theorem quantumBinopCheck_succ (left right : TExpr) (l r : Ast.Expr) :
    Succ Any (quantumBinopCheck left right (some l) (some r)) :=
  Succ.of_runs (quantumBinopCheck_pres _ _ _ _)
    (fun s _ => ⟨(), _, C13.quantumBinopCheck_run left right l r s, trivial⟩)

theorem returnGlobalCheck_succ (node : Ast.Span) : Succ Any (returnGlobalCheck node) := by
  unfold returnGlobalCheck
  refine Succ.bindAny currentScopeType_succ (fun k => ?_)
  split
  · exact insertError_succ _ _
  · exact Succ.pure _ trivial

/-- `-lit` on an int / float literal with a value -/
theorem negLiteral_succ {α} (l : Ast.Literal) (h : suppNumLiteral l = true)
    (kf : String → α) (ki : Nat → α) (site : String) :
    Succ (fun (r : Option α) => r.isSome = true)
      (match l.kind with
        | .floatNumber _ fmt => do pure (some (kf (← negativeFloatNumberToAsgType fmt)))
        | .intNumber text _ => do pure (some (ki (← negativeIntToAsgType text)))
        | _ => fail site) := by
  unfold suppNumLiteral at h
  cases hk : l.kind <;> simp only [hk] at h ⊢
  case intNumber text v =>
    unfold negativeIntToAsgType
    exact Succ.bindAny (intNumberValue_succ _ _ h) (fun _ => Succ.pure _ rfl)
  case floatNumber text fmt =>
    obtain ⟨v, rfl⟩ := Option.isSome_iff_exists.mp h
    unfold negativeFloatNumberToAsgType
    refine Succ.bindAny (?_ : Succ Any _) (fun _ => Succ.pure _ rfl)
    exact Succ.bindAny ((unwrap_succ _ _).mono (fun _ _ => trivial)) (fun _ => Succ.pure _ trivial)
  all_goals simp at h


/-- payload of a timing / imaginary literal -/
theorem numLiteral_succ {α} (l : Ast.Literal) (h : suppNumLiteral l = true)
    (ki : Nat → α) (kf : String → α) (s1 s2 s3 : String) :
    Succ (fun (r : Option α) => r.isSome = true)
      (match l.kind with
        | .intNumber text _ => do
          let num ← intNumberValue s1 text
          pure (some (ki num))
        | .floatNumber _ fmt => do
          let num ← unwrap s2 fmt
          pure (some (kf num))
        | _ => fail s3) := by
  unfold suppNumLiteral at h
  cases hk : l.kind <;> simp only [hk] at h ⊢
  case intNumber text v =>
    exact Succ.bindAny (intNumberValue_succ _ _ h) (fun _ => Succ.pure _ rfl)
  case floatNumber text fmt =>
    obtain ⟨v, rfl⟩ := Option.isSome_iff_exists.mp h
    exact Succ.bindAny ((unwrap_succ _ _).mono (fun _ _ => trivial)) (fun _ => Succ.pure _ rfl)
  all_goals simp at h

theorem suppOptE_some {o : Option Ast.Expr} (h : suppOptE o = true) : ∃ e, o = some e ∧ suppE e = true := by
  cases o with
  | none => simp [suppOptE] at h
  | some e => exact ⟨e, rfl, by simpa [suppOptE] using h⟩

abbrev IsSome {α} : Option α → Prop := fun r => r.isSome = true

/-- the eleven expression-level functions at one fuel level -/
structure AllE (fuel : Nat) : Prop where
  expr : ∀ e, suppE e = true → 2 * e.size + 1 ≤ fuel → Succ IsSome (exprToAsgTexpr fuel (some e))
  paren : ∀ p, suppParen p = true → 2 * p.size + 1 ≤ fuel → Succ IsSome (parenExprToAsgTexpr fuel p)
  exprs : ∀ es, suppEs es = true → 2 * Ast.exprsSize es + 1 ≤ fuel → Succ Any (exprsLoop fuel es)
  elT : ∀ el, suppEL el = true → 2 * el.size + 1 ≤ fuel → Succ Any (expressionListToAsgTexpr fuel el)
  elTy : ∀ el, suppEL el = true → 2 * el.size + 2 ≤ fuel → Succ Any (expressionListToAsgType fuel el)
  set : ∀ se, suppSet se = true → 2 * se.size + 1 ≤ fuel → Succ Any (setExpressionToAsgType fuel se)
  io : ∀ io, suppIO io = true → 2 * io.size + 1 ≤ fuel → Succ Any (indexOperatorToAsgType fuel io)
  ios : ∀ l, suppIOs l = true → 2 * Ast.indexOperatorsSize l + 1 ≤ fuel →
    Succ Any (indexOperatorsLoop fuel l)
  ii : ∀ ii, suppII ii = true → 2 * ii.size + 1 ≤ fuel → Succ Any (indexedIdentifierToAsgType fuel ii)
  op : ∀ op, suppOp op = true → 2 * op.size + 1 ≤ fuel → Succ Any (gateOperandToAsgTexpr fuel op)
  range : ∀ r, suppRange r = true → 2 * r.size + 1 ≤ fuel → Succ Any (rangeExpressionToAsgType fuel r)

/-- an optional expression (absent, or in the fragment) -/
theorem AllE.opt0 {fuel : Nat} (h : AllE fuel) (o : Option Ast.Expr) (hs : suppOptE0 o = true)
    (hf : 2 * Ast.optExprSize o + 1 ≤ fuel) : Succ Any (exprToAsgTexpr fuel o) := by
  cases o with
  | none =>
    obtain ⟨f, rfl⟩ : ∃ f, fuel = f + 1 := ⟨fuel - 1, by omega⟩
    unfold exprToAsgTexpr; exact Succ.pure _ trivial
  | some e =>
    exact (h.expr e (by simpa [suppOptE0] using hs) (by simpa [Ast.optExprSize] using hf)).mono
      (fun _ _ => trivial)

/-- a present expression given as an option -/
theorem AllE.optE {fuel : Nat} (h : AllE fuel) (o : Option Ast.Expr) (hs : suppOptE o = true)
    (hf : 2 * Ast.optExprSize o + 1 ≤ fuel) : Succ IsSome (exprToAsgTexpr fuel o) := by
  obtain ⟨e, rfl, he⟩ := suppOptE_some hs
  exact h.expr e he (by simpa [Ast.optExprSize] using hf)


/-- unfold the node-count functions in the fuel hypothesis `hf` and in the goal, then `omega` -/
macro "fuel_ok" : tactic => `(tactic| (
  simp only [Ast.Expr.size, Ast.ParenExpr.size, Ast.RangeExpr.size, Ast.Designator.size, Ast.ScalarType.size,
    Ast.ExpressionList.size, Ast.SetExpression.size, Ast.IndexKind.size, Ast.IndexOperator.size,
    Ast.IndexedIdentifier.size, Ast.GateOperand.size, Ast.QubitList.size, Ast.ArgList.size,
    Ast.GateCallExpr.size, Ast.GPhaseCallExpr.size, Ast.Modifier.size, Ast.optExprSize, Ast.exprsSize,
    Ast.optParenExprSize, Ast.optDesignatorSize, Ast.optScalarTypeSize, Ast.optExpressionListSize,
    Ast.optIndexKindSize, Ast.optIndexOperatorSize, Ast.indexOperatorsSize, Ast.optGateOperandSize,
    Ast.gateOperandsSize, Ast.optQubitListSize, Ast.optArgListSize, Ast.optGateCallExprSize,
    Ast.optGPhaseCallExprSize, Ast.modifiersSize] at *
  omega))

theorem paren_step (fuel : Nat) (ih : AllE fuel) (p : Ast.ParenExpr) (hs : suppParen p = true)
    (hf : 2 * p.size + 1 ≤ fuel + 1) : Succ IsSome (parenExprToAsgTexpr (fuel + 1) p) := by
  cases p with
  | mk sp e =>
    simp only [suppParen] at hs
    unfold parenExprToAsgTexpr
    exact ih.optE e hs (by clear ih; fuel_ok)

theorem exprs_step (fuel : Nat) (ih : AllE fuel) (es : List Ast.Expr) (hs : suppEs es = true)
    (hf : 2 * Ast.exprsSize es + 1 ≤ fuel + 1) : Succ Any (exprsLoop (fuel + 1) es) := by
  cases es with
  | nil => unfold exprsLoop; exact Succ.pure _ trivial
  | cons x rest =>
    simp only [suppEs, Bool.and_eq_true] at hs
    unfold exprsLoop
    refine Succ.bindAny ((ih.expr x hs.1 (by clear ih; fuel_ok)).mono (fun _ _ => trivial)) (fun t => ?_)
    refine Succ.bindAny (ih.exprs rest hs.2 (by clear ih; fuel_ok)) (fun ts => ?_)
    cases t <;> exact Succ.pure _ trivial

theorem elT_step (fuel : Nat) (ih : AllE fuel) (el : Ast.ExpressionList) (hs : suppEL el = true)
    (hf : 2 * el.size + 1 ≤ fuel + 1) : Succ Any (expressionListToAsgTexpr (fuel + 1) el) := by
  cases el with
  | mk sp es =>
    simp only [suppEL] at hs
    unfold expressionListToAsgTexpr
    exact ih.exprs es hs (by clear ih; fuel_ok)

theorem elTy_step (fuel : Nat) (ih : AllE fuel) (el : Ast.ExpressionList) (hs : suppEL el = true)
    (hf : 2 * el.size + 2 ≤ fuel + 1) : Succ Any (expressionListToAsgType (fuel + 1) el) := by
  unfold expressionListToAsgType
  exact ih.elT el hs (by omega)

theorem set_step (fuel : Nat) (ih : AllE fuel) (se : Ast.SetExpression) (hs : suppSet se = true)
    (hf : 2 * se.size + 1 ≤ fuel + 1) : Succ Any (setExpressionToAsgType (fuel + 1) se) := by
  cases se with
  | mk sp el =>
    cases el with
    | none => simp [suppSet, suppOptEL] at hs
    | some el =>
      simp only [suppSet, suppOptEL] at hs
      unfold setExpressionToAsgType
      dsimp only
      refine Succ.bind (unwrap_succ _ _) (fun k hk => ?_)
      subst hk
      exact ih.elT _ hs (by clear ih; fuel_ok)

theorem io_step (fuel : Nat) (ih : AllE fuel) (io : Ast.IndexOperator) (hs : suppIO io = true)
    (hf : 2 * io.size + 1 ≤ fuel + 1) : Succ Any (indexOperatorToAsgType (fuel + 1) io) := by
  cases io with
  | mk sp k =>
    cases k with
    | none => simp [suppIO, suppOptIK] at hs
    | some k =>
      simp only [suppIO, suppOptIK] at hs
      unfold indexOperatorToAsgType
      dsimp only
      refine Succ.bind (unwrap_succ _ _) (fun k' hk => ?_)
      subst hk
      cases k' with
      | setExpression se =>
        simp only [suppIK] at hs
        dsimp only
        exact Succ.bindAny (ih.set se hs (by clear ih; fuel_ok)) (fun _ => Succ.pure _ trivial)
      | expressionList el =>
        simp only [suppIK] at hs
        dsimp only
        exact Succ.bindAny (ih.elTy el hs (by clear ih; fuel_ok)) (fun _ => Succ.pure _ trivial)

theorem ios_step (fuel : Nat) (ih : AllE fuel) (l : List Ast.IndexOperator) (hs : suppIOs l = true)
    (hf : 2 * Ast.indexOperatorsSize l + 1 ≤ fuel + 1) : Succ Any (indexOperatorsLoop (fuel + 1) l) := by
  cases l with
  | nil => unfold indexOperatorsLoop; exact Succ.pure _ trivial
  | cons x rest =>
    simp only [suppIOs, Bool.and_eq_true] at hs
    unfold indexOperatorsLoop
    refine Succ.bindAny (ih.io x hs.1 (by clear ih; fuel_ok)) (fun _ => ?_)
    exact Succ.bindAny (ih.ios rest hs.2 (by clear ih; fuel_ok)) (fun _ => Succ.pure _ trivial)

theorem ii_step (fuel : Nat) (ih : AllE fuel) (ii : Ast.IndexedIdentifier) (hs : suppII ii = true)
    (hf : 2 * ii.size + 1 ≤ fuel + 1) : Succ Any (indexedIdentifierToAsgType (fuel + 1) ii) := by
  cases ii with
  | mk sp i ixs =>
    cases i with
    | none => simp [suppII] at hs
    | some i =>
      simp only [suppII] at hs
      unfold indexedIdentifierToAsgType
      dsimp only
      refine Succ.bind (unwrap_succ _ _) (fun k hk => ?_)
      subst hk
      refine Succ.bindAny (lookupSymbol_succ _ _) (fun _ => ?_)
      exact Succ.bindAny (ih.ios ixs hs (by clear ih; fuel_ok)) (fun _ => Succ.pure _ trivial)

theorem op_step (fuel : Nat) (ih : AllE fuel) (op : Ast.GateOperand) (hs : suppOp op = true)
    (hf : 2 * op.size + 1 ≤ fuel + 1) : Succ Any (gateOperandToAsgTexpr (fuel + 1) op) := by
  cases op with
  | hardwareQubit h => unfold gateOperandToAsgTexpr; exact Succ.pure _ trivial
  | identifier i =>
    unfold gateOperandToAsgTexpr
    dsimp only
    refine Succ.bindAny (lookupIdentifier_succ _) (fun _ => ?_)
    exact Succ.bindAny (gateOperandIdentCheck_succ _ _) (fun _ => Succ.pure _ trivial)
  | indexedIdentifier ii =>
    simp only [suppOp] at hs
    unfold gateOperandToAsgTexpr
    dsimp only
    refine Succ.bindAny (ih.ii ii hs (by clear ih; fuel_ok)) (fun _ => ?_)
    exact Succ.bindAny (gateOperandIndexedCheck_succ _ _) (fun _ => Succ.pure _ trivial)

theorem range_step (fuel : Nat) (ih : AllE fuel) (r : Ast.RangeExpr) (hs : suppRange r = true)
    (hf : 2 * r.size + 1 ≤ fuel + 1) : Succ Any (rangeExpressionToAsgType (fuel + 1) r) := by
  cases r with
  | mk sp a b c =>
    simp only [suppRange, Bool.and_eq_true] at hs
    obtain ⟨ha, hb, hc⟩ := hs
    unfold rangeExpressionToAsgType
    dsimp only
    refine Succ.bind (ih.optE a ha (by clear ih; fuel_ok)) (fun r hr => ?_)
    obtain ⟨t, rfl⟩ := Option.isSome_iff_exists.mp hr
    refine Succ.bind (unwrap_succ _ _) (fun k hk => ?_)
    subst hk
    refine Succ.bind (ih.optE c hc (by clear ih; fuel_ok)) (fun r hr => ?_)
    obtain ⟨t2, rfl⟩ := Option.isSome_iff_exists.mp hr
    refine Succ.bind (unwrap_succ _ _) (fun k hk => ?_)
    subst hk
    exact Succ.bindAny (ih.opt0 b hb (by clear ih; fuel_ok)) (fun _ => Succ.pure _ trivial)


set_option maxHeartbeats 1600000 in
theorem expr_step (fuel : Nat) (ih : AllE fuel) (e : Ast.Expr) (hs : suppE e = true)
    (hf : 2 * e.size + 1 ≤ fuel + 1) : Succ IsSome (exprToAsgTexpr (fuel + 1) (some e)) := by
  unfold suppE at hs
  split at hs
  · -- literal
    unfold exprToAsgTexpr; exact literalToAsgTexpr_succ _ hs
  · -- identifier
    unfold exprToAsgTexpr
    exact Succ.bindAny (lookupIdentifier_succ _) (fun _ => Succ.pure _ rfl)
  · -- hardware qubit
    unfold exprToAsgTexpr; exact Succ.pure _ rfl
  · -- ( e )
    rename_i p
    unfold exprToAsgTexpr
    exact ih.paren p hs (by clear ih; fuel_ok)
  · -- binary operator
    rename_i sp op l r
    simp only [Bool.and_eq_true] at hs
    obtain ⟨hop, hl, hr⟩ := hs
    obtain ⟨l', rfl, hl'⟩ := suppOptE_some hl
    obtain ⟨r', rfl, hr'⟩ := suppOptE_some hr
    unfold exprToAsgTexpr
    dsimp only
    refine Succ.bind (unwrap_succ _ _) (fun k hk => ?_)
    subst hk
    refine Succ.bindAny (binaryOpToAsgType_succ _ hop) (fun aop => ?_)
    refine Succ.bind (ih.expr l' hl' (by clear ih; fuel_ok)) (fun x hx => ?_)
    obtain ⟨lt, rfl⟩ := Option.isSome_iff_exists.mp hx
    refine Succ.bind (unwrap_succ _ _) (fun k hk => ?_)
    subst hk
    refine Succ.bind (ih.expr r' hr' (by clear ih; fuel_ok)) (fun x hx => ?_)
    obtain ⟨rt, rfl⟩ := Option.isSome_iff_exists.mp hx
    refine Succ.bind (unwrap_succ _ _) (fun k hk => ?_)
    subst hk
    refine Succ.bindAny (quantumBinopCheck_succ _ _ _ _) (fun _ => ?_)
    exact Succ.pure _ rfl
  · -- - literal
    rename_i sp l
    unfold exprToAsgTexpr
    dsimp only
    exact negLiteral_succ l hs _ _ _
  · -- - imaginary literal
    rename_i sp s2 it l
    unfold exprToAsgTexpr
    dsimp only
    refine Succ.bind (unwrap_succ _ _) (fun k hk => ?_)
    subst hk
    dsimp only
    refine Succ.bind (unwrap_succ _ _) (fun k hk => ?_)
    subst hk
    exact negLiteral_succ _ hs _ _ _
  · simp at hs
  · -- - e
    rename_i sp x hnl hni hnt
    obtain ⟨x', rfl, hx'⟩ := suppOptE_some hs
    have hgen : Succ IsSome (do
        let e ← exprToAsgTexpr fuel (some x')
        let e ← unwrap "expr_to_asg_texpr: unary minus operand unwrap() on None" e
        pure (some (unaryExprToTexpr .minus e))) := by
      refine Succ.bind (ih.expr x' hx' (by clear ih; fuel_ok)) (fun y hy => ?_)
      obtain ⟨t, rfl⟩ := Option.isSome_iff_exists.mp hy
      refine Succ.bind (unwrap_succ _ _) (fun k hk => ?_)
      subst hk
      exact Succ.pure _ rfl
    unfold exprToAsgTexpr
    dsimp only
    cases x' <;> first
      | exact hgen
      | (exact absurd rfl (hnl _))
      | (exact absurd rfl (hnt _ _ _ _))
      | (exfalso; unfold suppE at hx'; simp at hx'; done)
  · -- timing / imaginary literal
    rename_i sp u it l
    unfold exprToAsgTexpr
    dsimp only
    refine Succ.bind (unwrap_succ _ _) (fun k hk => ?_)
    subst hk
    refine Succ.bind (unwrap_succ _ _) (fun k hk => ?_)
    subst hk
    split
    · exact numLiteral_succ _ hs _ _ _ _ _
    · exact numLiteral_succ _ hs _ _ _ _ _
  · -- cast
    rename_i sp st inner
    simp only [Bool.and_eq_true] at hs
    unfold exprToAsgTexpr
    dsimp only
    refine Succ.bind (unwrap_succ _ _) (fun k hk => ?_)
    subst hk
    refine Succ.bindAny (scalarTypeToType_succ _ true hs.1) (fun typ => ?_)
    refine Succ.bind (ih.optE inner hs.2 (by clear ih; fuel_ok)) (fun x hx => ?_)
    obtain ⟨t, rfl⟩ := Option.isSome_iff_exists.mp hx
    refine Succ.bind (unwrap_succ _ _) (fun k hk => ?_)
    subst hk
    exact Succ.pure _ rfl
  · -- indexed identifier
    rename_i ii
    unfold exprToAsgTexpr
    dsimp only
    exact Succ.bindAny (ih.ii ii hs (by clear ih; fuel_ok)) (fun _ => Succ.pure _ rfl)
  · -- index expression
    rename_i sp inner io
    simp only [Bool.and_eq_true] at hs
    unfold exprToAsgTexpr
    dsimp only
    refine Succ.bind (ih.optE inner hs.1 (by clear ih; fuel_ok)) (fun x hx => ?_)
    obtain ⟨t, rfl⟩ := Option.isSome_iff_exists.mp hx
    refine Succ.bind (unwrap_succ _ _) (fun k hk => ?_)
    subst hk
    refine Succ.bindAny (ih.io _ hs.2 (by clear ih; fuel_ok)) (fun _ => ?_)
    refine Succ.bind (unwrap_succ _ _) (fun k hk => ?_)
    subst hk
    exact Succ.pure _ rfl
  · -- measure
    rename_i sp op
    unfold exprToAsgTexpr
    dsimp only
    refine Succ.bind (unwrap_succ _ _) (fun k hk => ?_)
    subst hk
    exact Succ.bindAny (ih.op _ hs (by clear ih; fuel_ok)) (fun _ => Succ.pure _ rfl)
  · -- return
    rename_i sp inner
    unfold exprToAsgTexpr
    dsimp only
    refine Succ.bindAny (ih.opt0 inner hs (by clear ih; fuel_ok)) (fun _ => ?_)
    exact Succ.bindAny (returnGlobalCheck_succ _) (fun _ => Succ.pure _ rfl)
  · -- range
    rename_i r
    unfold exprToAsgTexpr
    dsimp only
    exact Succ.bindAny (ih.range r hs (by clear ih; fuel_ok)) (fun _ => Succ.pure _ rfl)
  · simp at hs

theorem allE (fuel : Nat) : AllE fuel := by
  induction fuel with
  | zero =>
    refine ⟨?_, ?_, ?_, ?_, ?_, ?_, ?_, ?_, ?_, ?_, ?_⟩ <;> (intros; omega)
  | succ fuel ih =>
    exact ⟨expr_step fuel ih, paren_step fuel ih, exprs_step fuel ih, elT_step fuel ih,
      elTy_step fuel ih, set_step fuel ih, io_step fuel ih, ios_step fuel ih, ii_step fuel ih,
      op_step fuel ih, range_step fuel ih⟩

end Oq3.Sema.T2
