/-
C07 — names resolve by lexical scoping; undeclared and duplicate names are diagnosed.

Statements about the model `Oq3.Sema` (context operations of `SemaCtx.lean`, the mutual block of
`Sema.lean`), all for arbitrary ASTs, fuel and contexts:

* `frame_*`: analysing a statement (or any function of the block) leaves every scope below the
  current one untouched and only *extends* the current scope (`Ext` of `Lemmas/SemaInv.lean`);
  `lookup_after_frame`: hence a look-up afterwards answers as before unless the statement itself
  bound that name at its own level; `withScope_lookup_unchanged`: nothing bound inside an
  if/else/while/for/case/default/gate/def body is visible after it.
* `ids_name_correct_*`: every `ok id` produced by `lookupSymbol`/`lookupGateSymbol`/`newBinding`
  indexes a symbol with the looked-up/bound name (and type), and keeps doing so in every later
  table (`ids_stable_ext`).
* `undeclared_logs_once*`, `redeclaration_marked`, `shadowing_silent`: the three diagnostics, with the
  exact resulting state.
* `init_before_bind`: the unfolding equation of `classicalDeclarationStatementToAsgStmt` and the
  closed witness `int x = x;`.
* `witness_F07_*`: single-statement if/else bodies are analysed twice (duplicated diagnostics).
-/
import Oq3.Props.C03

namespace Oq3.Props.C07
open Oq3 Oq3.Sema Oq3.Types Oq3.Symbols

/-! ### (1) frame -/

/-- **frame, statements**: scopes below the current one untouched; the current scope keeps its
kind and its old entries (as a suffix of the new entry list) -/
theorem frame_stmt (fuel : Nat) (stmt : Ast.Stmt) (s : Ctx) (r : Option Stmt × Ctx)
    (h : stmtToAsgStmt fuel stmt s = .ok r) :
    r.2.symbolTable.stack.tail = s.symbolTable.stack.tail ∧
    ∀ top ∈ s.symbolTable.stack.head?, ∃ top' ∈ r.2.symbolTable.stack.head?,
      top'.kind = top.kind ∧ top.tab <:+ top'.tab :=
  let e := ((allPres fuel).stmtToAsgStmt stmt).run s r h
  ⟨e.sym.tail, e.sym.head⟩

/-- the same for expressions -/
theorem frame_expr (fuel : Nat) (e : Option Ast.Expr) (s : Ctx) (r : Option TExpr × Ctx)
    (h : exprToAsgTexpr fuel e s = .ok r) :
    r.2.symbolTable.stack.tail = s.symbolTable.stack.tail ∧
    ∀ top ∈ s.symbolTable.stack.head?, ∃ top' ∈ r.2.symbolTable.stack.head?,
      top'.kind = top.kind ∧ top.tab <:+ top'.tab :=
  let x := ((allPres fuel).exprToAsgTexpr e).run s r h
  ⟨x.sym.tail, x.sym.head⟩

/-- `Scope.get` on an entry list that was extended at the front -/
theorem get_append (new old : List (Name × Nat)) (k : ScopeType) (n : Name) :
    (Scope.mk (new ++ old) k).get n =
      match (Scope.mk new k).get n with
      | some id => some id
      | none => (Scope.mk old k).get n := by
  unfold Scope.get
  simp only [List.find?_append]
  cases h : List.find? (fun p => p.1 == n) new <;> simp

/-- a key of the old part is not a key of the new part when keys are unique -/
theorem get_new_none_of_old_some {new old : List (Name × Nat)} {k : ScopeType} {n : Name} {id : Nat}
    (hnd : ((new ++ old).map (·.1)).Nodup) (ho : (Scope.mk old k).get n = some id) :
    (Scope.mk new k).get n = none := by
  rw [C19.get_none_iff]
  intro p hp hpn
  have hm := C19.get_some_mem ho
  simp only [List.map_append] at hnd
  have := (List.nodup_append.mp hnd).2.2 p.1 (List.mem_map_of_mem hp) n
    (List.mem_map_of_mem (f := (·.1)) hm)
  exact this hpn

/-- **look-up after a framed step**: the answer is the same as before, unless the current scope
did not bind the name before and binds it now (the step declared it at its own level) -/
theorem lookup_after_frame {t t' : SymTab} (h : SymExt t t') (hi : C19.Inv t') (n : Name) :
    t'.lookupId n = t.lookupId n ∨
    ∃ top top', t.stack.head? = some top ∧ t'.stack.head? = some top' ∧
      top.get n = none ∧ top'.get n ≠ none := by
  cases hst : t.stack with
  | nil =>
    have hl := h.len; rw [hst] at hl
    have : t'.stack = [] := List.eq_nil_of_length_eq_zero hl
    left; unfold SymTab.lookupId; rw [hst, this]
  | cons top rest =>
    obtain ⟨top', htop', hk, hsuf⟩ := h.head top (by rw [hst]; rfl)
    have ht' : t'.stack = top' :: rest := by
      have htl := h.tail; rw [hst] at htl
      cases hst' : t'.stack with
      | nil => rw [hst'] at htop'; simp at htop'
      | cons a b =>
        rw [hst'] at htop' htl
        simp only [List.head?_cons, Option.mem_def, Option.some.injEq] at htop'
        simp only [List.tail_cons] at htl
        rw [htop', htl]
    obtain ⟨new, hnew⟩ := hsuf
    have hnd := hi.keys_nodup top' (by rw [ht']; simp)
    rw [← hnew] at hnd
    have hget : top'.get n = (Scope.mk (new ++ top.tab) top'.kind).get n := by
      rw [hnew]
    unfold SymTab.lookupId
    rw [hst, ht']
    simp only [List.findSome?_cons]
    cases hold : top.get n with
    | some id =>
      left
      have hold' : (Scope.mk top.tab top'.kind).get n = some id := by
        simpa [Scope.get] using hold
      have hn := get_new_none_of_old_some hnd hold'
      rw [hget, get_append, hn]; simp only []; rw [hold']
    | none =>
      cases hnew' : top'.get n with
      | none => left; rfl
      | some id' =>
        right
        exact ⟨top, top', rfl, rfl, hold, by rw [hnew']; simp⟩

/-- look-up after a statement: same as before unless the statement itself bound the name in the
scope it was analysed in -/
theorem lookup_after_stmt (fuel : Nat) (stmt : Ast.Stmt) (s : Ctx) (r : Option Stmt × Ctx)
    (h : stmtToAsgStmt fuel stmt s = .ok r) (hi : C19.Inv s.symbolTable) (n : Name) :
    r.2.symbolTable.lookupId n = s.symbolTable.lookupId n ∨
    ∃ top top', s.symbolTable.stack.head? = some top ∧ r.2.symbolTable.stack.head? = some top' ∧
      top.get n = none ∧ top'.get n ≠ none :=
  let e := ((allPres fuel).stmtToAsgStmt stmt).run s r h
  lookup_after_frame e.sym (e.sym.inv hi) n

/-- **names that go out of scope are not visible afterwards**: whatever a `with_scope!` body
binds, every look-up after the construct answers exactly as before it -/
theorem withScope_lookup_unchanged {α} (k : ScopeType) (body : M α) (hb : Pres body) (s : Ctx)
    (r : α × Ctx) (h : withScope k body s = .ok r) (n : Name) :
    r.2.symbolTable.lookupId n = s.symbolTable.lookupId n := by
  unfold SymTab.lookupId
  rw [C03.withScope_restores k body hb s r h]

/-! ### (2) ids denote the name as written -/

/-- an id keeps denoting the same symbol in every later table -/
theorem ids_stable_ext {t t' : SymTab} (h : SymExt t t') (id : Nat) (sym : Sym)
    (hs : t.all[id]? = some sym) : t'.all[id]? = some sym := by
  obtain ⟨ext, hext⟩ := h.all
  rw [← hext]
  have := (List.getElem?_eq_some_iff.mp hs).1
  rw [List.getElem?_append_left this]; exact hs

/-- successful run of `tableLookup`, in terms of the table -/
theorem tableLookup_spec (name : String) (s : Ctx) (hi : C19.Inv s.symbolTable) :
    (s.symbolTable.lookupId name = none ∧
      tableLookup name s = .ok ((.error .missingBinding, .undefined), s)) ∨
    ∃ id ty, s.symbolTable.lookupId name = some id ∧ s.symbolTable.all[id]? = some ⟨name, ty⟩ ∧
      tableLookup name s = .ok ((.ok id, ty), s) := by
  rcases C19.lookup_sound s.symbolTable hi name with ⟨hm, hl⟩ | ⟨id, ty, hf, hl, ha⟩
  · left
    refine ⟨hl, ?_⟩
    unfold tableLookup
    rw [M.bind_ok]
    refine ⟨.missing, s, ?_, by simp⟩
    rw [symStep_ok]
    refine ⟨by rw [hm]; simp, ?_⟩
    rw [hm, step_lookup_state]
  · right
    refine ⟨id, ty, hl, ha, ?_⟩
    unfold tableLookup
    rw [M.bind_ok]
    refine ⟨.found id name ty, s, ?_, by simp⟩
    rw [symStep_ok]
    refine ⟨by rw [hf]; simp, ?_⟩
    rw [hf, step_lookup_state]

/-- **`lookupSymbol`: an `ok id` indexes a symbol named as looked up** (with the returned type),
and the state is unchanged -/
theorem ids_name_correct_lookupSymbol (name : String) (node : Ast.Span) (s : Ctx)
    (hi : C19.Inv s.symbolTable) (id : Nat) (ty : T) (s' : Ctx)
    (h : lookupSymbol name node s = .ok ((.ok id, ty), s')) :
    s' = s ∧ s.symbolTable.all[id]? = some ⟨name, ty⟩ ∧ s.symbolTable.lookupId name = some id := by
  unfold lookupSymbol at h
  obtain ⟨r1, s1, h1, h2⟩ := (M.bind_ok _ _ _ _).mp h
  rcases tableLookup_spec name s hi with ⟨_, hm⟩ | ⟨id', ty', hl, ha, hf⟩
  · rw [hm] at h1
    simp only [Except.ok.injEq, Prod.mk.injEq] at h1
    obtain ⟨rfl, rfl⟩ := h1
    simp only [SymbolIdResult.isOk, Bool.not_false, if_true] at h2
    obtain ⟨_, s2, _, h3⟩ := (M.bind_ok _ _ _ _).mp h2
    simp at h3
  · rw [hf] at h1
    simp only [Except.ok.injEq, Prod.mk.injEq] at h1
    obtain ⟨rfl, rfl⟩ := h1
    simp [SymbolIdResult.isOk] at h2
    obtain ⟨⟨rfl, rfl⟩, rfl⟩ := h2
    exact ⟨rfl, ha, hl⟩

/-- the same for `lookupGateSymbol` -/
theorem ids_name_correct_lookupGateSymbol (name : String) (node : Ast.Span) (s : Ctx)
    (hi : C19.Inv s.symbolTable) (id : Nat) (ty : T) (s' : Ctx)
    (h : lookupGateSymbol name node s = .ok ((.ok id, ty), s')) :
    s' = s ∧ s.symbolTable.all[id]? = some ⟨name, ty⟩ ∧ s.symbolTable.lookupId name = some id := by
  unfold lookupGateSymbol at h
  obtain ⟨r1, s1, h1, h2⟩ := (M.bind_ok _ _ _ _).mp h
  rcases tableLookup_spec name s hi with ⟨_, hm⟩ | ⟨id', ty', hl, ha, hf⟩
  · rw [hm] at h1
    simp only [Except.ok.injEq, Prod.mk.injEq] at h1
    obtain ⟨rfl, rfl⟩ := h1
    simp only [SymbolIdResult.isOk, Bool.not_false, if_true] at h2
    obtain ⟨_, s2, _, h3⟩ := (M.bind_ok _ _ _ _).mp h2
    simp at h3
  · rw [hf] at h1
    simp only [Except.ok.injEq, Prod.mk.injEq] at h1
    obtain ⟨rfl, rfl⟩ := h1
    simp [SymbolIdResult.isOk] at h2
    obtain ⟨⟨rfl, rfl⟩, rfl⟩ := h2
    exact ⟨rfl, ha, hl⟩

/-- the current scope of a context -/
def topScope (s : Ctx) : Option Scope := s.symbolTable.stack.head?

/-- **`newBinding`, fresh name**: returns the next fresh id, which indexes a symbol with exactly the
bound name and type; nothing is logged; the new entry is visible to look-up -/
theorem ids_name_correct_newBinding (name : String) (typ : T) (node : Ast.Span) (s : Ctx)
    (hi : C19.Inv s.symbolTable) (top : Scope) (rest : List Scope)
    (hst : s.symbolTable.stack = top :: rest) (hfree : top.get name = none) :
    ∃ s', newBinding name typ node s = .ok (.ok s.symbolTable.all.length, s') ∧
      s'.symbolTable.all[s.symbolTable.all.length]? = some ⟨name, typ⟩ ∧
      s'.symbolTable.lookupId name = some s.symbolTable.all.length ∧
      s'.semanticErrors = s.semanticErrors := by
  have hb := C19.bind_ok s.symbolTable hi name typ top rest hst hfree
  have hsym : symStep "current_scope: no scope" (.bind name typ) s =
      .ok (.bound s.symbolTable.all.length,
        { s with symbolTable := (s.symbolTable.step (.bind name typ)).1 }) := by
    rw [symStep_ok]; exact ⟨by rw [hb]; simp, by rw [hb]⟩
  refine ⟨{ s with symbolTable := (s.symbolTable.step (.bind name typ)).1 }, ?_, ?_, ?_, rfl⟩
  · unfold newBinding
    rw [M.bind_ok]
    exact ⟨_, _, hsym, by simp⟩
  · simp [hb]
  · simp only [hb]
    unfold SymTab.lookupId
    simp [Scope.get]

/-- shadowing is silent: a name bound only in an *outer* scope can be bound again, with no
diagnostic (special case of the previous theorem, stated for emphasis) -/
theorem shadowing_silent (name : String) (typ : T) (node : Ast.Span) (s : Ctx)
    (hi : C19.Inv s.symbolTable) (top : Scope) (rest : List Scope)
    (hst : s.symbolTable.stack = top :: rest) (hfree : top.get name = none)
    (_houter : ∃ sc ∈ rest, sc.get name ≠ none) :
    ∃ s', newBinding name typ node s = .ok (.ok s.symbolTable.all.length, s') ∧
      s'.semanticErrors = s.semanticErrors := by
  obtain ⟨s', h1, _, _, h4⟩ := ids_name_correct_newBinding name typ node s hi top rest hst hfree
  exact ⟨s', h1, h4⟩

/-! ### (3) undeclared names -/

/-- **undeclared use**: `(Err(MissingBinding), Undefined)`, exactly one `UndefVarError` at the node,
nothing else changes -/
theorem undeclared_logs_once (name : String) (node : Ast.Span) (s : Ctx)
    (hi : C19.Inv s.symbolTable) (hl : s.symbolTable.lookupId name = none) :
    lookupSymbol name node s = .ok ((.error .missingBinding, .undefined),
      { s with semanticErrors := s.semanticErrors ++ [⟨.undefVarError, node.start, node.stop⟩] }) := by
  rcases tableLookup_spec name s hi with ⟨_, hm⟩ | ⟨id', ty', hl', _, _⟩
  · unfold lookupSymbol
    rw [M.bind_ok]
    refine ⟨_, _, hm, ?_⟩
    simp only [SymbolIdResult.isOk, Bool.not_false, if_true]
    rw [M.bind_ok]
    exact ⟨(), _, (insertError_ok _ _ _ _).mpr rfl, by simp⟩
  · rw [hl] at hl'; simp at hl'

/-- the gate variant logs `UndefGateError` -/
theorem undeclared_gate_logs_once (name : String) (node : Ast.Span) (s : Ctx)
    (hi : C19.Inv s.symbolTable) (hl : s.symbolTable.lookupId name = none) :
    lookupGateSymbol name node s = .ok ((.error .missingBinding, .undefined),
      { s with semanticErrors := s.semanticErrors ++ [⟨.undefGateError, node.start, node.stop⟩] }) := by
  rcases tableLookup_spec name s hi with ⟨_, hm⟩ | ⟨id', ty', hl', _, _⟩
  · unfold lookupGateSymbol
    rw [M.bind_ok]
    refine ⟨_, _, hm, ?_⟩
    simp only [SymbolIdResult.isOk, Bool.not_false, if_true]
    rw [M.bind_ok]
    exact ⟨(), _, (insertError_ok _ _ _ _).mpr rfl, by simp⟩
  · rw [hl] at hl'; simp at hl'

/-- a declared use logs nothing -/
theorem declared_logs_nothing (name : String) (node : Ast.Span) (s : Ctx)
    (hi : C19.Inv s.symbolTable) (id : Nat) (hl : s.symbolTable.lookupId name = some id) :
    ∃ ty, lookupSymbol name node s = .ok ((.ok id, ty), s) ∧
      s.symbolTable.all[id]? = some ⟨name, ty⟩ := by
  rcases tableLookup_spec name s hi with ⟨hl', _⟩ | ⟨id', ty', hl', ha, hf⟩
  · rw [hl] at hl'; simp at hl'
  · rw [hl] at hl'; simp only [Option.some.injEq] at hl'; subst hl'
    refine ⟨ty', ?_, ha⟩
    unfold lookupSymbol
    rw [M.bind_ok]
    exact ⟨_, _, hf, by simp [SymbolIdResult.isOk]⟩

/-! ### (4) redeclaration -/

/-- **redeclaration**: a name already bound in the *current* scope yields `Err(AlreadyBound)`,
exactly one `RedeclarationError` at the node, and the table is unchanged (the first binding is
kept) -/
theorem redeclaration_marked (name : String) (typ : T) (node : Ast.Span) (s : Ctx)
    (top : Scope) (rest : List Scope) (hst : s.symbolTable.stack = top :: rest)
    (hbound : top.get name ≠ none) :
    newBinding name typ node s = .ok (.error .alreadyBound,
      { s with semanticErrors :=
          s.semanticErrors ++ [⟨.redeclarationError, node.start, node.stop⟩] }) := by
  have hsome : (top.get name).isSome = true := by
    cases hg : top.get name with
    | none => exact absurd hg hbound
    | some v => rfl
  have hstep : s.symbolTable.step (.bind name typ) = (s.symbolTable, .alreadyBound) := by
    simp [SymTab.step, hst, Scope.containsName, hsome]
  have hsym : symStep "current_scope: no scope" (.bind name typ) s = .ok (.alreadyBound, s) := by
    rw [symStep_ok]; rw [hstep]; exact ⟨by simp, rfl⟩
  unfold newBinding
  rw [M.bind_ok]
  refine ⟨.alreadyBound, s, hsym, ?_⟩
  simp only []
  rw [M.bind_ok]
  exact ⟨(), _, (insertError_ok _ _ _ _).mpr rfl, by simp⟩

/-! ### (5) the initializer is analysed before the name is bound -/

/-- **unfolding equation**: in `classical_declaration_statement_to_asg_stmt` the initializer is
translated (`exprToAsgTexpr`) in the state that precedes `newBinding` of the declared name -/
theorem init_before_bind (fuel : Nat) (span : Ast.Span) (arrayType : Bool)
    (scalarType : Option Ast.ScalarType) (constToken : Bool) (name : Option Ast.Name)
    (expr : Option Ast.Expr) :
    classicalDeclarationStatementToAsgStmt (fuel + 1) span arrayType scalarType constToken name expr =
    (do
      let lhsType ← if arrayType then do
          notGlobalCheck span
          insertError .notImplementedError span
          pure T.todo
        else do
          let st ← unwrap "classical_declaration_statement_to_asg_stmt: scalar_type() is None" scalarType
          scalarTypeToType st constToken
      let name ← unwrap "classical_declaration_statement_to_asg_stmt: name() is None" name
      let initializer ← exprToAsgTexpr fuel expr
      let symbolId ← newBinding name.text lhsType span
      match initializer with
      | none => declareClassicalHelper symbolId none
      | some initializer =>
        let initType := initializer.getType
        if equalUpToConstness lhsType initType then
          pure (.declareClassical symbolId (some initializer))
        else
          match initializer.expression with
          | .literal literal =>
            if Sema.canCastLiteral lhsType initType literal then
              declareClassicalHelper symbolId (some (castToTexpr initializer lhsType))
            else do
              insertError .incompatibleTypesError span
              declareClassicalHelper symbolId (some initializer)
          | _ =>
            let promotedType := promoteTypesNotEqual lhsType initType
            if equalUpToConstness promotedType lhsType then
              declareClassicalHelper symbolId (some (castToTexpr initializer lhsType))
            else do
              if promotedType = T.void || promotedType = initType then
                insertError .incompatibleTypesError span
              declareClassicalHelper symbolId (some initializer)) := by
  rfl

/-- kinds of the diagnostics of an outcome -/
def errorKinds : Except Outcome Ctx → List (SemanticErrorKind × Nat × Nat)
  | .ok c => c.semanticErrors.map fun e => (e.kind, e.start, e.stop)
  | .error _ => []

open C03 in
/-- `int x = x;`: the use of `x` in its own initializer is undeclared -/
def wSelfInit : Ast.Program := prog 10
  [.classicalDeclarationStatement (sp 0 10) false (some (intT 0 3)) false (some ⟨sp 4 5, "x"⟩)
     (some (ident 8 9 "x"))]

theorem witness_init_before_bind :
    errorKinds (analyze wSelfInit) =
      [(.undefVarError, 8, 9), (.incompatibleTypesError, 0, 10)] := by
  decide +kernel

/-! ### F07: single-statement if/else bodies -/

open C03 in
/-- `if (c) a; else b;` as the accessors present it: `true_body_block_or_stmt()` and
`false_body_block_or_stmt()` both return the FIRST statement child (`a;`) -/
def wF07 : Ast.Program := prog 17
  [.ifStmt (sp 0 17) (some (ident 4 5 "c"))
     (.ok (.stmt (.exprStmt (sp 7 9) (some (ident 7 8 "a")))))
     (some (.stmt (.exprStmt (sp 7 9) (some (ident 7 8 "a")))))]

/-- the undeclared `a` is reported twice and `b` never: the diagnostic of `undeclared_logs_once`
is duplicated because the same statement is analysed as then- and as else-branch -/
theorem witness_F07_duplicated_diagnostics :
    errorKinds (analyze wF07) =
      [(.undefVarError, 4, 5), (.undefVarError, 7, 8), (.undefVarError, 7, 8)] := by
  decide +kernel

end Oq3.Props.C07
