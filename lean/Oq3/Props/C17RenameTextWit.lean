/-
C17 — renaming through lexer and parser: a closed instance of `rename_invariant_text_partial`
(`Props/C17RenameText.lean`) in which every hypothesis, the tree-level side condition `hok`
included, is discharged by evaluation of the model.
-/
import Oq3.Props.C17RenameText

namespace Oq3.C17RenameText
open Oq3.Gen Oq3.Lexer Oq3.Lexed Oq3.Ref Oq3.Parser Oq3.Grammar Oq3.Builder Oq3.Bridge
open Oq3.Lemmas.Lexer Oq3.Lemmas.Lexed Oq3.Lemmas.LexLocal Oq3.Props.C15 Oq3.BuilderLayout
open Oq3.C17Lex Oq3.C17Rename Oq3.RenameText Oq3.Acc Oq3.C17 Oq3.Sema

/-! ## non-vacuity: a closed instance -/

section Witness
open Oq3.Props.C14

/-- `qubit a;reset a;` -/
def rlayA : List (Lexeme × Sep) :=
  [(.word "qubit".toList, [.ws [' ']]), (.word ['a'], []), (.punct ';', []),
   (.word "reset".toList, [.ws [' ']]), (.word ['a'], []), (.punct ';', [])]

/-- `qubit _a;reset _a;` — the user name `a` renamed by `underscoreRen`; keywords untouched -/
def rlayB : List (Lexeme × Sep) :=
  [(.word "qubit".toList, [.ws [' ']]), (.word ['_', 'a'], []), (.punct ';', []),
   (.word "reset".toList, [.ws [' ']]), (.word ['_', 'a'], []), (.punct ';', [])]

theorem wit_ren : renItems underscoreRen rlayA rlayB = true := by decide +kernel

theorem wit_ok : itemsOK ucAscii rlayA = true ∧ itemsOK ucAscii rlayB = true ∧
    sepOK [] (itemsText rlayA) = true ∧ sepOK [] (itemsText rlayB) = true := by decide +kernel

/-- the tree-level side condition holds for the first text (by running the model front end) -/
theorem wit_hok : ∀ c, frontTree ucAscii 200 0 (sepText [] ++ itemsText rlayA) = some c →
    renTreeOk underscoreRen c = true := by
  have h : (frontTree ucAscii 200 0 (sepText [] ++ itemsText rlayA)).all (renTreeOk underscoreRen) = true := by
    decide +kernel
  intro c hc
  rw [hc] at h
  exact h

/-- the front end does succeed on the first text (so the instance below is not `none = none`) -/
theorem wit_some : (frontEnd ucAscii 200 0 (sepText [] ++ itemsText rlayA)).isSome = true := by
  decide +kernel

/-- the instance of `rename_invariant_text_partial` -/
theorem wit_instance (afuel : Nat) :
    (frontEnd ucAscii 200 0 (sepText [] ++ itemsText rlayB)).map
        (fun p => (analyzeWith afuel p).map erCtx) =
      (frontEnd ucAscii 200 0 (sepText [] ++ itemsText rlayA)).map
        (fun p => (analyzeWith afuel p).map (fun c => renameCtx underscoreRen (erCtx c))) :=
  rename_invariant_text_partial Oq3.Props.C15.ucAscii_ok underscoreRen [] rlayA rlayB wit_ren
    wit_ok.2.2.1 wit_ok.1 wit_ok.2.2.2 wit_ok.2.1 200 0 afuel wit_hok

/-- the side condition is not vacuous either: a renaming that moves the time unit `ns` violates it
on a tree with a timing literal -/
example :
    let swapNs : String → String := fun s => if s = "ns" then "sn" else if s = "sn" then "ns" else s
    let tl : CNode := .node .TIMING_LITERAL 0 4
      [.node .LITERAL 0 2 [.token .INT_NUMBER 0 2 ['1', '0']],
       .node .IDENTIFIER 2 4 [.token .IDENT 2 4 ['n', 's']]]
    (match support.child Identifier.canCast tl with
     | some i => (headTok i).map (fun kt => swapNs (String.ofList kt.2) == String.ofList kt.2)
     | none => none) = some false := by decide +kernel

end Witness

/-! ### a richer instance: gate definition with parameters, a call, built-in names -/

section Witness2
open Oq3.Props.C14

/-- the renamed layout: `ρ` applied to every identifier word, separators kept -/
def renLay (ρ : Ren) (items : List (Lexeme × Sep)) : List (Lexeme × Sep) :=
  items.map fun p =>
    match p.1 with
    | .word w => if Lexeme.wordKind w == .IDENT then (.word (ρ.f (String.ofList w)).toList, p.2) else p
    | _ => p

/-- `gate g(w) q{U(w,0,0) q;}qubit a;g(pi) a;` -/
def rlayC : List (Lexeme × Sep) :=
  [(.word "gate".toList, [.ws [' ']]), (.word ['g'], []), (.punct '(', []), (.word ['w'], []),
   (.punct ')', [.ws [' ']]), (.word ['q'], []), (.punct '{', []), (.word ['U'], []), (.punct '(', []),
   (.word ['w'], []), (.punct ',', []), (.int ['0'], []), (.punct ',', []), (.int ['0'], []),
   (.punct ')', [.ws [' ']]), (.word ['q'], []), (.punct ';', []), (.punct '}', []),
   (.word "qubit".toList, [.ws [' ']]), (.word ['a'], []), (.punct ';', []),
   (.word ['g'], []), (.punct '(', []), (.word ['p', 'i'], []), (.punct ')', [.ws [' ']]),
   (.word ['a'], []), (.punct ';', [])]

/-- `gate _g(_w) _q{U(_w,0,0) _q;}qubit _a;_g(pi) _a;` — `U` and `pi` are fixed names (so is every
standard gate name, e.g. `t`) -/
def rlayD : List (Lexeme × Sep) := renLay underscoreRen rlayC

example : itemsText rlayD = "gate _g(_w) _q{U(_w,0,0) _q;}qubit _a;_g(pi) _a;".toList := by decide +kernel

theorem wit2_ren : renItems underscoreRen rlayC rlayD = true := by decide +kernel

theorem wit2_ok : itemsOK ucAscii rlayC = true ∧ itemsOK ucAscii rlayD = true ∧
    sepOK [] (itemsText rlayC) = true ∧ sepOK [] (itemsText rlayD) = true := by decide +kernel

theorem wit2_hok : hokB ucAscii 700 0 underscoreRen (sepText [] ++ itemsText rlayC) = true := by
  decide +kernel

theorem wit2_some : (frontEnd ucAscii 700 0 (sepText [] ++ itemsText rlayC)).isSome = true := by
  decide +kernel

theorem wit2_instance (afuel : Nat) :
    (frontEnd ucAscii 700 0 (sepText [] ++ itemsText rlayD)).map
        (fun p => (analyzeWith afuel p).map erCtx) =
      (frontEnd ucAscii 700 0 (sepText [] ++ itemsText rlayC)).map
        (fun p => (analyzeWith afuel p).map (fun c => renameCtx underscoreRen (erCtx c))) :=
  rename_invariant_text_partial Oq3.Props.C15.ucAscii_ok underscoreRen [] rlayC rlayD wit2_ren
    wit2_ok.2.2.1 wit2_ok.1 wit2_ok.2.2.2 wit2_ok.2.1 700 0 afuel (hok_of_check wit2_hok)

/-- what the two analyses are (evaluated): the same three statements, no diagnostics, and the user
symbols `w q g a` of the first text are `_w _q _g _a` in the second -/
example :
    (frontEnd ucAscii 700 0 (sepText [] ++ itemsText rlayC)).map (fun p =>
      match analyzeWith 200 p with
      | .ok c => some (c.symbolTable.all.map Oq3.Symbols.Sym.name, c.semanticErrors.length, c.program.length)
      | .error _ => none) =
    some (some (["pi", "π", "euler", "ℇ", "tau", "τ", "U", "w", "q", "g", "a"], 0, 3)) ∧
    (frontEnd ucAscii 700 0 (sepText [] ++ itemsText rlayD)).map (fun p =>
      match analyzeWith 200 p with
      | .ok c => some (c.symbolTable.all.map Oq3.Symbols.Sym.name, c.semanticErrors.length, c.program.length)
      | .error _ => none) =
    some (some (["pi", "π", "euler", "ℇ", "tau", "τ", "U", "_w", "_q", "_g", "_a"], 0, 3)) := by
  constructor <;> decide +kernel

end Witness2

end Oq3.C17RenameText
