/-
C11 (second half) — THE GATES WITH THE REAL MODEL STAGES, end to end over texts.

`Props/C11.lean` proves the two gates over `Model/Pipeline.lean`, where the lexer, the parser and the
analysis are parameters.  Here nothing is a parameter: the composites of
`Lemmas/C11StagesDefs.lean` are built from the model lexer (`LexedStr.new`), `to_input`, the grammar
(`parseSourceFile`), `event::process`, the balance assertions, `build_tree`, `validation::validate`,
the typed accessors (`Acc.Build.program`), the include layer (`Includes.parseIncludedFiles`,
`analyzeSource`) and the semantic pass (`Sema.analyzeWith`).  Which Rust function each definition
mirrors is listed in the header of `Lemmas/C11StagesDefs.lean`:

  `checkLexParse uc fuel npl text`   = `oq3_syntax::SourceFile::parse_check_lex(text)`
                                        (`parsing::parse_text_check_lex` + `validate` + the root assert)
  `analyzeTextInc fs … text`          = `oq3_semantics::parse_source_string_with_path_search(text, …)`
                                        (`oq3_source_file::parse_source_string` + `analyze_source`)
  `analyzeText afuel uc fuel npl text` = `oq3_semantics::parse_source_string(text, None)` where no include
                                        file can be read (`noFS`): the entry point for texts without real
                                        includes

`(lexedOf uc text).error` is the error list of the model `LexedStr` (`LexedStr.new uc text =
some (lexedOf uc text)`, `Lemmas.Lexed.new_eq`); `fuel`/`npl` are the grammar model's fuel and the
no-progress limit of the `oq3_verif` hook, `afuel` the fuel of the semantic model.  All statements
hold for EVERY value of these (no "enough fuel" hypothesis): a stage that does not return is an
explicit `Fail` outcome and the theorems say what happens then.

(1) THE LEX-CHECKED PARSE
  * `check_lex_iff_stages`: a lexer error ⇒ `checkLexParse = ok (none, the lexer's diagnostics)`,
    whatever the parser would do (it is not run); no lexer error ⇒ `checkLexParse` is exactly the
    parser stages' outcome, tree wrapped in `some`, diagnostics EXACTLY the parser's
    (`parserDiagnostics`: the grammar's `Error` events as `build_tree` places them, then
    `validate`'s); hence a returned result has a tree IFF the lexer reported no error.
  * `check_lex_tree_iff_no_flagged_token`: … iff no token of `tokenize uc text` is flagged.
  * `checkLexParse_is_pipeline_instance`: `checkLexParse` IS the parametric
    `Pipeline.parseTextCheckLex` of `Props/C11.lean` at `lexErrors := lexErrorsOf …`,
    `parse := the parser stages` — so `C11.check_lex_iff` applies (`check_lex_iff_instance`).
  * `checkLexParse_fails_only`: `checkLexParse` fails only when there is no lexer error, and then only
    inside the grammar (panic / hang detector / fuel), inside `validate`, or at the root assert:
    `LexedStr::new`, the lexer-error loop, `to_input`, `process`, the balance assertions and
    `build_tree` never fail (C14, C12, C01, C02).
(2) THE ANALYSIS GATE
  * `analyze_gate_fs` (any file system, any parse of included texts): analysis is skipped iff
    `have_syntax_errors()` holds for the parsed source with its included sources, iff
    `num_syntax_errors() > 0` (the source or any transitively included file has a diagnostic);
    `analyze_runs_fs`: otherwise the main source is clean and the result is the include-aware pass;
    `parseSourceString_is_model`: the source-file layer used here is `Includes.parseSourceAndIncludes`
    (the function of the C18 theorems) for any `parse` that agrees with the concrete stages on the text.
  * `analyzeText_lex_error`, `analyzeText_syntax_error`: lexer error, or parser diagnostics ⇒ skipped.
  * `analyzeText_clean`: no lexer error, no parser diagnostic, no real include ⇒ `analyzeText` is
    `Sema.analyzeWith afuel ast` of the typed AST of the tree (`analyzeText_clean_default`:
    `Sema.analyze ast` at `afuel = Sema.defaultFuel ast`), no error trees.
  * `analyzeText_skipped_iff`: skipped IFF lexer error or (parser stages return with a diagnostic and
    the include scan of the tree returns); `skipped_is_empty`: skipped ⇒ the result context is
    `Context::new`: empty program, no semantic diagnostic, `have_syntax_errors = true`.
(3) WITH C11Lex: a flagged token at a token boundary (`flagged_token_rejected`), in particular after
    any admissible layout of well-formed lexemes (`malformed_in_context_rejected`), makes
    `checkLexParse` return no tree with the token's message on the token's range, and the analysis
    skipped; instances for every class of `Props/C11Lex.lean` (`rejected_*`).

`Props/C11StagesTotal.lean` adds that the stages RETURN for texts of up to 789 473 characters with the
fuel of C01Term/C01Work2.  Non-vacuity: section `Examples` at the end (closed texts, kernel-evaluated).

NOT covered (stated exactly): in the branch "tree with diagnostics" the include scan over the
erroneous tree is modelled through the accessor model and may report an accessor panic
(`Fail.accessor`) — that outcome is kept explicit, not excluded; the included files' texts go through
the parameter `parseInc` of the include model (only the TOP-LEVEL text goes through the concrete
stages; `analyzeText` reads no file, so for it nothing is a parameter).
-/
import Oq3.Lemmas.C11StagesGate
import Oq3.Props.C11
import Oq3.Props.C11Lex

namespace Oq3.Props.C11Stages
open Oq3.Gen Oq3.Lexer Oq3.Lexed Oq3.Builder Oq3.Acc Oq3.Includes Oq3.Stages
open Oq3.Lemmas.Lexer Oq3.Lemmas.Lexed Oq3.Lemmas.LexLocal Oq3.Props.C15 Oq3.Props.C11 Oq3.Ref

/-! ## (1) the lex-checked parse -/

/-- **`parse_check_lex` over texts.** -/
theorem check_lex_iff_stages (uc : UC) (fuel npl : Nat) (text : List Char) :
    ((lexedOf uc text).error ≠ [] →
      checkLexParse uc fuel npl text = .ok (none, lexErrorsOf (lexedOf uc text))) ∧
    ((lexedOf uc text).error = [] →
      checkLexParse uc fuel npl text =
        (parserDiagnostics uc fuel npl text).map fun r => (some r.1, r.2)) ∧
    (∀ r, checkLexParse uc fuel npl text = .ok r →
      (r.1.isSome = true ↔ (lexedOf uc text).error = [])) := by
  refine ⟨checkLexParse_lex_error uc fuel npl text, checkLexParse_clean uc fuel npl text, ?_⟩
  intro r hr
  by_cases he : (lexedOf uc text).error = []
  · rw [checkLexParse_clean uc fuel npl text he] at hr
    cases hd : parserDiagnostics uc fuel npl text with
    | error f => rw [hd] at hr; cases hr
    | ok pr =>
      rw [hd] at hr
      simp only [Except.map, Except.ok.injEq] at hr
      subst hr
      simp [he]
  · rw [checkLexParse_lex_error uc fuel npl text he] at hr
    simp only [Except.ok.injEq] at hr
    subst hr
    simp [he]

/-- the lexer-error diagnostics: one per error record, in order, each the record's message on the
text range of its token (in bounds, ordered) -/
theorem lex_diagnostics_exact (uc : UC) (text : List Char) :
    (lexErrorsOf (lexedOf uc text)).length = (lexedOf uc text).error.length ∧
    ∀ e ∈ (lexedOf uc text).error, ∃ lo hi, (lexedOf uc text).textRange e.token = some (lo, hi) ∧
      (⟨e.msg, lo, hi⟩ : SyntaxError) ∈ lexErrorsOf (lexedOf uc text) ∧ lo ≤ hi ∧
      hi ≤ Oq3.Lexer.utf8Len text :=
  ⟨lexErrorsOf_length _, lexErrors_spec uc text⟩

/-- a tree is returned iff no token of the text is flagged by `inner_extend_token` -/
theorem check_lex_tree_iff_no_flagged_token (uc : UC) (fuel npl : Nat) (text : List Char)
    (r : Option Tree × List SyntaxError) (h : checkLexParse uc fuel npl text = .ok r) :
    r.1.isSome = true ↔
      ∀ t ∈ tokenize uc text, (innerExtendToken t.kind t.text).1.isEmpty = true := by
  rw [(check_lex_iff_stages uc fuel npl text).2.2 r h]
  exact error_nil_iff uc text _ (new_eq uc text)

/-- **the concrete composite is an instance of the parametric gate of `Props/C11.lean`**: whenever
the parser stages return `pr` (needed only if there is no lexer error) -/
theorem checkLexParse_is_pipeline_instance (uc : UC) (fuel npl : Nat) (text : List Char)
    (pr : Tree × List SyntaxError)
    (h : (lexedOf uc text).error = [] → parserDiagnostics uc fuel npl text = .ok pr) :
    checkLexParse uc fuel npl text =
      .ok (Oq3.Pipeline.parseTextCheckLex (lexErrorsOf (lexedOf uc text)) (fun _ => pr)) := by
  by_cases he : (lexedOf uc text).error = []
  · rw [checkLexParse_clean uc fuel npl text he, h he]
    simp [Oq3.Pipeline.parseTextCheckLex, lexErrorsOf_nil _ he, Except.map]
  · rw [checkLexParse_lex_error uc fuel npl text he]
    have hne := lexErrorsOf_ne_nil _ he
    unfold Oq3.Pipeline.parseTextCheckLex
    cases hl : lexErrorsOf (lexedOf uc text) with
    | nil => exact absurd hl hne
    | cons a b => rfl

/-- `C11.check_lex_iff` instantiated with the real stages -/
theorem check_lex_iff_instance (uc : UC) (fuel npl : Nat) (text : List Char)
    (pr : Tree × List SyntaxError)
    (h : (lexedOf uc text).error = [] → parserDiagnostics uc fuel npl text = .ok pr) :
    ∃ r, checkLexParse uc fuel npl text = .ok r ∧
      (r.1.isSome = true ↔ lexErrorsOf (lexedOf uc text) = []) ∧
      (lexErrorsOf (lexedOf uc text) ≠ [] → r = (none, lexErrorsOf (lexedOf uc text))) ∧
      (lexErrorsOf (lexedOf uc text) = [] → r = (some pr.1, pr.2)) := by
  refine ⟨_, checkLexParse_is_pipeline_instance uc fuel npl text pr h, ?_⟩
  exact Oq3.Props.C11.check_lex_iff (lexErrorsOf (lexedOf uc text)) (fun _ => pr)

/-- **which stage can fail.**  `checkLexParse` returns unless there is no lexer error AND the grammar
does not return (parser panic, hang detector, model fuel), `validate` panics, or the root is not a
`SOURCE_FILE` -/
theorem checkLexParse_fails_only (uc : UC) (fuel npl : Nat) (text : List Char) (f : Fail)
    (h : checkLexParse uc fuel npl text = .error f) :
    (lexedOf uc text).error = [] ∧
      ((∃ o, f = .parser o) ∨ (∃ site, f = .validate site) ∨ f = .rootKind) := by
  by_cases he : (lexedOf uc text).error = []
  · refine ⟨he, ?_⟩
    rw [checkLexParse_clean uc fuel npl text he] at h
    unfold parserDiagnostics at h
    cases hp : parseLexed fuel npl (lexedOf uc text) with
    | error f' =>
      rw [hp] at h
      simp only [Except.map, Except.error.injEq] at h
      subst h
      exact Or.inl (parseLexed_fails_only_in_grammar uc fuel npl text f' hp)
    | ok r =>
      obtain ⟨t, e⟩ := r
      rw [hp] at h
      simp only at h
      cases hv : Oq3.Validation.validate t 0 with
      | error site =>
        rw [hv] at h
        simp only [Except.map, Except.error.injEq] at h
        exact Or.inr (Or.inl ⟨site, h.symm⟩)
      | ok verrs =>
        rw [hv] at h
        simp only at h
        split at h
        · simp only [Except.map, Except.error.injEq] at h
          exact Or.inr (Or.inr h.symm)
        · cases h
  · rw [checkLexParse_lex_error uc fuel npl text he] at h
    cases h

/-- a returned tree spells exactly the text (C02 through the gate) -/
theorem checkLexParse_tree_text (uc : UC) (fuel npl : Nat) (text : List Char) (t : Tree)
    (d : List SyntaxError) (h : checkLexParse uc fuel npl text = .ok (some t, d)) : t.text = text := by
  have he : (lexedOf uc text).error = [] :=
    ((check_lex_iff_stages uc fuel npl text).2.2 _ h).mp rfl
  rw [checkLexParse_clean uc fuel npl text he] at h
  unfold parserDiagnostics at h
  cases hp : parseLexed fuel npl (lexedOf uc text) with
  | error f' => rw [hp] at h; cases h
  | ok r =>
    obtain ⟨t', e⟩ := r
    rw [hp] at h
    simp only at h
    cases hv : Oq3.Validation.validate t' 0 with
    | error site => rw [hv] at h; cases h
    | ok verrs =>
      rw [hv] at h
      simp only at h
      split at h
      · cases h
      · simp only [Except.map, Except.ok.injEq, Prod.mk.injEq, Option.some.injEq] at h
        rw [← h.1]
        exact parseLexed_ok_shape uc fuel npl text t' e hp

/-! ## (2) the analysis gate -/

section FS
variable (fs : FS) (parseInc : String → Parsed) (search env : Option (List String))
  (ifuel afuel : Nat) (uc : UC) (fuel npl : Nat) (text : List Char)

theorem parseSourceString_counted (p : Parsed) (incs : List PSrc)
    (h : parseSourceString fs parseInc search env ifuel uc fuel npl text = .ok (p, incs)) :
    Counted p := by
  unfold parseSourceString at h
  cases hp : parseChecked uc fuel npl text with
  | error f => rw [hp] at h; cases h
  | ok p' =>
    rw [hp] at h
    have hc := parseChecked_counted uc fuel npl text p' hp
    simp only at h
    split at h
    · split at h
      · simp only [Except.ok.injEq, Prod.mk.injEq] at h; rw [← h.1]; exact hc
      · cases h
    · simp only [Except.ok.injEq, Prod.mk.injEq] at h; rw [← h.1]; exact hc

/-- **the analysis gate, any file system.**  Semantic analysis is skipped (empty result) exactly when
the parsed source with its included sources has a syntax diagnostic somewhere —
`have_syntax_errors()`, equivalently `num_syntax_errors() > 0` -/
theorem analyze_gate_fs :
    analyzeTextInc fs parseInc search env ifuel afuel uc fuel npl text = .ok none ↔
      ∃ p incs, parseSourceString fs parseInc search env ifuel uc fuel npl text = .ok (p, incs) ∧
        haveSyntaxErrors (.mk "" (some p) none incs) = true := by
  unfold analyzeTextInc
  cases hs : parseSourceString fs parseInc search env ifuel uc fuel npl text with
  | error f => simp
  | ok r =>
    obtain ⟨p, incs⟩ := r
    have hc := parseSourceString_counted fs parseInc search env ifuel uc fuel npl text p incs hs
    have hiff := analyzeSource_none_iff afuel p hc incs
    simp only [Except.ok.injEq, Prod.mk.injEq]
    constructor
    · intro h
      refine ⟨p, incs, ⟨rfl, rfl⟩, hiff.mp ?_⟩
      cases ha : analyzeSource afuel p incs with
      | error o => rw [ha] at h; cases h
      | ok r => rw [ha] at h; simp only [Except.ok.injEq] at h; rw [h]
    · rintro ⟨p', incs', ⟨rfl, rfl⟩, hg⟩
      rw [hiff.mpr hg]

theorem analyze_gate_fs_count (p : Parsed) (incs : List PSrc)
    (h : parseSourceString fs parseInc search env ifuel uc fuel npl text = .ok (p, incs)) :
    analyzeTextInc fs parseInc search env ifuel afuel uc fuel npl text = .ok none ↔
      0 < numSyntaxErrors (.mk "" (some p) none incs) := by
  rw [analyze_gate_fs, ← Oq3.Props.C18Entry.haveSyntaxErrors_iff_num]
  constructor
  · rintro ⟨p', incs', h', hg⟩
    rw [h] at h'
    simp only [Except.ok.injEq, Prod.mk.injEq] at h'
    rw [h'.1, h'.2]; exact hg
  · intro hg; exact ⟨p, incs, h, hg⟩

/-- … and runs otherwise: no diagnostic anywhere ⇒ the main source is clean and the result is the
include-aware pass over its typed AST -/
theorem analyze_runs_fs (p : Parsed) (incs : List PSrc)
    (h : parseSourceString fs parseInc search env ifuel uc fuel npl text = .ok (p, incs))
    (hg : haveSyntaxErrors (.mk "" (some p) none incs) = false) :
    ∃ ast, p = .clean ast ∧
      analyzeTextInc fs parseInc search env ifuel afuel uc fuel npl text =
        match (syntaxToSemanticInc afuel ast.statements incs).run {} with
        | .ok (trees, c) => .ok (some (c, trees))
        | .error o => .error (.sema o) := by
  have hc := parseSourceString_counted fs parseInc search env ifuel uc fuel npl text p incs h
  obtain ⟨ast, rfl, ha⟩ := analyzeSource_run afuel p hc incs hg
  refine ⟨ast, rfl, ?_⟩
  unfold analyzeTextInc
  rw [h]
  simp only [ha]
  cases (syntaxToSemanticInc afuel ast.statements incs).run {} with
  | error o => rfl
  | ok r => rfl

/-- **tie to the include model**: for any total `parse` of texts that agrees with the concrete stages
on this text, `parseSourceString` is `Includes.parseSourceAndIncludes` (the function the C18 theorems
are about) on it -/
theorem parseSourceString_is_model (p : Parsed)
    (hp : parseChecked uc fuel npl text = .ok p) (hagree : parseInc (String.ofList text) = p) :
    parseSourceString fs parseInc search env ifuel uc fuel npl text =
      match parseSourceAndIncludes fs parseInc search env (ifuel + (includesOf p).length + 1 + 1)
          (String.ofList text) with
      | .ok r => .ok r
      | .error o => .error (.includes o) := by
  unfold parseSourceString parseSourceAndIncludes
  simp only [hp, hagree]
  by_cases hh : p.haveParse = true
  · simp only [hh, if_true]
    cases parseIncludedFiles fs parseInc search env (ifuel + (includesOf p).length + 1) (includesOf p) with
    | ok incs => rfl
    | error o => rfl
  · simp only [hh, Bool.false_eq_true, if_false]

end FS

/-! ### texts without real includes -/

/-- `analyzeText` in terms of what the syntax layers hand over: nothing is read; the include scan
returns one unreadable source per real include statement, none with a syntax diagnostic -/
theorem analyzeText_eq (afuel : Nat) (uc : UC) (fuel npl : Nat) (text : List Char) :
    (∀ f, parseChecked uc fuel npl text = .error f → analyzeText afuel uc fuel npl text = .error f) ∧
    (∀ p, parseChecked uc fuel npl text = .ok p →
      ∃ incs, anyHaveSyntaxErrors incs = false ∧
        incs.length = (if p.haveParse then Oq3.Props.C18.nonStd (includesOf p) else 0) ∧
        analyzeText afuel uc fuel npl text =
          match analyzeSource afuel p incs with
          | .error o => .error (.sema o)
          | .ok r => .ok r) := by
  constructor
  · intro f hf
    simp only [analyzeText, analyzeTextInc, parseSourceString, hf]
  · intro p hp
    by_cases hh : p.haveParse = true
    · obtain ⟨res, hr, hs, hl⟩ := parseIncludedFiles_noFS (fun _ => Parsed.lexErrors 0)
        (0 + (includesOf p).length + 1) (includesOf p) (by omega)
      refine ⟨res, hs, by simp [hh, hl], ?_⟩
      simp only [analyzeText, analyzeTextInc, parseSourceString, hp, hh, if_true, hr]
      rfl
    · refine ⟨[], rfl, by simp [hh], ?_⟩
      simp only [analyzeText, analyzeTextInc, parseSourceString, hp, hh, Bool.false_eq_true, if_false]
      rfl

/-- **skipped iff the top-level text is not clean** (on `noFS` no included source can have a
diagnostic) -/
theorem analyzeText_none_iff (afuel : Nat) (uc : UC) (fuel npl : Nat) (text : List Char) :
    analyzeText afuel uc fuel npl text = .ok none ↔
      ∃ p, parseChecked uc fuel npl text = .ok p ∧ ∀ ast, p ≠ .clean ast := by
  obtain ⟨h1, h2⟩ := analyzeText_eq afuel uc fuel npl text
  cases hp : parseChecked uc fuel npl text with
  | error f => rw [h1 f hp]; simp
  | ok p =>
    obtain ⟨incs, hs, -, ha⟩ := h2 p hp
    have hc := parseChecked_counted uc fuel npl text p hp
    have hiff := analyzeSource_none_iff afuel p hc incs
    rw [haveSyntaxErrors_main p hc incs, hs, Bool.or_false] at hiff
    rw [ha]
    simp only [Except.ok.injEq, exists_eq_left']
    constructor
    · intro h
      have : analyzeSource afuel p incs = .ok none := by
        cases hx : analyzeSource afuel p incs with
        | error o => rw [hx] at h; cases h
        | ok r => rw [hx] at h; simp only [Except.ok.injEq] at h; rw [h]
      have := hiff.mp this
      intro ast hast
      subst hast
      simp at this
    · intro h
      have : analyzeSource afuel p incs = .ok none := by
        apply hiff.mpr
        cases p with
        | clean ast => exact absurd rfl (h ast)
        | lexErrors n => rfl
        | syntaxErrors n i => rfl
      rw [this]

/-- **a lexical error skips the analysis** (whatever the fuels: neither the parser nor the pass runs) -/
theorem analyzeText_lex_error (afuel : Nat) (uc : UC) (fuel npl : Nat) (text : List Char)
    (h : (lexedOf uc text).error ≠ []) : analyzeText afuel uc fuel npl text = .ok none :=
  (analyzeText_none_iff afuel uc fuel npl text).mpr
    ⟨_, parseChecked_lex_error uc fuel npl text h, fun _ he => by cases he⟩

/-- **a parser diagnostic skips the analysis** (the include scan of the tree having returned) -/
theorem analyzeText_syntax_error (afuel : Nat) (uc : UC) (fuel npl : Nat) (text : List Char)
    (t : Tree) (d : List SyntaxError) (incs : List (Option (Option String)))
    (he : (lexedOf uc text).error = [])
    (hp : parserDiagnostics uc fuel npl text = .ok (t, d)) (hd : d ≠ [])
    (hi : includesOfTree (cnodeOf t) = .ok incs) :
    analyzeText afuel uc fuel npl text = .ok none := by
  apply (analyzeText_none_iff afuel uc fuel npl text).mpr
  refine ⟨.syntaxErrors d.length incs, ?_, fun _ h => by cases h⟩
  rw [parseChecked_clean uc fuel npl text he, hp]
  have : (d.length != 0) = true := by
    cases d with
    | nil => exact absurd rfl hd
    | cons x xs => simp
  simp only [parsedOfChecked, this, if_true, hi]

/-- **otherwise the analysis runs, and it is `Sema.analyzeWith` of the typed AST of the tree** -/
theorem analyzeText_clean (afuel : Nat) (uc : UC) (fuel npl : Nat) (text : List Char)
    (t : Tree) (ast : Ast.Program)
    (he : (lexedOf uc text).error = [])
    (hp : parserDiagnostics uc fuel npl text = .ok (t, []))
    (ha : Build.program (cnodeOf t) = .ok ast)
    (hn : Oq3.Props.C18.nonStd (includesOf (.clean ast)) = 0) :
    analyzeText afuel uc fuel npl text =
      match Sema.analyzeWith afuel ast with
      | .ok c => .ok (some (c, []))
      | .error o => .error (.sema o) := by
  have hpc : parseChecked uc fuel npl text = .ok (.clean ast) := by
    rw [parseChecked_clean uc fuel npl text he, hp]
    simp only [parsedOfChecked, List.length_nil, bne_self_eq_false, Bool.false_eq_true, if_false, ha]
  obtain ⟨incs, -, hl, hx⟩ := (analyzeText_eq afuel uc fuel npl text).2 _ hpc
  have : incs = [] := by
    apply List.eq_nil_of_length_eq_zero
    rw [hl]; simp [Parsed.haveParse, hn]
  subst this
  rw [hx, analyzeSource_noReal afuel ast (noReal_of_nonStd ast hn)]
  cases Sema.analyzeWith afuel ast with
  | error o => rfl
  | ok c => rfl

/-- with the default fuel of the semantic model: `Sema.analyze` -/
theorem analyzeText_clean_default (uc : UC) (fuel npl : Nat) (text : List Char)
    (t : Tree) (ast : Ast.Program)
    (he : (lexedOf uc text).error = [])
    (hp : parserDiagnostics uc fuel npl text = .ok (t, []))
    (ha : Build.program (cnodeOf t) = .ok ast)
    (hn : Oq3.Props.C18.nonStd (includesOf (.clean ast)) = 0) :
    analyzeText (Sema.defaultFuel ast) uc fuel npl text =
      match Sema.analyze ast with
      | .ok c => .ok (some (c, []))
      | .error o => .error (.sema o) :=
  analyzeText_clean (Sema.defaultFuel ast) uc fuel npl text t ast he hp ha hn

/-- **the gate over texts, as one equivalence**: the analysis of a text without readable includes is
skipped iff the lexer reports an error, or the parser stages return with a diagnostic (and the
include scan over that tree returns) -/
theorem analyzeText_skipped_iff (afuel : Nat) (uc : UC) (fuel npl : Nat) (text : List Char) :
    analyzeText afuel uc fuel npl text = .ok none ↔
      (lexedOf uc text).error ≠ [] ∨
      ∃ t d incs, parserDiagnostics uc fuel npl text = .ok (t, d) ∧ d ≠ [] ∧
        includesOfTree (cnodeOf t) = .ok incs := by
  constructor
  · intro h
    by_cases he : (lexedOf uc text).error = []
    · right
      obtain ⟨p, hp, hnc⟩ := (analyzeText_none_iff afuel uc fuel npl text).mp h
      rw [parseChecked_clean uc fuel npl text he] at hp
      cases hd : parserDiagnostics uc fuel npl text with
      | error f => rw [hd] at hp; cases hp
      | ok r =>
        obtain ⟨t, d⟩ := r
        rw [hd] at hp
        simp only at hp
        obtain ⟨h1, h2⟩ := parsedOfChecked_tree_counted t d p hp
        by_cases hdn : d = []
        · obtain ⟨ast, -, rfl⟩ := h2 hdn
          exact absurd rfl (hnc ast)
        · obtain ⟨incs, hi, -, -⟩ := h1 hdn
          exact ⟨t, d, incs, rfl, hdn, hi⟩
    · exact Or.inl he
  · rintro (h | ⟨t, d, incs, hp, hd, hi⟩)
    · exact analyzeText_lex_error afuel uc fuel npl text h
    · by_cases he : (lexedOf uc text).error = []
      · exact analyzeText_syntax_error afuel uc fuel npl text t d incs he hp hd hi
      · exact analyzeText_lex_error afuel uc fuel npl text he

/-- skipped ⇒ `Context::new`: empty program, no semantic diagnostic, flag set; and the summary
accessors of `Model/EntryPoints.lean` say the same -/
theorem skipped_is_empty :
    (resultContext none).program = [] ∧ (resultContext none).semanticErrors = [] ∧
    resultHaveSyntaxErrors none = true ∧
    ∀ main inc, (summarize main inc none).anySemantic = false ∧ (summarize main inc none).numStmts = 0 :=
  ⟨rfl, rfl, rfl, fun _ _ => ⟨rfl, rfl⟩⟩

/-! ## (3) malformed lexemes (C11Lex) stop everything after the lexer -/

/-- the text is rejected by the lexical gate, for all fuels: `parse_check_lex` returns no tree and a
non-empty list of (lexer) diagnostics, and `parse_source_string` skips the analysis -/
def LexRejected (uc : UC) (text : List Char) : Prop :=
  ∀ fuel npl afuel,
    checkLexParse uc fuel npl text = .ok (none, lexErrorsOf (lexedOf uc text)) ∧
    lexErrorsOf (lexedOf uc text) ≠ [] ∧
    analyzeText afuel uc fuel npl text = .ok none

theorem lexRejected_of_error (uc : UC) (text : List Char) (h : (lexedOf uc text).error ≠ []) :
    LexRejected uc text := fun fuel npl afuel =>
  ⟨checkLexParse_lex_error uc fuel npl text h, lexErrorsOf_ne_nil _ h,
    analyzeText_lex_error afuel uc fuel npl text h⟩

/-- **a flagged token at a token boundary** (`C11.error_at_boundary`): the text is rejected, and the
diagnostics contain the token's message on exactly the token's range -/
theorem flagged_token_rejected (uc : UC) (pre s : List Char) (tp : List Token) (hs : s ≠ [])
    (hb : tokenize uc (pre ++ s) = tp ++ tokenize uc s)
    (herr : Flagged (tokenAt uc s).kind (tokenAt uc s).text) :
    LexRejected uc (pre ++ s) ∧
    (⟨errMsg (tokenAt uc s), Oq3.Lexer.utf8Len pre, Oq3.Lexer.utf8Len pre + (tokenAt uc s).len⟩ : SyntaxError) ∈
      lexErrorsOf (lexedOf uc (pre ++ s)) := by
  obtain ⟨l, hl, ⟨e, he, het, hem⟩, hr⟩ := error_at_boundary uc pre s tp hs hb herr
  have hle := Oq3.Props.C14.lexed_eq uc _ l hl
  subst hle
  refine ⟨lexRejected_of_error uc _ (fun h => by rw [h] at he; cases he), ?_⟩
  unfold lexErrorsOf
  refine List.mem_map.mpr ⟨e, he, ?_⟩
  rw [het, hr, hem]

/-- **a malformed lexeme after any admissible layout of well-formed lexemes**
(`C11.malformed_in_context`) -/
theorem malformed_in_context_rejected {uc : UC} (hu : AsciiUC uc) (lead : Sep)
    (items : List (Lexeme × Sep)) (s : List Char) (hs : s ≠ [])
    (hlead : sepOK lead (itemsTextK items s) = true) (hitems : itemsOKK uc items s = true)
    (herr : Flagged (tokenAt uc s).kind (tokenAt uc s).text) :
    LexRejected uc (sepText lead ++ itemsTextK items s) := by
  obtain ⟨l, hl, ⟨e, he, -, -⟩, -⟩ := malformed_in_context hu lead items s hs hlead hitems herr
  have hle := Oq3.Props.C14.lexed_eq uc _ l hl
  subst hle
  exact lexRejected_of_error uc _ (fun h => by rw [h] at he; cases he)

section Classes
variable {uc : UC} (hu : AsciiUC uc) (lead : Sep) (items : List (Lexeme × Sep))
include hu

/-- generic form: `advance_token` at `s` returns a flagged kind -/
theorem rejected_of_advance (s : List Char) (hs : s ≠ [])
    (hlead : sepOK lead (itemsTextK items s) = true) (hitems : itemsOKK uc items s = true)
    (herr : ∀ text, Flagged (advanceToken uc s).kind text) :
    LexRejected uc (sepText lead ++ itemsTextK items s) :=
  malformed_in_context_rejected hu lead items s hs hlead hitems (herr _)

/-- unterminated block comment (`/*` with no `*/` after it) -/
theorem rejected_block_comment (body : List Char) (h : hasStarSlash body = false)
    (hlead : sepOK lead (itemsTextK items ('/' :: '*' :: body)) = true)
    (hitems : itemsOKK uc items ('/' :: '*' :: body) = true) :
    LexRejected uc (sepText lead ++ itemsTextK items ('/' :: '*' :: body)) := by
  refine rejected_of_advance hu lead items _ (by simp) hlead hitems ?_
  obtain ⟨term, hk, hf, ht⟩ := malformed_flagged_block_comment (uc := uc) body
  intro text
  rw [hk]
  exact (hf (ht h)).2 text

/-- unterminated string / bit string (a quote, then no further quote of that kind) -/
theorem rejected_string (q : Char) (hq : q = '"' ∨ q = '\'') (body : List Char)
    (h : body.all (fun c => c != q) = true)
    (hlead : sepOK lead (itemsTextK items (q :: body)) = true)
    (hitems : itemsOKK uc items (q :: body) = true) :
    LexRejected uc (sepText lead ++ itemsTextK items (q :: body)) := by
  refine rejected_of_advance hu lead items _ (by simp) hlead hitems ?_
  obtain ⟨k, hk, -, hcase, -⟩ := malformed_flagged_string hu q hq body h
  intro text
  rw [hk]
  rcases hcase with rfl | ⟨c, rfl⟩
  · rfl
  · rfl

/-- `0b` / `0o` / `0x` without digits -/
theorem rejected_empty_int (r : Radix) (rest : List Char)
    (h : headSat (if r = .hex then isHexU else isDigitU) rest = false)
    (hlead : sepOK lead (itemsTextK items ('0' :: r.char :: rest)) = true)
    (hitems : itemsOKK uc items ('0' :: r.char :: rest) = true) :
    LexRejected uc (sepText lead ++ itemsTextK items ('0' :: r.char :: rest)) :=
  rejected_of_advance hu lead items _ (by simp) hlead hitems
    (malformed_flagged_empty_int hu r rest h).2.2

/-- exponent marker without digits (`1e`, `1.5e-`, …) -/
theorem rejected_empty_exponent (ip : List Char) (fp : Option (List Char)) (marker : Char)
    (sign : Option Char) (rest : List Char)
    (hip : digitRun isDecDigit ip = true)
    (hfp : (match fp with | some f => digitRun isDecDigit f | none => true) = true)
    (hm : (marker == 'e' || marker == 'E') = true)
    (hs : sign.all (fun c => c == '+' || c == '-') = true)
    (hr : headSat isDigitU rest = false)
    (hns : sign = none → (first rest == '-' || first rest == '+') = false)
    (hlead : sepOK lead (itemsTextK items (ip ++ (fracText fp ++ marker :: sign.toList) ++ rest)) = true)
    (hitems : itemsOKK uc items (ip ++ (fracText fp ++ marker :: sign.toList) ++ rest) = true) :
    LexRejected uc (sepText lead ++ itemsTextK items (ip ++ (fracText fp ++ marker :: sign.toList) ++ rest)) := by
  have hne : ip ++ (fracText fp ++ marker :: sign.toList) ++ rest ≠ [] := by
    cases ip with
    | nil => simp [digitRun, headSat] at hip
    | cons c t => simp
  exact malformed_in_context_rejected hu lead items _ hne hlead hitems
    ((malformed_flagged_empty_exponent hu ip fp marker sign rest hip hfp hm hs hr hns).2.2 _)

/-- `OPENQASM` without a version number -/
theorem rejected_version_no_number (ws tail : List Char) (hne : ws ≠ [])
    (hws : ws.all Oq3.Lexer.isWhitespace = true) (ht : headSat Oq3.Lexer.isWhitespace tail = false)
    (hd : headSat isDigitU tail = false)
    (hlead : sepOK lead (itemsTextK items (openqasmWord ++ ws ++ tail)) = true)
    (hitems : itemsOKK uc items (openqasmWord ++ ws ++ tail) = true) :
    LexRejected uc (sepText lead ++ itemsTextK items (openqasmWord ++ ws ++ tail)) :=
  rejected_of_advance hu lead items _ (by simp [openqasmWord]) hlead hitems
    (malformed_flagged_version_no_number ws tail hne hws ht hd).2

/-- `OPENQASM 3.` without minor digits -/
theorem rejected_version_no_minor (ws major tail : List Char) (hne : ws ≠ [])
    (hws : ws.all Oq3.Lexer.isWhitespace = true) (hmne : major ≠ []) (hmaj : major.all isDecDigit = true)
    (hd : headSat isDigitU tail = false)
    (hlead : sepOK lead (itemsTextK items (openqasmWord ++ ws ++ (major ++ '.' :: tail))) = true)
    (hitems : itemsOKK uc items (openqasmWord ++ ws ++ (major ++ '.' :: tail)) = true) :
    LexRejected uc (sepText lead ++ itemsTextK items (openqasmWord ++ ws ++ (major ++ '.' :: tail))) :=
  rejected_of_advance hu lead items _ (by simp [openqasmWord]) hlead hitems
    (malformed_flagged_version_no_minor ws major tail hne hws hmne hmaj hd).2

/-- `OPENQASM 3x`, `OPENQASM 3.0x`, and a version number at the very end of the input -/
theorem rejected_version_junk (ws major : List Char) (minor : Option (List Char)) (tail : List Char)
    (hne : ws ≠ []) (hws : ws.all Oq3.Lexer.isWhitespace = true) (hmne : major ≠ [])
    (hmaj : major.all isDecDigit = true)
    (hmin : (match minor with | some m => !m.isEmpty && m.all isDecDigit | none => true) = true)
    (ht : headSat (fun c => isDigitU c || c == ';' || Oq3.Lexer.isWhitespace c) tail = false)
    (hdot : minor = none → (first tail == '.') = false)
    (hlead : sepOK lead (itemsTextK items (openqasmWord ++ ws ++ (major ++ (minorText minor ++ tail)))) = true)
    (hitems : itemsOKK uc items (openqasmWord ++ ws ++ (major ++ (minorText minor ++ tail))) = true) :
    LexRejected uc (sepText lead ++ itemsTextK items (openqasmWord ++ ws ++ (major ++ (minorText minor ++ tail)))) :=
  rejected_of_advance hu lead items _ (by simp [openqasmWord]) hlead hitems
    (malformed_flagged_version_junk ws major minor tail hne hws hmne hmaj hmin ht hdot).2

/-- an identifier with an emoji inside or right after it -/
theorem rejected_ident_emoji (c : Char) (t : List Char) (e : Char) (more : List Char)
    (hc : isIdStart uc c = true) (ht : t.all (isIdContinue uc) = true)
    (hp : c :: t ≠ pragmaWord) (hO : c :: t ≠ openqasmWord)
    (he : isNonAsciiEmoji uc e = true) (hec : isIdContinue uc e = false)
    (hlead : sepOK lead (itemsTextK items (c :: t ++ e :: more)) = true)
    (hitems : itemsOKK uc items (c :: t ++ e :: more) = true) :
    LexRejected uc (sepText lead ++ itemsTextK items (c :: t ++ e :: more)) :=
  rejected_of_advance hu lead items _ (by simp) hlead hitems
    (malformed_flagged_ident_emoji hu c t e more hc ht hp hO he hec).2.2

/-- an emoji where a token starts -/
theorem rejected_emoji_start (c : Char) (cs : List Char)
    (he : isNonAsciiEmoji uc c = true) (hc : isIdStart uc c = false)
    (hlead : sepOK lead (itemsTextK items (c :: cs)) = true)
    (hitems : itemsOKK uc items (c :: cs) = true) :
    LexRejected uc (sepText lead ++ itemsTextK items (c :: cs)) :=
  rejected_of_advance hu lead items _ (by simp) hlead hitems
    (malformed_flagged_emoji_start hu c cs he hc).2

/-- a bare `#` -/
theorem rejected_pound (cs : List Char) (hp : (first cs == 'p') = false) (hd : (first cs == 'd') = false)
    (hlead : sepOK lead (itemsTextK items ('#' :: cs)) = true)
    (hitems : itemsOKK uc items ('#' :: cs) = true) :
    LexRejected uc (sepText lead ++ itemsTextK items ('#' :: cs)) := by
  refine rejected_of_advance hu lead items _ (by simp) hlead hitems ?_
  intro text
  rw [(malformed_flagged_pound hu cs hp hd).1]
  rfl

end Classes

/-! ## non-vacuity: the hypotheses are satisfiable, on closed texts evaluated by the kernel -/

/-- checker for the hypotheses of `analyzeText_clean` -/
def cleanWitness (uc : UC) (fuel npl : Nat) (text : List Char) : Bool :=
  (lexedOf uc text).error.isEmpty &&
  match parserDiagnostics uc fuel npl text with
  | .ok (t, []) =>
    (match Build.program (cnodeOf t) with
     | .ok ast => Oq3.Props.C18.nonStd (includesOf (.clean ast)) == 0
     | .error _ => false)
  | _ => false

theorem cleanWitness_sound (uc : UC) (fuel npl : Nat) (text : List Char)
    (h : cleanWitness uc fuel npl text = true) :
    (lexedOf uc text).error = [] ∧ ∃ t ast, parserDiagnostics uc fuel npl text = .ok (t, []) ∧
      Build.program (cnodeOf t) = .ok ast ∧ Oq3.Props.C18.nonStd (includesOf (.clean ast)) = 0 := by
  unfold cleanWitness at h
  simp only [Bool.and_eq_true, List.isEmpty_iff] at h
  refine ⟨h.1, ?_⟩
  have h2 := h.2
  split at h2
  · rename_i t hp
    split at h2
    · rename_i ast ha
      exact ⟨t, ast, hp, ha, by simpa using h2⟩
    · cases h2
  · cases h2

/-- checker for the hypotheses of `analyzeText_syntax_error` -/
def syntaxErrorWitness (uc : UC) (fuel npl : Nat) (text : List Char) : Bool :=
  (lexedOf uc text).error.isEmpty &&
  match parserDiagnostics uc fuel npl text with
  | .ok (t, _ :: _) => (match includesOfTree (cnodeOf t) with | .ok _ => true | .error _ => false)
  | _ => false

theorem syntaxErrorWitness_sound (uc : UC) (fuel npl : Nat) (text : List Char)
    (h : syntaxErrorWitness uc fuel npl text = true) :
    (lexedOf uc text).error = [] ∧ ∃ t d incs, parserDiagnostics uc fuel npl text = .ok (t, d) ∧
      d ≠ [] ∧ includesOfTree (cnodeOf t) = .ok incs := by
  unfold syntaxErrorWitness at h
  simp only [Bool.and_eq_true, List.isEmpty_iff] at h
  refine ⟨h.1, ?_⟩
  have h2 := h.2
  split at h2
  · rename_i t x xs hp
    split at h2
    · rename_i incs hi
      exact ⟨t, x :: xs, incs, hp, by simp, hi⟩
    · cases h2
  · cases h2

section Examples
open Oq3.Props.C14 (ucAscii)

/-- `int x = 1;`: no lexer error, no parser diagnostic, an AST, no include -/
theorem ex_clean : cleanWitness ucAscii 200 2000 "int x = 1;".toList = true := by decide +kernel

/-- … so `analyzeText_clean` applies to it (hypotheses satisfiable), and the analysis really runs -/
example : ∃ ast, analyzeText 1000 ucAscii 200 2000 "int x = 1;".toList =
    match Sema.analyzeWith 1000 ast with
    | .ok c => .ok (some (c, []))
    | .error o => .error (.sema o) := by
  obtain ⟨he, t, ast, hp, ha, hn⟩ := cleanWitness_sound _ _ _ _ ex_clean
  exact ⟨ast, analyzeText_clean 1000 ucAscii 200 2000 _ t ast he hp ha hn⟩

example : (match analyzeText 1000 ucAscii 200 2000 "int x = 1; x = 2;".toList with
    | .ok (some (c, [])) => c.program.length == 2 && c.semanticErrors.isEmpty
    | _ => false) = true := by decide +kernel

/-- a text with `include "stdgates.inc";` only: still "without real includes" -/
example : cleanWitness ucAscii 400 4000 "include \"stdgates.inc\"; qubit q; h q;".toList = true := by
  decide +kernel

/-- `int x = 0b;`: a lexer error (`0b` without digits) -/
theorem ex_lex_error : (lexedOf ucAscii "int x = 0b;".toList).error ≠ [] := by decide +kernel

example : LexRejected ucAscii "int x = 0b;".toList := lexRejected_of_error _ _ ex_lex_error

example : (match checkLexParse ucAscii 200 2000 "int x = 0b;".toList with
    | .ok (none, [e]) => e.start == 8 && e.stop == 10 &&
        e.msg == "Missing digits after the integer base prefix"
    | _ => false) = true := by decide +kernel

/-- `int x` (no semicolon): no lexer error, a tree, one parser diagnostic -/
theorem ex_syntax_error : syntaxErrorWitness ucAscii 200 2000 "int x".toList = true := by
  decide +kernel

example : analyzeText 1000 ucAscii 200 2000 "int x".toList = .ok none := by
  obtain ⟨he, t, d, incs, hp, hd, hi⟩ := syntaxErrorWitness_sound _ _ _ _ ex_syntax_error
  exact analyzeText_syntax_error 1000 ucAscii 200 2000 _ t d incs he hp hd hi

example : (match checkLexParse ucAscii 200 2000 "int x".toList with
    | .ok (some _, d) => d.length
    | _ => 0) = 1 := by decide +kernel

/-- an instance of a class theorem of (3): `0b` right after the admissible layout `x =␣` -/
example : LexRejected ucAscii
    (sepText [] ++ itemsTextK [(.word ['x'], [.ws [' ']]), (.punct '=', [.ws [' ']])] ['0', 'b', ';']) :=
  rejected_empty_int ucAscii_ok [] _ .bin [';'] (by decide) (by decide +kernel) (by decide +kernel)

end Examples

end Oq3.Props.C11Stages
