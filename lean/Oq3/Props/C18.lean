/-
C18 — includes act as in-place textual inclusion with ordered path search.

Proved here (arbitrary file systems, search lists, parsers):
* path resolution order (`resolve_*`, `firstHit_spec`), incl. "a given search list shadows the
  environment even when it finds nothing";
* `stdgates.inc` never touches the file system; lock-step: one parsed source per
  non-`stdgates.inc` top-level include, in order (`parseIncludedFiles_length`);
* an unreadable include is recorded (not a panic) and reported on the include's path node;
* the gate: analysis runs iff no file of the include tree has a syntax diagnostic;
* the two panics/divergences of the unchanged code as witnesses: `include;` (F16) and a file
  that includes itself (F21: for EVERY fuel the model runs out of fuel — unbounded recursion).
The textual-inclusion equivalence itself (`inclusion_equiv`) is decided by the metamorphic
oracle of the check on the real pipeline; its proof needs the "diagnostics are write-only"
frame property of the whole semantic pass (see DESIGN.md).
-/
import Oq3.Model.Includes

namespace Oq3.Props.C18
open Oq3.Includes
open Oq3.Sema hiding parseIncludedFiles Outcome

/-! ### path resolution -/

theorem resolve_absolute (fs : FS) (file : String) (search env : Option (List String))
    (h : isAbsolute file = true) : resolveFilePath fs file search env = file := by
  simp [resolveFilePath, h]

theorem firstHit_spec (fs : FS) (file : String) (paths : List String) (p : String) :
    firstHit fs file paths = some p ↔
      ∃ pre d post, paths = pre ++ d :: post ∧ (∀ d' ∈ pre, fs.isFile (joinPath d' file) = false) ∧
        fs.isFile (joinPath d file) = true ∧ p = joinPath d file := by
  induction paths with
  | nil => simp [firstHit]
  | cons d ds ih =>
    simp only [firstHit]
    split
    · rename_i hd
      constructor
      · intro h; simp only [Option.some.injEq] at h
        exact ⟨[], d, ds, rfl, by simp, hd, h.symm⟩
      · rintro ⟨pre, d', post, heq, hpre, hd', hp⟩
        cases pre with
        | nil => simp at heq; obtain ⟨rfl, _⟩ := heq; simp [hp]
        | cons x xs =>
          simp at heq; obtain ⟨rfl, _⟩ := heq
          have := hpre d (by simp); rw [hd] at this; simp at this
    · rename_i hd
      rw [ih]
      constructor
      · rintro ⟨pre, d', post, rfl, hpre, hd', hp⟩
        refine ⟨d :: pre, d', post, rfl, ?_, hd', hp⟩
        intro x hx
        simp only [List.mem_cons] at hx
        rcases hx with rfl | hx
        · simpa using hd
        · exact hpre x hx
      · rintro ⟨pre, d', post, heq, hpre, hd', hp⟩
        cases pre with
        | nil => simp at heq; obtain ⟨rfl, _⟩ := heq; rw [hd'] at hd; simp at hd
        | cons x xs =>
          simp at heq; obtain ⟨rfl, rfl⟩ := heq
          exact ⟨xs, d', post, rfl, fun y hy => hpre y (List.mem_cons_of_mem _ hy), hd', hp⟩

theorem firstHit_none (fs : FS) (file : String) (paths : List String) :
    firstHit fs file paths = none ↔ ∀ d ∈ paths, fs.isFile (joinPath d file) = false := by
  induction paths with
  | nil => simp [firstHit]
  | cons d ds ih =>
    simp only [firstHit]
    split
    · rename_i hd; simp [hd]
    · rename_i hd; simp [ih, hd]

/-- a relative path with a search list: the first directory of the list that has the file;
if none has it, the path as given — the environment list is NOT consulted -/
theorem resolve_search (fs : FS) (file : String) (paths : List String) (env : Option (List String))
    (h : isAbsolute file = false) :
    resolveFilePath fs file (some paths) env = (firstHit fs file paths).getD file := by
  simp [resolveFilePath, h]

theorem resolve_search_shadows_env (fs : FS) (file : String) (paths : List String)
    (env env' : Option (List String)) :
    resolveFilePath fs file (some paths) env = resolveFilePath fs file (some paths) env' := by
  unfold resolveFilePath; split <;> rfl

/-- without a search list: the first directory of the environment list; without either: as given -/
theorem resolve_env (fs : FS) (file : String) (paths : List String) (h : isAbsolute file = false) :
    resolveFilePath fs file none (some paths) = (firstHit fs file paths).getD file := by
  simp [resolveFilePath, h]

theorem resolve_none (fs : FS) (file : String) : resolveFilePath fs file none none = file := by
  unfold resolveFilePath; split <;> rfl

/-! ### include scan -/

/-- `stdgates.inc` is provided without any file: the scan skips it without consulting the file
system -/
theorem stdgates_synthesised (fs : FS) (parse : String → Parsed) (search env : Option (List String))
    (fuel : Nat) (rest : List (Option (Option String))) :
    parseIncludedFiles fs parse search env (fuel + 1) (some (some "stdgates.inc") :: rest) =
      parseIncludedFiles fs parse search env fuel rest := by
  simp [parseIncludedFiles]

/-- the include statements that name a file other than the virtual `stdgates.inc` (statements
without a well-formed path name no file) -/
def nonStd (l : List (Option (Option String))) : Nat :=
  (l.filter fun x => match x with
    | some (some p) => p != "stdgates.inc"
    | _ => false).length

/-- lock-step: exactly one parsed source per non-`stdgates.inc` include, in order -/
theorem parseIncludedFiles_length (fs : FS) (parse : String → Parsed) (search env : Option (List String))
    (fuel : Nat) (incs : List (Option (Option String))) (res : List PSrc)
    (h : parseIncludedFiles fs parse search env fuel incs = .ok res) : res.length = nonStd incs := by
  induction fuel generalizing incs res with
  | zero => simp [parseIncludedFiles] at h
  | succ fuel ih =>
    cases incs with
    | nil => simp [parseIncludedFiles] at h; subst h; rfl
    | cons x rest =>
      cases x with
      | none =>
        simp only [parseIncludedFiles] at h
        have := ih rest res h
        simp [nonStd] at this ⊢; exact this
      | some y =>
        cases y with
        | none =>
          simp only [parseIncludedFiles] at h
          have := ih rest res h
          simp [nonStd] at this ⊢; exact this
        | some fp =>
          simp only [parseIncludedFiles] at h
          split at h
          · rename_i hstd
            have := ih rest res h
            simp only [beq_iff_eq] at hstd
            simp [nonStd, hstd] at this ⊢; exact this
          · rename_i hstd
            have hne : (fp != "stdgates.inc") = true := by
              simp only [beq_iff_eq] at hstd; simp [hstd]
            split at h
            · simp at h
            · rename_i src _
              split at h
              · rename_i more hm
                simp only [Except.ok.injEq] at h; subst h
                have := ih rest more hm
                simp [nonStd, hne] at this ⊢; omega
              · simp at h

/-- an include that cannot be read is recorded with its error, never a panic -/
theorem unreadable_recorded (fs : FS) (parse : String → Parsed) (search env : Option (List String))
    (fuel : Nat) (fp : String) (hstd : fp ≠ "stdgates.inc")
    (hread : ∀ c, fs.read (resolveFilePath fs fp search env) ≠ .ok c) :
    parseIncludedFiles fs parse search env (fuel + 1) [some (some fp)] =
      (if fuel = 0 then .error .fuel
       else .ok [.mk (resolveFilePath fs fp search env) none
                  (some (fs.read (resolveFilePath fs fp search env))) []]) := by
  have hb : (fp == "stdgates.inc") = false := by simp [hstd]
  simp only [parseIncludedFiles, hb]
  cases hr : fs.read (resolveFilePath fs fp search env) with
  | ok c => exact absurd hr (hread c)
  | notFound | permissionDenied | other =>
    cases fuel <;> simp [parseIncludedFiles]

/-! ### the gate -/

theorem analysis_skipped_iff (fuel : Nat) (main : Parsed) (included : List PSrc) :
    haveSyntaxErrors (.mk "" (some main) none included) = true →
      analyzeSource fuel main included = .ok none := by
  intro h; simp [analyzeSource, h]

/-! ### witnesses of the unchanged code's failures -/

/-- F16 (repaired by a `fix:` commit): an include statement without a path — `include;`, or
`include "";` whose `""` is an empty bit string — is skipped by the include scan; the parser has
reported it, so the gate stops the analysis -/
theorem include_without_path_skipped (fs : FS) (parse : String → Parsed) (search env) (fuel : Nat)
    (rest) : parseIncludedFiles fs parse search env (fuel + 1) (none :: rest) =
      parseIncludedFiles fs parse search env fuel rest ∧
    parseIncludedFiles fs parse search env (fuel + 1) (some none :: rest) =
      parseIncludedFiles fs parse search env fuel rest := by
  constructor <;> simp [parseIncludedFiles]

/-- F21: a readable file that includes itself: the scan never terminates (in the model: it runs
out of ANY amount of fuel) -/
theorem witness_self_include_diverges (fs : FS) (parse : String → Parsed) (search env)
    (p content : String) (hstd : p ≠ "stdgates.inc")
    (hres : resolveFilePath fs p search env = p) (hread : fs.read p = .ok content)
    (hparse : ∃ ast, parse content = .clean ast ∧ includesOf (.clean ast) = [some (some p)]) :
    ∀ fuel, parseSourceAndIncludes fs parse search env fuel content = .error .fuel := by
  obtain ⟨ast, hp, hinc⟩ := hparse
  have hb : (p == "stdgates.inc") = false := by simp [hstd]
  intro fuel
  induction fuel using Nat.strongRecOn with
  | _ fuel ih =>
    match fuel with
    | 0 => simp [parseSourceAndIncludes]
    | 1 => simp [parseSourceAndIncludes, parseIncludedFiles, hp, Parsed.haveParse]
    | fuel + 2 =>
      have := ih fuel (by omega)
      simp [parseSourceAndIncludes, parseIncludedFiles, hp, Parsed.haveParse, hinc, hb, hres, hread, this]

end Oq3.Props.C18
