/-
C12, semantic clause — definitions and base lemmas.

* `Ast.*.spans`: every text range that occurs anywhere in an I5 subtree (statements, expressions,
  names, identifiers, designators, types, operands, parameter lists, …), recursively — exactly the
  `(start end)` pairs the `ast` dump carries.
* `ErrIn L x`: on every successful run of `x` the diagnostics are only appended, and every appended
  diagnostic carries a range of `L`.  It composes along `>>=` and is monotone in `L`.
* one lemma per primitive / non-recursive function of `Model/SemaCtx.lean`, in the form
  "`<ranges of the arguments> ⊆ L → ErrIn L (f args)`".

The closure over the mutual block is generated (`Props/C12SemaGen.lean`), the property theorem is in
`Props/C12Sema.lean`.
-/
import Lean
import Oq3.Lemmas.SemaInvGen

namespace Oq3.Ast

/-! ### all ranges of a subtree -/

def optNameSpans : Option Name → List Span
  | some n => [n.span] | none => []

def optIdentifierSpans : Option Identifier → List Span
  | some n => [n.span] | none => []

def optLiteralSpans : Option Literal → List Span
  | some n => [n.span] | none => []

def ParamList.spans (p : ParamList) : List Span := p.span :: p.params.map (·.span)

def optParamListSpans : Option ParamList → List Span
  | some p => p.spans | none => []

mutual
def Expr.spans : Expr → List Span
  | .prefixExpr s _ e => s :: optExprSpans e
  | .parenExpr p => p.spans
  | .binExpr s _ l r => s :: (optExprSpans l ++ optExprSpans r)
  | .literal l => [l.span]
  | .timingLiteral s _ _ lit => s :: optLiteralSpans lit
  | .identifier i => [i.span]
  | .hardwareQubit h => [h.span]
  | .rangeExpr r => r.spans
  | .indexExpr s e i => s :: (optExprSpans e ++ optIndexOperatorSpans i)
  | .indexedIdentifier i => i.spans
  | .measureExpression s g => s :: optGateOperandSpans g
  | .returnExpr s e => s :: optExprSpans e
  | .castExpression s st e => s :: (optScalarTypeSpans st ++ optExprSpans e)
  | .callExpr s a i => s :: (optArgListSpans a ++ optIdentifierSpans i)
  | .gateCallExpr g => g.spans
  | .gPhaseCallExpr g => g.spans
  | .modifiedGateCallExpr s ms g p =>
    s :: (modifiersSpans ms ++ (optGateCallExprSpans g ++ optGPhaseCallExprSpans p))
  | .unsupported _ s => [s]
def ParenExpr.spans : ParenExpr → List Span
  | .mk s e => s :: optExprSpans e
def RangeExpr.spans : RangeExpr → List Span
  | .mk s a b c => s :: (optExprSpans a ++ (optExprSpans b ++ optExprSpans c))
def Designator.spans : Designator → List Span
  | .mk s e => s :: optExprSpans e
def ScalarType.spans : ScalarType → List Span
  | .mk s _ d st => s :: (optDesignatorSpans d ++ optScalarTypeSpans st)
def ExpressionList.spans : ExpressionList → List Span
  | .mk s es => s :: exprsSpans es
def SetExpression.spans : SetExpression → List Span
  | .mk s el => s :: optExpressionListSpans el
def IndexKind.spans : IndexKind → List Span
  | .setExpression s => s.spans
  | .expressionList e => e.spans
def IndexOperator.spans : IndexOperator → List Span
  | .mk s k => s :: optIndexKindSpans k
def IndexedIdentifier.spans : IndexedIdentifier → List Span
  | .mk s i ixs => s :: (optIdentifierSpans i ++ indexOperatorsSpans ixs)
def GateOperand.spans : GateOperand → List Span
  | .hardwareQubit h => [h.span]
  | .identifier i => [i.span]
  | .indexedIdentifier i => i.spans
def QubitList.spans : QubitList → List Span
  | .mk s gs => s :: gateOperandsSpans gs
def ArgList.spans : ArgList → List Span
  | .mk s el => s :: optExpressionListSpans el
def GateCallExpr.spans : GateCallExpr → List Span
  | .mk s q a i => s :: (optQubitListSpans q ++ (optArgListSpans a ++ optIdentifierSpans i))
def GPhaseCallExpr.spans : GPhaseCallExpr → List Span
  | .mk s e => s :: optExprSpans e
def Modifier.spans : Modifier → List Span
  | .invModifier s => [s]
  | .powModifier s p | .ctrlModifier s p | .negCtrlModifier s p => s :: optParenExprSpans p
def optExprSpans : Option Expr → List Span
  | none => [] | some e => e.spans
def exprsSpans : List Expr → List Span
  | [] => [] | e :: es => e.spans ++ exprsSpans es
def optParenExprSpans : Option ParenExpr → List Span
  | none => [] | some e => e.spans
def optDesignatorSpans : Option Designator → List Span
  | none => [] | some e => e.spans
def optScalarTypeSpans : Option ScalarType → List Span
  | none => [] | some e => e.spans
def optExpressionListSpans : Option ExpressionList → List Span
  | none => [] | some e => e.spans
def optIndexKindSpans : Option IndexKind → List Span
  | none => [] | some e => e.spans
def optIndexOperatorSpans : Option IndexOperator → List Span
  | none => [] | some e => e.spans
def indexOperatorsSpans : List IndexOperator → List Span
  | [] => [] | e :: es => e.spans ++ indexOperatorsSpans es
def optGateOperandSpans : Option GateOperand → List Span
  | none => [] | some e => e.spans
def gateOperandsSpans : List GateOperand → List Span
  | [] => [] | e :: es => e.spans ++ gateOperandsSpans es
def optQubitListSpans : Option QubitList → List Span
  | none => [] | some e => e.spans
def optArgListSpans : Option ArgList → List Span
  | none => [] | some e => e.spans
def optGateCallExprSpans : Option GateCallExpr → List Span
  | none => [] | some e => e.spans
def optGPhaseCallExprSpans : Option GPhaseCallExpr → List Span
  | none => [] | some e => e.spans
def modifiersSpans : List Modifier → List Span
  | [] => [] | e :: es => e.spans ++ modifiersSpans es
end

def ParamType.spans : ParamType → List Span
  | .scalarType s => s.spans
  | .arrayRefType s => [s]

def optParamTypeSpans : Option ParamType → List Span
  | some p => p.spans | none => []

def TypedParam.spans (p : TypedParam) : List Span :=
  p.span :: (optParamTypeSpans p.paramType ++ optNameSpans p.name)

def typedParamsSpans : List TypedParam → List Span
  | [] => [] | p :: ps => p.spans ++ typedParamsSpans ps

def optTypedParamListSpans : Option TypedParamList → List Span
  | some l => l.span :: typedParamsSpans l.typedParams | none => []

def optReturnSignatureSpans : Option ReturnSignature → List Span
  | some r => r.span :: optScalarTypeSpans r.scalarType | none => []

def optQubitTypeSpans : Option QubitType → List Span
  | some q => q.span :: optDesignatorSpans q.designator | none => []

def optForIterableSpans : Option ForIterable → List Span
  | some f => f.span :: ((match f.setExpression with | some s => s.spans | none => []) ++
      ((match f.rangeExpr with | some s => s.spans | none => []) ++ optExprSpans f.forIterableExpr))
  | none => []

def optHardwareQubitSpans : Option HardwareQubit → List Span
  | some h => [h.span] | none => []

def optFilePathSpans : Option FilePath → List Span
  | some h => [h.span] | none => []

def optIndexedIdentifierSpans : Option IndexedIdentifier → List Span
  | some i => i.spans | none => []

mutual
def Stmt.spans : Stmt → List Span
  | .ifStmt s c t f => s :: (optExprSpans c ++ (accBosSpans t ++ optBosSpans f))
  | .whileStmt s c b => s :: (optExprSpans c ++ accBosSpans b)
  | .forStmt s v st it b =>
    s :: (optNameSpans v ++ (optScalarTypeSpans st ++ (optForIterableSpans it ++ accBosSpans b)))
  | .switchCaseStmt s c cs d => s :: (optExprSpans c ++ (casesSpans cs ++ optBlockSpans d))
  | .classicalDeclarationStatement s _ st _ n e =>
    s :: (optScalarTypeSpans st ++ (optNameSpans n ++ optExprSpans e))
  | .ioDeclarationStatement s _ st n _ => s :: (optScalarTypeSpans st ++ optNameSpans n)
  | .quantumDeclarationStatement s n h qt =>
    s :: (optNameSpans n ++ (optHardwareQubitSpans h ++ optQubitTypeSpans qt))
  | .assignmentStmt s i rhs ii =>
    s :: (optIdentifierSpans i ++ (optExprSpans rhs ++ optIndexedIdentifierSpans ii))
  | .breakStmt s | .continueStmt s | .endStmt s => [s]
  | .gate s n a q b =>
    s :: (optNameSpans n ++ (optParamListSpans a ++ (optParamListSpans q ++ optBlockSpans b)))
  | .defStmt s n tp b rs =>
    s :: (optNameSpans n ++ (optTypedParamListSpans tp ++ (optBlockSpans b ++ optReturnSignatureSpans rs)))
  | .barrier s q => s :: optQubitListSpans q
  | .delayStmt s q d => s :: (optQubitListSpans q ++ optDesignatorSpans d)
  | .reset s g => s :: optGateOperandSpans g
  | .includeStmt s f => s :: optFilePathSpans f
  | .exprStmt s e => s :: optExprSpans e
  | .versionString s => [s]
  | .pragmaStatement s _ => [s]
  | .annotationStatement s _ => [s]
  | .aliasDeclarationStatement s n e => s :: (optNameSpans n ++ optExprSpans e)
  | .notImpl _ s => [s]
def BlockExpr.spans : BlockExpr → List Span
  | .mk s ss => s :: stmtsSpans ss
def BlockOrStmt.spans : BlockOrStmt → List Span
  | .blockExpr b => b.spans
  | .stmt s => s.spans
def CaseExpr.spans : CaseExpr → List Span
  | .mk s el b => s :: (optExpressionListSpans el ++ optBlockSpans b)
def stmtsSpans : List Stmt → List Span
  | [] => [] | s :: ss => s.spans ++ stmtsSpans ss
def casesSpans : List CaseExpr → List Span
  | [] => [] | s :: ss => s.spans ++ casesSpans ss
def optBlockSpans : Option BlockExpr → List Span
  | none => [] | some b => b.spans
def optBosSpans : Option BlockOrStmt → List Span
  | none => [] | some b => b.spans
def accBosSpans : Acc BlockOrStmt → List Span
  | .panicked => [] | .ok b => b.spans
end

/-- **every range that occurs in the I5 tree of a program** -/
def spans (p : Program) : List Span := p.span :: stmtsSpans p.statements

/-! ### a node's own range is among the ranges of its subtree -/

theorem ParenExpr.span_mem (p : ParenExpr) : p.span ∈ p.spans := by
  cases p; simp [ParenExpr.span, ParenExpr.spans]
theorem RangeExpr.span_mem (p : RangeExpr) : p.span ∈ p.spans := by
  cases p; simp [RangeExpr.span, RangeExpr.spans]
theorem Designator.span_mem (p : Designator) : p.span ∈ p.spans := by
  cases p; simp [Designator.span, Designator.spans]
theorem IndexedIdentifier.span_mem (p : IndexedIdentifier) : p.span ∈ p.spans := by
  cases p; simp [IndexedIdentifier.span, IndexedIdentifier.spans]
theorem QubitList.span_mem (p : QubitList) : p.span ∈ p.spans := by
  cases p; simp [QubitList.span, QubitList.spans]
theorem ArgList.span_mem (p : ArgList) : p.span ∈ p.spans := by
  cases p; simp [ArgList.span, ArgList.spans]
theorem GateCallExpr.span_mem (p : GateCallExpr) : p.span ∈ p.spans := by
  cases p; simp [GateCallExpr.span, GateCallExpr.spans]
theorem GPhaseCallExpr.span_mem (p : GPhaseCallExpr) : p.span ∈ p.spans := by
  cases p; simp [GPhaseCallExpr.span, GPhaseCallExpr.spans]
theorem GateOperand.span_mem (p : GateOperand) : p.span ∈ p.spans := by
  cases p <;> simp [GateOperand.span, GateOperand.spans, IndexedIdentifier.span_mem]
theorem Expr.span_mem (e : Expr) : e.span ∈ e.spans := by
  cases e <;> simp [Expr.span, Expr.spans, ParenExpr.span_mem, RangeExpr.span_mem,
    IndexedIdentifier.span_mem, GateCallExpr.span_mem, GPhaseCallExpr.span_mem]

@[simp] theorem ParenExpr.span_mk (s : Span) {x0} : (ParenExpr.mk s x0).span = s := rfl
@[simp] theorem RangeExpr.span_mk (s : Span) {x0 x1 x2} : (RangeExpr.mk s x0 x1 x2).span = s := rfl
@[simp] theorem Designator.span_mk (s : Span) {x0} : (Designator.mk s x0).span = s := rfl
@[simp] theorem ExpressionList.span_mk (s : Span) {x0} : (ExpressionList.mk s x0).span = s := rfl
@[simp] theorem SetExpression.span_mk (s : Span) {x0} : (SetExpression.mk s x0).span = s := rfl
@[simp] theorem IndexOperator.span_mk (s : Span) {x0} : (IndexOperator.mk s x0).span = s := rfl
@[simp] theorem IndexedIdentifier.span_mk (s : Span) {x0 x1} : (IndexedIdentifier.mk s x0 x1).span = s := rfl
@[simp] theorem QubitList.span_mk (s : Span) {x0} : (QubitList.mk s x0).span = s := rfl
@[simp] theorem ArgList.span_mk (s : Span) {x0} : (ArgList.mk s x0).span = s := rfl
@[simp] theorem GateCallExpr.span_mk (s : Span) {x0 x1 x2} : (GateCallExpr.mk s x0 x1 x2).span = s := rfl
@[simp] theorem GPhaseCallExpr.span_mk (s : Span) {x0} : (GPhaseCallExpr.mk s x0).span = s := rfl
@[simp] theorem BlockExpr.span_mk (s : Span) {x0} : (BlockExpr.mk s x0).span = s := rfl
@[simp] theorem CaseExpr.span_mk (s : Span) {x0 x1} : (CaseExpr.mk s x0 x1).span = s := rfl
@[simp] theorem GateOperand.span_hardwareQubit (h : HardwareQubit) :
    (GateOperand.hardwareQubit h).span = h.span := rfl
@[simp] theorem GateOperand.span_identifier (i : Identifier) :
    (GateOperand.identifier i).span = i.span := rfl
@[simp] theorem GateOperand.span_indexedIdentifier (i : IndexedIdentifier) :
    (GateOperand.indexedIdentifier i).span = i.span := rfl

/-! the same, relative to a superset (used as conditional rewrite rules) -/
theorem Expr.span_mem_of {e : Expr} {L : List Span} (h : e.spans ⊆ L) : e.span ∈ L := h e.span_mem
theorem ParenExpr.span_mem_of {e : ParenExpr} {L : List Span} (h : e.spans ⊆ L) : e.span ∈ L := h e.span_mem
theorem RangeExpr.span_mem_of {e : RangeExpr} {L : List Span} (h : e.spans ⊆ L) : e.span ∈ L := h e.span_mem
theorem Designator.span_mem_of {e : Designator} {L : List Span} (h : e.spans ⊆ L) : e.span ∈ L := h e.span_mem
theorem IndexedIdentifier.span_mem_of {e : IndexedIdentifier} {L : List Span} (h : e.spans ⊆ L) :
    e.span ∈ L := h e.span_mem
theorem QubitList.span_mem_of {e : QubitList} {L : List Span} (h : e.spans ⊆ L) : e.span ∈ L := h e.span_mem
theorem ArgList.span_mem_of {e : ArgList} {L : List Span} (h : e.spans ⊆ L) : e.span ∈ L := h e.span_mem
theorem GateCallExpr.span_mem_of {e : GateCallExpr} {L : List Span} (h : e.spans ⊆ L) : e.span ∈ L :=
  h e.span_mem
theorem GateOperand.span_mem_of {e : GateOperand} {L : List Span} (h : e.spans ⊆ L) : e.span ∈ L :=
  h e.span_mem

end Oq3.Ast

namespace Oq3.Sema
open Oq3.Types Oq3.Symbols Oq3.Ast

open Lean Elab Tactic Meta in
/-- proof-script helper: give the (unique) hypothesis of the form `_ ⊆ _` the accessible name `hsub`
(after `split` the hypothesis may have become inaccessible) -/
elab "name_subset_hyp" : tactic => withMainContext do
  let lctx ← getLCtx
  for decl in lctx do
    if decl.isImplementationDetail then continue
    let ty ← instantiateMVars decl.type
    if ty.isAppOf ``HasSubset.Subset then
      let g ← getMainGoal
      let g' ← g.rename decl.fvarId `hsub
      replaceMainGoal [g']
      return
  throwError "no hypothesis of the form _ ⊆ _"

/-- the range of a diagnostic -/
def SemErr.range (e : SemErr) : Ast.Span := ⟨e.start, e.stop⟩

/-- on success, diagnostics are only appended and every appended one has a range in `L` -/
structure ErrIn (L : List Ast.Span) {α} (x : M α) : Prop where
  run : ∀ s r, x s = .ok r →
    ∃ new, r.2.semanticErrors = s.semanticErrors ++ new ∧ ∀ e ∈ new, e.range ∈ L

theorem ErrIn.of_errs_eq {L} {α} {x : M α}
    (h : ∀ s r, x s = .ok r → r.2.semanticErrors = s.semanticErrors) : ErrIn L x :=
  ⟨fun s r hr => ⟨[], by simp [h s r hr], by simp⟩⟩

theorem ErrIn.of_readOnly {L} {α} {x : M α} (h : ReadOnly x) : ErrIn L x :=
  ErrIn.of_errs_eq (fun s r hr => by rw [h s r hr])

theorem ErrIn.bind {L} {α β} {x : M α} {f : α → M β} (hx : ErrIn L x) (hf : ∀ a, ErrIn L (f a)) :
    ErrIn L (x >>= f) := by
  refine ⟨fun s r h => ?_⟩
  obtain ⟨a, s1, h1, h2⟩ := (M.bind_ok x f s r).mp h
  obtain ⟨n1, e1, m1⟩ := hx.run s (a, s1) h1
  obtain ⟨n2, e2, m2⟩ := (hf a).run s1 r h2
  refine ⟨n1 ++ n2, by rw [e2, e1, List.append_assoc], ?_⟩
  intro e he
  rcases List.mem_append.mp he with h | h
  · exact m1 e h
  · exact m2 e h

theorem ErrIn.mono {L L'} {α} {x : M α} (h : ErrIn L x) (hs : L ⊆ L') : ErrIn L' x :=
  ⟨fun s r hr => let ⟨n, e, m⟩ := h.run s r hr; ⟨n, e, fun x hx => hs (m x hx)⟩⟩

theorem ErrIn.pure {L} {α} (a : α) : ErrIn L (pure a : M α) :=
  ErrIn.of_errs_eq (fun s r h => by simp at h; subst h; rfl)

theorem ErrIn.fail {L} {α} (site : String) : ErrIn L (fail site : M α) :=
  ⟨fun s r h => by simp at h⟩

theorem ErrIn.throw {L} {α} (o : Outcome) : ErrIn L (throw o : M α) :=
  ⟨fun s r h => by simp at h⟩

theorem ErrIn.ite {L} {α} (c : Prop) [Decidable c] {x y : M α} (hx : ErrIn L x) (hy : ErrIn L y) :
    ErrIn L (if c then x else y) := by
  split <;> assumption

theorem unwrap_errIn {L} {α} (site : String) (o : Option α) : ErrIn L (unwrap site o) := by
  cases o <;> unfold unwrap
  · exact ErrIn.fail _
  · exact ErrIn.pure _

/-- the option that was unwrapped is known in the continuation -/
theorem unwrap_bind_errIn {L} {α β} (site : String) (o : Option α) (f : α → M β)
    (h : ∀ a, o = some a → ErrIn L (f a)) : ErrIn L (unwrap site o >>= f) := by
  refine ⟨fun s r hr => ?_⟩
  obtain ⟨b, s1, h1, h2⟩ := (M.bind_ok _ _ s r).mp hr
  obtain ⟨hb, hs⟩ := (unwrap_ok _ _ _ _).mp h1
  simp only at hb hs
  rw [hs] at h2
  exact (h b hb).run s r h2

/-- the value bound from a `pure` is known in the continuation -/
theorem pure_bind_errIn {L} {α β} (a : α) (f : α → M β) (h : ErrIn L (f a)) :
    ErrIn L (pure a >>= f) := by
  refine ⟨fun s r hr => ?_⟩
  rw [M.pure_bind_ok] at hr
  exact h.run s r hr

/-- nothing runs after a panic -/
theorem fail_bind_errIn {L} {α β} (site : String) (f : α → M β) :
    ErrIn L ((fail site : M α) >>= f) := by
  refine ⟨fun s r hr => ?_⟩
  obtain ⟨a, s1, h1, _⟩ := (M.bind_ok _ _ s r).mp hr
  simp at h1

theorem insertError_errIn {L} (k : SemanticErrorKind) (node : Ast.Span) (h : node ∈ L) :
    ErrIn L (insertError k node) := by
  refine ⟨fun s r hr => ?_⟩
  rw [insertError_ok] at hr; subst hr
  exact ⟨[⟨k, node.start, node.stop⟩], rfl, by simpa [SemErr.range] using h⟩

/-- a `symStep` never touches the diagnostics -/
theorem symStep_errs (site : String) (op : Op) (s : Ctx) (r : Out × Ctx)
    (h : symStep site op s = .ok r) : r.2.semanticErrors = s.semanticErrors := by
  obtain ⟨_, hr⟩ := (symStep_ok _ _ _ _).mp h
  subst hr; rfl

theorem symStep_errIn {L} (site : String) (op : Op) : ErrIn L (symStep site op) :=
  ErrIn.of_errs_eq (symStep_errs site op)

theorem newBinding_errIn {L} (name : String) (typ : T) (node : Ast.Span) (h : node ∈ L) :
    ErrIn L (newBinding name typ node) := by
  unfold newBinding
  refine ErrIn.bind (symStep_errIn _ _) (fun out => ?_)
  cases out
  case alreadyBound => exact ErrIn.bind (insertError_errIn _ _ h) (fun _ => ErrIn.pure _)
  all_goals first | exact ErrIn.pure _ | exact ErrIn.fail _

theorem tableLookup_errIn {L} (name : String) : ErrIn L (tableLookup name) :=
  ErrIn.of_readOnly (tableLookup_readOnly name)

theorem lookupSymbol_errIn {L} (name : String) (node : Ast.Span) (h : node ∈ L) :
    ErrIn L (lookupSymbol name node) := by
  unfold lookupSymbol
  refine ErrIn.bind (tableLookup_errIn _) (fun r => ?_)
  dsimp only
  split
  · exact ErrIn.bind (insertError_errIn _ _ h) (fun _ => ErrIn.pure _)
  · exact ErrIn.pure _

theorem lookupGateSymbol_errIn {L} (name : String) (node : Ast.Span) (h : node ∈ L) :
    ErrIn L (lookupGateSymbol name node) := by
  unfold lookupGateSymbol
  refine ErrIn.bind (tableLookup_errIn _) (fun r => ?_)
  dsimp only
  split
  · exact ErrIn.bind (insertError_errIn _ _ h) (fun _ => ErrIn.pure _)
  · exact ErrIn.pure _

theorem lookupIdentifier_errIn {L} (i : Ast.Identifier) (h : i.span ∈ L) :
    ErrIn L (lookupIdentifier i) := by
  unfold lookupIdentifier; exact lookupSymbol_errIn _ _ h

theorem currentScopeType_errIn {L} : ErrIn L currentScopeType :=
  ErrIn.of_readOnly currentScopeType_readOnly

theorem inGlobalScope_errIn {L} : ErrIn L inGlobalScope := by
  unfold inGlobalScope
  exact ErrIn.bind currentScopeType_errIn (fun _ => ErrIn.pure _)

theorem insertConstValue_errIn {L} (id : Nat) (v : TExpr) : ErrIn L (insertConstValue id v) :=
  ErrIn.of_errs_eq (fun s r h => by unfold insertConstValue at h; simp at h; subst h; rfl)

theorem getConstValue_errIn {L} (id : Nat) : ErrIn L (getConstValue id) :=
  ErrIn.of_readOnly (getConstValue_readOnly id)

theorem pushAnnotation_errIn {L} (a : String) : ErrIn L (pushAnnotation a) :=
  ErrIn.of_errs_eq (fun s r h => by unfold pushAnnotation at h; simp at h; subst h; rfl)

theorem annotationsIsEmpty_errIn {L} : ErrIn L annotationsIsEmpty :=
  ErrIn.of_readOnly annotationsIsEmpty_readOnly

theorem takeAnnotations_errIn {L} : ErrIn L takeAnnotations :=
  ErrIn.of_errs_eq (fun s r h => by
    unfold takeAnnotations at h
    simp only [M.get_bind_ok, M.set_bind_ok, M.pure_ok] at h
    subst h; rfl)

theorem insertStmt_errIn {L} (st : Stmt) : ErrIn L (insertStmt st) :=
  ErrIn.of_errs_eq (fun s r h => by unfold insertStmt at h; simp at h; subst h; rfl)

theorem withScope_errIn {L} {α} (k : ScopeType) (body : M α) (hb : ErrIn L body) :
    ErrIn L (withScope k body) := by
  unfold withScope enterScope exitScope
  refine ErrIn.bind (ErrIn.bind (symStep_errIn _ _) (fun _ => ErrIn.pure _)) (fun _ => ?_)
  refine ErrIn.bind hb (fun _ => ?_)
  exact ErrIn.bind (ErrIn.bind (symStep_errIn _ _) (fun _ => ErrIn.pure _)) (fun _ => ErrIn.pure _)

theorem redeclLoop_errIn {L} (node : Ast.Span) (ns : List String) (h : node ∈ L) :
    ErrIn L (redeclLoop node ns) := by
  induction ns with
  | nil => unfold redeclLoop; exact ErrIn.pure _
  | cons n ns ih => unfold redeclLoop; exact ErrIn.bind (insertError_errIn _ _ h) (fun _ => ih)

attribute [local irreducible] SymTab.standardLibraryGates in
theorem standardLibraryGates_errIn {L} (node : Ast.Span) (h : node ∈ L) :
    ErrIn L (standardLibraryGates node) := by
  refine ⟨fun s r hr => ?_⟩
  unfold standardLibraryGates at hr
  simp only [M.get_bind_ok, M.set_bind_ok] at hr
  obtain ⟨n, e, m⟩ := (redeclLoop_errIn node _ h).run _ _ hr
  exact ⟨n, e, m⟩

end Oq3.Sema
