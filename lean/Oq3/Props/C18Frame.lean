/-
C18, step 1 — the diagnostics list is WRITE-ONLY for the semantic pass.

`ErrFrame x`: running `x` from a context `c` is running it from `c` with the diagnostics erased and
then putting `c`'s diagnostics back in front (`x c = lift c.semanticErrors (x (eraseErrs c))`).
It holds for every primitive of `SemaCtx.lean` (`insertError` is the only writer, nothing reads
`semanticErrors`), is closed under `>>=`, and is pushed through the twenty-five functions of the
mutual block of `Sema.lean` by a proof script (one `_frame` lemma per function, induction on fuel).
`ErrFrame.two_runs` is the relational (two-run) reading.

GENERATED proof script (list of functions and binders only; the proofs are checked by Lean).
-/
import Lean
import Oq3.Model.Sema

namespace Oq3.C18E
open Oq3 Oq3.Types Oq3.Symbols Oq3.Sema

/-- the context with the diagnostics erased -/
def eraseErrs (c : Ctx) : Ctx := { c with semanticErrors := [] }

/-- the context with `es` put in front of its diagnostics -/
def withErrs (es : List SemErr) (c : Ctx) : Ctx := { c with semanticErrors := es ++ c.semanticErrors }

/-- put `es` in front of the diagnostics of a result -/
def lift {α} (es : List SemErr) : Except Outcome (α × Ctx) → Except Outcome (α × Ctx)
  | .ok (a, c) => .ok (a, withErrs es c)
  | .error e => .error e

@[simp] theorem eraseErrs_withErrs (es : List SemErr) (c : Ctx) : eraseErrs (withErrs es c) = eraseErrs c := rfl
@[simp] theorem eraseErrs_eraseErrs (c : Ctx) : eraseErrs (eraseErrs c) = eraseErrs c := rfl
@[simp] theorem withErrs_withErrs (a b : List SemErr) (c : Ctx) :
    withErrs a (withErrs b c) = withErrs (a ++ b) c := by
  simp [withErrs, List.append_assoc]
@[simp] theorem withErrs_eraseErrs (c : Ctx) : withErrs c.semanticErrors (eraseErrs c) = c := by
  cases c; simp [withErrs, eraseErrs]
@[simp] theorem withErrs_errs (es : List SemErr) (c : Ctx) :
    (withErrs es c).semanticErrors = es ++ c.semanticErrors := rfl
@[simp] theorem eraseErrs_errs (c : Ctx) : (eraseErrs c).semanticErrors = [] := rfl
theorem withErrs_nil (c : Ctx) : withErrs [] c = c := by cases c; simp [withErrs]

theorem lift_lift {α} (a b : List SemErr) (r : Except Outcome (α × Ctx)) :
    lift a (lift b r) = lift (a ++ b) r := by
  cases r with
  | error e => rfl
  | ok p => obtain ⟨x, c⟩ := p; simp [lift]

/-- `x` neither reads the diagnostics nor does anything to them but append -/
structure ErrFrame {α} (x : M α) : Prop where
  run : ∀ c, x c = lift c.semanticErrors (x (eraseErrs c))

/-- `>>=` on results -/
def bindRes {α β} (r : Except Outcome (α × Ctx)) (f : α → M β) : Except Outcome (β × Ctx) :=
  match r with
  | .ok (a, c) => f a c
  | .error e => .error e

theorem bind_run {α β} (x : M α) (f : α → M β) (c : Ctx) : (x >>= f) c = bindRes (x c) f := by
  show StateT.bind x f c = _
  unfold StateT.bind bindRes
  simp only [bind, Except.bind]
  cases x c with
  | error e => rfl
  | ok p => rfl

theorem pure_run {α} (a : α) (c : Ctx) : (Pure.pure a : M α) c = .ok (a, c) := rfl
theorem get_run (c : Ctx) : (get : M Ctx) c = .ok (c, c) := rfl
theorem set_run (s c : Ctx) : (set s : M PUnit) c = .ok (⟨⟩, s) := rfl
theorem modify_run (f : Ctx → Ctx) (c : Ctx) : (modify f : M PUnit) c = .ok (⟨⟩, f c) := rfl
theorem fail_run {α} (site : String) (c : Ctx) : (Sema.fail site : M α) c = .error (.panic site) := rfl
theorem throw_run {α} (o : Outcome) (c : Ctx) : (throw o : M α) c = .error o := rfl

theorem ErrFrame.pure {α} (a : α) : ErrFrame (Pure.pure a : M α) :=
  ⟨fun c => by simp [pure_run, lift]⟩

theorem ErrFrame.fail {α} (site : String) : ErrFrame (Sema.fail site : M α) := ⟨fun _ => rfl⟩

theorem ErrFrame.throw {α} (o : Outcome) : ErrFrame (throw o : M α) := ⟨fun _ => rfl⟩

theorem ErrFrame.bind {α β} {x : M α} {f : α → M β} (hx : ErrFrame x) (hf : ∀ a, ErrFrame (f a)) :
    ErrFrame (x >>= f) := by
  refine ⟨fun c => ?_⟩
  rw [bind_run, bind_run, hx.run c]
  cases x (eraseErrs c) with
  | error e => rfl
  | ok p =>
    obtain ⟨a, c1⟩ := p
    simp only [lift, bindRes]
    rw [(hf a).run (withErrs c.semanticErrors c1), (hf a).run c1]
    simp only [eraseErrs_withErrs, withErrs_errs]
    cases f a (eraseErrs c1) with
    | error e => rfl
    | ok q => obtain ⟨b, c2⟩ := q; simp [lift]

theorem ErrFrame.unwrap {α} (site : String) (o : Option α) : ErrFrame (Sema.unwrap site o) := by
  cases o with
  | none => exact ErrFrame.fail _
  | some a => exact ErrFrame.pure a

theorem ErrFrame.insertError (k : SemanticErrorKind) (node : Ast.Span) :
    ErrFrame (Sema.insertError k node) :=
  ⟨fun c => by simp [Sema.insertError, modify_run, lift, withErrs, eraseErrs]⟩

/-- a computation whose outcome and state change are functions of the erased context -/
theorem ErrFrame.of_erased {α} {x : M α}
    (h : ∀ c, x c = match x (eraseErrs c) with
      | .ok (a, c1) => .ok (a, { c1 with semanticErrors := c.semanticErrors ++ c1.semanticErrors })
      | .error e => .error e) : ErrFrame x :=
  ⟨fun c => by rw [h c]; cases x (eraseErrs c) with
    | error e => rfl
    | ok p => rfl⟩

theorem ErrFrame.symStep (site : String) (op : Op) : ErrFrame (Sema.symStep site op) := by
  refine ⟨fun c => ?_⟩
  simp only [Sema.symStep, bind_run, get_run, bindRes]
  show _ = lift _ (match ((eraseErrs c).symbolTable.step op).2 with | _ => _)
  have : (eraseErrs c).symbolTable = c.symbolTable := rfl
  cases h : (c.symbolTable.step op).2 <;>
    simp [h, fail_run, set_run, pure_run, bind_run, bindRes, lift, withErrs, eraseErrs]

theorem ErrFrame.currentScopeType : ErrFrame Sema.currentScopeType := by
  refine ⟨fun c => ?_⟩
  simp only [Sema.currentScopeType, bind_run, get_run, bindRes]
  have : (eraseErrs c).symbolTable = c.symbolTable := rfl
  rw [this]
  cases c.symbolTable.stack <;> simp [fail_run, pure_run, lift]

theorem ErrFrame.insertConstValue (id : Nat) (v : TExpr) : ErrFrame (Sema.insertConstValue id v) :=
  ⟨fun c => by simp [Sema.insertConstValue, modify_run, lift, withErrs, eraseErrs]⟩

theorem ErrFrame.getConstValue (id : Nat) : ErrFrame (Sema.getConstValue id) :=
  ⟨fun c => by
    simp only [Sema.getConstValue, bind_run, get_run, bindRes, pure_run, lift]
    cases c; simp [eraseErrs, withErrs]⟩

theorem ErrFrame.pushAnnotation (a : String) : ErrFrame (Sema.pushAnnotation a) :=
  ⟨fun c => by simp [Sema.pushAnnotation, modify_run, lift, withErrs, eraseErrs]⟩

theorem ErrFrame.annotationsIsEmpty : ErrFrame Sema.annotationsIsEmpty :=
  ⟨fun c => by
    simp only [Sema.annotationsIsEmpty, bind_run, get_run, bindRes, pure_run, lift]
    cases c; simp [eraseErrs, withErrs]⟩

theorem ErrFrame.takeAnnotations : ErrFrame Sema.takeAnnotations :=
  ⟨fun c => by
    simp only [Sema.takeAnnotations, bind_run, get_run, set_run, bindRes, pure_run, lift]
    simp [eraseErrs, withErrs]⟩

theorem ErrFrame.insertStmt (s : Stmt) : ErrFrame (Sema.insertStmt s) :=
  ⟨fun c => by simp [Sema.insertStmt, modify_run, lift, withErrs, eraseErrs]⟩

open Lean Elab Tactic Meta in
/-- the program `x` of a goal `ErrFrame x` -/
def efProgram (g : MVarId) : MetaM (Option Lean.Expr) := do
  let t ← instantiateMVars (← g.getType)
  let t := t.consumeMData
  if t.isAppOfArity ``ErrFrame 2 then return some (t.getArg! 1).consumeMData else return none

open Lean Elab Tactic Meta in
/-- cheap guard: the head symbol of the program of the goal -/
elab "ef_head " id:ident : tactic => withMainContext do
  let n ← realizeGlobalConstNoOverloadWithInfo id
  match ← efProgram (← getMainGoal) with
  | some x =>
    match x.getAppFn.consumeMData with
    | Lean.Expr.const m _ => if m == n then pure () else throwError "head"
    | _ => throwError "head"
  | none => throwError "not an ErrFrame goal"

open Lean Elab Tactic Meta in
elab "ef_is_split" : tactic => withMainContext do
  match ← efProgram (← getMainGoal) with
  | some x =>
    match x.getAppFn.consumeMData with
    | Lean.Expr.const m _ =>
      if m == ``ite || m == ``dite then pure ()
      else if (← isMatcher m) then pure ()
      else throwError "not a split"
    | _ => throwError "not a split"
  | none => throwError "not an ErrFrame goal"

syntax "ef_lemma" : tactic
macro_rules | `(tactic| ef_lemma) => `(tactic| fail "no lemma")
syntax "ef_ih" : tactic
macro_rules | `(tactic| ef_ih) => `(tactic| fail "no ih")

macro "ef_step" : tactic => `(tactic| first
  | (cases ‹_ + 1 = Nat.succ _›)
  | (ef_head Sema.fail; exact ErrFrame.fail _)
  | (ef_head throw; exact ErrFrame.throw _)
  | (ef_head Sema.unwrap; exact ErrFrame.unwrap _ _)
  | (ef_head Pure.pure; exact ErrFrame.pure _)
  | (ef_head Sema.insertError; exact ErrFrame.insertError _ _)
  | (ef_head Sema.symStep; exact ErrFrame.symStep _ _)
  | (ef_head Sema.currentScopeType; exact ErrFrame.currentScopeType)
  | (ef_head Sema.insertConstValue; exact ErrFrame.insertConstValue _ _)
  | (ef_head Sema.getConstValue; exact ErrFrame.getConstValue _)
  | (ef_head Sema.pushAnnotation; exact ErrFrame.pushAnnotation _)
  | (ef_head Sema.annotationsIsEmpty; exact ErrFrame.annotationsIsEmpty)
  | (ef_head Sema.takeAnnotations; exact ErrFrame.takeAnnotations)
  | (ef_head Sema.insertStmt; exact ErrFrame.insertStmt _)
  | ef_lemma
  | ef_ih
  | (ef_head Bind.bind; with_reducible apply ErrFrame.bind)
  | intro _
  | (ef_is_split; split)
  | dsimp only)

macro "ef" : tactic => `(tactic| repeat' ef_step)

theorem ErrFrame.withScope {α} (k : ScopeType) {body : M α} (h : ErrFrame body) :
    ErrFrame (Sema.withScope k body) := by
  unfold Sema.withScope Sema.enterScope Sema.exitScope
  refine ErrFrame.bind (ErrFrame.bind (ErrFrame.symStep _ _) (fun _ => ErrFrame.pure _)) (fun _ => ?_)
  refine ErrFrame.bind h (fun a => ?_)
  exact ErrFrame.bind (ErrFrame.bind (ErrFrame.symStep _ _) (fun _ => ErrFrame.pure _))
    (fun _ => ErrFrame.pure _)
macro_rules | `(tactic| ef_lemma) => `(tactic| (ef_head Sema.withScope; apply ErrFrame.withScope))

theorem ErrFrame.redeclLoop (node : Ast.Span) (ns : List String) : ErrFrame (Sema.redeclLoop node ns) := by
  induction ns with
  | nil => unfold Sema.redeclLoop; ef
  | cons n ns ih =>
    unfold Sema.redeclLoop
    exact ErrFrame.bind (ErrFrame.insertError _ _) (fun _ => ih)

attribute [local irreducible] SymTab.standardLibraryGates in
theorem ErrFrame.standardLibraryGates (node : Ast.Span) : ErrFrame (Sema.standardLibraryGates node) := by
  refine ⟨fun c => ?_⟩
  simp only [Sema.standardLibraryGates, bind_run, get_run, set_run, bindRes]
  have h := (ErrFrame.redeclLoop node (c.symbolTable.standardLibraryGates).2).run
    { c with symbolTable := (c.symbolTable.standardLibraryGates).1 }
  exact h
macro_rules | `(tactic| ef_lemma) => `(tactic| (ef_head Sema.standardLibraryGates; exact ErrFrame.standardLibraryGates _))

theorem ErrFrame.enterScope (k : ScopeType) : ErrFrame (Sema.enterScope k) := by
  unfold Sema.enterScope; ef
macro_rules | `(tactic| ef_lemma) => `(tactic| (ef_head Sema.enterScope; exact ErrFrame.enterScope _))

theorem ErrFrame.exitScope  : ErrFrame (Sema.exitScope ) := by
  unfold Sema.exitScope; ef
macro_rules | `(tactic| ef_lemma) => `(tactic| (ef_head Sema.exitScope; exact ErrFrame.exitScope ))

theorem ErrFrame.inGlobalScope  : ErrFrame (Sema.inGlobalScope ) := by
  unfold Sema.inGlobalScope; ef
macro_rules | `(tactic| ef_lemma) => `(tactic| (ef_head Sema.inGlobalScope; exact ErrFrame.inGlobalScope ))

theorem ErrFrame.newBinding (name : String) (typ : T) (node : Ast.Span) : ErrFrame (Sema.newBinding name typ node) := by
  unfold Sema.newBinding; ef
macro_rules | `(tactic| ef_lemma) => `(tactic| (ef_head Sema.newBinding; exact ErrFrame.newBinding _ _ _))

theorem ErrFrame.tableLookup (name : String) : ErrFrame (Sema.tableLookup name) := by
  unfold Sema.tableLookup; ef
macro_rules | `(tactic| ef_lemma) => `(tactic| (ef_head Sema.tableLookup; exact ErrFrame.tableLookup _))

theorem ErrFrame.lookupSymbol (name : String) (node : Ast.Span) : ErrFrame (Sema.lookupSymbol name node) := by
  unfold Sema.lookupSymbol; ef
macro_rules | `(tactic| ef_lemma) => `(tactic| (ef_head Sema.lookupSymbol; exact ErrFrame.lookupSymbol _ _))

theorem ErrFrame.lookupGateSymbol (name : String) (node : Ast.Span) : ErrFrame (Sema.lookupGateSymbol name node) := by
  unfold Sema.lookupGateSymbol; ef
macro_rules | `(tactic| ef_lemma) => `(tactic| (ef_head Sema.lookupGateSymbol; exact ErrFrame.lookupGateSymbol _ _))

theorem ErrFrame.notImpl (node : Ast.Span) : ErrFrame (Sema.notImpl node) := by
  unfold Sema.notImpl; ef
macro_rules | `(tactic| ef_lemma) => `(tactic| (ef_head Sema.notImpl; exact ErrFrame.notImpl _))

theorem ErrFrame.binaryOpToAsgType (op : Ast.BinaryOp) : ErrFrame (Sema.binaryOpToAsgType op) := by
  unfold Sema.binaryOpToAsgType; ef
macro_rules | `(tactic| ef_lemma) => `(tactic| (ef_head Sema.binaryOpToAsgType; exact ErrFrame.binaryOpToAsgType _))

theorem ErrFrame.intNumberValue (site text : String) : ErrFrame (Sema.intNumberValue site text) := by
  unfold Sema.intNumberValue; ef
macro_rules | `(tactic| ef_lemma) => `(tactic| (ef_head Sema.intNumberValue; exact ErrFrame.intNumberValue _ _))

theorem ErrFrame.negativeFloatNumberToAsgType (fmt : Option String) : ErrFrame (Sema.negativeFloatNumberToAsgType fmt) := by
  unfold Sema.negativeFloatNumberToAsgType; ef
macro_rules | `(tactic| ef_lemma) => `(tactic| (ef_head Sema.negativeFloatNumberToAsgType; exact ErrFrame.negativeFloatNumberToAsgType _))

theorem ErrFrame.negativeIntToAsgType (text : String) : ErrFrame (Sema.negativeIntToAsgType text) := by
  unfold Sema.negativeIntToAsgType; ef
macro_rules | `(tactic| ef_lemma) => `(tactic| (ef_head Sema.negativeIntToAsgType; exact ErrFrame.negativeIntToAsgType _))

theorem ErrFrame.literalToAsgTexpr (l : Ast.Literal) : ErrFrame (Sema.literalToAsgTexpr l) := by
  unfold Sema.literalToAsgTexpr; ef
macro_rules | `(tactic| ef_lemma) => `(tactic| (ef_head Sema.literalToAsgTexpr; exact ErrFrame.literalToAsgTexpr _))

theorem ErrFrame.lookupIdentifier (i : Ast.Identifier) : ErrFrame (Sema.lookupIdentifier i) := by
  unfold Sema.lookupIdentifier; ef
macro_rules | `(tactic| ef_lemma) => `(tactic| (ef_head Sema.lookupIdentifier; exact ErrFrame.lookupIdentifier _))

theorem ErrFrame.designatorToAsg (d : Option Ast.Designator) : ErrFrame (Sema.designatorToAsg d) := by
  unfold Sema.designatorToAsg; ef
macro_rules | `(tactic| ef_lemma) => `(tactic| (ef_head Sema.designatorToAsg; exact ErrFrame.designatorToAsg _))

theorem ErrFrame.scalarTypeToType (st : Ast.ScalarType) (isconst : Bool) : ErrFrame (Sema.scalarTypeToType st isconst) := by
  unfold Sema.scalarTypeToType; ef
macro_rules | `(tactic| ef_lemma) => `(tactic| (ef_head Sema.scalarTypeToType; exact ErrFrame.scalarTypeToType _ _))

theorem ErrFrame.paramTypeToType (pt : Ast.ParamType) (isconst : Bool) : ErrFrame (Sema.paramTypeToType pt isconst) := by
  unfold Sema.paramTypeToType; ef
macro_rules | `(tactic| ef_lemma) => `(tactic| (ef_head Sema.paramTypeToType; exact ErrFrame.paramTypeToType _ _))

theorem ErrFrame.declareClassicalHelper (sym : SymbolIdResult) (init : Option TExpr) : ErrFrame (Sema.declareClassicalHelper sym init) := by
  unfold Sema.declareClassicalHelper; ef
macro_rules | `(tactic| ef_lemma) => `(tactic| (ef_head Sema.declareClassicalHelper; exact ErrFrame.declareClassicalHelper _ _))

theorem ErrFrame.ioDeclarationStatementToAsgStmt (a : Bool) (st : Option Ast.ScalarType) (n : Option Ast.Name) (i : Bool) : ErrFrame (Sema.ioDeclarationStatementToAsgStmt a st n i) := by
  unfold Sema.ioDeclarationStatementToAsgStmt; ef
macro_rules | `(tactic| ef_lemma) => `(tactic| (ef_head Sema.ioDeclarationStatementToAsgStmt; exact ErrFrame.ioDeclarationStatementToAsgStmt _ _ _ _))

theorem ErrFrame.bindParams (typ : T) (ps : List Ast.Param) : ErrFrame (Sema.bindParams typ ps) := by
  induction ps with
  | nil => unfold Sema.bindParams; ef
  | cons p ps ih =>
    unfold Sema.bindParams
    exact ErrFrame.bind (ErrFrame.newBinding _ _ _) (fun _ => ErrFrame.bind ih (fun _ => ErrFrame.pure _))
macro_rules | `(tactic| ef_lemma) => `(tactic| (ef_head Sema.bindParams; exact ErrFrame.bindParams _ _))

theorem ErrFrame.bindParameterList (pl : Option Ast.ParamList) (typ : T) : ErrFrame (Sema.bindParameterList pl typ) := by
  unfold Sema.bindParameterList; ef
macro_rules | `(tactic| ef_lemma) => `(tactic| (ef_head Sema.bindParameterList; exact ErrFrame.bindParameterList _ _))

macro_rules | `(tactic| ef_lemma) => `(tactic|
  (ef_head Sema.bindTypedParams; exact ‹ErrFrame (Sema.bindTypedParams _)›))
theorem ErrFrame.bindTypedParams (ps : List Ast.TypedParam) : ErrFrame (Sema.bindTypedParams ps) := by
  induction ps with
  | nil => unfold Sema.bindTypedParams; ef
  | cons p ps ih => unfold Sema.bindTypedParams; ef
macro_rules | `(tactic| ef_lemma) => `(tactic| (ef_head Sema.bindTypedParams; exact ErrFrame.bindTypedParams _))

theorem ErrFrame.bindTypedParameterList (pl : Option Ast.TypedParamList) : ErrFrame (Sema.bindTypedParameterList pl) := by
  unfold Sema.bindTypedParameterList; ef
macro_rules | `(tactic| ef_lemma) => `(tactic| (ef_head Sema.bindTypedParameterList; exact ErrFrame.bindTypedParameterList _))

theorem ErrFrame.notGlobalCheck (node : Ast.Span) : ErrFrame (Sema.notGlobalCheck node) := by
  unfold Sema.notGlobalCheck; ef
macro_rules | `(tactic| ef_lemma) => `(tactic| (ef_head Sema.notGlobalCheck; exact ErrFrame.notGlobalCheck _))

theorem ErrFrame.gateNotGlobalCheck (name : Option Ast.Name) : ErrFrame (Sema.gateNotGlobalCheck name) := by
  unfold Sema.gateNotGlobalCheck; ef
macro_rules | `(tactic| ef_lemma) => `(tactic| (ef_head Sema.gateNotGlobalCheck; exact ErrFrame.gateNotGlobalCheck _))

theorem ErrFrame.returnGlobalCheck (node : Ast.Span) : ErrFrame (Sema.returnGlobalCheck node) := by
  unfold Sema.returnGlobalCheck; ef
macro_rules | `(tactic| ef_lemma) => `(tactic| (ef_head Sema.returnGlobalCheck; exact ErrFrame.returnGlobalCheck _))

theorem ErrFrame.delayDurationCheck (d : TExpr) (n : Ast.Span) : ErrFrame (Sema.delayDurationCheck d n) := by
  unfold Sema.delayDurationCheck; ef
macro_rules | `(tactic| ef_lemma) => `(tactic| (ef_head Sema.delayDurationCheck; exact ErrFrame.delayDurationCheck _ _))

theorem ErrFrame.quantumBinopCheck (l r : TExpr) (a b : Option Ast.Expr) : ErrFrame (Sema.quantumBinopCheck l r a b) := by
  unfold Sema.quantumBinopCheck; ef
macro_rules | `(tactic| ef_lemma) => `(tactic| (ef_head Sema.quantumBinopCheck; exact ErrFrame.quantumBinopCheck _ _ _ _))

theorem ErrFrame.gateOperandIdentCheck (t : T) (n : Ast.Span) : ErrFrame (Sema.gateOperandIdentCheck t n) := by
  unfold Sema.gateOperandIdentCheck; ef
macro_rules | `(tactic| ef_lemma) => `(tactic| (ef_head Sema.gateOperandIdentCheck; exact ErrFrame.gateOperandIdentCheck _ _))

theorem ErrFrame.gateOperandIndexedCheck (t : T) (n : Ast.Span) : ErrFrame (Sema.gateOperandIndexedCheck t n) := by
  unfold Sema.gateOperandIndexedCheck; ef
macro_rules | `(tactic| ef_lemma) => `(tactic| (ef_head Sema.gateOperandIndexedCheck; exact ErrFrame.gateOperandIndexedCheck _ _))

theorem ErrFrame.gateCallCheck (sp : Ast.Span) (q : Option Ast.QubitList) (al : Option Ast.ArgList) (g : Ast.Identifier) (sr : SymbolIdResult) (gt : T) (np nq : Nat) : ErrFrame (Sema.gateCallCheck sp q al g sr gt np nq) := by
  unfold Sema.gateCallCheck; ef
macro_rules | `(tactic| ef_lemma) => `(tactic| (ef_head Sema.gateCallCheck; exact ErrFrame.gateCallCheck _ _ _ _ _ _ _ _))

theorem ErrFrame.defArityCheck (a b : Nat) (al : Option Ast.ArgList) : ErrFrame (Sema.defArityCheck a b al) := by
  unfold Sema.defArityCheck; ef
macro_rules | `(tactic| ef_lemma) => `(tactic| (ef_head Sema.defArityCheck; exact ErrFrame.defArityCheck _ _ _))

theorem ErrFrame.mutateConstCheck (ok : Bool) (t : T) (n : Ast.Span) : ErrFrame (Sema.mutateConstCheck ok t n) := by
  unfold Sema.mutateConstCheck; ef
macro_rules | `(tactic| ef_lemma) => `(tactic| (ef_head Sema.mutateConstCheck; exact ErrFrame.mutateConstCheck _ _ _))

/-- all twenty-five functions of the mutual block at one fuel level -/
structure AllFrame (fuel : Nat) : Prop where
  stmtToAsgStmt : ∀ (st : Ast.Stmt), ErrFrame (Sema.stmtToAsgStmt fuel st)
  caseExprsLoop : ∀ (cs : List Ast.CaseExpr), ErrFrame (Sema.caseExprsLoop fuel cs)
  exprStmtToAsgStmt : ∀ (e : Option Ast.Expr), ErrFrame (Sema.exprStmtToAsgStmt fuel e)
  modifiersLoop : ∀ (ms : List Ast.Modifier), ErrFrame (Sema.modifiersLoop fuel ms)
  parenExprToAsgTexpr : ∀ (p : Ast.ParenExpr), ErrFrame (Sema.parenExprToAsgTexpr fuel p)
  exprToAsgTexpr : ∀ (e : Option Ast.Expr), ErrFrame (Sema.exprToAsgTexpr fuel e)
  setExpressionToAsgType : ∀ (se : Ast.SetExpression), ErrFrame (Sema.setExpressionToAsgType fuel se)
  rangeExpressionToAsgType : ∀ (r : Ast.RangeExpr), ErrFrame (Sema.rangeExpressionToAsgType fuel r)
  gateCallExprToAsgStmt : ∀ (gc : Ast.GateCallExpr) (mods : List GateModifier), ErrFrame (Sema.gateCallExprToAsgStmt fuel gc mods)
  callExprToAsgTexpr : ∀ (sp : Ast.Span) (al : Option Ast.ArgList) (i : Option Ast.Identifier), ErrFrame (Sema.callExprToAsgTexpr fuel sp al i)
  gateOperandToAsgTexpr : ∀ (g : Ast.GateOperand), ErrFrame (Sema.gateOperandToAsgTexpr fuel g)
  indexOperatorToAsgType : ∀ (ix : Ast.IndexOperator), ErrFrame (Sema.indexOperatorToAsgType fuel ix)
  expressionListToAsgType : ∀ (el : Ast.ExpressionList), ErrFrame (Sema.expressionListToAsgType fuel el)
  qubitListToAsgTexpr : ∀ (ql : Option Ast.QubitList), ErrFrame (Sema.qubitListToAsgTexpr fuel ql)
  gateOperandsLoop : ∀ (gs : List Ast.GateOperand), ErrFrame (Sema.gateOperandsLoop fuel gs)
  expressionListToAsgTexpr : ∀ (el : Ast.ExpressionList), ErrFrame (Sema.expressionListToAsgTexpr fuel el)
  exprsLoop : ∀ (es : List Ast.Expr), ErrFrame (Sema.exprsLoop fuel es)
  blockExprToAsgStmtList : ∀ (b : Ast.BlockExpr), ErrFrame (Sema.blockExprToAsgStmtList fuel b)
  stmtsLoop : ∀ (ss : List Ast.Stmt), ErrFrame (Sema.stmtsLoop fuel ss)
  blockExprToAsgType : ∀ (b : Ast.BlockExpr), ErrFrame (Sema.blockExprToAsgType fuel b)
  blockOrStmtToAsgType : ∀ (b : Ast.BlockOrStmt), ErrFrame (Sema.blockOrStmtToAsgType fuel b)
  classicalDeclarationStatementToAsgStmt : ∀ (sp : Ast.Span) (arr : Bool) (st : Option Ast.ScalarType) (ct : Bool) (n : Option Ast.Name) (e : Option Ast.Expr), ErrFrame (Sema.classicalDeclarationStatementToAsgStmt fuel sp arr st ct n e)
  assignmentStmtToAsgStmt : ∀ (sp : Ast.Span) (i : Option Ast.Identifier) (rhs : Option Ast.Expr) (ii : Option Ast.IndexedIdentifier), ErrFrame (Sema.assignmentStmtToAsgStmt fuel sp i rhs ii)
  indexedIdentifierToAsgType : ∀ (ii : Ast.IndexedIdentifier), ErrFrame (Sema.indexedIdentifierToAsgType fuel ii)
  indexOperatorsLoop : ∀ (ixs : List Ast.IndexOperator), ErrFrame (Sema.indexOperatorsLoop fuel ixs)

set_option hygiene false in
macro_rules | `(tactic| ef_ih) => `(tactic| first
  | (ef_head Sema.stmtToAsgStmt; exact e_stmtToAsgStmt _)
  | (ef_head Sema.caseExprsLoop; exact e_caseExprsLoop _)
  | (ef_head Sema.exprStmtToAsgStmt; exact e_exprStmtToAsgStmt _)
  | (ef_head Sema.modifiersLoop; exact e_modifiersLoop _)
  | (ef_head Sema.parenExprToAsgTexpr; exact e_parenExprToAsgTexpr _)
  | (ef_head Sema.exprToAsgTexpr; exact e_exprToAsgTexpr _)
  | (ef_head Sema.setExpressionToAsgType; exact e_setExpressionToAsgType _)
  | (ef_head Sema.rangeExpressionToAsgType; exact e_rangeExpressionToAsgType _)
  | (ef_head Sema.gateCallExprToAsgStmt; exact e_gateCallExprToAsgStmt _ _)
  | (ef_head Sema.callExprToAsgTexpr; exact e_callExprToAsgTexpr _ _ _)
  | (ef_head Sema.gateOperandToAsgTexpr; exact e_gateOperandToAsgTexpr _)
  | (ef_head Sema.indexOperatorToAsgType; exact e_indexOperatorToAsgType _)
  | (ef_head Sema.expressionListToAsgType; exact e_expressionListToAsgType _)
  | (ef_head Sema.qubitListToAsgTexpr; exact e_qubitListToAsgTexpr _)
  | (ef_head Sema.gateOperandsLoop; exact e_gateOperandsLoop _)
  | (ef_head Sema.expressionListToAsgTexpr; exact e_expressionListToAsgTexpr _)
  | (ef_head Sema.exprsLoop; exact e_exprsLoop _)
  | (ef_head Sema.blockExprToAsgStmtList; exact e_blockExprToAsgStmtList _)
  | (ef_head Sema.stmtsLoop; exact e_stmtsLoop _)
  | (ef_head Sema.blockExprToAsgType; exact e_blockExprToAsgType _)
  | (ef_head Sema.blockOrStmtToAsgType; exact e_blockOrStmtToAsgType _)
  | (ef_head Sema.classicalDeclarationStatementToAsgStmt; exact e_classicalDeclarationStatementToAsgStmt _ _ _ _ _ _)
  | (ef_head Sema.assignmentStmtToAsgStmt; exact e_assignmentStmtToAsgStmt _ _ _ _)
  | (ef_head Sema.indexedIdentifierToAsgType; exact e_indexedIdentifierToAsgType _)
  | (ef_head Sema.indexOperatorsLoop; exact e_indexOperatorsLoop _))

set_option maxHeartbeats 1600000 in
theorem stmtToAsgStmt_frame (fuel : Nat) (ih : AllFrame fuel) (st : Ast.Stmt) :
    ErrFrame (Sema.stmtToAsgStmt (fuel + 1) st) := by
  obtain ⟨e_stmtToAsgStmt, e_caseExprsLoop, e_exprStmtToAsgStmt, e_modifiersLoop, e_parenExprToAsgTexpr, e_exprToAsgTexpr, e_setExpressionToAsgType, e_rangeExpressionToAsgType, e_gateCallExprToAsgStmt, e_callExprToAsgTexpr, e_gateOperandToAsgTexpr, e_indexOperatorToAsgType, e_expressionListToAsgType, e_qubitListToAsgTexpr, e_gateOperandsLoop, e_expressionListToAsgTexpr, e_exprsLoop, e_blockExprToAsgStmtList, e_stmtsLoop, e_blockExprToAsgType, e_blockOrStmtToAsgType, e_classicalDeclarationStatementToAsgStmt, e_assignmentStmtToAsgStmt, e_indexedIdentifierToAsgType, e_indexOperatorsLoop⟩ := ih
  unfold Sema.stmtToAsgStmt; ef

set_option maxHeartbeats 1600000 in
theorem caseExprsLoop_frame (fuel : Nat) (ih : AllFrame fuel) (cs : List Ast.CaseExpr) :
    ErrFrame (Sema.caseExprsLoop (fuel + 1) cs) := by
  obtain ⟨e_stmtToAsgStmt, e_caseExprsLoop, e_exprStmtToAsgStmt, e_modifiersLoop, e_parenExprToAsgTexpr, e_exprToAsgTexpr, e_setExpressionToAsgType, e_rangeExpressionToAsgType, e_gateCallExprToAsgStmt, e_callExprToAsgTexpr, e_gateOperandToAsgTexpr, e_indexOperatorToAsgType, e_expressionListToAsgType, e_qubitListToAsgTexpr, e_gateOperandsLoop, e_expressionListToAsgTexpr, e_exprsLoop, e_blockExprToAsgStmtList, e_stmtsLoop, e_blockExprToAsgType, e_blockOrStmtToAsgType, e_classicalDeclarationStatementToAsgStmt, e_assignmentStmtToAsgStmt, e_indexedIdentifierToAsgType, e_indexOperatorsLoop⟩ := ih
  unfold Sema.caseExprsLoop; ef

set_option maxHeartbeats 1600000 in
theorem exprStmtToAsgStmt_frame (fuel : Nat) (ih : AllFrame fuel) (e : Option Ast.Expr) :
    ErrFrame (Sema.exprStmtToAsgStmt (fuel + 1) e) := by
  obtain ⟨e_stmtToAsgStmt, e_caseExprsLoop, e_exprStmtToAsgStmt, e_modifiersLoop, e_parenExprToAsgTexpr, e_exprToAsgTexpr, e_setExpressionToAsgType, e_rangeExpressionToAsgType, e_gateCallExprToAsgStmt, e_callExprToAsgTexpr, e_gateOperandToAsgTexpr, e_indexOperatorToAsgType, e_expressionListToAsgType, e_qubitListToAsgTexpr, e_gateOperandsLoop, e_expressionListToAsgTexpr, e_exprsLoop, e_blockExprToAsgStmtList, e_stmtsLoop, e_blockExprToAsgType, e_blockOrStmtToAsgType, e_classicalDeclarationStatementToAsgStmt, e_assignmentStmtToAsgStmt, e_indexedIdentifierToAsgType, e_indexOperatorsLoop⟩ := ih
  unfold Sema.exprStmtToAsgStmt; ef

set_option maxHeartbeats 1600000 in
theorem modifiersLoop_frame (fuel : Nat) (ih : AllFrame fuel) (ms : List Ast.Modifier) :
    ErrFrame (Sema.modifiersLoop (fuel + 1) ms) := by
  obtain ⟨e_stmtToAsgStmt, e_caseExprsLoop, e_exprStmtToAsgStmt, e_modifiersLoop, e_parenExprToAsgTexpr, e_exprToAsgTexpr, e_setExpressionToAsgType, e_rangeExpressionToAsgType, e_gateCallExprToAsgStmt, e_callExprToAsgTexpr, e_gateOperandToAsgTexpr, e_indexOperatorToAsgType, e_expressionListToAsgType, e_qubitListToAsgTexpr, e_gateOperandsLoop, e_expressionListToAsgTexpr, e_exprsLoop, e_blockExprToAsgStmtList, e_stmtsLoop, e_blockExprToAsgType, e_blockOrStmtToAsgType, e_classicalDeclarationStatementToAsgStmt, e_assignmentStmtToAsgStmt, e_indexedIdentifierToAsgType, e_indexOperatorsLoop⟩ := ih
  unfold Sema.modifiersLoop; ef

set_option maxHeartbeats 1600000 in
theorem parenExprToAsgTexpr_frame (fuel : Nat) (ih : AllFrame fuel) (p : Ast.ParenExpr) :
    ErrFrame (Sema.parenExprToAsgTexpr (fuel + 1) p) := by
  obtain ⟨e_stmtToAsgStmt, e_caseExprsLoop, e_exprStmtToAsgStmt, e_modifiersLoop, e_parenExprToAsgTexpr, e_exprToAsgTexpr, e_setExpressionToAsgType, e_rangeExpressionToAsgType, e_gateCallExprToAsgStmt, e_callExprToAsgTexpr, e_gateOperandToAsgTexpr, e_indexOperatorToAsgType, e_expressionListToAsgType, e_qubitListToAsgTexpr, e_gateOperandsLoop, e_expressionListToAsgTexpr, e_exprsLoop, e_blockExprToAsgStmtList, e_stmtsLoop, e_blockExprToAsgType, e_blockOrStmtToAsgType, e_classicalDeclarationStatementToAsgStmt, e_assignmentStmtToAsgStmt, e_indexedIdentifierToAsgType, e_indexOperatorsLoop⟩ := ih
  unfold Sema.parenExprToAsgTexpr; ef

set_option maxHeartbeats 1600000 in
theorem exprToAsgTexpr_frame (fuel : Nat) (ih : AllFrame fuel) (e : Option Ast.Expr) :
    ErrFrame (Sema.exprToAsgTexpr (fuel + 1) e) := by
  obtain ⟨e_stmtToAsgStmt, e_caseExprsLoop, e_exprStmtToAsgStmt, e_modifiersLoop, e_parenExprToAsgTexpr, e_exprToAsgTexpr, e_setExpressionToAsgType, e_rangeExpressionToAsgType, e_gateCallExprToAsgStmt, e_callExprToAsgTexpr, e_gateOperandToAsgTexpr, e_indexOperatorToAsgType, e_expressionListToAsgType, e_qubitListToAsgTexpr, e_gateOperandsLoop, e_expressionListToAsgTexpr, e_exprsLoop, e_blockExprToAsgStmtList, e_stmtsLoop, e_blockExprToAsgType, e_blockOrStmtToAsgType, e_classicalDeclarationStatementToAsgStmt, e_assignmentStmtToAsgStmt, e_indexedIdentifierToAsgType, e_indexOperatorsLoop⟩ := ih
  unfold Sema.exprToAsgTexpr; ef

set_option maxHeartbeats 1600000 in
theorem setExpressionToAsgType_frame (fuel : Nat) (ih : AllFrame fuel) (se : Ast.SetExpression) :
    ErrFrame (Sema.setExpressionToAsgType (fuel + 1) se) := by
  obtain ⟨e_stmtToAsgStmt, e_caseExprsLoop, e_exprStmtToAsgStmt, e_modifiersLoop, e_parenExprToAsgTexpr, e_exprToAsgTexpr, e_setExpressionToAsgType, e_rangeExpressionToAsgType, e_gateCallExprToAsgStmt, e_callExprToAsgTexpr, e_gateOperandToAsgTexpr, e_indexOperatorToAsgType, e_expressionListToAsgType, e_qubitListToAsgTexpr, e_gateOperandsLoop, e_expressionListToAsgTexpr, e_exprsLoop, e_blockExprToAsgStmtList, e_stmtsLoop, e_blockExprToAsgType, e_blockOrStmtToAsgType, e_classicalDeclarationStatementToAsgStmt, e_assignmentStmtToAsgStmt, e_indexedIdentifierToAsgType, e_indexOperatorsLoop⟩ := ih
  unfold Sema.setExpressionToAsgType; ef

set_option maxHeartbeats 1600000 in
theorem rangeExpressionToAsgType_frame (fuel : Nat) (ih : AllFrame fuel) (r : Ast.RangeExpr) :
    ErrFrame (Sema.rangeExpressionToAsgType (fuel + 1) r) := by
  obtain ⟨e_stmtToAsgStmt, e_caseExprsLoop, e_exprStmtToAsgStmt, e_modifiersLoop, e_parenExprToAsgTexpr, e_exprToAsgTexpr, e_setExpressionToAsgType, e_rangeExpressionToAsgType, e_gateCallExprToAsgStmt, e_callExprToAsgTexpr, e_gateOperandToAsgTexpr, e_indexOperatorToAsgType, e_expressionListToAsgType, e_qubitListToAsgTexpr, e_gateOperandsLoop, e_expressionListToAsgTexpr, e_exprsLoop, e_blockExprToAsgStmtList, e_stmtsLoop, e_blockExprToAsgType, e_blockOrStmtToAsgType, e_classicalDeclarationStatementToAsgStmt, e_assignmentStmtToAsgStmt, e_indexedIdentifierToAsgType, e_indexOperatorsLoop⟩ := ih
  unfold Sema.rangeExpressionToAsgType; ef

set_option maxHeartbeats 1600000 in
theorem gateCallExprToAsgStmt_frame (fuel : Nat) (ih : AllFrame fuel) (gc : Ast.GateCallExpr) (mods : List GateModifier) :
    ErrFrame (Sema.gateCallExprToAsgStmt (fuel + 1) gc mods) := by
  obtain ⟨e_stmtToAsgStmt, e_caseExprsLoop, e_exprStmtToAsgStmt, e_modifiersLoop, e_parenExprToAsgTexpr, e_exprToAsgTexpr, e_setExpressionToAsgType, e_rangeExpressionToAsgType, e_gateCallExprToAsgStmt, e_callExprToAsgTexpr, e_gateOperandToAsgTexpr, e_indexOperatorToAsgType, e_expressionListToAsgType, e_qubitListToAsgTexpr, e_gateOperandsLoop, e_expressionListToAsgTexpr, e_exprsLoop, e_blockExprToAsgStmtList, e_stmtsLoop, e_blockExprToAsgType, e_blockOrStmtToAsgType, e_classicalDeclarationStatementToAsgStmt, e_assignmentStmtToAsgStmt, e_indexedIdentifierToAsgType, e_indexOperatorsLoop⟩ := ih
  unfold Sema.gateCallExprToAsgStmt; ef

set_option maxHeartbeats 1600000 in
theorem callExprToAsgTexpr_frame (fuel : Nat) (ih : AllFrame fuel) (sp : Ast.Span) (al : Option Ast.ArgList) (i : Option Ast.Identifier) :
    ErrFrame (Sema.callExprToAsgTexpr (fuel + 1) sp al i) := by
  obtain ⟨e_stmtToAsgStmt, e_caseExprsLoop, e_exprStmtToAsgStmt, e_modifiersLoop, e_parenExprToAsgTexpr, e_exprToAsgTexpr, e_setExpressionToAsgType, e_rangeExpressionToAsgType, e_gateCallExprToAsgStmt, e_callExprToAsgTexpr, e_gateOperandToAsgTexpr, e_indexOperatorToAsgType, e_expressionListToAsgType, e_qubitListToAsgTexpr, e_gateOperandsLoop, e_expressionListToAsgTexpr, e_exprsLoop, e_blockExprToAsgStmtList, e_stmtsLoop, e_blockExprToAsgType, e_blockOrStmtToAsgType, e_classicalDeclarationStatementToAsgStmt, e_assignmentStmtToAsgStmt, e_indexedIdentifierToAsgType, e_indexOperatorsLoop⟩ := ih
  unfold Sema.callExprToAsgTexpr; ef

set_option maxHeartbeats 1600000 in
theorem gateOperandToAsgTexpr_frame (fuel : Nat) (ih : AllFrame fuel) (g : Ast.GateOperand) :
    ErrFrame (Sema.gateOperandToAsgTexpr (fuel + 1) g) := by
  obtain ⟨e_stmtToAsgStmt, e_caseExprsLoop, e_exprStmtToAsgStmt, e_modifiersLoop, e_parenExprToAsgTexpr, e_exprToAsgTexpr, e_setExpressionToAsgType, e_rangeExpressionToAsgType, e_gateCallExprToAsgStmt, e_callExprToAsgTexpr, e_gateOperandToAsgTexpr, e_indexOperatorToAsgType, e_expressionListToAsgType, e_qubitListToAsgTexpr, e_gateOperandsLoop, e_expressionListToAsgTexpr, e_exprsLoop, e_blockExprToAsgStmtList, e_stmtsLoop, e_blockExprToAsgType, e_blockOrStmtToAsgType, e_classicalDeclarationStatementToAsgStmt, e_assignmentStmtToAsgStmt, e_indexedIdentifierToAsgType, e_indexOperatorsLoop⟩ := ih
  unfold Sema.gateOperandToAsgTexpr; ef

set_option maxHeartbeats 1600000 in
theorem indexOperatorToAsgType_frame (fuel : Nat) (ih : AllFrame fuel) (ix : Ast.IndexOperator) :
    ErrFrame (Sema.indexOperatorToAsgType (fuel + 1) ix) := by
  obtain ⟨e_stmtToAsgStmt, e_caseExprsLoop, e_exprStmtToAsgStmt, e_modifiersLoop, e_parenExprToAsgTexpr, e_exprToAsgTexpr, e_setExpressionToAsgType, e_rangeExpressionToAsgType, e_gateCallExprToAsgStmt, e_callExprToAsgTexpr, e_gateOperandToAsgTexpr, e_indexOperatorToAsgType, e_expressionListToAsgType, e_qubitListToAsgTexpr, e_gateOperandsLoop, e_expressionListToAsgTexpr, e_exprsLoop, e_blockExprToAsgStmtList, e_stmtsLoop, e_blockExprToAsgType, e_blockOrStmtToAsgType, e_classicalDeclarationStatementToAsgStmt, e_assignmentStmtToAsgStmt, e_indexedIdentifierToAsgType, e_indexOperatorsLoop⟩ := ih
  unfold Sema.indexOperatorToAsgType; ef

set_option maxHeartbeats 1600000 in
theorem expressionListToAsgType_frame (fuel : Nat) (ih : AllFrame fuel) (el : Ast.ExpressionList) :
    ErrFrame (Sema.expressionListToAsgType (fuel + 1) el) := by
  obtain ⟨e_stmtToAsgStmt, e_caseExprsLoop, e_exprStmtToAsgStmt, e_modifiersLoop, e_parenExprToAsgTexpr, e_exprToAsgTexpr, e_setExpressionToAsgType, e_rangeExpressionToAsgType, e_gateCallExprToAsgStmt, e_callExprToAsgTexpr, e_gateOperandToAsgTexpr, e_indexOperatorToAsgType, e_expressionListToAsgType, e_qubitListToAsgTexpr, e_gateOperandsLoop, e_expressionListToAsgTexpr, e_exprsLoop, e_blockExprToAsgStmtList, e_stmtsLoop, e_blockExprToAsgType, e_blockOrStmtToAsgType, e_classicalDeclarationStatementToAsgStmt, e_assignmentStmtToAsgStmt, e_indexedIdentifierToAsgType, e_indexOperatorsLoop⟩ := ih
  unfold Sema.expressionListToAsgType; ef

set_option maxHeartbeats 1600000 in
theorem qubitListToAsgTexpr_frame (fuel : Nat) (ih : AllFrame fuel) (ql : Option Ast.QubitList) :
    ErrFrame (Sema.qubitListToAsgTexpr (fuel + 1) ql) := by
  obtain ⟨e_stmtToAsgStmt, e_caseExprsLoop, e_exprStmtToAsgStmt, e_modifiersLoop, e_parenExprToAsgTexpr, e_exprToAsgTexpr, e_setExpressionToAsgType, e_rangeExpressionToAsgType, e_gateCallExprToAsgStmt, e_callExprToAsgTexpr, e_gateOperandToAsgTexpr, e_indexOperatorToAsgType, e_expressionListToAsgType, e_qubitListToAsgTexpr, e_gateOperandsLoop, e_expressionListToAsgTexpr, e_exprsLoop, e_blockExprToAsgStmtList, e_stmtsLoop, e_blockExprToAsgType, e_blockOrStmtToAsgType, e_classicalDeclarationStatementToAsgStmt, e_assignmentStmtToAsgStmt, e_indexedIdentifierToAsgType, e_indexOperatorsLoop⟩ := ih
  unfold Sema.qubitListToAsgTexpr; ef

set_option maxHeartbeats 1600000 in
theorem gateOperandsLoop_frame (fuel : Nat) (ih : AllFrame fuel) (gs : List Ast.GateOperand) :
    ErrFrame (Sema.gateOperandsLoop (fuel + 1) gs) := by
  obtain ⟨e_stmtToAsgStmt, e_caseExprsLoop, e_exprStmtToAsgStmt, e_modifiersLoop, e_parenExprToAsgTexpr, e_exprToAsgTexpr, e_setExpressionToAsgType, e_rangeExpressionToAsgType, e_gateCallExprToAsgStmt, e_callExprToAsgTexpr, e_gateOperandToAsgTexpr, e_indexOperatorToAsgType, e_expressionListToAsgType, e_qubitListToAsgTexpr, e_gateOperandsLoop, e_expressionListToAsgTexpr, e_exprsLoop, e_blockExprToAsgStmtList, e_stmtsLoop, e_blockExprToAsgType, e_blockOrStmtToAsgType, e_classicalDeclarationStatementToAsgStmt, e_assignmentStmtToAsgStmt, e_indexedIdentifierToAsgType, e_indexOperatorsLoop⟩ := ih
  unfold Sema.gateOperandsLoop; ef

set_option maxHeartbeats 1600000 in
theorem expressionListToAsgTexpr_frame (fuel : Nat) (ih : AllFrame fuel) (el : Ast.ExpressionList) :
    ErrFrame (Sema.expressionListToAsgTexpr (fuel + 1) el) := by
  obtain ⟨e_stmtToAsgStmt, e_caseExprsLoop, e_exprStmtToAsgStmt, e_modifiersLoop, e_parenExprToAsgTexpr, e_exprToAsgTexpr, e_setExpressionToAsgType, e_rangeExpressionToAsgType, e_gateCallExprToAsgStmt, e_callExprToAsgTexpr, e_gateOperandToAsgTexpr, e_indexOperatorToAsgType, e_expressionListToAsgType, e_qubitListToAsgTexpr, e_gateOperandsLoop, e_expressionListToAsgTexpr, e_exprsLoop, e_blockExprToAsgStmtList, e_stmtsLoop, e_blockExprToAsgType, e_blockOrStmtToAsgType, e_classicalDeclarationStatementToAsgStmt, e_assignmentStmtToAsgStmt, e_indexedIdentifierToAsgType, e_indexOperatorsLoop⟩ := ih
  unfold Sema.expressionListToAsgTexpr; ef

set_option maxHeartbeats 1600000 in
theorem exprsLoop_frame (fuel : Nat) (ih : AllFrame fuel) (es : List Ast.Expr) :
    ErrFrame (Sema.exprsLoop (fuel + 1) es) := by
  obtain ⟨e_stmtToAsgStmt, e_caseExprsLoop, e_exprStmtToAsgStmt, e_modifiersLoop, e_parenExprToAsgTexpr, e_exprToAsgTexpr, e_setExpressionToAsgType, e_rangeExpressionToAsgType, e_gateCallExprToAsgStmt, e_callExprToAsgTexpr, e_gateOperandToAsgTexpr, e_indexOperatorToAsgType, e_expressionListToAsgType, e_qubitListToAsgTexpr, e_gateOperandsLoop, e_expressionListToAsgTexpr, e_exprsLoop, e_blockExprToAsgStmtList, e_stmtsLoop, e_blockExprToAsgType, e_blockOrStmtToAsgType, e_classicalDeclarationStatementToAsgStmt, e_assignmentStmtToAsgStmt, e_indexedIdentifierToAsgType, e_indexOperatorsLoop⟩ := ih
  unfold Sema.exprsLoop; ef

set_option maxHeartbeats 1600000 in
theorem blockExprToAsgStmtList_frame (fuel : Nat) (ih : AllFrame fuel) (b : Ast.BlockExpr) :
    ErrFrame (Sema.blockExprToAsgStmtList (fuel + 1) b) := by
  obtain ⟨e_stmtToAsgStmt, e_caseExprsLoop, e_exprStmtToAsgStmt, e_modifiersLoop, e_parenExprToAsgTexpr, e_exprToAsgTexpr, e_setExpressionToAsgType, e_rangeExpressionToAsgType, e_gateCallExprToAsgStmt, e_callExprToAsgTexpr, e_gateOperandToAsgTexpr, e_indexOperatorToAsgType, e_expressionListToAsgType, e_qubitListToAsgTexpr, e_gateOperandsLoop, e_expressionListToAsgTexpr, e_exprsLoop, e_blockExprToAsgStmtList, e_stmtsLoop, e_blockExprToAsgType, e_blockOrStmtToAsgType, e_classicalDeclarationStatementToAsgStmt, e_assignmentStmtToAsgStmt, e_indexedIdentifierToAsgType, e_indexOperatorsLoop⟩ := ih
  unfold Sema.blockExprToAsgStmtList; ef

set_option maxHeartbeats 1600000 in
theorem stmtsLoop_frame (fuel : Nat) (ih : AllFrame fuel) (ss : List Ast.Stmt) :
    ErrFrame (Sema.stmtsLoop (fuel + 1) ss) := by
  obtain ⟨e_stmtToAsgStmt, e_caseExprsLoop, e_exprStmtToAsgStmt, e_modifiersLoop, e_parenExprToAsgTexpr, e_exprToAsgTexpr, e_setExpressionToAsgType, e_rangeExpressionToAsgType, e_gateCallExprToAsgStmt, e_callExprToAsgTexpr, e_gateOperandToAsgTexpr, e_indexOperatorToAsgType, e_expressionListToAsgType, e_qubitListToAsgTexpr, e_gateOperandsLoop, e_expressionListToAsgTexpr, e_exprsLoop, e_blockExprToAsgStmtList, e_stmtsLoop, e_blockExprToAsgType, e_blockOrStmtToAsgType, e_classicalDeclarationStatementToAsgStmt, e_assignmentStmtToAsgStmt, e_indexedIdentifierToAsgType, e_indexOperatorsLoop⟩ := ih
  unfold Sema.stmtsLoop; ef

set_option maxHeartbeats 1600000 in
theorem blockExprToAsgType_frame (fuel : Nat) (ih : AllFrame fuel) (b : Ast.BlockExpr) :
    ErrFrame (Sema.blockExprToAsgType (fuel + 1) b) := by
  obtain ⟨e_stmtToAsgStmt, e_caseExprsLoop, e_exprStmtToAsgStmt, e_modifiersLoop, e_parenExprToAsgTexpr, e_exprToAsgTexpr, e_setExpressionToAsgType, e_rangeExpressionToAsgType, e_gateCallExprToAsgStmt, e_callExprToAsgTexpr, e_gateOperandToAsgTexpr, e_indexOperatorToAsgType, e_expressionListToAsgType, e_qubitListToAsgTexpr, e_gateOperandsLoop, e_expressionListToAsgTexpr, e_exprsLoop, e_blockExprToAsgStmtList, e_stmtsLoop, e_blockExprToAsgType, e_blockOrStmtToAsgType, e_classicalDeclarationStatementToAsgStmt, e_assignmentStmtToAsgStmt, e_indexedIdentifierToAsgType, e_indexOperatorsLoop⟩ := ih
  unfold Sema.blockExprToAsgType; ef

set_option maxHeartbeats 1600000 in
theorem blockOrStmtToAsgType_frame (fuel : Nat) (ih : AllFrame fuel) (b : Ast.BlockOrStmt) :
    ErrFrame (Sema.blockOrStmtToAsgType (fuel + 1) b) := by
  obtain ⟨e_stmtToAsgStmt, e_caseExprsLoop, e_exprStmtToAsgStmt, e_modifiersLoop, e_parenExprToAsgTexpr, e_exprToAsgTexpr, e_setExpressionToAsgType, e_rangeExpressionToAsgType, e_gateCallExprToAsgStmt, e_callExprToAsgTexpr, e_gateOperandToAsgTexpr, e_indexOperatorToAsgType, e_expressionListToAsgType, e_qubitListToAsgTexpr, e_gateOperandsLoop, e_expressionListToAsgTexpr, e_exprsLoop, e_blockExprToAsgStmtList, e_stmtsLoop, e_blockExprToAsgType, e_blockOrStmtToAsgType, e_classicalDeclarationStatementToAsgStmt, e_assignmentStmtToAsgStmt, e_indexedIdentifierToAsgType, e_indexOperatorsLoop⟩ := ih
  unfold Sema.blockOrStmtToAsgType; ef

set_option maxHeartbeats 1600000 in
theorem classicalDeclarationStatementToAsgStmt_frame (fuel : Nat) (ih : AllFrame fuel) (sp : Ast.Span) (arr : Bool) (st : Option Ast.ScalarType) (ct : Bool) (n : Option Ast.Name) (e : Option Ast.Expr) :
    ErrFrame (Sema.classicalDeclarationStatementToAsgStmt (fuel + 1) sp arr st ct n e) := by
  obtain ⟨e_stmtToAsgStmt, e_caseExprsLoop, e_exprStmtToAsgStmt, e_modifiersLoop, e_parenExprToAsgTexpr, e_exprToAsgTexpr, e_setExpressionToAsgType, e_rangeExpressionToAsgType, e_gateCallExprToAsgStmt, e_callExprToAsgTexpr, e_gateOperandToAsgTexpr, e_indexOperatorToAsgType, e_expressionListToAsgType, e_qubitListToAsgTexpr, e_gateOperandsLoop, e_expressionListToAsgTexpr, e_exprsLoop, e_blockExprToAsgStmtList, e_stmtsLoop, e_blockExprToAsgType, e_blockOrStmtToAsgType, e_classicalDeclarationStatementToAsgStmt, e_assignmentStmtToAsgStmt, e_indexedIdentifierToAsgType, e_indexOperatorsLoop⟩ := ih
  unfold Sema.classicalDeclarationStatementToAsgStmt; ef

set_option maxHeartbeats 1600000 in
theorem assignmentStmtToAsgStmt_frame (fuel : Nat) (ih : AllFrame fuel) (sp : Ast.Span) (i : Option Ast.Identifier) (rhs : Option Ast.Expr) (ii : Option Ast.IndexedIdentifier) :
    ErrFrame (Sema.assignmentStmtToAsgStmt (fuel + 1) sp i rhs ii) := by
  obtain ⟨e_stmtToAsgStmt, e_caseExprsLoop, e_exprStmtToAsgStmt, e_modifiersLoop, e_parenExprToAsgTexpr, e_exprToAsgTexpr, e_setExpressionToAsgType, e_rangeExpressionToAsgType, e_gateCallExprToAsgStmt, e_callExprToAsgTexpr, e_gateOperandToAsgTexpr, e_indexOperatorToAsgType, e_expressionListToAsgType, e_qubitListToAsgTexpr, e_gateOperandsLoop, e_expressionListToAsgTexpr, e_exprsLoop, e_blockExprToAsgStmtList, e_stmtsLoop, e_blockExprToAsgType, e_blockOrStmtToAsgType, e_classicalDeclarationStatementToAsgStmt, e_assignmentStmtToAsgStmt, e_indexedIdentifierToAsgType, e_indexOperatorsLoop⟩ := ih
  unfold Sema.assignmentStmtToAsgStmt; ef

set_option maxHeartbeats 1600000 in
theorem indexedIdentifierToAsgType_frame (fuel : Nat) (ih : AllFrame fuel) (ii : Ast.IndexedIdentifier) :
    ErrFrame (Sema.indexedIdentifierToAsgType (fuel + 1) ii) := by
  obtain ⟨e_stmtToAsgStmt, e_caseExprsLoop, e_exprStmtToAsgStmt, e_modifiersLoop, e_parenExprToAsgTexpr, e_exprToAsgTexpr, e_setExpressionToAsgType, e_rangeExpressionToAsgType, e_gateCallExprToAsgStmt, e_callExprToAsgTexpr, e_gateOperandToAsgTexpr, e_indexOperatorToAsgType, e_expressionListToAsgType, e_qubitListToAsgTexpr, e_gateOperandsLoop, e_expressionListToAsgTexpr, e_exprsLoop, e_blockExprToAsgStmtList, e_stmtsLoop, e_blockExprToAsgType, e_blockOrStmtToAsgType, e_classicalDeclarationStatementToAsgStmt, e_assignmentStmtToAsgStmt, e_indexedIdentifierToAsgType, e_indexOperatorsLoop⟩ := ih
  unfold Sema.indexedIdentifierToAsgType; ef

set_option maxHeartbeats 1600000 in
theorem indexOperatorsLoop_frame (fuel : Nat) (ih : AllFrame fuel) (ixs : List Ast.IndexOperator) :
    ErrFrame (Sema.indexOperatorsLoop (fuel + 1) ixs) := by
  obtain ⟨e_stmtToAsgStmt, e_caseExprsLoop, e_exprStmtToAsgStmt, e_modifiersLoop, e_parenExprToAsgTexpr, e_exprToAsgTexpr, e_setExpressionToAsgType, e_rangeExpressionToAsgType, e_gateCallExprToAsgStmt, e_callExprToAsgTexpr, e_gateOperandToAsgTexpr, e_indexOperatorToAsgType, e_expressionListToAsgType, e_qubitListToAsgTexpr, e_gateOperandsLoop, e_expressionListToAsgTexpr, e_exprsLoop, e_blockExprToAsgStmtList, e_stmtsLoop, e_blockExprToAsgType, e_blockOrStmtToAsgType, e_classicalDeclarationStatementToAsgStmt, e_assignmentStmtToAsgStmt, e_indexedIdentifierToAsgType, e_indexOperatorsLoop⟩ := ih
  unfold Sema.indexOperatorsLoop; ef

theorem allFrame (fuel : Nat) : AllFrame fuel := by
  induction fuel with
  | zero =>
    constructor
    · intros; unfold Sema.stmtToAsgStmt; exact ErrFrame.throw _
    · intros; unfold Sema.caseExprsLoop; exact ErrFrame.throw _
    · intros; unfold Sema.exprStmtToAsgStmt; exact ErrFrame.throw _
    · intros; unfold Sema.modifiersLoop; exact ErrFrame.throw _
    · intros; unfold Sema.parenExprToAsgTexpr; exact ErrFrame.throw _
    · intros; unfold Sema.exprToAsgTexpr; exact ErrFrame.throw _
    · intros; unfold Sema.setExpressionToAsgType; exact ErrFrame.throw _
    · intros; unfold Sema.rangeExpressionToAsgType; exact ErrFrame.throw _
    · intros; unfold Sema.gateCallExprToAsgStmt; exact ErrFrame.throw _
    · intros; unfold Sema.callExprToAsgTexpr; exact ErrFrame.throw _
    · intros; unfold Sema.gateOperandToAsgTexpr; exact ErrFrame.throw _
    · intros; unfold Sema.indexOperatorToAsgType; exact ErrFrame.throw _
    · intros; unfold Sema.expressionListToAsgType; exact ErrFrame.throw _
    · intros; unfold Sema.qubitListToAsgTexpr; exact ErrFrame.throw _
    · intros; unfold Sema.gateOperandsLoop; exact ErrFrame.throw _
    · intros; unfold Sema.expressionListToAsgTexpr; exact ErrFrame.throw _
    · intros; unfold Sema.exprsLoop; exact ErrFrame.throw _
    · intros; unfold Sema.blockExprToAsgStmtList; exact ErrFrame.throw _
    · intros; unfold Sema.stmtsLoop; exact ErrFrame.throw _
    · intros; unfold Sema.blockExprToAsgType; exact ErrFrame.throw _
    · intros; unfold Sema.blockOrStmtToAsgType; exact ErrFrame.throw _
    · intros; unfold Sema.classicalDeclarationStatementToAsgStmt; exact ErrFrame.throw _
    · intros; unfold Sema.assignmentStmtToAsgStmt; exact ErrFrame.throw _
    · intros; unfold Sema.indexedIdentifierToAsgType; exact ErrFrame.throw _
    · intros; unfold Sema.indexOperatorsLoop; exact ErrFrame.throw _
  | succ fuel ih =>
    constructor
    · intros; exact stmtToAsgStmt_frame fuel ih _
    · intros; exact caseExprsLoop_frame fuel ih _
    · intros; exact exprStmtToAsgStmt_frame fuel ih _
    · intros; exact modifiersLoop_frame fuel ih _
    · intros; exact parenExprToAsgTexpr_frame fuel ih _
    · intros; exact exprToAsgTexpr_frame fuel ih _
    · intros; exact setExpressionToAsgType_frame fuel ih _
    · intros; exact rangeExpressionToAsgType_frame fuel ih _
    · intros; exact gateCallExprToAsgStmt_frame fuel ih _ _
    · intros; exact callExprToAsgTexpr_frame fuel ih _ _ _
    · intros; exact gateOperandToAsgTexpr_frame fuel ih _
    · intros; exact indexOperatorToAsgType_frame fuel ih _
    · intros; exact expressionListToAsgType_frame fuel ih _
    · intros; exact qubitListToAsgTexpr_frame fuel ih _
    · intros; exact gateOperandsLoop_frame fuel ih _
    · intros; exact expressionListToAsgTexpr_frame fuel ih _
    · intros; exact exprsLoop_frame fuel ih _
    · intros; exact blockExprToAsgStmtList_frame fuel ih _
    · intros; exact stmtsLoop_frame fuel ih _
    · intros; exact blockExprToAsgType_frame fuel ih _
    · intros; exact blockOrStmtToAsgType_frame fuel ih _
    · intros; exact classicalDeclarationStatementToAsgStmt_frame fuel ih _ _ _ _ _ _
    · intros; exact assignmentStmtToAsgStmt_frame fuel ih _ _ _ _
    · intros; exact indexedIdentifierToAsgType_frame fuel ih _
    · intros; exact indexOperatorsLoop_frame fuel ih _

/-- **the relational (two-run) reading.**  Two contexts that differ only in their diagnostics:
same outcome; on success the same result, final contexts that again differ only in their
diagnostics, and ONE list of new diagnostics appended in both runs; on failure the same failure. -/
theorem ErrFrame.two_runs {α} {x : M α} (hx : ErrFrame x) (c d : Ctx) (h : eraseErrs c = eraseErrs d) :
    (∀ a c', x c = .ok (a, c') → ∃ d' n, x d = .ok (a, d') ∧ eraseErrs c' = eraseErrs d' ∧
      c'.semanticErrors = c.semanticErrors ++ n ∧ d'.semanticErrors = d.semanticErrors ++ n) ∧
    (∀ o, x c = .error o → x d = .error o) := by
  rw [hx.run c, hx.run d, h]
  cases x (eraseErrs d) with
  | error e => exact ⟨fun _ _ hh => (by cases hh), fun o hh => hh⟩
  | ok p =>
    obtain ⟨a, e'⟩ := p
    refine ⟨fun a' c' hh => ?_, fun o hh => (by cases hh)⟩
    simp only [lift, Except.ok.injEq, Prod.mk.injEq] at hh
    obtain ⟨rfl, rfl⟩ := hh
    exact ⟨_, e'.semanticErrors, rfl, rfl, rfl, rfl⟩

/-- the two-run statement for the statement function (likewise for the other twenty-four:
`((allFrame fuel).f args).two_runs`) -/
theorem stmtToAsgStmt_two_runs (fuel : Nat) (st : Ast.Stmt) (c d : Ctx)
    (h : eraseErrs c = eraseErrs d) :
    (∀ a c', Sema.stmtToAsgStmt fuel st c = .ok (a, c') → ∃ d' n,
      Sema.stmtToAsgStmt fuel st d = .ok (a, d') ∧ eraseErrs c' = eraseErrs d' ∧
      c'.semanticErrors = c.semanticErrors ++ n ∧ d'.semanticErrors = d.semanticErrors ++ n) ∧
    (∀ o, Sema.stmtToAsgStmt fuel st c = .error o → Sema.stmtToAsgStmt fuel st d = .error o) :=
  ((allFrame fuel).stmtToAsgStmt st).two_runs c d h

/-- the statement function, for every fuel -/
theorem stmtToAsgStmt_errFrame (fuel : Nat) (st : Ast.Stmt) : ErrFrame (Sema.stmtToAsgStmt fuel st) :=
  (allFrame fuel).stmtToAsgStmt st

/-- the top-level loop of `syntax_to_semantic` -/
theorem syntaxToSemanticLoop_errFrame (fuel : Nat) (ss : List Ast.Stmt) :
    ErrFrame (Sema.syntaxToSemanticLoop fuel ss) := by
  induction fuel generalizing ss with
  | zero => unfold Sema.syntaxToSemanticLoop; exact ErrFrame.throw _
  | succ fuel ih =>
    have e_stmt := (allFrame fuel).stmtToAsgStmt
    cases ss with
    | nil => unfold Sema.syntaxToSemanticLoop; exact ErrFrame.pure _
    | cons s rest =>
      have := ih rest
      unfold Sema.syntaxToSemanticLoop
      repeat' first
        | (ef_head Sema.stmtToAsgStmt; exact e_stmt _)
        | (ef_head Sema.syntaxToSemanticLoop; exact ‹ErrFrame (Sema.syntaxToSemanticLoop _ _)›)
        | ef_step

end Oq3.C18E
