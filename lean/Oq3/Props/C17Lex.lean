/-
C17 (layout invariance) — the lexer / bridge / parser half, and the end-to-end statement.

Two LAYOUTS of the same lexeme list in the sense of C15 (`Oq3/Ref/Lexeme.lean`,
`Props/C15.lean`): `(lead, items)` with `items : List (Lexeme × Sep)` — a leading separator and,
after every lexeme, a separator (a list of whitespace / comment trivia, possibly empty), admissible
(`sepOK`, `itemsOK`).  Side condition on the lexeme level, `glueGapsAgree items₁ items₂`:

    wherever lexemes i and i+1 are adjacent pieces of a composite operator (`gluePair`: `>` `>`,
    `>` `=`, `-` `>`, `=` `=`, `&` `&`, …), the two layouts both put nothing between them or both
    put something between them

(formally: bit i of `jointOf` agrees, where `jointOf items` bit i = the separator after lexeme i is
empty and i is not the last lexeme, or lexeme i is a float with a fractional part).  This is what
decides whether `> > =` is `>>=`: composite operators are glued in both layouts or in neither.
Everywhere else whitespace and comments may be inserted or removed freely (as far as the lexemes
stay the same lexemes: `itemsOK`).  `sameGaps` / `jointOf` equal are stronger conditions.

Proved here:
(a) `layout_input`: `to_input` of an admissible layout is exactly
    `⟨kinds of the lexemes, jointOf items⟩`; hence two layouts with `jointOf` equal give the parser
    the same input (`layout_same_input`), and their raw tokens have the same non-trivia part
    (`layout_nt`).
(b) `parse_jagree` (new parser lemma `JI`, `Lemmas/JointInsens.lean` + generated
    `Lemmas/GrammarJI.lean`): the parser reads a joint bit only between adjacent pieces of a
    composite; hence `layout_same_events`: `parseSourceFile` gives the same events on the two
    layouts, and `process` the same steps.
(c) `glueOk_of_parse`: for the builder's token table of either layout and those steps, `glueOk`
    holds (from the parser invariant's `glue`/`gluek` and `Bridge.joint_exact`, through
    `fits_of_adj`); `tokenKindsOk_of_parse`: no step is a token of a trivia kind (new parser
    invariant `TokNT`, `Lemmas/TokKinds.lean` + generated `Lemmas/GrammarTokKinds.lean`); and
    `build_tree` succeeds on both.
So `layout_invariant_tokens_to_ast` / `…_to_graph` of `Props/C17Layout.lean` apply without
extra hypotheses:

* `layout_invariant_text_ast`: the typed ASTs of the two texts agree modulo spans
  (`frontEnd`: lexer, `to_input`, parser, `process`, `build_tree`, typed accessors);
* `layout_invariant_text`: the analyses agree modulo the positions stored in diagnostics.
-/
import Oq3.Lemmas.GrammarTokKinds
import Oq3.Lemmas.GrammarJI
import Oq3.Props.C15
import Oq3.Props.C02Full
import Oq3.Props.C17Layout

namespace Oq3.C17Lex
open Oq3.Gen Oq3.Lexer Oq3.Lexed Oq3.Ref Oq3.Parser Oq3.Grammar Oq3.Builder Oq3.Bridge
open Oq3.Lemmas.Lexer Oq3.Lemmas.Lexed Oq3.Lemmas.LexLocal Oq3.Props.C15 Oq3.BuilderLayout

variable {uc : UC}

/-! ## (a) the parser input of a layout -/

/-- `to_input` marks a float with a fractional part joint, whatever follows -/
def floatJoint (l : Lexeme) : Bool := l.kind == .FLOAT_NUMBER && !endsWithDot l.text

/-- the joint bits of a layout: nothing between this lexeme and the next one (or a float with a
fractional part) -/
def jointOf : List (Lexeme × Sep) → List Bool
  | [] => []
  | (l, s) :: r => ((s.isEmpty && !r.isEmpty) || floatJoint l) :: jointOf r

/-- the separators are empty at the same places -/
def sameGaps (items₁ items₂ : List (Lexeme × Sep)) : Prop :=
  items₁.map (fun p => p.2.isEmpty) = items₂.map (fun p => p.2.isEmpty)

theorem jointOf_of_sameGaps {items₁ items₂ : List (Lexeme × Sep)}
    (hsame : items₁.map (·.1) = items₂.map (·.1)) (hg : sameGaps items₁ items₂) :
    jointOf items₁ = jointOf items₂ := by
  induction items₁ generalizing items₂ with
  | nil =>
    cases items₂ with
    | nil => rfl
    | cons q r => simp at hsame
  | cons p r ih =>
    cases items₂ with
    | nil => simp at hsame
    | cons q r' =>
      obtain ⟨l, s⟩ := p
      obtain ⟨l', s'⟩ := q
      simp only [List.map_cons, List.cons.injEq, sameGaps] at hsame hg
      obtain ⟨hl, hr⟩ := hsame
      obtain ⟨hs, hgr⟩ := hg
      subst hl
      have hlen : r.isEmpty = r'.isEmpty := by
        have := congrArg List.length hr
        simp only [List.length_map] at this
        cases r <;> cases r' <;> simp_all
      simp only [jointOf, hs, hlen, ih hr hgr]

/-- raw token of a lexeme / of a trivia lexeme -/
theorem rawOf_lexTok (l : Lexeme) (hwf : l.WF uc = true) : rawOf (lexTok l) = ⟨l.kind, l.text⟩ := by
  simp only [rawOf, (lexTok_entry l hwf).1]; rfl

theorem rawOf_triviaTok_trivia (t : Trivia) : (rawOf (triviaTok t)).kind.isTrivia = true :=
  (triviaTok_entry t).1

/-- the raw tokens of a separator -/
def sepRaw (s : Sep) : List RawTok := s.map fun t => rawOf (triviaTok t)

/-- the raw tokens of the items -/
def itemsRaw : List (Lexeme × Sep) → List RawTok
  | [] => []
  | (l, s) :: r => ⟨l.kind, l.text⟩ :: (sepRaw s ++ itemsRaw r)

theorem sepRaw_trivia (s : Sep) : ∀ t ∈ sepRaw s, t.kind.isTrivia = true := by
  intro t ht
  obtain ⟨x, _, rfl⟩ := List.mem_map.mp ht
  exact rawOf_triviaTok_trivia x

theorem layoutToks_raw (lead : Sep) (items : List (Lexeme × Sep))
    (hwf : ∀ p ∈ items, p.1.WF uc = true) :
    (layoutToks lead items).map rawOf = sepRaw lead ++ itemsRaw items := by
  simp only [layoutToks, List.map_append, List.map_map, sepRaw]
  congr 1
  induction items with
  | nil => rfl
  | cons p r ih =>
    obtain ⟨l, s⟩ := p
    simp only [List.map_cons, List.flatten_cons, List.map_append, itemsRaw, List.cons_append,
      rawOf_lexTok l (hwf (l, s) (by simp)), List.map_map, sepRaw]
    rw [ih (fun q hq => hwf q (by simp [hq]))]
    rfl

theorem ntKinds_append_trivia (a b : List RawTok) (h : ∀ t ∈ a, t.kind.isTrivia = true) :
    ntKinds (a ++ b) = ntKinds b := by
  induction a with
  | nil => rfl
  | cons t r ih =>
    have ht := h t (by simp)
    simp only [List.cons_append, ntKinds, List.filter_cons, ht, Bool.not_true, Bool.false_eq_true,
      if_false]
    exact ih (fun x hx => h x (by simp [hx]))

theorem jointSpec_append_trivia (a b : List RawTok) (h : ∀ t ∈ a, t.kind.isTrivia = true) :
    jointSpec (a ++ b) = jointSpec b := by
  induction a with
  | nil => rfl
  | cons t r ih =>
    have ht := h t (by simp)
    simp only [List.cons_append, jointSpec, ht, if_true]
    exact ih (fun x hx => h x (by simp [hx]))

theorem nt_append_trivia (a b : List RawTok) (h : ∀ t ∈ a, t.kind.isTrivia = true) :
    nt (a ++ b) = nt b := by
  induction a with
  | nil => rfl
  | cons t r ih =>
    rw [List.cons_append, nt_cons_trivia (h t (by simp))]
    exact ih (fun x hx => h x (by simp [hx]))

theorem headNonTrivia_sep_items (s : Sep) (r : List (Lexeme × Sep))
    (hwf : ∀ p ∈ r, p.1.WF uc = true) :
    headNonTrivia (sepRaw s ++ itemsRaw r) = (s.isEmpty && !r.isEmpty) := by
  cases s with
  | cons t ts =>
    simp only [sepRaw, List.map_cons, List.cons_append, headNonTrivia, rawOf_triviaTok_trivia,
      Bool.not_true, List.isEmpty_cons, Bool.false_and]
  | nil =>
    cases r with
    | nil => rfl
    | cons p r' =>
      obtain ⟨l, s'⟩ := p
      have := lexeme_kind_not_trivia l (hwf (l, s') (by simp))
      simp [sepRaw, itemsRaw, headNonTrivia, this]

theorem itemsRaw_spec (items : List (Lexeme × Sep)) (hwf : ∀ p ∈ items, p.1.WF uc = true) :
    ntKinds (itemsRaw items) = items.map (·.1.kind) ∧ jointSpec (itemsRaw items) = jointOf items ∧
    nt (itemsRaw items) = items.map (fun p => ⟨p.1.kind, p.1.text⟩) := by
  induction items with
  | nil => exact ⟨rfl, rfl, rfl⟩
  | cons p r ih =>
    obtain ⟨l, s⟩ := p
    have hl := lexeme_kind_not_trivia l (hwf (l, s) (by simp))
    have hr : ∀ q ∈ r, q.1.WF uc = true := fun q hq => hwf q (by simp [hq])
    obtain ⟨i1, i2, i3⟩ := ih hr
    refine ⟨?_, ?_, ?_⟩
    · simp only [itemsRaw, ntKinds, List.filter_cons, hl, Bool.not_false, if_true, List.map_cons]
      have := ntKinds_append_trivia (sepRaw s) (itemsRaw r) (sepRaw_trivia s)
      simp only [ntKinds] at this i1
      rw [this, i1]
    · simp only [itemsRaw, jointSpec, hl, Bool.false_eq_true, if_false, jointOf, floatJoint]
      rw [jointSpec_append_trivia _ _ (sepRaw_trivia s), i2, headNonTrivia_sep_items s r hr]
    · simp only [itemsRaw, List.map_cons]
      rw [nt_cons_non hl, nt_append_trivia _ _ (sepRaw_trivia s), i3]

/-- the raw token table of the text of an admissible layout -/
theorem layout_rawToks (hu : AsciiUC uc) (lead : Sep) (items : List (Lexeme × Sep))
    (hlead : sepOK lead (itemsText items) = true) (hitems : itemsOK uc items = true) :
    rawToksOf (lexedOf uc (sepText lead ++ itemsText items)) = sepRaw lead ++ itemsRaw items := by
  rw [rawToksOf_lexedOf, tokenize_layout hu lead items hlead hitems,
    layoutToks_raw lead items (itemsOK_wf hitems)]

/-- **(a) the exact parser input of a layout**: the kinds of the lexemes, and `jointOf` -/
theorem layout_input (hu : AsciiUC uc) (lead : Sep) (items : List (Lexeme × Sep))
    (hlead : sepOK lead (itemsText items) = true) (hitems : itemsOK uc items = true) :
    (lexedOf uc (sepText lead ++ itemsText items)).toInput =
      some ⟨items.map (·.1.kind), jointOf items⟩ := by
  rw [toInput_exact, layout_rawToks hu lead items hlead hitems,
    ntKinds_append_trivia _ _ (sepRaw_trivia lead), jointSpec_append_trivia _ _ (sepRaw_trivia lead),
    (itemsRaw_spec items (itemsOK_wf hitems)).1, (itemsRaw_spec items (itemsOK_wf hitems)).2.1]

/-- the non-trivia raw tokens of a layout are the lexemes -/
theorem layout_nt_eq (hu : AsciiUC uc) (lead : Sep) (items : List (Lexeme × Sep))
    (hlead : sepOK lead (itemsText items) = true) (hitems : itemsOK uc items = true) :
    nt (rawToksOf (lexedOf uc (sepText lead ++ itemsText items))) =
      items.map (fun p => ⟨p.1.kind, p.1.text⟩) := by
  rw [layout_rawToks hu lead items hlead hitems, nt_append_trivia _ _ (sepRaw_trivia lead),
    (itemsRaw_spec items (itemsOK_wf hitems)).2.2]

section TwoLayouts
variable (hu : AsciiUC uc) (lead₁ lead₂ : Sep) (items₁ items₂ : List (Lexeme × Sep))
  (hsame : items₁.map (·.1) = items₂.map (·.1))
  (h1 : sepOK lead₁ (itemsText items₁) = true) (h1' : itemsOK uc items₁ = true)
  (h2 : sepOK lead₂ (itemsText items₂) = true) (h2' : itemsOK uc items₂ = true)
include hu hsame h1 h1' h2 h2'

/-- two layouts of one lexeme list: the builder's token tables have the same non-trivia part -/
theorem layout_nt :
    nt (rawToksOf (lexedOf uc (sepText lead₁ ++ itemsText items₁))) =
      nt (rawToksOf (lexedOf uc (sepText lead₂ ++ itemsText items₂))) := by
  rw [layout_nt_eq hu lead₁ items₁ h1 h1', layout_nt_eq hu lead₂ items₂ h2 h2']
  have : ∀ items : List (Lexeme × Sep),
      items.map (fun p => (⟨p.1.kind, p.1.text⟩ : RawTok)) =
        (items.map (·.1)).map (fun l => (⟨l.kind, l.text⟩ : RawTok)) := by
    intro items; simp [List.map_map]
  rw [this, this, hsame]

/-- **two layouts with the same gaps give the parser the same input** -/
theorem layout_same_input (hj : jointOf items₁ = jointOf items₂) :
    (lexedOf uc (sepText lead₁ ++ itemsText items₁)).toInput =
      (lexedOf uc (sepText lead₂ ++ itemsText items₂)).toInput := by
  rw [layout_input hu lead₁ items₁ h1 h1', layout_input hu lead₂ items₂ h2 h2', hj]
  have : items₁.map (·.1.kind) = items₂.map (·.1.kind) := by
    have := congrArg (List.map Lexeme.kind) hsame
    simp only [List.map_map] at this
    exact this
  rw [this]

end TwoLayouts

/-! ## (c) `glueOk`, `tokenKindsOk` and `build_tree` on a parser run -/

theorem takeN_all {r r' : List RawTok} {n : Nat} (h : takeN r n = some r') :
    (r.take n).all (fun t => !t.kind.isTrivia) = true := by
  induction n generalizing r with
  | zero => simp
  | succ n ih =>
    cases r with
    | nil => simp [takeN] at h
    | cons t r0 =>
      simp only [takeN] at h
      split at h
      · simp at h
      · rename_i ht
        simp only [List.take_succ_cons, List.all_cons, Bool.and_eq_true]
        exact ⟨by simpa using ht, ih h⟩

/-- **fit ⇒ glue**: if the token items of the steps fit the token table (each finds, after the
leading trivia, its `n` consecutive non-trivia raw tokens), then no composite token step swallows
a trivia token -/
theorem glueOkFrom_of_fits (toks : List RawTok) (ss : List Step) (b : B) (hst : b.state ≠ .pendingEnter)
    (hfit : fitsGo (toks.drop b.pos) (itemsS ss) = true) : glueOkFrom toks ss b = true := by
  induction ss generalizing b with
  | nil => rfl
  | cons s ss ih =>
    obtain ⟨b', hb', hs', hf'⟩ := step_fit toks b s ss hst hfit
    simp only [glueOkFrom, hb', Bool.and_eq_true]
    refine ⟨?_, ih b' hs' hf'⟩
    cases s with
    | token k n =>
      simp only [stepGlue, tokenGlue]
      simp only [itemsS, fitsGo] at hfit
      split at hfit
      · simp at hfit
      · rw [(eatTrivias_drop toks b).1]
        split at hfit
        · rename_i r' hr'; exact takeN_all hr'
        · simp at hfit
    | enter k => rfl
    | exit => rfl
    | error m => rfl

theorem glueOk_of_fits (toks : List RawTok) (ss : List Step) (hr : rooted ss = true)
    (hfit : fitsGo toks (itemsS ss) = true) : glueOk toks ss = true := by
  match ss, hr with
  | .enter k :: rest, hr =>
    simp only [itemsS] at hfit
    simp only [glueOk, glueOkFrom, step, stepGlue, Bool.true_and]
    exact glueOkFrom_of_fits toks rest _ (by simp [emit]) (by simpa [emit] using hfit)

/-- a token item of a non-trivia kind -/
def itemNT : Item → Bool
  | .token k _ => !k.isTrivia
  | .error _ => true

theorem tokenKindsOk_items (ss : List Step) : Oq3.BuilderLayout.tokenKindsOk ss = (itemsS ss).all itemNT := by
  induction ss with
  | nil => rfl
  | cons s ss ih =>
    simp only [Oq3.BuilderLayout.tokenKindsOk, List.all_cons] at ih ⊢
    cases s <;> simp [itemsS, itemNT, ih]

theorem itemsE_all (evs : List Ev) (h : evs.all evNT = true) : (itemsE evs).all itemNT = true := by
  induction evs with
  | nil => rfl
  | cons e es ih =>
    simp only [List.all_cons, Bool.and_eq_true] at h
    cases e <;> simp_all [itemsE, itemNT, evNT]

/-- the events of a successful parse of an input without trivia kinds contain no trivia token -/
theorem parse_tokNT (fuel : Nat) (kinds : Array SyntaxKind) (joint : Array Bool) (npl : Nat)
    (events : Array Ev) (pos : Nat) (hk : ∀ k ∈ kinds.toList, k.isTrivia = false)
    (h : parseSourceFile fuel kinds joint npl = .ok (events, pos)) : events.toList.all evNT = true := by
  unfold parseSourceFile parseWith at h
  simp only [StateT.run] at h
  split at h
  · rename_i u s hs
    split at h
    · cases h
    · injection h with h
      injection h with h1 _
      subst h1
      have h0 : TokNT { kinds := kinds, joint := joint, noProgressLimit := npl } := by
        refine ⟨fun i => ?_, rfl⟩
        show (kinds.getD i .EOF).isTrivia = false
        by_cases hi : i < kinds.size
        · have : kinds.getD i .EOF = kinds[i] := by simp [Array.getD, hi]
          rw [this]; exact hk _ (by simp)
        · have : kinds.getD i .EOF = .EOF := by simp [Array.getD, hi]
          rw [this]; rfl
      exact ((sourceFile_tkp fuel).run _ _ h0 hs).2
  · cases h

/-- what a parser run on the input of a lexed text gives the builder: a rooted step list that
fits the token table, hence `glueOk`, `tokenKindsOk`, and a successful `build_tree` -/
theorem builder_ready (uc : UC) (s : List Char) (inp : Input) (fuel npl : Nat) (events : Array Ev)
    (pos : Nat) (steps : List Step) (hi : (lexedOf uc s).toInput = some inp)
    (hp : parseSourceFile fuel inp.kind.toArray inp.joint.toArray npl = .ok (events, pos))
    (hs : process events.toList = some steps) :
    glueOk (rawToksOf (lexedOf uc s)) steps = true ∧ Oq3.BuilderLayout.tokenKindsOk steps = true ∧
    ∃ tree errs, buildTree (rawToksOf (lexedOf uc s)) steps = .ok (tree, errs, true) := by
  have hinp := toInput_exact uc s
  rw [hi] at hinp
  simp only [Option.some.injEq] at hinp
  subst hinp
  have hpok := Oq3.Props.C01.parse_ok fuel _ _ npl events pos hp
  have hne : ∀ i, (hi : i < (ntKinds (rawToksOf (lexedOf uc s))).toArray.size) →
      (ntKinds (rawToksOf (lexedOf uc s))).toArray[i] ≠ SyntaxKind.EOF := by
    intro i hi
    have hmem : (ntKinds (rawToksOf (lexedOf uc s))).toArray[i] ∈ ntKinds (rawToksOf (lexedOf uc s)) := by
      simp
    simp only [ntKinds, List.mem_map, List.mem_filter] at hmem
    obtain ⟨t, ⟨ht, _⟩, hkt⟩ := hmem
    intro he
    exact rawToks_kind_ne_eof uc s t ht (hkt.trans he)
  obtain ⟨_, hsum⟩ := Oq3.Props.C01.parse_consumes_all fuel _ _ npl events pos hp hne
  have hrooted := process_rooted _ _ hpok.rootedE hs
  have hitems := process_items _ _ hs
  have hglue : glueI (jointSpec (rawToksOf (lexedOf uc s))) 0 (itemsE events.toList) = true := by
    rw [← Oq3.Props.C02.glueOK_items]; exact hpok.glue
  have hgk : Oq3.Props.C02.glueK (ntKinds (rawToksOf (lexedOf uc s))) 0 (itemsE events.toList) = true := by
    rw [← Oq3.Props.C02.glueKE_items]
    have := hpok.gluek
    -- the two `glueKE` (ParserInv / C02Full) are the same function
    have e : ∀ (K : Array SyntaxKind) (c : Nat) (evs : List Ev),
        Oq3.Props.C02.glueKE K c evs = Oq3.Parser.glueKE K c evs := by
      intro K c evs
      induction evs generalizing c with
      | nil => rfl
      | cons e es ih => cases e <;> simp [Oq3.Props.C02.glueKE, Oq3.Parser.glueKE, ih]
    rw [e]; exact this
  have hadj := Oq3.Props.C02.glueI_adj _ (adjBits (rawToksOf (lexedOf uc s))) _
    (fun i h1 h2 => joint_exact _ i h1 h2) _ 0 hglue hgk
  have hfit : fitsGo (rawToksOf (lexedOf uc s)) (itemsS steps) = true := by
    rw [hitems]
    apply fits_of_adj _ _ hadj
    rw [← Oq3.Props.C02.sumTok_items, hsum]; simp
  refine ⟨glueOk_of_fits _ _ hrooted hfit, ?_, ?_⟩
  · rw [tokenKindsOk_items, hitems]
    apply itemsE_all
    apply parse_tokNT fuel _ _ npl events pos _ hp
    intro k hk
    simp only [ntKinds, List.mem_map, List.mem_filter] at hk
    obtain ⟨t, ⟨_, ht⟩, rfl⟩ := hk
    simpa using ht
  · obtain ⟨out, hout⟩ := intersperse_fits _ steps hrooted hfit
    obtain ⟨k, cs, n, hbt, _⟩ := Oq3.Props.C02.buildTree_spec _ steps hrooted out true hout
    exact ⟨.node k cs, errorsOf out, hbt⟩

/-! ## the front end as one function, and the end-to-end theorems -/

open Oq3.Acc Oq3.C17 Oq3.Sema in
/-- text ↦ typed AST: lexer, `to_input`, parser, `process`, `build_tree`, typed accessors.
`none`: some stage did not return normally (parser panic / out of fuel / hang detector, or a
typed accessor that panics: `BAD-AST`) -/
def frontEnd (uc : UC) (fuel npl : Nat) (s : List Char) : Option Ast.Program :=
  match LexedStr.new uc s with
  | none => none
  | some l =>
    match l.toInput with
    | none => none
    | some inp =>
      match parseSourceFile fuel inp.kind.toArray inp.joint.toArray npl with
      | .error _ => none
      | .ok (events, _) =>
        match process events.toList with
        | none => none
        | some steps =>
          match buildTree (rawToksOf l) steps with
          | .error _ => none
          | .ok (t, _, _) =>
            match Build.program (cnodeOf t) with
            | .ok p => some p
            | .error _ => none

/-! ### (b) the parser is insensitive to the joint bits outside glue positions -/

/-- **`parse` depends on a joint bit only between adjacent pieces of a composite operator** -/
theorem parse_jagree (fuel : Nat) (kinds : Array SyntaxKind) (joint joint' : Array Bool) (npl : Nat)
    (events : Array Ev) (pos : Nat) (hJ : JAgree kinds joint joint')
    (h : parseSourceFile fuel kinds joint npl = .ok (events, pos)) :
    parseSourceFile fuel kinds joint' npl = .ok (events, pos) := by
  unfold parseSourceFile parseWith at h ⊢
  simp only [StateT.run] at h ⊢
  split at h
  · rename_i u s hs
    have hA : JEq { kinds := kinds, joint := joint, noProgressLimit := npl }
        { kinds := kinds, joint := joint', noProgressLimit := npl } := ⟨joint', rfl, hJ⟩
    obtain ⟨t', ht', J', hte, _⟩ := (sourceFile_ji fuel).run _ _ (u, s) hA hs
    rw [ht']
    simp only
    subst hte
    exact h
  · cases h

/-- the lexeme-level side condition: wherever two consecutive lexemes are adjacent pieces of a
composite operator (`>` `>`, `>` `=`, `-` `>`, `=` `=`, …: `gluePair`), the two layouts either both
put nothing between them or both put something -/
def glueGapsAgree (items₁ items₂ : List (Lexeme × Sep)) : Prop :=
  ∀ i, gluePair ((items₁.map (·.1.kind)).getD i .EOF) ((items₁.map (·.1.kind)).getD (i + 1) .EOF) = true →
    (jointOf items₁).getD i false = (jointOf items₂).getD i false

theorem glueGapsAgree_of_jointOf {items₁ items₂ : List (Lexeme × Sep)}
    (h : jointOf items₁ = jointOf items₂) : glueGapsAgree items₁ items₂ := fun i _ => by rw [h]

theorem glueGapsAgree_of_sameGaps {items₁ items₂ : List (Lexeme × Sep)}
    (hsame : items₁.map (·.1) = items₂.map (·.1)) (hg : sameGaps items₁ items₂) :
    glueGapsAgree items₁ items₂ := glueGapsAgree_of_jointOf (jointOf_of_sameGaps hsame hg)

section EndToEnd
open Oq3.Acc Oq3.C17 Oq3.Sema
variable (hu : AsciiUC uc) (lead₁ lead₂ : Sep) (items₁ items₂ : List (Lexeme × Sep))
  (hsame : items₁.map (·.1) = items₂.map (·.1))
  (h1 : sepOK lead₁ (itemsText items₁) = true) (h1' : itemsOK uc items₁ = true)
  (h2 : sepOK lead₂ (itemsText items₂) = true) (h2' : itemsOK uc items₂ = true)
  (hj : glueGapsAgree items₁ items₂)
include hu hsame h1 h1' h2 h2' hj

/-- (b) the parser gives the same events on the two layouts -/
theorem layout_same_events (fuel npl : Nat) (events : Array Ev) (pos : Nat)
    (h : parseSourceFile fuel (items₁.map (·.1.kind)).toArray (jointOf items₁).toArray npl = .ok (events, pos)) :
    parseSourceFile fuel (items₂.map (·.1.kind)).toArray (jointOf items₂).toArray npl = .ok (events, pos) := by
  have hk : items₁.map (·.1.kind) = items₂.map (·.1.kind) := by
    have := congrArg (List.map Lexeme.kind) hsame
    simp only [List.map_map] at this
    exact this
  rw [← hk]
  apply parse_jagree fuel _ _ _ npl events pos _ h
  intro i hi
  have := hj i (by simpa using hi)
  simpa using this

/-- **Layout invariance, text to typed AST.**  Two admissible layouts of one lexeme list that
agree on the gaps inside composite operators: the front end succeeds on both or on neither, and
the typed ASTs agree modulo spans. -/
theorem layout_invariant_text_ast (fuel npl : Nat) :
    (frontEnd uc fuel npl (sepText lead₁ ++ itemsText items₁)).map eraseSpans =
      (frontEnd uc fuel npl (sepText lead₂ ++ itemsText items₂)).map eraseSpans := by
  have hnt := layout_nt hu lead₁ lead₂ items₁ items₂ hsame h1 h1' h2 h2'
  have hi1 := layout_input hu lead₁ items₁ h1 h1'
  have hi2 := layout_input hu lead₂ items₂ h2 h2'
  have hj' : glueGapsAgree items₂ items₁ := by
    intro i hi
    have hk : items₁.map (·.1.kind) = items₂.map (·.1.kind) := by
      have := congrArg (List.map Lexeme.kind) hsame
      simp only [List.map_map] at this
      exact this
    rw [← hk] at hi
    exact (hj i hi).symm
  simp only [frontEnd, new_eq, hi1, hi2]
  cases hp : parseSourceFile fuel (items₁.map (·.1.kind)).toArray (jointOf items₁).toArray npl with
  | error e =>
    cases hp2 : parseSourceFile fuel (items₂.map (·.1.kind)).toArray (jointOf items₂).toArray npl with
    | error e2 => rfl
    | ok r =>
      obtain ⟨events, pos⟩ := r
      have := layout_same_events hu lead₂ lead₁ items₂ items₁ hsame.symm h2 h2' h1 h1' hj' fuel npl events pos hp2
      rw [hp] at this; cases this
  | ok r =>
    obtain ⟨events, pos⟩ := r
    have hp2 := layout_same_events hu lead₁ lead₂ items₁ items₂ hsame h1 h1' h2 h2' hj fuel npl events pos hp
    rw [hp2]
    simp only
    cases hs : process events.toList with
    | none => rfl
    | some steps =>
      simp only
      obtain ⟨g1, hk, t1, e1, hb1⟩ := builder_ready uc _ _ fuel npl events pos steps hi1 hp hs
      obtain ⟨g2, _, t2, e2, hb2⟩ := builder_ready uc _ _ fuel npl events pos steps hi2 hp2 hs
      rw [hb1, hb2]
      simp only
      have key := Oq3.C17Layout.layout_invariant_tokens_to_ast hnt hk g1 g2 hb1 hb2
      cases hq1 : Build.program (cnodeOf t1) with
      | error x =>
        rw [hq1] at key
        cases hq2 : Build.program (cnodeOf t2) with
        | error y => rfl
        | ok p2 => rw [hq2] at key; cases key
      | ok p1 =>
        rw [hq1] at key
        cases hq2 : Build.program (cnodeOf t2) with
        | error y => rw [hq2] at key; cases key
        | ok p2 =>
          rw [hq2] at key
          simp only [Except.map, Except.ok.injEq] at key
          simp only [Option.map_some, key]

/-- **Layout invariance, text to analysis.**  Two admissible layouts of one lexeme list that
agree on the gaps inside composite operators are analysed to the same outcome: the front end
fails on both or on neither, and the semantic pass gives the same panic / fuel-out, or the same
context (graph, symbol table, diagnostics) modulo the positions stored in the diagnostics
(`erCtx`). -/
theorem layout_invariant_text (fuel npl afuel : Nat) :
    (frontEnd uc fuel npl (sepText lead₁ ++ itemsText items₁)).map (fun p => (analyzeWith afuel p).map erCtx) =
      (frontEnd uc fuel npl (sepText lead₂ ++ itemsText items₂)).map (fun p => (analyzeWith afuel p).map erCtx) := by
  have h := layout_invariant_text_ast hu lead₁ lead₂ items₁ items₂ hsame h1 h1' h2 h2' hj fuel npl
  cases hf1 : frontEnd uc fuel npl (sepText lead₁ ++ itemsText items₁) with
  | none =>
    rw [hf1] at h
    cases hf2 : frontEnd uc fuel npl (sepText lead₂ ++ itemsText items₂) with
    | none => rfl
    | some p2 => rw [hf2] at h; cases h
  | some p1 =>
    rw [hf1] at h
    cases hf2 : frontEnd uc fuel npl (sepText lead₂ ++ itemsText items₂) with
    | none => rw [hf2] at h; cases h
    | some p2 =>
      rw [hf2] at h
      simp only [Option.map_some, Option.some.injEq] at h ⊢
      exact span_irrelevant afuel h

end EndToEnd

/-- the gap condition is about punctuation only: if no two consecutive lexemes are adjacent pieces
of a composite operator, every two admissible layouts are equivalent -/
theorem glueGapsAgree_of_no_pairs {items₁ items₂ : List (Lexeme × Sep)}
    (h : ∀ i, gluePair ((items₁.map (·.1.kind)).getD i .EOF) ((items₁.map (·.1.kind)).getD (i + 1) .EOF) = false) :
    glueGapsAgree items₁ items₂ := fun i hi => by rw [h i] at hi; cases hi

/-- which pairs of kinds are glue positions (for reference) -/
theorem gluePair_examples :
    gluePair .R_ANGLE .R_ANGLE = true ∧ gluePair .R_ANGLE .EQ = true ∧ gluePair .MINUS .R_ANGLE = true ∧
    gluePair .EQ .EQ = true ∧ gluePair .IDENT .R_ANGLE = false ∧ gluePair .R_ANGLE .IDENT = false ∧
    gluePair .IDENT .IDENT = false ∧ gluePair .L_PAREN .R_PAREN = false := by decide

/-! ### a checkable form of the side condition, and a witness -/

/-- `glueGapsAgree` as a Boolean check over the positions of the list -/
def glueGapsB (items₁ items₂ : List (Lexeme × Sep)) : Bool :=
  (List.range items₁.length).all fun i =>
    !gluePair ((items₁.map (·.1.kind)).getD i .EOF) ((items₁.map (·.1.kind)).getD (i + 1) .EOF) ||
      ((jointOf items₁).getD i false == (jointOf items₂).getD i false)

theorem gluePair_eof_left (b : SyntaxKind) : gluePair .EOF b = false := by
  have h : (SyntaxKind.all.all fun b => !gluePair .EOF b) = true := by decide
  have := (List.all_eq_true.mp h) b (mem_all b)
  simpa using this

theorem glueGapsAgree_of_check {items₁ items₂ : List (Lexeme × Sep)} (h : glueGapsB items₁ items₂ = true) :
    glueGapsAgree items₁ items₂ := by
  intro i hi
  by_cases hlt : i < items₁.length
  · have := (List.all_eq_true.mp h) i (List.mem_range.mpr hlt)
    rw [hi] at this
    simpa using this
  · have : (items₁.map (·.1.kind)).getD i .EOF = .EOF := by
      rw [List.getD_eq_getElem?_getD, List.getElem?_eq_none (by simp; omega)]; rfl
    rw [this, gluePair_eof_left] at hi
    cases hi

section Witness
open Oq3.Props.C14

/-- `a>>=b;` -/
def layA : List (Lexeme × Sep) :=
  [(.word ['a'], []), (.punct '>', []), (.punct '>', []), (.punct '=', []), (.word ['b'], []), (.punct ';', [])]

/-- ` a >>= /* c */ b ;⏎` — spaces and a comment inserted, `>>=` kept together -/
def layB : List (Lexeme × Sep) :=
  [(.word ['a'], [.ws [' ']]), (.punct '>', []), (.punct '>', []),
   (.punct '=', [.ws [' '], .block [' ', 'c', ' ', '*', '/'], .ws [' ']]),
   (.word ['b'], [.ws [' ']]), (.punct ';', [.ws ['\n']])]

/-- `a> >=b;` — the same lexemes, `>>=` torn apart: NOT equivalent (the side condition fails) -/
def layC : List (Lexeme × Sep) :=
  [(.word ['a'], []), (.punct '>', [.ws [' ']]), (.punct '>', []), (.punct '=', []),
   (.word ['b'], []), (.punct ';', [])]

theorem wit_same : layA.map (·.1) = layB.map (·.1) ∧ layA.map (·.1) = layC.map (·.1) := ⟨rfl, rfl⟩
theorem wit_gaps : glueGapsB layA layB = true ∧ glueGapsB layA layC = false := by decide +kernel

/-- both layouts are admissible for the ASCII class functions -/
theorem wit_ok : itemsOK ucAscii layA = true ∧ itemsOK ucAscii layB = true ∧
    sepOK [] (itemsText layA) = true ∧ sepOK [.ws [' ']] (itemsText layB) = true := by decide +kernel

/-- the instance of `layout_invariant_text`: `a>>=b;` and ` a >>= /* c */ b ;⏎` are analysed alike -/
theorem wit_instance (fuel npl afuel : Nat) :
    (frontEnd ucAscii fuel npl (sepText [] ++ itemsText layA)).map
        (fun p => (Oq3.Sema.analyzeWith afuel p).map Oq3.C17.erCtx) =
      (frontEnd ucAscii fuel npl (sepText [.ws [' ']] ++ itemsText layB)).map
        (fun p => (Oq3.Sema.analyzeWith afuel p).map Oq3.C17.erCtx) :=
  layout_invariant_text Oq3.Props.C15.ucAscii_ok [] [.ws [' ']] layA layB wit_same.1 wit_ok.2.2.1 wit_ok.1
    wit_ok.2.2.2 wit_ok.2.1 (glueGapsAgree_of_check wit_gaps.1) fuel npl afuel
theorem wit_not_sameGaps : ¬ sameGaps layA layB := by simp [sameGaps, layA, layB]

end Witness

end Oq3.C17Lex
