/-
C04 — the EXTENDED recursive reference language is accepted with zero diagnostics, by INDUCTION over the
language (programs of arbitrary size and nesting depth).  Extends `Props/C04Lang.lean`.

LANGUAGE (`Oq3.LangEv2.X`, `Lemmas/LangEv2.lean`; `Oq3.LangEv2.Stmt2` / `Stmts2`, `Lemmas/LangEv2S.lean`), over token kinds:
  X (expressions): primaries with any number of postfix operators, 19 binary and 3 prefix operators, arbitrary depth
    primaries  P ::= x | 1 | 1.0 | "01" | true | false | 10ns / 2im (number + identifier) | $0 | (X) | ty(X) | ty[X](X)
                   | measure q | measure $0 | measure q[I]…[I] | x[I]…[I]  (indexed identifier)
                   | P(X, …, X)  (call, possibly no arguments) | P[I]  (index expression; P a parenthesis, cast, call or index expression)
    index items I ::= X, … , X:X, … , X:X:X  (one or more, comma separated)
  S ::= [const] ty x ; | [const] ty[X] x ; | [const] ty x = X ; | [const] ty[X] x = X ;   (ty ∈ int uint float angle bit bool)
      | input ty[X]? x ; | output ty[X]? x ; | qubit q ; | qubit[X] q ; | qreg q[I] ; | creg c[I] ;
      | let x = X ;                    (LET_STMT in blocks and after the first non-item statement; ALIAS_DECLARATION_STATEMENT in the item run of the top level)
      | x = X ; | x[I]…[I] = X ;       | X ;
      | g Q, …, Q ; | g(X, …) Q, …, Q ;   | M … M g[(X, …)] Q, …, Q ;   | gphase X ; | M … M gphase X ;
            Q ::= q | $0 | q[I]…[I]      M ::= inv @ | pow(X) @ | ctrl @ | ctrl(X) @ | negctrl @ | negctrl(X) @
      | reset Q ; | barrier Q, …, Q ; | delay[X] Q, …, Q ; | break ; | continue ; | end ; | return ; | return X ;
      | pragma line | annotation line | include "f" ; | OPENQASM 3.0 ; | extern f(ty, …) -> ty ;
      | if (X) B | if (X) B else B  (`else if` chains: B a single `if`) | while (X) B | for ty[X]? x in IT B
            B ::= { S* } | S (a brace-less single statement)      IT ::= [X:X] | [X:X:X] | {I} | X
      | switch (X) { case I { S* } … default { S* } }   | { S* }  (bare block)
      | gate g q, … { S* } | gate g(p, …) q, … { S* } | def f(pty x, …) [-> ty] { S* } | cal { S* }

THEOREMS.
* `exprX_ok` (`Lemmas/LangEv2Expr.lean`): `expr_bp` parses the print of every canonical `X` with exactly the events `evsX x`,
  for every fuel ≥ `fuelX x`, from every state — by mutual induction over `X` / primaries / argument, item and index lists.
* `stmt_ok2` / `stmts_ok2` (`Lemmas/LangEv2Prog.lean`; statement lemmas in `LangEv2Stmt`, `LangEv2Flat`, `LangEv2Ctl`): every
  well-formed statement / statement list is accepted by `stmt` / the statement loop from any ready state, with exactly the
  events `evsS2` / `evsL2`.
* `program_accepted`: for every well-formed program `p` (`WFTop`) and every `fuel ≥ needL2 p + 3`, `parseSourceFile` on the
  print of `p` returns the events `evsP2 p` and has consumed every token; `evsP2 p` contains no `Error` event.
* `program_cst` (`Lemmas/LangEv2Process.lean`): `process (evsP2 p) = some (nodesP2 p)`, the pre-order node sequence of the
  derivation — including the forward-parent chains of postfix operators.

WELL-FORMEDNESS (`WFTop` → `WFL2` → `WFS2`, `Lemmas/LangEv2Prog.lean`, `LangEv2Top.lean`) — the side conditions the grammar needs:
* every expression is canonical for the operator table (`CanonX`, minimal parentheses), at level 1; the right-hand side of an
  assignment at level 12 (F06);
* index items do not start with `~` or `measure` (`_param_list_openqasm`: "expected value parameter", `~` / `measure` are
  missing from `PARAM_FIRST`); a designator `[w]` does not start with a float / bit-string literal ("Literal type designator
  must be an integer" — conservative: the parser only rejects a single literal) and only on types that take one;
  an index expression `P[I]` only on parentheses, casts, calls, index expressions (on identifiers the brackets belong to the
  INDEXED_IDENTIFIER; on literals / hardware qubits "Indexing into literal is not allowed"; after `measure q` they belong to the qubit);
* an expression statement / `return` value does not start with a type keyword (`stmt` parses `int(x);` as a declaration: error);
* F09e: a statement that ENDS (through brace-less bodies) with an assignment is not followed by a statement starting with `-`;
* F09d / F09f: a bare block is not the last statement of a block (`stmt` wraps it into an EXPR_STMT only if the next token is not
  `}`: the tree would depend on the context) — and, by construction, not followed by `;`;
* dangling else: the `then` branch of an `if … else` does not end with an `if` without `else`; a brace-less body is not a bare block;
* `for`: an expression as iterable needs a block as body (the token after the expression must end it);
* `switch`: at least one `case` or a `default` ("expecting `case` or `default` keyword");
* top level (`WFTop`): `let` is an alias declaration in the run of statements that `item` dispatches itself and a LET_STMT from the
  first statement on that `item` hands to the statement loop (and in blocks) — `Stmt2.alias` / `Stmt2.letS`.
START STATE: `RdyL 9`: no-progress hook off, no protected positions, `steps + 9 ≤ stepLimit` and `16 ≤ stepLimit` (the parser's
limit is 15 000 000; between two bumps the grammar calls `Parser::nth` a bounded number of times).

NOT IN THE LANGUAGE (with the reason):
* `defcal`, `defcalgrammar`, array types / array literals, `complex`, `duration` / `stretch` types, `box`: not attempted;
  `cal { … }` only with OpenQASM statements inside (the real grammar of calibration blocks is opaque to this parser);
* `barrier ;` without operands, `g() q;` with an empty argument list, `qubit $0;`, `extern f -> ty;` without parentheses: accepted by the
  grammar, not included; `qreg q;` without size: "Expected index operator";
* empty statements `;`: F09a (`item` reports "expected statement, found `;`" at the top level);
* `measure q -> c;`, `c = measure q;` is covered (assignment with a `measure` expression).
-/
import Oq3.Lemmas.LangEv2Top
import Oq3.Lemmas.LangEv2Process
import Oq3.Props.C04Lang

set_option linter.unusedSimpArgs false
set_option linter.unusedVariables false
namespace Oq3.Props.C04Lang2
open Oq3.Gen Oq3.Parser Oq3.Grammar Oq3.PrattEv Oq3.LangEv Oq3.LangEv2
open Oq3.Props.C04Lang (kindsOf jointOf initState initState_toks initState_eof)
open Oq3.Props.C05Events (errorFree errorFree_append)

/-! ### no error event -/

mutual
theorem bodyX_errorFree : ∀ (x : X) (fp : Option Nat), errorFree (bodyX x fp) = true
  | .prim p, fp => by simp [bodyX, bodyP_errorFree p fp]
  | .bin o l r, fp => by simp [bodyX, errorFree, errorFree_append, bodyX_errorFree l, bodyX_errorFree r]
  | .pre o e, fp => by simp [bodyX, errorFree, errorFree_append, bodyX_errorFree e]
theorem bodyP_errorFree : ∀ (p : Prim) (fp : Option Nat), errorFree (bodyP p fp) = true
  | .id, _ => rfl
  | .lit _, _ => rfl
  | .timing _, _ => rfl
  | .hw, _ => rfl
  | .measureE, _ => rfl
  | .measureHw, _ => rfl
  | .measureIdx ixs, _ => by simp [bodyP, errorFree, errorFree_append, evsIdx_errorFree ixs]
  | .paren e, _ => by simp [bodyP, errorFree, errorFree_append, bodyX_errorFree e]
  | .cast0 _ e, _ => by simp [bodyP, errorFree, errorFree_append, bodyX_errorFree e]
  | .castW _ w e, _ => by simp [bodyP, errorFree, errorFree_append, bodyX_errorFree e, bodyX_errorFree w]
  | .idIdx ixs, _ => by simp [bodyP, errorFree, errorFree_append, evsIdx_errorFree ixs]
  | .call p args, _ => by simp [bodyP, errorFree, errorFree_append, bodyP_errorFree p, evsXs_errorFree args]
  | .index p items, _ => by simp [bodyP, errorFree, errorFree_append, bodyP_errorFree p, evsItems_errorFree items]
theorem evsXs_errorFree : ∀ xs : XList, errorFree (evsXs xs) = true
  | .nil => rfl
  | .cons x .nil => by simp [evsXs, errorFree, bodyX_errorFree x]
  | .cons x (.cons y ys) => by simp [evsXs, errorFree, errorFree_append, bodyX_errorFree x, evsXs_errorFree (.cons y ys)]
theorem evsItem_errorFree : ∀ i : LangEv2.Item, errorFree (evsItem i) = true
  | .ex x => by simp [evsItem, errorFree, bodyX_errorFree x]
  | .r2 lo hi => by simp [evsItem, errorFree, errorFree_append, bodyX_errorFree lo, bodyX_errorFree hi]
  | .r3 lo mid hi => by simp [evsItem, errorFree, errorFree_append, bodyX_errorFree lo, bodyX_errorFree mid, bodyX_errorFree hi]
theorem evsItems_errorFree : ∀ is : ItemList, errorFree (evsItems is) = true
  | .one i => by simp [evsItems, evsItem_errorFree i]
  | .cons i is => by simp [evsItems, errorFree, errorFree_append, evsItem_errorFree i, evsItems_errorFree is]
theorem evsIdx_errorFree : ∀ ixs : IdxList, errorFree (evsIdx ixs) = true
  | .one is => by simp [evsIdx, errorFree, errorFree_append, evsItems_errorFree is]
  | .cons is rest => by simp [evsIdx, errorFree, errorFree_append, evsItems_errorFree is, evsIdx_errorFree rest]
end

theorem evsX_errorFree (x : X) : errorFree (evsX x) = true := by simp [evsX, errorFree, bodyX_errorFree]


theorem evsQ_errorFree : ∀ q : Q, errorFree (evsQ q) = true
  | .id => rfl
  | .hw => rfl
  | .idx ixs => by simp [evsQ, errorFree, errorFree_append, evsIdx_errorFree]

theorem evsQs_errorFree : ∀ qs : QList, errorFree (evsQs qs) = true
  | .one q => by simp [evsQs, evsQ_errorFree]
  | .cons q qs => by simp [evsQs, errorFree, errorFree_append, evsQ_errorFree, evsQs_errorFree qs]

theorem evsMod_errorFree (m : Mod) : errorFree (evsMod m) = true := by
  cases m with
  | inv => rfl
  | pow e => simp [evsMod, parenEvs, errorFree, errorFree_append, evsX_errorFree]
  | ctrl e => cases e <;> simp [evsMod, parenEvs, errorFree, errorFree_append, evsX_errorFree]
  | negctrl e => cases e <;> simp [evsMod, parenEvs, errorFree, errorFree_append, evsX_errorFree]

theorem evsMods_errorFree : ∀ ms : List Mod, errorFree (evsMods ms) = true
  | [] => rfl
  | m :: ms => by simp [evsMods, errorFree_append, evsMod_errorFree, evsMods_errorFree ms]

theorem tyEvsX_errorFree (ty : Ty) (w : Option X) : errorFree (tyEvsX ty w) = true := by
  cases w <;> simp [tyEvsX, errorFree, errorFree_append, evsX_errorFree]

theorem argListEvs_errorFree (args : XList) : errorFree (argListEvs args) = true := by
  cases args <;> simp [argListEvs, errorFree, errorFree_append, evsXs_errorFree]

theorem iterEvs_errorFree (it : Iter) : errorFree (iterEvs it) = true := by
  cases it <;> simp [iterEvs, errorFree, errorFree_append, evsX_errorFree, evsItems_errorFree]

theorem tyListEvs_errorFree : ∀ ts : List Ty, errorFree (tyListEvs ts) = true
  | [] => rfl
  | [t] => rfl
  | t :: u :: us => by simp [tyListEvs, errorFree, tyListEvs_errorFree (u :: us)]

open Oq3.Props.C04Lang (paramEvs_errorFree typedEvs_errorFree retEvs_errorFree)

mutual
theorem evsS2_errorFree : ∀ st : Stmt2, errorFree (evsS2 st) = true
  | .decl cst ty w none => by cases cst <;> simp [evsS2, nameEvs, errorFree, errorFree_append, tyEvsX_errorFree]
  | .decl cst ty w (some e) => by cases cst <;> simp [evsS2, nameEvs, errorFree, errorFree_append, tyEvsX_errorFree, evsX_errorFree]
  | .io out ty w => by simp [evsS2, nameEvs, errorFree, errorFree_append, tyEvsX_errorFree]
  | .qubit none => rfl
  | .qubit (some w) => by simp [evsS2, desigEvs, nameEvs, errorFree, errorFree_append, evsX_errorFree]
  | .oldReg c items => by simp [evsS2, errorFree, errorFree_append, evsItems_errorFree]
  | .letS e => by simp [evsS2, errorFree, errorFree_append, evsX_errorFree]
  | .alias e => by simp [evsS2, nameEvs, errorFree, errorFree_append, evsX_errorFree]
  | .assign ixs rhs => by simp [evsS2, errorFree, errorFree_append, evsX_errorFree, bodyP_errorFree]
  | .exprS x => by simp [evsS2, errorFree, errorFree_append, bodyX_errorFree, exprStmtTail]
  | .gate .nil qs => by
    simp [evsS2, wrapStmt, gateCallInner, qlistEvs, argListEvs, tombLink, exprStmtTail, errorFree, errorFree_append, evsQs_errorFree]
  | .gate (.cons a as) qs => by
    simp [evsS2, qlistEvs, tombLink, exprStmtTail, errorFree, errorFree_append, evsQs_errorFree, argListEvs_errorFree]
  | .modGate m ms args qs => by
    simp [evsS2, wrapStmt, gateCallInner, qlistEvs, tombLink, exprStmtTail, errorFree, errorFree_append, evsQs_errorFree,
      argListEvs_errorFree, evsMods_errorFree]
  | .gphase x => by simp [evsS2, wrapStmt, tombLink, exprStmtTail, errorFree, errorFree_append, evsX_errorFree]
  | .modGphase m ms x => by
    simp [evsS2, wrapStmt, tombLink, exprStmtTail, errorFree, errorFree_append, evsX_errorFree, evsMods_errorFree]
  | .reset q => by simp [evsS2, errorFree, errorFree_append, evsQ_errorFree]
  | .barrier qs => by simp [evsS2, qlistEvs, errorFree, errorFree_append, evsQs_errorFree]
  | .delay d qs => by simp [evsS2, qlistEvs, desigEvs, errorFree, errorFree_append, evsQs_errorFree, evsX_errorFree]
  | .brk => rfl
  | .cont => rfl
  | .endS => rfl
  | .pragma => rfl
  | .annot => rfl
  | .incl => rfl
  | .version => rfl
  | .externS tys ret => by simp [evsS2, nameEvs, errorFree, errorFree_append, tyListEvs_errorFree, retEvs_errorFree]
  | .ifS c thn => by simp [evsS2, errorFree, errorFree_append, evsX_errorFree, evsB_errorFree thn]
  | .ifElse c thn els => by simp [evsS2, errorFree, errorFree_append, evsX_errorFree, evsB_errorFree thn, evsB_errorFree els]
  | .whileS c body => by simp [evsS2, errorFree, errorFree_append, evsX_errorFree, evsB_errorFree body]
  | .forS ty w it body => by
    simp [evsS2, nameEvs, errorFree, errorFree_append, tyEvsX_errorFree, iterEvs_errorFree, evsB_errorFree body]
  | .switchS c cs => by simp [evsS2, errorFree, errorFree_append, evsX_errorFree, evsC_errorFree cs]
  | .block ss => by simp [evsS2, tombLink, errorFree, errorFree_append, evsL2_errorFree ss]
  | .gateDef none nq body => by simp [evsS2, blockEvs, errorFree, errorFree_append, paramEvs_errorFree, evsL2_errorFree body]
  | .gateDef (some k) nq body => by simp [evsS2, blockEvs, errorFree, errorFree_append, paramEvs_errorFree, evsL2_errorFree body]
  | .defS ps ret body => by
    simp [evsS2, blockEvs, errorFree, errorFree_append, typedEvs_errorFree, retEvs_errorFree, evsL2_errorFree body]
  | .cal body => by simp [evsS2, blockEvs, errorFree, errorFree_append, evsL2_errorFree body]
  | .ret none => rfl
  | .ret (some e) => by simp [evsS2, wrapStmt, tombLink, exprStmtTail, errorFree, errorFree_append, evsX_errorFree]
theorem evsB_errorFree : ∀ b : Body, errorFree (evsB b) = true
  | .blk ss => by simp [evsB, blockEvs, errorFree, errorFree_append, evsL2_errorFree ss]
  | .one s => by simp [evsB, evsS2_errorFree s]
theorem evsC_errorFree : ∀ cs : Cases, errorFree (evsC cs) = true
  | .nil => rfl
  | .dflt body => by simp [evsC, blockEvs, errorFree, errorFree_append, evsL2_errorFree body]
  | .cons vals body rest => by
    simp [evsC, blockEvs, errorFree, errorFree_append, evsItems_errorFree, evsL2_errorFree body, evsC_errorFree rest]
theorem evsL2_errorFree : ∀ ss : Stmts2, errorFree (evsL2 ss) = true
  | .nil => rfl
  | .cons st ss => by simp [evsL2, errorFree_append, evsS2_errorFree st, evsL2_errorFree ss]
end

/-- the events of a program contain no `Error` event -/
theorem evsP2_errorFree (p : Stmts2) : errorFree (evsP2 p) = true := by
  simp [evsP2, errorFree, errorFree_append, evsL2_errorFree]

/-! ### whole programs -/

/-- **Every well-formed program of the extended reference language is accepted**: `parseSourceFile` on its
print succeeds (no panic, no `DropBomb`), returns exactly the events `evsP2 p` and has consumed
every token — for every fuel above the explicit bound. -/
theorem program_accepted (p : Stmts2) (hwf : WFTop p) (fuel : Nat) (hf : needL2 p + 3 ≤ fuel) :
    parseSourceFile fuel (kindsOf (toksL2 p)) (jointOf (toksL2 p)) = .ok ((evsP2 p).toArray, (toksL2 p).length) := by
  have hr : RdyL 9 (initState (toksL2 p)) :=
    ⟨rfl, (by show 0 + 9 ≤ 15000000; decide), (by intro p hp; cases hp), (by show 16 ≤ 15000000; decide)⟩
  obtain ⟨st, sb, hrun⟩ := sourceFile_ok2 p fuel (initState (toksL2 p)) hf hr
    (by have := initState_toks (toksL2 p); exact this)
    (by have := initState_eof (toksL2 p); show (initState (toksL2 p)).kindAt (0 + _) = _; rw [Nat.zero_add]; exact this) hwf
  unfold parseSourceFile parseWith
  show (match sourceFile fuel (initState (toksL2 p)) with | .ok (_, s) => _ | .error e => _) = _
  rw [hrun]
  simp [P.ov, initState]

/-- **the CST of a program mirrors its derivation**: `process` turns the events of the program into
the pre-order node sequence `nodesP2 p` (a fact about the event encoding, for every program) -/
theorem program_cst (p : Stmts2) : process (evsP2 p) = some (nodesP2 p) := process_evsP2 p

/-- acceptance, absence of diagnostics and shape of the CST in one statement -/
theorem program_accepted_cst (p : Stmts2) (hwf : WFTop p) (fuel : Nat) (hf : needL2 p + 3 ≤ fuel) :
    ∃ ev, parseSourceFile fuel (kindsOf (toksL2 p)) (jointOf (toksL2 p)) = .ok (ev, (toksL2 p).length) ∧
      errorFree ev.toList = true ∧ process ev.toList = some (nodesP2 p) :=
  ⟨_, program_accepted p hwf fuel hf, by simpa using evsP2_errorFree p, by simpa using program_cst p⟩

/-- the expression rule (`Lemmas/LangEv2Expr.lean`) for reference -/
theorem expr_rule (x : X) : ExprOK x (fuelX x) := exprX_ok x


/-! ### non-vacuity: a nested program -/

/-- ```
OPENQASM 3.0;
include "stdgates.inc";
const uint[8] n = 4;
qubit[n] q;
bit[n] c;
let a = q[0:1];
gate g(t) a, b { rx(t) a; ctrl @ inv @ h a, b; }
def f(int n, qubit q) -> bit { return measure q; }
for uint i in [0:n - 1] { h q[i]; c[i] = measure q[i]; }
if (c[0] == 1) x q[0]; else if (f(2, q[1])) { reset q[1]; } else { delay[10ns] q[0], $1; }
switch (n) { case 1, 2 { gphase(pi); } default { break; } }
while (!x) { { x = -x; } y = (2.0 * float[32](n)); }      -- F06: the right-hand side is not a bare binary expression
``` -/
def demo : Stmts2 :=
  let xi : X := .prim .id
  let n1 : X := .prim (.lit .int)
  let ix (x : X) : IdxList := .one (.one (.ex x))
  .cons .version
  (.cons .incl
  (.cons (.decl true .uint (some n1) (some n1))
  (.cons (.qubit (some xi))
  (.cons (.decl false .bit (some xi) none)
  (.cons (.alias (.prim (.idIdx (.one (.one (.r2 n1 n1))))))
  (.cons (.gateDef (some 0) 1 (.cons (.gate (.cons xi .nil) (.one .id))
      (.cons (.modGate (.ctrl none) [.inv] .nil (.cons .id (.one .id))) .nil)))
  (.cons (.defS [.cls .int, .qubit] (some .bit) (.cons (.ret (some (.prim .measureE))) .nil))
  (.cons (.forS .uint none (.range2 n1 (.bin .minus xi n1))
      (.blk (.cons (.gate .nil (.one (.idx (ix xi)))) (.cons (.assign (some (ix xi)) (.prim (.measureIdx (ix xi)))) .nil))))
  (.cons (.ifElse (.bin .eq2 (.prim (.idIdx (ix n1))) n1) (.one (.gate .nil (.one (.idx (ix n1)))))
      (.one (.ifElse (.prim (.call .id (.cons n1 (.cons (.prim (.idIdx (ix n1))) .nil))))
        (.blk (.cons (.reset (.idx (ix n1))) .nil))
        (.blk (.cons (.delay (.prim (.timing .int)) (.cons (.idx (ix n1)) (.one .hw))) .nil)))))
  (.cons (.switchS xi (.cons (.cons (.ex n1) (.one (.ex n1))) (.cons (.gphase (.prim (.paren xi))) .nil) (.dflt (.cons .brk .nil))))
  (.cons (.whileS (.pre .bang xi) (.blk (.cons (.block (.cons (.assign none (.pre .minus xi)) .nil))
      (.cons (.assign none (.prim (.paren (.bin .star (.prim (.lit .float)) (.prim (.castW .float n1 xi)))))) .nil))))
  .nil)))))))))))

theorem demo_wf : WFTop demo := by
  simp [demo, WFTop, WFItem, isItem2, WFL2, WFS2, WFB, WFC, CanonX, CanonP, CanonXs, CanonItem, CanonItems, CanonIdx, CanonQ, CanonQs,
    CanonMods, CanonMod, CanonTarget, CanonIter, CanonCases, iterBodyOK, WidthOK, ItemsFirstOK, IdxFirstOK, firstItem, firstX, firstP,
    BinOp.pow, endsAssign, endsAssignB, endsIfB, endsIf, endsBlock, endsBlockB, startsMinus2, Ty.wide, firstTokS2, exprStmtFirst2,
    indexable, Lit.kind, Num.kind, PreOp.kind]

theorem demo_accepted (fuel : Nat) (h : needL2 demo + 3 ≤ fuel) :
    parseSourceFile fuel (kindsOf (toksL2 demo)) (jointOf (toksL2 demo)) = .ok ((evsP2 demo).toArray, (toksL2 demo).length) :=
  program_accepted demo demo_wf fuel h

end Oq3.Props.C04Lang2
