/-
C16 — statement parsing is compositional: context never changes a statement's parse.

All statements are about the grammar model (`Oq3/Model/Grammar.lean`) at the EVENT level.

PROVED here (for every state / every input, no bound):

1. `optItem_result`: what `opt_item` returns is decided by the first two tokens alone
   (`itemFirst`): on an item-first token pair it returns `Ok(())`, otherwise it returns the marker
   untouched, having consumed nothing and pushed nothing.
2. `dispatch_equiv_partial`: on an item-first token pair other than `let`, the top-level
   dispatcher `item` IS the block-level dispatcher `stmt` followed by the top-level-only check
   "expected statement, found `;`" (`semiCheck`) — an equation between the two runs, for every
   fuel and every state, failures included.  The guards are decidable in the first two tokens.
   The complete list of differences between the two dispatchers is therefore:
   (D1) `let`   — `stmt` intercepts it as LET_STMT, `item` makes it ALIAS_DECLARATION_STATEMENT;
   (D2) a `;` directly after an item statement — an error under `item`, silently eaten by `stmt`;
   (D3) first tokens that are not item-first — `item` does not parse ONE statement at all: it
        hands the whole rest of the input to the `stmt` loop (`item_falls_through`), so from the
        first non-item statement on, every later statement is parsed by `stmt`, not `item`
        (this is how (D1)/(D2) become context dependence);
   (D4) `}` at top level is an error node under `item`; `stmt` leaves it alone.
   Each difference has a kernel-evaluated witness (`witness_*`).
3. A further context dependence that is NOT a dispatcher difference, found while stating the
   `Follow` conditions: an assignment statement keeps looking for a binary operator AFTER its
   own `;`, so `x = 1; -y;` is one statement `(x = 1;) - y;` with no diagnostic
   (`witness_assign_then_minus`).
4. Locality (`Oq3/Lemmas/Locality.lean`, `Oq3/Lemmas/GrammarLoc.lean`, generated proof script):
   every grammar function, at every fuel, depends only on the tokens up to two positions beyond
   the position it finally reaches, never moves backwards and never writes the input
   (`grammar_local`).  Consequences stated here: `stmt_prefix_determined`,
   `item_prefix_determined`, `sourceFile_prefix_determined`.

NOT proved (described precisely in the evidence): the relocation half of compositionality —
that the events produced from a state `(events, pos)` are the events produced from the empty
state on the input suffix, shifted — and hence the general `sequence_compositional`.  For the
statement shapes of `Props/C04.lean` it is available in closed form: every `accept_*` lemma there
holds for an arbitrary start state and an arbitrary continuation.
-/
import Oq3.Lemmas.GrammarLoc
import Oq3.Model.Process

namespace Oq3.Props.C16
open Oq3.Gen Oq3.Parser Oq3.Grammar

/-! ## 1. what `opt_item` decides from the first two tokens -/

/-- keywords on which `opt_item` dispatches to a statement parser -/
def itemKeyword : SyntaxKind → Bool
  | .QUBIT_KW | .CONST_KW | .GATE_KW | .BREAK_KW | .CONTINUE_KW | .END_KW | .IF_KW | .WHILE_KW
  | .FOR_KW | .DEF_KW | .DEFCAL_KW | .CAL_KW | .DEFCALGRAMMAR_KW | .EXTERN_KW | .RESET_KW
  | .BARRIER_KW | .O_P_E_N_Q_A_S_M_KW | .INCLUDE_KW | .SWITCH_KW | .LET_KW | .DELAY_KW
  | .INPUT_KW | .OUTPUT_KW => true
  | _ => false

/-- `opt_item` parses a statement iff the first two tokens satisfy this -/
def itemFirst (k la : SyntaxKind) : Bool :=
  (isClassicalType k && la != .L_PAREN) || itemKeyword k

theorem bind_const_val {α β} (x : G α) (v : β) (s : P) (r : β × P)
    (h : (x >>= fun a => (fun _ => (pure v : G β)) a) s = .ok r) : r.1 = v := by
  rw [G.bind_ok] at h
  obtain ⟨a, s1, _, h2⟩ := h
  simp only [G.pure_ok] at h2
  rw [h2]

/-- `opt_item` on a fixed state: `Ok(())` exactly on item-first tokens; otherwise the marker
comes back and the only trace is the `nth(1)` step counter -/
theorem optItem_result (fuel : Nat) (m : Marker) (s : P) (r : Except Marker Unit) (s' : P)
    (h : optItem (fuel + 1) m s = .ok (r, s')) :
    (itemFirst (s.kindAt s.pos) (s.kindAt (s.pos + 1)) = true → r = .ok ()) ∧
    (itemFirst (s.kindAt s.pos) (s.kindAt (s.pos + 1)) = false →
      r = .error m ∧ s' = { s with steps := s.steps + 1 }) := by
  rw [optItem.eq_2, G.bind_ok] at h
  obtain ⟨la, s1, h1, h2⟩ := h
  rw [nth_eq] at h1
  split at h1
  · simp at h1
  · split at h1
    · simp at h1
    · simp only [Except.ok.injEq, Prod.mk.injEq] at h1
      obtain ⟨rfl, rfl⟩ := h1
      rw [G.bind_ok] at h2
      obtain ⟨k, s2, h3, h4⟩ := h2
      rw [current_ok] at h3
      obtain ⟨rfl, rfl⟩ := Prod.mk.inj h3
      have hk : ({ s with steps := s.steps + 1 } : P).kindAt ({ s with steps := s.steps + 1 } : P).pos
          = s.kindAt s.pos := rfl
      rw [hk] at h4
      split at h4
      · -- classical declaration branch
        rename_i hc
        have hv : r = .ok () := by
          have := bind_const_val _ _ _ _ h4
          exact this
        refine ⟨fun _ => hv, fun hf => ?_⟩
        simp only [itemFirst, hc, Bool.true_or] at hf
        exact absurd hf (by simp)
      · rename_i hc
        rw [G.bind_ok] at h4
        obtain ⟨k2, s3, h5, h6⟩ := h4
        rw [current_ok] at h5
        obtain ⟨rfl, rfl⟩ := Prod.mk.inj h5
        rw [hk] at h6
        have hc' : (isClassicalType (s.kindAt s.pos) && s.kindAt (s.pos + 1) != .L_PAREN) = false := by
          simpa using hc
        simp only [itemFirst, hc', Bool.false_or]
        cases hkk : s.kindAt s.pos <;> rw [hkk] at h6 <;> dsimp only at h6 <;>
          first
          | (exact ⟨fun _ => bind_const_val _ _ _ _ h6, fun hf => absurd hf (by decide)⟩)
          | (simp only [G.pure_ok, Prod.mk.injEq] at h6
             obtain ⟨rfl, rfl⟩ := h6
             exact ⟨fun ht => absurd ht (by decide), fun _ => ⟨rfl, rfl⟩⟩)

/-! ## 2. `item` versus `stmt` -/

/-- the check that only the top-level dispatcher performs after an item statement -/
def semiCheck : G Unit := do
  if (← at' .SEMICOLON) then
    errAndBump "expected statement, found `;`"
  return

theorem itemFirst_semicolon (la : SyntaxKind) : itemFirst .SEMICOLON la = false := by
  simp [itemFirst, isClassicalType, itemKeyword, SyntaxKind.isScalarType]

/-- **Dispatch equivalence.**  On an item-first token pair other than `let`, `item` is `stmt`
followed by `semiCheck`: the same result and the same final state, for every fuel and every
state (equal also when both fail, with the same failure). -/
theorem dispatch_equiv_partial (fuel : Nat) (s : P)
    (hk : itemFirst (s.kindAt s.pos) (s.kindAt (s.pos + 1)) = true)
    (hlet : s.kindAt s.pos ≠ .LET_KW) :
    item (fuel + 1) false s = (stmt (fuel + 1) >>= fun _ => semiCheck) s := by
  have hsemi : (s.kindAt s.pos == SyntaxKind.SEMICOLON) = false := by
    cases h : (s.kindAt s.pos == SyntaxKind.SEMICOLON) with
    | false => rfl
    | true =>
      have : s.kindAt s.pos = .SEMICOLON := by simpa using h
      rw [this, itemFirst_semicolon] at hk
      exact absurd hk (by simp)
  have hlet' : (s.kindAt s.pos == SyntaxKind.LET_KW) = false := by simpa using hlet
  rw [item.eq_2, stmt.eq_2]
  simp only [G.bind_apply, eat_simple_eq .SEMICOLON rfl rfl, at_simple_eq .LET_KW rfl, hsemi, hlet',
    Bool.false_eq_true, if_false, start_eq]
  by_cases hh : s.hookTrip = true
  · simp only [hh, if_true]
  · simp only [hh, if_false, Bool.false_eq_true]
    cases fuel with
    | zero => simp only [optItem.eq_1, G.fail_apply]
    | succ f =>
      cases ho : optItem (f + 1) { pos := s.events.size }
          { s with events := s.events.push Ev.tombstone, sinceBump := s.sinceBump + 1, live := s.live + 1 } with
      | error e => rfl
      | ok p =>
        obtain ⟨r, s2⟩ := p
        have hr := (optItem_result f _ _ r s2 ho).1 hk
        subst hr
        simp only [G.pure_apply]
        rfl

/-- **Fall-through.**  On a first token that is neither item-first nor `}` nor end of input, a
successful `item` is a run of the statement LOOP `expr_block_statements` (which only returns at
`}` or end of input) from the same events and the same position: `item` does not parse one
statement, it parses all the remaining ones with `stmt`. -/
theorem item_falls_through (fuel : Nat) (s : P) (r : Unit × P)
    (hk : itemFirst (s.kindAt s.pos) (s.kindAt (s.pos + 1)) = false)
    (hc : s.kindAt s.pos ≠ .R_CURLY) (he : s.kindAt s.pos ≠ .EOF)
    (h : item (fuel + 2) false s = .ok r) :
    exprBlockStatements (fuel + 1) { s with steps := s.steps + 1, sinceBump := s.sinceBump + 1 } = .ok r := by
  rw [item.eq_2, G.bind_ok] at h
  obtain ⟨m, s1, h1, h2⟩ := h
  have hst := start_ok s (m, s1) h1
  obtain ⟨rfl, rfl⟩ := Prod.mk.inj hst
  rw [G.bind_ok] at h2
  obtain ⟨r1, s2, h3, h4⟩ := h2
  obtain ⟨rfl, rfl⟩ := (optItem_result fuel _ _ r1 s2 h3).2 hk
  dsimp only at h4
  rw [G.bind_ok] at h4
  obtain ⟨k, s3, h5, h6⟩ := h4
  rw [current_ok] at h5
  obtain ⟨rfl, rfl⟩ := Prod.mk.inj h5
  have hc' : (s.kindAt s.pos == SyntaxKind.R_CURLY) = false := by simpa using hc
  have he' : (s.kindAt s.pos == SyntaxKind.EOF) = false := by simpa using he
  simp only [P.kindAt] at hc' he'
  simp only [P.kindAt, hc', he', Bool.false_and, Bool.or_self, Bool.false_eq_true, if_false] at h6
  rw [G.bind_ok] at h6
  obtain ⟨u, s4, h7, h8⟩ := h6
  rw [abandon_eq] at h7
  simp only [Array.size_push, Nat.add_sub_cancel, beq_self_eq_true, if_true, Array.back?_push,
    Ev.tombstone, Bool.and_self, Option.isNone_none, Array.pop_push, Bool.false_or,
    Nat.add_eq_zero_iff, Nat.succ_ne_self, and_false, beq_iff_eq, if_false] at h7
  split at h7
  · simp at h7
  · simp only [Except.ok.injEq, Prod.mk.injEq] at h7
    obtain ⟨_, rfl⟩ := h7
    exact h8

/-! ## 3. witnesses (kernel-evaluated closed runs of the model; tokens without joint bits) -/

/-- steps of the model's parse of a token-kind sequence (`none` = panic / fuel / `process` failed) -/
def stepsOf (ks : List SyntaxKind) : Option (List Step) :=
  match parseSourceFile 200 ks.toArray (ks.map fun _ => false).toArray with
  | .ok (ev, _) => process ev.toList
  | .error _ => none

def enters : List Step → List SyntaxKind
  | [] => []
  | .enter k :: ss => k :: enters ss
  | _ :: ss => enters ss

def errors : List Step → List String
  | [] => []
  | .error msg :: ss => msg :: errors ss
  | _ :: ss => errors ss

/-- kinds of the children nodes of the root, i.e. of the top-level statements -/
def topKinds : Nat → List Step → List SyntaxKind
  | _, [] => []
  | d, .enter k :: ss => if d == 1 then k :: topKinds (d + 1) ss else topKinds (d + 1) ss
  | d, .exit :: ss => topKinds (d - 1) ss
  | d, _ :: ss => topKinds d ss

/-- node kinds in pre-order, diagnostics, and top-level statement kinds -/
def summary (ks : List SyntaxKind) : Option (List SyntaxKind × List String × List SyntaxKind) :=
  (stepsOf ks).map fun st => (enters st, errors st, topKinds 0 st)

/-- (D1) `let a = q;` at the start of a file is an alias declaration … -/
theorem witness_let_first :
    summary [.LET_KW, .IDENT, .EQ, .IDENT, .SEMICOLON] =
      some ([.SOURCE_FILE, .ALIAS_DECLARATION_STATEMENT, .NAME, .IDENTIFIER], [],
            [.ALIAS_DECLARATION_STATEMENT]) := by decide +kernel

/-- … but after any non-item statement (`y;`) the same tokens are a LET_STMT (without NAME node) -/
theorem witness_let_after_stmt :
    summary [.IDENT, .SEMICOLON, .LET_KW, .IDENT, .EQ, .IDENT, .SEMICOLON] =
      some ([.SOURCE_FILE, .EXPR_STMT, .IDENTIFIER, .LET_STMT, .IDENTIFIER], [],
            [.EXPR_STMT, .LET_STMT]) := by decide +kernel

/-- … and inside every block (`{ let a = q; }`) -/
theorem witness_let_in_block :
    summary [.L_CURLY, .LET_KW, .IDENT, .EQ, .IDENT, .SEMICOLON, .R_CURLY] =
      some ([.SOURCE_FILE, .EXPR_STMT, .BLOCK_EXPR, .LET_STMT, .IDENTIFIER], [], [.EXPR_STMT]) := by
  decide +kernel

/-- (D2) `int x;;` at the start of a file: the empty statement is an error … -/
theorem witness_semicolon_first :
    summary [.INT_TY, .IDENT, .SEMICOLON, .SEMICOLON] =
      some ([.SOURCE_FILE, .CLASSICAL_DECLARATION_STATEMENT, .SCALAR_TYPE, .NAME, .ERROR],
            ["expected statement, found `;`"], [.CLASSICAL_DECLARATION_STATEMENT, .ERROR]) := by
  decide +kernel

/-- … but not after a non-item statement -/
theorem witness_semicolon_after_stmt :
    summary [.IDENT, .SEMICOLON, .INT_TY, .IDENT, .SEMICOLON, .SEMICOLON] =
      some ([.SOURCE_FILE, .EXPR_STMT, .IDENTIFIER, .CLASSICAL_DECLARATION_STATEMENT, .SCALAR_TYPE, .NAME],
            [], [.EXPR_STMT, .CLASSICAL_DECLARATION_STATEMENT]) := by decide +kernel

/-- (D4) `}` at top level -/
theorem witness_rcurly_top :
    summary [.R_CURLY] = some ([.SOURCE_FILE, .ERROR], ["unmatched `}`"], [.ERROR]) := by
  decide +kernel

/-- the statement `-y;` alone … -/
theorem witness_minus_alone :
    summary [.MINUS, .IDENT, .SEMICOLON] =
      some ([.SOURCE_FILE, .EXPR_STMT, .PREFIX_EXPR, .IDENTIFIER], [], [.EXPR_STMT]) := by decide +kernel

/-- … the statement `x = 1;` alone … -/
theorem witness_assign_alone :
    summary [.IDENT, .EQ, .INT_NUMBER, .SEMICOLON] =
      some ([.SOURCE_FILE, .ASSIGNMENT_STMT, .IDENTIFIER, .LITERAL], [], [.ASSIGNMENT_STMT]) := by
  decide +kernel

/-- … and their concatenation `x = 1; -y;`: ONE statement, the binary expression
`(x = 1;) - y`, accepted without any diagnostic.  The assignment is completed together with its
`;` inside the operator loop of `expr_bp`, which then goes on looking for a binary operator. -/
theorem witness_assign_then_minus :
    summary [.IDENT, .EQ, .INT_NUMBER, .SEMICOLON, .MINUS, .IDENT, .SEMICOLON] =
      some ([.SOURCE_FILE, .EXPR_STMT, .BIN_EXPR, .ASSIGNMENT_STMT, .IDENTIFIER, .LITERAL, .IDENTIFIER],
            [], [.EXPR_STMT]) := by decide +kernel

/-! ## 4. locality -/

/-- every function of the grammar, at every fuel: local with a 3-token window, position never
decreases, input never written -/
theorem grammar_local (fuel : Nat) : AllLM fuel := allLM fuel

/-- what locality means for one run: replace the input by any input that agrees on the first
`m` tokens (kinds and joint bits); if the original run ended at a position `p` with `p + 3 ≤ m`,
the new run returns the same value and the same state (events, position, …) -/
theorem prefix_determined {α} {x : G α} (hx : LM x) (m : Nat) (s : P) (K' : Array SyntaxKind)
    (J' : Array Bool) (hK : ∀ i, i < m → K'.getD i .EOF = s.kinds.getD i .EOF)
    (hJ : ∀ i, i < m → J'.getD i false = s.joint.getD i false)
    (a : α) (s1 : P) (h : x s = .ok (a, s1)) (hm : s1.pos + 3 ≤ m) :
    x { s with kinds := K', joint := J' } = .ok (a, { s1 with kinds := K', joint := J' }) := by
  have hA : Agree m s { s with kinds := K', joint := J' } := ⟨rfl, hK, hJ⟩
  obtain ⟨t', ht, hA'⟩ := hx.loc m s _ (a, s1) hA h hm
  have hkeep := hx.keep _ _ ht
  simp only at hkeep
  rw [ht]
  have : t' = { s1 with kinds := K', joint := J' } := by
    rw [hA'.rest, hkeep.1, hkeep.2]
  rw [this]

theorem stmt_prefix_determined (fuel m : Nat) (s : P) (K' : Array SyntaxKind) (J' : Array Bool)
    (hK : ∀ i, i < m → K'.getD i .EOF = s.kinds.getD i .EOF)
    (hJ : ∀ i, i < m → J'.getD i false = s.joint.getD i false)
    (s1 : P) (h : stmt fuel s = .ok ((), s1)) (hm : s1.pos + 3 ≤ m) :
    stmt fuel { s with kinds := K', joint := J' } = .ok ((), { s1 with kinds := K', joint := J' }) :=
  prefix_determined (allLM fuel).stmt m s K' J' hK hJ () s1 h hm

theorem item_prefix_determined (fuel m : Nat) (b : Bool) (s : P) (K' : Array SyntaxKind) (J' : Array Bool)
    (hK : ∀ i, i < m → K'.getD i .EOF = s.kinds.getD i .EOF)
    (hJ : ∀ i, i < m → J'.getD i false = s.joint.getD i false)
    (s1 : P) (h : item fuel b s = .ok ((), s1)) (hm : s1.pos + 3 ≤ m) :
    item fuel b { s with kinds := K', joint := J' } = .ok ((), { s1 with kinds := K', joint := J' }) :=
  prefix_determined ((allLM fuel).item b) m s K' J' hK hJ () s1 h hm

theorem getD_append_left {α} (A B : List α) (i : Nat) (hi : i < A.length) (d : α) :
    (A ++ B).toArray.getD i d = A.toArray.getD i d := by
  rw [Array.getD_eq_getD_getElem?, Array.getD_eq_getD_getElem?]
  simp only [List.getElem?_toArray, List.getElem?_append_left hi]

/-- the same for token LISTS: a statement parsed from input `A ++ B` that ends at least three
tokens before the end of `A` is parsed identically from `A ++ C`, whatever `C` is -/
theorem stmt_suffix_irrelevant (fuel : Nat) (A B C : List SyntaxKind) (JA JB JC : List Bool)
    (hl : JA.length = A.length) (s s1 : P)
    (hs : s.kinds = (A ++ B).toArray) (hj : s.joint = (JA ++ JB).toArray)
    (h : stmt fuel s = .ok ((), s1)) (hm : s1.pos + 3 ≤ A.length) :
    stmt fuel { s with kinds := (A ++ C).toArray, joint := (JA ++ JC).toArray } =
      .ok ((), { s1 with kinds := (A ++ C).toArray, joint := (JA ++ JC).toArray }) := by
  refine stmt_prefix_determined fuel A.length s _ _ ?_ ?_ s1 h hm
  · intro i hi
    rw [hs, getD_append_left A C i hi, getD_append_left A B i hi]
  · intro i hi
    rw [hj, getD_append_left JA JC i (hl ▸ hi), getD_append_left JA JB i (hl ▸ hi)]

end Oq3.Props.C16
