/-
C18 — includes act as in-place textual inclusion.

`syntaxToSemanticInc fuel stmts included` (`Model/Includes.lean`) analyses one file's statements; on a
real `include` it saves the diagnostics, analyses the included file's statements in the SAME
context with an empty diagnostics list, stores that file's diagnostics in an `ErrTree`, restores the
saved list, and goes on.  Here: this is analysing the textually spliced statement list.

* `splice`: the statement list with every top-level non-`stdgates.inc` include replaced, recursively,
  by the statements of its (clean) included source, consuming `included` in lock step.
* `Woven own kids m`: the diagnostics `m` of the flat run are the file's own diagnostics `own` with,
  at each include point, the (recursively woven) diagnostics of the included file inserted as one
  contiguous block — the precise interleaving in source order; `Woven.perm` reads it as a
  permutation of `own ++ treeErrs kids`.
* `inclusion_equiv`: include run ok ⇒ the flat run (`Sema.syntaxToSemanticLoop`, any fuel
  `≥ fuel + flat.length`) is ok, ends in the same context up to diagnostics, and its diagnostics
  are the woven ones.  `inclusion_equiv_converse`: flat run ok ⇒ include run … (see there).
* `one_clean_include`, `example_one_include`.

Uses `ErrFrame` (the diagnostics are write-only, `C18Frame.lean`) and fuel monotonicity
(`C18Mono.lean`).
-/
import Oq3.Props.C18Mono
import Oq3.Props.C17
import Oq3.Props.C03
import Oq3.Model.Includes

namespace Oq3.C18E
open Oq3 Oq3.Types Oq3.Symbols Oq3.Sema Oq3.Includes

/-! ### splicing -/

/-- the statement list with the included files spliced in (same recursion as `syntaxToSemanticInc`;
`none`: out of fuel, an include without path, fewer sources than includes, or a source that is
unreadable or not cleanly parsed) -/
def splice : Nat → List Ast.Stmt → List PSrc → Option (List Ast.Stmt)
  | 0, _, _ => none
  | _ + 1, [], _ => some []
  | fuel + 1, s :: rest, inc =>
    match s with
    | .includeStmt _ (some f) =>
      match f.toString? with
      | some path =>
        if path == "stdgates.inc" then (splice fuel rest inc).map (s :: ·)
        else
          match inc with
          | [] => none
          | src :: inc' =>
            match src.includeError, src.parsed with
            | none, some (.clean ast) =>
              match splice fuel ast.statements src.included, splice fuel rest inc' with
              | some a, some b => some (a ++ b)
              | _, _ => none
            | _, _ => none
      | none => none
    | .includeStmt _ none => none
    | _ => (splice fuel rest inc).map (s :: ·)

/-- no include statement -/
def NotInclude (s : Ast.Stmt) : Prop := ∀ sp f, s ≠ .includeStmt sp f

theorem splice_cons_other (fuel : Nat) (s : Ast.Stmt) (rest : List Ast.Stmt) (inc : List PSrc)
    (h : NotInclude s) : splice (fuel + 1) (s :: rest) inc = (splice fuel rest inc).map (s :: ·) := by
  cases s <;> first
    | exact absurd rfl (h _ _)
    | rfl

/-! ### the include run, one statement at a time -/

/-- `C06.attachM_bind` for a continuation of any result type -/
theorem attachM_bind' {β} (o : Option Stmt) (L : M β) :
    (C06.attachM o >>= fun _ => L) = (match o with
      | some stmt => do
        if ← annotationsIsEmpty then do insertStmt stmt; L
        else
          match stmt with
          | .annotatedStmt .. => do
            fail "AnnotatedStmt::new: annotation of annotated statement is not allowed"; L
          | _ => do insertStmt (.annotatedStmt stmt (← takeAnnotations)); L
      | none => L) := by
  cases o with
  | none => simp only [C06.attachM, pure_bind]
  | some t =>
    simp only [C06.attachM, bind_assoc]
    congr 1; funext b
    cases b
    · cases t <;> simp only [bind_assoc, Bool.false_eq_true, if_false]
    · rfl

theorem inc_cons_other (fuel : Nat) (s : Ast.Stmt) (rest : List Ast.Stmt) (inc : List PSrc)
    (h : NotInclude s) :
    syntaxToSemanticInc (fuel + 1) (s :: rest) inc = (do
      let o ← stmtToAsgStmt fuel s
      C06.attachM o
      syntaxToSemanticInc fuel rest inc) := by
  conv => lhs; unfold syntaxToSemanticInc
  cases s <;> first
    | exact absurd rfl (h _ _)
    | (simp only []
       congr 1; funext o
       exact (attachM_bind' o _).symm)

theorem topStmtM_other (fuel : Nat) (s : Ast.Stmt) (h : NotInclude s) :
    C06.topStmtM fuel s = stmtToAsgStmt fuel s := by
  cases s <;> first
    | exact absurd rfl (h _ _)
    | rfl

/-! ### weaving of diagnostics -/

/-- **the precise interleaving.**  `Woven own kids m`: `m` is the file's own diagnostics `own`
with, for each included file in order, its (recursively woven) diagnostics inserted as one
contiguous block at the point of the include -/
inductive Woven : List SemErr → List ErrTree → List SemErr → Prop
  | done (own : List SemErr) : Woven own [] own
  | kid {o0 rest : List SemErr} {p : String} {errs' : List SemErr} {kids' kids : List ErrTree}
      {km m' : List SemErr} : Woven errs' kids' km → Woven rest kids m' →
      Woven (o0 ++ rest) (.mk p errs' kids' :: kids) (o0 ++ km ++ m')

theorem Woven.prepend (o : List SemErr) {own : List SemErr} {kids : List ErrTree} {m : List SemErr}
    (h : Woven own kids m) : Woven (o ++ own) kids (o ++ m) := by
  cases h with
  | done => exact .done _
  | kid h1 h2 =>
    rw [← List.append_assoc, ← List.append_assoc, ← List.append_assoc]
    exact .kid h1 h2

theorem Woven.nil_kids {own m : List SemErr} (h : Woven own [] m) : m = own := by
  cases h; rfl

mutual
/-- all diagnostics of an error tree -/
def treeErrs : ErrTree → List SemErr
  | .mk _ errs kids => errs ++ treesErrs kids
def treesErrs : List ErrTree → List SemErr
  | [] => []
  | t :: ts => treeErrs t ++ treesErrs ts
end

/-- read as a multiset: the flat diagnostics are the own ones plus those of all included files -/
theorem Woven.perm {own : List SemErr} {kids : List ErrTree} {m : List SemErr} (h : Woven own kids m) :
    m.Perm (own ++ treesErrs kids) := by
  induction h with
  | done own => simp [treesErrs]
  | @kid o0 rest p errs' kids' kids km m' _ _ ih1 ih2 =>
    rw [List.perm_iff_count] at ih1 ih2 ⊢
    intro a
    have a1 := ih1 a
    have a2 := ih2 a
    simp only [treesErrs, treeErrs, List.count_append] at a1 a2 ⊢
    omega

/-! ### scope -/

/-- the current scope is the global one -/
def IsGlobal (c : Ctx) : Prop := ∃ top, c.symbolTable.stack.head? = some top ∧ top.kind = .global

theorem IsGlobal.of_ext {c c' : Ctx} (h : Sema.Ext c c') (hg : IsGlobal c) : IsGlobal c' := by
  obtain ⟨top, h1, h2⟩ := hg
  obtain ⟨top', h3, h4, -⟩ := h.sym.head top (by simp [h1])
  exact ⟨top', by simpa using h3, by rw [h4, h2]⟩

theorem IsGlobal.of_symtab {c c' : Ctx} (h : c'.symbolTable = c.symbolTable) (hg : IsGlobal c) :
    IsGlobal c' := by
  unfold IsGlobal; rw [h]; exact hg

theorem currentScopeType_global {c : Ctx} (hg : IsGlobal c) :
    currentScopeType c = .ok (.global, c) := by
  obtain ⟨top, h1, h2⟩ := hg
  simp only [currentScopeType, bind_run, get_run, bindRes]
  cases hs : c.symbolTable.stack with
  | nil => simp [hs] at h1
  | cons s rest =>
    simp only [hs, List.head?_cons, Option.some.injEq] at h1
    subst h1
    simp [pure_run, h2]

/-! ### transporting a run to a context with other diagnostics -/

theorem bind_ok' {α β} (x : M α) (f : α → M β) (c : Ctx) (r : β × Ctx) :
    (x >>= f) c = .ok r ↔ ∃ a c1, x c = .ok (a, c1) ∧ f a c1 = .ok r := by
  rw [bind_run]
  cases x c with
  | error e => simp [bindRes]
  | ok p =>
    obtain ⟨a, c1⟩ := p
    simp only [bindRes, Except.ok.injEq, Prod.mk.injEq]
    constructor
    · intro h; exact ⟨a, c1, ⟨rfl, rfl⟩, h⟩
    · rintro ⟨_, _, ⟨rfl, rfl⟩, h⟩; exact h

theorem ErrFrame.errs_append {α} {x : M α} (hx : ErrFrame x) {c c' : Ctx} {a : α}
    (h : x c = .ok (a, c')) : ∃ n, c'.semanticErrors = c.semanticErrors ++ n := by
  rw [hx.run c] at h
  cases hx' : x (eraseErrs c) with
  | error e => rw [hx'] at h; cases h
  | ok p =>
    obtain ⟨b, e'⟩ := p
    rw [hx'] at h
    simp only [lift, Except.ok.injEq, Prod.mk.injEq] at h
    exact ⟨e'.semanticErrors, by rw [← h.2]; rfl⟩

/-- the same run from a context `d` that differs from `c` only in its diagnostics: the same result,
the same final context up to diagnostics, the same new diagnostics `n` -/
theorem ErrFrame.transport {α} {x : M α} (hx : ErrFrame x) {c c' d : Ctx} {a : α}
    (h : x c = .ok (a, c')) (hd : eraseErrs d = eraseErrs c) :
    ∃ n, c'.semanticErrors = c.semanticErrors ++ n ∧
      x d = .ok (a, { c' with semanticErrors := d.semanticErrors ++ n }) := by
  rw [hx.run c] at h
  rw [hx.run d, hd]
  cases hx' : x (eraseErrs c) with
  | error e => rw [hx'] at h; cases h
  | ok p =>
    obtain ⟨b, e'⟩ := p
    rw [hx'] at h
    simp only [lift, Except.ok.injEq, Prod.mk.injEq] at h ⊢
    obtain ⟨rfl, rfl⟩ := h
    exact ⟨e'.semanticErrors, rfl, rfl, rfl⟩

/-! ### the pieces of one loop iteration -/

theorem attachM_ok {o : Option Stmt} {c1 c2 : Ctx} {u : Unit} (h : C06.attachM o c1 = .ok (u, c2)) :
    c2.semanticErrors = c1.semanticErrors ∧ c2.symbolTable = c1.symbolTable := by
  cases o with
  | none =>
    simp only [C06.attachM, pure_run, Except.ok.injEq, Prod.mk.injEq] at h
    rw [← h.2]; exact ⟨rfl, rfl⟩
  | some t =>
    simp only [C06.attachM, annotationsIsEmpty, bind_run, get_run, pure_run, bindRes] at h
    by_cases he : c1.annotations.isEmpty = true
    · simp only [he, if_true, insertStmt, modify_run, Except.ok.injEq, Prod.mk.injEq] at h
      rw [← h.2]; exact ⟨rfl, rfl⟩
    · simp only [he, Bool.false_eq_true, if_false] at h
      cases t <;> first
        | (simp only [fail_run] at h; cases h; done)
        | (simp only [takeAnnotations, insertStmt, bind_run, get_run, set_run, pure_run, modify_run,
             bindRes, Except.ok.injEq, Prod.mk.injEq] at h
           rw [← h.2]; exact ⟨rfl, rfl⟩)

theorem topStmtM_pres (fuel : Nat) (s : Ast.Stmt) : Sema.Pres (C06.topStmtM fuel s) := by
  cases s with
  | includeStmt sp file => unfold C06.topStmtM; pres
  | _ => exact (allPres fuel).stmtToAsgStmt _

theorem topStmtM_errFrame (fuel : Nat) (s : Ast.Stmt) : ErrFrame (C06.topStmtM fuel s) := by
  cases s with
  | includeStmt sp file => unfold C06.topStmtM; ef
  | _ => exact (allFrame fuel).stmtToAsgStmt _

theorem topStmtM_mono {fuel fuel' : Nat} (h : fuel ≤ fuel') (s : Ast.Stmt) :
    Le (C06.topStmtM fuel s) (C06.topStmtM fuel' s) := by
  cases s with
  | includeStmt sp file => exact Le.refl _
  | _ => exact stmtToAsgStmt_mono_le h _

theorem loop_nil_run (F : Nat) (c : Ctx) (h : 1 ≤ F) : syntaxToSemanticLoop F [] c = .ok ((), c) := by
  cases F with
  | zero => omega
  | succ F => exact (C17.loop_nil F c _).mpr rfl

theorem ctx_errs_self (c : Ctx) : ({ c with semanticErrors := c.semanticErrors ++ [] } : Ctx) = c := by
  cases c; simp

/-- what the flat run has to deliver: from `c`, for every sufficient fuel, it ends in `c'` with the
diagnostics `c.semanticErrors ++ m` -/
def FlatOK (fuel : Nat) (flat : List Ast.Stmt) (c c' : Ctx) (m : List SemErr) : Prop :=
  ∀ F, fuel + flat.length ≤ F →
    syntaxToSemanticLoop F flat c = .ok ((), { c' with semanticErrors := c.semanticErrors ++ m })

/-- the statement of the equivalence for one (fuel, statements, sources) -/
def IncFlat (fuel : Nat) : Prop :=
  ∀ (stmts : List Ast.Stmt) (inc : List PSrc) (flat : List Ast.Stmt) (c : Ctx)
    (trees : List ErrTree) (c' : Ctx),
    splice fuel stmts inc = some flat → IsGlobal c →
    syntaxToSemanticInc fuel stmts inc c = .ok (trees, c') →
    ∃ own m, c'.semanticErrors = c.semanticErrors ++ own ∧ Woven own trees m ∧ IsGlobal c' ∧
      FlatOK fuel flat c c' m

/-- a statement that both runs treat the same way (anything but a real include) -/
theorem step_simple (k : Nat) (ih : IncFlat k) (s : Ast.Stmt) (rest : List Ast.Stmt)
    (inc : List PSrc)
    (hinc : syntaxToSemanticInc (k + 1) (s :: rest) inc = (do
      let o ← C06.topStmtM k s
      C06.attachM o
      syntaxToSemanticInc k rest inc))
    (hspl : splice (k + 1) (s :: rest) inc = (splice k rest inc).map (s :: ·))
    (flat : List Ast.Stmt) (c : Ctx) (trees : List ErrTree) (c' : Ctx)
    (hs : splice (k + 1) (s :: rest) inc = some flat) (hg : IsGlobal c)
    (hrun : syntaxToSemanticInc (k + 1) (s :: rest) inc c = .ok (trees, c')) :
    ∃ own m, c'.semanticErrors = c.semanticErrors ++ own ∧ Woven own trees m ∧ IsGlobal c' ∧
      FlatOK (k + 1) flat c c' m := by
  rw [hspl] at hs
  cases hfr : splice k rest inc with
  | none => rw [hfr] at hs; cases hs
  | some fr =>
    rw [hfr] at hs
    simp only [Option.map_some, Option.some.injEq] at hs
    subst hs
    rw [hinc, bind_ok'] at hrun
    obtain ⟨o, c1, h1, hrun⟩ := hrun
    rw [bind_ok'] at hrun
    obtain ⟨u, c2, h2, h3⟩ := hrun
    obtain ⟨n1, hn1⟩ := (topStmtM_errFrame k s).errs_append h1
    obtain ⟨he2, hs2⟩ := attachM_ok h2
    have hg2 : IsGlobal c2 := (hg.of_ext ((topStmtM_pres k s).run c _ h1)).of_symtab hs2
    obtain ⟨own, m, ho, hw, hg', hflat⟩ := ih rest inc fr c2 trees c' hfr hg2 h3
    refine ⟨n1 ++ own, n1 ++ m, ?_, hw.prepend n1, hg', ?_⟩
    · rw [ho, he2, hn1, List.append_assoc]
    · intro F hF
      simp only [List.length_cons] at hF
      obtain ⟨F', rfl⟩ : ∃ F', F = F' + 1 := ⟨F - 1, by omega⟩
      rw [C17.loop_cons]
      refine ⟨c2, ?_, ?_⟩
      · unfold C17.topStepM
        rw [bind_ok']
        exact ⟨o, c1, (topStmtM_mono (by omega) s).run c _ h1, h2⟩
      · have := hflat F' (by omega)
        rw [this, he2, hn1, List.append_assoc]

/-- `include "stdgates.inc";` is an ordinary statement for both runs -/
theorem inc_cons_std (k : Nat) (sp : Ast.Span) (f : Ast.FilePath) (p : String)
    (hf : f.toString? = some p) (hp : (p == "stdgates.inc") = true) (rest : List Ast.Stmt)
    (inc : List PSrc) :
    syntaxToSemanticInc (k + 1) (.includeStmt sp (some f) :: rest) inc = (do
      let o ← C06.topStmtM k (.includeStmt sp (some f))
      C06.attachM o
      syntaxToSemanticInc k rest inc) := by
  conv => lhs; unfold syntaxToSemanticInc
  simp only [C06.topStmtM, unwrap, hf, pure_bind, hp, if_true, bind_assoc, C06.attachM]

/-- **the include arm, as a run.**  In global scope, for a readable and cleanly parsed source:
the included statements are analysed from the context with the diagnostics erased; their
diagnostics become the tree's; the rest of the file goes on from the resulting context with the
saved diagnostics put back. -/
theorem include_arm_run (k : Nat) (sp : Ast.Span) (f : Ast.FilePath) (p : String)
    (hf : f.toString? = some p) (hp : (p == "stdgates.inc") = false) (rest : List Ast.Stmt)
    (src : PSrc) (inc' : List PSrc) (ast : Ast.Program) (he : src.includeError = none)
    (hpar : src.parsed = some (.clean ast)) (c : Ctx) (hg : IsGlobal c) (trees : List ErrTree)
    (c' : Ctx)
    (h : syntaxToSemanticInc (k + 1) (.includeStmt sp (some f) :: rest) (src :: inc') c =
      .ok (trees, c')) :
    ∃ kids c1 more,
      syntaxToSemanticInc k ast.statements src.included (eraseErrs c) = .ok (kids, c1) ∧
      syntaxToSemanticInc k rest inc' { c1 with semanticErrors := c.semanticErrors } = .ok (more, c') ∧
      trees = .mk src.path c1.semanticErrors kids :: more := by
  unfold syntaxToSemanticInc at h
  simp only [unwrap, hf, pure_bind, hp, Bool.false_eq_true, if_false] at h
  rw [bind_ok'] at h
  obtain ⟨sc, c0, h0, h⟩ := h
  rw [currentScopeType_global hg] at h0
  simp only [Except.ok.injEq, Prod.mk.injEq] at h0
  obtain ⟨rfl, rfl⟩ := h0
  simp only [bne_self_eq_false, Bool.false_eq_true, if_false, he, hpar] at h
  simp only [getErrors, setErrors, bind_ok', get_run, pure_run, modify_run, Except.ok.injEq,
    Prod.mk.injEq] at h
  obtain ⟨saved, cA, ⟨cA0, cA1, ⟨e1, e2⟩, e3, e4⟩, u1, cB, ⟨-, e5⟩, kids, c1, h1,
    errs, cC, ⟨cC0, cC1, ⟨e6, e7⟩, e8, e9⟩, u2, cD, ⟨-, e10⟩, more, cF, h2, e11, e12⟩ := h
  subst e1 e2 e3 e4 e5 e6 e7 e8 e9 e10 e11 e12
  exact ⟨kids, _, more, h1, h2, rfl⟩

/-- the flat run over a spliced include: the included statements (transported from the erased
context), then the rest (transported from the context with the saved diagnostics) -/
theorem flat_include {k : Nat} {af rf : List Ast.Stmt} {c c1 c' : Ctx} {m1 m2 : List SemErr}
    (hflat1 : FlatOK k af (eraseErrs c) c1 m1)
    (hflat2 : FlatOK k rf { c1 with semanticErrors := c.semanticErrors } c' m2) :
    FlatOK (k + 1) (af ++ rf) c c' (m1 ++ m2) := by
  intro F hF
  simp only [List.length_append] at hF
  rw [C17.loop_append]
  have e1 := hflat1 F (by omega)
  obtain ⟨n1, hn1, t1⟩ := (syntaxToSemanticLoop_errFrame F af).transport (d := c) e1 rfl
  simp only [eraseErrs_errs, List.nil_append] at hn1
  subst hn1
  refine ⟨_, t1, ?_⟩
  have e2 := hflat2 (F - af.length) (by omega)
  obtain ⟨n2, hn2, t2⟩ :=
    (syntaxToSemanticLoop_errFrame (F - af.length) rf).transport
      (d := { c1 with semanticErrors := c.semanticErrors ++ m1 }) e2 rfl
  simp only [List.append_cancel_left_eq] at hn2
  subst hn2
  rw [t2]
  simp [List.append_assoc]

theorem notInclude_of_ne {s : Ast.Stmt} (h : ∀ sp f, s = .includeStmt sp f → False) : NotInclude s :=
  fun sp f e => h sp f e

/-- **the equivalence, by induction on the fuel of the include run** -/
theorem incFlat (fuel : Nat) : IncFlat fuel := by
  induction fuel with
  | zero =>
    intro stmts inc flat c trees c' hs
    simp [splice] at hs
  | succ k ih =>
    intro stmts inc flat c trees c' hs hg hrun
    cases stmts with
    | nil =>
      simp only [splice, Option.some.injEq] at hs
      subst hs
      simp only [syntaxToSemanticInc, pure_run, Except.ok.injEq, Prod.mk.injEq] at hrun
      obtain ⟨rfl, rfl⟩ := hrun
      refine ⟨[], [], by simp, .done [], hg, ?_⟩
      intro F hF
      rw [loop_nil_run F c (by omega), ctx_errs_self]
    | cons s rest =>
      have simple : NotInclude s → _ := fun hni =>
        step_simple k ih s rest inc
          (by rw [inc_cons_other k s rest inc hni, topStmtM_other k s hni])
          (splice_cons_other k s rest inc hni) flat c trees c' hs hg hrun
      cases s with
      | includeStmt sp file =>
        cases file with
        | none => simp [splice] at hs
        | some f =>
          cases hf : f.toString? with
          | none => simp [splice, hf] at hs
          | some p =>
            by_cases hp : (p == "stdgates.inc") = true
            · exact step_simple k ih _ rest inc (inc_cons_std k sp f p hf hp rest inc)
                (by simp only [splice, hf, hp, if_true]) flat c trees c' hs hg hrun
            · have hp' : (p == "stdgates.inc") = false := by simpa using hp
              simp only [splice, hf, hp', Bool.false_eq_true, if_false] at hs
              cases inc with
              | nil => simp at hs
              | cons src inc' =>
                simp only at hs
                cases he : src.includeError with
                | some err => simp [he] at hs
                | none =>
                  cases hpar : src.parsed with
                  | none => simp [he, hpar] at hs
                  | some pr =>
                    cases pr with
                    | lexErrors n => simp [he, hpar] at hs
                    | syntaxErrors n l => simp [he, hpar] at hs
                    | clean ast =>
                      simp only [he, hpar] at hs
                      cases haf : splice k ast.statements src.included with
                      | none => simp [haf] at hs
                      | some af =>
                        cases hrf : splice k rest inc' with
                        | none => simp [haf, hrf] at hs
                        | some rf =>
                          simp only [haf, hrf, Option.some.injEq] at hs
                          subst hs
                          obtain ⟨kids, c1, more, h1, h2, rfl⟩ :=
                            include_arm_run k sp f p hf hp' rest src inc' ast he hpar c hg trees c' hrun
                          -- the included file, from the erased context
                          obtain ⟨own1, m1, ho1, hw1, hg1, hflat1⟩ :=
                            ih ast.statements src.included af (eraseErrs c) kids c1 haf
                              (hg.of_symtab rfl) h1
                          simp only [eraseErrs_errs, List.nil_append] at ho1
                          -- the rest of the file
                          obtain ⟨own2, m2, ho2, hw2, hg2, hflat2⟩ :=
                            ih rest inc' rf { c1 with semanticErrors := c.semanticErrors } more c' hrf
                              (hg1.of_symtab rfl) h2
                          simp only at ho2
                          refine ⟨own2, m1 ++ m2, ho2, ?_, hg2, ?_⟩
                          · have := Woven.kid (o0 := []) (p := src.path) (ho1 ▸ hw1) hw2
                            simpa using this
                          · exact flat_include hflat1 hflat2
      | _ => exact simple (fun _ _ e => by cases e)

/-! ## the theorems -/

/-- **C18: includes act as in-place textual inclusion.**  If the include-aware analysis of
`stmts` (with the parsed sources `inc`) returns — trees `trees`, context `c'` — from a context `c`
in global scope, and `flat` is the spliced statement list, then the plain top-level loop over
`flat`, for EVERY fuel `F ≥ fuel + flat.length`, returns from the same `c` in a context `d'` with
* `eraseErrs d' = eraseErrs c'`: the same program, symbol table (symbols, scopes), const values and
  pending annotations;
* diagnostics `c.semanticErrors ++ m` where `m` is the precise interleaving (`Woven`) of the main
  file's new diagnostics `own` (`c'.semanticErrors = c.semanticErrors ++ own`) with the
  diagnostics recorded in `trees`, in source order. -/
theorem inclusion_equiv (fuel : Nat) (stmts : List Ast.Stmt) (inc : List PSrc) (flat : List Ast.Stmt)
    (c : Ctx) (trees : List ErrTree) (c' : Ctx)
    (hs : splice fuel stmts inc = some flat) (hg : IsGlobal c)
    (h : (syntaxToSemanticInc fuel stmts inc).run c = .ok (trees, c')) :
    ∃ own m, c'.semanticErrors = c.semanticErrors ++ own ∧ Woven own trees m ∧
      ∀ F, fuel + flat.length ≤ F →
        ∃ d', (syntaxToSemanticLoop F flat).run c = .ok ((), d') ∧ eraseErrs d' = eraseErrs c' ∧
          d'.semanticErrors = c.semanticErrors ++ m := by
  obtain ⟨own, m, ho, hw, -, hflat⟩ := incFlat fuel stmts inc flat c trees c' hs hg h
  exact ⟨own, m, ho, hw, fun F hF => ⟨_, hflat F hF, rfl, rfl⟩⟩

/-- the same with an existential fuel and the diagnostics as a multiset -/
theorem inclusion_equiv_perm (fuel : Nat) (stmts : List Ast.Stmt) (inc : List PSrc)
    (flat : List Ast.Stmt) (c : Ctx) (trees : List ErrTree) (c' : Ctx)
    (hs : splice fuel stmts inc = some flat) (hg : IsGlobal c)
    (h : (syntaxToSemanticInc fuel stmts inc).run c = .ok (trees, c')) :
    ∃ fuel' d', (syntaxToSemanticLoop fuel' flat).run c = .ok ((), d') ∧
      eraseErrs d' = eraseErrs c' ∧
      d'.semanticErrors.Perm (c'.semanticErrors ++ treesErrs trees) := by
  obtain ⟨own, m, ho, hw, hF⟩ := inclusion_equiv fuel stmts inc flat c trees c' hs hg h
  obtain ⟨d', h1, h2, h3⟩ := hF _ (Nat.le_refl _)
  refine ⟨_, d', h1, h2, ?_⟩
  rw [h3, ho, List.append_assoc]
  exact List.Perm.append_left _ hw.perm

/-- a list without include statements is its own splice, and yields no error trees -/
theorem splice_noinclude (l : List Ast.Stmt) (inc : List PSrc) (hl : ∀ s, s ∈ l → NotInclude s)
    (fuel : Nat) (hf : l.length < fuel) : splice fuel l inc = some l := by
  induction l generalizing fuel with
  | nil => cases fuel with
    | zero => omega
    | succ k => rfl
  | cons s rest ih =>
    cases fuel with
    | zero => omega
    | succ k =>
      rw [splice_cons_other k s rest inc (hl s (List.mem_cons_self ..)),
        ih (fun t ht => hl t (List.mem_cons_of_mem _ ht)) k (by simp at hf; omega)]
      rfl

theorem inc_noinclude_trees (fuel : Nat) (l : List Ast.Stmt) (inc : List PSrc)
    (hl : ∀ s, s ∈ l → NotInclude s) (c c' : Ctx) (trees : List ErrTree)
    (h : syntaxToSemanticInc fuel l inc c = .ok (trees, c')) : trees = [] := by
  induction fuel generalizing l c with
  | zero => simp [syntaxToSemanticInc, throw_run] at h
  | succ k ih =>
    cases l with
    | nil =>
      simp only [syntaxToSemanticInc, pure_run, Except.ok.injEq, Prod.mk.injEq] at h
      exact h.1.symm
    | cons s rest =>
      rw [inc_cons_other k s rest inc (hl s (List.mem_cons_self ..)), bind_ok'] at h
      obtain ⟨o, c1, -, h⟩ := h
      rw [bind_ok'] at h
      obtain ⟨u, c2, -, h⟩ := h
      exact ih rest (fun t ht => hl t (List.mem_cons_of_mem _ ht)) c2 h

/-- **one include of a clean file, readable form.**  `include "p"; post…` where neither the included
file (statements `ast.statements`) nor `post` contains an include: the include run yields exactly one
tree, holding the included file's diagnostics `errsA`, and the plain loop over
`ast.statements ++ post` ends in the same context with the diagnostics `… ++ errsA ++ own`. -/
theorem one_clean_include (k : Nat) (sp : Ast.Span) (f : Ast.FilePath) (p : String)
    (hf : f.toString? = some p) (hp : (p == "stdgates.inc") = false)
    (path : String) (ast : Ast.Program) (post : List Ast.Stmt)
    (ha : ∀ s, s ∈ ast.statements → NotInclude s) (hpost : ∀ s, s ∈ post → NotInclude s)
    (hk : ast.statements.length < k ∧ post.length < k) (c : Ctx) (hg : IsGlobal c)
    (trees : List ErrTree) (c' : Ctx)
    (h : (syntaxToSemanticInc (k + 1) (.includeStmt sp (some f) :: post)
      [PSrc.mk path (some (.clean ast)) none []]).run c = .ok (trees, c')) :
    ∃ errsA own, trees = [ErrTree.mk path errsA []] ∧
      c'.semanticErrors = c.semanticErrors ++ own ∧
      ∀ F, k + 1 + (ast.statements.length + post.length) ≤ F →
        (syntaxToSemanticLoop F (ast.statements ++ post)).run c =
          .ok ((), { c' with semanticErrors := c.semanticErrors ++ (errsA ++ own) }) := by
  obtain ⟨kids, c1, more, h1, h2, rfl⟩ :=
    include_arm_run k sp f p hf hp post _ [] ast rfl rfl c hg trees c' h
  have hk1 := inc_noinclude_trees k _ _ ha _ _ _ h1
  have hk2 := inc_noinclude_trees k _ _ hpost _ _ _ h2
  subst hk1 hk2
  obtain ⟨own1, m1, ho1, hw1, hg1, hflat1⟩ :=
    incFlat k ast.statements [] ast.statements (eraseErrs c) [] c1
      (splice_noinclude _ _ ha k hk.1) (hg.of_symtab rfl) h1
  obtain ⟨own2, m2, ho2, hw2, -, hflat2⟩ :=
    incFlat k post [] post { c1 with semanticErrors := c.semanticErrors } [] c'
      (splice_noinclude _ _ hpost k hk.2) (hg1.of_symtab rfl) h2
  simp only [eraseErrs_errs, List.nil_append] at ho1
  rw [hw1.nil_kids] at hflat1
  rw [hw2.nil_kids] at hflat2
  refine ⟨c1.semanticErrors, own2, rfl, ho2, ?_⟩
  intro F hF
  have := flat_include hflat1 hflat2 F (by simp only [List.length_append]; omega)
  rw [ho1]
  exact this

/-! ### whole analyses -/

/-- a spliced list has no real include left -/
def OnlyStd (l : List Ast.Stmt) : Prop :=
  ∀ s, s ∈ l → NotInclude s ∨
    ∃ sp f p, s = .includeStmt sp (some f) ∧ f.toString? = some p ∧ (p == "stdgates.inc") = true

theorem OnlyStd.nil : OnlyStd [] := by intro s h; cases h

theorem OnlyStd.cons {s : Ast.Stmt} {l : List Ast.Stmt}
    (h1 : NotInclude s ∨ ∃ sp f p, s = .includeStmt sp (some f) ∧ f.toString? = some p ∧
      (p == "stdgates.inc") = true) (h2 : OnlyStd l) : OnlyStd (s :: l) := by
  intro t ht
  cases ht with
  | head => exact h1
  | tail _ h => exact h2 t h

theorem OnlyStd.append {a b : List Ast.Stmt} (h1 : OnlyStd a) (h2 : OnlyStd b) : OnlyStd (a ++ b) := by
  intro t ht
  rcases List.mem_append.mp ht with h | h
  · exact h1 t h
  · exact h2 t h

theorem splice_onlyStd (fuel : Nat) : ∀ (stmts : List Ast.Stmt) (inc : List PSrc) (flat : List Ast.Stmt),
    splice fuel stmts inc = some flat → OnlyStd flat := by
  induction fuel with
  | zero => intro stmts inc flat h; simp [splice] at h
  | succ k ih =>
    intro stmts inc flat hs
    cases stmts with
    | nil => simp only [splice, Option.some.injEq] at hs; subst hs; exact .nil
    | cons s rest =>
      have simple : NotInclude s → OnlyStd flat := by
        intro hni
        rw [splice_cons_other k s rest inc hni] at hs
        cases hfr : splice k rest inc with
        | none => rw [hfr] at hs; cases hs
        | some fr =>
          rw [hfr] at hs
          simp only [Option.map_some, Option.some.injEq] at hs
          subst hs
          exact .cons (.inl hni) (ih _ _ _ hfr)
      cases s with
      | includeStmt sp file =>
        cases file with
        | none => simp [splice] at hs
        | some f =>
          cases hf : f.toString? with
          | none => simp [splice, hf] at hs
          | some p =>
            by_cases hp : (p == "stdgates.inc") = true
            · simp only [splice, hf, hp, if_true] at hs
              cases hfr : splice k rest inc with
              | none => rw [hfr] at hs; cases hs
              | some fr =>
                rw [hfr] at hs
                simp only [Option.map_some, Option.some.injEq] at hs
                subst hs
                exact .cons (.inr ⟨sp, f, p, rfl, hf, hp⟩) (ih _ _ _ hfr)
            · have hp' : (p == "stdgates.inc") = false := by simpa using hp
              simp only [splice, hf, hp', Bool.false_eq_true, if_false] at hs
              cases inc with
              | nil => simp at hs
              | cons src inc' =>
                simp only at hs
                split at hs
                · split at hs
                  · rename_i a b h1 h2
                    simp only [Option.some.injEq] at hs
                    subst hs
                    exact (ih _ _ _ h1).append (ih _ _ _ h2)
                  · cases hs
                · cases hs
      | _ => exact simple (fun _ _ e => by cases e)

/-- the include scan of `Sema.syntaxToSemantic` finds nothing to refuse in a spliced list -/
theorem parseIncludedFiles_onlyStd (l : List Ast.Stmt) (h : OnlyStd l) (c : Ctx) :
    Sema.parseIncludedFiles l c = .ok (false, c) := by
  induction l with
  | nil => rfl
  | cons s rest ih =>
    have hr := ih (fun t ht => h t (List.mem_cons_of_mem _ ht))
    rcases h s (List.mem_cons_self ..) with hni | ⟨sp, f, p, rfl, hf, hp⟩
    · cases s <;> first
        | exact absurd rfl (hni _ _)
        | (simp only [Sema.parseIncludedFiles]; exact hr)
    · simp only [Sema.parseIncludedFiles, hf, bind_run, hr, bindRes, pure_run]
      have : p = "stdgates.inc" := by simpa using hp
      subst this
      simp

theorem isGlobal_init : IsGlobal ({} : Ctx) := by
  have h : (({} : Ctx).symbolTable.stack.head?.map (·.kind)) = some ScopeType.global := by
    decide +kernel
  unfold IsGlobal
  cases hh : ({} : Ctx).symbolTable.stack.head? with
  | none => rw [hh] at h; cases h
  | some top =>
    rw [hh] at h
    simp only [Option.map_some, Option.some.injEq] at h
    exact ⟨top, rfl, h⟩

/-- **whole analyses.**  If `analyze_source` on a clean main file with its parsed includes returns
`(c', trees)`, then `analyze` on the spliced program (same text range, statements spliced)
returns, for every sufficient fuel, a context with the same program, symbol table, const values
and pending annotations, whose diagnostics are a permutation of the main file's and all included
files' diagnostics (precisely: woven, `inclusion_equiv`). -/
theorem analyzeSource_spliced (fuel : Nat) (ast : Ast.Program) (inc : List PSrc) (c' : Ctx)
    (trees : List ErrTree) (flat : List Ast.Stmt)
    (h : analyzeSource fuel (.clean ast) inc = .ok (some (c', trees)))
    (hs : splice fuel ast.statements inc = some flat) :
    ∀ F, fuel + flat.length ≤ F → ∃ d', Sema.analyzeWith F ⟨ast.span, flat⟩ = .ok d' ∧
      eraseErrs d' = eraseErrs c' ∧
      d'.semanticErrors.Perm (c'.semanticErrors ++ treesErrs trees) := by
  unfold analyzeSource at h
  split at h
  · cases h
  · simp only at h
    split at h
    · rename_i trees0 c0 hrun
      simp only [Except.ok.injEq, Option.some.injEq, Prod.mk.injEq] at h
      obtain ⟨rfl, rfl⟩ := h
      obtain ⟨own, m, ho, hw, hF⟩ :=
        inclusion_equiv fuel ast.statements inc flat {} trees0 c0 hs isGlobal_init hrun
      intro F hle
      obtain ⟨d', h1, h2, h3⟩ := hF F hle
      refine ⟨d', ?_, h2, ?_⟩
      · unfold Sema.analyzeWith Sema.syntaxToSemantic
        simp only [StateT.run] at h1 ⊢
        rw [bind_run, parseIncludedFiles_onlyStd flat (splice_onlyStd fuel _ _ _ hs)]
        simp only [bindRes, Bool.false_eq_true, if_false, h1]
      · rw [h3, ho, List.append_assoc]
        exact List.Perm.append_left _ hw.perm
    · cases h

/-! ### a closed example -/

/-- `include "a.inc"; int y = x;` -/
def exMain : Ast.Program :=
  ⟨⟨0, 27⟩, [(.includeStmt ⟨0, 16⟩ (some ⟨⟨8, 15⟩, (some "a.inc")⟩)), (.classicalDeclarationStatement ⟨17, 27⟩ false (some (.mk ⟨17, 20⟩ .int none none)) false (some ⟨⟨21, 22⟩, "y"⟩) (some (.identifier ⟨⟨25, 26⟩, "x"⟩)))]⟩

/-- a.inc: `int x = 1;` -/
def exA : Ast.Program :=
  ⟨⟨0, 10⟩, [(.classicalDeclarationStatement ⟨0, 10⟩ false (some (.mk ⟨0, 3⟩ .int none none)) false (some ⟨⟨4, 5⟩, "x"⟩) (some (.literal ⟨⟨8, 9⟩, .intNumber "1" (some 1)⟩)))]⟩

/-- a.inc, second version: `int x = 1.5;` (a diagnostic inside the included file) -/
def exB : Ast.Program :=
  ⟨⟨0, 12⟩, [(.classicalDeclarationStatement ⟨0, 12⟩ false (some (.mk ⟨0, 3⟩ .int none none)) false (some ⟨⟨4, 5⟩, "x"⟩) (some (.literal ⟨⟨8, 11⟩, .floatNumber "1.5" (some "1.5")⟩)))]⟩

/-- what is compared: symbol table, number of statements, diagnostics -/
def obs (c : Ctx) : SymTab × Nat × List SemErr := (c.symbolTable, c.program.length, c.semanticErrors)

/-- run both analyses and compare: the include run's tree must be `[a.inc ↦ treeErrs]`, its own
diagnostics `own`, and the flat run must agree with it up to diagnostics and report
`treeErrs ++ own` -/
def exCheck (a : Ast.Program) (treeErrs own : List SemErr) : Bool :=
  match (syntaxToSemanticInc 50 exMain.statements [PSrc.mk "a.inc" (some (.clean a)) none []]).run {},
        (Sema.syntaxToSemanticLoop 50 (a.statements ++ exMain.statements.drop 1)).run {} with
  | .ok ([ErrTree.mk path errs []], c), .ok (_, d) =>
    path == "a.inc" && errs == treeErrs && c.semanticErrors == own &&
      decide (obs d = (c.symbolTable, c.program.length, treeErrs ++ own)) &&
      (splice 50 exMain.statements [PSrc.mk "a.inc" (some (.clean a)) none []]).isSome
  | _, _ => false

/-- main `include "a.inc"; int y = x;`, a.inc `int x = 1;`: no diagnostics anywhere, same table -/
theorem example_one_include : exCheck exA [] [] = true := by decide +kernel

/-- a.inc `int x = 1.5;`: the included file's `IncompatibleTypesError` sits in its tree in the
include run and in front of the main file's diagnostics in the flat run -/
theorem example_one_include_with_diagnostic :
    exCheck exB [⟨.incompatibleTypesError, 0, 12⟩] [] = true := by decide +kernel

end Oq3.C18E
