/-
C17 (semantic layer) — one pass, prefix stability, determinism.

* `loop_append`: the top-level loop over `p ++ q` is the loop over `p` followed by the loop over
  `q` (with the fuel that is left) from the context `p` ended in — analysis is a left fold.
* `ExtTop`, `loop_extTop`: the loop only ever appends to the program, the symbol vector and the
  diagnostics.
* `prefix_stable`, `prefix_stable_analyze`: statements, symbols and diagnostics obtained for `p`
  are prefixes of those obtained for `p ++ q`, for every `q`, fuel and start context.
  The pending-annotation corner, exactly: annotations still pending when `p` ends are NOT part
  of `p`'s result (the pass drops them at end of input) but they are part of the context `q`
  starts in, so they end up on the first statement `q` emits (`pending_go_to_first_emitted`).
  That statement lies beyond `p`'s prefix, so the prefix relation itself has no exception.
* `deterministic`: the model is a function of the AST (`analyze_congr`); `span_irrelevant*`:
  text ranges influence nothing but the positions stored in diagnostics.
-/
import Oq3.Props.C06

namespace Oq3.C17
open Oq3.Sema Oq3.Types Oq3.Symbols Oq3.C06

/-! ### the loop is a left fold -/

theorem loop_zero (ss : List Ast.Stmt) (c : Ctx) (r : Unit × Ctx) :
    syntaxToSemanticLoop 0 ss c = .ok r ↔ False := by
  unfold syntaxToSemanticLoop; simp

theorem loop_nil (fuel : Nat) (c : Ctx) (r : Unit × Ctx) :
    syntaxToSemanticLoop (fuel+1) [] c = .ok r ↔ r = (⟨⟩, c) := by
  unfold syntaxToSemanticLoop; simp

/-- what the loop does for ONE statement: translate, then attach -/
def topStepM (fuel : Nat) (s : Ast.Stmt) : M Unit := do
  let o ← topStmtM fuel s
  attachM o

theorem loop_cons (fuel : Nat) (s : Ast.Stmt) (rest : List Ast.Stmt) (c : Ctx) (r : Unit × Ctx) :
    syntaxToSemanticLoop (fuel+1) (s :: rest) c = .ok r ↔
      ∃ c1, topStepM fuel s c = .ok (⟨⟩, c1) ∧ syntaxToSemanticLoop fuel rest c1 = .ok r := by
  rw [topLoop_cons_eq]
  unfold topStepM
  simp only [bind_ok]
  constructor
  · rintro ⟨o, c1, h1, _, c2, h2, h3⟩; exact ⟨c2, ⟨o, c1, h1, h2⟩, h3⟩
  · rintro ⟨c2, ⟨o, c1, h1, h2⟩, h3⟩; exact ⟨o, c1, h1, ⟨⟩, c2, h2, h3⟩

/-- **fold lemma**: the loop over `p ++ q` = the loop over `p`, then the loop over `q` -/
theorem loop_append {fuel : Nat} {p q : List Ast.Stmt} {c c'' : Ctx} :
    syntaxToSemanticLoop fuel (p ++ q) c = .ok (⟨⟩, c'') ↔
      ∃ c', syntaxToSemanticLoop fuel p c = .ok (⟨⟩, c') ∧
        syntaxToSemanticLoop (fuel - p.length) q c' = .ok (⟨⟩, c'') := by
  induction p generalizing fuel c with
  | nil =>
    cases fuel with
    | zero => simp [loop_zero]
    | succ fuel => simp [loop_nil]
  | cons s rest ih =>
    cases fuel with
    | zero => simp [loop_zero]
    | succ fuel =>
      simp only [List.cons_append, loop_cons, List.length_cons, Nat.add_sub_add_right]
      constructor
      · rintro ⟨c1, h1, h2⟩
        obtain ⟨c', h3, h4⟩ := ih.mp h2
        exact ⟨c', ⟨c1, h1, h3⟩, h4⟩
      · rintro ⟨c', ⟨c1, h1, h3⟩, h4⟩
        exact ⟨c1, h1, ih.mpr ⟨c', h3, h4⟩⟩

/-! ### append-only -/

/-- what the top-level loop may do to the context: append to the program, to the symbol vector
and to the diagnostics (pending annotations are consumed, so they are not part of it) -/
structure ExtTop (c c' : Ctx) : Prop where
  program : c.program <+: c'.program
  symbols : c.symbolTable.all <+: c'.symbolTable.all
  errors : c.semanticErrors <+: c'.semanticErrors

theorem ExtTop.refl (c : Ctx) : ExtTop c c := ⟨List.prefix_refl _, List.prefix_refl _, List.prefix_refl _⟩

theorem ExtTop.trans {a b c : Ctx} (h1 : ExtTop a b) (h2 : ExtTop b c) : ExtTop a c :=
  ⟨h1.program.trans h2.program, h1.symbols.trans h2.symbols, h1.errors.trans h2.errors⟩

theorem Ext.toExtTop {c c' : Ctx} (h : Ext c c') : ExtTop c c' :=
  ⟨by rw [h.program]; exact List.prefix_refl _, h.symbols, h.errors⟩

theorem attachM_extTop {o : Option Stmt} {c c' : Ctx} (h : attachM o c = .ok (⟨⟩, c')) : ExtTop c c' := by
  cases o with
  | none => rw [attachM_none] at h; cases h; exact ExtTop.refl _
  | some t =>
    obtain ⟨_, hc⟩ := attachM_some.mp h
    cases hc
    exact ⟨List.prefix_append _ _, List.prefix_refl _, List.prefix_refl _⟩

theorem topStepM_extTop {fuel s c c'} (h : topStepM fuel s c = .ok (⟨⟩, c')) : ExtTop c c' := by
  unfold topStepM at h
  simp only [bind_ok] at h
  obtain ⟨o, c1, h1, h2⟩ := h
  exact (Ext.toExtTop ((topStmtM_frame _ _).run _ _ _ h1)).trans (attachM_extTop h2)

/-- the loop is append-only on statements, symbols and diagnostics -/
theorem loop_extTop {fuel ss c c'} (h : syntaxToSemanticLoop fuel ss c = .ok (⟨⟩, c')) : ExtTop c c' := by
  induction ss generalizing fuel c with
  | nil =>
    cases fuel with
    | zero => exact absurd h (by simp [loop_zero])
    | succ fuel => rw [loop_nil] at h; cases h; exact ExtTop.refl _
  | cons s rest ih =>
    cases fuel with
    | zero => exact absurd h (by simp [loop_zero])
    | succ fuel =>
      obtain ⟨c1, h1, h2⟩ := (loop_cons _ _ _ _ _).mp h
      exact (topStepM_extTop h1).trans (ih h2)

/-- **prefix stability** of the statement loop: for every fuel, start context and continuation
`q`, a successful analysis of `p ++ q` contains a successful analysis of `p` whose emitted
statements, symbols and diagnostics are prefixes of the final ones; the rest of the run is the
analysis of `q` from the context `p` ended in (pending annotations included). -/
theorem prefix_stable {fuel : Nat} {p q : List Ast.Stmt} {c c'' : Ctx}
    (h : syntaxToSemanticLoop fuel (p ++ q) c = .ok (⟨⟩, c'')) :
    ∃ c', syntaxToSemanticLoop fuel p c = .ok (⟨⟩, c') ∧
      c'.program <+: c''.program ∧
      c'.symbolTable.all <+: c''.symbolTable.all ∧
      c'.semanticErrors <+: c''.semanticErrors ∧
      syntaxToSemanticLoop (fuel - p.length) q c' = .ok (⟨⟩, c'') := by
  obtain ⟨c', h1, h2⟩ := loop_append.mp h
  have e := loop_extTop h2
  exact ⟨c', h1, e.program, e.symbols, e.errors, h2⟩

/-- the pending-annotation corner, exactly: if `q` begins with statements that translate to
nothing and then a statement that is emitted, that emitted statement is wrapped with a list of
annotations that STARTS with the annotations pending at the end of `p` -/
theorem pending_go_to_first_emitted {fuel s rest c' out c''}
    (h : TopRun (fuel+1) (s :: rest) c' out c'') {t c1}
    (ht : topStmtM fuel s c' = .ok (some t, c1)) :
    ∃ out', out = wrap t c1.annotations :: out' ∧ c'.annotations <+: c1.annotations := by
  cases h with
  | skip h1 _ => rw [ht] at h1; cases h1
  | emit h1 _ _ => rw [ht] at h1; cases h1; exact ⟨_, rfl, pending_annotations_attach ht⟩

/-! ### the whole analysis -/

theorem bind_eq_of_ok {α β} {x : M α} {f : α → M β} {c c1 : Ctx} {a : α} (h : x c = .ok (a, c1)) :
    (x >>= f) c = f a c1 := by
  show (StateT.bind x f) c = _
  unfold StateT.bind
  simp only [h, bind, Except.bind]


theorem parseIncludedFiles_readOnly {ss : List Ast.Stmt} {c b c'}
    (h : parseIncludedFiles ss c = .ok (b, c')) : c' = c := by
  induction ss generalizing b with
  | nil => simp [parseIncludedFiles] at h; exact h.2
  | cons s rest ih =>
    cases s <;> simp only [parseIncludedFiles] at h <;> try exact ih h
    rename_i _ file
    cases file with
    | none => exact ih h
    | some f =>
      simp only at h
      cases hfp : f.toString? with
      | none => simp only [hfp] at h; exact ih h
      | some fp =>
        simp only [hfp, bind_ok, pure_ok] at h
        obtain ⟨r, c3, h2, h3⟩ := h
        cases h3
        exact ih h2

/-- the include scan of a prefix succeeds with `false` if the scan of the whole does -/
theorem parseIncludedFiles_prefix {p q : List Ast.Stmt} {c c'}
    (h : parseIncludedFiles (p ++ q) c = .ok (false, c')) : parseIncludedFiles p c = .ok (false, c) := by
  induction p with
  | nil => rfl
  | cons s rest ih =>
    cases s <;> simp only [List.cons_append, parseIncludedFiles] at h ⊢ <;> try exact ih h
    rename_i _ file
    cases file with
    | none => exact ih h
    | some f =>
      simp only at h ⊢
      cases hfp : f.toString? with
      | none => simp only [hfp] at h ⊢; exact ih h
      | some fp =>
        simp only [hfp, bind_ok, pure_ok] at h ⊢
        obtain ⟨r, c3, h2, h3⟩ := h
        simp only [Prod.mk.injEq, Bool.false_eq, Bool.or_eq_false_iff] at h3
        obtain ⟨⟨h4, rfl⟩, rfl⟩ := h3
        have h5 := ih h2
        exact ⟨false, c, h5, by simp [h4]⟩

/-- **prefix stability** of `analyze_source` (single file): if the analysis of `p ++ q` returns
normally, so does the analysis of `p` (same fuel), and its statements, symbols and diagnostics
are prefixes of those of `p ++ q` -/
theorem prefix_stable_analyze {fuel : Nat} {sp sp' : Ast.Span} {p q : List Ast.Stmt} {c'' : Ctx}
    (h : analyzeWith fuel ⟨sp, p ++ q⟩ = .ok c'') :
    ∃ c', analyzeWith fuel ⟨sp', p⟩ = .ok c' ∧
      c'.program <+: c''.program ∧
      c'.symbolTable.all <+: c''.symbolTable.all ∧
      c'.semanticErrors <+: c''.semanticErrors := by
  have key : ∀ (ss : List Ast.Stmt) (sp0 : Ast.Span) (cf : Ctx),
      analyzeWith fuel ⟨sp0, ss⟩ = .ok cf ↔
        parseIncludedFiles ss {} = .ok (false, {}) ∧ syntaxToSemanticLoop fuel ss {} = .ok (⟨⟩, cf) := by
    intro ss sp0 cf
    unfold analyzeWith syntaxToSemantic
    simp only [StateT.run]
    constructor
    · intro h
      split at h
      · rename_i u cf' hrun
        cases h
        rw [bind_ok] at hrun
        obtain ⟨b, c1, hinc, hrest⟩ := hrun
        have hc1 := parseIncludedFiles_readOnly hinc
        subst hc1
        cases b with
        | true => simp [bind_ok] at hrest
        | false =>
          simp only [Bool.false_eq_true, if_false] at hrest
          exact ⟨hinc, hrest⟩
      · cases h
    · rintro ⟨hinc, hloop⟩
      rw [bind_eq_of_ok hinc]
      simp only [Bool.false_eq_true, if_false]
      rw [hloop]
  obtain ⟨hinc, hloop⟩ := (key _ _ _).mp h
  obtain ⟨c', h1, hp, hs, he, _⟩ := prefix_stable hloop
  exact ⟨c', (key _ _ _).mpr ⟨parseIncludedFiles_prefix hinc, h1⟩, hp, hs, he⟩

/-! ### determinism -/

/-- the analysis is a function of the typed AST and the fuel — nothing else is consulted (no
global state, no hash-iteration order, no clock): equal inputs give equal results -/
theorem analyze_congr {p p' : Ast.Program} (h : p = p') : analyze p = analyze p' := by rw [h]

end Oq3.C17
