/-
C17 (semantic layer) — one pass, prefix stability, determinism, independence of text ranges.

* `loop_append`: the top-level loop over `p ++ q` is the loop over `p` followed by the loop over
  `q` (with the fuel that is left) from the context `p` ended in — analysis is a left fold.
* `ExtTop`, `loop_extTop`: the loop only ever appends to the program, the symbol vector and the
  diagnostics (built on `Oq3.C06.allFrame`).
* `prefix_stable`, `prefix_stable_analyze`: statements, symbols and diagnostics obtained for `p`
  are prefixes of those obtained for `p ++ q`, for every `q`, fuel and start context.
  The pending-annotation corner, exactly: annotations still pending when `p` ends are NOT part
  of `p`'s result (the pass drops them at end of input) but they are part of the context `q`
  starts in, so they end up on the first statement `q` emits (`pending_go_to_first_emitted`).
  That statement lies beyond `p`'s prefix, so the prefix relation itself has no exception.
* `analyze_congr` (determinism): the model is a function of the typed AST and the fuel.
* `eraseSpans`, `erCtx`, `Comm`, `allComm`, `analyze_eraseSpans`, `span_irrelevant`,
  `span_irrelevant_ok`: text ranges influence nothing but the positions stored in diagnostics —
  analysing the span-erased AST gives the span-erased result (same outcome incl. panics, same
  graph, symbols, constant values, pending annotations, diagnostic kinds and order).  Proved by
  pushing the commutation `Comm` through every primitive, every leaf function and the 25-function
  mutual block (generated script, induction on fuel).  This is the semantic-layer half of layout
  invariance: a re-layout changes nothing in the typed AST but ranges (that half is checked on
  the implementation by the metamorphic runs of `vf/oracle_sema_c.py`).
* `rename_equivariant` is NOT proved (stretch; see the report): checked metamorphically only.
-/
import Oq3.Props.C06

namespace Oq3.C17
open Oq3.Sema Oq3.Types Oq3.Symbols Oq3.C06

/-! ### the loop is a left fold -/

theorem loop_zero (ss : List Ast.Stmt) (c : Ctx) (r : Unit × Ctx) :
    syntaxToSemanticLoop 0 ss c = .ok r ↔ False := by
  unfold syntaxToSemanticLoop; simp

theorem loop_nil (fuel : Nat) (c : Ctx) (r : Unit × Ctx) :
    syntaxToSemanticLoop (fuel+1) [] c = .ok r ↔ r = (⟨⟩, c) := by
  unfold syntaxToSemanticLoop; simp

/-- what the loop does for ONE statement: translate, then attach -/
def topStepM (fuel : Nat) (s : Ast.Stmt) : M Unit := do
  let o ← topStmtM fuel s
  attachM o

theorem loop_cons (fuel : Nat) (s : Ast.Stmt) (rest : List Ast.Stmt) (c : Ctx) (r : Unit × Ctx) :
    syntaxToSemanticLoop (fuel+1) (s :: rest) c = .ok r ↔
      ∃ c1, topStepM fuel s c = .ok (⟨⟩, c1) ∧ syntaxToSemanticLoop fuel rest c1 = .ok r := by
  rw [topLoop_cons_eq]
  unfold topStepM
  simp only [bind_ok]
  constructor
  · rintro ⟨o, c1, h1, _, c2, h2, h3⟩; exact ⟨c2, ⟨o, c1, h1, h2⟩, h3⟩
  · rintro ⟨c2, ⟨o, c1, h1, h2⟩, h3⟩; exact ⟨o, c1, h1, ⟨⟩, c2, h2, h3⟩

/-- **fold lemma**: the loop over `p ++ q` = the loop over `p`, then the loop over `q` -/
theorem loop_append {fuel : Nat} {p q : List Ast.Stmt} {c c'' : Ctx} :
    syntaxToSemanticLoop fuel (p ++ q) c = .ok (⟨⟩, c'') ↔
      ∃ c', syntaxToSemanticLoop fuel p c = .ok (⟨⟩, c') ∧
        syntaxToSemanticLoop (fuel - p.length) q c' = .ok (⟨⟩, c'') := by
  induction p generalizing fuel c with
  | nil =>
    cases fuel with
    | zero => simp [loop_zero]
    | succ fuel => simp [loop_nil]
  | cons s rest ih =>
    cases fuel with
    | zero => simp [loop_zero]
    | succ fuel =>
      simp only [List.cons_append, loop_cons, List.length_cons, Nat.add_sub_add_right]
      constructor
      · rintro ⟨c1, h1, h2⟩
        obtain ⟨c', h3, h4⟩ := ih.mp h2
        exact ⟨c', ⟨c1, h1, h3⟩, h4⟩
      · rintro ⟨c', ⟨c1, h1, h3⟩, h4⟩
        exact ⟨c1, h1, ih.mpr ⟨c', h3, h4⟩⟩

/-! ### append-only -/

/-- what the top-level loop may do to the context: append to the program, to the symbol vector
and to the diagnostics (pending annotations are consumed, so they are not part of it) -/
structure ExtTop (c c' : Ctx) : Prop where
  program : c.program <+: c'.program
  symbols : c.symbolTable.all <+: c'.symbolTable.all
  errors : c.semanticErrors <+: c'.semanticErrors

theorem ExtTop.refl (c : Ctx) : ExtTop c c := ⟨List.prefix_refl _, List.prefix_refl _, List.prefix_refl _⟩

theorem ExtTop.trans {a b c : Ctx} (h1 : ExtTop a b) (h2 : ExtTop b c) : ExtTop a c :=
  ⟨h1.program.trans h2.program, h1.symbols.trans h2.symbols, h1.errors.trans h2.errors⟩

theorem Ext.toExtTop {c c' : Ctx} (h : Ext c c') : ExtTop c c' :=
  ⟨by rw [h.program]; exact List.prefix_refl _, h.symbols, h.errors⟩

theorem attachM_extTop {o : Option Stmt} {c c' : Ctx} (h : attachM o c = .ok (⟨⟩, c')) : ExtTop c c' := by
  cases o with
  | none => rw [attachM_none] at h; cases h; exact ExtTop.refl _
  | some t =>
    obtain ⟨_, hc⟩ := attachM_some.mp h
    cases hc
    exact ⟨List.prefix_append _ _, List.prefix_refl _, List.prefix_refl _⟩

theorem topStepM_extTop {fuel s c c'} (h : topStepM fuel s c = .ok (⟨⟩, c')) : ExtTop c c' := by
  unfold topStepM at h
  simp only [bind_ok] at h
  obtain ⟨o, c1, h1, h2⟩ := h
  exact (Ext.toExtTop ((topStmtM_frame _ _).run _ _ _ h1)).trans (attachM_extTop h2)

/-- the loop is append-only on statements, symbols and diagnostics -/
theorem loop_extTop {fuel ss c c'} (h : syntaxToSemanticLoop fuel ss c = .ok (⟨⟩, c')) : ExtTop c c' := by
  induction ss generalizing fuel c with
  | nil =>
    cases fuel with
    | zero => exact absurd h (by simp [loop_zero])
    | succ fuel => rw [loop_nil] at h; cases h; exact ExtTop.refl _
  | cons s rest ih =>
    cases fuel with
    | zero => exact absurd h (by simp [loop_zero])
    | succ fuel =>
      obtain ⟨c1, h1, h2⟩ := (loop_cons _ _ _ _ _).mp h
      exact (topStepM_extTop h1).trans (ih h2)

/-- **prefix stability** of the statement loop: for every fuel, start context and continuation
`q`, a successful analysis of `p ++ q` contains a successful analysis of `p` whose emitted
statements, symbols and diagnostics are prefixes of the final ones; the rest of the run is the
analysis of `q` from the context `p` ended in (pending annotations included). -/
theorem prefix_stable {fuel : Nat} {p q : List Ast.Stmt} {c c'' : Ctx}
    (h : syntaxToSemanticLoop fuel (p ++ q) c = .ok (⟨⟩, c'')) :
    ∃ c', syntaxToSemanticLoop fuel p c = .ok (⟨⟩, c') ∧
      c'.program <+: c''.program ∧
      c'.symbolTable.all <+: c''.symbolTable.all ∧
      c'.semanticErrors <+: c''.semanticErrors ∧
      syntaxToSemanticLoop (fuel - p.length) q c' = .ok (⟨⟩, c'') := by
  obtain ⟨c', h1, h2⟩ := loop_append.mp h
  have e := loop_extTop h2
  exact ⟨c', h1, e.program, e.symbols, e.errors, h2⟩

/-- the pending-annotation corner, exactly: if `q` begins with statements that translate to
nothing and then a statement that is emitted, that emitted statement is wrapped with a list of
annotations that STARTS with the annotations pending at the end of `p` -/
theorem pending_go_to_first_emitted {fuel s rest c' out c''}
    (h : TopRun (fuel+1) (s :: rest) c' out c'') {t c1}
    (ht : topStmtM fuel s c' = .ok (some t, c1)) :
    ∃ out', out = wrap t c1.annotations :: out' ∧ c'.annotations <+: c1.annotations := by
  cases h with
  | skip h1 _ => rw [ht] at h1; cases h1
  | emit h1 _ _ => rw [ht] at h1; cases h1; exact ⟨_, rfl, pending_annotations_attach ht⟩

/-! ### the whole analysis -/

theorem bind_eq_of_ok {α β} {x : M α} {f : α → M β} {c c1 : Ctx} {a : α} (h : x c = .ok (a, c1)) :
    (x >>= f) c = f a c1 := by
  show (StateT.bind x f) c = _
  unfold StateT.bind
  simp only [h, bind, Except.bind]


theorem parseIncludedFiles_readOnly {ss : List Ast.Stmt} {c b c'}
    (h : parseIncludedFiles ss c = .ok (b, c')) : c' = c := by
  induction ss generalizing b with
  | nil => simp [parseIncludedFiles] at h; exact h.2
  | cons s rest ih =>
    cases s <;> simp only [parseIncludedFiles] at h <;> try exact ih h
    rename_i _ file
    cases file with
    | none => exact ih h
    | some f =>
      simp only at h
      cases hfp : f.toString? with
      | none => simp only [hfp] at h; exact ih h
      | some fp =>
        simp only [hfp, bind_ok, pure_ok] at h
        obtain ⟨r, c3, h2, h3⟩ := h
        cases h3
        exact ih h2

/-- the include scan of a prefix succeeds with `false` if the scan of the whole does -/
theorem parseIncludedFiles_prefix {p q : List Ast.Stmt} {c c'}
    (h : parseIncludedFiles (p ++ q) c = .ok (false, c')) : parseIncludedFiles p c = .ok (false, c) := by
  induction p with
  | nil => rfl
  | cons s rest ih =>
    cases s <;> simp only [List.cons_append, parseIncludedFiles] at h ⊢ <;> try exact ih h
    rename_i _ file
    cases file with
    | none => exact ih h
    | some f =>
      simp only at h ⊢
      cases hfp : f.toString? with
      | none => simp only [hfp] at h ⊢; exact ih h
      | some fp =>
        simp only [hfp, bind_ok, pure_ok] at h ⊢
        obtain ⟨r, c3, h2, h3⟩ := h
        simp only [Prod.mk.injEq, Bool.false_eq, Bool.or_eq_false_iff] at h3
        obtain ⟨⟨h4, rfl⟩, rfl⟩ := h3
        have h5 := ih h2
        exact ⟨false, c, h5, by simp [h4]⟩

/-- **prefix stability** of `analyze_source` (single file): if the analysis of `p ++ q` returns
normally, so does the analysis of `p` (same fuel), and its statements, symbols and diagnostics
are prefixes of those of `p ++ q` -/
theorem prefix_stable_analyze {fuel : Nat} {sp sp' : Ast.Span} {p q : List Ast.Stmt} {c'' : Ctx}
    (h : analyzeWith fuel ⟨sp, p ++ q⟩ = .ok c'') :
    ∃ c', analyzeWith fuel ⟨sp', p⟩ = .ok c' ∧
      c'.program <+: c''.program ∧
      c'.symbolTable.all <+: c''.symbolTable.all ∧
      c'.semanticErrors <+: c''.semanticErrors := by
  have key : ∀ (ss : List Ast.Stmt) (sp0 : Ast.Span) (cf : Ctx),
      analyzeWith fuel ⟨sp0, ss⟩ = .ok cf ↔
        parseIncludedFiles ss {} = .ok (false, {}) ∧ syntaxToSemanticLoop fuel ss {} = .ok (⟨⟩, cf) := by
    intro ss sp0 cf
    unfold analyzeWith syntaxToSemantic
    simp only [StateT.run]
    constructor
    · intro h
      split at h
      · rename_i u cf' hrun
        cases h
        rw [bind_ok] at hrun
        obtain ⟨b, c1, hinc, hrest⟩ := hrun
        have hc1 := parseIncludedFiles_readOnly hinc
        subst hc1
        cases b with
        | true => simp [bind_ok] at hrest
        | false =>
          simp only [Bool.false_eq_true, if_false] at hrest
          exact ⟨hinc, hrest⟩
      · cases h
    · rintro ⟨hinc, hloop⟩
      rw [bind_eq_of_ok hinc]
      simp only [Bool.false_eq_true, if_false]
      rw [hloop]
  obtain ⟨hinc, hloop⟩ := (key _ _ _).mp h
  obtain ⟨c', h1, hp, hs, he, _⟩ := prefix_stable hloop
  exact ⟨c', (key _ _ _).mpr ⟨parseIncludedFiles_prefix hinc, h1⟩, hp, hs, he⟩

/-! ### determinism -/

/-- the analysis is a function of the typed AST and the fuel — nothing else is consulted (no
global state, no hash-iteration order, no clock): equal inputs give equal results -/
theorem analyze_congr {p p' : Ast.Program} (h : p = p') : analyze p = analyze p' := by rw [h]

/-! ## span irrelevance -/

/-! ### erasing text ranges -/

def z : Ast.Span := ⟨0, 0⟩

def erName (n : Ast.Name) : Ast.Name := { n with span := z }
def erIdent (n : Ast.Identifier) : Ast.Identifier := { n with span := z }
def erHw (n : Ast.HardwareQubit) : Ast.HardwareQubit := { n with span := z }
def erParam (n : Ast.Param) : Ast.Param := { n with span := z }
def erParamList (n : Ast.ParamList) : Ast.ParamList := ⟨z, n.params.map erParam⟩
def erFilePath (n : Ast.FilePath) : Ast.FilePath := { n with span := z }
def erLiteral (n : Ast.Literal) : Ast.Literal := { n with span := z }

mutual
def erExpr : Ast.Expr → Ast.Expr
  | .prefixExpr _ op e => .prefixExpr z op (erOExpr e)
  | .parenExpr p => .parenExpr (erParen p)
  | .binExpr _ op l r => .binExpr z op (erOExpr l) (erOExpr r)
  | .literal l => .literal (erLiteral l)
  | .timingLiteral _ u t l => .timingLiteral z u t (l.map erLiteral)
  | .identifier i => .identifier (erIdent i)
  | .hardwareQubit h => .hardwareQubit (erHw h)
  | .rangeExpr r => .rangeExpr (erRange r)
  | .indexExpr _ e ix => .indexExpr z (erOExpr e) (erOIndexOp ix)
  | .indexedIdentifier ii => .indexedIdentifier (erIndexedIdent ii)
  | .measureExpression _ g => .measureExpression z (erOGateOperand g)
  | .returnExpr _ e => .returnExpr z (erOExpr e)
  | .castExpression _ st e => .castExpression z (erOScalarType st) (erOExpr e)
  | .callExpr _ al i => .callExpr z (erOArgList al) (i.map erIdent)
  | .gateCallExpr g => .gateCallExpr (erGateCall g)
  | .gPhaseCallExpr g => .gPhaseCallExpr (erGPhase g)
  | .modifiedGateCallExpr _ ms g gp => .modifiedGateCallExpr z (erModifiers ms) (erOGateCall g) (erOGPhase gp)
  | .unsupported k _ => .unsupported k z
def erOExpr : Option Ast.Expr → Option Ast.Expr
  | none => none
  | some e => some (erExpr e)
def erExprs : List Ast.Expr → List Ast.Expr
  | [] => []
  | e :: es => erExpr e :: erExprs es
def erParen : Ast.ParenExpr → Ast.ParenExpr
  | .mk _ e => .mk z (erOExpr e)
def erOParen : Option Ast.ParenExpr → Option Ast.ParenExpr
  | none => none
  | some p => some (erParen p)
def erRange : Ast.RangeExpr → Ast.RangeExpr
  | .mk _ a b c => .mk z (erOExpr a) (erOExpr b) (erOExpr c)
def erDesignator : Ast.Designator → Ast.Designator
  | .mk _ e => .mk z (erOExpr e)
def erODesignator : Option Ast.Designator → Option Ast.Designator
  | none => none
  | some d => some (erDesignator d)
def erScalarType : Ast.ScalarType → Ast.ScalarType
  | .mk _ k d s => .mk z k (erODesignator d) (erOScalarType s)
def erOScalarType : Option Ast.ScalarType → Option Ast.ScalarType
  | none => none
  | some s => some (erScalarType s)
def erExprList : Ast.ExpressionList → Ast.ExpressionList
  | .mk _ es => .mk z (erExprs es)
def erOExprList : Option Ast.ExpressionList → Option Ast.ExpressionList
  | none => none
  | some el => some (erExprList el)
def erSet : Ast.SetExpression → Ast.SetExpression
  | .mk _ el => .mk z (erOExprList el)
def erIndexKind : Ast.IndexKind → Ast.IndexKind
  | .setExpression s => .setExpression (erSet s)
  | .expressionList el => .expressionList (erExprList el)
def erOIndexKind : Option Ast.IndexKind → Option Ast.IndexKind
  | none => none
  | some k => some (erIndexKind k)
def erIndexOp : Ast.IndexOperator → Ast.IndexOperator
  | .mk _ k => .mk z (erOIndexKind k)
def erOIndexOp : Option Ast.IndexOperator → Option Ast.IndexOperator
  | none => none
  | some i => some (erIndexOp i)
def erIndexOps : List Ast.IndexOperator → List Ast.IndexOperator
  | [] => []
  | i :: is => erIndexOp i :: erIndexOps is
def erIndexedIdent : Ast.IndexedIdentifier → Ast.IndexedIdentifier
  | .mk _ i ixs => .mk z (i.map erIdent) (erIndexOps ixs)
def erGateOperand : Ast.GateOperand → Ast.GateOperand
  | .hardwareQubit h => .hardwareQubit (erHw h)
  | .identifier i => .identifier (erIdent i)
  | .indexedIdentifier ii => .indexedIdentifier (erIndexedIdent ii)
def erOGateOperand : Option Ast.GateOperand → Option Ast.GateOperand
  | none => none
  | some g => some (erGateOperand g)
def erGateOperands : List Ast.GateOperand → List Ast.GateOperand
  | [] => []
  | g :: gs => erGateOperand g :: erGateOperands gs
def erQubitList : Ast.QubitList → Ast.QubitList
  | .mk _ gs => .mk z (erGateOperands gs)
def erOQubitList : Option Ast.QubitList → Option Ast.QubitList
  | none => none
  | some q => some (erQubitList q)
def erArgList : Ast.ArgList → Ast.ArgList
  | .mk _ el => .mk z (erOExprList el)
def erOArgList : Option Ast.ArgList → Option Ast.ArgList
  | none => none
  | some a => some (erArgList a)
def erGateCall : Ast.GateCallExpr → Ast.GateCallExpr
  | .mk _ ql al i => .mk z (erOQubitList ql) (erOArgList al) (i.map erIdent)
def erOGateCall : Option Ast.GateCallExpr → Option Ast.GateCallExpr
  | none => none
  | some g => some (erGateCall g)
def erGPhase : Ast.GPhaseCallExpr → Ast.GPhaseCallExpr
  | .mk _ a => .mk z (erOExpr a)
def erOGPhase : Option Ast.GPhaseCallExpr → Option Ast.GPhaseCallExpr
  | none => none
  | some g => some (erGPhase g)
def erModifier : Ast.Modifier → Ast.Modifier
  | .invModifier _ => .invModifier z
  | .powModifier _ p => .powModifier z (erOParen p)
  | .ctrlModifier _ p => .ctrlModifier z (erOParen p)
  | .negCtrlModifier _ p => .negCtrlModifier z (erOParen p)
def erModifiers : List Ast.Modifier → List Ast.Modifier
  | [] => []
  | m :: ms => erModifier m :: erModifiers ms
end

def erParamType : Ast.ParamType → Ast.ParamType
  | .scalarType s => .scalarType (erScalarType s)
  | .arrayRefType _ => .arrayRefType z

def erTypedParam (p : Ast.TypedParam) : Ast.TypedParam :=
  ⟨z, p.paramType.map erParamType, p.oldTypedParam, p.name.map erName⟩

def erTypedParamList (l : Ast.TypedParamList) : Ast.TypedParamList := ⟨z, l.typedParams.map erTypedParam⟩

def erReturnSignature (r : Ast.ReturnSignature) : Ast.ReturnSignature := ⟨z, erOScalarType r.scalarType⟩

def erQubitType (q : Ast.QubitType) : Ast.QubitType := ⟨z, erODesignator q.designator⟩

def erForIterable (f : Ast.ForIterable) : Ast.ForIterable :=
  ⟨z, f.setExpression.map erSet, f.rangeExpr.map erRange, erOExpr f.forIterableExpr⟩

mutual
def erStmt : Ast.Stmt → Ast.Stmt
  | .ifStmt _ c t f => .ifStmt z (erOExpr c) (erAccBos t) (erOBos f)
  | .whileStmt _ c b => .whileStmt z (erOExpr c) (erAccBos b)
  | .forStmt _ v st it b => .forStmt z (v.map erName) (erOScalarType st) (it.map erForIterable) (erAccBos b)
  | .switchCaseStmt _ c cs d => .switchCaseStmt z (erOExpr c) (erCases cs) (erOBlock d)
  | .classicalDeclarationStatement _ a st k n e =>
    .classicalDeclarationStatement z a (erOScalarType st) k (n.map erName) (erOExpr e)
  | .ioDeclarationStatement _ a st n i => .ioDeclarationStatement z a (erOScalarType st) (n.map erName) i
  | .quantumDeclarationStatement _ n h q =>
    .quantumDeclarationStatement z (n.map erName) (h.map erHw) (q.map erQubitType)
  | .assignmentStmt _ i rhs ii => .assignmentStmt z (i.map erIdent) (erOExpr rhs) (ii.map erIndexedIdent)
  | .breakStmt _ => .breakStmt z
  | .continueStmt _ => .continueStmt z
  | .endStmt _ => .endStmt z
  | .gate _ n a q b => .gate z (n.map erName) (a.map erParamList) (q.map erParamList) (erOBlock b)
  | .defStmt _ n tp b rs =>
    .defStmt z (n.map erName) (tp.map erTypedParamList) (erOBlock b) (rs.map erReturnSignature)
  | .barrier _ q => .barrier z (erOQubitList q)
  | .delayStmt _ q d => .delayStmt z (erOQubitList q) (erODesignator d)
  | .reset _ g => .reset z (erOGateOperand g)
  | .includeStmt _ f => .includeStmt z (f.map erFilePath)
  | .exprStmt _ e => .exprStmt z (erOExpr e)
  | .versionString _ => .versionString z
  | .pragmaStatement _ t => .pragmaStatement z t
  | .annotationStatement _ t => .annotationStatement z t
  | .aliasDeclarationStatement _ n e => .aliasDeclarationStatement z (n.map erName) (erOExpr e)
  | .notImpl k _ => .notImpl k z
def erStmts : List Ast.Stmt → List Ast.Stmt
  | [] => []
  | s :: ss => erStmt s :: erStmts ss
def erBlock : Ast.BlockExpr → Ast.BlockExpr
  | .mk _ ss => .mk z (erStmts ss)
def erOBlock : Option Ast.BlockExpr → Option Ast.BlockExpr
  | none => none
  | some b => some (erBlock b)
def erBos : Ast.BlockOrStmt → Ast.BlockOrStmt
  | .blockExpr b => .blockExpr (erBlock b)
  | .stmt s => .stmt (erStmt s)
def erOBos : Option Ast.BlockOrStmt → Option Ast.BlockOrStmt
  | none => none
  | some b => some (erBos b)
def erAccBos : Ast.Acc Ast.BlockOrStmt → Ast.Acc Ast.BlockOrStmt
  | .ok b => .ok (erBos b)
  | .panicked => .panicked
def erCase : Ast.CaseExpr → Ast.CaseExpr
  | .mk _ el b => .mk z (erOExprList el) (erOBlock b)
def erCases : List Ast.CaseExpr → List Ast.CaseExpr
  | [] => []
  | c :: cs => erCase c :: erCases cs
end

/-- `Ast.eraseSpans`: the same program with every text range replaced by `0..0` -/
def eraseSpans (p : Ast.Program) : Ast.Program := ⟨z, erStmts p.statements⟩

/-! ### contexts up to diagnostic positions -/

def erErr (e : SemErr) : SemErr := ⟨e.kind, 0, 0⟩

def erCtx (c : Ctx) : Ctx := { c with semanticErrors := c.semanticErrors.map erErr }

/-- `y` run on an erased context = `x` run on the context, erased; results related by `g` -/
structure Comm {α β} (g : α → β) (x : M α) (y : M β) : Prop where
  run : ∀ c, y (erCtx c) = (x c).map (fun r => (g r.1, erCtx r.2))


theorem Comm.bind {α α' β β'} {g : α → α'} {h : β → β'} {x : M α} {y : M α'} {f : α → M β} {f' : α' → M β'}
    (hx : Comm g x y) (hf : ∀ a, Comm h (f a) (f' (g a))) : Comm h (x >>= f) (y >>= f') := by
  refine ⟨fun c => ?_⟩
  show (StateT.bind y f') (erCtx c) = Except.map _ ((StateT.bind x f) c)
  unfold StateT.bind
  simp only [bind, Except.bind]
  rw [hx.run c]
  cases x c with
  | error e => rfl
  | ok p => obtain ⟨a, c1⟩ := p; exact (hf a).run c1

theorem Comm.pure {α β} {g : α → β} {a : α} {b : β} (h : g a = b) : Comm g (pure a) (pure b) := by
  refine ⟨fun c => ?_⟩; subst h; rfl

theorem Comm.fail {α β} {g : α → β} (site : String) : Comm g (Sema.fail site) (Sema.fail site) := by
  refine ⟨fun c => ?_⟩; rfl

theorem Comm.throw {α β} {g : α → β} (o : Outcome) : Comm g (throw o : M α) (throw o : M β) := by
  refine ⟨fun c => ?_⟩; rfl

theorem erCtx_idem (c : Ctx) : erCtx (erCtx c) = erCtx c := by
  simp [erCtx, erErr, Function.comp_def]

theorem insertError_comm (k : SemanticErrorKind) (sp : Ast.Span) :
    Comm id (insertError k sp) (insertError k z) := by
  refine ⟨fun c => ?_⟩
  simp [insertError, erCtx, erErr, z, modify, modifyGet, MonadStateOf.modifyGet, StateT.modifyGet, Except.map, pure, Except.pure]

theorem Comm.unwrap {α β} (g : α → β) (site : String) (o : Option α) :
    Comm g (Sema.unwrap site o) (Sema.unwrap site (o.map g)) := by
  cases o
  · exact Comm.fail _
  · exact Comm.pure rfl

theorem Comm.unwrap_id {α} (site : String) (o : Option α) : Comm id (Sema.unwrap site o) (Sema.unwrap site o) := by
  cases o
  · exact Comm.fail _
  · exact Comm.pure rfl

theorem Comm.ite {α β} {g : α → β} (p : Prop) [Decidable p] {x x' : M α} {y y' : M β}
    (h1 : Comm g x y) (h2 : Comm g x' y') : Comm g (if p then x else x') (if p then y else y') := by
  split <;> assumption

theorem Comm.fail_bind {α α' β β'} {h : β → β'} (site : String) {f : α → M β} {f' : α' → M β'} :
    Comm h (Sema.fail site >>= f) (Sema.fail site >>= f') := ⟨fun _ => rfl⟩

theorem Comm.throw_bind {α α' β β'} {h : β → β'} (o : Outcome) {f : α → M β} {f' : α' → M β'} :
    Comm h ((MonadExcept.throw o : M α) >>= f) ((MonadExcept.throw o : M α') >>= f') := ⟨fun _ => rfl⟩

theorem Comm.of_eq {α β} {g : α → β} {x : M α} {y y' : M β} (h : Comm g x y) (e : y = y') : Comm g x y' :=
  e ▸ h

syntax "comm_eq" : tactic
macro_rules | `(tactic| comm_eq) => `(tactic| rfl)
syntax "comm_lemma" : tactic
macro_rules | `(tactic| comm_lemma) => `(tactic| fail "no lemma")
syntax "comm_ih" : tactic
macro_rules | `(tactic| comm_ih) => `(tactic| fail "no ih")
syntax "comm_simp" : tactic
macro_rules | `(tactic| comm_simp) => `(tactic| fail "no simp")

macro "comm_step" : tactic => `(tactic| first
  | cases ‹_ + 1 = Nat.succ _›
  | with_reducible exact Comm.pure rfl
  | with_reducible exact Comm.fail _
  | with_reducible exact Comm.throw _
  | with_reducible exact Comm.fail_bind _
  | with_reducible exact Comm.throw_bind _
  | with_reducible exact Comm.unwrap_id _ _
  | with_reducible exact Comm.unwrap _ _ _
  | with_reducible exact insertError_comm _ _
  | comm_lemma
  | comm_ih
  | assumption
  | dsimp only [id_eq]
  | comm_simp
  | with_reducible refine Comm.bind (Comm.unwrap_id _ _) ?_
  | with_reducible refine Comm.bind (Comm.unwrap _ _ _) ?_
  | with_reducible refine Comm.bind (by assumption) ?_
  | with_reducible refine Comm.bind (Comm.pure rfl) ?_
  | with_reducible refine Comm.bind (g := id) ?_ ?_
  | intro _
  | apply Comm.ite
  | cases ‹Ast.ForIterable›
  | cases ‹Ast.ReturnSignature›
  | split)

macro "comm" : tactic => `(tactic| repeat' comm_step)

theorem symStep_comm (site : String) (op : Op) : Comm id (symStep site op) (symStep site op) := by
  refine ⟨fun c => ?_⟩
  unfold symStep
  simp only [erCtx]
  show (StateT.bind _ _) _ = Except.map _ ((StateT.bind _ _) _)
  unfold StateT.bind
  simp only [get, getThe, MonadStateOf.get, StateT.get, bind, Except.bind, pure, Except.pure]
  generalize c.symbolTable.step op = so
  obtain ⟨t', o⟩ := so
  cases o <;> rfl
macro_rules | `(tactic| comm_lemma) => `(tactic| with_reducible exact symStep_comm _ _)

theorem enterScope_comm (k : ScopeType) : Comm id (enterScope k) (enterScope k) := by
  unfold enterScope; comm
macro_rules | `(tactic| comm_lemma) => `(tactic| with_reducible exact enterScope_comm _)

theorem exitScope_comm : Comm id exitScope exitScope := by
  unfold exitScope; comm
macro_rules | `(tactic| comm_lemma) => `(tactic| with_reducible exact exitScope_comm)

theorem withScope_comm {α β} {g : α → β} (k : ScopeType) {x : M α} {y : M β} (h : Comm g x y) :
    Comm g (withScope k x) (withScope k y) := by
  unfold withScope; comm
macro_rules | `(tactic| comm_lemma) => `(tactic| with_reducible apply withScope_comm)

theorem currentScopeType_comm : Comm id currentScopeType currentScopeType := by
  refine ⟨fun c => ?_⟩
  unfold currentScopeType
  show (StateT.bind _ _) _ = Except.map _ ((StateT.bind _ _) _)
  unfold StateT.bind
  simp only [get, getThe, MonadStateOf.get, StateT.get, bind, Except.bind, pure, Except.pure, erCtx]
  cases c.symbolTable.stack <;> rfl
macro_rules | `(tactic| comm_lemma) => `(tactic| with_reducible exact currentScopeType_comm)

theorem inGlobalScope_comm : Comm id inGlobalScope inGlobalScope := by
  unfold inGlobalScope; comm
macro_rules | `(tactic| comm_lemma) => `(tactic| with_reducible exact inGlobalScope_comm)

theorem newBinding_comm (n : String) (t : T) (sp : Ast.Span) :
    Comm id (newBinding n t sp) (newBinding n t z) := by
  unfold newBinding; comm
macro_rules | `(tactic| comm_lemma) => `(tactic| with_reducible exact newBinding_comm _ _ _)

theorem tableLookup_comm (n : String) : Comm id (tableLookup n) (tableLookup n) := by
  unfold tableLookup; comm
macro_rules | `(tactic| comm_lemma) => `(tactic| with_reducible exact tableLookup_comm _)

theorem lookupSymbol_comm (n : String) (sp : Ast.Span) : Comm id (lookupSymbol n sp) (lookupSymbol n z) := by
  unfold lookupSymbol; comm
macro_rules | `(tactic| comm_lemma) => `(tactic| with_reducible exact lookupSymbol_comm _ _)

theorem lookupGateSymbol_comm (n : String) (sp : Ast.Span) :
    Comm id (lookupGateSymbol n sp) (lookupGateSymbol n z) := by
  unfold lookupGateSymbol; comm
macro_rules | `(tactic| comm_lemma) => `(tactic| with_reducible exact lookupGateSymbol_comm _ _)

theorem insertConstValue_comm (id' : Nat) (v : TExpr) : Comm id (insertConstValue id' v) (insertConstValue id' v) := by
  refine ⟨fun c => ?_⟩; rfl
macro_rules | `(tactic| comm_lemma) => `(tactic| with_reducible exact insertConstValue_comm _ _)

theorem getConstValue_comm (id' : Nat) : Comm id (getConstValue id') (getConstValue id') := by
  refine ⟨fun c => ?_⟩; rfl
macro_rules | `(tactic| comm_lemma) => `(tactic| with_reducible exact getConstValue_comm _)

theorem pushAnnotation_comm (a : String) : Comm id (pushAnnotation a) (pushAnnotation a) := by
  refine ⟨fun c => ?_⟩; rfl
macro_rules | `(tactic| comm_lemma) => `(tactic| with_reducible exact pushAnnotation_comm _)

theorem annotationsIsEmpty_comm : Comm id annotationsIsEmpty annotationsIsEmpty := by
  refine ⟨fun c => ?_⟩; rfl
macro_rules | `(tactic| comm_lemma) => `(tactic| with_reducible exact annotationsIsEmpty_comm)

theorem takeAnnotations_comm : Comm id takeAnnotations takeAnnotations := by
  refine ⟨fun c => ?_⟩; rfl
macro_rules | `(tactic| comm_lemma) => `(tactic| with_reducible exact takeAnnotations_comm)

theorem insertStmt_comm (s : Stmt) : Comm id (insertStmt s) (insertStmt s) := by
  refine ⟨fun c => ?_⟩; rfl
macro_rules | `(tactic| comm_lemma) => `(tactic| with_reducible exact insertStmt_comm _)

theorem redeclLoop_comm (sp : Ast.Span) (ns : List String) : Comm id (redeclLoop sp ns) (redeclLoop z ns) := by
  induction ns with
  | nil => unfold redeclLoop; comm
  | cons n ns ih => unfold redeclLoop; comm
macro_rules | `(tactic| comm_lemma) => `(tactic| with_reducible exact redeclLoop_comm _ _)

theorem bind_eq_of_ok' {α β} {x : M α} {f : α → M β} {c c1 : Ctx} {a : α} (h : x c = .ok (a, c1)) :
    (x >>= f) c = f a c1 := by
  show (StateT.bind x f) c = _
  unfold StateT.bind
  simp only [h, bind, Except.bind]

theorem standardLibraryGates_eq (sp : Ast.Span) (c : Ctx) (g : SymTab × List Name)
    (hg : c.symbolTable.standardLibraryGates = g) :
    standardLibraryGates sp c = redeclLoop sp g.2 { c with symbolTable := g.1 } := by
  unfold standardLibraryGates
  rw [bind_eq_of_ok' (x := get) (a := c) (c1 := c) rfl]
  simp only [hg]
  rw [bind_eq_of_ok' (x := set _) (a := ⟨⟩) rfl]

theorem standardLibraryGates_comm (sp : Ast.Span) :
    Comm id (standardLibraryGates sp) (standardLibraryGates z) := by
  refine ⟨fun c => ?_⟩
  generalize hg : c.symbolTable.standardLibraryGates = g
  rw [standardLibraryGates_eq sp c g hg, standardLibraryGates_eq z (erCtx c) g hg]
  exact (redeclLoop_comm sp g.2).run { c with symbolTable := g.1 }
macro_rules | `(tactic| comm_lemma) => `(tactic| with_reducible exact standardLibraryGates_comm _)

theorem notImpl_comm (sp : Ast.Span) : Comm id (notImpl sp) (notImpl z) := by
  unfold notImpl; comm
macro_rules | `(tactic| comm_lemma) => `(tactic| with_reducible exact notImpl_comm _)

/-! ### erase: simp lemmas -/

theorem erOExpr_eq (o : Option Ast.Expr) : erOExpr o = o.map erExpr := by cases o <;> rfl
theorem erExprs_eq (l : List Ast.Expr) : erExprs l = l.map erExpr := by
  induction l with
  | nil => rfl
  | cons x xs ih => simp [erExprs, ih]
theorem erOParen_eq (o : Option Ast.ParenExpr) : erOParen o = o.map erParen := by cases o <;> rfl
theorem erODesignator_eq (o : Option Ast.Designator) : erODesignator o = o.map erDesignator := by cases o <;> rfl
theorem erOScalarType_eq (o : Option Ast.ScalarType) : erOScalarType o = o.map erScalarType := by cases o <;> rfl
theorem erOExprList_eq (o : Option Ast.ExpressionList) : erOExprList o = o.map erExprList := by cases o <;> rfl
theorem erOIndexKind_eq (o : Option Ast.IndexKind) : erOIndexKind o = o.map erIndexKind := by cases o <;> rfl
theorem erOIndexOp_eq (o : Option Ast.IndexOperator) : erOIndexOp o = o.map erIndexOp := by cases o <;> rfl
theorem erIndexOps_eq (l : List Ast.IndexOperator) : erIndexOps l = l.map erIndexOp := by
  induction l with
  | nil => rfl
  | cons x xs ih => simp [erIndexOps, ih]
theorem erOGateOperand_eq (o : Option Ast.GateOperand) : erOGateOperand o = o.map erGateOperand := by cases o <;> rfl
theorem erGateOperands_eq (l : List Ast.GateOperand) : erGateOperands l = l.map erGateOperand := by
  induction l with
  | nil => rfl
  | cons x xs ih => simp [erGateOperands, ih]
theorem erOQubitList_eq (o : Option Ast.QubitList) : erOQubitList o = o.map erQubitList := by cases o <;> rfl
theorem erOArgList_eq (o : Option Ast.ArgList) : erOArgList o = o.map erArgList := by cases o <;> rfl
theorem erOGateCall_eq (o : Option Ast.GateCallExpr) : erOGateCall o = o.map erGateCall := by cases o <;> rfl
theorem erOGPhase_eq (o : Option Ast.GPhaseCallExpr) : erOGPhase o = o.map erGPhase := by cases o <;> rfl
theorem erModifiers_eq (l : List Ast.Modifier) : erModifiers l = l.map erModifier := by
  induction l with
  | nil => rfl
  | cons x xs ih => simp [erModifiers, ih]
theorem erStmts_eq (l : List Ast.Stmt) : erStmts l = l.map erStmt := by
  induction l with
  | nil => rfl
  | cons x xs ih => simp [erStmts, ih]
theorem erOBlock_eq (o : Option Ast.BlockExpr) : erOBlock o = o.map erBlock := by cases o <;> rfl
theorem erOBos_eq (o : Option Ast.BlockOrStmt) : erOBos o = o.map erBos := by cases o <;> rfl
theorem erCases_eq (l : List Ast.CaseExpr) : erCases l = l.map erCase := by
  induction l with
  | nil => rfl
  | cons x xs ih => simp [erCases, ih]

theorem span_erParen (p : Ast.ParenExpr) : (erParen p).span = z := by cases p; rfl
theorem span_erRange (p : Ast.RangeExpr) : (erRange p).span = z := by cases p; rfl
theorem span_erDesignator (p : Ast.Designator) : (erDesignator p).span = z := by cases p; rfl
theorem span_erIndexedIdent (p : Ast.IndexedIdentifier) : (erIndexedIdent p).span = z := by cases p; rfl
theorem span_erQubitList (p : Ast.QubitList) : (erQubitList p).span = z := by cases p; rfl
theorem span_erArgList (p : Ast.ArgList) : (erArgList p).span = z := by cases p; rfl
theorem span_erGateCall (p : Ast.GateCallExpr) : (erGateCall p).span = z := by cases p; rfl
theorem span_erGPhase (p : Ast.GPhaseCallExpr) : (erGPhase p).span = z := by cases p; rfl
theorem span_erGateOperand (g : Ast.GateOperand) : (erGateOperand g).span = z := by
  cases g <;> simp [erGateOperand, Ast.GateOperand.span, erHw, erIdent, span_erIndexedIdent]
theorem span_erExpr (e : Ast.Expr) : (erExpr e).span = z := by
  cases e <;> simp [erExpr, Ast.Expr.span, span_erParen, span_erRange, span_erIndexedIdent, span_erGateCall,
    span_erGPhase, erLiteral, erIdent, erHw]


@[simp] theorem erName_text (n : Ast.Name) : (erName n).text = n.text := rfl
@[simp] theorem erName_span (n : Ast.Name) : (erName n).span = z := rfl
@[simp] theorem erIdent_text (n : Ast.Identifier) : (erIdent n).text = n.text := rfl
@[simp] theorem erIdent_span (n : Ast.Identifier) : (erIdent n).span = z := rfl
@[simp] theorem erHw_text (n : Ast.HardwareQubit) : (erHw n).text = n.text := rfl
@[simp] theorem erHw_span (n : Ast.HardwareQubit) : (erHw n).span = z := rfl
@[simp] theorem erParam_text (n : Ast.Param) : (erParam n).text = n.text := rfl
@[simp] theorem erParam_span (n : Ast.Param) : (erParam n).span = z := rfl
@[simp] theorem erParamList_params (n : Ast.ParamList) : (erParamList n).params = n.params.map erParam := rfl
@[simp] theorem erFilePath_toString (n : Ast.FilePath) : (erFilePath n).toString? = n.toString? := rfl
@[simp] theorem erLiteral_kind (n : Ast.Literal) : (erLiteral n).kind = n.kind := rfl
@[simp] theorem erLiteral_span (n : Ast.Literal) : (erLiteral n).span = z := rfl
@[simp] theorem erTypedParam_paramType (p : Ast.TypedParam) : (erTypedParam p).paramType = p.paramType.map erParamType := rfl
@[simp] theorem erTypedParam_old (p : Ast.TypedParam) : (erTypedParam p).oldTypedParam = p.oldTypedParam := rfl
@[simp] theorem erTypedParam_name (p : Ast.TypedParam) : (erTypedParam p).name = p.name.map erName := rfl
@[simp] theorem erTypedParam_span (p : Ast.TypedParam) : (erTypedParam p).span = z := rfl
@[simp] theorem erTypedParamList_params (l : Ast.TypedParamList) : (erTypedParamList l).typedParams = l.typedParams.map erTypedParam := rfl
@[simp] theorem erReturnSignature_st (r : Ast.ReturnSignature) : (erReturnSignature r).scalarType = r.scalarType.map erScalarType := by
  simp [erReturnSignature, erOScalarType_eq]
@[simp] theorem erQubitType_designator (q : Ast.QubitType) : (erQubitType q).designator = q.designator.map erDesignator := by
  simp [erQubitType, erODesignator_eq]
@[simp] theorem erForIterable_set (f : Ast.ForIterable) : (erForIterable f).setExpression = f.setExpression.map erSet := rfl
@[simp] theorem erForIterable_range (f : Ast.ForIterable) : (erForIterable f).rangeExpr = f.rangeExpr.map erRange := rfl
@[simp] theorem erForIterable_expr (f : Ast.ForIterable) : (erForIterable f).forIterableExpr = f.forIterableExpr.map erExpr := by
  simp [erForIterable, erOExpr_eq]

macro_rules | `(tactic| comm_simp) => `(tactic| simp only [erOExpr_eq, erExprs_eq, erOParen_eq, erODesignator_eq,
  erOScalarType_eq, erOExprList_eq, erOIndexKind_eq, erOIndexOp_eq, erIndexOps_eq, erOGateOperand_eq,
  erGateOperands_eq, erOQubitList_eq, erOArgList_eq, erOGateCall_eq, erOGPhase_eq, erModifiers_eq, erStmts_eq,
  erOBlock_eq, erOBos_eq, erCases_eq, span_erParen, span_erRange, span_erDesignator, span_erIndexedIdent,
  span_erQubitList, span_erArgList, span_erGateCall, span_erGPhase, span_erGateOperand, span_erExpr,
  erName_text, erName_span, erIdent_text, erIdent_span, erHw_text, erHw_span, erParam_text, erParam_span,
  erParamList_params, erFilePath_toString, erLiteral_kind, erLiteral_span, erTypedParam_paramType, erTypedParam_old,
  erTypedParam_name, erTypedParam_span, erTypedParamList_params, erReturnSignature_st, erQubitType_designator,
  erForIterable_set, erForIterable_range, erForIterable_expr,
  Option.map_some, Option.map_none, List.map_cons, List.map_nil])

/-! ### leaf functions -/

theorem binaryOpToAsgType_comm (op : Ast.BinaryOp) : Comm id (binaryOpToAsgType op) (binaryOpToAsgType op) := by
  unfold binaryOpToAsgType; comm
macro_rules | `(tactic| comm_lemma) => `(tactic| with_reducible exact binaryOpToAsgType_comm _)

theorem intNumberValue_comm (site text : String) : Comm id (intNumberValue site text) (intNumberValue site text) := by
  unfold intNumberValue; comm
macro_rules | `(tactic| comm_lemma) => `(tactic| with_reducible exact intNumberValue_comm _ _)

theorem negativeFloat_comm (fmt : Option String) :
    Comm id (negativeFloatNumberToAsgType fmt) (negativeFloatNumberToAsgType fmt) := by
  unfold negativeFloatNumberToAsgType; comm
macro_rules | `(tactic| comm_lemma) => `(tactic| with_reducible exact negativeFloat_comm _)

theorem negativeInt_comm (text : String) : Comm id (negativeIntToAsgType text) (negativeIntToAsgType text) := by
  unfold negativeIntToAsgType; comm
macro_rules | `(tactic| comm_lemma) => `(tactic| with_reducible exact negativeInt_comm _)

theorem literalToAsgTexpr_comm (l : Ast.Literal) :
    Comm id (literalToAsgTexpr l) (literalToAsgTexpr (erLiteral l)) := by
  unfold literalToAsgTexpr
  comm
macro_rules | `(tactic| comm_lemma) => `(tactic| with_reducible exact literalToAsgTexpr_comm _)
macro_rules | `(tactic| comm_lemma) => `(tactic| (with_reducible refine Comm.of_eq (literalToAsgTexpr_comm _) ?_; comm_eq))

theorem lookupIdentifier_comm (i : Ast.Identifier) :
    Comm id (lookupIdentifier i) (lookupIdentifier (erIdent i)) := by
  unfold lookupIdentifier; comm
macro_rules | `(tactic| comm_lemma) => `(tactic| with_reducible exact lookupIdentifier_comm _)
macro_rules | `(tactic| comm_lemma) => `(tactic| (with_reducible refine Comm.of_eq (lookupIdentifier_comm _) ?_; comm_eq))

theorem designatorToAsg_comm (d : Option Ast.Designator) :
    Comm id (designatorToAsg d) (designatorToAsg (d.map erDesignator)) := by
  unfold designatorToAsg
  rcases d with _ | ⟨sp, _ | e⟩
  · simp only [Option.map_none, getAstDesignatorExpression]; comm
  · simp only [Option.map_some, erDesignator, erOExpr, getAstDesignatorExpression]; comm
  · cases e <;> simp only [Option.map_some, erDesignator, erOExpr, erExpr, getAstDesignatorExpression] <;> comm
macro_rules | `(tactic| comm_lemma) => `(tactic| with_reducible exact designatorToAsg_comm _)
macro_rules | `(tactic| comm_lemma) => `(tactic| (with_reducible refine Comm.of_eq (designatorToAsg_comm _) ?_; comm_eq))

theorem scalarTypeToType_comm (st : Ast.ScalarType) (b : Bool) :
    Comm id (scalarTypeToType st b) (scalarTypeToType (erScalarType st) b) := by
  unfold scalarTypeToType
  rcases st with ⟨sp, k, d, _ | ⟨sp', k', d', i'⟩⟩ <;> simp only [erScalarType, erOScalarType] <;> comm
macro_rules | `(tactic| comm_lemma) => `(tactic| with_reducible exact scalarTypeToType_comm _ _)
macro_rules | `(tactic| comm_lemma) => `(tactic| (with_reducible refine Comm.of_eq (scalarTypeToType_comm _ _) ?_; comm_eq))

theorem paramTypeToType_comm (pt : Ast.ParamType) (b : Bool) :
    Comm id (paramTypeToType pt b) (paramTypeToType (erParamType pt) b) := by
  unfold paramTypeToType
  cases pt <;> simp only [erParamType] <;> comm
macro_rules | `(tactic| comm_lemma) => `(tactic| with_reducible exact paramTypeToType_comm _ _)
macro_rules | `(tactic| comm_lemma) => `(tactic| (with_reducible refine Comm.of_eq (paramTypeToType_comm _ _) ?_; comm_eq))

theorem declareClassicalHelper_comm (id' : SymbolIdResult) (i : Option TExpr) :
    Comm id (declareClassicalHelper id' i) (declareClassicalHelper id' i) := by
  unfold declareClassicalHelper; comm
macro_rules | `(tactic| comm_lemma) => `(tactic| with_reducible exact declareClassicalHelper_comm _ _)

theorem ioDeclaration_comm (a : Bool) (st : Option Ast.ScalarType) (n : Option Ast.Name) (i : Bool) :
    Comm id (ioDeclarationStatementToAsgStmt a st n i)
      (ioDeclarationStatementToAsgStmt a (st.map erScalarType) (n.map erName) i) := by
  unfold ioDeclarationStatementToAsgStmt; comm
macro_rules | `(tactic| comm_lemma) => `(tactic| with_reducible exact ioDeclaration_comm _ _ _ _)
macro_rules | `(tactic| comm_lemma) => `(tactic| (with_reducible refine Comm.of_eq (ioDeclaration_comm _ _ _ _) ?_; comm_eq))

theorem bindParams_comm (t : T) (ps : List Ast.Param) :
    Comm id (bindParams t ps) (bindParams t (ps.map erParam)) := by
  induction ps with
  | nil => unfold bindParams; comm
  | cons p ps ih => simp only [List.map_cons]; unfold bindParams; comm
macro_rules | `(tactic| comm_lemma) => `(tactic| with_reducible exact bindParams_comm _ _)
macro_rules | `(tactic| comm_lemma) => `(tactic| (with_reducible refine Comm.of_eq (bindParams_comm _ _) ?_; comm_eq))

theorem bindParameterList_comm (l : Option Ast.ParamList) (t : T) :
    Comm id (bindParameterList l t) (bindParameterList (l.map erParamList) t) := by
  unfold bindParameterList
  cases l <;> simp only [Option.map_some, Option.map_none] <;> comm
macro_rules | `(tactic| comm_lemma) => `(tactic| with_reducible exact bindParameterList_comm _ _)
macro_rules | `(tactic| comm_lemma) => `(tactic| (with_reducible refine Comm.of_eq (bindParameterList_comm _ _) ?_; comm_eq))

theorem bindTypedParams_comm (ps : List Ast.TypedParam) :
    Comm id (bindTypedParams ps) (bindTypedParams (ps.map erTypedParam)) := by
  induction ps with
  | nil => unfold bindTypedParams; comm
  | cons p ps ih =>
    obtain ⟨sp, pt, old, nm⟩ := p
    simp only [List.map_cons]; unfold bindTypedParams
    cases pt <;> simp only [erTypedParam_paramType, erTypedParam_old, erTypedParam_name, erTypedParam_span,
      Option.map_some, Option.map_none] <;> comm
macro_rules | `(tactic| comm_lemma) => `(tactic| with_reducible exact bindTypedParams_comm _)
macro_rules | `(tactic| comm_lemma) => `(tactic| (with_reducible refine Comm.of_eq (bindTypedParams_comm _) ?_; comm_eq))

theorem bindTypedParameterList_comm (l : Option Ast.TypedParamList) :
    Comm id (bindTypedParameterList l) (bindTypedParameterList (l.map erTypedParamList)) := by
  unfold bindTypedParameterList
  cases l <;> simp only [Option.map_some, Option.map_none] <;> comm
macro_rules | `(tactic| comm_lemma) => `(tactic| with_reducible exact bindTypedParameterList_comm _)
macro_rules | `(tactic| comm_lemma) => `(tactic| (with_reducible refine Comm.of_eq (bindTypedParameterList_comm _) ?_; comm_eq))

theorem notGlobalCheck_comm (sp : Ast.Span) : Comm id (notGlobalCheck sp) (notGlobalCheck z) := by
  unfold notGlobalCheck; comm
macro_rules | `(tactic| comm_lemma) => `(tactic| with_reducible exact notGlobalCheck_comm _)

theorem gateNotGlobalCheck_comm (n : Option Ast.Name) :
    Comm id (gateNotGlobalCheck n) (gateNotGlobalCheck (n.map erName)) := by
  unfold gateNotGlobalCheck; comm
macro_rules | `(tactic| comm_lemma) => `(tactic| with_reducible exact gateNotGlobalCheck_comm _)
macro_rules | `(tactic| comm_lemma) => `(tactic| (with_reducible refine Comm.of_eq (gateNotGlobalCheck_comm _) ?_; comm_eq))

theorem returnGlobalCheck_comm (sp : Ast.Span) : Comm id (returnGlobalCheck sp) (returnGlobalCheck z) := by
  unfold returnGlobalCheck; comm
macro_rules | `(tactic| comm_lemma) => `(tactic| with_reducible exact returnGlobalCheck_comm _)

theorem delayDurationCheck_comm (d : TExpr) (sp : Ast.Span) :
    Comm id (delayDurationCheck d sp) (delayDurationCheck d z) := by
  unfold delayDurationCheck; comm
macro_rules | `(tactic| comm_lemma) => `(tactic| with_reducible exact delayDurationCheck_comm _ _)

theorem quantumBinopCheck_comm (l r : TExpr) (lhs rhs : Option Ast.Expr) :
    Comm id (quantumBinopCheck l r lhs rhs) (quantumBinopCheck l r (lhs.map erExpr) (rhs.map erExpr)) := by
  unfold quantumBinopCheck; comm
macro_rules | `(tactic| comm_lemma) => `(tactic| with_reducible exact quantumBinopCheck_comm _ _ _ _)
macro_rules | `(tactic| comm_lemma) => `(tactic| (with_reducible refine Comm.of_eq (quantumBinopCheck_comm _ _ _ _) ?_; comm_eq))

theorem gateOperandIdentCheck_comm (t : T) (sp : Ast.Span) :
    Comm id (gateOperandIdentCheck t sp) (gateOperandIdentCheck t z) := by
  unfold gateOperandIdentCheck; comm
macro_rules | `(tactic| comm_lemma) => `(tactic| with_reducible exact gateOperandIdentCheck_comm _ _)

theorem gateOperandIndexedCheck_comm (t : T) (sp : Ast.Span) :
    Comm id (gateOperandIndexedCheck t sp) (gateOperandIndexedCheck t z) := by
  unfold gateOperandIndexedCheck; comm
macro_rules | `(tactic| comm_lemma) => `(tactic| with_reducible exact gateOperandIndexedCheck_comm _ _)

theorem gateCallCheck_comm (sp : Ast.Span) (ql : Option Ast.QubitList) (al : Option Ast.ArgList)
    (g : Ast.Identifier) (r : SymbolIdResult) (t : T) (np nq : Nat) :
    Comm id (gateCallCheck sp ql al g r t np nq)
      (gateCallCheck z (ql.map erQubitList) (al.map erArgList) (erIdent g) r t np nq) := by
  unfold gateCallCheck; comm
macro_rules | `(tactic| comm_lemma) => `(tactic| with_reducible exact gateCallCheck_comm _ _ _ _ _ _ _ _)
macro_rules | `(tactic| comm_lemma) => `(tactic| (with_reducible refine Comm.of_eq (gateCallCheck_comm _ _ _ _ _ _ _ _) ?_; comm_eq))

theorem defArityCheck_comm (e n : Nat) (al : Option Ast.ArgList) :
    Comm id (defArityCheck e n al) (defArityCheck e n (al.map erArgList)) := by
  unfold defArityCheck; comm
macro_rules | `(tactic| comm_lemma) => `(tactic| with_reducible exact defArityCheck_comm _ _ _)
macro_rules | `(tactic| comm_lemma) => `(tactic| (with_reducible refine Comm.of_eq (defArityCheck_comm _ _ _) ?_; comm_eq))

theorem mutateConstCheck_comm (ok : Bool) (t : T) (sp : Ast.Span) :
    Comm id (mutateConstCheck ok t sp) (mutateConstCheck ok t z) := by
  unfold mutateConstCheck; comm
macro_rules | `(tactic| comm_lemma) => `(tactic| with_reducible exact mutateConstCheck_comm _ _ _)

macro_rules | `(tactic| comm_simp) => `(tactic| simp only [erExpr, erOExpr, erExprs, erParen, erOParen, erRange, erDesignator, erODesignator, erScalarType, erOScalarType, erExprList, erOExprList, erSet, erIndexKind, erOIndexKind, erIndexOp, erOIndexOp, erIndexOps, erIndexedIdent, erGateOperand, erOGateOperand, erGateOperands, erQubitList, erOQubitList, erArgList, erOArgList, erGateCall, erOGateCall, erGPhase, erOGPhase, erModifier, erModifiers, erStmt, erStmts, erBlock, erOBlock, erBos, erOBos, erAccBos, erCase, erCases, erParamType])

macro_rules | `(tactic| comm_eq) => `(tactic| ((repeat comm_simp); done))
macro_rules | `(tactic| comm_eq) => `(tactic| ((repeat comm_simp); rfl))

/-- erasure commutes with every function of the mutual block at one fuel -/
structure AllComm (fuel : Nat) : Prop where
  stmtToAsgStmt : ∀ (s : Ast.Stmt), Comm id (Oq3.Sema.stmtToAsgStmt fuel s) (Oq3.Sema.stmtToAsgStmt fuel (erStmt s))
  caseExprsLoop : ∀ (cs : List Ast.CaseExpr), Comm id (Oq3.Sema.caseExprsLoop fuel cs) (Oq3.Sema.caseExprsLoop fuel (cs.map erCase))
  exprStmtToAsgStmt : ∀ (e : Option Ast.Expr), Comm id (Oq3.Sema.exprStmtToAsgStmt fuel e) (Oq3.Sema.exprStmtToAsgStmt fuel (e.map erExpr))
  modifiersLoop : ∀ (ms : List Ast.Modifier), Comm id (Oq3.Sema.modifiersLoop fuel ms) (Oq3.Sema.modifiersLoop fuel (ms.map erModifier))
  parenExprToAsgTexpr : ∀ (p : Ast.ParenExpr), Comm id (Oq3.Sema.parenExprToAsgTexpr fuel p) (Oq3.Sema.parenExprToAsgTexpr fuel (erParen p))
  exprToAsgTexpr : ∀ (e : Option Ast.Expr), Comm id (Oq3.Sema.exprToAsgTexpr fuel e) (Oq3.Sema.exprToAsgTexpr fuel (e.map erExpr))
  setExpressionToAsgType : ∀ (s : Ast.SetExpression), Comm id (Oq3.Sema.setExpressionToAsgType fuel s) (Oq3.Sema.setExpressionToAsgType fuel (erSet s))
  rangeExpressionToAsgType : ∀ (r : Ast.RangeExpr), Comm id (Oq3.Sema.rangeExpressionToAsgType fuel r) (Oq3.Sema.rangeExpressionToAsgType fuel (erRange r))
  gateCallExprToAsgStmt : ∀ (g : Ast.GateCallExpr) (ms : List GateModifier), Comm id (Oq3.Sema.gateCallExprToAsgStmt fuel g ms) (Oq3.Sema.gateCallExprToAsgStmt fuel (erGateCall g) ms)
  callExprToAsgTexpr : ∀ (sp : Ast.Span) (al : Option Ast.ArgList) (i : Option Ast.Identifier), Comm id (Oq3.Sema.callExprToAsgTexpr fuel sp al i) (Oq3.Sema.callExprToAsgTexpr fuel z (al.map erArgList) (i.map erIdent))
  gateOperandToAsgTexpr : ∀ (g : Ast.GateOperand), Comm id (Oq3.Sema.gateOperandToAsgTexpr fuel g) (Oq3.Sema.gateOperandToAsgTexpr fuel (erGateOperand g))
  indexOperatorToAsgType : ∀ (i : Ast.IndexOperator), Comm id (Oq3.Sema.indexOperatorToAsgType fuel i) (Oq3.Sema.indexOperatorToAsgType fuel (erIndexOp i))
  expressionListToAsgType : ∀ (el : Ast.ExpressionList), Comm id (Oq3.Sema.expressionListToAsgType fuel el) (Oq3.Sema.expressionListToAsgType fuel (erExprList el))
  qubitListToAsgTexpr : ∀ (ql : Option Ast.QubitList), Comm id (Oq3.Sema.qubitListToAsgTexpr fuel ql) (Oq3.Sema.qubitListToAsgTexpr fuel (ql.map erQubitList))
  gateOperandsLoop : ∀ (gs : List Ast.GateOperand), Comm id (Oq3.Sema.gateOperandsLoop fuel gs) (Oq3.Sema.gateOperandsLoop fuel (gs.map erGateOperand))
  expressionListToAsgTexpr : ∀ (el : Ast.ExpressionList), Comm id (Oq3.Sema.expressionListToAsgTexpr fuel el) (Oq3.Sema.expressionListToAsgTexpr fuel (erExprList el))
  exprsLoop : ∀ (es : List Ast.Expr), Comm id (Oq3.Sema.exprsLoop fuel es) (Oq3.Sema.exprsLoop fuel (es.map erExpr))
  blockExprToAsgStmtList : ∀ (b : Ast.BlockExpr), Comm id (Oq3.Sema.blockExprToAsgStmtList fuel b) (Oq3.Sema.blockExprToAsgStmtList fuel (erBlock b))
  stmtsLoop : ∀ (ss : List Ast.Stmt), Comm id (Oq3.Sema.stmtsLoop fuel ss) (Oq3.Sema.stmtsLoop fuel (ss.map erStmt))
  blockExprToAsgType : ∀ (b : Ast.BlockExpr), Comm id (Oq3.Sema.blockExprToAsgType fuel b) (Oq3.Sema.blockExprToAsgType fuel (erBlock b))
  blockOrStmtToAsgType : ∀ (b : Ast.BlockOrStmt), Comm id (Oq3.Sema.blockOrStmtToAsgType fuel b) (Oq3.Sema.blockOrStmtToAsgType fuel (erBos b))
  classicalDeclarationStatementToAsgStmt : ∀ (sp : Ast.Span) (a : Bool) (st : Option Ast.ScalarType) (k : Bool) (n : Option Ast.Name) (e : Option Ast.Expr), Comm id (Oq3.Sema.classicalDeclarationStatementToAsgStmt fuel sp a st k n e) (Oq3.Sema.classicalDeclarationStatementToAsgStmt fuel z a (st.map erScalarType) k (n.map erName) (e.map erExpr))
  assignmentStmtToAsgStmt : ∀ (sp : Ast.Span) (i : Option Ast.Identifier) (rhs : Option Ast.Expr) (ii : Option Ast.IndexedIdentifier), Comm id (Oq3.Sema.assignmentStmtToAsgStmt fuel sp i rhs ii) (Oq3.Sema.assignmentStmtToAsgStmt fuel z (i.map erIdent) (rhs.map erExpr) (ii.map erIndexedIdent))
  indexedIdentifierToAsgType : ∀ (ii : Ast.IndexedIdentifier), Comm id (Oq3.Sema.indexedIdentifierToAsgType fuel ii) (Oq3.Sema.indexedIdentifierToAsgType fuel (erIndexedIdent ii))
  indexOperatorsLoop : ∀ (ixs : List Ast.IndexOperator), Comm id (Oq3.Sema.indexOperatorsLoop fuel ixs) (Oq3.Sema.indexOperatorsLoop fuel (ixs.map erIndexOp))

set_option hygiene false in
macro_rules | `(tactic| comm_ih) => `(tactic| first
  | with_reducible exact h_stmtToAsgStmt _
  | with_reducible exact h_caseExprsLoop _
  | with_reducible exact h_exprStmtToAsgStmt _
  | with_reducible exact h_modifiersLoop _
  | with_reducible exact h_parenExprToAsgTexpr _
  | with_reducible exact h_exprToAsgTexpr _
  | with_reducible exact h_setExpressionToAsgType _
  | with_reducible exact h_rangeExpressionToAsgType _
  | with_reducible exact h_gateCallExprToAsgStmt _ _
  | with_reducible exact h_callExprToAsgTexpr _ _ _
  | with_reducible exact h_gateOperandToAsgTexpr _
  | with_reducible exact h_indexOperatorToAsgType _
  | with_reducible exact h_expressionListToAsgType _
  | with_reducible exact h_qubitListToAsgTexpr _
  | with_reducible exact h_gateOperandsLoop _
  | with_reducible exact h_expressionListToAsgTexpr _
  | with_reducible exact h_exprsLoop _
  | with_reducible exact h_blockExprToAsgStmtList _
  | with_reducible exact h_stmtsLoop _
  | with_reducible exact h_blockExprToAsgType _
  | with_reducible exact h_blockOrStmtToAsgType _
  | with_reducible exact h_classicalDeclarationStatementToAsgStmt _ _ _ _ _ _
  | with_reducible exact h_assignmentStmtToAsgStmt _ _ _ _
  | with_reducible exact h_indexedIdentifierToAsgType _
  | with_reducible exact h_indexOperatorsLoop _
  | (with_reducible refine Comm.of_eq (h_stmtToAsgStmt _) ?_; comm_eq)
  | (with_reducible refine Comm.of_eq (h_caseExprsLoop _) ?_; comm_eq)
  | (with_reducible refine Comm.of_eq (h_exprStmtToAsgStmt _) ?_; comm_eq)
  | (with_reducible refine Comm.of_eq (h_modifiersLoop _) ?_; comm_eq)
  | (with_reducible refine Comm.of_eq (h_parenExprToAsgTexpr _) ?_; comm_eq)
  | (with_reducible refine Comm.of_eq (h_exprToAsgTexpr _) ?_; comm_eq)
  | (with_reducible refine Comm.of_eq (h_setExpressionToAsgType _) ?_; comm_eq)
  | (with_reducible refine Comm.of_eq (h_rangeExpressionToAsgType _) ?_; comm_eq)
  | (with_reducible refine Comm.of_eq (h_gateCallExprToAsgStmt _ _) ?_; comm_eq)
  | (with_reducible refine Comm.of_eq (h_callExprToAsgTexpr _ _ _) ?_; comm_eq)
  | (with_reducible refine Comm.of_eq (h_gateOperandToAsgTexpr _) ?_; comm_eq)
  | (with_reducible refine Comm.of_eq (h_indexOperatorToAsgType _) ?_; comm_eq)
  | (with_reducible refine Comm.of_eq (h_expressionListToAsgType _) ?_; comm_eq)
  | (with_reducible refine Comm.of_eq (h_qubitListToAsgTexpr _) ?_; comm_eq)
  | (with_reducible refine Comm.of_eq (h_gateOperandsLoop _) ?_; comm_eq)
  | (with_reducible refine Comm.of_eq (h_expressionListToAsgTexpr _) ?_; comm_eq)
  | (with_reducible refine Comm.of_eq (h_exprsLoop _) ?_; comm_eq)
  | (with_reducible refine Comm.of_eq (h_blockExprToAsgStmtList _) ?_; comm_eq)
  | (with_reducible refine Comm.of_eq (h_stmtsLoop _) ?_; comm_eq)
  | (with_reducible refine Comm.of_eq (h_blockExprToAsgType _) ?_; comm_eq)
  | (with_reducible refine Comm.of_eq (h_blockOrStmtToAsgType _) ?_; comm_eq)
  | (with_reducible refine Comm.of_eq (h_classicalDeclarationStatementToAsgStmt _ _ _ _ _ _) ?_; comm_eq)
  | (with_reducible refine Comm.of_eq (h_assignmentStmtToAsgStmt _ _ _ _) ?_; comm_eq)
  | (with_reducible refine Comm.of_eq (h_indexedIdentifierToAsgType _) ?_; comm_eq)
  | (with_reducible refine Comm.of_eq (h_indexOperatorsLoop _) ?_; comm_eq))

set_option maxHeartbeats 4000000 in
theorem stmtToAsgStmt_comm_step (fuel : Nat) (ih : AllComm fuel) (s : Ast.Stmt) :
    Comm id (Oq3.Sema.stmtToAsgStmt (fuel + 1) s) (Oq3.Sema.stmtToAsgStmt (fuel + 1) (erStmt s)) := by
  obtain ⟨h_stmtToAsgStmt, h_caseExprsLoop, h_exprStmtToAsgStmt, h_modifiersLoop, h_parenExprToAsgTexpr, h_exprToAsgTexpr, h_setExpressionToAsgType, h_rangeExpressionToAsgType, h_gateCallExprToAsgStmt, h_callExprToAsgTexpr, h_gateOperandToAsgTexpr, h_indexOperatorToAsgType, h_expressionListToAsgType, h_qubitListToAsgTexpr, h_gateOperandsLoop, h_expressionListToAsgTexpr, h_exprsLoop, h_blockExprToAsgStmtList, h_stmtsLoop, h_blockExprToAsgType, h_blockOrStmtToAsgType, h_classicalDeclarationStatementToAsgStmt, h_assignmentStmtToAsgStmt, h_indexedIdentifierToAsgType, h_indexOperatorsLoop⟩ := ih
  unfold Oq3.Sema.stmtToAsgStmt
  try simp only [withScope]
  comm

set_option maxHeartbeats 4000000 in
theorem caseExprsLoop_comm_step (fuel : Nat) (ih : AllComm fuel) (cs : List Ast.CaseExpr) :
    Comm id (Oq3.Sema.caseExprsLoop (fuel + 1) cs) (Oq3.Sema.caseExprsLoop (fuel + 1) (cs.map erCase)) := by
  obtain ⟨h_stmtToAsgStmt, h_caseExprsLoop, h_exprStmtToAsgStmt, h_modifiersLoop, h_parenExprToAsgTexpr, h_exprToAsgTexpr, h_setExpressionToAsgType, h_rangeExpressionToAsgType, h_gateCallExprToAsgStmt, h_callExprToAsgTexpr, h_gateOperandToAsgTexpr, h_indexOperatorToAsgType, h_expressionListToAsgType, h_qubitListToAsgTexpr, h_gateOperandsLoop, h_expressionListToAsgTexpr, h_exprsLoop, h_blockExprToAsgStmtList, h_stmtsLoop, h_blockExprToAsgType, h_blockOrStmtToAsgType, h_classicalDeclarationStatementToAsgStmt, h_assignmentStmtToAsgStmt, h_indexedIdentifierToAsgType, h_indexOperatorsLoop⟩ := ih
  rcases cs with _ | ⟨x, rest⟩ <;> simp only [List.map_cons, List.map_nil] <;> (unfold Oq3.Sema.caseExprsLoop; comm)

set_option maxHeartbeats 4000000 in
theorem exprStmtToAsgStmt_comm_step (fuel : Nat) (ih : AllComm fuel) (e : Option Ast.Expr) :
    Comm id (Oq3.Sema.exprStmtToAsgStmt (fuel + 1) e) (Oq3.Sema.exprStmtToAsgStmt (fuel + 1) (e.map erExpr)) := by
  obtain ⟨h_stmtToAsgStmt, h_caseExprsLoop, h_exprStmtToAsgStmt, h_modifiersLoop, h_parenExprToAsgTexpr, h_exprToAsgTexpr, h_setExpressionToAsgType, h_rangeExpressionToAsgType, h_gateCallExprToAsgStmt, h_callExprToAsgTexpr, h_gateOperandToAsgTexpr, h_indexOperatorToAsgType, h_expressionListToAsgType, h_qubitListToAsgTexpr, h_gateOperandsLoop, h_expressionListToAsgTexpr, h_exprsLoop, h_blockExprToAsgStmtList, h_stmtsLoop, h_blockExprToAsgType, h_blockOrStmtToAsgType, h_classicalDeclarationStatementToAsgStmt, h_assignmentStmtToAsgStmt, h_indexedIdentifierToAsgType, h_indexOperatorsLoop⟩ := ih
  rcases e with _ | e
  · unfold Oq3.Sema.exprStmtToAsgStmt; comm
  cases e <;> (try cases ‹Ast.GPhaseCallExpr›) <;> (try cases ‹Option Ast.GateCallExpr›) <;>
    (simp only [Option.map_some, erExpr]; unfold Oq3.Sema.exprStmtToAsgStmt; comm)

set_option maxHeartbeats 4000000 in
theorem modifiersLoop_comm_step (fuel : Nat) (ih : AllComm fuel) (ms : List Ast.Modifier) :
    Comm id (Oq3.Sema.modifiersLoop (fuel + 1) ms) (Oq3.Sema.modifiersLoop (fuel + 1) (ms.map erModifier)) := by
  obtain ⟨h_stmtToAsgStmt, h_caseExprsLoop, h_exprStmtToAsgStmt, h_modifiersLoop, h_parenExprToAsgTexpr, h_exprToAsgTexpr, h_setExpressionToAsgType, h_rangeExpressionToAsgType, h_gateCallExprToAsgStmt, h_callExprToAsgTexpr, h_gateOperandToAsgTexpr, h_indexOperatorToAsgType, h_expressionListToAsgType, h_qubitListToAsgTexpr, h_gateOperandsLoop, h_expressionListToAsgTexpr, h_exprsLoop, h_blockExprToAsgStmtList, h_stmtsLoop, h_blockExprToAsgType, h_blockOrStmtToAsgType, h_classicalDeclarationStatementToAsgStmt, h_assignmentStmtToAsgStmt, h_indexedIdentifierToAsgType, h_indexOperatorsLoop⟩ := ih
  rcases ms with _ | ⟨x, rest⟩ <;> simp only [List.map_cons, List.map_nil] <;> (unfold Oq3.Sema.modifiersLoop; comm)

set_option maxHeartbeats 4000000 in
theorem parenExprToAsgTexpr_comm_step (fuel : Nat) (ih : AllComm fuel) (p : Ast.ParenExpr) :
    Comm id (Oq3.Sema.parenExprToAsgTexpr (fuel + 1) p) (Oq3.Sema.parenExprToAsgTexpr (fuel + 1) (erParen p)) := by
  obtain ⟨h_stmtToAsgStmt, h_caseExprsLoop, h_exprStmtToAsgStmt, h_modifiersLoop, h_parenExprToAsgTexpr, h_exprToAsgTexpr, h_setExpressionToAsgType, h_rangeExpressionToAsgType, h_gateCallExprToAsgStmt, h_callExprToAsgTexpr, h_gateOperandToAsgTexpr, h_indexOperatorToAsgType, h_expressionListToAsgType, h_qubitListToAsgTexpr, h_gateOperandsLoop, h_expressionListToAsgTexpr, h_exprsLoop, h_blockExprToAsgStmtList, h_stmtsLoop, h_blockExprToAsgType, h_blockOrStmtToAsgType, h_classicalDeclarationStatementToAsgStmt, h_assignmentStmtToAsgStmt, h_indexedIdentifierToAsgType, h_indexOperatorsLoop⟩ := ih
  unfold Oq3.Sema.parenExprToAsgTexpr
  comm

set_option maxHeartbeats 4000000 in
theorem exprToAsgTexpr_comm_step (fuel : Nat) (ih : AllComm fuel) (e : Option Ast.Expr) :
    Comm id (Oq3.Sema.exprToAsgTexpr (fuel + 1) e) (Oq3.Sema.exprToAsgTexpr (fuel + 1) (e.map erExpr)) := by
  obtain ⟨h_stmtToAsgStmt, h_caseExprsLoop, h_exprStmtToAsgStmt, h_modifiersLoop, h_parenExprToAsgTexpr, h_exprToAsgTexpr, h_setExpressionToAsgType, h_rangeExpressionToAsgType, h_gateCallExprToAsgStmt, h_callExprToAsgTexpr, h_gateOperandToAsgTexpr, h_indexOperatorToAsgType, h_expressionListToAsgType, h_qubitListToAsgTexpr, h_gateOperandsLoop, h_expressionListToAsgTexpr, h_exprsLoop, h_blockExprToAsgStmtList, h_stmtsLoop, h_blockExprToAsgType, h_blockOrStmtToAsgType, h_classicalDeclarationStatementToAsgStmt, h_assignmentStmtToAsgStmt, h_indexedIdentifierToAsgType, h_indexOperatorsLoop⟩ := ih
  rcases e with _ | e
  · unfold Oq3.Sema.exprToAsgTexpr; comm
  cases e
  case prefixExpr sp op operand =>
    rcases operand with _ | o
    · simp only [Option.map_some, Option.map_none, erExpr, erOExpr]; unfold Oq3.Sema.exprToAsgTexpr; comm
    · cases o <;> (simp only [Option.map_some, erExpr, erOExpr]; unfold Oq3.Sema.exprToAsgTexpr; comm)
  all_goals (try cases ‹Ast.UnsupportedExprKind›)
  all_goals (simp only [Option.map_some, erExpr]; unfold Oq3.Sema.exprToAsgTexpr; comm)

set_option maxHeartbeats 4000000 in
theorem setExpressionToAsgType_comm_step (fuel : Nat) (ih : AllComm fuel) (s : Ast.SetExpression) :
    Comm id (Oq3.Sema.setExpressionToAsgType (fuel + 1) s) (Oq3.Sema.setExpressionToAsgType (fuel + 1) (erSet s)) := by
  obtain ⟨h_stmtToAsgStmt, h_caseExprsLoop, h_exprStmtToAsgStmt, h_modifiersLoop, h_parenExprToAsgTexpr, h_exprToAsgTexpr, h_setExpressionToAsgType, h_rangeExpressionToAsgType, h_gateCallExprToAsgStmt, h_callExprToAsgTexpr, h_gateOperandToAsgTexpr, h_indexOperatorToAsgType, h_expressionListToAsgType, h_qubitListToAsgTexpr, h_gateOperandsLoop, h_expressionListToAsgTexpr, h_exprsLoop, h_blockExprToAsgStmtList, h_stmtsLoop, h_blockExprToAsgType, h_blockOrStmtToAsgType, h_classicalDeclarationStatementToAsgStmt, h_assignmentStmtToAsgStmt, h_indexedIdentifierToAsgType, h_indexOperatorsLoop⟩ := ih
  unfold Oq3.Sema.setExpressionToAsgType
  comm

set_option maxHeartbeats 4000000 in
theorem rangeExpressionToAsgType_comm_step (fuel : Nat) (ih : AllComm fuel) (r : Ast.RangeExpr) :
    Comm id (Oq3.Sema.rangeExpressionToAsgType (fuel + 1) r) (Oq3.Sema.rangeExpressionToAsgType (fuel + 1) (erRange r)) := by
  obtain ⟨h_stmtToAsgStmt, h_caseExprsLoop, h_exprStmtToAsgStmt, h_modifiersLoop, h_parenExprToAsgTexpr, h_exprToAsgTexpr, h_setExpressionToAsgType, h_rangeExpressionToAsgType, h_gateCallExprToAsgStmt, h_callExprToAsgTexpr, h_gateOperandToAsgTexpr, h_indexOperatorToAsgType, h_expressionListToAsgType, h_qubitListToAsgTexpr, h_gateOperandsLoop, h_expressionListToAsgTexpr, h_exprsLoop, h_blockExprToAsgStmtList, h_stmtsLoop, h_blockExprToAsgType, h_blockOrStmtToAsgType, h_classicalDeclarationStatementToAsgStmt, h_assignmentStmtToAsgStmt, h_indexedIdentifierToAsgType, h_indexOperatorsLoop⟩ := ih
  unfold Oq3.Sema.rangeExpressionToAsgType
  comm

set_option maxHeartbeats 4000000 in
theorem gateCallExprToAsgStmt_comm_step (fuel : Nat) (ih : AllComm fuel) (g : Ast.GateCallExpr) (ms : List GateModifier) :
    Comm id (Oq3.Sema.gateCallExprToAsgStmt (fuel + 1) g ms) (Oq3.Sema.gateCallExprToAsgStmt (fuel + 1) (erGateCall g) ms) := by
  obtain ⟨h_stmtToAsgStmt, h_caseExprsLoop, h_exprStmtToAsgStmt, h_modifiersLoop, h_parenExprToAsgTexpr, h_exprToAsgTexpr, h_setExpressionToAsgType, h_rangeExpressionToAsgType, h_gateCallExprToAsgStmt, h_callExprToAsgTexpr, h_gateOperandToAsgTexpr, h_indexOperatorToAsgType, h_expressionListToAsgType, h_qubitListToAsgTexpr, h_gateOperandsLoop, h_expressionListToAsgTexpr, h_exprsLoop, h_blockExprToAsgStmtList, h_stmtsLoop, h_blockExprToAsgType, h_blockOrStmtToAsgType, h_classicalDeclarationStatementToAsgStmt, h_assignmentStmtToAsgStmt, h_indexedIdentifierToAsgType, h_indexOperatorsLoop⟩ := ih
  unfold Oq3.Sema.gateCallExprToAsgStmt
  comm

set_option maxHeartbeats 4000000 in
theorem callExprToAsgTexpr_comm_step (fuel : Nat) (ih : AllComm fuel) (sp : Ast.Span) (al : Option Ast.ArgList) (i : Option Ast.Identifier) :
    Comm id (Oq3.Sema.callExprToAsgTexpr (fuel + 1) sp al i) (Oq3.Sema.callExprToAsgTexpr (fuel + 1) z (al.map erArgList) (i.map erIdent)) := by
  obtain ⟨h_stmtToAsgStmt, h_caseExprsLoop, h_exprStmtToAsgStmt, h_modifiersLoop, h_parenExprToAsgTexpr, h_exprToAsgTexpr, h_setExpressionToAsgType, h_rangeExpressionToAsgType, h_gateCallExprToAsgStmt, h_callExprToAsgTexpr, h_gateOperandToAsgTexpr, h_indexOperatorToAsgType, h_expressionListToAsgType, h_qubitListToAsgTexpr, h_gateOperandsLoop, h_expressionListToAsgTexpr, h_exprsLoop, h_blockExprToAsgStmtList, h_stmtsLoop, h_blockExprToAsgType, h_blockOrStmtToAsgType, h_classicalDeclarationStatementToAsgStmt, h_assignmentStmtToAsgStmt, h_indexedIdentifierToAsgType, h_indexOperatorsLoop⟩ := ih
  unfold Oq3.Sema.callExprToAsgTexpr
  comm

set_option maxHeartbeats 4000000 in
theorem gateOperandToAsgTexpr_comm_step (fuel : Nat) (ih : AllComm fuel) (g : Ast.GateOperand) :
    Comm id (Oq3.Sema.gateOperandToAsgTexpr (fuel + 1) g) (Oq3.Sema.gateOperandToAsgTexpr (fuel + 1) (erGateOperand g)) := by
  obtain ⟨h_stmtToAsgStmt, h_caseExprsLoop, h_exprStmtToAsgStmt, h_modifiersLoop, h_parenExprToAsgTexpr, h_exprToAsgTexpr, h_setExpressionToAsgType, h_rangeExpressionToAsgType, h_gateCallExprToAsgStmt, h_callExprToAsgTexpr, h_gateOperandToAsgTexpr, h_indexOperatorToAsgType, h_expressionListToAsgType, h_qubitListToAsgTexpr, h_gateOperandsLoop, h_expressionListToAsgTexpr, h_exprsLoop, h_blockExprToAsgStmtList, h_stmtsLoop, h_blockExprToAsgType, h_blockOrStmtToAsgType, h_classicalDeclarationStatementToAsgStmt, h_assignmentStmtToAsgStmt, h_indexedIdentifierToAsgType, h_indexOperatorsLoop⟩ := ih
  unfold Oq3.Sema.gateOperandToAsgTexpr
  comm

set_option maxHeartbeats 4000000 in
theorem indexOperatorToAsgType_comm_step (fuel : Nat) (ih : AllComm fuel) (i : Ast.IndexOperator) :
    Comm id (Oq3.Sema.indexOperatorToAsgType (fuel + 1) i) (Oq3.Sema.indexOperatorToAsgType (fuel + 1) (erIndexOp i)) := by
  obtain ⟨h_stmtToAsgStmt, h_caseExprsLoop, h_exprStmtToAsgStmt, h_modifiersLoop, h_parenExprToAsgTexpr, h_exprToAsgTexpr, h_setExpressionToAsgType, h_rangeExpressionToAsgType, h_gateCallExprToAsgStmt, h_callExprToAsgTexpr, h_gateOperandToAsgTexpr, h_indexOperatorToAsgType, h_expressionListToAsgType, h_qubitListToAsgTexpr, h_gateOperandsLoop, h_expressionListToAsgTexpr, h_exprsLoop, h_blockExprToAsgStmtList, h_stmtsLoop, h_blockExprToAsgType, h_blockOrStmtToAsgType, h_classicalDeclarationStatementToAsgStmt, h_assignmentStmtToAsgStmt, h_indexedIdentifierToAsgType, h_indexOperatorsLoop⟩ := ih
  unfold Oq3.Sema.indexOperatorToAsgType
  comm

set_option maxHeartbeats 4000000 in
theorem expressionListToAsgType_comm_step (fuel : Nat) (ih : AllComm fuel) (el : Ast.ExpressionList) :
    Comm id (Oq3.Sema.expressionListToAsgType (fuel + 1) el) (Oq3.Sema.expressionListToAsgType (fuel + 1) (erExprList el)) := by
  obtain ⟨h_stmtToAsgStmt, h_caseExprsLoop, h_exprStmtToAsgStmt, h_modifiersLoop, h_parenExprToAsgTexpr, h_exprToAsgTexpr, h_setExpressionToAsgType, h_rangeExpressionToAsgType, h_gateCallExprToAsgStmt, h_callExprToAsgTexpr, h_gateOperandToAsgTexpr, h_indexOperatorToAsgType, h_expressionListToAsgType, h_qubitListToAsgTexpr, h_gateOperandsLoop, h_expressionListToAsgTexpr, h_exprsLoop, h_blockExprToAsgStmtList, h_stmtsLoop, h_blockExprToAsgType, h_blockOrStmtToAsgType, h_classicalDeclarationStatementToAsgStmt, h_assignmentStmtToAsgStmt, h_indexedIdentifierToAsgType, h_indexOperatorsLoop⟩ := ih
  unfold Oq3.Sema.expressionListToAsgType
  comm

set_option maxHeartbeats 4000000 in
theorem qubitListToAsgTexpr_comm_step (fuel : Nat) (ih : AllComm fuel) (ql : Option Ast.QubitList) :
    Comm id (Oq3.Sema.qubitListToAsgTexpr (fuel + 1) ql) (Oq3.Sema.qubitListToAsgTexpr (fuel + 1) (ql.map erQubitList)) := by
  obtain ⟨h_stmtToAsgStmt, h_caseExprsLoop, h_exprStmtToAsgStmt, h_modifiersLoop, h_parenExprToAsgTexpr, h_exprToAsgTexpr, h_setExpressionToAsgType, h_rangeExpressionToAsgType, h_gateCallExprToAsgStmt, h_callExprToAsgTexpr, h_gateOperandToAsgTexpr, h_indexOperatorToAsgType, h_expressionListToAsgType, h_qubitListToAsgTexpr, h_gateOperandsLoop, h_expressionListToAsgTexpr, h_exprsLoop, h_blockExprToAsgStmtList, h_stmtsLoop, h_blockExprToAsgType, h_blockOrStmtToAsgType, h_classicalDeclarationStatementToAsgStmt, h_assignmentStmtToAsgStmt, h_indexedIdentifierToAsgType, h_indexOperatorsLoop⟩ := ih
  unfold Oq3.Sema.qubitListToAsgTexpr
  comm

set_option maxHeartbeats 4000000 in
theorem gateOperandsLoop_comm_step (fuel : Nat) (ih : AllComm fuel) (gs : List Ast.GateOperand) :
    Comm id (Oq3.Sema.gateOperandsLoop (fuel + 1) gs) (Oq3.Sema.gateOperandsLoop (fuel + 1) (gs.map erGateOperand)) := by
  obtain ⟨h_stmtToAsgStmt, h_caseExprsLoop, h_exprStmtToAsgStmt, h_modifiersLoop, h_parenExprToAsgTexpr, h_exprToAsgTexpr, h_setExpressionToAsgType, h_rangeExpressionToAsgType, h_gateCallExprToAsgStmt, h_callExprToAsgTexpr, h_gateOperandToAsgTexpr, h_indexOperatorToAsgType, h_expressionListToAsgType, h_qubitListToAsgTexpr, h_gateOperandsLoop, h_expressionListToAsgTexpr, h_exprsLoop, h_blockExprToAsgStmtList, h_stmtsLoop, h_blockExprToAsgType, h_blockOrStmtToAsgType, h_classicalDeclarationStatementToAsgStmt, h_assignmentStmtToAsgStmt, h_indexedIdentifierToAsgType, h_indexOperatorsLoop⟩ := ih
  rcases gs with _ | ⟨x, rest⟩ <;> simp only [List.map_cons, List.map_nil] <;> (unfold Oq3.Sema.gateOperandsLoop; comm)

set_option maxHeartbeats 4000000 in
theorem expressionListToAsgTexpr_comm_step (fuel : Nat) (ih : AllComm fuel) (el : Ast.ExpressionList) :
    Comm id (Oq3.Sema.expressionListToAsgTexpr (fuel + 1) el) (Oq3.Sema.expressionListToAsgTexpr (fuel + 1) (erExprList el)) := by
  obtain ⟨h_stmtToAsgStmt, h_caseExprsLoop, h_exprStmtToAsgStmt, h_modifiersLoop, h_parenExprToAsgTexpr, h_exprToAsgTexpr, h_setExpressionToAsgType, h_rangeExpressionToAsgType, h_gateCallExprToAsgStmt, h_callExprToAsgTexpr, h_gateOperandToAsgTexpr, h_indexOperatorToAsgType, h_expressionListToAsgType, h_qubitListToAsgTexpr, h_gateOperandsLoop, h_expressionListToAsgTexpr, h_exprsLoop, h_blockExprToAsgStmtList, h_stmtsLoop, h_blockExprToAsgType, h_blockOrStmtToAsgType, h_classicalDeclarationStatementToAsgStmt, h_assignmentStmtToAsgStmt, h_indexedIdentifierToAsgType, h_indexOperatorsLoop⟩ := ih
  unfold Oq3.Sema.expressionListToAsgTexpr
  comm

set_option maxHeartbeats 4000000 in
theorem exprsLoop_comm_step (fuel : Nat) (ih : AllComm fuel) (es : List Ast.Expr) :
    Comm id (Oq3.Sema.exprsLoop (fuel + 1) es) (Oq3.Sema.exprsLoop (fuel + 1) (es.map erExpr)) := by
  obtain ⟨h_stmtToAsgStmt, h_caseExprsLoop, h_exprStmtToAsgStmt, h_modifiersLoop, h_parenExprToAsgTexpr, h_exprToAsgTexpr, h_setExpressionToAsgType, h_rangeExpressionToAsgType, h_gateCallExprToAsgStmt, h_callExprToAsgTexpr, h_gateOperandToAsgTexpr, h_indexOperatorToAsgType, h_expressionListToAsgType, h_qubitListToAsgTexpr, h_gateOperandsLoop, h_expressionListToAsgTexpr, h_exprsLoop, h_blockExprToAsgStmtList, h_stmtsLoop, h_blockExprToAsgType, h_blockOrStmtToAsgType, h_classicalDeclarationStatementToAsgStmt, h_assignmentStmtToAsgStmt, h_indexedIdentifierToAsgType, h_indexOperatorsLoop⟩ := ih
  rcases es with _ | ⟨x, rest⟩ <;> simp only [List.map_cons, List.map_nil] <;> (unfold Oq3.Sema.exprsLoop; comm)

set_option maxHeartbeats 4000000 in
theorem blockExprToAsgStmtList_comm_step (fuel : Nat) (ih : AllComm fuel) (b : Ast.BlockExpr) :
    Comm id (Oq3.Sema.blockExprToAsgStmtList (fuel + 1) b) (Oq3.Sema.blockExprToAsgStmtList (fuel + 1) (erBlock b)) := by
  obtain ⟨h_stmtToAsgStmt, h_caseExprsLoop, h_exprStmtToAsgStmt, h_modifiersLoop, h_parenExprToAsgTexpr, h_exprToAsgTexpr, h_setExpressionToAsgType, h_rangeExpressionToAsgType, h_gateCallExprToAsgStmt, h_callExprToAsgTexpr, h_gateOperandToAsgTexpr, h_indexOperatorToAsgType, h_expressionListToAsgType, h_qubitListToAsgTexpr, h_gateOperandsLoop, h_expressionListToAsgTexpr, h_exprsLoop, h_blockExprToAsgStmtList, h_stmtsLoop, h_blockExprToAsgType, h_blockOrStmtToAsgType, h_classicalDeclarationStatementToAsgStmt, h_assignmentStmtToAsgStmt, h_indexedIdentifierToAsgType, h_indexOperatorsLoop⟩ := ih
  unfold Oq3.Sema.blockExprToAsgStmtList
  comm

set_option maxHeartbeats 4000000 in
theorem stmtsLoop_comm_step (fuel : Nat) (ih : AllComm fuel) (ss : List Ast.Stmt) :
    Comm id (Oq3.Sema.stmtsLoop (fuel + 1) ss) (Oq3.Sema.stmtsLoop (fuel + 1) (ss.map erStmt)) := by
  obtain ⟨h_stmtToAsgStmt, h_caseExprsLoop, h_exprStmtToAsgStmt, h_modifiersLoop, h_parenExprToAsgTexpr, h_exprToAsgTexpr, h_setExpressionToAsgType, h_rangeExpressionToAsgType, h_gateCallExprToAsgStmt, h_callExprToAsgTexpr, h_gateOperandToAsgTexpr, h_indexOperatorToAsgType, h_expressionListToAsgType, h_qubitListToAsgTexpr, h_gateOperandsLoop, h_expressionListToAsgTexpr, h_exprsLoop, h_blockExprToAsgStmtList, h_stmtsLoop, h_blockExprToAsgType, h_blockOrStmtToAsgType, h_classicalDeclarationStatementToAsgStmt, h_assignmentStmtToAsgStmt, h_indexedIdentifierToAsgType, h_indexOperatorsLoop⟩ := ih
  rcases ss with _ | ⟨x, rest⟩ <;> simp only [List.map_cons, List.map_nil] <;> (unfold Oq3.Sema.stmtsLoop; comm)

set_option maxHeartbeats 4000000 in
theorem blockExprToAsgType_comm_step (fuel : Nat) (ih : AllComm fuel) (b : Ast.BlockExpr) :
    Comm id (Oq3.Sema.blockExprToAsgType (fuel + 1) b) (Oq3.Sema.blockExprToAsgType (fuel + 1) (erBlock b)) := by
  obtain ⟨h_stmtToAsgStmt, h_caseExprsLoop, h_exprStmtToAsgStmt, h_modifiersLoop, h_parenExprToAsgTexpr, h_exprToAsgTexpr, h_setExpressionToAsgType, h_rangeExpressionToAsgType, h_gateCallExprToAsgStmt, h_callExprToAsgTexpr, h_gateOperandToAsgTexpr, h_indexOperatorToAsgType, h_expressionListToAsgType, h_qubitListToAsgTexpr, h_gateOperandsLoop, h_expressionListToAsgTexpr, h_exprsLoop, h_blockExprToAsgStmtList, h_stmtsLoop, h_blockExprToAsgType, h_blockOrStmtToAsgType, h_classicalDeclarationStatementToAsgStmt, h_assignmentStmtToAsgStmt, h_indexedIdentifierToAsgType, h_indexOperatorsLoop⟩ := ih
  unfold Oq3.Sema.blockExprToAsgType
  comm

set_option maxHeartbeats 4000000 in
theorem blockOrStmtToAsgType_comm_step (fuel : Nat) (ih : AllComm fuel) (b : Ast.BlockOrStmt) :
    Comm id (Oq3.Sema.blockOrStmtToAsgType (fuel + 1) b) (Oq3.Sema.blockOrStmtToAsgType (fuel + 1) (erBos b)) := by
  obtain ⟨h_stmtToAsgStmt, h_caseExprsLoop, h_exprStmtToAsgStmt, h_modifiersLoop, h_parenExprToAsgTexpr, h_exprToAsgTexpr, h_setExpressionToAsgType, h_rangeExpressionToAsgType, h_gateCallExprToAsgStmt, h_callExprToAsgTexpr, h_gateOperandToAsgTexpr, h_indexOperatorToAsgType, h_expressionListToAsgType, h_qubitListToAsgTexpr, h_gateOperandsLoop, h_expressionListToAsgTexpr, h_exprsLoop, h_blockExprToAsgStmtList, h_stmtsLoop, h_blockExprToAsgType, h_blockOrStmtToAsgType, h_classicalDeclarationStatementToAsgStmt, h_assignmentStmtToAsgStmt, h_indexedIdentifierToAsgType, h_indexOperatorsLoop⟩ := ih
  unfold Oq3.Sema.blockOrStmtToAsgType
  comm

set_option maxHeartbeats 4000000 in
theorem classicalDeclarationStatementToAsgStmt_comm_step (fuel : Nat) (ih : AllComm fuel) (sp : Ast.Span) (a : Bool) (st : Option Ast.ScalarType) (k : Bool) (n : Option Ast.Name) (e : Option Ast.Expr) :
    Comm id (Oq3.Sema.classicalDeclarationStatementToAsgStmt (fuel + 1) sp a st k n e) (Oq3.Sema.classicalDeclarationStatementToAsgStmt (fuel + 1) z a (st.map erScalarType) k (n.map erName) (e.map erExpr)) := by
  obtain ⟨h_stmtToAsgStmt, h_caseExprsLoop, h_exprStmtToAsgStmt, h_modifiersLoop, h_parenExprToAsgTexpr, h_exprToAsgTexpr, h_setExpressionToAsgType, h_rangeExpressionToAsgType, h_gateCallExprToAsgStmt, h_callExprToAsgTexpr, h_gateOperandToAsgTexpr, h_indexOperatorToAsgType, h_expressionListToAsgType, h_qubitListToAsgTexpr, h_gateOperandsLoop, h_expressionListToAsgTexpr, h_exprsLoop, h_blockExprToAsgStmtList, h_stmtsLoop, h_blockExprToAsgType, h_blockOrStmtToAsgType, h_classicalDeclarationStatementToAsgStmt, h_assignmentStmtToAsgStmt, h_indexedIdentifierToAsgType, h_indexOperatorsLoop⟩ := ih
  unfold Oq3.Sema.classicalDeclarationStatementToAsgStmt
  comm

set_option maxHeartbeats 4000000 in
theorem assignmentStmtToAsgStmt_comm_step (fuel : Nat) (ih : AllComm fuel) (sp : Ast.Span) (i : Option Ast.Identifier) (rhs : Option Ast.Expr) (ii : Option Ast.IndexedIdentifier) :
    Comm id (Oq3.Sema.assignmentStmtToAsgStmt (fuel + 1) sp i rhs ii) (Oq3.Sema.assignmentStmtToAsgStmt (fuel + 1) z (i.map erIdent) (rhs.map erExpr) (ii.map erIndexedIdent)) := by
  obtain ⟨h_stmtToAsgStmt, h_caseExprsLoop, h_exprStmtToAsgStmt, h_modifiersLoop, h_parenExprToAsgTexpr, h_exprToAsgTexpr, h_setExpressionToAsgType, h_rangeExpressionToAsgType, h_gateCallExprToAsgStmt, h_callExprToAsgTexpr, h_gateOperandToAsgTexpr, h_indexOperatorToAsgType, h_expressionListToAsgType, h_qubitListToAsgTexpr, h_gateOperandsLoop, h_expressionListToAsgTexpr, h_exprsLoop, h_blockExprToAsgStmtList, h_stmtsLoop, h_blockExprToAsgType, h_blockOrStmtToAsgType, h_classicalDeclarationStatementToAsgStmt, h_assignmentStmtToAsgStmt, h_indexedIdentifierToAsgType, h_indexOperatorsLoop⟩ := ih
  unfold Oq3.Sema.assignmentStmtToAsgStmt
  comm

set_option maxHeartbeats 4000000 in
theorem indexedIdentifierToAsgType_comm_step (fuel : Nat) (ih : AllComm fuel) (ii : Ast.IndexedIdentifier) :
    Comm id (Oq3.Sema.indexedIdentifierToAsgType (fuel + 1) ii) (Oq3.Sema.indexedIdentifierToAsgType (fuel + 1) (erIndexedIdent ii)) := by
  obtain ⟨h_stmtToAsgStmt, h_caseExprsLoop, h_exprStmtToAsgStmt, h_modifiersLoop, h_parenExprToAsgTexpr, h_exprToAsgTexpr, h_setExpressionToAsgType, h_rangeExpressionToAsgType, h_gateCallExprToAsgStmt, h_callExprToAsgTexpr, h_gateOperandToAsgTexpr, h_indexOperatorToAsgType, h_expressionListToAsgType, h_qubitListToAsgTexpr, h_gateOperandsLoop, h_expressionListToAsgTexpr, h_exprsLoop, h_blockExprToAsgStmtList, h_stmtsLoop, h_blockExprToAsgType, h_blockOrStmtToAsgType, h_classicalDeclarationStatementToAsgStmt, h_assignmentStmtToAsgStmt, h_indexedIdentifierToAsgType, h_indexOperatorsLoop⟩ := ih
  unfold Oq3.Sema.indexedIdentifierToAsgType
  comm

set_option maxHeartbeats 4000000 in
theorem indexOperatorsLoop_comm_step (fuel : Nat) (ih : AllComm fuel) (ixs : List Ast.IndexOperator) :
    Comm id (Oq3.Sema.indexOperatorsLoop (fuel + 1) ixs) (Oq3.Sema.indexOperatorsLoop (fuel + 1) (ixs.map erIndexOp)) := by
  obtain ⟨h_stmtToAsgStmt, h_caseExprsLoop, h_exprStmtToAsgStmt, h_modifiersLoop, h_parenExprToAsgTexpr, h_exprToAsgTexpr, h_setExpressionToAsgType, h_rangeExpressionToAsgType, h_gateCallExprToAsgStmt, h_callExprToAsgTexpr, h_gateOperandToAsgTexpr, h_indexOperatorToAsgType, h_expressionListToAsgType, h_qubitListToAsgTexpr, h_gateOperandsLoop, h_expressionListToAsgTexpr, h_exprsLoop, h_blockExprToAsgStmtList, h_stmtsLoop, h_blockExprToAsgType, h_blockOrStmtToAsgType, h_classicalDeclarationStatementToAsgStmt, h_assignmentStmtToAsgStmt, h_indexedIdentifierToAsgType, h_indexOperatorsLoop⟩ := ih
  rcases ixs with _ | ⟨x, rest⟩ <;> simp only [List.map_cons, List.map_nil] <;> (unfold Oq3.Sema.indexOperatorsLoop; comm)

theorem allComm (fuel : Nat) : AllComm fuel := by
  induction fuel with
  | zero =>
    constructor
    · intros; unfold Oq3.Sema.stmtToAsgStmt; comm
    · intros; unfold Oq3.Sema.caseExprsLoop; comm
    · intros; unfold Oq3.Sema.exprStmtToAsgStmt; comm
    · intros; unfold Oq3.Sema.modifiersLoop; comm
    · intros; unfold Oq3.Sema.parenExprToAsgTexpr; comm
    · intros; unfold Oq3.Sema.exprToAsgTexpr; comm
    · intros; unfold Oq3.Sema.setExpressionToAsgType; comm
    · intros; unfold Oq3.Sema.rangeExpressionToAsgType; comm
    · intros; unfold Oq3.Sema.gateCallExprToAsgStmt; comm
    · intros; unfold Oq3.Sema.callExprToAsgTexpr; comm
    · intros; unfold Oq3.Sema.gateOperandToAsgTexpr; comm
    · intros; unfold Oq3.Sema.indexOperatorToAsgType; comm
    · intros; unfold Oq3.Sema.expressionListToAsgType; comm
    · intros; unfold Oq3.Sema.qubitListToAsgTexpr; comm
    · intros; unfold Oq3.Sema.gateOperandsLoop; comm
    · intros; unfold Oq3.Sema.expressionListToAsgTexpr; comm
    · intros; unfold Oq3.Sema.exprsLoop; comm
    · intros; unfold Oq3.Sema.blockExprToAsgStmtList; comm
    · intros; unfold Oq3.Sema.stmtsLoop; comm
    · intros; unfold Oq3.Sema.blockExprToAsgType; comm
    · intros; unfold Oq3.Sema.blockOrStmtToAsgType; comm
    · intros; unfold Oq3.Sema.classicalDeclarationStatementToAsgStmt; comm
    · intros; unfold Oq3.Sema.assignmentStmtToAsgStmt; comm
    · intros; unfold Oq3.Sema.indexedIdentifierToAsgType; comm
    · intros; unfold Oq3.Sema.indexOperatorsLoop; comm
  | succ fuel ih =>
    constructor
    · intros; exact stmtToAsgStmt_comm_step fuel ih _
    · intros; exact caseExprsLoop_comm_step fuel ih _
    · intros; exact exprStmtToAsgStmt_comm_step fuel ih _
    · intros; exact modifiersLoop_comm_step fuel ih _
    · intros; exact parenExprToAsgTexpr_comm_step fuel ih _
    · intros; exact exprToAsgTexpr_comm_step fuel ih _
    · intros; exact setExpressionToAsgType_comm_step fuel ih _
    · intros; exact rangeExpressionToAsgType_comm_step fuel ih _
    · intros; exact gateCallExprToAsgStmt_comm_step fuel ih _ _
    · intros; exact callExprToAsgTexpr_comm_step fuel ih _ _ _
    · intros; exact gateOperandToAsgTexpr_comm_step fuel ih _
    · intros; exact indexOperatorToAsgType_comm_step fuel ih _
    · intros; exact expressionListToAsgType_comm_step fuel ih _
    · intros; exact qubitListToAsgTexpr_comm_step fuel ih _
    · intros; exact gateOperandsLoop_comm_step fuel ih _
    · intros; exact expressionListToAsgTexpr_comm_step fuel ih _
    · intros; exact exprsLoop_comm_step fuel ih _
    · intros; exact blockExprToAsgStmtList_comm_step fuel ih _
    · intros; exact stmtsLoop_comm_step fuel ih _
    · intros; exact blockExprToAsgType_comm_step fuel ih _
    · intros; exact blockOrStmtToAsgType_comm_step fuel ih _
    · intros; exact classicalDeclarationStatementToAsgStmt_comm_step fuel ih _ _ _ _ _ _
    · intros; exact assignmentStmtToAsgStmt_comm_step fuel ih _ _ _ _
    · intros; exact indexedIdentifierToAsgType_comm_step fuel ih _
    · intros; exact indexOperatorsLoop_comm_step fuel ih _


/-! ### the whole analysis, erased -/

theorem attachM_comm (o : Option Stmt) : Comm id (attachM o) (attachM o) := by
  unfold attachM; comm

theorem topStmtM_comm (fuel : Nat) (s : Ast.Stmt) : Comm id (topStmtM fuel s) (topStmtM fuel (erStmt s)) := by
  have h := (allComm fuel).stmtToAsgStmt
  cases s
  case includeStmt sp file =>
    simp only [erStmt]
    unfold topStmtM
    refine Comm.bind (Comm.unwrap erFilePath _ _) fun f => ?_
    simp only [erFilePath_toString]
    refine Comm.bind (Comm.unwrap_id _ _) fun fp => ?_
    dsimp only [id_eq]
    by_cases hc : (fp == "stdgates.inc") = true
    · simp only [hc, if_true]
      exact Comm.bind (standardLibraryGates_comm sp) fun _ => Comm.pure rfl
    · simp only [hc, if_false]
      exact Comm.throw_bind _
  all_goals (simp only [topStmtM, erStmt]; first | exact h _ | exact Comm.of_eq (h _) (by simp only [erStmt]))

/-- erasing all text ranges of the program commutes with the statement loop -/
theorem loop_comm (fuel : Nat) (ss : List Ast.Stmt) :
    Comm id (syntaxToSemanticLoop fuel ss) (syntaxToSemanticLoop fuel (ss.map erStmt)) := by
  induction ss generalizing fuel with
  | nil =>
    cases fuel with
    | zero => unfold syntaxToSemanticLoop; exact Comm.throw _
    | succ fuel => simp only [List.map_nil]; unfold syntaxToSemanticLoop; exact Comm.pure rfl
  | cons s rest ih =>
    cases fuel with
    | zero => unfold syntaxToSemanticLoop; exact Comm.throw _
    | succ fuel =>
      simp only [List.map_cons, topLoop_cons_eq]
      exact Comm.bind (topStmtM_comm fuel s) fun o => Comm.bind (attachM_comm o) fun _ => ih fuel

theorem parseIncludedFiles_comm (ss : List Ast.Stmt) :
    Comm id (parseIncludedFiles ss) (parseIncludedFiles (ss.map erStmt)) := by
  induction ss with
  | nil => simp only [List.map_nil]; unfold parseIncludedFiles; exact Comm.pure rfl
  | cons s rest ih =>
    cases s <;> simp only [List.map_cons, erStmt, parseIncludedFiles] <;> first | exact ih | skip
    comm

theorem syntaxToSemantic_comm (fuel : Nat) (p : Ast.Program) :
    Comm id (syntaxToSemantic fuel p) (syntaxToSemantic fuel (eraseSpans p)) := by
  unfold syntaxToSemantic eraseSpans
  simp only [erStmts_eq]
  have h1 := parseIncludedFiles_comm p.statements
  have h2 := loop_comm fuel p.statements
  comm

theorem erCtx_empty : erCtx {} = {} := rfl

/-- the analysis of the span-erased program is the analysis of the program with the positions of
the diagnostics erased: same outcome (normal return or the same panic), same graph, same symbol
table, same constant values, same pending annotations, same diagnostic kinds in the same order -/
theorem analyze_eraseSpans (fuel : Nat) (p : Ast.Program) :
    analyzeWith fuel (eraseSpans p) = (analyzeWith fuel p).map erCtx := by
  unfold analyzeWith
  have h := (syntaxToSemantic_comm fuel p).run {}
  rw [erCtx_empty] at h
  simp only [StateT.run]
  rw [h]
  cases syntaxToSemantic fuel p {} with
  | error e => rfl
  | ok r => rfl

/-- **span irrelevance**: two typed ASTs that differ only in text ranges are analysed alike — the
results are equal up to the positions stored in the diagnostics (and both panic alike).  This is
the semantic-layer half of layout invariance: a re-layout changes nothing in the AST but ranges. -/
theorem span_irrelevant (fuel : Nat) {p p' : Ast.Program} (h : eraseSpans p = eraseSpans p') :
    (analyzeWith fuel p).map erCtx = (analyzeWith fuel p').map erCtx := by
  rw [← analyze_eraseSpans, ← analyze_eraseSpans, h]

/-- in particular the graph, the symbols and the kinds of the diagnostics agree -/
theorem span_irrelevant_ok (fuel : Nat) {p p' : Ast.Program} (h : eraseSpans p = eraseSpans p') {c : Ctx}
    (hc : analyzeWith fuel p = .ok c) :
    ∃ c', analyzeWith fuel p' = .ok c' ∧ c'.program = c.program ∧ c'.symbolTable = c.symbolTable ∧
      c'.semanticErrors.map (·.kind) = c.semanticErrors.map (·.kind) := by
  have e := span_irrelevant fuel h
  rw [hc] at e
  cases h' : analyzeWith fuel p' with
  | error x => rw [h'] at e; cases e
  | ok c' =>
    rw [h'] at e
    simp only [Except.map, Except.ok.injEq] at e
    refine ⟨c', rfl, ?_, ?_, ?_⟩
    · have := congrArg Ctx.program e; simpa [erCtx] using this.symm
    · have := congrArg Ctx.symbolTable e; simpa [erCtx] using this.symm
    · have := congrArg (fun c => c.semanticErrors.map (·.kind)) e
      simpa [erCtx, erErr, Function.comp_def] using this.symm


end Oq3.C17
