/-
C18, auxiliary — fuel monotonicity of the semantic pass.

`Le x y`: every successful run of `x` is a run of `y` with the same result.  For each of the
twenty-five functions `f` of the mutual block of `Sema.lean`: `Le (f fuel a) (f (fuel + 1) a)`
(`allMono`, one `_mono` lemma per function by a proof script that walks the two bodies — which
differ only in the fuel passed to the recursive calls — in lock step, then induction on fuel);
hence `f fuel a c = .ok r → fuel ≤ fuel' → f fuel' a c = .ok r` (`stmtToAsgStmt_mono`,
`syntaxToSemanticLoop_mono`).

GENERATED proof script (list of functions and binders only; the proofs are checked by Lean).
-/
import Lean
import Oq3.Props.C18Frame

namespace Oq3.C18E
open Oq3 Oq3.Types Oq3.Symbols Oq3.Sema

/-- every successful run of `x` is a run of `y`, with the same result and final context -/
structure Le {α} (x y : M α) : Prop where
  run : ∀ c r, x c = .ok r → y c = .ok r

theorem Le.refl {α} (x : M α) : Le x x := ⟨fun _ _ h => h⟩

theorem Le.trans {α} {x y z : M α} (h1 : Le x y) (h2 : Le y z) : Le x z :=
  ⟨fun c r h => h2.run c r (h1.run c r h)⟩

theorem Le.bind {α β} {x y : M α} {f g : α → M β} (hx : Le x y) (hf : ∀ a, Le (f a) (g a)) :
    Le (x >>= f) (y >>= g) := by
  refine ⟨fun c r h => ?_⟩
  rw [bind_run] at h ⊢
  cases hxc : x c with
  | error e => rw [hxc] at h; cases h
  | ok p =>
    obtain ⟨a, c1⟩ := p
    rw [hxc] at h
    rw [hx.run c _ hxc]
    exact (hf a).run c1 r h

theorem Le.throw_left {α} (o : Outcome) (y : M α) : Le (throw o : M α) y :=
  ⟨fun c r h => by cases h⟩

theorem Le.fail_left {α} (site : String) (y : M α) : Le (Sema.fail site : M α) y :=
  ⟨fun c r h => by cases h⟩

theorem Le.withScope {α} (k : ScopeType) {b1 b2 : M α} (h : Le b1 b2) :
    Le (Sema.withScope k b1) (Sema.withScope k b2) := by
  unfold Sema.withScope
  exact Le.bind (Le.refl _) (fun _ => Le.bind h (fun _ => Le.refl _))

open Lean Elab Tactic Meta in
/-- the two programs of a goal `Le x y` -/
def leProgs (g : MVarId) : MetaM (Option (Lean.Expr × Lean.Expr)) := do
  let t ← instantiateMVars (← g.getType)
  let t := t.consumeMData
  if t.isAppOfArity ``Le 3 then
    return some ((t.getArg! 1).consumeMData, (t.getArg! 2).consumeMData)
  else return none

open Lean Elab Tactic Meta in
/-- the two programs are syntactically the same (no recursive call inside) -/
elab "le_same" : tactic => withMainContext do
  match ← leProgs (← getMainGoal) with
  | some (x, y) => if x == y then pure () else throwError "different"
  | none => throwError "not a Le goal"

open Lean Elab Tactic Meta in
elab "le_head " id:ident : tactic => withMainContext do
  let n ← realizeGlobalConstNoOverloadWithInfo id
  match ← leProgs (← getMainGoal) with
  | some (x, _) =>
    match x.getAppFn.consumeMData with
    | Lean.Expr.const m _ => if m == n then pure () else throwError "head"
    | _ => throwError "head"
  | none => throwError "not a Le goal"

open Lean Elab Tactic Meta in
def isSplitHead (x : Lean.Expr) : MetaM Bool := do
  match x.getAppFn.consumeMData with
  | Lean.Expr.const m _ =>
    if m == ``ite || m == ``dite then return true
    else return (← isMatcher m)
  | _ => return false

open Lean Elab Tactic Meta in
elab "le_is_split" : tactic => withMainContext do
  match ← leProgs (← getMainGoal) with
  | some (x, _) => if ← isSplitHead x then pure () else throwError "not a split"
  | none => throwError "not a Le goal"

open Lean Elab Tactic Meta in
elab "le_is_split_right" : tactic => withMainContext do
  match ← leProgs (← getMainGoal) with
  | some (_, y) => if ← isSplitHead y then pure () else throwError "not a split"
  | none => throwError "not a Le goal"

open Lean Elab Tactic Meta in
/-- close the goal from a hypothesis `∀ xs, a = b → False` whose equation holds by `rfl`
(a branch of a `match` excluded by an earlier pattern) -/
elab "le_absurd" : tactic => withMainContext do
  let g ← getMainGoal
  for ldecl in ← getLCtx do
    if ldecl.isImplementationDetail then continue
    let t ← instantiateMVars ldecl.type
    if !t.isForall then continue
    let ok ← commitWhen do
      let (args, _, body) ← forallMetaTelescopeReducing t
      if !(body.isConstOf ``False) || args.size == 0 then return false
      let last := args.back!
      let lt ← instantiateMVars (← inferType last)
      match lt.eq? with
      | some (_, a, b) =>
        if ← isDefEq a b then
          last.mvarId!.assign (← mkEqRefl a)
          let prf := mkAppN ldecl.toExpr args
          let prf ← instantiateMVars prf
          if prf.hasExprMVar then return false
          g.assign (← mkFalseElim (← g.getType) prf)
          return true
        else return false
      | none => return false
    if ok then
      replaceMainGoal []
      return
  throwError "no absurd hypothesis"

syntax "le_lemma" : tactic
macro_rules | `(tactic| le_lemma) => `(tactic| fail "no lemma")
syntax "le_ih" : tactic
macro_rules | `(tactic| le_ih) => `(tactic| fail "no ih")

macro "le_step" : tactic => `(tactic| first
  | (cases ‹_ + 1 = Nat.succ _›)
  | (exact absurd ‹_ + 1 = 0› (Nat.succ_ne_zero _))
  | le_absurd
  | (le_same; exact Le.refl _)
  | (le_head throw; exact Le.throw_left _ _)
  | (le_head Sema.fail; exact Le.fail_left _ _)
  | (le_head Sema.withScope; with_reducible apply Le.withScope)
  | le_lemma
  | le_ih
  | (le_head Bind.bind; with_reducible apply Le.bind)
  | intro _
  | dsimp only
  | (le_is_split; split)
  | (le_is_split_right; split))

macro "le" : tactic => `(tactic| repeat' le_step)

/-- all twenty-five functions of the mutual block: one more unit of fuel changes nothing -/
structure AllMono (fuel : Nat) : Prop where
  stmtToAsgStmt : ∀ (st : Ast.Stmt), Le (Sema.stmtToAsgStmt fuel st) (Sema.stmtToAsgStmt (fuel + 1) st)
  caseExprsLoop : ∀ (cs : List Ast.CaseExpr), Le (Sema.caseExprsLoop fuel cs) (Sema.caseExprsLoop (fuel + 1) cs)
  exprStmtToAsgStmt : ∀ (e : Option Ast.Expr), Le (Sema.exprStmtToAsgStmt fuel e) (Sema.exprStmtToAsgStmt (fuel + 1) e)
  modifiersLoop : ∀ (ms : List Ast.Modifier), Le (Sema.modifiersLoop fuel ms) (Sema.modifiersLoop (fuel + 1) ms)
  parenExprToAsgTexpr : ∀ (p : Ast.ParenExpr), Le (Sema.parenExprToAsgTexpr fuel p) (Sema.parenExprToAsgTexpr (fuel + 1) p)
  exprToAsgTexpr : ∀ (e : Option Ast.Expr), Le (Sema.exprToAsgTexpr fuel e) (Sema.exprToAsgTexpr (fuel + 1) e)
  setExpressionToAsgType : ∀ (se : Ast.SetExpression), Le (Sema.setExpressionToAsgType fuel se) (Sema.setExpressionToAsgType (fuel + 1) se)
  rangeExpressionToAsgType : ∀ (r : Ast.RangeExpr), Le (Sema.rangeExpressionToAsgType fuel r) (Sema.rangeExpressionToAsgType (fuel + 1) r)
  gateCallExprToAsgStmt : ∀ (gc : Ast.GateCallExpr) (mods : List GateModifier), Le (Sema.gateCallExprToAsgStmt fuel gc mods) (Sema.gateCallExprToAsgStmt (fuel + 1) gc mods)
  callExprToAsgTexpr : ∀ (sp : Ast.Span) (al : Option Ast.ArgList) (i : Option Ast.Identifier), Le (Sema.callExprToAsgTexpr fuel sp al i) (Sema.callExprToAsgTexpr (fuel + 1) sp al i)
  gateOperandToAsgTexpr : ∀ (g : Ast.GateOperand), Le (Sema.gateOperandToAsgTexpr fuel g) (Sema.gateOperandToAsgTexpr (fuel + 1) g)
  indexOperatorToAsgType : ∀ (ix : Ast.IndexOperator), Le (Sema.indexOperatorToAsgType fuel ix) (Sema.indexOperatorToAsgType (fuel + 1) ix)
  expressionListToAsgType : ∀ (el : Ast.ExpressionList), Le (Sema.expressionListToAsgType fuel el) (Sema.expressionListToAsgType (fuel + 1) el)
  qubitListToAsgTexpr : ∀ (ql : Option Ast.QubitList), Le (Sema.qubitListToAsgTexpr fuel ql) (Sema.qubitListToAsgTexpr (fuel + 1) ql)
  gateOperandsLoop : ∀ (gs : List Ast.GateOperand), Le (Sema.gateOperandsLoop fuel gs) (Sema.gateOperandsLoop (fuel + 1) gs)
  expressionListToAsgTexpr : ∀ (el : Ast.ExpressionList), Le (Sema.expressionListToAsgTexpr fuel el) (Sema.expressionListToAsgTexpr (fuel + 1) el)
  exprsLoop : ∀ (es : List Ast.Expr), Le (Sema.exprsLoop fuel es) (Sema.exprsLoop (fuel + 1) es)
  blockExprToAsgStmtList : ∀ (b : Ast.BlockExpr), Le (Sema.blockExprToAsgStmtList fuel b) (Sema.blockExprToAsgStmtList (fuel + 1) b)
  stmtsLoop : ∀ (ss : List Ast.Stmt), Le (Sema.stmtsLoop fuel ss) (Sema.stmtsLoop (fuel + 1) ss)
  blockExprToAsgType : ∀ (b : Ast.BlockExpr), Le (Sema.blockExprToAsgType fuel b) (Sema.blockExprToAsgType (fuel + 1) b)
  blockOrStmtToAsgType : ∀ (b : Ast.BlockOrStmt), Le (Sema.blockOrStmtToAsgType fuel b) (Sema.blockOrStmtToAsgType (fuel + 1) b)
  classicalDeclarationStatementToAsgStmt : ∀ (sp : Ast.Span) (arr : Bool) (st : Option Ast.ScalarType) (ct : Bool) (n : Option Ast.Name) (e : Option Ast.Expr), Le (Sema.classicalDeclarationStatementToAsgStmt fuel sp arr st ct n e) (Sema.classicalDeclarationStatementToAsgStmt (fuel + 1) sp arr st ct n e)
  assignmentStmtToAsgStmt : ∀ (sp : Ast.Span) (i : Option Ast.Identifier) (rhs : Option Ast.Expr) (ii : Option Ast.IndexedIdentifier), Le (Sema.assignmentStmtToAsgStmt fuel sp i rhs ii) (Sema.assignmentStmtToAsgStmt (fuel + 1) sp i rhs ii)
  indexedIdentifierToAsgType : ∀ (ii : Ast.IndexedIdentifier), Le (Sema.indexedIdentifierToAsgType fuel ii) (Sema.indexedIdentifierToAsgType (fuel + 1) ii)
  indexOperatorsLoop : ∀ (ixs : List Ast.IndexOperator), Le (Sema.indexOperatorsLoop fuel ixs) (Sema.indexOperatorsLoop (fuel + 1) ixs)

set_option hygiene false in
macro_rules | `(tactic| le_ih) => `(tactic| first
  | (le_head Sema.stmtToAsgStmt; exact m_stmtToAsgStmt _)
  | (le_head Sema.caseExprsLoop; exact m_caseExprsLoop _)
  | (le_head Sema.exprStmtToAsgStmt; exact m_exprStmtToAsgStmt _)
  | (le_head Sema.modifiersLoop; exact m_modifiersLoop _)
  | (le_head Sema.parenExprToAsgTexpr; exact m_parenExprToAsgTexpr _)
  | (le_head Sema.exprToAsgTexpr; exact m_exprToAsgTexpr _)
  | (le_head Sema.setExpressionToAsgType; exact m_setExpressionToAsgType _)
  | (le_head Sema.rangeExpressionToAsgType; exact m_rangeExpressionToAsgType _)
  | (le_head Sema.gateCallExprToAsgStmt; exact m_gateCallExprToAsgStmt _ _)
  | (le_head Sema.callExprToAsgTexpr; exact m_callExprToAsgTexpr _ _ _)
  | (le_head Sema.gateOperandToAsgTexpr; exact m_gateOperandToAsgTexpr _)
  | (le_head Sema.indexOperatorToAsgType; exact m_indexOperatorToAsgType _)
  | (le_head Sema.expressionListToAsgType; exact m_expressionListToAsgType _)
  | (le_head Sema.qubitListToAsgTexpr; exact m_qubitListToAsgTexpr _)
  | (le_head Sema.gateOperandsLoop; exact m_gateOperandsLoop _)
  | (le_head Sema.expressionListToAsgTexpr; exact m_expressionListToAsgTexpr _)
  | (le_head Sema.exprsLoop; exact m_exprsLoop _)
  | (le_head Sema.blockExprToAsgStmtList; exact m_blockExprToAsgStmtList _)
  | (le_head Sema.stmtsLoop; exact m_stmtsLoop _)
  | (le_head Sema.blockExprToAsgType; exact m_blockExprToAsgType _)
  | (le_head Sema.blockOrStmtToAsgType; exact m_blockOrStmtToAsgType _)
  | (le_head Sema.classicalDeclarationStatementToAsgStmt; exact m_classicalDeclarationStatementToAsgStmt _ _ _ _ _ _)
  | (le_head Sema.assignmentStmtToAsgStmt; exact m_assignmentStmtToAsgStmt _ _ _ _)
  | (le_head Sema.indexedIdentifierToAsgType; exact m_indexedIdentifierToAsgType _)
  | (le_head Sema.indexOperatorsLoop; exact m_indexOperatorsLoop _))

set_option maxHeartbeats 1600000 in
theorem stmtToAsgStmt_mono (fuel : Nat) (ih : AllMono fuel) (st : Ast.Stmt) :
    Le (Sema.stmtToAsgStmt (fuel + 1) st) (Sema.stmtToAsgStmt (fuel + 1 + 1) st) := by
  obtain ⟨m_stmtToAsgStmt, m_caseExprsLoop, m_exprStmtToAsgStmt, m_modifiersLoop, m_parenExprToAsgTexpr, m_exprToAsgTexpr, m_setExpressionToAsgType, m_rangeExpressionToAsgType, m_gateCallExprToAsgStmt, m_callExprToAsgTexpr, m_gateOperandToAsgTexpr, m_indexOperatorToAsgType, m_expressionListToAsgType, m_qubitListToAsgTexpr, m_gateOperandsLoop, m_expressionListToAsgTexpr, m_exprsLoop, m_blockExprToAsgStmtList, m_stmtsLoop, m_blockExprToAsgType, m_blockOrStmtToAsgType, m_classicalDeclarationStatementToAsgStmt, m_assignmentStmtToAsgStmt, m_indexedIdentifierToAsgType, m_indexOperatorsLoop⟩ := ih
  unfold Sema.stmtToAsgStmt; le

set_option maxHeartbeats 1600000 in
theorem caseExprsLoop_mono (fuel : Nat) (ih : AllMono fuel) (cs : List Ast.CaseExpr) :
    Le (Sema.caseExprsLoop (fuel + 1) cs) (Sema.caseExprsLoop (fuel + 1 + 1) cs) := by
  obtain ⟨m_stmtToAsgStmt, m_caseExprsLoop, m_exprStmtToAsgStmt, m_modifiersLoop, m_parenExprToAsgTexpr, m_exprToAsgTexpr, m_setExpressionToAsgType, m_rangeExpressionToAsgType, m_gateCallExprToAsgStmt, m_callExprToAsgTexpr, m_gateOperandToAsgTexpr, m_indexOperatorToAsgType, m_expressionListToAsgType, m_qubitListToAsgTexpr, m_gateOperandsLoop, m_expressionListToAsgTexpr, m_exprsLoop, m_blockExprToAsgStmtList, m_stmtsLoop, m_blockExprToAsgType, m_blockOrStmtToAsgType, m_classicalDeclarationStatementToAsgStmt, m_assignmentStmtToAsgStmt, m_indexedIdentifierToAsgType, m_indexOperatorsLoop⟩ := ih
  unfold Sema.caseExprsLoop; le

set_option maxHeartbeats 1600000 in
theorem exprStmtToAsgStmt_mono (fuel : Nat) (ih : AllMono fuel) (e : Option Ast.Expr) :
    Le (Sema.exprStmtToAsgStmt (fuel + 1) e) (Sema.exprStmtToAsgStmt (fuel + 1 + 1) e) := by
  obtain ⟨m_stmtToAsgStmt, m_caseExprsLoop, m_exprStmtToAsgStmt, m_modifiersLoop, m_parenExprToAsgTexpr, m_exprToAsgTexpr, m_setExpressionToAsgType, m_rangeExpressionToAsgType, m_gateCallExprToAsgStmt, m_callExprToAsgTexpr, m_gateOperandToAsgTexpr, m_indexOperatorToAsgType, m_expressionListToAsgType, m_qubitListToAsgTexpr, m_gateOperandsLoop, m_expressionListToAsgTexpr, m_exprsLoop, m_blockExprToAsgStmtList, m_stmtsLoop, m_blockExprToAsgType, m_blockOrStmtToAsgType, m_classicalDeclarationStatementToAsgStmt, m_assignmentStmtToAsgStmt, m_indexedIdentifierToAsgType, m_indexOperatorsLoop⟩ := ih
  unfold Sema.exprStmtToAsgStmt; le

set_option maxHeartbeats 1600000 in
theorem modifiersLoop_mono (fuel : Nat) (ih : AllMono fuel) (ms : List Ast.Modifier) :
    Le (Sema.modifiersLoop (fuel + 1) ms) (Sema.modifiersLoop (fuel + 1 + 1) ms) := by
  obtain ⟨m_stmtToAsgStmt, m_caseExprsLoop, m_exprStmtToAsgStmt, m_modifiersLoop, m_parenExprToAsgTexpr, m_exprToAsgTexpr, m_setExpressionToAsgType, m_rangeExpressionToAsgType, m_gateCallExprToAsgStmt, m_callExprToAsgTexpr, m_gateOperandToAsgTexpr, m_indexOperatorToAsgType, m_expressionListToAsgType, m_qubitListToAsgTexpr, m_gateOperandsLoop, m_expressionListToAsgTexpr, m_exprsLoop, m_blockExprToAsgStmtList, m_stmtsLoop, m_blockExprToAsgType, m_blockOrStmtToAsgType, m_classicalDeclarationStatementToAsgStmt, m_assignmentStmtToAsgStmt, m_indexedIdentifierToAsgType, m_indexOperatorsLoop⟩ := ih
  unfold Sema.modifiersLoop; le

set_option maxHeartbeats 1600000 in
theorem parenExprToAsgTexpr_mono (fuel : Nat) (ih : AllMono fuel) (p : Ast.ParenExpr) :
    Le (Sema.parenExprToAsgTexpr (fuel + 1) p) (Sema.parenExprToAsgTexpr (fuel + 1 + 1) p) := by
  obtain ⟨m_stmtToAsgStmt, m_caseExprsLoop, m_exprStmtToAsgStmt, m_modifiersLoop, m_parenExprToAsgTexpr, m_exprToAsgTexpr, m_setExpressionToAsgType, m_rangeExpressionToAsgType, m_gateCallExprToAsgStmt, m_callExprToAsgTexpr, m_gateOperandToAsgTexpr, m_indexOperatorToAsgType, m_expressionListToAsgType, m_qubitListToAsgTexpr, m_gateOperandsLoop, m_expressionListToAsgTexpr, m_exprsLoop, m_blockExprToAsgStmtList, m_stmtsLoop, m_blockExprToAsgType, m_blockOrStmtToAsgType, m_classicalDeclarationStatementToAsgStmt, m_assignmentStmtToAsgStmt, m_indexedIdentifierToAsgType, m_indexOperatorsLoop⟩ := ih
  unfold Sema.parenExprToAsgTexpr; le

set_option maxHeartbeats 1600000 in
theorem exprToAsgTexpr_mono (fuel : Nat) (ih : AllMono fuel) (e : Option Ast.Expr) :
    Le (Sema.exprToAsgTexpr (fuel + 1) e) (Sema.exprToAsgTexpr (fuel + 1 + 1) e) := by
  obtain ⟨m_stmtToAsgStmt, m_caseExprsLoop, m_exprStmtToAsgStmt, m_modifiersLoop, m_parenExprToAsgTexpr, m_exprToAsgTexpr, m_setExpressionToAsgType, m_rangeExpressionToAsgType, m_gateCallExprToAsgStmt, m_callExprToAsgTexpr, m_gateOperandToAsgTexpr, m_indexOperatorToAsgType, m_expressionListToAsgType, m_qubitListToAsgTexpr, m_gateOperandsLoop, m_expressionListToAsgTexpr, m_exprsLoop, m_blockExprToAsgStmtList, m_stmtsLoop, m_blockExprToAsgType, m_blockOrStmtToAsgType, m_classicalDeclarationStatementToAsgStmt, m_assignmentStmtToAsgStmt, m_indexedIdentifierToAsgType, m_indexOperatorsLoop⟩ := ih
  unfold Sema.exprToAsgTexpr; le

set_option maxHeartbeats 1600000 in
theorem setExpressionToAsgType_mono (fuel : Nat) (ih : AllMono fuel) (se : Ast.SetExpression) :
    Le (Sema.setExpressionToAsgType (fuel + 1) se) (Sema.setExpressionToAsgType (fuel + 1 + 1) se) := by
  obtain ⟨m_stmtToAsgStmt, m_caseExprsLoop, m_exprStmtToAsgStmt, m_modifiersLoop, m_parenExprToAsgTexpr, m_exprToAsgTexpr, m_setExpressionToAsgType, m_rangeExpressionToAsgType, m_gateCallExprToAsgStmt, m_callExprToAsgTexpr, m_gateOperandToAsgTexpr, m_indexOperatorToAsgType, m_expressionListToAsgType, m_qubitListToAsgTexpr, m_gateOperandsLoop, m_expressionListToAsgTexpr, m_exprsLoop, m_blockExprToAsgStmtList, m_stmtsLoop, m_blockExprToAsgType, m_blockOrStmtToAsgType, m_classicalDeclarationStatementToAsgStmt, m_assignmentStmtToAsgStmt, m_indexedIdentifierToAsgType, m_indexOperatorsLoop⟩ := ih
  unfold Sema.setExpressionToAsgType; le

set_option maxHeartbeats 1600000 in
theorem rangeExpressionToAsgType_mono (fuel : Nat) (ih : AllMono fuel) (r : Ast.RangeExpr) :
    Le (Sema.rangeExpressionToAsgType (fuel + 1) r) (Sema.rangeExpressionToAsgType (fuel + 1 + 1) r) := by
  obtain ⟨m_stmtToAsgStmt, m_caseExprsLoop, m_exprStmtToAsgStmt, m_modifiersLoop, m_parenExprToAsgTexpr, m_exprToAsgTexpr, m_setExpressionToAsgType, m_rangeExpressionToAsgType, m_gateCallExprToAsgStmt, m_callExprToAsgTexpr, m_gateOperandToAsgTexpr, m_indexOperatorToAsgType, m_expressionListToAsgType, m_qubitListToAsgTexpr, m_gateOperandsLoop, m_expressionListToAsgTexpr, m_exprsLoop, m_blockExprToAsgStmtList, m_stmtsLoop, m_blockExprToAsgType, m_blockOrStmtToAsgType, m_classicalDeclarationStatementToAsgStmt, m_assignmentStmtToAsgStmt, m_indexedIdentifierToAsgType, m_indexOperatorsLoop⟩ := ih
  unfold Sema.rangeExpressionToAsgType; le

set_option maxHeartbeats 1600000 in
theorem gateCallExprToAsgStmt_mono (fuel : Nat) (ih : AllMono fuel) (gc : Ast.GateCallExpr) (mods : List GateModifier) :
    Le (Sema.gateCallExprToAsgStmt (fuel + 1) gc mods) (Sema.gateCallExprToAsgStmt (fuel + 1 + 1) gc mods) := by
  obtain ⟨m_stmtToAsgStmt, m_caseExprsLoop, m_exprStmtToAsgStmt, m_modifiersLoop, m_parenExprToAsgTexpr, m_exprToAsgTexpr, m_setExpressionToAsgType, m_rangeExpressionToAsgType, m_gateCallExprToAsgStmt, m_callExprToAsgTexpr, m_gateOperandToAsgTexpr, m_indexOperatorToAsgType, m_expressionListToAsgType, m_qubitListToAsgTexpr, m_gateOperandsLoop, m_expressionListToAsgTexpr, m_exprsLoop, m_blockExprToAsgStmtList, m_stmtsLoop, m_blockExprToAsgType, m_blockOrStmtToAsgType, m_classicalDeclarationStatementToAsgStmt, m_assignmentStmtToAsgStmt, m_indexedIdentifierToAsgType, m_indexOperatorsLoop⟩ := ih
  unfold Sema.gateCallExprToAsgStmt; le

set_option maxHeartbeats 1600000 in
theorem callExprToAsgTexpr_mono (fuel : Nat) (ih : AllMono fuel) (sp : Ast.Span) (al : Option Ast.ArgList) (i : Option Ast.Identifier) :
    Le (Sema.callExprToAsgTexpr (fuel + 1) sp al i) (Sema.callExprToAsgTexpr (fuel + 1 + 1) sp al i) := by
  obtain ⟨m_stmtToAsgStmt, m_caseExprsLoop, m_exprStmtToAsgStmt, m_modifiersLoop, m_parenExprToAsgTexpr, m_exprToAsgTexpr, m_setExpressionToAsgType, m_rangeExpressionToAsgType, m_gateCallExprToAsgStmt, m_callExprToAsgTexpr, m_gateOperandToAsgTexpr, m_indexOperatorToAsgType, m_expressionListToAsgType, m_qubitListToAsgTexpr, m_gateOperandsLoop, m_expressionListToAsgTexpr, m_exprsLoop, m_blockExprToAsgStmtList, m_stmtsLoop, m_blockExprToAsgType, m_blockOrStmtToAsgType, m_classicalDeclarationStatementToAsgStmt, m_assignmentStmtToAsgStmt, m_indexedIdentifierToAsgType, m_indexOperatorsLoop⟩ := ih
  unfold Sema.callExprToAsgTexpr; le

set_option maxHeartbeats 1600000 in
theorem gateOperandToAsgTexpr_mono (fuel : Nat) (ih : AllMono fuel) (g : Ast.GateOperand) :
    Le (Sema.gateOperandToAsgTexpr (fuel + 1) g) (Sema.gateOperandToAsgTexpr (fuel + 1 + 1) g) := by
  obtain ⟨m_stmtToAsgStmt, m_caseExprsLoop, m_exprStmtToAsgStmt, m_modifiersLoop, m_parenExprToAsgTexpr, m_exprToAsgTexpr, m_setExpressionToAsgType, m_rangeExpressionToAsgType, m_gateCallExprToAsgStmt, m_callExprToAsgTexpr, m_gateOperandToAsgTexpr, m_indexOperatorToAsgType, m_expressionListToAsgType, m_qubitListToAsgTexpr, m_gateOperandsLoop, m_expressionListToAsgTexpr, m_exprsLoop, m_blockExprToAsgStmtList, m_stmtsLoop, m_blockExprToAsgType, m_blockOrStmtToAsgType, m_classicalDeclarationStatementToAsgStmt, m_assignmentStmtToAsgStmt, m_indexedIdentifierToAsgType, m_indexOperatorsLoop⟩ := ih
  unfold Sema.gateOperandToAsgTexpr; le

set_option maxHeartbeats 1600000 in
theorem indexOperatorToAsgType_mono (fuel : Nat) (ih : AllMono fuel) (ix : Ast.IndexOperator) :
    Le (Sema.indexOperatorToAsgType (fuel + 1) ix) (Sema.indexOperatorToAsgType (fuel + 1 + 1) ix) := by
  obtain ⟨m_stmtToAsgStmt, m_caseExprsLoop, m_exprStmtToAsgStmt, m_modifiersLoop, m_parenExprToAsgTexpr, m_exprToAsgTexpr, m_setExpressionToAsgType, m_rangeExpressionToAsgType, m_gateCallExprToAsgStmt, m_callExprToAsgTexpr, m_gateOperandToAsgTexpr, m_indexOperatorToAsgType, m_expressionListToAsgType, m_qubitListToAsgTexpr, m_gateOperandsLoop, m_expressionListToAsgTexpr, m_exprsLoop, m_blockExprToAsgStmtList, m_stmtsLoop, m_blockExprToAsgType, m_blockOrStmtToAsgType, m_classicalDeclarationStatementToAsgStmt, m_assignmentStmtToAsgStmt, m_indexedIdentifierToAsgType, m_indexOperatorsLoop⟩ := ih
  unfold Sema.indexOperatorToAsgType; le

set_option maxHeartbeats 1600000 in
theorem expressionListToAsgType_mono (fuel : Nat) (ih : AllMono fuel) (el : Ast.ExpressionList) :
    Le (Sema.expressionListToAsgType (fuel + 1) el) (Sema.expressionListToAsgType (fuel + 1 + 1) el) := by
  obtain ⟨m_stmtToAsgStmt, m_caseExprsLoop, m_exprStmtToAsgStmt, m_modifiersLoop, m_parenExprToAsgTexpr, m_exprToAsgTexpr, m_setExpressionToAsgType, m_rangeExpressionToAsgType, m_gateCallExprToAsgStmt, m_callExprToAsgTexpr, m_gateOperandToAsgTexpr, m_indexOperatorToAsgType, m_expressionListToAsgType, m_qubitListToAsgTexpr, m_gateOperandsLoop, m_expressionListToAsgTexpr, m_exprsLoop, m_blockExprToAsgStmtList, m_stmtsLoop, m_blockExprToAsgType, m_blockOrStmtToAsgType, m_classicalDeclarationStatementToAsgStmt, m_assignmentStmtToAsgStmt, m_indexedIdentifierToAsgType, m_indexOperatorsLoop⟩ := ih
  unfold Sema.expressionListToAsgType; le

set_option maxHeartbeats 1600000 in
theorem qubitListToAsgTexpr_mono (fuel : Nat) (ih : AllMono fuel) (ql : Option Ast.QubitList) :
    Le (Sema.qubitListToAsgTexpr (fuel + 1) ql) (Sema.qubitListToAsgTexpr (fuel + 1 + 1) ql) := by
  obtain ⟨m_stmtToAsgStmt, m_caseExprsLoop, m_exprStmtToAsgStmt, m_modifiersLoop, m_parenExprToAsgTexpr, m_exprToAsgTexpr, m_setExpressionToAsgType, m_rangeExpressionToAsgType, m_gateCallExprToAsgStmt, m_callExprToAsgTexpr, m_gateOperandToAsgTexpr, m_indexOperatorToAsgType, m_expressionListToAsgType, m_qubitListToAsgTexpr, m_gateOperandsLoop, m_expressionListToAsgTexpr, m_exprsLoop, m_blockExprToAsgStmtList, m_stmtsLoop, m_blockExprToAsgType, m_blockOrStmtToAsgType, m_classicalDeclarationStatementToAsgStmt, m_assignmentStmtToAsgStmt, m_indexedIdentifierToAsgType, m_indexOperatorsLoop⟩ := ih
  unfold Sema.qubitListToAsgTexpr; le

set_option maxHeartbeats 1600000 in
theorem gateOperandsLoop_mono (fuel : Nat) (ih : AllMono fuel) (gs : List Ast.GateOperand) :
    Le (Sema.gateOperandsLoop (fuel + 1) gs) (Sema.gateOperandsLoop (fuel + 1 + 1) gs) := by
  obtain ⟨m_stmtToAsgStmt, m_caseExprsLoop, m_exprStmtToAsgStmt, m_modifiersLoop, m_parenExprToAsgTexpr, m_exprToAsgTexpr, m_setExpressionToAsgType, m_rangeExpressionToAsgType, m_gateCallExprToAsgStmt, m_callExprToAsgTexpr, m_gateOperandToAsgTexpr, m_indexOperatorToAsgType, m_expressionListToAsgType, m_qubitListToAsgTexpr, m_gateOperandsLoop, m_expressionListToAsgTexpr, m_exprsLoop, m_blockExprToAsgStmtList, m_stmtsLoop, m_blockExprToAsgType, m_blockOrStmtToAsgType, m_classicalDeclarationStatementToAsgStmt, m_assignmentStmtToAsgStmt, m_indexedIdentifierToAsgType, m_indexOperatorsLoop⟩ := ih
  unfold Sema.gateOperandsLoop; le

set_option maxHeartbeats 1600000 in
theorem expressionListToAsgTexpr_mono (fuel : Nat) (ih : AllMono fuel) (el : Ast.ExpressionList) :
    Le (Sema.expressionListToAsgTexpr (fuel + 1) el) (Sema.expressionListToAsgTexpr (fuel + 1 + 1) el) := by
  obtain ⟨m_stmtToAsgStmt, m_caseExprsLoop, m_exprStmtToAsgStmt, m_modifiersLoop, m_parenExprToAsgTexpr, m_exprToAsgTexpr, m_setExpressionToAsgType, m_rangeExpressionToAsgType, m_gateCallExprToAsgStmt, m_callExprToAsgTexpr, m_gateOperandToAsgTexpr, m_indexOperatorToAsgType, m_expressionListToAsgType, m_qubitListToAsgTexpr, m_gateOperandsLoop, m_expressionListToAsgTexpr, m_exprsLoop, m_blockExprToAsgStmtList, m_stmtsLoop, m_blockExprToAsgType, m_blockOrStmtToAsgType, m_classicalDeclarationStatementToAsgStmt, m_assignmentStmtToAsgStmt, m_indexedIdentifierToAsgType, m_indexOperatorsLoop⟩ := ih
  unfold Sema.expressionListToAsgTexpr; le

set_option maxHeartbeats 1600000 in
theorem exprsLoop_mono (fuel : Nat) (ih : AllMono fuel) (es : List Ast.Expr) :
    Le (Sema.exprsLoop (fuel + 1) es) (Sema.exprsLoop (fuel + 1 + 1) es) := by
  obtain ⟨m_stmtToAsgStmt, m_caseExprsLoop, m_exprStmtToAsgStmt, m_modifiersLoop, m_parenExprToAsgTexpr, m_exprToAsgTexpr, m_setExpressionToAsgType, m_rangeExpressionToAsgType, m_gateCallExprToAsgStmt, m_callExprToAsgTexpr, m_gateOperandToAsgTexpr, m_indexOperatorToAsgType, m_expressionListToAsgType, m_qubitListToAsgTexpr, m_gateOperandsLoop, m_expressionListToAsgTexpr, m_exprsLoop, m_blockExprToAsgStmtList, m_stmtsLoop, m_blockExprToAsgType, m_blockOrStmtToAsgType, m_classicalDeclarationStatementToAsgStmt, m_assignmentStmtToAsgStmt, m_indexedIdentifierToAsgType, m_indexOperatorsLoop⟩ := ih
  unfold Sema.exprsLoop; le

set_option maxHeartbeats 1600000 in
theorem blockExprToAsgStmtList_mono (fuel : Nat) (ih : AllMono fuel) (b : Ast.BlockExpr) :
    Le (Sema.blockExprToAsgStmtList (fuel + 1) b) (Sema.blockExprToAsgStmtList (fuel + 1 + 1) b) := by
  obtain ⟨m_stmtToAsgStmt, m_caseExprsLoop, m_exprStmtToAsgStmt, m_modifiersLoop, m_parenExprToAsgTexpr, m_exprToAsgTexpr, m_setExpressionToAsgType, m_rangeExpressionToAsgType, m_gateCallExprToAsgStmt, m_callExprToAsgTexpr, m_gateOperandToAsgTexpr, m_indexOperatorToAsgType, m_expressionListToAsgType, m_qubitListToAsgTexpr, m_gateOperandsLoop, m_expressionListToAsgTexpr, m_exprsLoop, m_blockExprToAsgStmtList, m_stmtsLoop, m_blockExprToAsgType, m_blockOrStmtToAsgType, m_classicalDeclarationStatementToAsgStmt, m_assignmentStmtToAsgStmt, m_indexedIdentifierToAsgType, m_indexOperatorsLoop⟩ := ih
  unfold Sema.blockExprToAsgStmtList; le

set_option maxHeartbeats 1600000 in
theorem stmtsLoop_mono (fuel : Nat) (ih : AllMono fuel) (ss : List Ast.Stmt) :
    Le (Sema.stmtsLoop (fuel + 1) ss) (Sema.stmtsLoop (fuel + 1 + 1) ss) := by
  obtain ⟨m_stmtToAsgStmt, m_caseExprsLoop, m_exprStmtToAsgStmt, m_modifiersLoop, m_parenExprToAsgTexpr, m_exprToAsgTexpr, m_setExpressionToAsgType, m_rangeExpressionToAsgType, m_gateCallExprToAsgStmt, m_callExprToAsgTexpr, m_gateOperandToAsgTexpr, m_indexOperatorToAsgType, m_expressionListToAsgType, m_qubitListToAsgTexpr, m_gateOperandsLoop, m_expressionListToAsgTexpr, m_exprsLoop, m_blockExprToAsgStmtList, m_stmtsLoop, m_blockExprToAsgType, m_blockOrStmtToAsgType, m_classicalDeclarationStatementToAsgStmt, m_assignmentStmtToAsgStmt, m_indexedIdentifierToAsgType, m_indexOperatorsLoop⟩ := ih
  unfold Sema.stmtsLoop; le

set_option maxHeartbeats 1600000 in
theorem blockExprToAsgType_mono (fuel : Nat) (ih : AllMono fuel) (b : Ast.BlockExpr) :
    Le (Sema.blockExprToAsgType (fuel + 1) b) (Sema.blockExprToAsgType (fuel + 1 + 1) b) := by
  obtain ⟨m_stmtToAsgStmt, m_caseExprsLoop, m_exprStmtToAsgStmt, m_modifiersLoop, m_parenExprToAsgTexpr, m_exprToAsgTexpr, m_setExpressionToAsgType, m_rangeExpressionToAsgType, m_gateCallExprToAsgStmt, m_callExprToAsgTexpr, m_gateOperandToAsgTexpr, m_indexOperatorToAsgType, m_expressionListToAsgType, m_qubitListToAsgTexpr, m_gateOperandsLoop, m_expressionListToAsgTexpr, m_exprsLoop, m_blockExprToAsgStmtList, m_stmtsLoop, m_blockExprToAsgType, m_blockOrStmtToAsgType, m_classicalDeclarationStatementToAsgStmt, m_assignmentStmtToAsgStmt, m_indexedIdentifierToAsgType, m_indexOperatorsLoop⟩ := ih
  unfold Sema.blockExprToAsgType; le

set_option maxHeartbeats 1600000 in
theorem blockOrStmtToAsgType_mono (fuel : Nat) (ih : AllMono fuel) (b : Ast.BlockOrStmt) :
    Le (Sema.blockOrStmtToAsgType (fuel + 1) b) (Sema.blockOrStmtToAsgType (fuel + 1 + 1) b) := by
  obtain ⟨m_stmtToAsgStmt, m_caseExprsLoop, m_exprStmtToAsgStmt, m_modifiersLoop, m_parenExprToAsgTexpr, m_exprToAsgTexpr, m_setExpressionToAsgType, m_rangeExpressionToAsgType, m_gateCallExprToAsgStmt, m_callExprToAsgTexpr, m_gateOperandToAsgTexpr, m_indexOperatorToAsgType, m_expressionListToAsgType, m_qubitListToAsgTexpr, m_gateOperandsLoop, m_expressionListToAsgTexpr, m_exprsLoop, m_blockExprToAsgStmtList, m_stmtsLoop, m_blockExprToAsgType, m_blockOrStmtToAsgType, m_classicalDeclarationStatementToAsgStmt, m_assignmentStmtToAsgStmt, m_indexedIdentifierToAsgType, m_indexOperatorsLoop⟩ := ih
  unfold Sema.blockOrStmtToAsgType; le

set_option maxHeartbeats 1600000 in
theorem classicalDeclarationStatementToAsgStmt_mono (fuel : Nat) (ih : AllMono fuel) (sp : Ast.Span) (arr : Bool) (st : Option Ast.ScalarType) (ct : Bool) (n : Option Ast.Name) (e : Option Ast.Expr) :
    Le (Sema.classicalDeclarationStatementToAsgStmt (fuel + 1) sp arr st ct n e) (Sema.classicalDeclarationStatementToAsgStmt (fuel + 1 + 1) sp arr st ct n e) := by
  obtain ⟨m_stmtToAsgStmt, m_caseExprsLoop, m_exprStmtToAsgStmt, m_modifiersLoop, m_parenExprToAsgTexpr, m_exprToAsgTexpr, m_setExpressionToAsgType, m_rangeExpressionToAsgType, m_gateCallExprToAsgStmt, m_callExprToAsgTexpr, m_gateOperandToAsgTexpr, m_indexOperatorToAsgType, m_expressionListToAsgType, m_qubitListToAsgTexpr, m_gateOperandsLoop, m_expressionListToAsgTexpr, m_exprsLoop, m_blockExprToAsgStmtList, m_stmtsLoop, m_blockExprToAsgType, m_blockOrStmtToAsgType, m_classicalDeclarationStatementToAsgStmt, m_assignmentStmtToAsgStmt, m_indexedIdentifierToAsgType, m_indexOperatorsLoop⟩ := ih
  unfold Sema.classicalDeclarationStatementToAsgStmt; le

set_option maxHeartbeats 1600000 in
theorem assignmentStmtToAsgStmt_mono (fuel : Nat) (ih : AllMono fuel) (sp : Ast.Span) (i : Option Ast.Identifier) (rhs : Option Ast.Expr) (ii : Option Ast.IndexedIdentifier) :
    Le (Sema.assignmentStmtToAsgStmt (fuel + 1) sp i rhs ii) (Sema.assignmentStmtToAsgStmt (fuel + 1 + 1) sp i rhs ii) := by
  obtain ⟨m_stmtToAsgStmt, m_caseExprsLoop, m_exprStmtToAsgStmt, m_modifiersLoop, m_parenExprToAsgTexpr, m_exprToAsgTexpr, m_setExpressionToAsgType, m_rangeExpressionToAsgType, m_gateCallExprToAsgStmt, m_callExprToAsgTexpr, m_gateOperandToAsgTexpr, m_indexOperatorToAsgType, m_expressionListToAsgType, m_qubitListToAsgTexpr, m_gateOperandsLoop, m_expressionListToAsgTexpr, m_exprsLoop, m_blockExprToAsgStmtList, m_stmtsLoop, m_blockExprToAsgType, m_blockOrStmtToAsgType, m_classicalDeclarationStatementToAsgStmt, m_assignmentStmtToAsgStmt, m_indexedIdentifierToAsgType, m_indexOperatorsLoop⟩ := ih
  unfold Sema.assignmentStmtToAsgStmt; le

set_option maxHeartbeats 1600000 in
theorem indexedIdentifierToAsgType_mono (fuel : Nat) (ih : AllMono fuel) (ii : Ast.IndexedIdentifier) :
    Le (Sema.indexedIdentifierToAsgType (fuel + 1) ii) (Sema.indexedIdentifierToAsgType (fuel + 1 + 1) ii) := by
  obtain ⟨m_stmtToAsgStmt, m_caseExprsLoop, m_exprStmtToAsgStmt, m_modifiersLoop, m_parenExprToAsgTexpr, m_exprToAsgTexpr, m_setExpressionToAsgType, m_rangeExpressionToAsgType, m_gateCallExprToAsgStmt, m_callExprToAsgTexpr, m_gateOperandToAsgTexpr, m_indexOperatorToAsgType, m_expressionListToAsgType, m_qubitListToAsgTexpr, m_gateOperandsLoop, m_expressionListToAsgTexpr, m_exprsLoop, m_blockExprToAsgStmtList, m_stmtsLoop, m_blockExprToAsgType, m_blockOrStmtToAsgType, m_classicalDeclarationStatementToAsgStmt, m_assignmentStmtToAsgStmt, m_indexedIdentifierToAsgType, m_indexOperatorsLoop⟩ := ih
  unfold Sema.indexedIdentifierToAsgType; le

set_option maxHeartbeats 1600000 in
theorem indexOperatorsLoop_mono (fuel : Nat) (ih : AllMono fuel) (ixs : List Ast.IndexOperator) :
    Le (Sema.indexOperatorsLoop (fuel + 1) ixs) (Sema.indexOperatorsLoop (fuel + 1 + 1) ixs) := by
  obtain ⟨m_stmtToAsgStmt, m_caseExprsLoop, m_exprStmtToAsgStmt, m_modifiersLoop, m_parenExprToAsgTexpr, m_exprToAsgTexpr, m_setExpressionToAsgType, m_rangeExpressionToAsgType, m_gateCallExprToAsgStmt, m_callExprToAsgTexpr, m_gateOperandToAsgTexpr, m_indexOperatorToAsgType, m_expressionListToAsgType, m_qubitListToAsgTexpr, m_gateOperandsLoop, m_expressionListToAsgTexpr, m_exprsLoop, m_blockExprToAsgStmtList, m_stmtsLoop, m_blockExprToAsgType, m_blockOrStmtToAsgType, m_classicalDeclarationStatementToAsgStmt, m_assignmentStmtToAsgStmt, m_indexedIdentifierToAsgType, m_indexOperatorsLoop⟩ := ih
  unfold Sema.indexOperatorsLoop; le

theorem allMono (fuel : Nat) : AllMono fuel := by
  induction fuel with
  | zero =>
    constructor
    · intros; conv => lhs; unfold Sema.stmtToAsgStmt
      exact Le.throw_left _ _
    · intros; conv => lhs; unfold Sema.caseExprsLoop
      exact Le.throw_left _ _
    · intros; conv => lhs; unfold Sema.exprStmtToAsgStmt
      exact Le.throw_left _ _
    · intros; conv => lhs; unfold Sema.modifiersLoop
      exact Le.throw_left _ _
    · intros; conv => lhs; unfold Sema.parenExprToAsgTexpr
      exact Le.throw_left _ _
    · intros; conv => lhs; unfold Sema.exprToAsgTexpr
      exact Le.throw_left _ _
    · intros; conv => lhs; unfold Sema.setExpressionToAsgType
      exact Le.throw_left _ _
    · intros; conv => lhs; unfold Sema.rangeExpressionToAsgType
      exact Le.throw_left _ _
    · intros; conv => lhs; unfold Sema.gateCallExprToAsgStmt
      exact Le.throw_left _ _
    · intros; conv => lhs; unfold Sema.callExprToAsgTexpr
      exact Le.throw_left _ _
    · intros; conv => lhs; unfold Sema.gateOperandToAsgTexpr
      exact Le.throw_left _ _
    · intros; conv => lhs; unfold Sema.indexOperatorToAsgType
      exact Le.throw_left _ _
    · intros; conv => lhs; unfold Sema.expressionListToAsgType
      exact Le.throw_left _ _
    · intros; conv => lhs; unfold Sema.qubitListToAsgTexpr
      exact Le.throw_left _ _
    · intros; conv => lhs; unfold Sema.gateOperandsLoop
      exact Le.throw_left _ _
    · intros; conv => lhs; unfold Sema.expressionListToAsgTexpr
      exact Le.throw_left _ _
    · intros; conv => lhs; unfold Sema.exprsLoop
      exact Le.throw_left _ _
    · intros; conv => lhs; unfold Sema.blockExprToAsgStmtList
      exact Le.throw_left _ _
    · intros; conv => lhs; unfold Sema.stmtsLoop
      exact Le.throw_left _ _
    · intros; conv => lhs; unfold Sema.blockExprToAsgType
      exact Le.throw_left _ _
    · intros; conv => lhs; unfold Sema.blockOrStmtToAsgType
      exact Le.throw_left _ _
    · intros; conv => lhs; unfold Sema.classicalDeclarationStatementToAsgStmt
      exact Le.throw_left _ _
    · intros; conv => lhs; unfold Sema.assignmentStmtToAsgStmt
      exact Le.throw_left _ _
    · intros; conv => lhs; unfold Sema.indexedIdentifierToAsgType
      exact Le.throw_left _ _
    · intros; conv => lhs; unfold Sema.indexOperatorsLoop
      exact Le.throw_left _ _
  | succ fuel ih =>
    constructor
    · intros; exact stmtToAsgStmt_mono fuel ih _
    · intros; exact caseExprsLoop_mono fuel ih _
    · intros; exact exprStmtToAsgStmt_mono fuel ih _
    · intros; exact modifiersLoop_mono fuel ih _
    · intros; exact parenExprToAsgTexpr_mono fuel ih _
    · intros; exact exprToAsgTexpr_mono fuel ih _
    · intros; exact setExpressionToAsgType_mono fuel ih _
    · intros; exact rangeExpressionToAsgType_mono fuel ih _
    · intros; exact gateCallExprToAsgStmt_mono fuel ih _ _
    · intros; exact callExprToAsgTexpr_mono fuel ih _ _ _
    · intros; exact gateOperandToAsgTexpr_mono fuel ih _
    · intros; exact indexOperatorToAsgType_mono fuel ih _
    · intros; exact expressionListToAsgType_mono fuel ih _
    · intros; exact qubitListToAsgTexpr_mono fuel ih _
    · intros; exact gateOperandsLoop_mono fuel ih _
    · intros; exact expressionListToAsgTexpr_mono fuel ih _
    · intros; exact exprsLoop_mono fuel ih _
    · intros; exact blockExprToAsgStmtList_mono fuel ih _
    · intros; exact stmtsLoop_mono fuel ih _
    · intros; exact blockExprToAsgType_mono fuel ih _
    · intros; exact blockOrStmtToAsgType_mono fuel ih _
    · intros; exact classicalDeclarationStatementToAsgStmt_mono fuel ih _ _ _ _ _ _
    · intros; exact assignmentStmtToAsgStmt_mono fuel ih _ _ _ _
    · intros; exact indexedIdentifierToAsgType_mono fuel ih _
    · intros; exact indexOperatorsLoop_mono fuel ih _

/-- more fuel never changes a successful run (any of the twenty-five functions; stated for the
statement function) -/
theorem stmtToAsgStmt_mono_le {fuel fuel' : Nat} (h : fuel ≤ fuel') (st : Ast.Stmt) :
    Le (Sema.stmtToAsgStmt fuel st) (Sema.stmtToAsgStmt fuel' st) := by
  induction h with
  | refl => exact Le.refl _
  | step _ ih => exact ih.trans ((allMono _).stmtToAsgStmt st)

theorem syntaxToSemanticLoop_mono_step (fuel : Nat) (ss : List Ast.Stmt) :
    Le (Sema.syntaxToSemanticLoop fuel ss) (Sema.syntaxToSemanticLoop (fuel + 1) ss) := by
  induction fuel generalizing ss with
  | zero => conv => lhs; unfold Sema.syntaxToSemanticLoop
            exact Le.throw_left _ _
  | succ fuel ih =>
    have m_stmt := (allMono fuel).stmtToAsgStmt
    unfold Sema.syntaxToSemanticLoop
    repeat' first
      | (le_head Sema.stmtToAsgStmt; exact m_stmt _)
      | (le_head Sema.syntaxToSemanticLoop; exact ih _)
      | le_step

/-- the top-level loop: more fuel never changes a successful run -/
theorem syntaxToSemanticLoop_mono {fuel fuel' : Nat} (h : fuel ≤ fuel') (ss : List Ast.Stmt) :
    Le (Sema.syntaxToSemanticLoop fuel ss) (Sema.syntaxToSemanticLoop fuel' ss) := by
  induction h with
  | refl => exact Le.refl _
  | step _ ih => exact ih.trans (syntaxToSemanticLoop_mono_step _ ss)

end Oq3.C18E
