/-
C02 — the final, hypothesis-free form: for EVERY Unicode class table and EVERY text, whenever
the (model) parser returns on the lexer's output, `build_tree` returns one tree whose leaves
spell the input exactly, and reports `is_eof`.
Composition of: lexer partition (C14), `to_input` exactness and the builder fit theorem
(Lemmas/Bridge, BuilderFit), the parser-state invariant of every grammar function
(Lemmas/GrammarInv, ParseTop), `process` (Lemmas/Process) and the builder (Props/C02).
-/
import Oq3.Props.C02Full
import Oq3.Props.C01

namespace Oq3.Props.C02
open Oq3.Gen Oq3.Parser Oq3.Grammar Oq3.Builder Oq3.Lexer Oq3.Lexed Oq3.Bridge

theorem glueKE_eq (kinds : Array SyntaxKind) (c : Nat) (evs : List Ev) :
    Oq3.Props.C02.glueKE kinds c evs = Oq3.Parser.glueKE kinds c evs := by
  induction evs generalizing c with
  | nil => rfl
  | cons e es ih => cases e <;> simp [Oq3.Props.C02.glueKE, Oq3.Parser.glueKE, ih]

/-- **Lossless, end to end.** -/
theorem lossless (uc : UC) (s : List Char) (l : LexedStr) (inp : Input)
    (fuel npl : Nat) (events : Array Ev) (pos : Nat)
    (hl : LexedStr.new uc s = some l) (hi : l.toInput = some inp)
    (hp : parseSourceFile fuel inp.kind.toArray inp.joint.toArray npl = .ok (events, pos)) :
    ∃ steps tree errs, process events.toList = some steps ∧
      buildTree (rawToksOf l) steps = .ok (tree, errs, true) ∧ tree.text = s := by
  obtain ⟨steps, hs, _, _⟩ := Oq3.Props.C01.process_never_panics fuel _ _ npl events pos hp
  have hpo := Oq3.Props.C01.parse_ok fuel _ _ npl events pos hp
  obtain ⟨tree, errs, hb, ht⟩ := lossless_end_to_end' uc s l inp fuel npl events pos steps hl hi hp hs
    (by rw [glueKE_eq]; exact hpo.gluek)
  exact ⟨steps, tree, errs, hs, hb, ht⟩

end Oq3.Props.C02
